import Bardolph.Proofs.SimLoad
import Bardolph.Proofs.SimCalls
import Bardolph.Proofs.SimVals
import Bardolph.Proofs.SimTop
import Bardolph.Proofs.SimDefs
/-!
# C01 — the compiled code does what the source says (simulation; scripts of the fragment with
routine definitions anywhere, through the loader)

`Sem` is the source-level semantics (the specification), `Gen` the code generator, `Vm` the
machine.  For every block of the fragment `Sim.FragBlock` (below) and every fuel: if the source
semantics runs the block from `σ` to `σ'` with outcome `normal`, then the machine, started in any
state `s` related to `σ` by `Sim.Sim` with the block's code at its program counter, reaches in
finitely many steps a state `s'` related to `σ'`, with the program counter just past the code
(`C01_gen_sim_partial`; with `break`, inside loops and inside routines: `C01_gen_sim_block`).

`Sim.Sim K stk σ s` (`Proofs/Sim.lean`, `SimU` with no pending `printf` values) says: both are
running; `s` has no pending output; `stk : Sim.Stk` are the control stacks of the current
activation as the generated code sees them between two statements — its loop frames `stk.frames`
(innermost first) and the evaluation stack `stk.ev`, which is exactly `s.eval` (EMPTY at top level
outside loops over names; inside such a loop it holds the names still to visit, inside a callee the
caller's stack) and which is what the loop frames recorded (`Sim.EvOk`: below what was pushed since
the innermost `LOOP` lies the stack as it was at that `LOOP`, whose height the frame holds; at the
bottom the stack on entry of the activation); the frame stack of `s` is `stk.frames` on top of — at
top level (`K.ret = none`) nothing, with
`σ.locals = none`; inside a routine call (`K.ret = some (ret, rest, ev)`) the call frame holding
exactly `σ.locals` with return address `ret`, on top of the caller's frames `rest` (and `ev` is the
caller's evaluation stack, which a `return` restores);
`σ.routines` is the script's routine table `K.routines`; `Sim.RegsOk`: the unit-mode register holds
a unit mode and `disc_forward` is false (invariants of every run from the initial state: the code of
`cycle` loops tests the former, the discovery instructions walk backwards because of the latter);
and globals, constants (macros), lights,
the trace of events (device commands, delays, output), default colour, matrix, random draws and
EVERY register except `result` are EQUAL.  `result` is the generated code's scratch register
(conditions, printed values, `get` names, arguments and returned values pass through it); the
source semantics does not model it.

The fragment (`Sim.FragStmt V` / `FragBlock V` / `FragOperand(s) V` in `Proofs/SimStmts.lean`; the
parameter `V : String → Prop` says which routines may be called FOR THEIR VALUE, see below):
* value positions WITH CALLS (`Sim.RvC V`, `ExprC V`, `ArgsC V` in `Proofs/SimX.lean`): literal,
  variable, register other than `result`, `{expression}` of any depth — operators, parentheses and
  calls `f(args)` —, `[f args]`; the arguments of a call are value positions of the same kind (calls
  as arguments of calls, to any depth), the parameter names distinct, the routine in `V`;
  call-free value positions (`Sim.RvOK`) are the same without the calls;
* EVERY value position of every statement below is a value position WITH CALLS, except the
  arguments of `printf`, which are call-free;
* `setReg r v` (`Sim.SettableReg r`: `r ≠ unitMode`, `r ≠ discForward`), `assign n v`, `print v`,
  `println v`, `get v`; `printf` (call-free arguments, at least as many
  positional fields as arguments, no field named `result`), `defMacro`, `wait`, `units`, `timeAt`;
* `actAll`, `setDefault w`, `stage`, `action k w ops` (the flag `w`: the command has a `WAIT` of its
  own — everywhere but lexically inside a matrix block, see below) with operands `light`/`group`/`location`
  (name as string or variable), `zone`, `matrixInline`, `matrixBlock` with ANY body
  of the fragment;
* `ite c t e` with or without `else`, nested to any depth;
* EVERY form of `repeat`, nested to any depth, with `brk` anywhere in the bodies (inside `ite`,
  inside a matrix body, …): `repeat_ (.count n)`, `repeat_ (.while_ c)`, `repeat_ .forever`; the
  index-variable forms
  `repeat_ (.range v a b)` (`repeat with v from a to b`), `repeat_ (.interp n v a b)`
  (`repeat n with v from a to b`), `repeat_ (.cycle n v start)` (`repeat n with v cycle [start]`)
  — the body may read and ASSIGN the index variable, and the variable may be read after the loop —;
  and the loops over names `repeat_ (.all lv w)`, `(.groups lv w)`, `(.locations lv w)`,
  `(.iter items lv w)` (`repeat all|group|location|in a and group g and location l … as lv [with
  v from a to b | with v cycle [s]]`), a `break` or `return` inside
  which drops the names still waiting on the evaluation stack;
* `call f ps as` as a statement and `ret v` from any loop depth inside a routine, arguments and
  returned value being value positions WITH CALLS — any depth of
  nesting and recursion (the induction is on the fuel of `Sem`, not on the program), also from
  inside loops over names and from inside expressions (the callee runs above the caller's evaluation
  stack, with the operands of the expression under evaluation and the `CTX` frames of the calls
  whose arguments are being evaluated in place: `Sim.SimX`).  The routines are given by the hypothesis
  `Sim.RoutinesAt V img R`: every routine of the table `R` has a body of the fragment whose code,
  followed by `END`, sits at the address the image's routine table gives (as the loader lays
  routines out), no other name is in the image's table, and the routines in `V` END WITH A `return`
  (`Sim.EndsRet`).  Built-in functions may always be called for their value.
Why `V`: a routine that runs off its end leaves the `result` register as the last statement left it
(the machine has no instruction that clears it), so `assign x [f]` with such an `f` assigns stale
scratch on the machine — and on the REAL implementation — while `Sem` says `None`
(`define f begin print 5 end  assign x [f]  print x` prints 5 twice on the real machine).  Calls as
STATEMENTS need no such condition.
Routine DEFINITIONS are covered by `C01_gen_sim_defs` (below), wherever they stand — top level,
inside `if` branches, `repeat` bodies and matrix-block bodies, at any depth (`Sim.DefBlock V b`: the script with every
definition replaced by a statement that does nothing, `Sim.stripB b`, is in the fragment, and the
bodies of the definitions are blocks of the fragment): the hypothesis `RoutinesAt` is PROVED of
the image `Loader.load` makes, and the machine runs from its initial state — through the loader's
`JUMP` over the routines — to `halted`.  (`C01_gen_sim_top` is the earlier, direct proof for
definitions at the top level only.)
Not covered: routine definitions inside routine bodies (rejected by the compiler); calls in the
arguments
of `printf` (values already queued for the `printf` would have to survive the call: the relation
in a callee has no pending output).

Changes of `Sem` made together with these extensions (the statements of the theorems did not change
in form — `stk` is now a `Sim.Stk`, `C01_gen_sim_return` also says which evaluation stack is left —
their meaning follows `Sem`; all of it was validated against the REAL implementation by
`./check C04`, `C01`, `C03`, `C15`):
* the index variable of the `with` forms is an ordinary
  variable, as on the machine — the operands are evaluated once, in the order of the generated code;
  the variable is given its first value whatever the count (a count of 0 or a negative count makes
  no pass but still assigns it); after every pass that runs to its end the increment is ADDED to what
  the variable then holds (`Sem.execPasses`), so after the loop it is one increment past its last
  value, `break` leaves it as it is, and an assignment in the body carries over to the next pass
  (the number of passes is not affected).  Before, `Sem` bound precomputed values pass by pass and
  assigned nothing without a pass — which the machine does not do; `harness/c04.py` reads the
  variable after loops of every form against the real implementation;
* COMMANDS INSIDE A MATRIX BLOCK have no `WAIT` of their own — the block is one command on the time
  line: the real parser emits the `WAIT` of `on`/`off`/`set …`/`set default` only
  `if not (in_matrix() or …)` (`parse.py: _action`), and `context.py` keeps `in_matrix` through a
  routine definition (a routine DEFINED inside a block is compiled without `WAIT`s wherever it is
  called from; one defined outside keeps them when called from inside a block).  `Gen` and `Sem`
  always gave such a command its own wait.  Now `Stmt.action k w ops` and `Stmt.setDefault w` carry
  the flag `w` ("waits"), `Gen` emits and `Sem` performs the wait iff `w`, and `Block.lexical`
  (`Model/Ast.lean`) sets the flag from the position exactly as `context.py` does; the driver's
  reader applies it to every script (`Driver/Ast.lean: toProgram`).  The theorems below hold for
  EVERY assignment of the flags (the lexical one included), `stmt_action_nowait` /
  `stmt_setDefault_nowait` being the new cases; the tenth example is a script with commands inside
  a block.  `stage` inside a routine body, `get`, `wait`, definitions inside a block were already
  as the parser has them (`Model/ParseTok.lean`, which mirrors the parser, is the reference;
  `harness/c01.py` compares `Gen` with it on every generated script: stream `gen-vs-parsetok`);
* THE RESULT OF A MATRIX BLOCK GOES TO THE LIGHT NAMED IN THE `set`, whatever commands inside the
  block did to the NAME register: the generator feature `matrix_rich` found that the real machine
  sent it to the light NAME held at `END` (another light, none, or an AttributeError abort); the
  real parser was repaired (repository commit 9355d2b: the instruction that loads NAME is emitted
  again after `END matrix` of a `begin … end` block, not of the one-line form;
  `_color_matrix_light` skips when there is no matrix).  `Gen.genOperand (.matrixBlock n body)` has
  `genName n` again after `.endMatrix`, `Sem.execOperand` loads the name again after the body,
  `Model/ParseTok.lean` emits the instruction again, `Vm.State.doColor` sends nothing when there is
  no matrix.  `C15_inline_is_single_stage` says exactly this difference between the two forms.
  `C15_matrix_once` keeps the hypotheses `m.height = h`, `m.width = w`: a routine called inside a
  block may open a block of its own on another matrix light, after which the outer block's light
  is sent the cells of that matrix (real machine and model alike);
* `Sem.collect` also collects the routine definitions inside the bodies of MATRIX BLOCKS (the
  loader extracts them like any other, and the real implementation runs
  `set "m" begin define f begin print 7 end stage row 0 end  f`; `Sem` said "unknown routine f");
* the sources of `repeat in a and b and …` are EVALUATED from the last to the first (they are
  still VISITED in the order written; only calls in the names of sources could tell, and those are
  outside the fragment); the members of a group or location are visited once each (`dedupSorted`;
  the real directory cannot hold two lights of one name, the model's list of lights can); and a
  loop over names leaves the kind of what it walked (`light`, `group`, `location`) in the `operand`
  register, which the discovery instructions read (`print operand` would show it).

The full statement (`gen_sim`, DESIGN §6 C01), of which the theorems below are the part proved:

    theorem C01_gen_sim (b : Block) (hwf : WellFormed b) (code : List Instr)
        (hcode : Gen.genProgram b = some code) (f : Nat) (lights : List Light) (σ' : S)
        (h : Sem.run f b lights = (.normal, σ')) :
        ∃ k, (run (Loader.load code) k (Vm.init lights)).status = .halted ∧
          (Vm.finish (run (Loader.load code) k (Vm.init lights))).trace = .flush :: σ'.vm.trace

for every well-formed script `b` (all statement forms, routines defined anywhere).
`C01_gen_sim_defs` is exactly this statement with `WellFormed b` replaced by
`Sim.DefBlock V b ∧ Closed.wsBlock Kn false false false b = true`: statements of the fragment and
routine definitions (top level or nested in `if` / `repeat` / matrix-block bodies) with bodies of the fragment
(those in `V` ending with `return`), accepted by the scope check that the compiler makes
(`Closed.wsBlock`, the predicate of C06: calls of known names only, `return` only inside routines,
`break` only inside loops, no definition inside a routine).  The scope check is used through C06's
`Closed.closed_stmt` / `closed_block`: every jump of a piece of generated code stays inside that
piece.  `C01_gen_sim_loaded` is the special case without definitions (there with no scope
hypothesis), `C01_gen_sim_top` the case of top-level definitions proved directly.
How `C01_gen_sim_defs` is proved:
* `Sim.strip_sem` (`Proofs/SimDefs.lean`): `Sem` computes the same for `b` and for `stripB b`
  (every `defRoutine` replaced by `time at` with no pattern, which does nothing and compiles to no
  code) — a definition acts through `Sem.collect`, not where it stands;
* `Sim.mloc_stmt` / `mloc_block` (`Proofs/SimReloc.lean`): the loader's main part of the code of
  `b` — sections cut out, jumps re-measured between the new positions — IS the code of `stripB b`.
  `mloc` of a piece whose jumps stay inside it does not depend on the surrounding program
  (`mctx_closed`), so it is computed piece by piece (`InCtx`); the shapes with jumps ACROSS
  sub-blocks are mapped to themselves: `mloc_genIf_none`, `mloc_genIf_some`, `mloc_assembleLoop`
  (whose `break` jumps are handled by `InCtx.patch`: patching commutes with the loader);
* `Sim.load_defs`: hence `Loader.load code` is `JUMP`, the sections in the order of `Sem.collect`
  (C06's `split_block` + `Sim.defsB_collect`), the code of `stripB b`, with the routine table of
  `Sim.routinesAt_image` (`spans_forall2` + `find_rev_forall2`: the table is searched from its
  reversed end, so the LAST definition of a name wins, as in `Sem.run`);
* `C01_gen_sim_partial` for `stripB b` does the rest.
What is missing for the full statement:
* calls in the arguments of `printf` (values already queued for the `printf` would have to survive
  the call: the relation would need the queue of the caller as a base below the callee's own, and
  every `printf` run above a non-empty base would have to take exactly as many values as it has
  fields — the real parser reads exactly that many, the fragment allows fewer), and value calls of
  routines that may run off their end (see `V` above);
Restrictions of the fragment that are forced by the MODEL (source semantics and machine disagree
outside them; concrete scripts are at the end of this file):
* `Sem` does not model the `result` register, the generated code uses it as scratch: a script
  that READS `result` (`print result` after `print 5`; a `printf` field `{result}`) sees the
  scratch value on the machine and the unmodelled one in `Sem`;
* `printf` with more arguments than positional fields: the machine writes only the last values
  and keeps the others pending, `Sem` writes them all;
* `setReg .unitMode v` (not produced by the parser, which emits `units m`): the machine's
  `MOVEQ … unit_mode` converts the colour registers, `Sem`'s `setReg` does not; `setReg .discForward v`
  (the language has no name for that register): with a true value the machine discovers forwards
  and so visits names in DESCENDING order, `Sem` always ascending;
* a routine with two parameters of the same name: `Sem.evalArgs` binds the FIRST argument of
  that name (a list searched from the front), the machine's `PARAM` the LAST (`Dict.put`
  overwrites) — hence "distinct parameter names".
-/
namespace Bardolph
open Vm VmSteps Sem Gen Sim

variable {V : String → Prop}
variable {img : Image} {K : Ctx}

/-! ## every statement form of the fragment -/

theorem Sim.stmts_zero : StmtsGoal V img K 0 := by
  intro st _ σ σ' o s pc exit stk _ _ _ h ho
  simp only [execStmt, Prod.mk.injEq] at h
  rcases ho with rfl | rfl <;> simp at h

theorem Sim.stmts_step (f : Nat) (ihRvs : RvToGoals V img K f) (ihCall : CallGoal V img K f)
    (ihB : BlockGoal V img K f) (ihOs : OperandsGoal V img K f)
    (ihL : LoopGoal V img K f) : StmtsGoal V img K (f + 1) := by
  intro st hst
  have ihRv := ihRvs f (Nat.le_refl f)
  cases st with
  | setReg r v => exact stmt_setReg f ihRv r v hst.1 hst.2
  | units m => exact stmt_units f m
  | actAll k => exact stmt_actAll f k
  | setDefault w => exact stmt_setDefault f w
  | action k w ops => exact stmt_action f ihOs k w ops hst
  | get name => exact stmt_get f ihRv name hst
  | wait => exact stmt_wait f
  | timeAt ps => exact stmt_timeAt f ps
  | assign n v => exact stmt_assign f ihRv n v hst
  | defMacro n v => exact stmt_defMacro f n v
  | defRoutine n ps body => exact absurd hst (by simp [FragStmt])
  | call g ps as => exact stmt_call f ihCall g ps as hst.1 hst.2
  | ret v => exact stmt_ret_goal f v
  | ite c t e =>
    cases e with
    | none => exact stmt_ite_none f ihRv ihB c hst.1 t hst.2.1
    | some e => exact stmt_ite_some f ihRv ihB c hst.1 t e hst.2.1 hst.2.2
  | repeat_ hd body => exact stmt_repeat f ihL hd body hst.1 hst.2
  | brk => exact stmt_brk f
  | print v => exact stmt_print f ihRv v hst
  | println v => exact stmt_println f ihRv v hst
  | printf fmt as => exact stmt_printf f fmt as hst.1 hst.2.1 hst.2.2
  | stage rows cols cf => exact stmt_stage f ihRvs rows cols cf hst.1 hst.2

/-- all the simulation statements at one fuel level, in every context with the routine table
`R`: for the outcomes `normal` and `break` anywhere, for `return` inside a routine -/
structure Sim.AllGoals (V : String → Prop) (img : Image) (R : List (String × Sem.Routine)) (f : Nat) : Prop where
  stmts : ∀ r, StmtsGoal V img ⟨r, R⟩ f
  block : ∀ r, BlockGoal V img ⟨r, R⟩ f
  operand : ∀ r, OperandGoal V img ⟨r, R⟩ f
  operands : ∀ r, OperandsGoal V img ⟨r, R⟩ f
  loop : ∀ r, LoopGoal V img ⟨r, R⟩ f
  whileI : ∀ r, WhileIter V img ⟨r, R⟩ f
  countI : ∀ r, CountIter V img ⟨r, R⟩ f
  stmtsR : ∀ r st, StmtsRet V img ⟨some (r, st), R⟩ f
  blockR : ∀ r st, BlockRet V img ⟨some (r, st), R⟩ f
  operandR : ∀ r st, OperandRet V img ⟨some (r, st), R⟩ f
  operandsR : ∀ r st, OperandsRet V img ⟨some (r, st), R⟩ f
  loopR : ∀ r st, LoopRet V img ⟨some (r, st), R⟩ f
  whileR : ∀ r st, WhileRet V img ⟨some (r, st), R⟩ f
  countR : ∀ r st, CountRet V img ⟨some (r, st), R⟩ f
  expr : ∀ r, ExprGoal V img ⟨r, R⟩ f
  call : ∀ r, CallGoal V img ⟨r, R⟩ f
  rv : ∀ r, RvGoal V img ⟨r, R⟩ f
  args : ∀ r, ArgsGoal V img ⟨r, R⟩ f
  rvTo : ∀ r, RvToGoal V img ⟨r, R⟩ f

theorem Sim.allGoals_le (img : Image) (R : List (String × Sem.Routine)) (hR : RoutinesAt V img R) :
    ∀ f, ∀ g, g ≤ f → AllGoals V img R g := by
  intro f
  induction f with
  | zero =>
    intro g hg
    obtain rfl : g = 0 := by omega
    exact ⟨fun _ => stmts_zero, fun _ => block_zero, fun _ => operand_zero, fun _ => operands_zero,
      fun _ => loop_zero, fun _ => while_zero, fun _ => count_zero,
      fun _ _ => stmts_ret_zero, fun _ _ => block_ret_zero, fun _ _ => operand_ret_zero,
      fun _ _ => operands_ret_zero, fun _ _ => loop_ret_zero, fun _ _ => while_ret_zero,
      fun _ _ => count_ret_zero, fun _ => expr_zero, fun _ => call_zero, fun _ => rv_zero, fun _ => args_zero,
      fun _ => rvTo_zero⟩
  | succ f ihle =>
    intro g hg
    by_cases hlt : g ≤ f
    · exact ihle g hlt
    · obtain rfl : g = f + 1 := by omega
      have ih := ihle f (Nat.le_refl f)
      have rvs : ∀ r, RvToGoals V img ⟨r, R⟩ f := fun r g hg => (ihle g hg).rvTo r
      exact ⟨fun r => stmts_step f (rvs r) (ih.call r) (ih.block r) (ih.operands r) (ih.loop r),
        fun r => block_step f (ih.stmts r) (ih.block r),
        fun r => operand_step f (rvs r) (ih.block r), fun r => operands_step f (ih.operand r) (ih.operands r),
        fun r => loop_step f (rvs r) (ih.whileI r) (ih.countI r) (fun g hg => (ihle g (by omega)).countI r),
        fun r => while_step f (ih.rvTo r) (ih.block r) (ih.whileI r),
        fun r => count_step f (ih.block r) (ih.countI r),
        fun r st => stmts_ret_step f (ih.rvTo _) (ih.blockR r st) (ih.operandsR r st) (ih.loopR r st) r st.1 st.2 rfl,
        fun r st => block_ret_step f (ih.stmts _) (ih.stmtsR r st) (ih.blockR r st),
        fun r st => operand_ret_step f (ih.blockR r st),
        fun r st => operands_ret_step f (ih.operand _) (ih.operandR r st) (ih.operandsR r st),
        fun r st => loop_ret_step f (rvs _) (ih.whileR r st) (ih.countR r st)
          (fun g hg => (ihle g (by omega)).countR r st),
        fun r st => while_ret_step f (ih.rvTo _) (ih.block _) (ih.blockR r st) (ih.whileR r st),
        fun r st => count_ret_step f (ih.block _) (ih.blockR r st) (ih.countR r st),
        fun r => expr_step f (ih.expr r) (ih.call r),
        fun r => call_step f hR (ih.args r) (fun r' st => ih.block (some (r', st))) (fun r' st => ih.blockR r' st),
        fun r => rv_step f (ih.expr r) (ih.call r),
        fun r => args_step f (ih.rv r) (ih.args r),
        fun r => rvTo_step f (ih.expr r) (ih.call r)⟩

theorem Sim.allGoals (img : Image) (R : List (String × Sem.Routine)) (hR : RoutinesAt V img R) (f : Nat) :
    AllGoals V img R f := allGoals_le img R hR f f (Nat.le_refl f)

/-! ## the theorems -/

/-- **gen_sim, block level, with `break`.**  For a block of the fragment placed anywhere (inside
any number of enclosing loops `stk`, `break`s resolved to jump to `exit`): if the source says the
block ends normally, the machine arrives just past the code; if the source says `break`, the
machine arrives at `exit`; in both cases in a state related to the source-level state. -/
theorem C01_gen_sim_block (img : Image) (K : Ctx) (hR : RoutinesAt V img K.routines) (b : Block)
    (hb : FragBlock V b) (f : Nat) (σ σ' : S)
    (o : Outcome) (s : State) (pc exit : Nat) (stk : Stk)
    (hsim : Sim K stk σ s) (hpc : s.pc = (pc : Int))
    (hc : CodeAt img pc (resolve (genBlock b) pc exit))
    (h : execBlock f b σ = (o, σ')) (ho : o = .normal ∨ o = .brk) :
    ∃ k, (run img k s).pc = ((Target pc (genBlock b).length exit o : Nat) : Int) ∧
      Sim K stk σ' (run img k s) := by
  obtain ⟨k, hk⟩ := (Sim.allGoals img K.routines hR f).block K.ret b hb σ σ' o s pc exit stk hsim hpc hc h ho
  exact ⟨k, hk.1, hk.2⟩

/-- the same for a single statement -/
theorem C01_gen_sim_stmt (img : Image) (K : Ctx) (hR : RoutinesAt V img K.routines) (st : Stmt)
    (hst : FragStmt V st) (f : Nat) (σ σ' : S)
    (o : Outcome) (s : State) (pc exit : Nat) (stk : Stk)
    (hsim : Sim K stk σ s) (hpc : s.pc = (pc : Int))
    (hc : CodeAt img pc (resolve (genStmt st) pc exit))
    (h : execStmt f st σ = (o, σ')) (ho : o = .normal ∨ o = .brk) :
    ∃ k, (run img k s).pc = ((Target pc (genStmt st).length exit o : Nat) : Int) ∧
      Sim K stk σ' (run img k s) := by
  obtain ⟨k, hk⟩ := (Sim.allGoals img K.routines hR f).stmts K.ret st hst σ σ' o s pc exit stk hsim hpc hc h ho
  exact ⟨k, hk.1, hk.2⟩

/-- **return.**  Inside a routine (context `K` with return address `ret` and caller frames
`rest`): if the source says the block ends with `return` — from any depth of `if`, loops and
matrix bodies — the machine arrives one past the return address with exactly the caller's frames
left, and everything else as the source says (`Sim.RetPost`). -/
theorem C01_gen_sim_return (img : Image) (K : Ctx) (hR : RoutinesAt V img K.routines) (ret : Nat)
    (rest : List Frame) (evc : List Val) (hK : K.ret = some (ret, rest, evc)) (b : Block) (hb : FragBlock V b)
    (f : Nat) (σ σ' : S) (s : State) (pc exit : Nat) (stk : Stk)
    (hsim : Sim K stk σ s) (hpc : s.pc = (pc : Int))
    (hc : CodeAt img pc (resolve (genBlock b) pc exit)) (h : execBlock f b σ = (.ret, σ')) :
    ∃ k, RetPost K σ' (run img k s) ∧ (run img k s).pc = ((ret + 1 : Nat) : Int) ∧
      (run img k s).stack = rest ∧ (run img k s).eval = evc := by
  obtain ⟨Kr, KR⟩ := K
  simp only at hK
  subst hK
  obtain ⟨k, hk⟩ := (Sim.allGoals img KR hR f).blockR ret (rest, evc) b hb σ σ' s pc exit stk hsim hpc hc h
  obtain ⟨r', rest', evc', hK', hpc', hst'⟩ := hk.ctx
  simp only [Option.some.injEq, Prod.mk.injEq] at hK'
  obtain ⟨rfl, rfl, rfl⟩ := hK'
  exact ⟨k, hk, hpc', hst', hk.eval⟩

/-- **gen_sim_partial.**  For every statement list `b` of the fragment whose code `code` has no
unresolved `break` (`Gen.genProgram b = some code`), every fuel, every source-level state `σ`
and machine state `s` related by `Sim` at top level, and every image with `code` at `s.pc`:
if the source semantics runs `b` from `σ` normally to `σ'`, the machine reaches, in finitely
many steps, a state with the program counter just past the code that is related to `σ'`.

In words: the compiled code issues exactly the device commands, waits and output the source
says, in the same order, and leaves every variable, macro and register (but the scratch register
`result`) as the source says. -/
theorem C01_gen_sim_partial (img : Image) (R : List (String × Sem.Routine)) (hR : RoutinesAt V img R)
    (b : Block) (hb : FragBlock V b) (code : List Instr)
    (hcode : Gen.genProgram b = some code) (f : Nat) (σ σ' : S) (s : State) (pc : Nat)
    (hsim : Sim ⟨none, R⟩ {} σ s) (hpc : s.pc = (pc : Int)) (hc : CodeAt img pc code)
    (h : execBlock f b σ = (.normal, σ')) :
    ∃ k, (run img k s).pc = ((pc + code.length : Nat) : Int) ∧ Sim ⟨none, R⟩ {} σ' (run img k s) := by
  have hres : resolve (genBlock b) pc (0 : Nat) = code := resolve_of_mapM _ _ hcode pc _
  have hlen : code.length = (genBlock b).length := by rw [← hres, resolve_length]
  obtain ⟨k, hk1, hk2⟩ := C01_gen_sim_block img ⟨none, R⟩ hR b hb f σ σ' .normal s pc 0 {} hsim hpc
    (by rw [hres]; exact hc) h (Or.inl rfl)
  exact ⟨k, by rw [hk1, hlen]; rfl, hk2⟩

/-- **once_each_in_order.**  For `b` in the fragment, the machine's trace after running the code
is exactly the source-level trace — which by the definition of `Sem` consists of one group of
events per dynamic execution of a statement, in program order — and so are the variables,
macros, lights and all registers other than `result`. -/
theorem C01_once_each_in_order (img : Image) (R : List (String × Sem.Routine)) (hR : RoutinesAt V img R)
    (b : Block) (hb : FragBlock V b) (code : List Instr)
    (hcode : Gen.genProgram b = some code) (f : Nat) (σ σ' : S) (s : State) (pc : Nat)
    (hsim : Sim ⟨none, R⟩ {} σ s) (hpc : s.pc = (pc : Int)) (hc : CodeAt img pc code)
    (h : execBlock f b σ = (.normal, σ')) :
    ∃ k, (run img k s).trace = σ'.vm.trace ∧ (run img k s).globals = σ'.vm.globals ∧
      (run img k s).constants = σ'.vm.constants ∧ (run img k s).lights = σ'.vm.lights ∧
      (∀ r, r ≠ .result → (run img k s).regs r = σ'.vm.regs r) ∧
      (run img k s).status = .running ∧ (run img k s).pc = ((pc + code.length : Nat) : Int) := by
  obtain ⟨k, hk1, hk2⟩ := C01_gen_sim_partial img R hR b hb code hcode f σ σ' s pc hsim hpc hc h
  exact ⟨k, hk2.trace.symm, hk2.globals.symm, hk2.constants.symm, hk2.lights.symm,
    fun r hr => (hk2.regs r hr).symm, hk2.running, hk1⟩

/-- the initial states of `Sem.run` and of the machine are related -/
theorem Sim.init (lights : List Light) (rts : List (String × Sem.Routine)) :
    Sim ⟨none, rts⟩ {} { vm := Vm.init lights, routines := rts } (Vm.init lights) :=
  ⟨rfl, rfl, LoopsOnly.nil, rfl, EvOk.nil, rfl, ⟨rfl, rfl⟩, rfl, ⟨⟨.logical, rfl⟩, rfl⟩, rfl, rfl, rfl, rfl, rfl, rfl, rfl,
    fun _ _ => rfl⟩

/-- **whole scripts.**  A script of the fragment, compiled by `Gen.genProgram` and placed at
address 0 of an image that ends with it: if the source-level run (`Sem.run`) ends normally, the
machine started in its initial state halts, and what `Machine.run` leaves behind
(`Vm.finish`) is the source-level trace followed by the final flush of the output sink. -/
theorem C01_gen_sim_program (b : Block) (hb : FragBlock V b) (code : List Instr)
    (hcode : Gen.genProgram b = some code) (f : Nat)
    (lights : List Light) (σ' : S) (h : Sem.run f b lights = (.normal, σ')) :
    ∃ k, (run ⟨code.toArray, []⟩ k (Vm.init lights)).status = .halted ∧
      (Vm.finish (run ⟨code.toArray, []⟩ k (Vm.init lights))).trace = .flush :: σ'.vm.trace := by
  have hc : CodeAt ⟨code.toArray, []⟩ 0 code := by
    have := CodeAt.intro [] code [] []
    simpa using this
  have hR : RoutinesAt V ⟨code.toArray, []⟩ [] := fun name => rfl
  have h' : execBlock f b { vm := Vm.init lights, routines := [] } = (.normal, σ') := by
    have := h
    simp only [Sem.run, collect_frag b hb, List.reverse_nil] at this
    exact this
  obtain ⟨k, hk1, hk2⟩ := C01_gen_sim_partial ⟨code.toArray, []⟩ [] hR b hb code hcode f _ σ'
    (Vm.init lights) 0 (Sim.init lights []) rfl hc h'
  refine ⟨k + 1, ?_⟩
  rw [run_add, run_one _ _ hk2.running]
  generalize run ⟨code.toArray, []⟩ k (Vm.init lights) = t at hk1 hk2
  have hstep : step ⟨code.toArray, []⟩ t = { t with status := .halted } := by
    unfold step
    have h0 : ¬ (t.pc < 0) := by omega
    have h1 : t.pc.toNat = code.length := by omega
    rw [if_neg (by simp [hk2.running]), if_neg h0, h1]
    simp
  rw [hstep]
  refine ⟨rfl, ?_⟩
  simp only [Vm.finish, hk2.unnamed, List.foldl_nil, State.emit, hk2.trace]

/-- **whole scripts, through the loader.**  The same for the image the loader makes of the
compiled script (`Loader.load`): a script of the fragment has no routines, so the loader leaves
its code where it is. -/
theorem C01_gen_sim_loaded (b : Block) (hb : FragBlock V b) (code : List Instr)
    (hcode : Gen.genProgram b = some code) (f : Nat) (lights : List Light) (σ' : S)
    (h : Sem.run f b lights = (.normal, σ')) :
    ∃ k, (run (Loader.load code) k (Vm.init lights)).status = .halted ∧
      (Vm.finish (run (Loader.load code) k (Vm.init lights))).trace = .flush :: σ'.vm.trace := by
  rw [load_fragment b hb code hcode]
  exact C01_gen_sim_program b hb code hcode f lights σ' h

/-- the main code of a script with top-level routine definitions: the definitions do nothing when
they are reached (the loader has moved their code away), the other statements are simulated one
after the other -/
theorem Sim.top_sim (img : Image) (R : List (String × Sem.Routine)) (hR : RoutinesAt V img R) :
    ∀ (b : Block), TopBlock V b → NoBrk (genBlock b) → ∀ (f : Nat) (σ σ' : S) (s : State) (pc : Nat),
      Sim ⟨none, R⟩ {} σ s → s.pc = (pc : Int) → CodeAt img pc (mainOf (itemsOf b)) →
      execBlock f b σ = (.normal, σ') →
      ∃ k, (run img k s).pc = ((pc + (mainOf (itemsOf b)).length : Nat) : Int) ∧
        Sim ⟨none, R⟩ {} σ' (run img k s)
  | .nil, _, _, f, σ, σ', s, pc, hsim, hpc, _, h => by
    cases f with
    | zero => simp [execBlock] at h
    | succ f =>
      simp only [execBlock, Prod.mk.injEq, true_and] at h
      subst h
      exact ⟨0, by simpa [itemsOf, mainOf, Vm.run] using hpc, hsim⟩
  | .cons st rest, hb, hn, f, σ, σ', s, pc, hsim, hpc, hc, h => by
    rw [genBlock] at hn
    have ih := Sim.top_sim img R hR rest hb.2 hn.right
    have h1 := hb.1
    cases f with
    | zero => simp [execBlock] at h
    | succ f =>
      simp only [execBlock] at h
      cases hd : defOf st with
      | some d =>
        have hst := defOf_some hd
        rw [hst] at h
        cases f with
        | zero => simp [execStmt] at h
        | succ f =>
          have e : execStmt (f + 1) (.defRoutine d.1 d.2.1 d.2.2) σ = (.normal, σ) := rfl
          rw [e] at h
          simp only [itemsOf, itemOf, hd, mainOf] at hc ⊢
          exact ih (f + 1) σ σ' s pc hsim hpc hc h
      | none =>
        simp only [TopStmt, hd] at h1
        simp only [itemsOf, itemOf, hd, mainOf] at hc ⊢
        cases hx : execStmt f st σ with
        | mk o σ1 =>
          rw [hx] at h
          have ho : o = .normal := by
            cases o <;> first | rfl | (simp at h)
          subst ho
          simp only at h
          have hcs : CodeAt img pc (resolve (genStmt st) pc (0 : Nat)) := by
            rw [resolve_noBrk _ hn.left]
            exact hc.left
          obtain ⟨k1, hk1, hs1⟩ := C01_gen_sim_stmt img ⟨none, R⟩ hR st h1 f σ σ1 .normal s pc 0 {}
            hsim hpc hcs hx (Or.inl rfl)
          simp only [Target] at hk1
          have hc2 := hc.right
          simp only [List.length_map] at hc2
          obtain ⟨k2, hk2, hs2⟩ := ih f σ1 σ' (run img k1 s) (pc + (genStmt st).length) hs1 hk1 hc2 h
          refine ⟨k1 + k2, ?_, ?_⟩
          · rw [run_add, hk2]
            simp only [List.length_append, List.length_map]
            congr 1
            omega
          · rw [run_add]
            exact hs2

/-- **whole scripts with routine definitions, through the loader.**  A script made of statements
of the fragment and, at its top level, routine definitions whose bodies are in the fragment
(`TopBlock`), accepted by the compiler's scope check (`Closed.wsBlock`: calls of known routines
only, `return` only inside routines, `break` only inside loops), compiled by `Gen.genProgram` and
loaded by `Loader.load` — which moves the routine bodies in front of the main code, relocates
the main code's jumps and builds the routine table: if the source-level run (`Sem.run`) ends
normally, the machine started in its initial state on the loaded image halts, and what
`Machine.run` leaves behind (`Vm.finish`) is the source-level trace followed by the final flush
of the output sink. -/
theorem C01_gen_sim_top (Kn : List String) (b : Block) (hb : TopBlock V b)
    (hws : Closed.wsBlock Kn false false false b = true) (code : List Instr)
    (hcode : Gen.genProgram b = some code) (f : Nat) (lights : List Light) (σ' : S)
    (h : Sem.run f b lights = (.normal, σ')) :
    ∃ k, (run (Loader.load code) k (Vm.init lights)).status = .halted ∧
      (Vm.finish (run (Loader.load code) k (Vm.init lights))).trace = .flush :: σ'.vm.trace := by
  have hnb : NoBrk (genBlock b) := noBrk_of_mapM _ _ hcode
  have hprog : code = progOf (itemsOf b) := by
    rw [progOf_itemsOf, ← resolve_noBrk _ hnb 0 (0 : Nat)]
    exact (resolve_of_mapM _ _ hcode 0 _).symm
  have hok := itemsOK_of (V := V) b hb hws
  have hR := routinesAt_top b hb hok hnb
  rw [← hprog] at hR
  have himg := load_items _ hok
  rw [← hprog] at himg
  generalize Loader.load code = img at hR himg
  simp only [Sem.run] at h
  -- the machine gets to the start of the main code
  have hstart : ∃ (k0 : Nat) (pc : Nat), (run img k0 (Vm.init lights)).pc = (pc : Int) ∧
      Sim ⟨none, (Sem.collect b).reverse⟩ {} { vm := Vm.init lights, routines := (Sem.collect b).reverse }
        (run img k0 (Vm.init lights)) ∧ CodeAt img pc (mainOf (itemsOf b)) ∧
      img.code.size = pc + (mainOf (itemsOf b)).length := by
    by_cases hs : secsOf (itemsOf b) = []
    · rw [if_pos hs] at himg
      refine ⟨0, 0, rfl, Sim.init lights _, ?_, ?_⟩
      · subst himg
        have := CodeAt.intro [] (mainOf (itemsOf b)) [] []
        simpa using this
      · subst himg; simp
    · rw [if_neg hs] at himg
      generalize hrs : (secsOf (itemsOf b)).flatMap Closed.Load.render = rseg at himg
      have hi : img.code[0]? = some (.jump .always ((rseg.length : Int) + 1)) := by
        subst himg; simp
      obtain ⟨k0, hk0, hs0⟩ := Sim.exec_jump (img := img) (pc := 0) .always ((rseg.length : Int) + 1)
        (rseg.length + 1) (by simp) (Sim.init lights (Sem.collect b).reverse) rfl hi (by simp)
      refine ⟨k0, rseg.length + 1, hk0, hs0, ?_, ?_⟩
      · subst himg
        have := CodeAt.intro (Instr.jump .always ((rseg.length : Int) + 1) :: rseg)
          (mainOf (itemsOf b)) []
          ((Closed.Load.secSpans 1 (secsOf (itemsOf b))).map fun p => (p.1, p.2.1)).reverse
        simpa using this
      · subst himg; simp; omega
  obtain ⟨k0, pc, hpc0, hsim0, hc, hsize⟩ := hstart
  obtain ⟨k, hk1, hk2⟩ := Sim.top_sim img _ hR b hb hnb f _ σ' _ pc hsim0 hpc0 hc h
  refine ⟨k0 + k + 1, ?_⟩
  rw [run_add, run_add, run_one _ _ hk2.running]
  generalize run img k (run img k0 (Vm.init lights)) = t at hk1 hk2
  have hstep : step img t = { t with status := .halted } := by
    unfold step
    have h0 : ¬ (t.pc < 0) := by omega
    have h1 : t.pc.toNat = img.code.size := by omega
    rw [if_neg (by simp [hk2.running]), if_neg h0, h1]
    simp
  rw [hstep]
  refine ⟨rfl, ?_⟩
  simp only [Vm.finish, hk2.unnamed, List.foldl_nil, State.emit, hk2.trace]

/-- **whole scripts with routine definitions anywhere, through the loader.**  A script whose
routine definitions stand at the top level or inside `if` / `repeat` bodies, at any depth
(`DefBlock V`: without the definitions it is a script of the fragment, the bodies of the
definitions are blocks of the fragment), accepted by the compiler's scope check
(`Closed.wsBlock`), compiled by `Gen.genProgram` and loaded by `Loader.load` — which cuts the
routine sections out of the code wherever they are, shortens the jumps of the main code that span
them, and builds the routine table: if the source-level run (`Sem.run`) ends normally, the machine
started in its initial state on the loaded image halts, and what `Machine.run` leaves behind
(`Vm.finish`) is the source-level trace followed by the final flush of the output sink. -/
theorem C01_gen_sim_defs (Kn : List String) (b : Block) (hb : DefBlock V b)
    (hws : Closed.wsBlock Kn false false false b = true) (code : List Instr)
    (hcode : Gen.genProgram b = some code) (f : Nat) (lights : List Light) (σ' : S)
    (h : Sem.run f b lights = (.normal, σ')) :
    ∃ k, (run (Loader.load code) k (Vm.init lights)).status = .halted ∧
      (Vm.finish (run (Loader.load code) k (Vm.init lights))).trace = .flush :: σ'.vm.trace := by
  obtain ⟨main, pc, hmain, hR, hc, hsize, hjump⟩ := image_defs b hb hws code hcode
  generalize Loader.load code = img at hR hc hsize hjump
  simp only [Sem.run] at h
  rw [← strip_sem] at h
  have hstart : ∃ (k0 : Nat), (run img k0 (Vm.init lights)).pc = (pc : Int) ∧
      Sim ⟨none, (Sem.collect b).reverse⟩ {} { vm := Vm.init lights, routines := (Sem.collect b).reverse }
        (run img k0 (Vm.init lights)) := by
    rcases hjump with rfl | hi
    · exact ⟨0, rfl, Sim.init lights _⟩
    · obtain ⟨k0, hk0, hs0⟩ := Sim.exec_jump (img := img) (pc := 0) .always (pc : Int) pc (by simp)
        (Sim.init lights (Sem.collect b).reverse) rfl hi (by simp)
      exact ⟨k0, hk0, hs0⟩
  obtain ⟨k0, hpc0, hsim0⟩ := hstart
  obtain ⟨k, hk1, hk2⟩ := C01_gen_sim_partial img _ hR (stripB b) hb.1 main hmain f _ σ' _ pc hsim0 hpc0 hc h
  refine ⟨k0 + k + 1, ?_⟩
  rw [run_add, run_add, run_one _ _ hk2.running]
  generalize run img k (run img k0 (Vm.init lights)) = t at hk1 hk2
  have hstep : step img t = { t with status := .halted } := by
    unfold step
    have h0 : ¬ (t.pc < 0) := by omega
    have h1 : t.pc.toNat = img.code.size := by omega
    rw [if_neg (by simp [hk2.running]), if_neg h0, h1]
    simp
  rw [hstep]
  refine ⟨rfl, ?_⟩
  simp only [Vm.finish, hk2.unnamed, List.foldl_nil, State.emit, hk2.trace]

/-! ## non-vacuity

Two concrete scripts of the fragment, compiled with `Gen.genProgram`, loaded with `Loader.load`,
run by `Vm.run` and by `Sem.run`: the hypotheses of the theorems hold for them, and — checked
independently by evaluation in the kernel — the traces are equal.

`printf` does not occur in them: both `Sem` and `Vm` compute a `printf` through
`String.replace`, which the kernel cannot evaluate (it is defined by an opaque well-founded
fixpoint), so no closed `printf` example can be checked by `decide`; the `printf` case of the
theorem is `Sim.stmt_printf`. -/
section Examples
namespace Sim.C01Ex

deriving instance DecidableEq for TP.Pat
deriving instance DecidableEq for Val
deriving instance DecidableEq for Event
deriving instance DecidableEq for Src
deriving instance DecidableEq for Instr

theorem eq_of_fst {p : Outcome × S} (h : p.1 = .normal) : p = (.normal, p.2) := by
  obtain ⟨o, s⟩ := p
  simp only at h
  rw [h]

/-- two lights of one group, one matrix light -/
def c01Lights : List Light :=
  [⟨"a", "g", "home", .plain, [0, 0, 0, 0], 0⟩, ⟨"b", "g", "home", .plain, [0, 0, 0, 0], 0⟩]

/-- ```
hue 120 saturation 50 brightness 25 kelvin 2700 duration 2
assign x 3
if {x > 2} { print "big"  if {x > 5} { println "huge" } else { set group "g" } } else { print "small" }
repeat 3 { assign x {x + 1}  print x }
repeat while {x < 100} { if {x >= 8} { break }  assign x {x * 2} }
println x
on all
``` -/
def c01Script : Block := Block.ofList [
  .setReg .hue (.lit (.int 120)), .setReg .saturation (.lit (.int 50)),
  .setReg .brightness (.lit (.int 25)), .setReg .kelvin (.lit (.int 2700)),
  .setReg .duration (.lit (.int 2)),
  .assign "x" (.lit (.int 3)),
  .ite (.expr (.bin .gt (.var "x") (.lit (.int 2))))
    (Block.ofList [.print (.lit (.str "big")),
      .ite (.expr (.bin .gt (.var "x") (.lit (.int 5))))
        (Block.ofList [.println (some (.lit (.str "huge")))])
        (some (Block.ofList [.action .set true (.cons (.group (.str "g")) .nil)]))])
    (some (Block.ofList [.print (.lit (.str "small"))])),
  .repeat_ (.count (.lit (.int 3)))
    (Block.ofList [.assign "x" (.expr (.bin .add (.var "x") (.lit (.int 1)))), .print (.var "x")]),
  .repeat_ (.while_ (.expr (.bin .lt (.var "x") (.lit (.int 100)))))
    (Block.ofList [.ite (.expr (.bin .gte (.var "x") (.lit (.int 8)))) (Block.ofList [.brk]) none,
      .assign "x" (.expr (.bin .mul (.var "x") (.lit (.int 2))))]),
  .println (some (.var "x")),
  .actAll .on]


/-- what `Gen.genProgram` makes of it (77 instructions) -/
def c01Code : List Instr := [
  .moveq (.int 120) (.reg .hue), .moveq (.int 50) (.reg .saturation),
  .moveq (.int 25) (.reg .brightness), .moveq (.int 2700) (.reg .kelvin),
  .moveq (.int 2) (.reg .duration), .moveq (.int 3) (.var "x"),
  .push (.var "x"), .pushq (.int 2), .op .gt, .pop (.reg .result), .jump .ifFalse 19,
  .moveq (.str "big") (.reg .result), .out .register (.reg .result), .out .print (.lit .none),
  .push (.var "x"), .pushq (.int 5), .op .gt, .pop (.reg .result), .jump .ifFalse 6,
  .moveq (.str "huge") (.reg .result), .out .register (.reg .result), .out .print (.lit .none),
  .out .printEnd (.lit .none), .jump .always 5,
  .wait, .moveq (.str "g") (.reg .name), .moveq (.operand .group) (.reg .operand), .color,
  .jump .always 4,
  .moveq (.str "small") (.reg .result), .out .register (.reg .result), .out .print (.lit .none),
  .loop, .moveq (.int 3) (.loopVar .counter),
  .push (.loopVar .counter), .pushq (.int 0), .op .gt, .pop (.reg .result), .jump .ifFalse 13,
  .push (.var "x"), .pushq (.int 1), .op .add, .pop (.var "x"),
  .move (.var "x") (.reg .result), .out .register (.reg .result), .out .print (.lit .none),
  .push (.loopVar .counter), .pushq (.int 1), .op .sub, .pop (.loopVar .counter),
  .jump .always (-16), .endLoop,
  .loop, .push (.var "x"), .pushq (.int 100), .op .lt, .pop (.reg .result), .jump .ifFalse 12,
  .push (.var "x"), .pushq (.int 8), .op .gte, .pop (.reg .result), .jump .ifFalse 2,
  .jump .always 6,
  .push (.var "x"), .pushq (.int 2), .op .mul, .pop (.var "x"),
  .jump .always (-15), .endLoop,
  .move (.var "x") (.reg .result), .out .register (.reg .result), .out .print (.lit .none),
  .out .printEnd (.lit .none),
  .moveq (.bool true) (.reg .power), .wait, .moveq (.operand .all) (.reg .operand), .power]

theorem c01Script_frag : FragBlock (fun _ => True) c01Script := by
  simp only [c01Script, Block.ofList, FragBlock, FragStmt, RvC, ExprC, ArgsC, FragOperands, FragOperand, RvOK, LoopHdrOK]
  refine ⟨?_, ?_, ?_, ?_, ?_, ?_, ?_, ?_, ?_, ?_, ?_, ?_⟩
  all_goals first
    | trivial
    | decide
    | (repeat' constructor) <;> decide

set_option maxRecDepth 8000 in
theorem c01Script_code : Gen.genProgram c01Script = some c01Code := by
  simp [Gen.genProgram, c01Script, Block.ofList, genBlock, genStmt, genRv, genExpr, genIf, genLoop,
    assembleLoop, patchBreaks_eq, patchRec, genOperands, genOperand, genName, opcodeOf, ins,
    counterTest, testOp, loopPost, counter, result, pushLit, c01Code]



/-- the source-level run ends normally -/
theorem c01Script_sem : (Sem.run 200 c01Script c01Lights).1 = .normal := by decide +kernel

/-- `C01_gen_sim_program` applied: the machine halts with the source-level trace -/
example : ∃ k, (run ⟨c01Code.toArray, []⟩ k (Vm.init c01Lights)).status = .halted ∧
    (Vm.finish (run ⟨c01Code.toArray, []⟩ k (Vm.init c01Lights))).trace =
      .flush :: (Sem.run 200 c01Script c01Lights).2.vm.trace :=
  C01_gen_sim_program c01Script c01Script_frag c01Code c01Script_code 200 c01Lights
    (Sem.run 200 c01Script c01Lights).2 (eq_of_fst c01Script_sem)

/-- the same through the loader -/
example : ∃ k, (run (Loader.load c01Code) k (Vm.init c01Lights)).status = .halted ∧
    (Vm.finish (run (Loader.load c01Code) k (Vm.init c01Lights))).trace =
      .flush :: (Sem.run 200 c01Script c01Lights).2.vm.trace :=
  C01_gen_sim_loaded c01Script c01Script_frag c01Code c01Script_code 200 c01Lights
    (Sem.run 200 c01Script c01Lights).2 (eq_of_fst c01Script_sem)

/-- the loader leaves a script without routines as it is (by evaluation) -/
example : (Loader.load c01Code).code.toList = c01Code ∧ (Loader.load c01Code).routines = [] := by
  decide +kernel

/-- both runs, by evaluation: the machine, running the loaded image of the compiled script,
halts, and leaves exactly the source-level trace followed by the final flush -/
example : (Vm.run (Loader.load c01Code) 500 (Vm.init c01Lights)).status = .halted := by
  decide +kernel

example : (Vm.finish (Vm.run (Loader.load c01Code) 500 (Vm.init c01Lights))).trace =
    .flush :: (Sem.run 200 c01Script c01Lights).2.vm.trace := by decide +kernel

/-- the trace itself: one group of events per executed statement, in program order -/
example : (Sem.run 200 c01Script c01Lights).2.vm.trace.reverse =
    [.out (.str "big"),
     .setColor "a" [21845, 32768, 16384, 2700] 2000, .setColor "b" [21845, 32768, 16384, 2700] 2000,
     .out (.int 4), .out (.int 5), .out (.int 6),
     .out (.int 12), .newline,
     .allPower 1 2000] := by decide +kernel

/-! ### second script: macros, raw units, a delay, `get`, zones, a matrix given inline and as a
block, `break` out of a matrix body inside `repeat`, `define default`, `off` with an `and` list
(name from an undefined variable, group, location) -/

def c01Lights2 : List Light :=
  [⟨"a", "g", "home", .plain, [100, 200, 300, 3000], 0⟩, ⟨"m", "g", "home", .matrix 2 2, [0, 0, 0, 0], 0⟩,
   ⟨"z", "h", "home", .multizone 8, [0, 0, 0, 0], 0⟩]

def c01Script2 : Block := Block.ofList [
  .defMacro "unused" (.int 9), .assign "N" (.lit (.int 2)),
  .units .raw,
  .setReg .time (.lit (.int 500)), .wait, .setReg .time (.lit (.int 0)),
  .get (.lit (.str "a")),
  .setReg .duration (.var "N"),
  .action .set true (.cons (.zone (.str "z") ⟨.lit (.int 1), some (.expr (.bin .add (.var "N") (.lit (.int 1))))⟩)
    (.cons (.light (.str "a")) .nil)),
  .action .set true (.cons (.matrixInline (.str "m") (some ⟨.lit (.int 0), none⟩)
    (some ⟨.lit (.int 0), some (.lit (.int 1))⟩) false) .nil),
  .repeat_ .forever (Block.ofList [
    .action .set true (.cons (.matrixBlock (.str "m") (Block.ofList [
      .setReg .hue (.lit (.int 1000)),
      .stage (some ⟨.lit (.int 1), none⟩) none false,
      .ite (.reg .hue) (Block.ofList [.brk]) none])) .nil),
    .print (.lit (.str "not reached"))]),
  .setDefault true,
  .action .off true (.cons (.light (.var "who")) (.cons (.group (.str "g")) (.cons (.location (.str "home")) .nil))),
  .actAll .set]


def c01Code2 : List Instr :=
  [Instr.constant "unused" (Val.int 9), Instr.moveq (Val.int 2) (Dst.var "N"),
  Instr.moveq (Val.mode (UnitMode.raw)) (Dst.reg (Reg.unitMode)),
  Instr.moveq (Val.int 500) (Dst.reg (Reg.time)),
  Instr.wait,
  Instr.moveq (Val.int 0) (Dst.reg (Reg.time)),
  Instr.moveq (Val.str "a") (Dst.reg (Reg.result)),
  Instr.move (Src.reg (Reg.result)) (Dst.reg (Reg.name)),
  Instr.getColor,
  Instr.move (Src.var "N") (Dst.reg (Reg.duration)),
  Instr.wait,
  Instr.moveq (Val.str "z") (Dst.reg (Reg.name)),
  Instr.moveq (Val.int 1) (Dst.reg (Reg.firstZone)),
  Instr.push (Src.var "N"),
  Instr.pushq (Val.int 1),
  Instr.op (Operator.add),
  Instr.pop (Dst.reg (Reg.lastZone)),
  Instr.moveq (Val.operand (Operand.mzLight)) (Dst.reg (Reg.operand)),
  Instr.color,
  Instr.moveq (Val.str "a") (Dst.reg (Reg.name)),
  Instr.moveq (Val.operand (Operand.light)) (Dst.reg (Reg.operand)),
  Instr.color,
  Instr.wait,
  Instr.moveq (Val.str "m") (Dst.reg (Reg.name)),
  Instr.matrix,
  Instr.moveq (Val.operand (Operand.matrix)) (Dst.reg (Reg.operand)),
  Instr.moveq (Val.int 0) (Dst.reg (Reg.firstRow)),
  Instr.moveq (Val.none) (Dst.reg (Reg.lastRow)),
  Instr.moveq (Val.int 0) (Dst.reg (Reg.firstColumn)),
  Instr.moveq (Val.int 1) (Dst.reg (Reg.lastColumn)),
  Instr.color,
  Instr.endMatrix,
  Instr.moveq (Val.operand (Operand.matrixLight)) (Dst.reg (Reg.operand)),
  Instr.color,
  Instr.loop,
  Instr.moveq (Val.bool true) (Dst.reg (Reg.result)),
  Instr.jump (JumpCond.ifFalse) 22,
  Instr.wait,
  Instr.moveq (Val.str "m") (Dst.reg (Reg.name)),
  Instr.matrix,
  Instr.moveq (Val.int 1000) (Dst.reg (Reg.hue)),
  Instr.moveq (Val.operand (Operand.matrix)) (Dst.reg (Reg.operand)),
  Instr.moveq (Val.int 1) (Dst.reg (Reg.firstRow)),
  Instr.moveq (Val.none) (Dst.reg (Reg.lastRow)),
  Instr.moveq (Val.none) (Dst.reg (Reg.firstColumn)),
  Instr.moveq (Val.none) (Dst.reg (Reg.lastColumn)),
  Instr.color,
  Instr.move (Src.reg (Reg.hue)) (Dst.reg (Reg.result)),
  Instr.jump (JumpCond.ifFalse) 2,
  Instr.jump (JumpCond.always) 9,
  Instr.endMatrix,
  Instr.moveq (Val.str "m") (Dst.reg (Reg.name)),
  Instr.moveq (Val.operand (Operand.matrixLight)) (Dst.reg (Reg.operand)),
  Instr.color,
  Instr.moveq (Val.str "not reached") (Dst.reg (Reg.result)),
  Instr.out (IoOp.register) (Src.reg (Reg.result)),
  Instr.out (IoOp.print) (Src.lit (Val.none)),
  Instr.jump (JumpCond.always) (-22),
  Instr.endLoop,
  Instr.wait,
  Instr.moveq (Val.operand (Operand.default)) (Dst.reg (Reg.operand)),
  Instr.color,
  Instr.moveq (Val.bool false) (Dst.reg (Reg.power)),
  Instr.wait,
  Instr.move (Src.var "who") (Dst.reg (Reg.name)),
  Instr.moveq (Val.operand (Operand.light)) (Dst.reg (Reg.operand)),
  Instr.power,
  Instr.moveq (Val.str "g") (Dst.reg (Reg.name)),
  Instr.moveq (Val.operand (Operand.group)) (Dst.reg (Reg.operand)),
  Instr.power,
  Instr.moveq (Val.str "home") (Dst.reg (Reg.name)),
  Instr.moveq (Val.operand (Operand.location)) (Dst.reg (Reg.operand)),
  Instr.power,
  Instr.wait,
  Instr.moveq (Val.operand (Operand.all)) (Dst.reg (Reg.operand)),
  Instr.color]

theorem c01Script2_frag : FragBlock (fun _ => True) c01Script2 := by
  simp only [c01Script2, Block.ofList, FragBlock, FragStmt, RvC, ExprC, ArgsC, FragOperands, FragOperand, RvOK, LoopHdrOK,
    ORangeOK, RangeOK]
  refine ⟨?_, ?_, ?_, ?_, ?_, ?_, ?_, ?_, ?_, ?_, ?_, ?_, ?_⟩
  all_goals first
    | trivial
    | decide
    | (repeat' constructor) <;> first | trivial | decide

set_option maxRecDepth 8000 in
theorem c01Script2_code : Gen.genProgram c01Script2 = some c01Code2 := by
  simp [Gen.genProgram, c01Script2, Block.ofList, genBlock, genStmt, genRv, genExpr, genIf, genLoop,
    assembleLoop, patchBreaks_eq, patchRec, genOperands, genOperand, genName, opcodeOf, ins,
    genRange, genMatrixRanges, result, pushLit, c01Code2]

theorem c01Script2_sem : (Sem.run 200 c01Script2 c01Lights2).1 = .normal := by decide +kernel

example : ∃ k, (run ⟨c01Code2.toArray, []⟩ k (Vm.init c01Lights2)).status = .halted ∧
    (Vm.finish (run ⟨c01Code2.toArray, []⟩ k (Vm.init c01Lights2))).trace =
      .flush :: (Sem.run 200 c01Script2 c01Lights2).2.vm.trace :=
  C01_gen_sim_program c01Script2 c01Script2_frag c01Code2 c01Script2_code 200 c01Lights2
    (Sem.run 200 c01Script2 c01Lights2).2 (eq_of_fst c01Script2_sem)

example : (Vm.finish (Vm.run (Loader.load c01Code2) 500 (Vm.init c01Lights2))).trace =
    .flush :: (Sem.run 200 c01Script2 c01Lights2).2.vm.trace := by decide +kernel

example : (Sem.run 200 c01Script2 c01Lights2).2.vm.trace.reverse =
    [.pause (.num (1 / 2)), .getColor "a",
     .setZones "z" 1 4 [100, 200, 300, 3000] 2, .setColor "a" [100, 200, 300, 3000] 2,
     .setTile "m" [[100, 200, 300, 3000], [100, 200, 300, 3000], [0, 0, 0, 0], [0, 0, 0, 0]] 2 2 2,
     .warn "light not found",
     .setPower "a" 0 2, .setPower "m" 0 2, .setPower "a" 0 2, .setPower "m" 0 2, .setPower "z" 0 2,
     .allColor [1000, 200, 300, 3000] 2] := by decide +kernel

/-! ### third script: a routine with a parameter that calls itself, returns from inside a counted
loop and from an `if`, leaves a loop with `break`; called with a variable and with literals

The image is the one the loader makes of the whole script (routine first): a jump over the
routine, the `ROUTINE` marker, the body, `END`, then the main code. -/

def downBody : Block := Block.ofList [
  .ite (.expr (.bin .lte (.var "n") (.lit (.int 0)))) (Block.ofList [.ret none]) none,
  .print (.var "n"),
  .repeat_ (.count (.lit (.int 2))) (Block.ofList [
    .ite (.expr (.bin .gt (.var "n") (.lit (.int 1)))) (Block.ofList [.brk]) none,
    .println (some (.var "n")),
    .ite (.expr (.bin .eq (.var "x") (.lit (.int 2)))) (Block.ofList [.ret (some (.var "n"))]) none]),
  .assign "m" (.expr (.bin .sub (.var "n") (.lit (.int 1)))),
  .call "down" ["n"] (.cons (.var "m") .nil)]

def mainBlock : Block := Block.ofList [
  .assign "x" (.lit (.int 2)),
  .call "down" ["n"] (.cons (.var "x") .nil),
  .print (.var "x"),
  .assign "x" (.lit (.int 7)),
  .call "down" ["n"] (.cons (.lit (.int 1)) .nil),
  .call "down" ["n"] (.cons (.lit (.int 0)) .nil)]

def wholeScript : Block := .cons (.defRoutine "down" ["n"] downBody) mainBlock


/-- the code of the routine body (49 instructions) -/
def downCode : List Instr :=
  [Instr.push (Src.var "n"),
  Instr.pushq (Val.int 0),
  Instr.op (Operator.lte),
  Instr.pop (Dst.reg (Reg.result)),
  Instr.jump (JumpCond.ifFalse) 3,
  Instr.moveq (Val.none) (Dst.reg (Reg.result)),
  Instr.ret,
  Instr.move (Src.var "n") (Dst.reg (Reg.result)),
  Instr.out (IoOp.register) (Src.reg (Reg.result)),
  Instr.out (IoOp.print) (Src.lit (Val.none)),
  Instr.loop,
  Instr.moveq (Val.int 2) (Dst.loopVar (LoopVar.counter)),
  Instr.push (Src.loopVar (LoopVar.counter)),
  Instr.pushq (Val.int 0),
  Instr.op (Operator.gt),
  Instr.pop (Dst.reg (Reg.result)),
  Instr.jump (JumpCond.ifFalse) 23,
  Instr.push (Src.var "n"),
  Instr.pushq (Val.int 1),
  Instr.op (Operator.gt),
  Instr.pop (Dst.reg (Reg.result)),
  Instr.jump (JumpCond.ifFalse) 2,
  Instr.jump (JumpCond.always) 17,
  Instr.move (Src.var "n") (Dst.reg (Reg.result)),
  Instr.out (IoOp.register) (Src.reg (Reg.result)),
  Instr.out (IoOp.print) (Src.lit (Val.none)),
  Instr.out (IoOp.printEnd) (Src.lit (Val.none)),
  Instr.push (Src.var "x"),
  Instr.pushq (Val.int 2),
  Instr.op (Operator.eq),
  Instr.pop (Dst.reg (Reg.result)),
  Instr.jump (JumpCond.ifFalse) 3,
  Instr.move (Src.var "n") (Dst.reg (Reg.result)),
  Instr.ret,
  Instr.push (Src.loopVar (LoopVar.counter)),
  Instr.pushq (Val.int 1),
  Instr.op (Operator.sub),
  Instr.pop (Dst.loopVar (LoopVar.counter)),
  Instr.jump (JumpCond.always) (-26),
  Instr.endLoop,
  Instr.push (Src.var "n"),
  Instr.pushq (Val.int 1),
  Instr.op (Operator.sub),
  Instr.pop (Dst.var "m"),
  Instr.ctx,
  Instr.move (Src.var "m") (Dst.reg (Reg.result)),
  Instr.param "n" (Src.reg (Reg.result)),
  Instr.jsr "down",
  Instr.endCtx]

/-- the code of the main block -/
def mainCode : List Instr := [
  .moveq (.int 2) (.var "x"),
  .ctx, .move (.var "x") (.reg .result), .param "n" (.reg .result), .jsr "down", .endCtx,
  .move (.var "x") (.reg .result), .out .register (.reg .result), .out .print (.lit .none),
  .moveq (.int 7) (.var "x"),
  .ctx, .moveq (.int 1) (.reg .result), .param "n" (.reg .result), .jsr "down", .endCtx,
  .ctx, .moveq (.int 0) (.reg .result), .param "n" (.reg .result), .jsr "down", .endCtx]

def callImg : Image :=
  ⟨(([Instr.jump .always 52, .routine "down"] : List Instr) ++ (downCode ++ [Instr.end_ "down"]) ++
      mainCode).toArray,
   [("down", 2)]⟩

def callRoutines : List (String × Sem.Routine) := [("down", ⟨["n"], downBody⟩)]

theorem downBody_frag : FragBlock (fun _ => False) downBody := by
  simp only [downBody, Block.ofList, FragBlock, FragStmt, RvC, ExprC, ArgsC, RvOK, LoopHdrOK, NoResultReg]
  refine ⟨?_, ?_, ?_, ?_, ?_, ?_⟩
  all_goals first
    | trivial
    | decide
    | (repeat' constructor) <;> first | trivial | decide | nofun

theorem mainBlock_frag : FragBlock (fun _ => False) mainBlock := by
  simp only [mainBlock, Block.ofList, FragBlock, FragStmt, RvC, ExprC, ArgsC, RvOK, NoResultReg]
  refine ⟨?_, ?_, ?_, ?_, ?_, ?_, ?_⟩
  all_goals first
    | trivial
    | decide
    | (repeat' constructor) <;> first | trivial | decide | nofun

set_option maxRecDepth 8000 in
theorem downBody_code : Gen.genProgram downBody = some downCode := by
  simp [Gen.genProgram, downBody, Block.ofList, genBlock, genStmt, genRv, genExpr, genIf, genLoop,
    assembleLoop, patchBreaks_eq, patchRec, genCall, genParams, ins, counterTest, testOp, loopPost,
    counter, result, pushLit, downCode]

set_option maxRecDepth 8000 in
theorem mainBlock_code : Gen.genProgram mainBlock = some mainCode := by
  simp [Gen.genProgram, mainBlock, Block.ofList, genBlock, genStmt, genRv, genCall, genParams, ins,
    result, mainCode]

/-- the image is what the loader makes of the compiled whole script -/
example : (Loader.load ([Instr.routine "down"] ++ downCode ++ [Instr.end_ "down"] ++ mainCode)).code.toList =
      callImg.code.toList ∧
    (Loader.load ([Instr.routine "down"] ++ downCode ++ [Instr.end_ "down"] ++ mainCode)).routines =
      callImg.routines := by decide +kernel

theorem callImg_routines : RoutinesAt (fun _ => False) callImg callRoutines := by
  intro name
  by_cases h : name = "down"
  · subst h
    refine ⟨downBody_frag, fun h => h.elim, 2, "down", rfl, ?_⟩
    rw [resolve_of_mapM _ _ downBody_code]
    exact CodeAt.intro [Instr.jump .always 52, .routine "down"] (downCode ++ [Instr.end_ "down"]) mainCode _
  · have h1 : ("down" == name) = false := by
      simp only [beq_eq_false_iff_ne, ne_eq]; exact fun e => h e.symm
    simp [callRoutines, h1, callImg, Image.routine?]

/-- the source-level run of the main block, with the routine in the table -/
theorem mainBlock_sem :
    (execBlock 200 mainBlock { vm := Vm.init [], routines := callRoutines }).1 = .normal := by
  decide +kernel

/-- `C01_once_each_in_order` applied: started at the main code (where the initial jump leads),
the machine leaves exactly the source-level trace -/
example : ∃ k, (run callImg k { Vm.init [] with pc := 52 }).trace =
    (execBlock 200 mainBlock { vm := Vm.init [], routines := callRoutines }).2.vm.trace := by
  have hc : CodeAt callImg 52 mainCode := by
    have := CodeAt.intro ([Instr.jump .always 52, .routine "down"] ++ (downCode ++ [Instr.end_ "down"]))
      mainCode [] [("down", 2)]
    have hl : downCode.length = 49 := rfl
    simpa [callImg, hl] using this
  have hsim : Sim ⟨none, callRoutines⟩ {} { vm := Vm.init [], routines := callRoutines }
      { Vm.init [] with pc := 52 } :=
    ⟨rfl, rfl, LoopsOnly.nil, rfl, EvOk.nil, rfl, ⟨rfl, rfl⟩, rfl, ⟨⟨.logical, rfl⟩, rfl⟩, rfl, rfl, rfl, rfl, rfl, rfl, rfl,
    fun _ _ => rfl⟩
  obtain ⟨k, hk, _⟩ := C01_once_each_in_order callImg callRoutines callImg_routines mainBlock
    mainBlock_frag mainCode mainBlock_code 200 _ _ _ 52 hsim rfl hc (eq_of_fst mainBlock_sem)
  exact ⟨k, hk⟩

/-- by evaluation: the whole script (routine definition first) through the loader and the
machine, and through `Sem.run` -/
example : (Vm.finish (Vm.run callImg 1000 (Vm.init []))).trace =
    .flush :: (Sem.run 200 wholeScript []).2.vm.trace := by decide +kernel

example : (Sem.run 200 wholeScript []).2.vm.trace.reverse =
    [.out (.int 2), .out (.int 1), .out (.int 1), .newline, .out (.int 2),
     .out (.int 1), .out (.int 1), .newline, .out (.int 1), .newline] := by decide +kernel

/-! ### fourth script: the index-variable forms of `repeat` — a descending range left by `break`,
interpolation with a count of 0 (no pass, the variable is still assigned), `cycle` in raw units;
the index variables are READ after their loops

```
repeat with i from 3 to 1 { if {i < 2} { break }  print i }   print i
repeat 0 with y from 7 to 9 { print y }   print y
units raw
repeat 2 with h cycle 100 { print h }   print h
``` -/

def c01Script3 : Block := Block.ofList [
  .repeat_ (.range "i" (.lit (.int 3)) (.lit (.int 1)))
    (Block.ofList [.ite (.expr (.bin .lt (.var "i") (.lit (.int 2)))) (Block.ofList [.brk]) none,
      .print (.var "i")]),
  .print (.var "i"),
  .repeat_ (.interp (.lit (.int 0)) "y" (.lit (.int 7)) (.lit (.int 9))) (Block.ofList [.print (.var "y")]),
  .print (.var "y"),
  .units .raw,
  .repeat_ (.cycle (.lit (.int 2)) "h" (some (.lit (.int 100)))) (Block.ofList [.print (.var "h")]),
  .print (.var "h")]

/-- what `Gen.genProgram` makes of it (136 instructions) -/
def c01Code3 : List Instr := [
  .loop, .moveq (.int 3) (.loopVar .first), .moveq (.int 1) (.loopVar .last),
  .move (.loopVar .first) (.var "i"), .push (.loopVar .last), .push (.loopVar .first), .op .sub,
  .pop (.loopVar .counter), .push (.loopVar .counter), .pushq (.int 0), .op .lt, .pop (.reg .result),
  .jump .ifFalse 7, .push (.loopVar .counter), .pushq (.int (-1)), .op .mul, .pop (.loopVar .counter),
  .moveq (.int (-1)) (.loopVar .incr), .jump .always 2, .moveq (.int 1) (.loopVar .incr),
  .push (.loopVar .counter), .pushq (.int 1), .op .add, .pop (.loopVar .counter),
  .push (.loopVar .counter), .pushq (.int 0), .op .gt, .pop (.reg .result), .jump .ifFalse 19,
  .push (.var "i"), .pushq (.int 2), .op .lt, .pop (.reg .result), .jump .ifFalse 2, .jump .always 13,
  .move (.var "i") (.reg .result), .out .register (.reg .result), .out .print (.lit .none),
  .push (.loopVar .counter), .pushq (.int 1), .op .sub, .pop (.loopVar .counter), .push (.var "i"),
  .push (.loopVar .incr), .op .add, .pop (.var "i"), .jump .always (-22), .endLoop,
  .move (.var "i") (.reg .result), .out .register (.reg .result), .out .print (.lit .none), .loop,
  .moveq (.int 0) (.loopVar .counter), .moveq (.int 7) (.loopVar .first), .moveq (.int 9) (.loopVar .last),
  .move (.loopVar .first) (.var "y"), .push (.loopVar .counter), .pushq (.int 1), .op .noteq,
  .pop (.reg .result), .jump .ifFalse 10, .push (.loopVar .last), .push (.loopVar .first), .op .sub,
  .push (.loopVar .counter), .pushq (.int 1), .op .sub, .op .div, .pop (.loopVar .incr), .jump .always 2,
  .moveq (.int 0) (.loopVar .incr), .push (.loopVar .counter), .pushq (.int 0), .op .gt,
  .pop (.reg .result), .jump .ifFalse 13, .move (.var "y") (.reg .result), .out .register (.reg .result),
  .out .print (.lit .none), .push (.loopVar .counter), .pushq (.int 1), .op .sub, .pop (.loopVar .counter),
  .push (.var "y"), .push (.loopVar .incr), .op .add, .pop (.var "y"), .jump .always (-16), .endLoop,
  .move (.var "y") (.reg .result), .out .register (.reg .result), .out .print (.lit .none),
  .moveq (.mode .raw) (.reg .unitMode), .loop, .moveq (.int 2) (.loopVar .counter),
  .moveq (.int 100) (.loopVar .first), .move (.loopVar .first) (.var "h"), .push (.loopVar .counter),
  .pushq (.int 0), .op .eq, .pop (.reg .result), .jump .ifFalse 3, .moveq (.int 0) (.loopVar .incr),
  .jump .always 12, .push (.reg .unitMode), .pushq (.mode .raw), .op .eq, .pop (.reg .result),
  .jump .ifFalse 3, .pushq (.int 65536), .jump .always 2, .pushq (.int 360), .push (.loopVar .counter),
  .op .div, .pop (.loopVar .incr), .push (.loopVar .counter), .pushq (.int 0), .op .gt,
  .pop (.reg .result), .jump .ifFalse 13, .move (.var "h") (.reg .result), .out .register (.reg .result),
  .out .print (.lit .none), .push (.loopVar .counter), .pushq (.int 1), .op .sub, .pop (.loopVar .counter),
  .push (.var "h"), .push (.loopVar .incr), .op .add, .pop (.var "h"), .jump .always (-16), .endLoop,
  .move (.var "h") (.reg .result), .out .register (.reg .result), .out .print (.lit .none)]

theorem c01Script3_frag : FragBlock (fun _ => True) c01Script3 := by
  simp only [c01Script3, Block.ofList, FragBlock, FragStmt, RvC, ExprC, ArgsC, RvOK, LoopHdrOK, WithOK]
  refine ⟨?_, ?_, ?_, ?_, ?_, ?_, ?_, ?_⟩
  all_goals first
    | trivial
    | decide
    | (repeat' constructor) <;> first | trivial | decide | nofun

set_option maxRecDepth 8000 in
theorem c01Script3_code : Gen.genProgram c01Script3 = some c01Code3 := by
  simp [Gen.genProgram, c01Script3, Block.ofList, genBlock, genStmt, genRv, genExpr, genIf, genLoop,
    assembleLoop, patchBreaks_eq, patchRec, ins, counterTest, testOp, loopPost, counter, result, pushLit,
    indexVarRange, cycleVarRange, calcCounter, calcIncr, incCounter, c01Code3]

theorem c01Script3_sem : (Sem.run 400 c01Script3 []).1 = .normal := by decide +kernel

/-- `C01_gen_sim_loaded` applied: the loaded, compiled script halts with the source-level trace -/
example : ∃ k, (run (Loader.load c01Code3) k (Vm.init [])).status = .halted ∧
    (Vm.finish (run (Loader.load c01Code3) k (Vm.init []))).trace =
      .flush :: (Sem.run 400 c01Script3 []).2.vm.trace :=
  C01_gen_sim_loaded c01Script3 c01Script3_frag c01Code3 c01Script3_code 400 []
    (Sem.run 400 c01Script3 []).2 (eq_of_fst c01Script3_sem)

/-- by evaluation, independently of the theorem -/
example : (Vm.finish (Vm.run (Loader.load c01Code3) 2000 (Vm.init []))).trace =
    .flush :: (Sem.run 400 c01Script3 []).2.vm.trace := by decide +kernel

/-- the values: 3 2, then `i` as the `break` left it; `y` assigned although no pass is made;
100, 100 + 65536/2, and `h` one increment past its last value -/
example : (Sem.run 400 c01Script3 []).2.vm.trace.reverse =
    [.out (.int 3), .out (.int 2), .out (.int 1), .out (.int 7),
     .out (.int 100), .out (.num 32868), .out (.num 65636)] := by decide +kernel

/-! ### fifth script: loops over names — all lights; all groups with a range spread over them; a
list of sources (a light, a group, a location nobody is in) with `cycle`, left by `break` with
names still waiting on the evaluation stack; a loop over a group's members nested in a loop over
locations, the inner one left by `break` in every pass of the outer one

```
repeat all as L { print L }
repeat group as G with x from 10 to 20 { print G  print x }
repeat in "z" and group "g" and location "nowhere" as L with h cycle { print L  print h  if {h > 100} { break } }
print h
repeat location as P { repeat in group "g" as M { print M  break }   print P }
``` -/

def c01Script4 : Block := Block.ofList [
  .repeat_ (.all "L" none) (Block.ofList [.print (.var "L")]),
  .repeat_ (.groups "G" (some (.fromTo "x" (.lit (.int 10)) (.lit (.int 20)))))
    (Block.ofList [.print (.var "G"), .print (.var "x")]),
  .repeat_ (.iter [.light (.lit (.str "z")), .group (.lit (.str "g")), .location (.lit (.str "nowhere"))] "L"
      (some (.cycle "h" none)))
    (Block.ofList [.print (.var "L"), .print (.var "h"),
      .ite (.expr (.bin .gt (.var "h") (.lit (.int 100)))) (Block.ofList [.brk]) none]),
  .print (.var "h"),
  .repeat_ (.locations "P" none) (Block.ofList [
    .repeat_ (.iter [.group (.lit (.str "g"))] "M" none) (Block.ofList [.print (.var "M"), .brk]),
    .print (.var "P")])]

/-- what `Gen.genProgram` makes of it (252 instructions) -/
def c01Code4 : List Instr := [
  .loop, .moveq (.int 0) (.loopVar .counter), .moveq (.operand .light) (.reg .operand), .disc,
  .move (.reg .result) (.loopVar .current), .push (.loopVar .current), .push (.lit (.operand .null)),
  .op .noteq, .pop (.reg .result), .jump .ifFalse 9, .push (.loopVar .counter), .pushq (.int 1), .op .add,
  .pop (.loopVar .counter), .push (.loopVar .current), .moveq (.operand .light) (.reg .operand),
  .dnext (.loopVar .current), .jump .always (-13), .push (.loopVar .counter), .pushq (.int 0), .op .gt,
  .pop (.reg .result), .jump .ifFalse 10, .pop (.var "L"), .move (.var "L") (.reg .result),
  .out .register (.reg .result), .out .print (.lit .none), .push (.loopVar .counter), .pushq (.int 1),
  .op .sub, .pop (.loopVar .counter), .jump .always (-13), .endLoop, .loop,
  .moveq (.int 0) (.loopVar .counter), .moveq (.operand .group) (.reg .operand), .disc,
  .move (.reg .result) (.loopVar .current), .push (.reg .result), .push (.lit (.operand .null)),
  .op .noteq, .pop (.reg .result), .jump .ifFalse 9, .push (.loopVar .counter), .pushq (.int 1), .op .add,
  .pop (.loopVar .counter), .push (.loopVar .current), .moveq (.operand .group) (.reg .operand),
  .dnext (.loopVar .current), .jump .always (-13), .moveq (.int 10) (.loopVar .first),
  .moveq (.int 20) (.loopVar .last), .move (.loopVar .first) (.var "x"), .push (.loopVar .counter),
  .pushq (.int 1), .op .noteq, .pop (.reg .result), .jump .ifFalse 10, .push (.loopVar .last),
  .push (.loopVar .first), .op .sub, .push (.loopVar .counter), .pushq (.int 1), .op .sub, .op .div,
  .pop (.loopVar .incr), .jump .always 2, .moveq (.int 0) (.loopVar .incr), .push (.loopVar .counter),
  .pushq (.int 0), .op .gt, .pop (.reg .result), .jump .ifFalse 17, .pop (.var "G"),
  .move (.var "G") (.reg .result), .out .register (.reg .result), .out .print (.lit .none),
  .move (.var "x") (.reg .result), .out .register (.reg .result), .out .print (.lit .none),
  .push (.loopVar .counter), .pushq (.int 1), .op .sub, .pop (.loopVar .counter), .push (.var "x"),
  .push (.loopVar .incr), .op .add, .pop (.var "x"), .jump .always (-20), .endLoop, .loop,
  .moveq (.int 0) (.loopVar .counter), .moveq (.str "nowhere") (.loopVar .first),
  .moveq (.operand .location) (.reg .operand), .discm (.loopVar .first),
  .move (.reg .result) (.loopVar .current), .push (.loopVar .current), .push (.lit (.operand .null)),
  .op .noteq, .pop (.reg .result), .jump .ifFalse 9, .push (.loopVar .counter), .pushq (.int 1), .op .add,
  .pop (.loopVar .counter), .push (.loopVar .current), .moveq (.operand .location) (.reg .operand),
  .dnextm
   (.loopVar .first)
   (.loopVar .current), .jump .always (-13),
  .moveq (.str "g") (.loopVar .first), .moveq (.operand .group) (.reg .operand), .discm (.loopVar .first),
  .move (.reg .result) (.loopVar .current), .push (.loopVar .current), .push (.lit (.operand .null)),
  .op .noteq, .pop (.reg .result), .jump .ifFalse 9, .push (.loopVar .counter), .pushq (.int 1), .op .add,
  .pop (.loopVar .counter), .push (.loopVar .current), .moveq (.operand .group) (.reg .operand),
  .dnextm
   (.loopVar .first)
   (.loopVar .current), .jump .always (-13),
  .moveq (.str "z") (.reg .result), .push (.reg .result), .push (.loopVar .counter), .pushq (.int 1),
  .op .add, .pop (.loopVar .counter), .moveq (.int 0) (.loopVar .first),
  .move (.loopVar .first) (.var "h"), .push (.loopVar .counter), .pushq (.int 0), .op .eq,
  .pop (.reg .result), .jump .ifFalse 3, .moveq (.int 0) (.loopVar .incr), .jump .always 12,
  .push (.reg .unitMode), .pushq (.mode .raw), .op .eq, .pop (.reg .result), .jump .ifFalse 3,
  .pushq (.int 65536), .jump .always 2, .pushq (.int 360), .push (.loopVar .counter), .op .div,
  .pop (.loopVar .incr), .push (.loopVar .counter), .pushq (.int 0), .op .gt, .pop (.reg .result),
  .jump .ifFalse 23, .pop (.var "L"), .move (.var "L") (.reg .result), .out .register (.reg .result),
  .out .print (.lit .none), .move (.var "h") (.reg .result), .out .register (.reg .result),
  .out .print (.lit .none), .push (.var "h"), .pushq (.int 100), .op .gt, .pop (.reg .result),
  .jump .ifFalse 2, .jump .always 10, .push (.loopVar .counter), .pushq (.int 1), .op .sub,
  .pop (.loopVar .counter), .push (.var "h"), .push (.loopVar .incr), .op .add, .pop (.var "h"),
  .jump .always (-26), .endLoop, .move (.var "h") (.reg .result), .out .register (.reg .result),
  .out .print (.lit .none), .loop, .moveq (.int 0) (.loopVar .counter),
  .moveq (.operand .location) (.reg .operand), .disc, .move (.reg .result) (.loopVar .current),
  .push (.reg .result), .push (.lit (.operand .null)), .op .noteq, .pop (.reg .result), .jump .ifFalse 9,
  .push (.loopVar .counter), .pushq (.int 1), .op .add, .pop (.loopVar .counter),
  .push (.loopVar .current), .moveq (.operand .location) (.reg .operand), .dnext (.loopVar .current),
  .jump .always (-13), .push (.loopVar .counter), .pushq (.int 0), .op .gt, .pop (.reg .result),
  .jump .ifFalse 45, .pop (.var "P"), .loop, .moveq (.int 0) (.loopVar .counter),
  .moveq (.str "g") (.loopVar .first), .moveq (.operand .group) (.reg .operand), .discm (.loopVar .first),
  .move (.reg .result) (.loopVar .current), .push (.loopVar .current), .push (.lit (.operand .null)),
  .op .noteq, .pop (.reg .result), .jump .ifFalse 9, .push (.loopVar .counter), .pushq (.int 1), .op .add,
  .pop (.loopVar .counter), .push (.loopVar .current), .moveq (.operand .group) (.reg .operand),
  .dnextm
   (.loopVar .first)
   (.loopVar .current), .jump .always (-13), .push (.loopVar .counter),
  .pushq (.int 0), .op .gt, .pop (.reg .result), .jump .ifFalse 11, .pop (.var "M"),
  .move (.var "M") (.reg .result), .out .register (.reg .result), .out .print (.lit .none),
  .jump .always 6, .push (.loopVar .counter), .pushq (.int 1), .op .sub, .pop (.loopVar .counter),
  .jump .always (-14), .endLoop, .move (.var "P") (.reg .result), .out .register (.reg .result),
  .out .print (.lit .none), .push (.loopVar .counter), .pushq (.int 1), .op .sub, .pop (.loopVar .counter),
  .jump .always (-48), .endLoop]

theorem c01Script4_frag : FragBlock (fun _ => True) c01Script4 := by
  simp only [c01Script4, Block.ofList, FragBlock, FragStmt, RvC, ExprC, ArgsC, RvOK, LoopHdrOK, WithOK, OWithOK,
    List.forall_mem_cons, ItemOK, List.not_mem_nil, false_imp_iff, implies_true]
  refine ⟨?_, ?_, ?_, ?_, ?_, ?_⟩
  all_goals first
    | trivial
    | decide
    | (repeat' constructor) <;> first | trivial | decide | nofun

set_option maxRecDepth 8000 in
theorem c01Script4_code : Gen.genProgram c01Script4 = some c01Code4 := by
  simp [Gen.genProgram, c01Script4, Block.ofList, genBlock, genStmt, genRv, genExpr, genIf, genLoop,
    assembleLoop, patchBreaks_eq, patchRec, ins, counterTest, testOp, loopPost, counter, result, pushLit,
    indexVarRange, cycleVarRange, calcCounter, calcIncr, incCounter, withClause, withVar, iterLights, iterSets,
    iterMembers, iterItems, iterItem, iterSkeleton, pushCurrent, c01Code4]

theorem c01Script4_sem : (Sem.run 400 c01Script4 c01Lights2).1 = .normal := by decide +kernel

/-- `C01_gen_sim_loaded` applied: the loaded, compiled script halts with the source-level trace -/
example : ∃ k, (run (Loader.load c01Code4) k (Vm.init c01Lights2)).status = .halted ∧
    (Vm.finish (run (Loader.load c01Code4) k (Vm.init c01Lights2))).trace =
      .flush :: (Sem.run 400 c01Script4 c01Lights2).2.vm.trace :=
  C01_gen_sim_loaded c01Script4 c01Script4_frag c01Code4 c01Script4_code 400 c01Lights2
    (Sem.run 400 c01Script4 c01Lights2).2 (eq_of_fst c01Script4_sem)

/-- by evaluation, independently of the theorem -/
example : (Vm.finish (Vm.run (Loader.load c01Code4) 3000 (Vm.init c01Lights2))).trace =
    .flush :: (Sem.run 400 c01Script4 c01Lights2).2.vm.trace := by decide +kernel

/-- the values: the lights in name order; the groups with 10 … 20 spread over them; "z", then the
first member of "g" (the loop is left with "m" still waiting; nobody is in "nowhere"), `h` as the
`break` left it; per location the first member of "g" -/
example : (Sem.run 400 c01Script4 c01Lights2).2.vm.trace.reverse =
    [.out (.str "a"), .out (.str "m"), .out (.str "z"),
     .out (.str "g"), .out (.int 10), .out (.str "h"), .out (.num 20),
     .out (.str "z"), .out (.int 0), .out (.str "a"), .out (.num 120), .out (.num 120),
     .out (.str "a"), .out (.str "home")] := by decide +kernel

/-! ### sixth script: calls in value positions — `[f x]` as the value of an assignment, of a register
setting, of `print`, of a `repeat` count; calls inside `{…}` expressions (with operands of the
expression waiting on the evaluation stack during the call); a call as the argument of a call; a
routine that calls itself inside the expression it returns; a built-in function

```
define sq with x begin return {x * x} end
define fact with n begin if {n <= 1} { return 1 }  return {n * fact(n - 1)} end
assign y [sq 5]
print {1 + sq(3) * 2}
print [fact 4]
hue [sq [sq 2]]   print hue
repeat [sq 1] { print y }
if {fact(3) > 5} { print "big" }
println [round 2.6]
repeat in "a" and "b" as L { print {10 * sq(2)} }
```
(the last call runs with the name "b" — and the operand 10 — on the evaluation stack).
The image is the one the loader makes of the whole script: a jump over the routines, the two
routines, the main code. -/

def sqBody : Block := Block.ofList [.ret (some (.expr (.bin .mul (.var "x") (.var "x"))))]

def factBody : Block := Block.ofList [
  .ite (.expr (.bin .lte (.var "n") (.lit (.int 1)))) (Block.ofList [.ret (some (.lit (.int 1)))]) none,
  .ret (some (.expr (.bin .mul (.var "n")
    (.call "fact" ["n"] (.cons (.expr (.bin .sub (.var "n") (.lit (.int 1)))) .nil)))))]

def valMain : Block := Block.ofList [
  .assign "y" (.call "sq" ["x"] (.cons (.lit (.int 5)) .nil)),
  .print (.expr (.bin .add (.lit (.int 1))
    (.bin .mul (.call "sq" ["x"] (.cons (.lit (.int 3)) .nil)) (.lit (.int 2))))),
  .print (.call "fact" ["n"] (.cons (.lit (.int 4)) .nil)),
  .setReg .hue (.call "sq" ["x"] (.cons (.call "sq" ["x"] (.cons (.lit (.int 2)) .nil)) .nil)),
  .print (.reg .hue),
  .repeat_ (.count (.call "sq" ["x"] (.cons (.lit (.int 1)) .nil))) (Block.ofList [.print (.var "y")]),
  .ite (.expr (.bin .gt (.call "fact" ["n"] (.cons (.lit (.int 3)) .nil)) (.lit (.int 5))))
    (Block.ofList [.print (.lit (.str "big"))]) none,
  .println (some (.call "round" ["x"] (.cons (.lit (.num (13/5))) .nil))),
  .repeat_ (.iter [.light (.lit (.str "a")), .light (.lit (.str "b"))] "L" none)
    (Block.ofList [.print (.expr (.bin .mul (.lit (.int 10)) (.call "sq" ["x"] (.cons (.lit (.int 2)) .nil))))])]

def valWhole : Block :=
  .cons (.defRoutine "sq" ["x"] sqBody) (.cons (.defRoutine "fact" ["n"] factBody) valMain)

def sqCode : List Instr := [
  .push (.var "x"), .push (.var "x"), .op .mul, .pop (.reg .result), .ret]

def factCode : List Instr := [
  .push (.var "n"), .pushq (.int 1), .op .lte, .pop (.reg .result), .jump .ifFalse 3,
  .moveq (.int 1) (.reg .result), .ret, .push (.var "n"), .ctx, .push (.var "n"), .pushq (.int 1),
  .op .sub, .pop (.reg .result), .param "n" (.reg .result), .jsr "fact", .endCtx, .push (.reg .result),
  .op .mul, .pop (.reg .result), .ret]

def valMainCode : List Instr := [
  .ctx, .moveq (.int 5) (.reg .result), .param "x" (.reg .result), .jsr "sq", .endCtx,
  .move (.reg .result) (.var "y"), .pushq (.int 1), .ctx, .moveq (.int 3) (.reg .result),
  .param "x" (.reg .result), .jsr "sq", .endCtx, .push (.reg .result), .pushq (.int 2), .op .mul, .op .add,
  .pop (.reg .result), .out .register (.reg .result), .out .print (.lit .none), .ctx,
  .moveq (.int 4) (.reg .result), .param "n" (.reg .result), .jsr "fact", .endCtx,
  .out .register (.reg .result), .out .print (.lit .none), .ctx, .ctx, .moveq (.int 2) (.reg .result),
  .param "x" (.reg .result), .jsr "sq", .endCtx, .param "x" (.reg .result), .jsr "sq", .endCtx,
  .move (.reg .result) (.reg .hue), .move (.reg .hue) (.reg .result), .out .register (.reg .result),
  .out .print (.lit .none), .loop, .ctx, .moveq (.int 1) (.reg .result), .param "x" (.reg .result),
  .jsr "sq", .endCtx, .move (.reg .result) (.loopVar .counter), .push (.loopVar .counter), .pushq (.int 0),
  .op .gt, .pop (.reg .result), .jump .ifFalse 9, .move (.var "y") (.reg .result),
  .out .register (.reg .result), .out .print (.lit .none), .push (.loopVar .counter), .pushq (.int 1),
  .op .sub, .pop (.loopVar .counter), .jump .always (-12), .endLoop, .ctx, .moveq (.int 3) (.reg .result),
  .param "n" (.reg .result), .jsr "fact", .endCtx, .push (.reg .result), .pushq (.int 5), .op .gt,
  .pop (.reg .result), .jump .ifFalse 4, .moveq (.str "big") (.reg .result), .out .register (.reg .result),
  .out .print (.lit .none), .ctx, .moveq (.num ((13 : Rat)/5)) (.reg .result), .param "x" (.reg .result),
  .jsr "round", .endCtx, .out .register (.reg .result), .out .print (.lit .none),
  .out .printEnd (.lit .none), .loop, .moveq (.int 0) (.loopVar .counter),
  .moveq (.str "b") (.reg .result), .push (.reg .result), .push (.loopVar .counter), .pushq (.int 1),
  .op .add, .pop (.loopVar .counter), .moveq (.str "a") (.reg .result), .push (.reg .result),
  .push (.loopVar .counter), .pushq (.int 1), .op .add, .pop (.loopVar .counter),
  .push (.loopVar .counter), .pushq (.int 0), .op .gt, .pop (.reg .result), .jump .ifFalse 18,
  .pop (.var "L"), .pushq (.int 10), .ctx, .moveq (.int 2) (.reg .result), .param "x" (.reg .result),
  .jsr "sq", .endCtx, .push (.reg .result), .op .mul, .pop (.reg .result), .out .register (.reg .result),
  .out .print (.lit .none), .push (.loopVar .counter), .pushq (.int 1), .op .sub, .pop (.loopVar .counter),
  .jump .always (-21), .endLoop]

def valImg : Image :=
  ⟨(([Instr.jump .always 30, .routine "sq"] : List Instr) ++ (sqCode ++ [Instr.end_ "sq"]) ++
      ([Instr.routine "fact"] ++ (factCode ++ [Instr.end_ "fact"]) ++ valMainCode)).toArray,
   [("fact", 9), ("sq", 2)]⟩

def valRoutines : List (String × Sem.Routine) := [("fact", ⟨["n"], factBody⟩), ("sq", ⟨["x"], sqBody⟩)]

theorem sqBody_frag : FragBlock (fun _ => True) sqBody := by
  simp only [sqBody, Block.ofList, FragBlock, FragStmt, RvC, ExprC, ArgsC]
  exact ⟨⟨trivial, trivial⟩, trivial⟩

theorem factBody_frag : FragBlock (fun _ => True) factBody := by
  simp only [factBody, Block.ofList, FragBlock, FragStmt, RvC, ExprC, ArgsC]
  refine ⟨⟨⟨trivial, trivial⟩, ⟨trivial, trivial⟩, trivial⟩, ⟨trivial, trivial, ?_, ⟨trivial, trivial⟩, trivial⟩, trivial⟩
  decide

theorem valMain_frag : FragBlock (fun _ => True) valMain := by
  simp only [valMain, Block.ofList, FragBlock, FragStmt, RvC, ExprC, ArgsC, LoopHdrOK, OWithOK,
    List.forall_mem_cons, ItemOK, List.not_mem_nil, false_imp_iff, implies_true]
  refine ⟨?_, ?_, ?_, ?_, ?_, ?_, ?_, ?_, ?_, ?_⟩
  all_goals first
    | trivial
    | decide
    | (repeat' constructor) <;> first | trivial | decide | nofun

set_option maxRecDepth 8000 in
theorem sqBody_code : Gen.genProgram sqBody = some sqCode := by
  simp [Gen.genProgram, sqBody, Block.ofList, genBlock, genStmt, genRv, genExpr, ins, result, pushLit, sqCode]

set_option maxRecDepth 8000 in
theorem factBody_code : Gen.genProgram factBody = some factCode := by
  simp [Gen.genProgram, factBody, Block.ofList, genBlock, genStmt, genRv, genExpr, genIf, genCall, genParams, ins,
    result, pushLit, factCode]

set_option maxRecDepth 8000 in
theorem valMain_code : Gen.genProgram valMain = some valMainCode := by
  simp [Gen.genProgram, valMain, Block.ofList, genBlock, genStmt, genRv, genExpr, genIf, genLoop, genCall,
    genParams, assembleLoop, patchBreaks_eq, patchRec, ins, counterTest, testOp, loopPost, counter, result, pushLit,
    withClause, withVar, iterItems, iterItem, incCounter, valMainCode]

/-- the image is what the loader makes of the compiled whole script -/
example : (Loader.load ([Instr.routine "sq"] ++ sqCode ++ [Instr.end_ "sq"] ++ [Instr.routine "fact"] ++
      factCode ++ [Instr.end_ "fact"] ++ valMainCode)).code.toList = valImg.code.toList ∧
    (Loader.load ([Instr.routine "sq"] ++ sqCode ++ [Instr.end_ "sq"] ++ [Instr.routine "fact"] ++
      factCode ++ [Instr.end_ "fact"] ++ valMainCode)).routines = valImg.routines := by decide +kernel

theorem valImg_routines : RoutinesAt (fun _ => True) valImg valRoutines := by
  intro name
  by_cases h1 : name = "fact"
  · subst h1
    refine ⟨factBody_frag, fun _ => by simp [factBody, Block.ofList, EndsRet], 9, "fact", rfl, ?_⟩
    rw [resolve_of_mapM _ _ factBody_code]
    have := CodeAt.intro (([Instr.jump .always 30, .routine "sq"] : List Instr) ++ (sqCode ++ [Instr.end_ "sq"]) ++
      [Instr.routine "fact"]) (factCode ++ [Instr.end_ "fact"]) valMainCode [("fact", 9), ("sq", 2)]
    have hl : sqCode.length = 5 := rfl
    simpa [valImg, hl] using this
  · by_cases h2 : name = "sq"
    · subst h2
      refine ⟨sqBody_frag, fun _ => by simp [sqBody, Block.ofList, EndsRet], 2, "sq", rfl, ?_⟩
      rw [resolve_of_mapM _ _ sqBody_code]
      exact CodeAt.intro [Instr.jump .always 30, .routine "sq"] (sqCode ++ [Instr.end_ "sq"])
        ([Instr.routine "fact"] ++ (factCode ++ [Instr.end_ "fact"]) ++ valMainCode) _
    · have e1 : ("fact" == name) = false := by
        simp only [beq_eq_false_iff_ne, ne_eq]; exact fun e => h1 e.symm
      have e2 : ("sq" == name) = false := by
        simp only [beq_eq_false_iff_ne, ne_eq]; exact fun e => h2 e.symm
      simp [valRoutines, e1, e2, valImg, Image.routine?]

theorem valMain_sem :
    (execBlock 400 valMain { vm := Vm.init [], routines := valRoutines }).1 = .normal := by
  decide +kernel

/-- `C01_once_each_in_order` applied: started at the main code (where the initial jump leads),
the machine leaves exactly the source-level trace -/
example : ∃ k, (run valImg k { Vm.init [] with pc := 30 }).trace =
    (execBlock 400 valMain { vm := Vm.init [], routines := valRoutines }).2.vm.trace := by
  have hc : CodeAt valImg 30 valMainCode := by
    have := CodeAt.intro (([Instr.jump .always 30, .routine "sq"] : List Instr) ++ (sqCode ++ [Instr.end_ "sq"]) ++
      ([Instr.routine "fact"] ++ (factCode ++ [Instr.end_ "fact"]))) valMainCode [] [("fact", 9), ("sq", 2)]
    have hl : sqCode.length = 5 := rfl
    have hl2 : factCode.length = 20 := rfl
    simpa [valImg, hl, hl2] using this
  have hsim : Sim ⟨none, valRoutines⟩ {} { vm := Vm.init [], routines := valRoutines }
      { Vm.init [] with pc := 30 } :=
    ⟨rfl, rfl, LoopsOnly.nil, rfl, EvOk.nil, rfl, ⟨rfl, rfl⟩, rfl, ⟨⟨.logical, rfl⟩, rfl⟩, rfl, rfl, rfl, rfl, rfl, rfl, rfl,
      fun _ _ => rfl⟩
  obtain ⟨k, hk, _⟩ := C01_once_each_in_order valImg valRoutines valImg_routines valMain
    valMain_frag valMainCode valMain_code 400 _ _ _ 30 hsim rfl hc (eq_of_fst valMain_sem)
  exact ⟨k, hk⟩

/-- by evaluation: the whole script (definitions first) through the loader and the machine, and
through `Sem.run` -/
example : (Vm.finish (Vm.run valImg 3000 (Vm.init []))).trace =
    .flush :: (Sem.run 400 valWhole []).2.vm.trace := by decide +kernel

example : (Sem.run 400 valWhole []).2.vm.trace.reverse =
    [.out (.int 19), .out (.int 24), .out (.int 16), .out (.int 25), .out (.str "big"), .out (.int 3),
     .newline, .out (.int 40), .out (.int 40)] := by decide +kernel

/-! ### seventh example: the whole scripts of the third and of the sixth example — routine
definitions at the top level, then the main code — through `C01_gen_sim_top`: compiled by
`Gen.genProgram`, loaded by `Loader.load` (which moves the routines and builds the table), run
from the machine's initial state to `halted`; nothing about the image is assumed. -/

def valWholeCode : List Instr :=
  [Instr.routine "sq"] ++ sqCode ++ [Instr.end_ "sq"] ++
    ([Instr.routine "fact"] ++ factCode ++ [Instr.end_ "fact"] ++ valMainCode)

theorem valWhole_top : TopBlock (fun _ => True) valWhole :=
  ⟨⟨sqBody_frag, fun _ => by simp [sqBody, Block.ofList, EndsRet]⟩,
   ⟨factBody_frag, fun _ => by simp [factBody, Block.ofList, EndsRet]⟩,
   topBlock_of_frag valMain valMain_frag⟩

theorem valWhole_code : Gen.genProgram valWhole = some valWholeCode :=
  genProgram_cons_def sqBody_code (genProgram_cons_def factBody_code valMain_code)

theorem valWhole_ws :
    Closed.wsBlock (Wf.builtinNames ++ ["sq", "fact"]) false false false valWhole = true := by
  decide +kernel

theorem valWhole_sem : (Sem.run 400 valWhole []).1 = .normal := by decide +kernel

example : ∃ k, (run (Loader.load valWholeCode) k (Vm.init [])).status = .halted ∧
    (Vm.finish (run (Loader.load valWholeCode) k (Vm.init []))).trace =
      .flush :: (Sem.run 400 valWhole []).2.vm.trace :=
  C01_gen_sim_top _ valWhole valWhole_top valWhole_ws valWholeCode valWhole_code 400 []
    (Sem.run 400 valWhole []).2 (eq_of_fst valWhole_sem)

/-- the third example's script: the routine `down` is not called for its value (`V` empty), so
its body need not end with a `return` -/
theorem wholeScript_top : TopBlock (fun _ => False) wholeScript :=
  ⟨⟨downBody_frag, fun h => h.elim⟩, topBlock_of_frag mainBlock mainBlock_frag⟩

example : ∃ k, (run (Loader.load ([Instr.routine "down"] ++ downCode ++ [Instr.end_ "down"] ++ mainCode)) k
      (Vm.init [])).status = .halted ∧
    (Vm.finish (run (Loader.load ([Instr.routine "down"] ++ downCode ++ [Instr.end_ "down"] ++ mainCode)) k
      (Vm.init []))).trace = .flush :: (Sem.run 200 wholeScript []).2.vm.trace :=
  C01_gen_sim_top (Wf.builtinNames ++ ["down"]) wholeScript wholeScript_top (by decide +kernel) _
    (genProgram_cons_def downBody_code mainBlock_code) 200 []
    (Sem.run 200 wholeScript []).2 (eq_of_fst (by decide +kernel))

/-! ### eighth example: routine definitions NESTED in an `if` branch and in a loop body (with a
`break` that jumps over one of them), through `C01_gen_sim_defs`

```
if {1 > 0} { define sq with x begin return {x * x} end  print 1 } else { print 2 }
repeat 2 {
  print [sq 3]
  define fact with n begin if {n <= 1} { return 1 }  return {n * fact(n - 1)} end
  if {fact(3) > 5} { break }
  print 99
}
println [fact 4]
```
The loader cuts both sections out and shortens three jumps of the main code (12 → 5 over `sq`,
49 → 27 and −52 → −30 around `fact`; the patched `break`, 9, does not span a section). -/

def nestedScript : Block := Block.ofList [
  .ite (.expr (.bin .gt (.lit (.int 1)) (.lit (.int 0))))
    (Block.ofList [.defRoutine "sq" ["x"] sqBody, .print (.lit (.int 1))])
    (some (Block.ofList [.print (.lit (.int 2))])),
  .repeat_ (.count (.lit (.int 2))) (Block.ofList [
    .print (.call "sq" ["x"] (.cons (.lit (.int 3)) .nil)),
    .defRoutine "fact" ["n"] factBody,
    .ite (.expr (.bin .gt (.call "fact" ["n"] (.cons (.lit (.int 3)) .nil)) (.lit (.int 5))))
      (Block.ofList [.brk]) none,
    .print (.lit (.int 99))]),
  .println (some (.call "fact" ["n"] (.cons (.lit (.int 4)) .nil)))]

def nestedCode : List Instr :=
  [.pushq (.int 1), .pushq (.int 0), .op .gt, .pop (.reg .result), .jump .ifFalse 12, .routine "sq"] ++
  sqCode ++
  [.end_ "sq", .moveq (.int 1) (.reg .result), .out .register (.reg .result), .out .print (.lit .none),
   .jump .always 4, .moveq (.int 2) (.reg .result), .out .register (.reg .result),
   .out .print (.lit .none), .loop, .moveq (.int 2) (.loopVar .counter), .push (.loopVar .counter),
   .pushq (.int 0), .op .gt, .pop (.reg .result), .jump .ifFalse 49, .ctx,
   .moveq (.int 3) (.reg .result), .param "x" (.reg .result), .jsr "sq", .endCtx,
   .out .register (.reg .result), .out .print (.lit .none), .routine "fact"] ++
  factCode ++
  [.end_ "fact", .ctx, .moveq (.int 3) (.reg .result), .param "n" (.reg .result), .jsr "fact", .endCtx,
   .push (.reg .result), .pushq (.int 5), .op .gt, .pop (.reg .result), .jump .ifFalse 2,
   .jump .always 9, .moveq (.int 99) (.reg .result), .out .register (.reg .result),
   .out .print (.lit .none), .push (.loopVar .counter), .pushq (.int 1), .op .sub,
   .pop (.loopVar .counter), .jump .always (-52), .endLoop, .ctx, .moveq (.int 4) (.reg .result),
   .param "n" (.reg .result), .jsr "fact", .endCtx, .out .register (.reg .result),
   .out .print (.lit .none), .out .printEnd (.lit .none)]

theorem nestedScript_def : DefBlock (fun _ => True) nestedScript := by
  constructor
  · simp only [nestedScript, Block.ofList, stripB, stripS, FragBlock, FragStmt, RvC, ExprC, ArgsC,
      LoopHdrOK]
    refine ⟨?_, ?_, ?_, ?_⟩
    all_goals first
      | trivial
      | decide
      | (repeat' constructor) <;> first | trivial | decide | nofun
  · intro d hd
    simp only [nestedScript, Block.ofList, Sem.collect, List.append_nil, List.cons_append,
      List.nil_append, List.mem_cons, List.not_mem_nil, or_false] at hd
    rcases hd with rfl | rfl
    · exact ⟨sqBody_frag, fun _ => by simp [sqBody, Block.ofList, EndsRet]⟩
    · exact ⟨factBody_frag, fun _ => by simp [factBody, Block.ofList, EndsRet]⟩

set_option maxRecDepth 8000 in
theorem nestedScript_code : Gen.genProgram nestedScript = some nestedCode := by
  simp [Gen.genProgram, nestedScript, sqBody, factBody, Block.ofList, genBlock, genStmt, genRv, genExpr,
    genIf, genLoop, genCall, genParams, assembleLoop, patchBreaks_eq, patchRec, ins, counterTest, testOp,
    loopPost, counter, result, pushLit, nestedCode, sqCode, factCode]

theorem nestedScript_ws :
    Closed.wsBlock (Wf.builtinNames ++ ["sq", "fact"]) false false false nestedScript = true := by
  decide +kernel

theorem nestedScript_sem : (Sem.run 200 nestedScript []).1 = .normal := by decide +kernel

example : ∃ k, (run (Loader.load nestedCode) k (Vm.init [])).status = .halted ∧
    (Vm.finish (run (Loader.load nestedCode) k (Vm.init []))).trace =
      .flush :: (Sem.run 200 nestedScript []).2.vm.trace :=
  C01_gen_sim_defs _ nestedScript nestedScript_def nestedScript_ws nestedCode nestedScript_code 200 []
    (Sem.run 200 nestedScript []).2 (eq_of_fst nestedScript_sem)

/-- by evaluation: the three shortened jumps, the table, and the traces -/
example : (Loader.load nestedCode).code[34]? = some (.jump .ifFalse 5) ∧
    (Loader.load nestedCode).code[48]? = some (.jump .ifFalse 27) ∧
    (Loader.load nestedCode).code[74]? = some (.jump .always (-30)) ∧
    (Loader.load nestedCode).routines = [("fact", 9), ("sq", 2)] := by decide +kernel

example : (Sem.run 200 nestedScript []).2.vm.trace.reverse =
    [.out (.int 1), .out (.int 9), .out (.int 24), .newline] := by decide +kernel

/-! ### ninth example: a routine defined inside the body of a matrix block

```
hue 10
set "m" begin define f begin print 7 end  stage row 0 end
f
print 3
```
(the real implementation accepts this and prints 7 and 3; before `Sem.collect` looked into matrix
blocks, `Sem` said "unknown routine f") -/

def matScript : Block := Block.ofList [
  .setReg .hue (.lit (.int 10)),
  .action .set true (.cons (.matrixBlock (.str "m") (Block.ofList [
    .defRoutine "f" [] (Block.ofList [.print (.lit (.int 7))]),
    .stage (some ⟨.lit (.int 0), none⟩) none false])) .nil),
  .call "f" [] .nil,
  .print (.lit (.int 3))]

def matCode : List Instr := [
  .moveq (.int 10) (.reg .hue), .wait, .moveq (.str "m") (.reg .name), .matrix, .routine "f",
  .moveq (.int 7) (.reg .result), .out .register (.reg .result), .out .print (.lit .none), .end_ "f",
  .moveq (.operand .matrix) (.reg .operand), .moveq (.int 0) (.reg .firstRow),
  .moveq .none (.reg .lastRow), .moveq .none (.reg .firstColumn), .moveq .none (.reg .lastColumn),
  .color, .endMatrix, .moveq (.str "m") (.reg .name), .moveq (.operand .matrixLight) (.reg .operand),
  .color, .ctx, .jsr "f", .endCtx,
  .moveq (.int 3) (.reg .result), .out .register (.reg .result), .out .print (.lit .none)]

theorem matScript_def : DefBlock (fun _ => False) matScript := by
  constructor
  · simp only [matScript, Block.ofList, stripB, stripS, stripOps, stripOp, FragBlock, FragStmt, RvC,
      ExprC, ArgsC, FragOperands, FragOperand, ORangeOK, RangeOK]
    refine ⟨?_, ?_, ?_, ?_⟩
    all_goals first
      | trivial
      | decide
      | (repeat' constructor) <;> first | trivial | decide | nofun
  · intro d hd
    simp only [matScript, Block.ofList, Sem.collect, Sem.collectOps, List.append_nil, List.cons_append,
      List.nil_append, List.mem_cons, List.not_mem_nil, or_false] at hd
    subst hd
    refine ⟨?_, fun h => h.elim⟩
    simp only [Block.ofList, FragBlock, FragStmt, RvC]
    exact ⟨trivial, trivial⟩

set_option maxRecDepth 8000 in
theorem matScript_code : Gen.genProgram matScript = some matCode := by
  simp [Gen.genProgram, matScript, Block.ofList, genBlock, genStmt, genRv, genOperands, genOperand,
    genName, genMatrixRanges, genRange, genCall, genParams, opcodeOf, ins, result, matCode]

example : ∃ k, (run (Loader.load matCode) k (Vm.init c01Lights2)).status = .halted ∧
    (Vm.finish (run (Loader.load matCode) k (Vm.init c01Lights2))).trace =
      .flush :: (Sem.run 200 matScript c01Lights2).2.vm.trace :=
  C01_gen_sim_defs (Wf.builtinNames ++ ["f"]) matScript matScript_def (by decide +kernel) matCode
    matScript_code 200 c01Lights2 (Sem.run 200 matScript c01Lights2).2 (eq_of_fst (by decide +kernel))

example : (Sem.run 200 matScript c01Lights2).2.vm.trace.reverse =
    [.setTile "m" [[1820, 0, 0, 0], [1820, 0, 0, 0], [0, 0, 0, 0], [0, 0, 0, 0]] 0 2 2,
     .out (.int 7), .out (.int 3)] := by decide +kernel

/-! ### tenth example: commands inside a matrix block have no `WAIT` of their own

```
time 2  hue 10
set "m" begin  on "a"  stage row 0  set default  set "a"  end
print 3
```
The script as the driver's reader delivers it: `Block.lexical false` clears the `w` flag of the
three commands inside the block.  One pause (for the block as a whole), then the commands to `a`
at once; the block's matrix goes to `m`, the light named in the `set`: the code loads `NAME` again
after `END matrix` (the commands inside loaded `a`).  Before the repair of the real parser
(`known_findings.json`, fixed: C06, matrix block name) it went to `a`, i.e. nowhere. -/

def inMatSrc : Block := Block.ofList [
  .setReg .time (.lit (.int 2)), .setReg .hue (.lit (.int 10)),
  .action .set true (.cons (.matrixBlock (.str "m") (Block.ofList [
    .action .on true (.cons (.light (.str "a")) .nil),
    .stage (some ⟨.lit (.int 0), none⟩) none false,
    .setDefault true,
    .action .set true (.cons (.light (.str "a")) .nil)])) .nil),
  .print (.lit (.int 3))]

def inMatScript : Block := Block.lexical false inMatSrc

example : inMatScript = Block.ofList [
    .setReg .time (.lit (.int 2)), .setReg .hue (.lit (.int 10)),
    .action .set true (.cons (.matrixBlock (.str "m") (Block.ofList [
      .action .on false (.cons (.light (.str "a")) .nil),
      .stage (some ⟨.lit (.int 0), none⟩) none false,
      .setDefault false,
      .action .set false (.cons (.light (.str "a")) .nil)])) .nil),
    .print (.lit (.int 3))] := rfl

def inMatCode : List Instr := [
  .moveq (.int 2) (.reg .time), .moveq (.int 10) (.reg .hue), .wait, .moveq (.str "m") (.reg .name),
  .matrix, .moveq (.bool true) (.reg .power), .moveq (.str "a") (.reg .name),
  .moveq (.operand .light) (.reg .operand), .power, .moveq (.operand .matrix) (.reg .operand),
  .moveq (.int 0) (.reg .firstRow), .moveq .none (.reg .lastRow), .moveq .none (.reg .firstColumn),
  .moveq .none (.reg .lastColumn), .color, .moveq (.operand .default) (.reg .operand), .color,
  .moveq (.str "a") (.reg .name), .moveq (.operand .light) (.reg .operand), .color, .endMatrix,
  .moveq (.str "m") (.reg .name), .moveq (.operand .matrixLight) (.reg .operand), .color,
  .moveq (.int 3) (.reg .result),
  .out .register (.reg .result), .out .print (.lit .none)]

theorem inMatScript_frag : FragBlock (fun _ => False) inMatScript := by
  simp only [inMatScript, inMatSrc, Block.lexical, Stmt.lexical, Operands.lexical, Operand_.lexical,
    Block.ofList, FragBlock, FragStmt, RvC, ExprC, ArgsC, FragOperands, FragOperand, ORangeOK, RangeOK]
  refine ⟨?_, ?_, ?_, ?_⟩
  all_goals first
    | trivial
    | decide
    | (repeat' constructor) <;> first | trivial | decide | nofun

set_option maxRecDepth 8000 in
theorem inMatScript_code : Gen.genProgram inMatScript = some inMatCode := by
  simp [Gen.genProgram, inMatScript, inMatSrc, Block.lexical, Stmt.lexical, Operands.lexical,
    Operand_.lexical, Block.ofList, genBlock, genStmt, genRv, genOperands, genOperand,
    genName, genMatrixRanges, genRange, opcodeOf, ins, result, inMatCode]

example : ∃ k, (run (Loader.load inMatCode) k (Vm.init c01Lights2)).status = .halted ∧
    (Vm.finish (run (Loader.load inMatCode) k (Vm.init c01Lights2))).trace =
      .flush :: (Sem.run 200 inMatScript c01Lights2).2.vm.trace :=
  C01_gen_sim_loaded inMatScript inMatScript_frag inMatCode inMatScript_code 200 c01Lights2
    (Sem.run 200 inMatScript c01Lights2).2 (eq_of_fst (by decide +kernel))

example : (Sem.run 200 inMatScript c01Lights2).2.vm.trace.reverse =
    [.pause (.int 2), .setPower "a" 65535 0, .setColor "a" [1820, 0, 0, 0] 0,
     .setTile "m" [[1820, 0, 0, 0], [1820, 0, 0, 0], [1820, 0, 0, 0], [1820, 0, 0, 0]] 0 2 2,
     .out (.int 3)] := by decide +kernel

/-! ### why the fragment excludes reading `result` and `setReg unitMode`: on these scripts the
source semantics and the machine (both of the MODEL) disagree

(`printf "x" 7` — more arguments than fields — is the third such script: by `#eval` the machine's
trace is `outFmt "x" [] []`, then `out 7` at the final flush, `Sem`'s is `outFmt "x" [7] []`;
`printf "{result}"` after `print 5` gives `("result", 5)` on the machine and `("result", none)`
in `Sem`.  Neither can be checked by `decide`, see above.) -/

/-- `print 5  print result`: the machine prints the scratch value 5 again, `Sem` prints `None` -/
example :
    let b := Block.ofList [.print (.lit (.int 5)), .print (.reg .result)]
    (Sem.run 20 b []).2.vm.trace = [.out .none, .out (.int 5)] ∧
    (Vm.run (Loader.load [.moveq (.int 5) (.reg .result), .out .register (.reg .result),
        .out .print (.lit .none), .out .register (.reg .result), .out .print (.lit .none)]) 20
      (Vm.init [])).trace = [.out (.int 5), .out (.int 5)] := by decide +kernel

/-- `setReg unitMode raw  print hue` is the same on both sides only because all colour registers
are 0; with `hue 120` before it the machine prints the converted 21845, `Sem` 120 -/
example :
    let b := Block.ofList [.setReg .hue (.lit (.int 120)), .setReg .unitMode (.lit (.mode .raw)),
      .print (.reg .hue)]
    (Sem.run 20 b []).2.vm.trace = [.out (.int 120)] ∧
    (Vm.run (Loader.load [.moveq (.int 120) (.reg .hue), .moveq (.mode .raw) (.reg .unitMode),
        .move (.reg .hue) (.reg .result), .out .register (.reg .result), .out .print (.lit .none)]) 20
      (Vm.init [])).trace = [.out (.num 21845)] := by decide +kernel

end Sim.C01Ex
end Examples

end Bardolph
