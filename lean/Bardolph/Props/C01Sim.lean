import Bardolph.Proofs.SimLoops
import Bardolph.Model.Loader
/-!
# C01 — the compiled code does what the source says (simulation, partial)

`Sem` is the source-level semantics (the specification), `Gen` the code generator, `Vm` the
machine.  For every block of the fragment `Sim.FragBlock` (below) and every fuel: if the source
semantics runs the block from `σ` to `σ'` with outcome `normal`, then the machine, started in any
state `s` related to `σ` by `Sim.Sim` with the block's code at its program counter, reaches in
finitely many steps a state `s'` related to `σ'`, with the program counter just past the code.

`Sim.Sim stk σ s` (`Proofs/Sim.lean`, `SimU` with no pending `printf` values) says: both are
running; `s` has frame stack `stk`, all loop frames (at top level `stk = []`), an empty evaluation
stack and no pending output; `σ` is at top level (no routine active); and globals, constants
(macros), lights, the trace of events (device commands, delays, output), default colour, matrix,
random draws and EVERY register except `result` are EQUAL.  `result` is the generated code's
scratch register (conditions, printed values, `get` names pass through it); the source semantics
does not model it.

The fragment (`Sim.FragStmt` / `FragBlock` / `FragOperand(s)` in `Proofs/SimStmts.lean`):
* value positions (`Sim.RvOK`): literal, variable, register other than `result`, or a call-free
  expression of any depth that does not read `result`;
* `setReg r v` (`r ≠ unitMode`), `assign`, `print`, `println`, `printf` (at least as many
  positional fields as arguments, no field named `result`), `defMacro`, `wait`, `units`, `timeAt`;
* `actAll`, `setDefault`, `get`, `stage`, `action k ops` with operands `light`/`group`/`location`
  (name as string or variable), `zone`, `matrixInline`, `matrixBlock` with ANY body of the fragment;
* `ite` with or without `else`, nested to any depth;
* `repeat_ (.count n)`, `repeat_ (.while_ c)`, `repeat_ .forever`, nested to any depth, with
  `brk` anywhere in their bodies (inside `ite`, inside a matrix body, …).
Not covered: routine definitions, calls (user routines and built-ins) and `return`; the `repeat`
forms with an index variable or over lights/groups/locations.
-/
namespace Bardolph
open Vm VmSteps Sem Gen Sim

variable {img : Image}

/-! ## every statement form of the fragment -/

theorem Sim.stmts_zero : StmtsGoal img 0 := by
  intro st _ σ σ' o s pc exit stk _ _ _ h ho
  simp only [execStmt, Prod.mk.injEq] at h
  rcases ho with rfl | rfl <;> simp at h

theorem Sim.stmts_step (f : Nat) (ihB : BlockGoal img f) (ihOs : OperandsGoal img f)
    (ihL : LoopGoal img f) : StmtsGoal img (f + 1) := by
  intro st hst
  cases st with
  | setReg r v => exact stmt_setReg f r v hst.1 hst.2
  | units m => exact stmt_units f m
  | actAll k => exact stmt_actAll f k
  | setDefault => exact stmt_setDefault f
  | action k ops => exact stmt_action f ihOs k ops hst
  | get name => exact stmt_get f name hst
  | wait => exact stmt_wait f
  | timeAt ps => exact stmt_timeAt f ps
  | assign n v => exact stmt_assign f n v hst
  | defMacro n v => exact stmt_defMacro f n v
  | defRoutine n ps body => exact absurd hst (by simp [FragStmt])
  | call g ps as => exact absurd hst (by simp [FragStmt])
  | ret v => exact absurd hst (by simp [FragStmt])
  | ite c t e =>
    cases e with
    | none => exact stmt_ite_none f ihB c hst.1 t hst.2.1
    | some e => exact stmt_ite_some f ihB c hst.1 t e hst.2.1 hst.2.2
  | repeat_ hd body => exact stmt_repeat f ihL hd body hst.1 hst.2
  | brk => exact stmt_brk f
  | print v => exact stmt_print f v hst
  | println v => exact stmt_println f v hst
  | printf fmt as => exact stmt_printf f fmt as hst.1 hst.2.1 hst.2.2
  | stage rows cols cf => exact stmt_stage f rows cols cf hst.1 hst.2

/-- all the simulation statements at one fuel level -/
structure Sim.AllGoals (img : Image) (f : Nat) : Prop where
  stmts : StmtsGoal img f
  block : BlockGoal img f
  operand : OperandGoal img f
  operands : OperandsGoal img f
  loop : LoopGoal img f
  whileI : WhileIter img f
  countI : CountIter img f

theorem Sim.allGoals (img : Image) : ∀ f, AllGoals img f := by
  intro f
  induction f with
  | zero =>
    exact ⟨stmts_zero, block_zero, operand_zero, operands_zero, loop_zero, while_zero, count_zero⟩
  | succ f ih =>
    exact ⟨stmts_step f ih.block ih.operands ih.loop, block_step f ih.stmts ih.block,
      operand_step f ih.block, operands_step f ih.operand ih.operands,
      loop_step f ih.whileI ih.countI, while_step f ih.block ih.whileI,
      count_step f ih.block ih.countI⟩

/-! ## the theorems -/

/-- **gen_sim, block level, with `break`.**  For a block of the fragment placed anywhere (inside
any number of enclosing loops `stk`, `break`s resolved to jump to `exit`): if the source says the
block ends normally, the machine arrives just past the code; if the source says `break`, the
machine arrives at `exit`; in both cases in a state related to the source-level state. -/
theorem C01_gen_sim_block (img : Image) (b : Block) (hb : FragBlock b) (f : Nat) (σ σ' : S)
    (o : Outcome) (s : State) (pc exit : Nat) (stk : List Frame)
    (hsim : Sim stk σ s) (hpc : s.pc = (pc : Int))
    (hc : CodeAt img pc (resolve (genBlock b) pc exit))
    (h : execBlock f b σ = (o, σ')) (ho : o = .normal ∨ o = .brk) :
    ∃ k, (run img k s).pc = ((Target pc (genBlock b).length exit o : Nat) : Int) ∧
      Sim stk σ' (run img k s) := by
  obtain ⟨k, hk⟩ := (Sim.allGoals img f).block b hb σ σ' o s pc exit stk hsim hpc hc h ho
  exact ⟨k, hk.1, hk.2⟩

/-- the same for a single statement -/
theorem C01_gen_sim_stmt (img : Image) (st : Stmt) (hst : FragStmt st) (f : Nat) (σ σ' : S)
    (o : Outcome) (s : State) (pc exit : Nat) (stk : List Frame)
    (hsim : Sim stk σ s) (hpc : s.pc = (pc : Int))
    (hc : CodeAt img pc (resolve (genStmt st) pc exit))
    (h : execStmt f st σ = (o, σ')) (ho : o = .normal ∨ o = .brk) :
    ∃ k, (run img k s).pc = ((Target pc (genStmt st).length exit o : Nat) : Int) ∧
      Sim stk σ' (run img k s) := by
  obtain ⟨k, hk⟩ := (Sim.allGoals img f).stmts st hst σ σ' o s pc exit stk hsim hpc hc h ho
  exact ⟨k, hk.1, hk.2⟩

/-- **gen_sim_partial.**  For every statement list `b` of the fragment whose code `code` has no
unresolved `break` (`Gen.genProgram b = some code`), every fuel, every source-level state `σ`
and machine state `s` related by `Sim` at top level, and every image with `code` at `s.pc`:
if the source semantics runs `b` from `σ` normally to `σ'`, the machine reaches, in finitely
many steps, a state with the program counter just past the code that is related to `σ'`.

In words: the compiled code issues exactly the device commands, waits and output the source
says, in the same order, and leaves every variable, macro and register (but the scratch register
`result`) as the source says. -/
theorem C01_gen_sim_partial (img : Image) (b : Block) (hb : FragBlock b) (code : List Instr)
    (hcode : Gen.genProgram b = some code) (f : Nat) (σ σ' : S) (s : State) (pc : Nat)
    (hsim : Sim [] σ s) (hpc : s.pc = (pc : Int)) (hc : CodeAt img pc code)
    (h : execBlock f b σ = (.normal, σ')) :
    ∃ k, (run img k s).pc = ((pc + code.length : Nat) : Int) ∧ Sim [] σ' (run img k s) := by
  have hres : resolve (genBlock b) pc (0 : Nat) = code := resolve_of_mapM _ _ hcode pc _
  have hlen : code.length = (genBlock b).length := by rw [← hres, resolve_length]
  obtain ⟨k, hk1, hk2⟩ := C01_gen_sim_block img b hb f σ σ' .normal s pc 0 [] hsim hpc
    (by rw [hres]; exact hc) h (Or.inl rfl)
  exact ⟨k, by rw [hk1, hlen]; rfl, hk2⟩

/-- **once_each_in_order.**  For `b` in the fragment, the machine's trace after running the code
is exactly the source-level trace — which by the definition of `Sem` consists of one group of
events per dynamic execution of a statement, in program order — and so are the variables,
macros, lights and all registers other than `result`. -/
theorem C01_once_each_in_order (img : Image) (b : Block) (hb : FragBlock b) (code : List Instr)
    (hcode : Gen.genProgram b = some code) (f : Nat) (σ σ' : S) (s : State) (pc : Nat)
    (hsim : Sim [] σ s) (hpc : s.pc = (pc : Int)) (hc : CodeAt img pc code)
    (h : execBlock f b σ = (.normal, σ')) :
    ∃ k, (run img k s).trace = σ'.vm.trace ∧ (run img k s).globals = σ'.vm.globals ∧
      (run img k s).constants = σ'.vm.constants ∧ (run img k s).lights = σ'.vm.lights ∧
      (∀ r, r ≠ .result → (run img k s).regs r = σ'.vm.regs r) ∧
      (run img k s).status = .running ∧ (run img k s).pc = ((pc + code.length : Nat) : Int) := by
  obtain ⟨k, hk1, hk2⟩ := C01_gen_sim_partial img b hb code hcode f σ σ' s pc hsim hpc hc h
  exact ⟨k, hk2.trace.symm, hk2.globals.symm, hk2.constants.symm, hk2.lights.symm,
    fun r hr => (hk2.regs r hr).symm, hk2.running, hk1⟩

/-- the initial states of `Sem.run` and of the machine are related -/
theorem Sim.init (lights : List Light) (rts : List (String × Sem.Routine)) :
    Sim [] { vm := Vm.init lights, routines := rts } (Vm.init lights) :=
  ⟨rfl, rfl, LoopsOnly.nil, rfl, rfl, rfl, rfl, rfl, rfl, rfl, rfl, rfl, rfl, rfl, fun _ _ => rfl⟩

/-- **whole scripts.**  A script of the fragment, compiled by `Gen.genProgram` and placed at
address 0 of an image that ends with it: if the source-level run (`Sem.run`) ends normally, the
machine started in its initial state halts, and what `Machine.run` leaves behind
(`Vm.finish`) is the source-level trace followed by the final flush of the output sink. -/
theorem C01_gen_sim_program (b : Block) (hb : FragBlock b) (code : List Instr)
    (hcode : Gen.genProgram b = some code) (rts : List (String × Nat)) (f : Nat)
    (lights : List Light) (σ' : S) (h : Sem.run f b lights = (.normal, σ')) :
    ∃ k, (run ⟨code.toArray, rts⟩ k (Vm.init lights)).status = .halted ∧
      (Vm.finish (run ⟨code.toArray, rts⟩ k (Vm.init lights))).trace = .flush :: σ'.vm.trace := by
  have hc : CodeAt ⟨code.toArray, rts⟩ 0 code := by
    have := CodeAt.intro [] code [] rts
    simpa using this
  obtain ⟨k, hk1, hk2⟩ := C01_gen_sim_partial ⟨code.toArray, rts⟩ b hb code hcode f _ σ'
    (Vm.init lights) 0 (Sim.init lights _) rfl hc h
  refine ⟨k + 1, ?_⟩
  rw [run_add, run_one _ _ hk2.running]
  generalize run ⟨code.toArray, rts⟩ k (Vm.init lights) = t at hk1 hk2
  have hstep : step ⟨code.toArray, rts⟩ t = { t with status := .halted } := by
    unfold step
    have h0 : ¬ (t.pc < 0) := by omega
    have h1 : t.pc.toNat = code.length := by omega
    rw [if_neg (by simp [hk2.running]), if_neg h0, h1]
    simp
  rw [hstep]
  refine ⟨rfl, ?_⟩
  simp only [Vm.finish, hk2.unnamed, List.foldl_nil, State.emit, hk2.trace]

end Bardolph
