import Bardolph.Props.C05
import Bardolph.Proofs.ClosedSplit
import Bardolph.Proofs.ClosedLoad
/-!
# C06 (`accepted_executable`) / C05 (`gen_closed`): compiled scripts are accepted by the checker

For every well-scoped script `b` (resolved AST): if the code generator produces a program
(`Gen.genProgram b = some prog`), the loaded image passes the checker of C05,
`Wf.wfImage (Loader.load prog) = true`.  By `C05_wf_sound` every execution of the VM model on
that image stays inside the program, never hits a control fault (unknown routine, missing
frame, `ROUTINE` executed, bad instruction, …) and ends with balanced frames.

`WellScoped b` is what the compiler checks before it emits code:
* every call (statement, or inside an expression / rvalue / argument) names a built-in routine
  or a routine defined somewhere in the script (top level or inside `if` / `repeat` / matrix
  block bodies);
* `return` only inside a routine body; no definition inside a routine body;
* `break` only inside a loop body — where the body of a routine definition and the body of a
  matrix block start afresh (a `break` there must belong to a loop of that body);
* no matrix operand (`MATRIX … END matrix`) inside a matrix block, where a routine body again
  starts afresh;
* the names of the defined routines are pairwise distinct.

The proof is layered (`Proofs/Closed.lean`: closed code and its composition; `Proofs/ClosedGen.lean`:
every statement compiles to closed code; `Proofs/ClosedSplit.lean`: what the loader's
classification makes of generated code; `Proofs/ClosedLoad.lean`: closed programs load to accepted
images).
-/
set_option linter.unusedSimpArgs false
set_option linter.unusedVariables false

namespace Bardolph
namespace C06
open Gen Wf Loader Closed Vm

/-! ## well-scoped scripts -/

def defNames (b : Block) : List String := (defsB b).map (·.1)

/-- the scoping rules of the language, on the resolved AST (see the file header) -/
def WellScoped (b : Block) : Prop :=
  wsBlock (builtinNames ++ defNames b) false false false b = true ∧ (defNames b).Nodup

instance (b : Block) : Decidable (WellScoped b) := by
  unfold WellScoped; infer_instance

/-! ## from `genProgram` to closed code -/

theorem eq_ins_of_mapM : ∀ (c : Code) (prog : Program),
    c.mapM (fun g => match g with
      | .i x => some x
      | .brk => none) = some prog → c = ins prog
  | [], prog, h => by
    simp at h
    subst h; rfl
  | g :: c, prog, h => by
    rw [List.mapM_cons] at h
    cases g with
    | brk => simp at h
    | i x =>
      simp only [Option.pure_def, Option.bind_eq_bind, Option.bind_some] at h
      cases hc : c.mapM (fun g => match g with
        | .i x => some x
        | .brk => none) with
      | none => simp [hc] at h
      | some p =>
        simp only [hc, Option.bind_some, Option.some.injEq] at h
        subst h
        rw [ins_cons, eq_ins_of_mapM c p hc]

theorem genBlock_eq_ins {b : Block} {prog : Program} (h : genProgram b = some prog) :
    genBlock b = ins prog := eq_ins_of_mapM _ _ h

/-- code without `break` markers is an instruction list -/
theorem eq_ins_of_noBrk : ∀ (c : Code), (∀ k : Nat, c[k]? ≠ some G.brk) → c = ins (c.map gi)
  | [], _ => rfl
  | g :: c, h => by
    have h0 := h 0
    have ih := eq_ins_of_noBrk c fun k => by simpa using h (k + 1)
    cases g with
    | brk => simp at h0
    | i x =>
      simp only [List.map_cons, ins_cons, gi_i, List.cons.injEq, true_and]
      exact ih

/-- the bodies of the definitions of a well-scoped script are well-scoped routine bodies -/
theorem ws_defs_aux : True := trivial

mutual
  theorem ws_defs_stmt {K : List String} : ∀ (s : Stmt) (il im : Bool),
      wsStmt K false il im s = true → ∀ d ∈ defsS s, wsBlock K true false false d.2 = true
    | .setReg _ _, il, im, h, d, hd => by simp [defsS] at hd
    | .units _, il, im, h, d, hd => by simp [defsS] at hd
    | .actAll _, il, im, h, d, hd => by simp [defsS] at hd
    | .setDefault, il, im, h, d, hd => by simp [defsS] at hd
    | .action k ops, il, im, h, d, hd => by
      simp only [wsStmt] at h
      simp only [defsS] at hd
      exact ws_defs_ops ops im h d hd
    | .get _, il, im, h, d, hd => by simp [defsS] at hd
    | .wait, il, im, h, d, hd => by simp [defsS] at hd
    | .timeAt _, il, im, h, d, hd => by simp [defsS] at hd
    | .assign _ _, il, im, h, d, hd => by simp [defsS] at hd
    | .defMacro _ _, il, im, h, d, hd => by simp [defsS] at hd
    | .defRoutine n ps body, il, im, h, d, hd => by
      simp only [wsStmt, Bool.and_eq_true] at h
      simp only [defsS, List.mem_singleton] at hd
      subst hd
      exact h.2
    | .call _ _ _, il, im, h, d, hd => by simp [defsS] at hd
    | .ret _, il, im, h, d, hd => by simp [defsS] at hd
    | .ite c t none, il, im, h, d, hd => by
      simp only [wsStmt, Bool.and_eq_true] at h
      simp only [defsS] at hd
      exact ws_defs_block t _ _ h.1.2 d hd
    | .ite c t (some b), il, im, h, d, hd => by
      simp only [wsStmt, Bool.and_eq_true] at h
      simp only [defsS, List.mem_append] at hd
      rcases hd with hd | hd
      · exact ws_defs_block t _ _ h.1.2 d hd
      · exact ws_defs_block b _ _ h.2 d hd
    | .repeat_ hd0 body, il, im, h, d, hd => by
      simp only [wsStmt, Bool.and_eq_true] at h
      simp only [defsS] at hd
      exact ws_defs_block body _ _ h.2 d hd
    | .brk, il, im, h, d, hd => by simp [defsS] at hd
    | .print _, il, im, h, d, hd => by simp [defsS] at hd
    | .println _, il, im, h, d, hd => by simp [defsS] at hd
    | .printf _ _, il, im, h, d, hd => by simp [defsS] at hd
    | .stage _ _ _, il, im, h, d, hd => by simp [defsS] at hd
  theorem ws_defs_block {K : List String} : ∀ (b : Block) (il im : Bool),
      wsBlock K false il im b = true → ∀ d ∈ defsB b, wsBlock K true false false d.2 = true
    | .nil, il, im, h, d, hd => by simp [defsB] at hd
    | .cons s rest, il, im, h, d, hd => by
      simp only [wsBlock, Bool.and_eq_true] at h
      simp only [defsB, List.mem_append] at hd
      rcases hd with hd | hd
      · exact ws_defs_stmt s _ _ h.1 d hd
      · exact ws_defs_block rest _ _ h.2 d hd
  theorem ws_defs_op {K : List String} : ∀ (o : Operand_) (im : Bool),
      wsOperand K false im o = true → ∀ d ∈ defsOp o, wsBlock K true false false d.2 = true
    | .light _, im, h, d, hd => by simp [defsOp] at hd
    | .group _, im, h, d, hd => by simp [defsOp] at hd
    | .location _, im, h, d, hd => by simp [defsOp] at hd
    | .zone _ _, im, h, d, hd => by simp [defsOp] at hd
    | .matrixInline _ _ _ _, im, h, d, hd => by simp [defsOp] at hd
    | .matrixBlock n body, im, h, d, hd => by
      simp only [wsOperand, Bool.and_eq_true] at h
      simp only [defsOp] at hd
      exact ws_defs_block body _ _ h.2 d hd
  theorem ws_defs_ops {K : List String} : ∀ (ops : Operands) (im : Bool),
      wsOperands K false im ops = true → ∀ d ∈ defsOps ops, wsBlock K true false false d.2 = true
    | .nil, im, h, d, hd => by simp [defsOps] at hd
    | .cons o rest, im, h, d, hd => by
      simp only [wsOperands, Bool.and_eq_true] at h
      simp only [defsOps, List.mem_append] at hd
      rcases hd with hd | hd
      · exact ws_defs_op o _ h.1 d hd
      · exact ws_defs_ops rest _ h.2 d hd
end

/-- the body of a well-scoped routine compiles to closed code without `break` markers -/
theorem body_closed {K : List String} {body : Block} (h : wsBlock K true false false body = true) :
    genBlock body = ins ((genBlock body).map gi) ∧
      ClosedAt true false K (ins ((genBlock body).map gi)) (none, Abs.empty) := by
  have hc := closed_block body true false false h Abs.empty Entry.empty
  have e := eq_ins_of_noBrk (genBlock body) fun k hk => by
    have := (hc.brks k hk).1
    cases this
  exact ⟨e, e ▸ hc⟩

/-! ## the theorem -/

/-- **`gen_closed`, in full**: the loaded image of every well-scoped script is accepted by the
checker — routine definitions anywhere (top level, inside `if` / `repeat` / matrix-block bodies:
the loader relocates the jumps that span them), calls of user and built-in routines in every
rvalue position, `return` at any loop depth of a routine, `break` at any `if`-nesting of a loop,
every loop form, matrix operands. -/
theorem C06_closed_nested_definitions {b : Block} {prog : Program} (hws : WellScoped b)
    (hg : genProgram b = some prog) : wfImage (load prog) = true := by
  obtain ⟨hw, hnd⟩ := hws
  have hb := genBlock_eq_ins hg
  have hmain : ClosedAt false false (builtinNames ++ defNames b) (ins prog) (none, Abs.empty) := by
    rw [← hb]
    exact closed_block b false false false hw Abs.empty Entry.empty
  refine Load.wfImage_load (secs := (defsB b).map fun d => (d.1, (genBlock d.2).map gi)) hmain ?_ ?_
    ?_ ?_
  · simp [defNames, List.map_map, Function.comp_def]
  · rw [routineSegment_eq, ← hb, split_block b false false hw, List.flatMap_map]
    simp only [List.map_flatMap]
    congr 1
    funext d
    simp [rc, Load.render, List.map_append]
  · intro sec hsec
    obtain ⟨d, hd, rfl⟩ := List.mem_map.mp hsec
    exact (body_closed (ws_defs_block b false false hw d hd)).2
  · simpa [defNames, List.map_map, Function.comp_def] using hnd

end C06
end Bardolph
