import Bardolph.Props.C05
import Bardolph.Proofs.ClosedSplit
import Bardolph.Proofs.ClosedLoad
/-!
# C06 (`accepted_executable`) / C05 (`gen_closed`): compiled scripts are accepted by the checker

For every well-scoped script `b` (resolved AST): if the code generator produces a program
(`Gen.genProgram b = some prog`), the loaded image passes the checker of C05,
`Wf.wfImage (Loader.load prog) = true`.  By `C05_wf_sound` every execution of the VM model on
that image stays inside the program, never hits a control fault (unknown routine, missing
frame, `ROUTINE` executed, bad instruction, …) and ends with balanced frames.

`WellScoped b` is what the compiler checks before it emits code:
* every call (statement, or inside an expression / rvalue / argument) names a built-in routine
  or a routine defined somewhere in the script (top level or inside `if` / `repeat` / matrix
  block bodies);
* `return` only inside a routine body; no definition inside a routine body;
* `break` only inside a loop body — where the body of a routine definition and the body of a
  matrix block start afresh (a `break` there must belong to a loop of that body);
* no matrix operand (`MATRIX … END matrix`) inside a matrix block, where a routine body again
  starts afresh;
* the names of the defined routines are pairwise distinct.

The proof is layered (`Proofs/Closed.lean`: closed code and its composition; `Proofs/ClosedGen.lean`:
every statement compiles to closed code; `Proofs/ClosedSplit.lean`: what the loader's
classification makes of generated code; `Proofs/ClosedLoad.lean`: closed programs load to accepted
images).
-/
set_option linter.unusedSimpArgs false
set_option linter.unusedVariables false

namespace Bardolph
namespace C06
open Gen Wf Loader Closed Vm

/-! ## well-scoped scripts -/

def defNames (b : Block) : List String := (defsB b).map (·.1)

/-- the scoping rules of the language, on the resolved AST (see the file header) -/
def WellScoped (b : Block) : Prop :=
  wsBlock (builtinNames ++ defNames b) false false false b = true ∧ (defNames b).Nodup

instance (b : Block) : Decidable (WellScoped b) := by
  unfold WellScoped; infer_instance

/-! ## from `genProgram` to closed code -/

theorem eq_ins_of_mapM : ∀ (c : Code) (prog : Program),
    c.mapM (fun g => match g with
      | .i x => some x
      | .brk => none) = some prog → c = ins prog
  | [], prog, h => by
    simp at h
    subst h; rfl
  | g :: c, prog, h => by
    rw [List.mapM_cons] at h
    cases g with
    | brk => simp at h
    | i x =>
      simp only [Option.pure_def, Option.bind_eq_bind, Option.bind_some] at h
      cases hc : c.mapM (fun g => match g with
        | .i x => some x
        | .brk => none) with
      | none => simp [hc] at h
      | some p =>
        simp only [hc, Option.bind_some, Option.some.injEq] at h
        subst h
        rw [ins_cons, eq_ins_of_mapM c p hc]

theorem genBlock_eq_ins {b : Block} {prog : Program} (h : genProgram b = some prog) :
    genBlock b = ins prog := eq_ins_of_mapM _ _ h

/-- code without `break` markers is an instruction list -/
theorem eq_ins_of_noBrk : ∀ (c : Code), (∀ k : Nat, c[k]? ≠ some G.brk) → c = ins (c.map gi)
  | [], _ => rfl
  | g :: c, h => by
    have h0 := h 0
    have ih := eq_ins_of_noBrk c fun k => by simpa using h (k + 1)
    cases g with
    | brk => simp at h0
    | i x =>
      simp only [List.map_cons, ins_cons, gi_i, List.cons.injEq, true_and]
      exact ih

/-! the bodies of the definitions of a well-scoped script are well-scoped routine bodies -/

mutual
  theorem ws_defs_stmt {K : List String} : ∀ (s : Stmt) (il im : Bool),
      wsStmt K false il im s = true → ∀ d ∈ defsS s, wsBlock K true false false d.2 = true
    | .setReg _ _, il, im, h, d, hd => by simp [defsS] at hd
    | .units _, il, im, h, d, hd => by simp [defsS] at hd
    | .actAll _, il, im, h, d, hd => by simp [defsS] at hd
    | .setDefault _, il, im, h, d, hd => by simp [defsS] at hd
    | .action k _ ops, il, im, h, d, hd => by
      simp only [wsStmt] at h
      simp only [defsS] at hd
      exact ws_defs_ops ops im h d hd
    | .get _, il, im, h, d, hd => by simp [defsS] at hd
    | .wait, il, im, h, d, hd => by simp [defsS] at hd
    | .timeAt _, il, im, h, d, hd => by simp [defsS] at hd
    | .assign _ _, il, im, h, d, hd => by simp [defsS] at hd
    | .defMacro _ _, il, im, h, d, hd => by simp [defsS] at hd
    | .defRoutine n ps body, il, im, h, d, hd => by
      simp only [wsStmt, Bool.and_eq_true] at h
      simp only [defsS, List.mem_singleton] at hd
      subst hd
      exact h.2
    | .call _ _ _, il, im, h, d, hd => by simp [defsS] at hd
    | .ret _, il, im, h, d, hd => by simp [defsS] at hd
    | .ite c t none, il, im, h, d, hd => by
      simp only [wsStmt, Bool.and_eq_true] at h
      simp only [defsS] at hd
      exact ws_defs_block t _ _ h.1.2 d hd
    | .ite c t (some b), il, im, h, d, hd => by
      simp only [wsStmt, Bool.and_eq_true] at h
      simp only [defsS, List.mem_append] at hd
      rcases hd with hd | hd
      · exact ws_defs_block t _ _ h.1.2 d hd
      · exact ws_defs_block b _ _ h.2 d hd
    | .repeat_ hd0 body, il, im, h, d, hd => by
      simp only [wsStmt, Bool.and_eq_true] at h
      simp only [defsS] at hd
      exact ws_defs_block body _ _ h.2 d hd
    | .brk, il, im, h, d, hd => by simp [defsS] at hd
    | .print _, il, im, h, d, hd => by simp [defsS] at hd
    | .println _, il, im, h, d, hd => by simp [defsS] at hd
    | .printf _ _, il, im, h, d, hd => by simp [defsS] at hd
    | .stage _ _ _, il, im, h, d, hd => by simp [defsS] at hd
  theorem ws_defs_block {K : List String} : ∀ (b : Block) (il im : Bool),
      wsBlock K false il im b = true → ∀ d ∈ defsB b, wsBlock K true false false d.2 = true
    | .nil, il, im, h, d, hd => by simp [defsB] at hd
    | .cons s rest, il, im, h, d, hd => by
      simp only [wsBlock, Bool.and_eq_true] at h
      simp only [defsB, List.mem_append] at hd
      rcases hd with hd | hd
      · exact ws_defs_stmt s _ _ h.1 d hd
      · exact ws_defs_block rest _ _ h.2 d hd
  theorem ws_defs_op {K : List String} : ∀ (o : Operand_) (im : Bool),
      wsOperand K false im o = true → ∀ d ∈ defsOp o, wsBlock K true false false d.2 = true
    | .light _, im, h, d, hd => by simp [defsOp] at hd
    | .group _, im, h, d, hd => by simp [defsOp] at hd
    | .location _, im, h, d, hd => by simp [defsOp] at hd
    | .zone _ _, im, h, d, hd => by simp [defsOp] at hd
    | .matrixInline _ _ _ _, im, h, d, hd => by simp [defsOp] at hd
    | .matrixBlock n body, im, h, d, hd => by
      simp only [wsOperand, Bool.and_eq_true] at h
      simp only [defsOp] at hd
      exact ws_defs_block body _ _ h.2 d hd
  theorem ws_defs_ops {K : List String} : ∀ (ops : Operands) (im : Bool),
      wsOperands K false im ops = true → ∀ d ∈ defsOps ops, wsBlock K true false false d.2 = true
    | .nil, im, h, d, hd => by simp [defsOps] at hd
    | .cons o rest, im, h, d, hd => by
      simp only [wsOperands, Bool.and_eq_true] at h
      simp only [defsOps, List.mem_append] at hd
      rcases hd with hd | hd
      · exact ws_defs_op o _ h.1 d hd
      · exact ws_defs_ops rest _ h.2 d hd
end

/-- the body of a well-scoped routine compiles to closed code without `break` markers -/
theorem body_closed {K : List String} {body : Block} (h : wsBlock K true false false body = true) :
    genBlock body = ins ((genBlock body).map gi) ∧
      ClosedAt true false K (ins ((genBlock body).map gi)) (none, Abs.empty) := by
  have hc := closed_block body true false false h Abs.empty Entry.empty
  have e := eq_ins_of_noBrk (genBlock body) fun k hk => by
    have := (hc.brks k hk).1
    cases this
  exact ⟨e, e ▸ hc⟩

/-! ## the theorem -/

/-- **`gen_closed`, in full**: the loaded image of every well-scoped script is accepted by the
checker — routine definitions anywhere (top level, inside `if` / `repeat` / matrix-block bodies:
the loader relocates the jumps that span them), calls of user and built-in routines in every
rvalue position, `return` at any loop depth of a routine, `break` at any `if`-nesting of a loop,
every loop form, matrix operands. -/
theorem C06_closed_nested_definitions {b : Block} {prog : Program} (hws : WellScoped b)
    (hg : genProgram b = some prog) : wfImage (load prog) = true := by
  obtain ⟨hw, hnd⟩ := hws
  have hb := genBlock_eq_ins hg
  have hmain : ClosedAt false false (builtinNames ++ defNames b) (ins prog) (none, Abs.empty) := by
    rw [← hb]
    exact closed_block b false false false hw Abs.empty Entry.empty
  refine Load.wfImage_load (secs := (defsB b).map fun d => (d.1, (genBlock d.2).map gi)) hmain ?_ ?_
    ?_ ?_
  · simp [defNames, List.map_map, Function.comp_def]
  · rw [routineSegment_eq, ← hb, split_block b false false hw, List.flatMap_map]
    simp only [List.map_flatMap]
    congr 1
    funext d
    simp [rc, Load.render, List.map_append]
  · intro sec hsec
    obtain ⟨d, hd, rfl⟩ := List.mem_map.mp hsec
    exact (body_closed (ws_defs_block b false false hw d hd)).2
  · simpa [defNames, List.map_map, Function.comp_def] using hnd


theorem mapM_ins : ∀ (xs : List Instr), (ins xs).mapM (fun g => match g with
    | .i x => some x
    | .brk => none) = some xs
  | [] => rfl
  | x :: xs => by
    rw [ins_cons, List.mapM_cons, mapM_ins xs]
    rfl

/-- the code generator does not fail on a well-scoped script: no `break` is left unpatched -/
theorem C06_wellscoped_compiles {b : Block} (hws : WellScoped b) :
    ∃ prog, genProgram b = some prog := by
  have hc := closed_block b false false false hws.1 Abs.empty Entry.empty
  have e := eq_ins_of_noBrk (genBlock b) fun k hk => by
    have := (hc.brks k hk).1
    cases this
  obtain ⟨xs, hx⟩ : ∃ xs, genBlock b = ins xs := ⟨_, e⟩
  refine ⟨xs, ?_⟩
  unfold genProgram
  rw [hx]
  exact mapM_ins xs

/-! ## routine-free programs are loaded unchanged -/

theorem classify_noRoutine : ∀ (prog : List Instr), (∀ x ∈ prog, isRoutine x = none) →
    classify none prog = List.replicate prog.length false
  | [], _ => rfl
  | x :: xs, h => by
    have hx := h x (by simp)
    have e : cnext none x = none := by simp [cnext, hx]
    rw [Closed.classify_cons, e, classify_noRoutine xs fun y hy => h y (by simp [hy])]
    simp [cbit, hx, List.replicate_succ]

theorem mainPos_replicate (n k : Nat) : mainPos (List.replicate n false) k = min k n := by
  simp [mainPos, List.take_replicate, List.filter_replicate]

theorem reloc_id (prog : List Instr) (x : Instr) {j : Nat} (hj : j < prog.length) :
    Load.reloc prog (List.replicate prog.length false) x j = x := by
  cases x <;> try rfl
  rename_i c off
  simp only [Load.reloc]
  split
  · rename_i h
    simp only [Bool.and_eq_true, decide_eq_true_eq] at h
    rw [mainPos_replicate, mainPos_replicate]
    congr 1
    omega
  · rfl

theorem mainAux_id (f : Instr → Nat → Instr) : ∀ (xs : List Instr) (i : Nat),
    (∀ k x, xs[k]? = some x → f x (i + k) = x) →
    Load.mainAux f xs (List.replicate xs.length false) i = xs
  | [], i, _ => rfl
  | x :: xs, i, h => by
    have h0 := h 0 x (by simp)
    have ih := mainAux_id f xs (i + 1) fun k y hy => by
      have := h (k + 1) y (by simpa using hy)
      have e : i + 1 + k = i + (k + 1) := by omega
      rw [e]; exact this
    simp only [List.length_cons, List.replicate_succ, Load.mainAux, Bool.false_eq_true, if_false]
    rw [ih]
    simpa using h0

/-- `Loader.load` of a program without `ROUTINE` markers is the program itself -/
theorem load_no_routines {prog : List Instr} (h : ∀ x ∈ prog, isRoutine x = none) :
    load prog = ⟨prog.toArray, []⟩ := by
  have hc := classify_noRoutine prog h
  have hr : routineSegment prog (List.replicate prog.length false) = [] := by
    simp only [routineSegment, List.map_eq_nil_iff, List.filter_eq_nil_iff]
    intro p hp
    have := (List.of_mem_zip hp).2
    simp only [List.mem_replicate] at this
    simp [this.2]
  have hm : mainSegment prog (List.replicate prog.length false) = prog := by
    rw [Load.mainSegment_eq]
    apply mainAux_id
    intro k x hk
    have hk' : k < prog.length := by
      rcases List.getElem?_eq_some_iff.mp hk with ⟨hlt, _⟩
      exact hlt
    rw [Nat.zero_add]
    exact reloc_id prog x hk'
  simp only [load, hc, hr, hm, List.isEmpty_nil, if_true]

/-! ## the layers -/

mutual
  /-- straight-line statements: no routine definition, no `if`, no loop, at any depth -/
  def flatS : Stmt → Bool
    | .setReg _ _ => true
    | .units _ => true
    | .actAll _ => true
    | .setDefault _ => true
    | .action _ _ ops => flatOps ops
    | .get _ => true
    | .wait => true
    | .timeAt _ => true
    | .assign _ _ => true
    | .defMacro _ _ => true
    | .defRoutine _ _ _ => false
    | .call _ _ _ => true
    | .ret _ => true
    | .ite _ _ _ => false
    | .repeat_ _ _ => false
    | .brk => true
    | .print _ => true
    | .println _ => true
    | .printf _ _ => true
    | .stage _ _ _ => true
  def flatB : Block → Bool
    | .nil => true
    | .cons s rest => flatS s && flatB rest
  def flatOp : Operand_ → Bool
    | .light _ => true
    | .group _ => true
    | .location _ => true
    | .zone _ _ => true
    | .matrixInline _ _ _ _ => true
    | .matrixBlock _ body => flatB body
  def flatOps : Operands → Bool
    | .nil => true
    | .cons o rest => flatOp o && flatOps rest
end

mutual
  theorem flat_defsS : ∀ (s : Stmt), flatS s = true → defsS s = []
    | .setReg _ _, _ => by rw [defsS]
    | .units _, _ => by rw [defsS]
    | .actAll _, _ => by rw [defsS]
    | .setDefault _, _ => by rw [defsS]
    | .action _ _ ops, h => by
      simp only [flatS] at h
      rw [defsS]; exact flat_defsOps ops h
    | .get _, _ => by rw [defsS]
    | .wait, _ => by rw [defsS]
    | .timeAt _, _ => by rw [defsS]
    | .assign _ _, _ => by rw [defsS]
    | .defMacro _ _, _ => by rw [defsS]
    | .defRoutine _ _ _, h => by simp [flatS] at h
    | .call _ _ _, _ => by rw [defsS]
    | .ret _, _ => by rw [defsS]
    | .ite _ _ _, h => by simp [flatS] at h
    | .repeat_ _ _, h => by simp [flatS] at h
    | .brk, _ => by rw [defsS]
    | .print _, _ => by rw [defsS]
    | .println _, _ => by rw [defsS]
    | .printf _ _, _ => by rw [defsS]
    | .stage _ _ _, _ => by rw [defsS]
  theorem flat_defsB : ∀ (b : Block), flatB b = true → defsB b = []
    | .nil, _ => by rw [defsB]
    | .cons s rest, h => by
      simp only [flatB, Bool.and_eq_true] at h
      rw [defsB, flat_defsS s h.1, flat_defsB rest h.2]; rfl
  theorem flat_defsOp : ∀ (o : Operand_), flatOp o = true → defsOp o = []
    | .light _, _ => by rw [defsOp]
    | .group _, _ => by rw [defsOp]
    | .location _, _ => by rw [defsOp]
    | .zone _ _, _ => by rw [defsOp]
    | .matrixInline _ _ _ _, _ => by rw [defsOp]
    | .matrixBlock _ body, h => by
      simp only [flatOp] at h
      rw [defsOp]; exact flat_defsB body h
  theorem flat_defsOps : ∀ (ops : Operands), flatOps ops = true → defsOps ops = []
    | .nil, _ => by rw [defsOps]
    | .cons o rest, h => by
      simp only [flatOps, Bool.and_eq_true] at h
      rw [defsOps, flat_defsOp o h.1, flat_defsOps rest h.2]; rfl
end

/-- **layer 2**: scripts without routine definitions — `if` nested to any depth, every loop
form, `break` at any `if`-nesting inside a loop.  The loader leaves such a program as it is,
and the checker accepts it. -/
theorem C06_closed_structured {b : Block} {prog : Program} (hws : WellScoped b)
    (hnd : defsB b = []) (hg : genProgram b = some prog) :
    load prog = ⟨prog.toArray, []⟩ ∧ wfImage ⟨prog.toArray, []⟩ = true := by
  have hl : load prog = ⟨prog.toArray, []⟩ := by
    apply load_no_routines
    have hm : MarkerFree (genBlock b) := markerFree_block (mono_block b false false hws.1 hnd)
    rw [genBlock_eq_ins hg] at hm
    intro x hx
    have : G.i x ∈ ins prog := by
      simp only [ins, List.mem_map]
      exact ⟨x, hx, rfl⟩
    exact (hm _ this).1
  exact ⟨hl, hl ▸ C06_closed_nested_definitions hws hg⟩

/-- **layer 1**: straight-line scripts — register settings, actions (incl. zones and both matrix
forms), `get`, `wait`, assignments, `print`/`println`/`printf`, calls of built-in routines in any
rvalue position, time patterns, units, macros. -/
theorem C06_closed_straightline {b : Block} {prog : Program} (hf : flatB b = true)
    (hws : WellScoped b) (hg : genProgram b = some prog) :
    load prog = ⟨prog.toArray, []⟩ ∧ wfImage ⟨prog.toArray, []⟩ = true :=
  C06_closed_structured hws (flat_defsB b hf) hg

/-- all routine definitions are top-level statements -/
def topDefs : Block → Bool
  | .nil => true
  | .cons (.defRoutine _ _ _) rest => topDefs rest
  | .cons s rest => (defsS s).isEmpty && topDefs rest

/-- **layer 3**: routine definitions at top level, calls of user routines, `return` inside
routine bodies at any loop depth (a special case of `C06_closed_nested_definitions`). -/
theorem C06_closed_with_routines {b : Block} {prog : Program} (hws : WellScoped b)
    (_htop : topDefs b = true) (hg : genProgram b = some prog) : wfImage (load prog) = true :=
  C06_closed_nested_definitions hws hg

/-! ## `accepted_executable` -/

/-- **C06, `accepted_executable`** (for the VM model): the compiled and loaded image of every
well-scoped script, on every execution (any fuel, any set of lights), keeps the program counter
inside the program, never ends in a control fault (`pc negative`, `END_LOOP without loop frame`,
`return outside a routine`, `JSR without CTX`, `PARAM without CTX`, `ROUTINE executed`,
`indirect jump`, `unknown routine …`, `bad instruction …`), and when it halts it has run off the
end of the code with an empty frame stack. -/
theorem C06_accepted_executable {b : Block} {prog : Program} (hws : WellScoped b)
    (hg : genProgram b = some prog) (fuel : Nat) (lights : List Light) :
    let img := load prog
    let s := Vm.run img fuel (Vm.init lights)
    (0 ≤ s.pc ∧ s.pc ≤ img.code.size) ∧
    (s.status ≠ .fault "pc negative" ∧ s.status ≠ .fault "END_LOOP without loop frame" ∧
      s.status ≠ .fault "return outside a routine" ∧ s.status ≠ .fault "JSR without CTX" ∧
      s.status ≠ .fault "PARAM without CTX" ∧ s.status ≠ .fault "ROUTINE executed" ∧
      s.status ≠ .fault "indirect jump" ∧ (∀ n, s.status ≠ .fault ("unknown routine " ++ n)) ∧
      (∀ w, s.status ≠ .fault ("bad instruction " ++ w))) ∧
    (s.status = .halted → s.stack = [] ∧ s.pc = img.code.size) := by
  have hwf := C06_closed_nested_definitions hws hg
  exact ⟨C05.C05_pc_in_range hwf fuel lights, C05.C05_no_control_fault hwf fuel lights,
    C05.C05_halts_balanced hwf fuel lights⟩


/-! ## the hypotheses are satisfiable: concrete scripts -/

section Examples

private def B := Block.ofList
private def A := Args.ofList
private def num (i : Int) : Rv := .lit (.int i)
private def rcall (f : String) (ps : List String) (as : List Rv) : Rv := .call f ps (A as)

/-- ```
hue 3  units raw  on all  set default
set "a" and group g and "z" zone 1 2 and "m" row 1 and "m" begin stage row 1; hue [round [sqrt 4]] end
get "a"  wait  time at 8:00 or 9:*   assign x {1 + [round [sin 1]]}
print 1  println  println 2  printf "{}" 1 [cos 2]   define m 1
``` -/
def demoStraight : Block := B [
  .setReg .hue (num 3), .units .raw, .actAll .on, .setDefault true,
  .action .set true (Operands.ofList [.light (.str "a"), .group (.var "g"),
    .zone (.str "z") ⟨num 1, some (num 2)⟩,
    .matrixInline (.str "m") (some ⟨num 1, none⟩) none true,
    .matrixBlock (.str "m") (B [.stage (some ⟨num 1, none⟩) none false,
      .setReg .hue (rcall "round" ["x"] [.expr (.call "sqrt" ["x"] (A [num 4]))])])]),
  .get (.lit (.str "a")), .wait, .timeAt [⟨[([8], [0])]⟩, ⟨[([9], [0, 1, 2])]⟩],
  .assign "x" (.expr (.bin .add (.lit (.int 1)) (.call "round" ["x"] (A [rcall "sin" ["x"] [num 1]])))),
  .print (num 1), .println none, .println (some (num 2)),
  .printf "{}" (A [num 1, rcall "cos" ["x"] [num 2]]), .defMacro "m" (.int 1)]

example : flatB demoStraight = true ∧ WellScoped demoStraight := by decide

example : ∃ prog, genProgram demoStraight = some prog ∧ load prog = ⟨prog.toArray, []⟩ ∧
    wfImage ⟨prog.toArray, []⟩ = true :=
  let ⟨prog, h⟩ := C06_wellscoped_compiles (b := demoStraight) (by decide)
  ⟨prog, h, C06_closed_straightline (by decide) (by decide) h⟩

/-- every loop form, nested `if`s, `break` at several nestings, a loop inside a matrix block -/
def demoStructured : Block := B [
  .ite (num 1) (B [.ite (num 2) (B [.wait]) (some (B [.wait, .wait]))]) none,
  .ite (num 1) (B []) (some (B [.ite (num 1) (B []) none])),
  .repeat_ .forever (B [.ite (num 1) (B [.brk]) (some (B [.ite (num 2) (B [.brk]) none])), .brk]),
  .repeat_ (.while_ (rcall "round" ["x"] [num 1]))
    (B [.wait, .repeat_ (.count (num 3)) (B [.brk]), .brk]),
  .repeat_ (.range "i" (num 1) (num 5)) (B [.ite (num 1) (B [.brk]) none]),
  .repeat_ (.interp (num 4) "i" (num 1) (num 5)) (B [.brk]),
  .repeat_ (.cycle (num 4) "i" (some (num 1))) (B [.brk]),
  .repeat_ (.cycle (num 4) "i" none) (B []),
  .repeat_ (.all "l" none) (B [.brk]),
  .repeat_ (.all "l" (some (.fromTo "v" (num 1) (num 2)))) (B [.brk]),
  .repeat_ (.groups "l" (some (.cycle "v" none))) (B [.brk]),
  .repeat_ (.locations "l" (some (.cycle "v" (some (num 1))))) (B [.brk]),
  .repeat_ (.iter [.light (.lit (.str "a")), .group (.var "g"), .location (.lit (.str "x")), .all]
    "l" none) (B [.ite (num 1) (B [.brk]) none]),
  .action .set true (Operands.ofList [.matrixBlock (.str "m") (B [.repeat_ .forever (B [.brk])])])]

example : WellScoped demoStructured ∧ defsB demoStructured = [] := by decide

example : ∃ prog, genProgram demoStructured = some prog ∧ wfImage ⟨prog.toArray, []⟩ = true :=
  let ⟨prog, h⟩ := C06_wellscoped_compiles (b := demoStructured) (by decide)
  ⟨prog, h, (C06_closed_structured (by decide) (by decide) h).2⟩

/-- ```
define f with x begin
  repeat begin  if 1 break;  if 1 return 1  end
  return
end
repeat 2 begin  f(1)  end
``` -/
def demoRoutines : Block := B [
  .defRoutine "f" ["x"] (B [
    .repeat_ .forever (B [.ite (num 1) (B [.brk]) none, .ite (num 1) (B [.ret (some (num 1))]) none]),
    .ret none]),
  .repeat_ (.count (num 2)) (B [.call "f" ["x"] (A [num 1])])]

example : WellScoped demoRoutines ∧ topDefs demoRoutines = true := by decide

example : ∃ prog, genProgram demoRoutines = some prog ∧ wfImage (load prog) = true :=
  let ⟨prog, h⟩ := C06_wellscoped_compiles (b := demoRoutines) (by decide)
  ⟨prog, h, C06_closed_with_routines (by decide) (by decide) h⟩

/-- a routine with a loop, a conditional break and a return, defined inside an `if` body and
called from a loop; a second routine defined inside that loop (after a forward call of it as an
argument) and inside a matrix block:
```
if 1 begin
  wait
  define f with x begin  repeat begin  if 1 break;  if 1 return 1  end  end
  wait
end else wait
repeat 2 begin
  define g begin  f(1)  end
  f([g])
  set "m" begin  define h begin set "m" row 1 end  end
  break
end
``` -/
def demoNested : Block := B [
  .ite (num 1) (B [.wait,
    .defRoutine "f" ["x"] (B [.repeat_ .forever
      (B [.ite (num 1) (B [.brk]) none, .ite (num 1) (B [.ret (some (num 1))]) none])]),
    .wait]) (some (B [.wait])),
  .repeat_ (.count (num 2)) (B [
    .defRoutine "g" [] (B [.call "f" ["x"] (A [num 1])]),
    .call "f" ["x"] (A [rcall "g" [] []]),
    .action .set true (Operands.ofList [.matrixBlock (.str "m") (B [
      .defRoutine "h" [] (B [.action .set false (Operands.ofList
        [.matrixInline (.str "m") (some ⟨num 1, none⟩) none false])])])]),
    .brk])]

example : WellScoped demoNested := by decide

example : defNames demoNested = ["f", "g", "h"] := by decide

/-- by the theorem … -/
example : ∃ prog, genProgram demoNested = some prog ∧ wfImage (load prog) = true :=
  let ⟨prog, h⟩ := C06_wellscoped_compiles (b := demoNested) (by decide)
  ⟨prog, h, C06_closed_nested_definitions (by decide) h⟩

/-- the requested core case — a routine with a loop, a conditional break and a return, defined
inside an `if` body and called from a loop — with its compiled program written out:
```
if 1 begin
  define f with x begin  repeat begin  if 1 break;  if 1 return 1  end  end
end
repeat 2 begin  f(1)  end
``` -/
def demoCore : Block := B [
  .ite (num 1) (B [
    .defRoutine "f" ["x"] (B [.repeat_ .forever
      (B [.ite (num 1) (B [.brk]) none, .ite (num 1) (B [.ret (some (num 1))]) none])])]) none,
  .repeat_ (.count (num 2)) (B [.call "f" ["x"] (A [num 1])])]

def demoCoreProg : Program := [
  .moveq (.int 1) (.reg .result),           --  0
  .jump .ifFalse 15,                        --  1  over the routine definition, to 16
  .routine "f",                             --  2
  .loop,                                    --  3
  .moveq (.bool true) (.reg .result),       --  4
  .jump .ifFalse 9,                         --  5  loop exit, to the END_LOOP at 14
  .moveq (.int 1) (.reg .result),           --  6
  .jump .ifFalse 2,                         --  7
  .jump .always 6,                          --  8  break, to the END_LOOP at 14
  .moveq (.int 1) (.reg .result),           --  9
  .jump .ifFalse 3,                         -- 10
  .moveq (.int 1) (.reg .result),           -- 11
  .ret,                                     -- 12  RETURN from inside the loop
  .jump .always (-9),                       -- 13  back edge
  .endLoop,                                 -- 14
  .end_ "f",                                -- 15
  .loop,                                    -- 16
  .moveq (.int 2) (.loopVar .counter),      -- 17
  .push (.loopVar .counter), .pushq (.int 0), .op .gt, .pop (.reg .result),
  .jump .ifFalse 11,                        -- 22
  .ctx, .moveq (.int 1) (.reg .result), .param "x" (.reg .result), .jsr "f", .endCtx,
  .push (.loopVar .counter), .pushq (.int 1), .op .sub, .pop (.loopVar .counter),
  .jump .always (-14),                      -- 32
  .endLoop]                                 -- 33

example : WellScoped demoCore := by decide

set_option maxRecDepth 4000 in
example : genProgram demoCore = some demoCoreProg := by
  simp [demoCore, demoCoreProg, B, A, num, genProgram, genBlock, genStmt, genIf, genLoop,
    assembleLoop, patchBreaks, genRv, genExpr, genCall, genParams, ins, Block.ofList, Args.ofList,
    counterTest, testOp, loopPost, result, counter, List.zipIdx_cons, List.zipIdx_nil]

/-- the checker accepts the loaded image (evaluated, no theorem involved) … -/
example : wfImage (load demoCoreProg) = true := by decide +kernel

/-- … in which the jump over the definition has been shortened from 15 to 1 by the loader -/
example : (match (load demoCoreProg).code[16]? with
      | some (.jump .ifFalse 1) => true
      | _ => false) = true ∧
    (load demoCoreProg).routines = [("f", 2)] := by decide +kernel

/-! what `WellScoped` excludes is really rejected by the checker: -/

/-- a `break` in a routine body that belongs to a loop around the definition: the generator
patches it into a jump out of the routine body -/
def badBreakInRoutine : Block :=
  B [.repeat_ .forever (B [.defRoutine "f" [] (B [.brk])])]

example : ¬ WellScoped badBreakInRoutine := by decide
example : (genProgram badBreakInRoutine).map (fun p => wfImage (load p)) = some false := by
  decide +kernel

/-- a `break` out of a matrix block: jumps out of the `MATRIX … END matrix` bracket -/
def badBreakInMatrix : Block :=
  B [.repeat_ .forever (B [.action .set true (Operands.ofList [.matrixBlock (.str "m") (B [.brk])])])]

example : ¬ WellScoped badBreakInMatrix := by decide
example : (genProgram badBreakInMatrix).map (fun p => wfImage (load p)) = some false := by
  decide +kernel

/-- `return` outside a routine; a routine defined twice; a call of an unknown routine; a matrix
operand inside a matrix block -/
example : ¬ WellScoped (B [.ret none]) ∧
    ¬ WellScoped (B [.defRoutine "f" [] (B []), .defRoutine "f" [] (B [.wait])]) ∧
    ¬ WellScoped (B [.call "nope" [] (A [])]) ∧
    ¬ WellScoped (B [.action .set true (Operands.ofList [.matrixBlock (.str "m")
      (B [.action .set false (Operands.ofList [.matrixInline (.str "m") none none false])])])]) := by
  decide

/-- `break` outside any loop: no program at all -/
example : genProgram (B [.brk]) = none := by decide +kernel

end Examples

end C06
end Bardolph
