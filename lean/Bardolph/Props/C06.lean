import Bardolph.Model.Wf
/-! # C06 — the compiler always ends in accept or a line-numbered rejection (theorems: agent branch) -/
namespace Bardolph
end Bardolph
