import Bardolph.Model.LightSet
import Bardolph.Generated.LightSet
namespace Bardolph.LS
theorem C13_stub : True := trivial
end Bardolph.LS
