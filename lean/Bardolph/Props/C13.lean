import Bardolph.Model.LightSet
import Bardolph.Generated.LightSet
/-!
# C13 — the light directory stays self-consistent over any discovery/expiry history

Theorems about `Bardolph.LS`, the model of `sorted_list.py` and `light_set.py`.

* `Sorted` = strictly increasing = sorted and duplicate-free.
* Part 1: the hand-written binary searches return, on a sorted list, the number of elements
  `< x` (`bisectLeft`) resp. `≤ x` (`bisectRight`); from this every `SortedList` operation gets
  a closed form (`next_eq`, `prev_eq`, `remove_eq_filter`, `mem_add`, …).
* Part 2: `C13_next_strict`, `C13_prev_strict`, the iteration theorems.
* Part 3: the directory invariant `Inv`, preserved by every operation, hence
  `C13_inv_reachable` for histories of any length over any names; `C13_expire_exact`;
  `C13_last_reported`; `invB_iff`.
-/
namespace Bardolph.LS

/-! ## Strings are linearly ordered (the three facts everything below uses) -/

theorem slt_irrefl (a : String) : ¬ a < a := String.lt_irrefl a
theorem slt_trans {a b c : String} : a < b → b < c → a < c := String.lt_trans
theorem slt_asymm {a b : String} : a < b → ¬ b < a := String.lt_asymm
theorem slt_tri {a b : String} (h1 : ¬ a < b) (h2 : ¬ b < a) : a = b :=
  String.le_antisymm (String.not_lt.mp h2) (String.not_lt.mp h1)
theorem slt_ne {a b : String} (h : a < b) : a ≠ b := fun e => slt_irrefl b (e ▸ h)

/-- strictly increasing: sorted and free of duplicates -/
def Sorted (l : List String) : Prop := l.Pairwise (· < ·)

instance (l : List String) : Decidable (Sorted l) := by unfold Sorted; infer_instance

theorem Sorted.nil : Sorted [] := List.Pairwise.nil

theorem sorted_cons {a : String} {l : List String} :
    Sorted (a :: l) ↔ (∀ b ∈ l, a < b) ∧ Sorted l := List.pairwise_cons

theorem Sorted.tail {a : String} {l : List String} (h : Sorted (a :: l)) : Sorted l :=
  (sorted_cons.mp h).2

theorem Sorted.sublist {l l' : List String} (h : Sorted l) (hs : l'.Sublist l) : Sorted l' :=
  List.Pairwise.sublist hs h

theorem Sorted.filter {l : List String} (h : Sorted l) (p : String → Bool) : Sorted (l.filter p) :=
  h.sublist List.filter_sublist

theorem Sorted.nodup {l : List String} (h : Sorted l) : l.Nodup :=
  List.Pairwise.imp (fun hab => slt_ne hab) h

theorem sorted_append {l₁ l₂ : List String} :
    Sorted (l₁ ++ l₂) ↔ Sorted l₁ ∧ Sorted l₂ ∧ ∀ a ∈ l₁, ∀ b ∈ l₂, a < b :=
  List.pairwise_append

/-- two strictly sorted lists with the same elements are the same list -/
theorem sorted_ext : ∀ {l₁ l₂ : List String}, Sorted l₁ → Sorted l₂ →
    (∀ x, x ∈ l₁ ↔ x ∈ l₂) → l₁ = l₂
  | [], [], _, _, _ => rfl
  | [], b :: _, _, _, h => absurd ((h b).mpr (List.mem_cons_self ..)) (List.not_mem_nil)
  | a :: _, [], _, _, h => absurd ((h a).mp (List.mem_cons_self ..)) (List.not_mem_nil)
  | a :: t₁, b :: t₂, h₁, h₂, h => by
    have ⟨ha, hs₁⟩ := sorted_cons.mp h₁
    have ⟨hb, hs₂⟩ := sorted_cons.mp h₂
    have hab : a = b := by
      have h1 : a ∈ b :: t₂ := (h a).mp (List.mem_cons_self ..)
      have h2 : b ∈ a :: t₁ := (h b).mpr (List.mem_cons_self ..)
      rcases List.mem_cons.mp h1 with e | h1
      · exact e
      · rcases List.mem_cons.mp h2 with e | h2
        · exact e.symm
        · exact absurd (ha b h2) (slt_asymm (hb a h1))
    subst hab
    congr 1
    apply sorted_ext hs₁ hs₂
    intro x
    constructor
    · intro hx
      rcases List.mem_cons.mp ((h x).mp (List.mem_cons_of_mem _ hx)) with e | hx'
      · exact absurd (e ▸ ha x hx) (slt_irrefl _)
      · exact hx'
    · intro hx
      rcases List.mem_cons.mp ((h x).mpr (List.mem_cons_of_mem _ hx)) with e | hx'
      · exact absurd (e ▸ hb x hx) (slt_irrefl _)
      · exact hx'

/-! ## Part 1 — the binary search -/

/-- `p` holds on a prefix of `l` and fails after it -/
def Mono (p : String → Bool) (l : List String) : Prop :=
  ∀ (i j : Nat) (a b : String), i ≤ j → l[i]? = some a → l[j]? = some b → p b = true → p a = true

theorem bisectGo_spec (p : String → Bool) (l : List String) (hm : Mono p l) :
    ∀ fuel lo hi, lo ≤ hi → hi ≤ l.length → hi - lo ≤ fuel →
      (∀ i a, i < lo → l[i]? = some a → p a = true) →
      (∀ i a, hi ≤ i → l[i]? = some a → p a = false) →
      bisectGo p l fuel lo hi ≤ l.length ∧
      (∀ i a, i < bisectGo p l fuel lo hi → l[i]? = some a → p a = true) ∧
      (∀ i a, bisectGo p l fuel lo hi ≤ i → l[i]? = some a → p a = false) := by
  intro fuel
  induction fuel with
  | zero =>
    intro lo hi h1 h2 h3 hlo hhi
    have : lo = hi := by omega
    subst this
    exact ⟨h2, hlo, hhi⟩
  | succ f ih =>
    intro lo hi h1 h2 h3 hlo hhi
    unfold bisectGo
    by_cases hlt : lo < hi
    · simp only [hlt, if_true]
      have hmid : (lo + hi) / 2 < l.length := by omega
      have hget : l[(lo + hi) / 2]? = some (l.getD ((lo + hi) / 2) "") := by
        simp [List.getD_eq_getElem?_getD, List.getElem?_eq_getElem hmid]
      by_cases hp : p (l.getD ((lo + hi) / 2) "") = true
      · simp only [hp, if_true]
        apply ih _ _ (by omega) h2 (by omega) _ hhi
        intro i a hi' ha
        exact hm i ((lo + hi) / 2) a _ (by omega) ha hget hp
      · simp only [hp]
        apply ih _ _ (by omega) (by omega) (by omega) hlo
        intro i a hi' ha
        cases hpa : p a with
        | false => rfl
        | true => exact absurd (hm ((lo + hi) / 2) i _ a hi' hget ha hpa) hp
    · simp only [hlt, if_false]
      have : lo = hi := by omega
      subst this
      exact ⟨h2, hlo, hhi⟩

/-- a cut point with `p` before and `¬p` from it on is the length of the `p`-prefix -/
theorem cut_unique (p : String → Bool) : ∀ (l : List String) (r : Nat), r ≤ l.length →
    (∀ i a, i < r → l[i]? = some a → p a = true) →
    (∀ i a, r ≤ i → l[i]? = some a → p a = false) →
    r = (l.takeWhile p).length
  | [], r, h, _, _ => by simpa using h
  | a :: t, 0, _, _, h2 => by
    have : p a = false := h2 0 a (Nat.le_refl _) rfl
    simp [this]
  | a :: t, r + 1, h, h1, h2 => by
    have hpa : p a = true := h1 0 a (Nat.succ_pos _) rfl
    have := cut_unique p t r (by simpa using h)
      (fun i b hi hb => h1 (i + 1) b (by omega) (by simpa using hb))
      (fun i b hi hb => h2 (i + 1) b (by omega) (by simpa using hb))
    simp [hpa, this]

theorem bisectGo_eq (p : String → Bool) (l : List String) (hm : Mono p l) :
    bisectGo p l l.length 0 l.length = (l.takeWhile p).length := by
  have h := bisectGo_spec p l hm l.length 0 l.length (Nat.zero_le _) (Nat.le_refl _)
    (by omega) (fun i a hi => absurd hi (Nat.not_lt_zero _))
    (fun i a hi ha => by
      have : l[i]? = none := List.getElem?_eq_none hi
      rw [this] at ha; cases ha)
  exact cut_unique p l _ h.1 h.2.1 h.2.2

theorem sorted_get_lt {l : List String} (hs : Sorted l) {i j : Nat} {a b : String}
    (hij : i < j) (ha : l[i]? = some a) (hb : l[j]? = some b) : a < b := by
  have hj : j < l.length := by
    rcases Nat.lt_or_ge j l.length with h | h
    · exact h
    · rw [List.getElem?_eq_none h] at hb; cases hb
  have hi : i < l.length := by omega
  rw [List.getElem?_eq_getElem hi] at ha
  rw [List.getElem?_eq_getElem hj] at hb
  cases ha; cases hb
  exact (List.pairwise_iff_getElem.mp hs) i j hi hj hij

theorem mono_lt {l : List String} (hs : Sorted l) (x : String) :
    Mono (fun a => decide (a < x)) l := by
  intro i j a b hij ha hb hp
  rcases Nat.lt_or_ge i j with h | h
  · have := sorted_get_lt hs h ha hb
    simp at hp ⊢
    exact slt_trans this hp
  · have : i = j := by omega
    subst this
    rw [ha] at hb; cases hb; exact hp

theorem mono_le {l : List String} (hs : Sorted l) (x : String) :
    Mono (fun a => !decide (x < a)) l := by
  intro i j a b hij ha hb hp
  rcases Nat.lt_or_ge i j with h | h
  · have := sorted_get_lt hs h ha hb
    simp at hp ⊢
    exact fun hxa => hp (slt_trans hxa this)
  · have : i = j := by omega
    subst this
    rw [ha] at hb; cases hb; exact hp

/-- `bisect_left` on a sorted list: the number of elements smaller than `x` -/
theorem bisectLeft_eq {l : List String} (hs : Sorted l) (x : String) :
    bisectLeft l x = (l.takeWhile (fun a => decide (a < x))).length :=
  bisectGo_eq _ l (mono_lt hs x)

/-- `bisect_right` on a sorted list: the number of elements not greater than `x` -/
theorem bisectRight_eq {l : List String} (hs : Sorted l) (x : String) :
    bisectRight l x = (l.takeWhile (fun a => !decide (x < a))).length :=
  bisectGo_eq _ l (mono_le hs x)

/-! ### splitting a sorted list at a probe -/

theorem dropWhile_all_false (p : String → Bool)
    (hp : ∀ a b, a < b → p b = true → p a = true) :
    ∀ {l : List String}, Sorted l → ∀ b ∈ l.dropWhile p, p b = false
  | [], _, b, hb => by simp at hb
  | a :: t, hs, b, hb => by
    have ⟨ha, ht⟩ := sorted_cons.mp hs
    cases hpa : p a with
    | true =>
      rw [List.dropWhile_cons, if_pos hpa] at hb
      exact dropWhile_all_false p hp ht b hb
    | false =>
      rw [List.dropWhile_cons, if_neg (by simp [hpa])] at hb
      rcases List.mem_cons.mp hb with e | hb
      · exact e ▸ hpa
      · cases hpb : p b with
        | false => rfl
        | true => rw [hp a b (ha b hb) hpb] at hpa; cases hpa

theorem takeWhile_all_true (p : String → Bool) :
    ∀ {l : List String}, ∀ a ∈ l.takeWhile p, p a = true
  | [], a, ha => by simp at ha
  | b :: t, a, ha => by
    cases hpb : p b with
    | true =>
      rw [List.takeWhile_cons, if_pos hpb] at ha
      rcases List.mem_cons.mp ha with e | ha
      · exact e ▸ hpb
      · exact takeWhile_all_true p a ha
    | false =>
      rw [List.takeWhile_cons, if_neg (by simp [hpb])] at ha
      simp at ha

/-- `l = A ++ B`, everything in `A` is smaller than `x`, nothing in `B` is, and
`bisect_left` returns the boundary -/
theorem split_left {l : List String} (hs : Sorted l) (x : String) :
    ∃ A B, l = A ++ B ∧ (∀ a ∈ A, a < x) ∧ (∀ b ∈ B, ¬ b < x) ∧ bisectLeft l x = A.length := by
  refine ⟨l.takeWhile (fun a => decide (a < x)), l.dropWhile (fun a => decide (a < x)),
    List.takeWhile_append_dropWhile.symm, ?_, ?_, bisectLeft_eq hs x⟩
  · intro a ha
    simpa using takeWhile_all_true _ a ha
  · intro b hb
    have := dropWhile_all_false (fun a => decide (a < x))
      (fun a b hab hb => by simp at hb ⊢; exact slt_trans hab hb) hs b hb
    simpa using this

/-- `l = A ++ B`, nothing in `A` is greater than `x`, everything in `B` is, and
`bisect_right` returns the boundary -/
theorem split_right {l : List String} (hs : Sorted l) (x : String) :
    ∃ A B, l = A ++ B ∧ (∀ a ∈ A, ¬ x < a) ∧ (∀ b ∈ B, x < b) ∧ bisectRight l x = A.length := by
  refine ⟨l.takeWhile (fun a => !decide (x < a)), l.dropWhile (fun a => !decide (x < a)),
    List.takeWhile_append_dropWhile.symm, ?_, ?_, bisectRight_eq hs x⟩
  · intro a ha
    simpa using takeWhile_all_true _ a ha
  · intro b hb
    have := dropWhile_all_false (fun a => !decide (x < a))
      (fun a b hab hb => by simp at hb ⊢; exact fun h => hb (slt_trans h hab)) hs b hb
    simpa using this

theorem getElem?_append_length (A B : List String) : (A ++ B)[A.length]? = B.head? := by
  rw [List.getElem?_append_right (Nat.le_refl _)]
  simp [List.head?_eq_getElem?]

theorem getElem?_append_pred (A B : List String) (h : A.length ≠ 0) :
    (A ++ B)[A.length - 1]? = A.getLast? := by
  rw [List.getElem?_append_left (by omega)]
  simp [List.getLast?_eq_getElem?]

/-! ### closed forms of the operations on a sorted list -/

theorem indexOf_spec {l : List String} (hs : Sorted l) (x : String) :
    (∃ A B, l = A ++ x :: B ∧ (∀ a ∈ A, a < x) ∧ (∀ b ∈ B, x < b) ∧ indexOf l x = some A.length) ∨
    (x ∉ l ∧ indexOf l x = none) := by
  obtain ⟨A, B, rfl, hA, hB, hp⟩ := split_left hs x
  have ⟨_, hsB, _⟩ := sorted_append.mp hs
  unfold indexOf
  simp only [hp, getElem?_append_length]
  cases B with
  | nil =>
    right
    refine ⟨?_, by simp⟩
    intro hx
    simp at hx
    exact slt_irrefl x (hA x hx)
  | cons b B' =>
    by_cases hbx : b = x
    · subst hbx
      left
      exact ⟨A, B', rfl, hA, (sorted_cons.mp hsB).1, by simp⟩
    · right
      refine ⟨?_, by simp [hbx]⟩
      intro hx
      rcases List.mem_append.mp hx with hx | hx
      · exact slt_irrefl x (hA x hx)
      · rcases List.mem_cons.mp hx with e | hx
        · exact hbx e.symm
        · exact hB b (List.mem_cons_self ..) ((sorted_cons.mp hsB).1 x hx)

theorem has_iff {l : List String} (hs : Sorted l) (x : String) : has l x = true ↔ x ∈ l := by
  unfold has
  rcases indexOf_spec hs x with ⟨A, B, rfl, _, _, h⟩ | ⟨hx, h⟩
  · simp [h]
  · simp [h, hx]

theorem eraseIdx_append_length (A : List String) (x : String) (B : List String) :
    (A ++ x :: B).eraseIdx A.length = A ++ B := by
  induction A with
  | nil => rfl
  | cons a A ih => simp [List.eraseIdx_cons_succ, ih]

/-- on a sorted list `remove` deletes exactly the value -/
theorem remove_eq_filter {l : List String} (hs : Sorted l) (x : String) :
    remove l x = l.filter (fun a => !decide (a = x)) := by
  unfold remove
  rcases indexOf_spec hs x with ⟨A, B, rfl, hA, hB, h⟩ | ⟨hx, h⟩
  · rw [h]
    simp only [eraseIdx_append_length, List.filter_append, List.filter_cons]
    have h1 : A.filter (fun a => !decide (a = x)) = A :=
      List.filter_eq_self.mpr (fun a ha => by simpa using slt_ne (hA a ha))
    have h2 : B.filter (fun a => !decide (a = x)) = B :=
      List.filter_eq_self.mpr (fun a ha => by simpa using (slt_ne (hB a ha)).symm)
    simp [h1, h2]
  · rw [h]
    exact (List.filter_eq_self.mpr (fun a ha => by
      simp; intro e; exact hx (e ▸ ha))).symm

theorem mem_remove {l : List String} (hs : Sorted l) (x m : String) :
    m ∈ remove l x ↔ m ∈ l ∧ m ≠ x := by
  rw [remove_eq_filter hs]; simp

theorem sorted_remove {l : List String} (hs : Sorted l) (x : String) : Sorted (remove l x) := by
  rw [remove_eq_filter hs]; exact hs.filter _

theorem add_spec {l : List String} (hs : Sorted l) (x : String) :
    Sorted (add l x) ∧ ∀ m, m ∈ add l x ↔ m ∈ l ∨ m = x := by
  unfold add
  rcases indexOf_spec hs x with ⟨A, B, rfl, _, _, h⟩ | ⟨hx, h⟩
  · rw [h]
    refine ⟨hs, fun m => ?_⟩
    constructor
    · exact Or.inl
    · rintro (h | h)
      · exact h
      · subst h; simp
  · rw [h]
    obtain ⟨A, B, rfl, hA, hB, hp⟩ := split_right hs x
    have ⟨hsA, hsB, hAB⟩ := sorted_append.mp hs
    simp only [hp, List.take_left', List.drop_left']
    have hA' : ∀ a ∈ A, a < x := fun a ha => by
      rcases Classical.em (a < x) with h | h
      · exact h
      · exact absurd (slt_tri h (hA a ha) ▸ List.mem_append_left B ha) hx
    refine ⟨?_, fun m => by simp only [List.mem_append, List.mem_cons]; grind⟩
    apply sorted_append.mpr
    refine ⟨hsA, sorted_cons.mpr ⟨hB, hsB⟩, ?_⟩
    intro a ha b hb
    rcases List.mem_cons.mp hb with e | hb
    · exact e ▸ hA' a ha
    · exact hAB a ha b hb

theorem mem_add {l : List String} (hs : Sorted l) (x m : String) :
    m ∈ add l x ↔ m ∈ l ∨ m = x := (add_spec hs x).2 m

theorem sorted_add {l : List String} (hs : Sorted l) (x : String) : Sorted (add l x) :=
  (add_spec hs x).1

/-- `next` on a sorted list: the first element greater than the probe -/
theorem next_eq {l : List String} (hs : Sorted l) (x : String) :
    next l x = (l.filter (fun a => decide (x < a))).head? := by
  unfold next
  obtain ⟨A, B, rfl, hA, hB, hp⟩ := split_right hs x
  have h1 : A.filter (fun a => decide (x < a)) = [] :=
    List.filter_eq_nil_iff.mpr (fun a ha => by simpa using hA a ha)
  have h2 : B.filter (fun a => decide (x < a)) = B :=
    List.filter_eq_self.mpr (fun a ha => by simpa using hB a ha)
  rw [hp, getElem?_append_length, List.filter_append, h1, h2, List.nil_append]
  cases A <;> cases B <;> simp

/-- `prev` on a sorted list: the last element smaller than the probe -/
theorem prev_eq {l : List String} (hs : Sorted l) (x : String) :
    prev l x = (l.filter (fun a => decide (a < x))).getLast? := by
  unfold prev
  obtain ⟨A, B, rfl, hA, hB, hp⟩ := split_left hs x
  have h1 : A.filter (fun a => decide (a < x)) = A :=
    List.filter_eq_self.mpr (fun a ha => by simpa using hA a ha)
  have h2 : B.filter (fun a => decide (a < x)) = [] :=
    List.filter_eq_nil_iff.mpr (fun a ha => by simpa using hB a ha)
  simp only [hp, List.filter_append, h1, h2, List.append_nil]
  by_cases hA0 : A.length = 0
  · have : A = [] := List.length_eq_zero_iff.mp hA0
    subst this
    simp
  · rw [getElem?_append_pred A B hA0]
    cases A with
    | nil => simp at hA0
    | cons a A' => simp

/-! ## Part 2 — stepping and iteration -/

/-- **Stepping forward** from ANY probe, present in the list or not: the result is the
nearest element strictly greater than the probe; `none` exactly when there is none. -/
theorem C13_next_strict {l : List String} (hs : Sorted l) (x : String) :
    match next l x with
    | some y => y ∈ l ∧ x < y ∧ ∀ z ∈ l, x < z → ¬ z < y
    | none => ∀ z ∈ l, ¬ x < z := by
  rw [next_eq hs]
  have hsF := hs.filter (fun a => decide (x < a))
  cases hF : l.filter (fun a => decide (x < a)) with
  | nil =>
    simp only [List.head?_nil]
    intro z hz hxz
    have := List.filter_eq_nil_iff.mp hF z hz
    simp [hxz] at this
  | cons y F =>
    simp only [List.head?_cons]
    have hy : y ∈ l.filter (fun a => decide (x < a)) := hF ▸ List.mem_cons_self ..
    have hy' := List.mem_filter.mp hy
    refine ⟨hy'.1, by simpa using hy'.2, ?_⟩
    intro z hz hxz hzy
    have hzF : z ∈ y :: F := hF ▸ List.mem_filter.mpr ⟨hz, by simpa using hxz⟩
    rw [hF] at hsF
    rcases List.mem_cons.mp hzF with e | hzF
    · exact slt_irrefl y (e ▸ hzy)
    · exact slt_asymm ((sorted_cons.mp hsF).1 z hzF) hzy

/-- **Stepping backward** from ANY probe: the nearest element strictly smaller; `none`
exactly when there is none. -/
theorem C13_prev_strict {l : List String} (hs : Sorted l) (x : String) :
    match prev l x with
    | some y => y ∈ l ∧ y < x ∧ ∀ z ∈ l, z < x → ¬ y < z
    | none => ∀ z ∈ l, ¬ z < x := by
  rw [prev_eq hs]
  have hsF := hs.filter (fun a => decide (a < x))
  cases hg : (l.filter (fun a => decide (a < x))).getLast? with
  | none =>
    have hF := List.getLast?_eq_none_iff.mp hg
    intro z hz hzx
    have := List.filter_eq_nil_iff.mp hF z hz
    simp [hzx] at this
  | some y =>
    obtain ⟨F, hF⟩ := List.getLast?_eq_some_iff.mp hg
    have hy : y ∈ l.filter (fun a => decide (a < x)) := by rw [hF]; simp
    have hy' := List.mem_filter.mp hy
    refine ⟨hy'.1, by simpa using hy'.2, ?_⟩
    intro z hz hzx hyz
    have hzF : z ∈ F ++ [y] := hF ▸ List.mem_filter.mpr ⟨hz, by simpa using hzx⟩
    rw [hF] at hsF
    rcases List.mem_append.mp hzF with hzF | hzF
    · exact slt_asymm ((sorted_append.mp hsF).2.2 z hzF y (by simp)) hyz
    · have : z = y := by simpa using hzF
      exact slt_irrefl y (this ▸ hyz)

/-- `first`/`last` of a sorted list are its least / greatest element -/
theorem C13_first_least {l : List String} (hs : Sorted l) :
    match first l with
    | some y => y ∈ l ∧ ∀ z ∈ l, ¬ z < y
    | none => l = [] := by
  unfold first
  cases l with
  | nil => simp
  | cons a t =>
    simp only [List.head?_cons]
    refine ⟨List.mem_cons_self .., fun z hz hza => ?_⟩
    rcases List.mem_cons.mp hz with e | hz
    · exact slt_irrefl a (e ▸ hza)
    · exact slt_asymm ((sorted_cons.mp hs).1 z hz) hza

theorem last_spec {l : List String} (hs : Sorted l) :
    (l = [] ∧ last l = none) ∨ ∃ l' c, l = l' ++ [c] ∧ last l = some c ∧ ∀ a ∈ l', a < c := by
  unfold last
  cases hg : l.getLast? with
  | none => exact Or.inl ⟨List.getLast?_eq_none_iff.mp hg, rfl⟩
  | some c =>
    obtain ⟨l', hl⟩ := List.getLast?_eq_some_iff.mp hg
    subst hl
    exact Or.inr ⟨l', c, rfl, rfl, fun a ha => (sorted_append.mp hs).2.2 a ha c (by simp)⟩

theorem C13_last_greatest {l : List String} (hs : Sorted l) :
    match last l with
    | some y => y ∈ l ∧ ∀ z ∈ l, ¬ y < z
    | none => l = [] := by
  rcases last_spec hs with ⟨h1, h2⟩ | ⟨l', c, h1, h2, h3⟩
  · rw [h2]; exact h1
  · rw [h2]; subst h1
    refine ⟨by simp, fun z hz hcz => ?_⟩
    rcases List.mem_append.mp hz with hz | hz
    · exact slt_asymm (h3 z hz) hcz
    · have : z = c := by simpa using hz
      exact slt_irrefl c (this ▸ hcz)

/-! ### removal of several values -/

theorem foldl_remove_eq_filter : ∀ (rs : List String) {l : List String}, Sorted l →
    rs.foldl remove l = l.filter (fun a => !rs.contains a)
  | [], l, _ => by
    simp only [List.foldl_nil, List.contains_nil, Bool.not_false]
    exact (List.filter_eq_self.mpr (fun _ _ => rfl)).symm
  | r :: rs, l, hs => by
    rw [List.foldl_cons, foldl_remove_eq_filter rs (sorted_remove hs r), remove_eq_filter hs,
      List.filter_filter]
    congr 1
    funext a
    simp [Bool.and_comm]

theorem mem_foldl_remove (rs : List String) {l : List String} (hs : Sorted l) (m : String) :
    m ∈ rs.foldl remove l ↔ m ∈ l ∧ m ∉ rs := by
  rw [foldl_remove_eq_filter rs hs]; simp

theorem sorted_foldl_remove {l : List String} (hs : Sorted l) (rs : List String) :
    Sorted (rs.foldl remove l) := by
  rw [foldl_remove_eq_filter rs hs]; exact hs.filter _

theorem filter_length_lt (p q : String → Bool) (hpq : ∀ a, p a = true → q a = true) :
    ∀ (l : List String) (b : String), b ∈ l → q b = true → p b = false →
      (l.filter p).length < (l.filter q).length
  | a :: t, b, hb, hqb, hpb => by
    have hle : (t.filter p).length ≤ (t.filter q).length := by
      clear hb
      induction t with
      | nil => simp
      | cons c t ih =>
        simp only [List.filter_cons]
        cases hpc : p c with
        | true => simp [hpq c hpc]; exact ih
        | false =>
          cases hqc : q c with
          | true => simp; omega
          | false => simpa using ih
    rcases List.mem_cons.mp hb with e | hb
    · subst e
      simp [hqb, hpb]; omega
    · have ih := filter_length_lt p q hpq t b hb hqb hpb
      simp only [List.filter_cons]
      cases hpa : p a with
      | true => simp [hpq a hpa]; exact ih
      | false =>
        cases hqa : q a with
        | true => simp; omega
        | false => simpa using ih

/-! ### backward iteration -/

theorem walkPrev_step (rem : Nat → List String) (f i : Nat) (l : List String) (c : String) :
    walkPrev rem (f + 1) i l (some c) =
      c :: walkPrev rem f (i + 1) ((rem i).foldl remove l) (prev ((rem i).foldl remove l) c) := rfl

theorem walkPrev_none (rem : Nat → List String) (f i : Nat) (l : List String) :
    walkPrev rem f i l none = [] := by
  cases f <;> rfl

theorem walkPrev_spec (rem : Nat → List String) :
    ∀ (n fuel i : Nat) (l : List String) (c : String), Sorted l →
      (l.filter (fun a => decide (a < c))).length < n → n ≤ fuel →
      walkPrev rem fuel i l (some c) = walkPrev rem n i l (some c) ∧
      ∃ v, walkPrev rem n i l (some c) = c :: v ∧
        (c :: v).Pairwise (fun a b => b < a) ∧
        (∀ y ∈ v, y ∈ l) ∧
        (∀ y ∈ l, y < c → (∀ k, i ≤ k → y ∉ rem k) → y ∈ v) ∧
        (∀ (j : Nat) (y : String), v[j]? = some y → ∀ k, i ≤ k → k ≤ i + j → y ∉ rem k) := by
  intro n
  induction n with
  | zero => intro fuel i l c _ h; exact absurd h (Nat.not_lt_zero _)
  | succ n ih =>
    intro fuel i l c hs hlen hfuel
    obtain ⟨f, rfl⟩ : ∃ f, fuel = f + 1 := ⟨fuel - 1, by omega⟩
    rw [walkPrev_step, walkPrev_step]
    have hs' := sorted_foldl_remove hs (rem i)
    have hmem := mem_foldl_remove (rem i) hs
    generalize hl' : (rem i).foldl remove l = l' at hs' hmem
    have hstep := C13_prev_strict hs' c
    cases hp : prev l' c with
    | none =>
      rw [hp] at hstep
      rw [walkPrev_none, walkPrev_none]
      refine ⟨rfl, [], rfl, by simp, by simp, ?_, by simp⟩
      intro y hy hyc hrem
      exact absurd hyc (hstep y ((hmem y).mpr ⟨hy, hrem i (Nat.le_refl _)⟩))
    | some c' =>
      rw [hp] at hstep
      obtain ⟨hc'l, hc'c, hgreatest⟩ := hstep
      have hc'l0 := (hmem c').mp hc'l
      have hmeasure : (l'.filter (fun a => decide (a < c'))).length < n := by
        have h1 : (l'.filter (fun a => decide (a < c'))).length ≤
            (l.filter (fun a => decide (a < c'))).length := by
          rw [← hl', foldl_remove_eq_filter _ hs]
          exact (List.Sublist.filter _ List.filter_sublist).length_le
        have h2 := filter_length_lt (fun a => decide (a < c')) (fun a => decide (a < c))
          (fun a ha => by simp at ha ⊢; exact slt_trans ha hc'c) l c' hc'l0.1
          (by simpa using hc'c) (by simp [slt_irrefl c'])
        omega
      obtain ⟨e1, v, e2, hpw, hsub, hcompl, hrem⟩ :=
        ih f (i + 1) l' c' hs' hmeasure (by omega)
      refine ⟨by rw [e1], c' :: v, by rw [e2], ?_, ?_, ?_, ?_⟩
      · apply List.pairwise_cons.mpr
        refine ⟨?_, hpw⟩
        intro y hy
        rcases List.mem_cons.mp hy with e | hy
        · exact e ▸ hc'c
        · exact slt_trans ((List.pairwise_cons.mp hpw).1 y hy) hc'c
      · intro y hy
        rcases List.mem_cons.mp hy with e | hy
        · exact e ▸ hc'l0.1
        · exact ((hmem y).mp (hsub y hy)).1
      · intro y hy hyc hnr
        have hyl' : y ∈ l' := (hmem y).mpr ⟨hy, hnr i (Nat.le_refl _)⟩
        by_cases hyc' : y < c'
        · exact List.mem_cons_of_mem _ (hcompl y hyl' hyc' (fun k hk => hnr k (by omega)))
        · have : y = c' := slt_tri hyc' (hgreatest y hyl' hyc)
          exact this ▸ List.mem_cons_self ..
      · intro j y hj k hk1 hk2
        cases j with
        | zero =>
          have : y = c' := by simpa using hj.symm
          have hk : k = i := by omega
          subst this; subst hk
          exact hc'l0.2
        | succ j =>
          have hj' : v[j]? = some y := by simpa using hj
          by_cases hk : k = i
          · subst hk
            have : y ∈ v := List.mem_of_getElem? hj'
            exact ((hmem y).mp (hsub y this)).2
          · exact hrem j y hj' k (by omega) (by omega)

/-- **Backward iteration with removals in between** (`disc`, then `dnext` from the current
name while lights disappear): for ANY removal schedule `rem` the iteration stops by itself
within `l.length` visits, goes strictly downwards (so nothing is visited twice), visits only
elements of the list, never one that was removed before its turn, and visits every element
that is never removed. -/
theorem C13_iteration_visits_once_rem (rem : Nat → List String) {l : List String}
    (hs : Sorted l) (fuel : Nat) (hf : l.length ≤ fuel) :
    iterBack rem fuel l = iterBack rem l.length l ∧
    (iterBack rem fuel l).Pairwise (fun a b => b < a) ∧
    (∀ y ∈ iterBack rem fuel l, y ∈ l) ∧
    (∀ y ∈ l, (∀ k, y ∉ rem k) → y ∈ iterBack rem fuel l) ∧
    (∀ (j : Nat) (y : String), (iterBack rem fuel l)[j]? = some y → ∀ k, k < j → y ∉ rem k) := by
  unfold iterBack
  rcases last_spec hs with ⟨h1, h2⟩ | ⟨l', c, h1, h2, h3⟩
  · subst h1
    simp [h2, walkPrev_none]
  · rw [h2]
    have hmeasure : (l.filter (fun a => decide (a < c))).length < l.length :=
      List.length_filter_lt_length_iff_exists.mpr ⟨c, by simp [h1], by simp [slt_irrefl c]⟩
    obtain ⟨e1, v, e2, hpw, hsub, hcompl, hrem⟩ :=
      walkPrev_spec rem l.length fuel 0 l c hs hmeasure hf
    rw [e1, e2]
    refine ⟨rfl, hpw, ?_, ?_, ?_⟩
    · intro y hy
      rcases List.mem_cons.mp hy with e | hy
      · rw [e, h1]; simp
      · exact hsub y hy
    · intro y hy hnr
      rw [h1] at hy
      rcases List.mem_append.mp hy with hy' | hy'
      · exact List.mem_cons_of_mem _ (hcompl y (h1 ▸ hy) (h3 y hy') (fun k _ => hnr k))
      · have : y = c := by simpa using hy'
        exact this ▸ List.mem_cons_self ..
    · intro j y hj k hk
      cases j with
      | zero => omega
      | succ j => exact hrem j y (by simpa using hj) k (Nat.zero_le _) (by omega)

/-- **Backward iteration, nothing removed**: stepping with `prev` from `last` visits every
element exactly once, in descending order, and then stops — whatever the fuel beyond the
length. -/
theorem C13_iteration_visits_once {l : List String} (hs : Sorted l) (fuel : Nat)
    (hf : l.length ≤ fuel) : iterBack (fun _ => []) fuel l = l.reverse := by
  obtain ⟨_, hpw, hsub, hcompl, _⟩ := C13_iteration_visits_once_rem (fun _ => []) hs fuel hf
  have : (iterBack (fun _ => []) fuel l).reverse = l := by
    apply sorted_ext (List.pairwise_reverse.mpr hpw) hs
    intro x
    rw [List.mem_reverse]
    exact ⟨hsub x, fun hx => hcompl x hx (fun _ => by simp)⟩
  have h2 := congrArg List.reverse this
  rwa [List.reverse_reverse] at h2

/-! ### forward iteration -/

theorem walkNext_step (rem : Nat → List String) (f i : Nat) (l : List String) (c : String) :
    walkNext rem (f + 1) i l (some c) =
      c :: walkNext rem f (i + 1) ((rem i).foldl remove l) (next ((rem i).foldl remove l) c) := rfl

theorem walkNext_none (rem : Nat → List String) (f i : Nat) (l : List String) :
    walkNext rem f i l none = [] := by
  cases f <;> rfl

theorem walkNext_spec (rem : Nat → List String) :
    ∀ (n fuel i : Nat) (l : List String) (c : String), Sorted l →
      (l.filter (fun a => decide (c < a))).length < n → n ≤ fuel →
      walkNext rem fuel i l (some c) = walkNext rem n i l (some c) ∧
      ∃ v, walkNext rem n i l (some c) = c :: v ∧
        Sorted (c :: v) ∧
        (∀ y ∈ v, y ∈ l) ∧
        (∀ y ∈ l, c < y → (∀ k, i ≤ k → y ∉ rem k) → y ∈ v) ∧
        (∀ (j : Nat) (y : String), v[j]? = some y → ∀ k, i ≤ k → k ≤ i + j → y ∉ rem k) := by
  intro n
  induction n with
  | zero => intro fuel i l c _ h; exact absurd h (Nat.not_lt_zero _)
  | succ n ih =>
    intro fuel i l c hs hlen hfuel
    obtain ⟨f, rfl⟩ : ∃ f, fuel = f + 1 := ⟨fuel - 1, by omega⟩
    rw [walkNext_step, walkNext_step]
    have hs' := sorted_foldl_remove hs (rem i)
    have hmem := mem_foldl_remove (rem i) hs
    generalize hl' : (rem i).foldl remove l = l' at hs' hmem
    have hstep := C13_next_strict hs' c
    cases hp : next l' c with
    | none =>
      rw [hp] at hstep
      rw [walkNext_none, walkNext_none]
      refine ⟨rfl, [], rfl, by simp [Sorted], by simp, ?_, by simp⟩
      intro y hy hyc hrem
      exact absurd hyc (hstep y ((hmem y).mpr ⟨hy, hrem i (Nat.le_refl _)⟩))
    | some c' =>
      rw [hp] at hstep
      obtain ⟨hc'l, hc'c, hnearest⟩ := hstep
      have hc'l0 := (hmem c').mp hc'l
      have hmeasure : (l'.filter (fun a => decide (c' < a))).length < n := by
        have h1 : (l'.filter (fun a => decide (c' < a))).length ≤
            (l.filter (fun a => decide (c' < a))).length := by
          rw [← hl', foldl_remove_eq_filter _ hs]
          exact (List.Sublist.filter _ List.filter_sublist).length_le
        have h2 := filter_length_lt (fun a => decide (c' < a)) (fun a => decide (c < a))
          (fun a ha => by simp at ha ⊢; exact slt_trans hc'c ha) l c' hc'l0.1
          (by simpa using hc'c) (by simp [slt_irrefl c'])
        omega
      obtain ⟨e1, v, e2, hpw, hsub, hcompl, hrem⟩ :=
        ih f (i + 1) l' c' hs' hmeasure (by omega)
      refine ⟨by rw [e1], c' :: v, by rw [e2], ?_, ?_, ?_, ?_⟩
      · apply sorted_cons.mpr
        refine ⟨?_, hpw⟩
        intro y hy
        rcases List.mem_cons.mp hy with e | hy
        · exact e ▸ hc'c
        · exact slt_trans hc'c ((sorted_cons.mp hpw).1 y hy)
      · intro y hy
        rcases List.mem_cons.mp hy with e | hy
        · exact e ▸ hc'l0.1
        · exact ((hmem y).mp (hsub y hy)).1
      · intro y hy hyc hnr
        have hyl' : y ∈ l' := (hmem y).mpr ⟨hy, hnr i (Nat.le_refl _)⟩
        by_cases hyc' : c' < y
        · exact List.mem_cons_of_mem _ (hcompl y hyl' hyc' (fun k hk => hnr k (by omega)))
        · have : c' = y := slt_tri hyc' (hnearest y hyl' hyc)
          exact this ▸ List.mem_cons_self ..
      · intro j y hj k hk1 hk2
        cases j with
        | zero =>
          have : y = c' := by simpa using hj.symm
          have hk : k = i := by omega
          subst this; subst hk
          exact hc'l0.2
        | succ j =>
          have hj' : v[j]? = some y := by simpa using hj
          by_cases hk : k = i
          · subst hk
            have : y ∈ v := List.mem_of_getElem? hj'
            exact ((hmem y).mp (hsub y this)).2
          · exact hrem j y hj' k (by omega) (by omega)

/-- **Forward iteration with removals in between**: as `C13_iteration_visits_once_rem`,
stepping with `next` from `first`. -/
theorem C13_iteration_fwd_visits_once_rem (rem : Nat → List String) {l : List String}
    (hs : Sorted l) (fuel : Nat) (hf : l.length ≤ fuel) :
    iterFwd rem fuel l = iterFwd rem l.length l ∧
    Sorted (iterFwd rem fuel l) ∧
    (∀ y ∈ iterFwd rem fuel l, y ∈ l) ∧
    (∀ y ∈ l, (∀ k, y ∉ rem k) → y ∈ iterFwd rem fuel l) ∧
    (∀ (j : Nat) (y : String), (iterFwd rem fuel l)[j]? = some y → ∀ k, k < j → y ∉ rem k) := by
  unfold iterFwd first
  cases l with
  | nil => simp [walkNext_none, Sorted]
  | cons c t =>
    simp only [List.head?_cons]
    have h3 := (sorted_cons.mp hs).1
    have hmeasure : ((c :: t).filter (fun a => decide (c < a))).length < (c :: t).length :=
      List.length_filter_lt_length_iff_exists.mpr ⟨c, by simp, by simp [slt_irrefl c]⟩
    obtain ⟨e1, v, e2, hpw, hsub, hcompl, hrem⟩ :=
      walkNext_spec rem (c :: t).length fuel 0 (c :: t) c hs hmeasure hf
    rw [e1, e2]
    refine ⟨rfl, hpw, ?_, ?_, ?_⟩
    · intro y hy
      rcases List.mem_cons.mp hy with e | hy
      · rw [e]; simp
      · exact hsub y hy
    · intro y hy hnr
      rcases List.mem_cons.mp hy with e | hy'
      · exact e ▸ List.mem_cons_self ..
      · exact List.mem_cons_of_mem _ (hcompl y hy (h3 y hy') (fun k _ => hnr k))
    · intro j y hj k hk
      cases j with
      | zero => omega
      | succ j => exact hrem j y (by simpa using hj) k (Nat.zero_le _) (by omega)

/-- **Forward iteration, nothing removed**: visits the list in order, once each, and stops. -/
theorem C13_iteration_fwd_visits_once {l : List String} (hs : Sorted l) (fuel : Nat)
    (hf : l.length ≤ fuel) : iterFwd (fun _ => []) fuel l = l := by
  obtain ⟨_, hpw, hsub, hcompl, _⟩ := C13_iteration_fwd_visits_once_rem (fun _ => []) hs fuel hf
  apply sorted_ext hpw hs
  intro x
  exact ⟨hsub x, fun hx => hcompl x hx (fun _ => by simp)⟩

/-! ## Part 3 — the directory -/

/-! ### dictionaries -/
namespace Dict
variable {β : Type}

theorem mem_keys {d : Dict β} {k : String} : k ∈ d.keys ↔ ∃ p ∈ d, p.1 = k := by
  simp [keys]

theorem key_mem {d : Dict β} {p : String × β} (h : p ∈ d) : p.1 ∈ d.keys :=
  mem_keys.mpr ⟨p, h, rfl⟩

theorem keys_cons (p : String × β) (d : Dict β) : keys (p :: d) = p.1 :: keys d := rfl

/-- with distinct keys an entry is determined by its key -/
theorem eq_of_key_eq : ∀ {d : Dict β}, d.keys.Nodup → ∀ {p q : String × β}, p ∈ d → q ∈ d →
    p.1 = q.1 → p = q
  | [], _, _, _, hp, _, _ => by simp at hp
  | a :: t, hn, p, q, hp, hq, h => by
    rw [keys_cons, List.nodup_cons] at hn
    rcases List.mem_cons.mp hp with e1 | hp' <;> rcases List.mem_cons.mp hq with e2 | hq'
    · rw [e1, e2]
    · exact absurd (by rw [← e1, h]; exact key_mem hq') hn.1
    · exact absurd (by rw [← e2, ← h]; exact key_mem hp') hn.1
    · exact eq_of_key_eq hn.2 hp' hq' h

theorem mem_set : ∀ {d : Dict β}, d.keys.Nodup → ∀ (k : String) (v : β) (q : String × β),
    q ∈ d.set k v ↔ q = (k, v) ∨ (q ∈ d ∧ q.1 ≠ k)
  | [], _, k, v, q => by simp [set]
  | (k', v') :: t, hn, k, v, q => by
    rw [keys_cons, List.nodup_cons] at hn
    unfold set
    by_cases hk : k' = k
    · subst hk
      simp only [if_true, List.mem_cons]
      constructor
      · rintro (h | h)
        · exact Or.inl h
        · exact Or.inr ⟨Or.inr h, fun e => hn.1 (by have := key_mem h; rw [e] at this; exact this)⟩
      · rintro (h | ⟨h | h, hne⟩)
        · exact Or.inl h
        · exact absurd (by rw [h]) hne
        · exact Or.inr h
    · simp only [hk, if_false, List.mem_cons, mem_set hn.2 k v q]
      constructor
      · rintro (h | h | ⟨h, hne⟩)
        · exact Or.inr ⟨Or.inl h, by rw [h]; exact hk⟩
        · exact Or.inl h
        · exact Or.inr ⟨Or.inr h, hne⟩
      · rintro (h | ⟨h | h, hne⟩)
        · exact Or.inr (Or.inl h)
        · exact Or.inl h
        · exact Or.inr (Or.inr ⟨h, hne⟩)

theorem keys_set : ∀ (d : Dict β) (k : String) (v : β),
    (d.set k v).keys = if k ∈ d.keys then d.keys else d.keys ++ [k]
  | [], k, v => by simp [set, keys]
  | (k', v') :: t, k, v => by
    unfold set
    by_cases hk : k' = k
    · subst hk; simp [keys]
    · have hk' : ¬ k = k' := fun e => hk e.symm
      simp only [hk, if_false, keys_cons, keys_set t k v, List.mem_cons, hk', false_or]
      by_cases hm : k ∈ keys t <;> simp [hm]

theorem mem_keys_set (d : Dict β) (k : String) (v : β) (m : String) :
    m ∈ (d.set k v).keys ↔ m ∈ d.keys ∨ m = k := by
  rw [keys_set]
  by_cases hk : k ∈ d.keys
  · simp only [hk, if_true]
    exact ⟨Or.inl, fun h => h.elim id (fun e => e ▸ hk)⟩
  · simp [hk]

theorem nodup_keys_set {d : Dict β} (hn : d.keys.Nodup) (k : String) (v : β) :
    (d.set k v).keys.Nodup := by
  rw [keys_set]
  by_cases hk : k ∈ d.keys
  · simpa [hk] using hn
  · simp only [hk, if_false]
    apply List.nodup_append.mpr
    refine ⟨hn, by simp, ?_⟩
    intro a ha b hb
    have : b = k := by simpa using hb
    subst this
    exact fun e => hk (e ▸ ha)

theorem get_set : ∀ (d : Dict β) (k : String) (v : β) (k' : String),
    (d.set k v).get k' = if k = k' then some v else d.get k'
  | [], k, v, k' => by simp [set, get]
  | (k₀, v₀) :: t, k, v, k' => by
    unfold set
    by_cases hk : k₀ = k
    · subst hk
      by_cases hk' : k₀ = k' <;> simp [get, hk']
    · simp only [hk, if_false, get, get_set t k v k']
      by_cases hk' : k₀ = k'
      · have : ¬ k = k' := fun e => hk (hk'.trans e.symm)
        simp [hk', this]
      · simp [hk']

theorem get_eq_some_iff : ∀ {d : Dict β}, d.keys.Nodup → ∀ (k : String) (v : β),
    d.get k = some v ↔ (k, v) ∈ d
  | [], _, k, v => by simp [get]
  | (k₀, v₀) :: t, hn, k, v => by
    rw [keys_cons, List.nodup_cons] at hn
    unfold get
    by_cases hk : k₀ = k
    · subst hk
      simp only [if_true, Option.some.injEq, List.mem_cons, Prod.mk.injEq, true_and]
      exact ⟨fun h => Or.inl h.symm, fun h => h.elim Eq.symm (fun h => absurd (key_mem h) hn.1)⟩
    · simp only [hk, if_false, List.mem_cons, Prod.mk.injEq, get_eq_some_iff hn.2 k v]
      exact ⟨Or.inr, fun h => h.elim (fun h => absurd h.1.symm hk) id⟩

theorem get_eq_none_iff : ∀ (d : Dict β) (k : String), d.get k = none ↔ k ∉ d.keys
  | [], k => by simp [get, keys]
  | (k₀, v₀) :: t, k => by
    unfold get
    by_cases hk : k₀ = k
    · simp [hk, keys]
    · have hk' : ¬ k = k₀ := fun e => hk e.symm
      simp [hk, hk', keys_cons, get_eq_none_iff t k]

theorem mem_del (d : Dict β) (k : String) (q : String × β) : q ∈ d.del k ↔ q ∈ d ∧ q.1 ≠ k := by
  simp [del]

theorem keys_del_sublist (d : Dict β) (k : String) : (d.del k).keys.Sublist d.keys :=
  List.Sublist.map _ List.filter_sublist

theorem mem_keys_del (d : Dict β) (k m : String) : m ∈ (d.del k).keys ↔ m ∈ d.keys ∧ m ≠ k := by
  simp only [mem_keys, mem_del]
  constructor
  · rintro ⟨p, ⟨hp, hne⟩, rfl⟩; exact ⟨⟨p, hp, rfl⟩, hne⟩
  · rintro ⟨⟨p, hp, rfl⟩, hne⟩; exact ⟨p, ⟨hp, hne⟩, rfl⟩

theorem contains_iff (d : Dict β) (k : String) : d.contains k = true ↔ k ∈ d.keys := by
  simp [contains, keys]

end Dict

/-! ### the invariant -/

/-- consistency of one membership dictionary (`_groups` or `_locations`) with the lights:
`proj` is the group resp. location a light reported -/
structure MemInv (proj : LightRec → String) (lights : Dict LightRec)
    (d : Dict (List String)) : Prop where
  /-- one list per name -/
  nodup : d.keys.Nodup
  /-- member lists are sorted, duplicate-free and never empty -/
  wf : ∀ p ∈ d, Sorted p.2 ∧ p.2 ≠ []
  /-- a listed member is a known light that reported this very group/location -/
  sound : ∀ p ∈ d, ∀ n ∈ p.2, ∃ q ∈ lights, q.1 = n ∧ proj q.2 = p.1
  /-- every known light is listed under the group/location it reported -/
  complete : ∀ q ∈ lights, ∃ p ∈ d, p.1 = proj q.2 ∧ q.1 ∈ p.2

/-- the sorted name list names exactly the known lights -/
structure NamesInv (names : List String) (lights : Dict LightRec) : Prop where
  sorted : Sorted names
  known : ∀ n ∈ names, n ∈ lights.keys
  named : ∀ n ∈ lights.keys, n ∈ names
  nodup : lights.keys.Nodup

/-- **The directory invariant.** -/
structure Inv (s : State) : Prop where
  names : NamesInv s.names s.lights
  groups : MemInv (·.group) s.lights s.groups
  locations : MemInv (·.location) s.lights s.locations

theorem keys_map_snd {γ : Type} (d : Dict (List String)) (f : String × List String → γ) :
    Dict.keys (d.map fun p => (p.1, f p)) = d.keys := by
  simp [Dict.keys, List.map_map, Function.comp_def]

theorem mem_removeMemberships {n : String} {d : Dict (List String)} {p' : String × List String} :
    p' ∈ removeMemberships n d ↔ ∃ p ∈ d, (p.1, remove p.2 n) = p' ∧ remove p.2 n ≠ [] := by
  simp only [removeMemberships, List.mem_filter, List.mem_map]
  constructor
  · rintro ⟨⟨p, hp, rfl⟩, hne⟩
    exact ⟨p, hp, rfl, by simpa using hne⟩
  · rintro ⟨p, hp, rfl, hne⟩
    exact ⟨⟨p, hp, rfl⟩, by simpa using hne⟩

/-- `_remove_memberships` for a light that is dropped from the directory -/
theorem MemInv.remove_step {proj : LightRec → String} {lights : Dict LightRec}
    {d : Dict (List String)} (h : MemInv proj lights d) (n : String) :
    MemInv proj (lights.del n) (removeMemberships n d) := by
  refine ⟨?_, ?_, ?_, ?_⟩
  · have h1 : (removeMemberships n d).keys.Sublist
        (Dict.keys (d.map fun p => (p.1, remove p.2 n))) := List.Sublist.map _ List.filter_sublist
    rw [keys_map_snd d (fun p => remove p.2 n)] at h1
    exact h.nodup.sublist h1
  · intro p' hp'
    obtain ⟨p, hp, rfl, hne⟩ := mem_removeMemberships.mp hp'
    exact ⟨sorted_remove (h.wf p hp).1 n, hne⟩
  · intro p' hp' m hm
    obtain ⟨p, hp, rfl, _⟩ := mem_removeMemberships.mp hp'
    have hm' := (mem_remove (h.wf p hp).1 n m).mp hm
    obtain ⟨q, hq, hq1, hq2⟩ := h.sound p hp m hm'.1
    exact ⟨q, (Dict.mem_del _ _ _).mpr ⟨hq, hq1 ▸ hm'.2⟩, hq1, hq2⟩
  · intro q hq
    have hq' := (Dict.mem_del _ _ _).mp hq
    obtain ⟨p, hp, hp1, hp2⟩ := h.complete q hq'.1
    have hm : q.1 ∈ remove p.2 n := (mem_remove (h.wf p hp).1 n q.1).mpr ⟨hp2, hq'.2⟩
    exact ⟨(p.1, remove p.2 n),
      mem_removeMemberships.mpr ⟨p, hp, rfl, List.ne_nil_of_mem hm⟩, hp1, hm⟩

/-- the second half of `_update_memberships` -/
theorem MemInv.add_step {proj : LightRec → String} {lights : Dict LightRec}
    {d : Dict (List String)} (hn : lights.keys.Nodup) (n : String)
    (h : MemInv proj (lights.del n) d) (r : LightRec) :
    MemInv proj (lights.set n r) (addMember n (proj r) d) := by
  have hset := Dict.mem_set hn n r
  have lift : ∀ q ∈ lights.del n, q ∈ lights.set n r := fun q hq =>
    (hset q).mpr (Or.inr ((Dict.mem_del _ _ _).mp hq))
  unfold addMember
  by_cases hc : d.contains (proj r) = true
  · simp only [hc, if_true]
    obtain ⟨p₀, hp₀, hp₀k⟩ := Dict.mem_keys.mp ((Dict.contains_iff _ _).mp hc)
    refine ⟨?_, ?_, ?_, ?_⟩
    · have : Dict.keys (d.map fun p => if p.1 = proj r then (p.1, add p.2 n) else p) = d.keys := by
        simp only [Dict.keys, List.map_map]
        apply List.map_congr_left
        intro p _
        simp only [Function.comp]
        split <;> rfl
      rw [this]; exact h.nodup
    · intro p' hp'
      obtain ⟨p, hp, rfl⟩ := List.mem_map.mp hp'
      split
      · refine ⟨sorted_add (h.wf p hp).1 n, ?_⟩
        exact List.ne_nil_of_mem ((mem_add (h.wf p hp).1 n n).mpr (Or.inr rfl))
      · exact h.wf p hp
    · intro p' hp' m hm
      obtain ⟨p, hp, rfl⟩ := List.mem_map.mp hp'
      split at hm
      · rename_i hpk
        rcases (mem_add (h.wf p hp).1 n m).mp hm with hm | hm
        · obtain ⟨q, hq, hq1, hq2⟩ := h.sound p hp m hm
          exact ⟨q, lift q hq, hq1, by simpa [hpk] using hq2⟩
        · exact ⟨(n, r), (hset _).mpr (Or.inl rfl), hm.symm, by simp [hpk]⟩
      · rename_i hpk
        obtain ⟨q, hq, hq1, hq2⟩ := h.sound p hp m hm
        exact ⟨q, lift q hq, hq1, by simpa [hpk] using hq2⟩
    · intro q hq
      rcases (hset q).mp hq with rfl | hq
      · refine ⟨(p₀.1, add p₀.2 n), List.mem_map.mpr ⟨p₀, hp₀, by simp [hp₀k]⟩, hp₀k,
          (mem_add (h.wf p₀ hp₀).1 n n).mpr (Or.inr rfl)⟩
      · obtain ⟨p, hp, hp1, hp2⟩ := h.complete q ((Dict.mem_del _ _ _).mpr hq)
        by_cases hpk : p.1 = proj r
        · exact ⟨(p.1, add p.2 n), List.mem_map.mpr ⟨p, hp, by simp [hpk]⟩, hp1,
            (mem_add (h.wf p hp).1 n q.1).mpr (Or.inl hp2)⟩
        · exact ⟨p, List.mem_map.mpr ⟨p, hp, by simp [hpk]⟩, hp1, hp2⟩
  · simp only [hc]
    have hk : proj r ∉ d.keys := fun hk => hc ((Dict.contains_iff _ _).mpr hk)
    refine ⟨?_, ?_, ?_, ?_⟩
    · show (Dict.keys (d ++ [(proj r, [n])])).Nodup
      simp only [Dict.keys, List.map_append, List.map_cons, List.map_nil]
      apply List.nodup_append.mpr
      refine ⟨h.nodup, by simp, ?_⟩
      intro a ha b hb
      have : b = proj r := by simpa using hb
      subst this
      exact fun e => hk (e ▸ ha)
    · intro p hp
      rcases List.mem_append.mp hp with hp | hp
      · exact h.wf p hp
      · have : p = (proj r, [n]) := by simpa using hp
        subst this
        exact ⟨by simp [Sorted], by simp⟩
    · intro p hp m hm
      rcases List.mem_append.mp hp with hp | hp
      · obtain ⟨q, hq, hq1, hq2⟩ := h.sound p hp m hm
        exact ⟨q, lift q hq, hq1, hq2⟩
      · have : p = (proj r, [n]) := by simpa using hp
        subst this
        have : m = n := by simpa using hm
        exact ⟨(n, r), (hset _).mpr (Or.inl rfl), this.symm, rfl⟩
    · intro q hq
      rcases (hset q).mp hq with rfl | hq
      · exact ⟨(proj r, [n]), List.mem_append_right _ (by simp), rfl, by simp⟩
      · obtain ⟨p, hp, hp1, hp2⟩ := h.complete q ((Dict.mem_del _ _ _).mpr hq)
        exact ⟨p, List.mem_append_left _ hp, hp1, hp2⟩

/-- `_update_memberships` for a light that is (re)discovered with record `r` -/
theorem MemInv.update_step {proj : LightRec → String} {lights : Dict LightRec}
    {d : Dict (List String)} (hn : lights.keys.Nodup) (h : MemInv proj lights d)
    (n : String) (r : LightRec) :
    MemInv proj (lights.set n r) (updateMemberships n (proj r) d) :=
  MemInv.add_step hn n (h.remove_step n) r

theorem NamesInv.add_step {names : List String} {lights : Dict LightRec}
    (h : NamesInv names lights) (n : String) (r : LightRec) :
    NamesInv (add names n) (lights.set n r) where
  sorted := sorted_add h.sorted n
  known := fun m hm => (Dict.mem_keys_set _ _ _ _).mpr
    (((mem_add h.sorted n m).mp hm).imp (h.known m) id)
  named := fun m hm => (mem_add h.sorted n m).mpr
    (((Dict.mem_keys_set _ _ _ _).mp hm).imp (h.named m) id)
  nodup := Dict.nodup_keys_set h.nodup n r

theorem NamesInv.remove_step {names : List String} {lights : Dict LightRec}
    (h : NamesInv names lights) (n : String) :
    NamesInv (remove names n) (lights.del n) where
  sorted := sorted_remove h.sorted n
  known := fun m hm => (Dict.mem_keys_del _ _ _).mpr
    (((mem_remove h.sorted n m).mp hm).imp (h.known m) id)
  named := fun m hm => (mem_remove h.sorted n m).mpr
    (((Dict.mem_keys_del _ _ _).mp hm).imp (h.named m) id)
  nodup := h.nodup.sublist (Dict.keys_del_sublist _ _)

/-! ### every operation preserves the invariant -/

theorem C13_inv_init : Inv init :=
  ⟨⟨Sorted.nil, by simp [init, Dict.keys], by simp [init, Dict.keys], by simp [init, Dict.keys]⟩,
   ⟨by simp [init, Dict.keys], by simp [init], by simp [init], by simp [init]⟩,
   ⟨by simp [init, Dict.keys], by simp [init], by simp [init], by simp [init]⟩⟩

theorem inv_discoverOne {s : State} (h : Inv s) (e : String × String × String) :
    Inv (discoverOne s e) :=
  ⟨h.names.add_step e.1 _,
   MemInv.update_step (proj := (·.group)) h.names.nodup h.groups e.1 ⟨e.2.1, e.2.2, s.now⟩,
   MemInv.update_step (proj := (·.location)) h.names.nodup h.locations e.1 ⟨e.2.1, e.2.2, s.now⟩⟩

theorem inv_foldl_discoverOne : ∀ (snap : Snapshot) {s : State}, Inv s →
    Inv (snap.foldl discoverOne s)
  | [], _, h => h
  | e :: t, _, h => inv_foldl_discoverOne t (inv_discoverOne h e)

theorem inv_discover {s : State} (h : Inv s) (snap : Snapshot) : Inv (discover snap s) :=
  let h' := inv_foldl_discoverOne snap h
  ⟨h'.names, h'.groups, h'.locations⟩

theorem inv_discoverFail {s : State} (h : Inv s) : Inv (discoverFail s) :=
  ⟨h.names, h.groups, h.locations⟩

theorem inv_advance {s : State} (h : Inv s) (δ : Nat) : Inv (advance δ s) :=
  ⟨h.names, h.groups, h.locations⟩

theorem MemInv.remove_fold {proj : LightRec → String} : ∀ (targets : List String)
    {lights : Dict LightRec} {d : Dict (List String)}, MemInv proj lights d →
    MemInv proj (targets.foldl Dict.del lights)
      (targets.foldl (fun d n => removeMemberships n d) d)
  | [], _, _, h => h
  | n :: t, _, _, h => MemInv.remove_fold t (h.remove_step n)

theorem NamesInv.remove_fold : ∀ (targets : List String) {names : List String}
    {lights : Dict LightRec}, NamesInv names lights →
    NamesInv (targets.foldl remove names) (targets.foldl Dict.del lights)
  | [], _, _, h => h
  | n :: t, _, _, h => NamesInv.remove_fold t (h.remove_step n)

theorem inv_expire {s : State} (h : Inv s) (maxAge : Int) : Inv (expire maxAge s) :=
  ⟨NamesInv.remove_fold _ h.names, MemInv.remove_fold _ h.groups, MemInv.remove_fold _ h.locations⟩

theorem inv_step {s : State} (h : Inv s) : ∀ op, Inv (step s op)
  | .discover snap => inv_discover h snap
  | .discoverFail => inv_discoverFail h
  | .advance δ => inv_advance h δ
  | .expire m => inv_expire h m

theorem inv_foldl_step : ∀ (history : List Op) {s : State}, Inv s → Inv (history.foldl step s)
  | [], _, h => h
  | op :: t, _, h => inv_foldl_step t (inv_step h op)

/-- **The invariant holds after every history** of discoveries (with arbitrary population
snapshots), failed discoveries, time advances and expiries — of any length, over any names,
groups and locations. -/
theorem C13_inv_reachable (history : List Op) : Inv (run history) :=
  inv_foldl_step history C13_inv_init

/-- `refresh()` (discover, successful or not, then garbage collect) preserves it too -/
theorem C13_inv_refresh {s : State} (h : Inv s) (snap : Option Snapshot) (maxAge : Int) :
    Inv (refresh snap maxAge s) := by
  unfold refresh
  cases snap with
  | none => exact inv_expire (inv_discoverFail h) maxAge
  | some sn => exact inv_expire (inv_discover h sn) maxAge

/-! ### what the invariant says through the public getters -/

/-- **Consistency, read through the getters**: the name list is sorted, duplicate-free and
names exactly the known lights; a light is in the member list of a group (location) exactly
when that is the group (location) in its record — hence in exactly one list of each kind —
and member lists are sorted, duplicate-free and never empty. -/
theorem C13_directory_consistent {s : State} (h : Inv s) :
    Sorted (getLightNames s) ∧
    (∀ n, n ∈ getLightNames s ↔ ∃ r, getLight s n = some r) ∧
    (∀ g n, (∃ l, getGroupLights s g = some l ∧ n ∈ l) ↔
      ∃ r, getLight s n = some r ∧ r.group = g) ∧
    (∀ g n, (∃ l, getLocationLights s g = some l ∧ n ∈ l) ↔
      ∃ r, getLight s n = some r ∧ r.location = g) ∧
    (∀ g l, getGroupLights s g = some l → Sorted l ∧ l ≠ []) ∧
    (∀ g l, getLocationLights s g = some l → Sorted l ∧ l ≠ []) := by
  have hl := Dict.get_eq_some_iff h.names.nodup
  have aux : ∀ (proj : LightRec → String) (d : Dict (List String)), MemInv proj s.lights d →
      (∀ g n, (∃ l, d.get g = some l ∧ n ∈ l) ↔ ∃ r, s.lights.get n = some r ∧ proj r = g) ∧
      (∀ g l, d.get g = some l → Sorted l ∧ l ≠ []) := by
    intro proj d hd
    have hg := Dict.get_eq_some_iff hd.nodup
    refine ⟨fun g n => ⟨?_, ?_⟩, fun g l hgl => hd.wf (g, l) ((hg g l).mp hgl)⟩
    · rintro ⟨l, hgl, hn⟩
      obtain ⟨q, hq, hq1, hq2⟩ := hd.sound (g, l) ((hg g l).mp hgl) n hn
      exact ⟨q.2, (hl n q.2).mpr (hq1 ▸ hq), hq2⟩
    · rintro ⟨r, hr, hrg⟩
      obtain ⟨p, hp, hp1, hp2⟩ := hd.complete (n, r) ((hl n r).mp hr)
      exact ⟨p.2, (hg g p.2).mpr (by rw [← hrg, ← hp1]; exact hp), hp2⟩
  refine ⟨h.names.sorted, fun n => ⟨?_, ?_⟩, (aux _ _ h.groups).1, (aux _ _ h.locations).1,
    (aux _ _ h.groups).2, (aux _ _ h.locations).2⟩
  · intro hn
    obtain ⟨q, hq, hq1⟩ := Dict.mem_keys.mp (h.names.known n hn)
    exact ⟨q.2, (hl n q.2).mpr (hq1 ▸ hq)⟩
  · rintro ⟨r, hr⟩
    exact h.names.named n (Dict.key_mem ((hl n r).mp hr))

/-- a light is never in two groups or two locations -/
theorem C13_membership_unique {s : State} (h : Inv s) {g g' n : String} {l l' : List String}
    (h1 : getGroupLights s g = some l) (hn : n ∈ l)
    (h2 : getGroupLights s g' = some l') (hn' : n ∈ l') : g = g' := by
  have hc := (C13_directory_consistent h).2.2.1
  obtain ⟨r, hr, hrg⟩ := (hc g n).mp ⟨l, h1, hn⟩
  obtain ⟨r', hr', hrg'⟩ := (hc g' n).mp ⟨l', h2, hn'⟩
  rw [hr] at hr'
  cases hr'
  exact hrg.symm.trans hrg'

theorem mem_insertOrd (x m : String) : ∀ l : List String, m ∈ insertOrd x l ↔ m = x ∨ m ∈ l
  | [] => by simp [insertOrd]
  | a :: t => by
    unfold insertOrd
    split
    · simp
    · simp only [List.mem_cons, mem_insertOrd x m t]
      constructor
      · rintro (h | h | h)
        · exact Or.inr (Or.inl h)
        · exact Or.inl h
        · exact Or.inr (Or.inr h)
      · rintro (h | h | h)
        · exact Or.inr (Or.inl h)
        · exact Or.inl h
        · exact Or.inr (Or.inr h)

theorem sorted_insertOrd (x : String) : ∀ {l : List String}, Sorted l → x ∉ l →
    Sorted (insertOrd x l)
  | [], _, _ => by simp [insertOrd, Sorted]
  | a :: t, hs, hx => by
    have ⟨ha, ht⟩ := sorted_cons.mp hs
    unfold insertOrd
    split
    · rename_i hxa
      apply sorted_cons.mpr
      refine ⟨fun b hb => ?_, hs⟩
      rcases List.mem_cons.mp hb with e | hb
      · exact e ▸ hxa
      · exact slt_trans hxa (ha b hb)
    · rename_i hxa
      have hne : a ≠ x := fun e => hx (e ▸ List.mem_cons_self ..)
      have hax : a < x := by
        rcases Classical.em (a < x) with h | h
        · exact h
        · exact absurd (slt_tri h hxa) hne
      apply sorted_cons.mpr
      refine ⟨fun b hb => ?_, sorted_insertOrd x ht (fun h => hx (List.mem_cons_of_mem _ h))⟩
      rcases (mem_insertOrd x b t).mp hb with e | hb
      · exact e ▸ hax
      · exact ha b hb

theorem mem_sortStr (m : String) : ∀ xs : List String, m ∈ sortStr xs ↔ m ∈ xs
  | [] => by simp [sortStr]
  | a :: t => by
    have ih := mem_sortStr m t
    unfold sortStr at ih ⊢
    rw [List.foldr_cons, mem_insertOrd, ih, List.mem_cons]

theorem sorted_sortStr : ∀ {xs : List String}, xs.Nodup → Sorted (sortStr xs)
  | [], _ => by simp [sortStr, Sorted]
  | a :: t, hn => by
    rw [List.nodup_cons] at hn
    have ih := sorted_sortStr hn.2
    have hm := mem_sortStr a t
    unfold sortStr at ih hm ⊢
    rw [List.foldr_cons]
    exact sorted_insertOrd a ih (fun h => hn.1 (hm.mp h))

/-- **The group and location name lists** are sorted, duplicate-free, and name exactly the
groups / locations that some known light reported — exactly the ones with a (non-empty)
member list. -/
theorem C13_name_lists_exact {s : State} (h : Inv s) :
    Sorted (getGroupNames s) ∧
    (∀ g, g ∈ getGroupNames s ↔ ∃ n r, getLight s n = some r ∧ r.group = g) ∧
    (∀ g, g ∈ getGroupNames s ↔ ∃ l, getGroupLights s g = some l ∧ l ≠ []) ∧
    Sorted (getLocationNames s) ∧
    (∀ g, g ∈ getLocationNames s ↔ ∃ n r, getLight s n = some r ∧ r.location = g) ∧
    (∀ g, g ∈ getLocationNames s ↔ ∃ l, getLocationLights s g = some l ∧ l ≠ []) := by
  have hl := Dict.get_eq_some_iff h.names.nodup
  have aux : ∀ (proj : LightRec → String) (d : Dict (List String)), MemInv proj s.lights d →
      Sorted (ofList d.keys) ∧
      (∀ g, g ∈ ofList d.keys ↔ ∃ n r, s.lights.get n = some r ∧ proj r = g) ∧
      (∀ g, g ∈ ofList d.keys ↔ ∃ l, d.get g = some l ∧ l ≠ []) := by
    intro proj d hd
    have hg := Dict.get_eq_some_iff hd.nodup
    refine ⟨sorted_sortStr hd.nodup, fun g => ?_, fun g => ?_⟩
    · rw [ofList, mem_sortStr, Dict.mem_keys]
      constructor
      · rintro ⟨p, hp, rfl⟩
        obtain ⟨m, hm⟩ := List.exists_mem_of_ne_nil _ (hd.wf p hp).2
        obtain ⟨q, hq, hq1, hq2⟩ := hd.sound p hp m hm
        exact ⟨q.1, q.2, (hl _ _).mpr hq, hq2⟩
      · rintro ⟨n, r, hr, rfl⟩
        obtain ⟨p, hp, hp1, _⟩ := hd.complete (n, r) ((hl n r).mp hr)
        exact ⟨p, hp, hp1⟩
    · rw [ofList, mem_sortStr, Dict.mem_keys]
      constructor
      · rintro ⟨p, hp, rfl⟩
        exact ⟨p.2, (hg _ _).mpr hp, (hd.wf p hp).2⟩
      · rintro ⟨l, hgl, _⟩
        exact ⟨(g, l), (hg g l).mp hgl, rfl⟩
  exact ⟨(aux _ _ h.groups).1, (aux _ _ h.groups).2.1, (aux _ _ h.groups).2.2,
    (aux _ _ h.locations).1, (aux _ _ h.locations).2.1, (aux _ _ h.locations).2.2⟩

/-! ### expiry is exact -/

theorem foldl_del_eq_filter {β : Type} : ∀ (targets : List String) (d : Dict β),
    targets.foldl Dict.del d = d.filter (fun p => !targets.contains p.1)
  | [], d => by
    simp only [List.foldl_nil, List.contains_nil, Bool.not_false]
    exact (List.filter_eq_self.mpr (fun _ _ => rfl)).symm
  | n :: t, d => by
    rw [List.foldl_cons, foldl_del_eq_filter t, Dict.del, List.filter_filter]
    congr 1
    funext p
    simp [Bool.and_comm]

/-- **Expiry removes exactly the lights not seen for longer than the configured age, with
all their memberships**: afterwards a light is known iff it was known and its age does not
exceed `maxAge` (its record untouched); the name list and every member list contain exactly
the survivors; nothing else changes. -/
theorem C13_expire_exact {s : State} (h : Inv s) (maxAge : Int) :
    Inv (expire maxAge s) ∧
    (∀ n r, getLight (expire maxAge s) n = some r ↔
      getLight s n = some r ∧ ¬ ((s.now : Int) - (r.birth : Int) > maxAge)) ∧
    (∀ n, n ∈ getLightNames (expire maxAge s) ↔
      ∃ r, getLight s n = some r ∧ ¬ ((s.now : Int) - (r.birth : Int) > maxAge)) ∧
    (∀ g n, (∃ l, getGroupLights (expire maxAge s) g = some l ∧ n ∈ l) ↔
      ∃ r, getLight s n = some r ∧ r.group = g ∧ ¬ ((s.now : Int) - (r.birth : Int) > maxAge)) ∧
    (∀ g n, (∃ l, getLocationLights (expire maxAge s) g = some l ∧ n ∈ l) ↔
      ∃ r, getLight s n = some r ∧ r.location = g ∧
        ¬ ((s.now : Int) - (r.birth : Int) > maxAge)) ∧
    (expire maxAge s).now = s.now := by
  have h' := inv_expire h maxAge
  have hl := Dict.get_eq_some_iff h.names.nodup
  have hl' := Dict.get_eq_some_iff h'.names.nodup
  have hlights : ∀ n r, getLight (expire maxAge s) n = some r ↔
      getLight s n = some r ∧ ¬ ((s.now : Int) - (r.birth : Int) > maxAge) := by
    intro n r
    unfold getLight
    rw [hl', hl]
    show (n, r) ∈ List.foldl Dict.del s.lights _ ↔ _
    rw [foldl_del_eq_filter, List.mem_filter]
    apply and_congr_right
    intro hmem
    simp only [Bool.not_eq_true', List.contains_eq_mem, List.mem_map, List.mem_filter,
      decide_eq_false_iff_not]
    constructor
    · intro hne hexp
      exact hne ⟨(n, r), ⟨hmem, by simpa [expired] using hexp⟩, rfl⟩
    · rintro hne ⟨q, ⟨hq, hexp⟩, hq1⟩
      have : q = (n, r) := Dict.eq_of_key_eq h.names.nodup hq hmem hq1
      subst this
      exact hne (by simpa [expired] using hexp)
  obtain ⟨_, hnames, hgroups, hlocs, _, _⟩ := C13_directory_consistent h'
  refine ⟨h', hlights, ?_, ?_, ?_, rfl⟩
  · intro n
    rw [hnames]
    exact exists_congr (fun r => hlights n r)
  · intro g n
    rw [hgroups]
    constructor
    · rintro ⟨r, hr, hg⟩
      exact ⟨r, ((hlights n r).mp hr).1, hg, ((hlights n r).mp hr).2⟩
    · rintro ⟨r, hr, hg, ha⟩
      exact ⟨r, (hlights n r).mpr ⟨hr, ha⟩, hg⟩
  · intro g n
    rw [hlocs]
    constructor
    · rintro ⟨r, hr, hg⟩
      exact ⟨r, ((hlights n r).mp hr).1, hg, ((hlights n r).mp hr).2⟩
    · rintro ⟨r, hr, hg, ha⟩
      exact ⟨r, (hlights n r).mpr ⟨hr, ha⟩, hg⟩

/-! ### the record of a light is what it last reported -/

/-- the group and location in the last entry of the snapshot carrying the name `n` -/
def lastReport : Snapshot → String → Option (String × String)
  | [], _ => none
  | e :: t, n =>
    match lastReport t n with
    | some x => some x
    | none => if e.1 = n then some e.2 else none

theorem lastReport_cons (e : String × String × String) (t : Snapshot) (n : String) :
    lastReport (e :: t) n =
      match lastReport t n with
      | some x => some x
      | none => if e.1 = n then some e.2 else none := rfl

theorem foldl_discoverOne_now : ∀ (snap : Snapshot) (s : State),
    (snap.foldl discoverOne s).now = s.now
  | [], _ => rfl
  | e :: t, s => by rw [List.foldl_cons, foldl_discoverOne_now t]; rfl

/-- **After a discovery every light of the snapshot is recorded with the group and location
it reported last, seen now; every other light keeps its record.**  Together with
`C13_directory_consistent` (a light is listed under exactly the group/location of its
record): every known light is listed under exactly the one group and the one location it
last reported. -/
theorem C13_last_reported (snap : Snapshot) (s : State) (n : String) :
    getLight (discover snap s) n =
      match lastReport snap n with
      | some (g, l) => some ⟨g, l, s.now⟩
      | none => getLight s n := by
  show (snap.foldl discoverOne s).lights.get n = _
  induction snap generalizing s with
  | nil => rfl
  | cons e t ih =>
    rw [List.foldl_cons, ih (discoverOne s e), lastReport_cons]
    cases lastReport t n with
    | some x => rfl
    | none =>
      show (s.lights.set e.1 ⟨e.2.1, e.2.2, s.now⟩).get n = _
      rw [Dict.get_set]
      by_cases he : e.1 = n <;> simp [he, getLight]

/-- the other operations do not touch any record -/
theorem C13_records_kept (s : State) (n : String) (δ : Nat) :
    getLight (discoverFail s) n = getLight s n ∧ getLight (advance δ s) n = getLight s n :=
  ⟨rfl, rfl⟩

/-! ### the Boolean checker decides the invariant -/

theorem sortedB_iff : ∀ l : List String, sortedB l = true ↔ Sorted l
  | [] => by simp [sortedB, Sorted]
  | a :: t => by
    rw [sortedB, Bool.and_eq_true, sortedB_iff t, sorted_cons]
    simp

theorem nodupB_iff : ∀ l : List String, nodupB l = true ↔ l.Nodup
  | [] => by simp [nodupB]
  | a :: t => by
    rw [nodupB, Bool.and_eq_true, nodupB_iff t, List.nodup_cons]
    simp

theorem memInvB_iff (proj : LightRec → String) (lights : Dict LightRec)
    (d : Dict (List String)) :
    (memWfB d = true ∧ memSoundB proj lights d = true ∧ memCompleteB proj lights d = true) ↔
      MemInv proj lights d := by
  constructor
  · rintro ⟨h1, h2, h3⟩
    simp only [memWfB, Bool.and_eq_true, nodupB_iff, List.all_eq_true, sortedB_iff,
      Bool.not_eq_true', List.isEmpty_eq_false_iff] at h1
    simp only [memSoundB, List.all_eq_true, List.any_eq_true, Bool.and_eq_true,
      decide_eq_true_eq] at h2
    simp only [memCompleteB, List.all_eq_true, List.any_eq_true, Bool.and_eq_true,
      decide_eq_true_eq, List.contains_eq_mem] at h3
    exact ⟨h1.1, h1.2, h2, h3⟩
  · intro h
    refine ⟨?_, ?_, ?_⟩
    · simp only [memWfB, Bool.and_eq_true, nodupB_iff, List.all_eq_true, sortedB_iff,
        Bool.not_eq_true', List.isEmpty_eq_false_iff]
      exact ⟨h.nodup, h.wf⟩
    · simp only [memSoundB, List.all_eq_true, List.any_eq_true, Bool.and_eq_true,
        decide_eq_true_eq]
      exact h.sound
    · simp only [memCompleteB, List.all_eq_true, List.any_eq_true, Bool.and_eq_true,
        decide_eq_true_eq, List.contains_eq_mem]
      exact h.complete

/-- **`invB` decides `Inv`**: the checker the driver applies to the implementation's own
directory state accepts exactly the consistent states. -/
theorem invB_iff (s : State) : invB s = true ↔ Inv s := by
  simp only [invB, invParts, List.all_cons, List.all_nil, Bool.and_true, Bool.and_eq_true]
  constructor
  · rintro ⟨h1, h2, h3, h4, h5, h6, h7, h8, h9, h10⟩
    refine ⟨⟨(sortedB_iff _).mp h1, ?_, ?_, (nodupB_iff _).mp h4⟩,
      (memInvB_iff _ _ _).mp ⟨h5, h6, h7⟩, (memInvB_iff _ _ _).mp ⟨h8, h9, h10⟩⟩
    · simpa [List.all_eq_true] using h2
    · simpa [List.all_eq_true] using h3
  · intro h
    obtain ⟨g1, g2, g3⟩ := (memInvB_iff _ _ _).mpr h.groups
    obtain ⟨l1, l2, l3⟩ := (memInvB_iff _ _ _).mpr h.locations
    refine ⟨(sortedB_iff _).mpr h.names.sorted, ?_, ?_, (nodupB_iff _).mpr h.names.nodup,
      g1, g2, g3, l1, l2, l3⟩
    · simpa [List.all_eq_true] using h.names.known
    · simpa [List.all_eq_true] using h.names.named

/-- every reachable model state passes the checker -/
theorem C13_invB_reachable (history : List Op) : invB (run history) = true :=
  (invB_iff _).mpr (C13_inv_reachable history)

/-! ### the model uses what the source says (regenerated from the source on every run) -/

open Bardolph.Generated.LightSet in
/-- `_index_of` and `prev` call `bisect_left`, `next` calls `bisect` (= `bisect_right`), `add`
calls `insort` (= `insort_right`), the age test is `>` — as `Model/LightSet.lean` has them -/
theorem C13_source_agrees :
    indexBisect = "bisect_left" ∧ prevBisect = "bisect_left" ∧ nextBisect = "bisect" ∧
    addInsert = "insort" ∧ gcCompare = "Gt" := by decide

/-! ### non-vacuity: the hypotheses are satisfiable, the operations do something -/

example : Sorted ["", "a", "ab", "b", "é"] := by decide
example : next ["a", "c", "e"] "c" = some "e" ∧ next ["a", "c", "e"] "d" = some "e" ∧
    next ["a", "c", "e"] "e" = none ∧ prev ["a", "c", "e"] "c" = some "a" ∧
    prev ["a", "c", "e"] "d" = some "c" ∧ prev ["a", "c", "e"] "a" = none := by decide
example : iterBack (fun i => if i = 0 then ["c", "b"] else []) 9 ["a", "b", "c", "d"] =
    ["d", "a"] := by decide
example : iterBack (fun i => if i = 1 then ["c", "b"] else []) 9 ["a", "b", "c", "d"] =
    ["d", "c", "a"] := by decide
/-- a and b discovered; a second later a is seen again in another group; expiry at age 0
drops b and its memberships, and with it group g and location m -/
example :
    let s := run [.discover [("a", "g", "l"), ("b", "g", "m")], .advance 1,
                  .discover [("a", "h", "l")], .expire 0]
    s.names = ["a"] ∧ s.groups = [("h", ["a"])] ∧ s.locations = [("l", ["a"])] ∧
      getLight s "b" = none ∧ getGroupLights s "g" = none := by decide
example : (run [.discover [("b", "g", "l"), ("a", "g", "l")]]).groups = [("g", ["a", "b"])] := by
  decide
/-- the checker does reject inconsistent states: a stale membership, an emptied group -/
example : invB ⟨0, [("a", ⟨"g", "l", 0⟩)], ["a"], [("g", ["a"]), ("h", ["a"])], [("l", ["a"])], 0, 0⟩
    = false := by decide
example : invB ⟨0, [("a", ⟨"g", "l", 0⟩)], ["a"], [("g", ["a"]), ("h", [])], [("l", ["a"])], 0, 0⟩
    = false := by decide
example : invB ⟨0, [("a", ⟨"g", "l", 0⟩)], ["a"], [("g", ["a"])], [("l", ["a"])], 0, 0⟩ = true := by
  decide

end Bardolph.LS
