import Bardolph.Model.Wf
/-!
# C05 — on every path, compiled control transfers stay in the script and frames balance
(theorems follow; see below)
-/
namespace Bardolph
end Bardolph
