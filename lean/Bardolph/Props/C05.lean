import Bardolph.Model.Wf
import Bardolph.Proofs.Ctl
import Bardolph.Proofs.WfCert
/-!
# C05 — on every path, compiled control transfers stay in the script and frames balance

`Wf.wfImage` is a static checker of compiled images.  This file proves that it is *sound* for
the VM model: when `wfImage img = true`, every state the VM model can reach from its initial
state — whatever the data, the lights, the outcomes of the conditions — satisfies `Inv img`:

* the frame stack has exactly the shape the checker computed for the current program point:
  the `loop`/`pend` markers of the abstract state at `pc`, then nothing (main code) or a call
  frame whose return address is the `END_CTX` right after a `JSR` of this routine in the
  caller's segment, and so on recursively for the caller (`CtlInv`, `Base`);
* the status is never a control fault;
* a halted machine stopped at the end of the code with an empty frame stack.

Corollaries: `C05_pc_in_range`, `C05_no_control_fault`, `C05_halts_balanced`,
`C05_routine_only_by_call`.  The checker itself is run on the images the real parser and
loader produce by the harness (`check C05`).
-/
namespace Bardolph
namespace C05
open Vm Wf Ctl

/-! ## The invariant -/

def kshape : Kind → FShape
  | .loop => .loop
  | .pend => .pend

/-- the frames an abstract state stands for -/
def marks (a : Abs) : List FShape := a.frames.map kshape

/-- `pc` is a point of segment `g` and the checker's abstract state there is `a` -/
structure At (g : Seg) (pc : Nat) (a : Abs) : Prop where
  lo : g.lo ≤ pc
  hi : pc ≤ g.hi
  abs : g.abs[pc - g.lo]? = some a

/-- what lies below the markers of the current activation when control is in segment `g`:
nothing when `g` is the main segment; when `g` is a routine body, a call frame returning to
`j + 1`, where `j` is a `JSR` to this very routine inside some segment `g'`, followed by
`END_CTX`, and below it the frames of a control state that is legal at `j + 1` in `g'` -/
inductive Base (img : Image) (C : CertData) : Seg → List FShape → Prop
  | main {g : Seg} : g ∈ C.segs → g.inRoutine = false → Base img C g []
  | call {g g' : Seg} {j : Nat} {name : String} {a' : Abs} {base' : List FShape} :
      g ∈ C.segs → g.inRoutine = true → g' ∈ C.segs → g'.lo ≤ j → At g' (j + 1) a' →
      img.code[j]? = some (.jsr name) → img.code[j + 1]? = some .endCtx →
      img.routine? name = some g.lo → Base img C g' base' →
      Base img C g (.call (j + 1) :: (marks a' ++ base'))

/-- the control state `(pc, frame shapes)` is one the checker foresaw -/
def CtlInv (img : Image) (C : CertData) (pc : Int) (sh : List FShape) : Prop :=
  (img.routines ≠ [] ∧ pc = 0 ∧ sh = []) ∨
  ∃ (g : Seg) (n : Nat) (a : Abs) (base : List FShape), g ∈ C.segs ∧ pc = (n : Int) ∧ At g n a ∧ Base img C g base ∧
    sh = marks a ++ base

structure InvC (img : Image) (C : CertData) (s : State) : Prop where
  ctl : CtlInv img C s.pc (shapes s)
  noCtl : ∀ w, s.status = .fault w → ctlFault w = false
  halted : s.status = .halted → s.stack = [] ∧ s.pc = img.code.size

/-- the invariant of checked images -/
def Inv (img : Image) (s : State) : Prop := InvC img (certOf img) s

/-! ## Preservation -/

section
variable {img : Image} {C : CertData}

theorem Base.of_main {g : Seg} {base : List FShape} (h : Base img C g base)
    (hm : g.inRoutine = false) : base = [] := by
  cases h with
  | main => rfl
  | call _ hr => rw [hm] at hr; cases hr

theorem Base.of_routine {g : Seg} {base : List FShape} (h : Base img C g base)
    (hm : g.inRoutine = true) :
    ∃ g' j name a' base', g' ∈ C.segs ∧ g'.lo ≤ j ∧ At g' (j + 1) a' ∧
      img.code[j]? = some (.jsr name) ∧ img.code[j + 1]? = some .endCtx ∧
      img.routine? name = some g.lo ∧ Base img C g' base' ∧
      base = .call (j + 1) :: (marks a' ++ base') := by
  cases h with
  | main _ hr => rw [hm] at hr; cases hr
  | call _ _ h1 h2 h3 h4 h5 h6 h7 => exact ⟨_, _, _, _, _, h1, h2, h3, h4, h5, h6, h7, rfl⟩

theorem CtlInv.seg {g : Seg} {n : Nat} {a : Abs} {base : List FShape} {pc : Int}
    {sh : List FShape} (hg : g ∈ C.segs) (hat : At g n a) (hb : Base img C g base)
    (hpc : pc = (n : Int)) (hsh : sh = marks a ++ base) : CtlInv img C pc sh :=
  .inr ⟨g, n, a, base, hg, hpc, hat, hb, hsh⟩

/-- an outcome whose running alternative is a foreseen control state keeps the invariant -/
theorem InvC.of_outcome {s s' : State} {pc' : Int} {sh' : List FShape} (h : InvC img C s)
    (ho : Outcome s s' pc' sh') (hc : CtlInv img C pc' sh') : InvC img C s' := by
  rcases ho with ⟨h1, h2, h3⟩ | ⟨h1, h2, h3, h4⟩
  · refine ⟨by rw [h2, h3]; exact hc, ?_, ?_⟩
    · intro w hw; rw [h1] at hw; cases hw
    · intro hh; rw [h1] at hh; cases hh
  · refine ⟨by rw [h3, h4]; exact h.ctl, ?_, ?_⟩
    · intro w hw; rw [hw] at h2; simpa [dataStatus] using h2
    · intro hh; rw [hh] at h2; simp [dataStatus] at h2

/-- a data instruction passes `transfer` without touching the frame markers -/
theorem transfer_data {inR : Bool} {known : List String} {next : Option Instr} {a a1 : Abs}
    {i : Instr} (hd : isCtl i = false) (h : transfer inR known next a i = some a1) :
    a1.frames = a.frames := by
  cases i <;> simp [isCtl] at hd <;> simp [transfer] at h <;> try (rw [← h])
  all_goals (obtain ⟨_, rfl⟩ := h; rfl)

theorem marks_loop_all {a : Abs} (h : a.frames.contains Kind.pend = false) :
    ∀ x ∈ marks a, x = FShape.loop := by
  intro x hx
  simp only [marks, List.mem_map] at hx
  obtain ⟨k, hk, rfl⟩ := hx
  cases k with
  | loop => rfl
  | pend => simp at h; exact absurd hk h

/-- the `END_CTX` after a `JSR` is not the last point of its segment -/
theorem ret_lt_hi (hC : CertOk img C) {g' : Seg} {j : Nat} {a' : Abs} (hg' : g' ∈ C.segs)
    (hat : At g' (j + 1) a') (hend : img.code[j + 1]? = some .endCtx) : j + 1 < g'.hi := by
  have hok := hC.segs g' hg'
  rcases Nat.lt_or_ge (j + 1) g'.hi with h | h
  · exact h
  · have he : j + 1 = g'.hi := Nat.le_antisymm hat.hi h
    cases hr : g'.inRoutine with
    | false =>
      have := (hok.main hr).2
      rw [he, this] at hend
      simp at hend
    | true =>
      have := (hok.rout hr).2.2.1
      rw [he, this] at hend
      cases hend

/-- returning through `RETURN`: control continues after the `END_CTX` -/
theorem ctl_after_ret (hC : CertOk img C) {g' : Seg} {j : Nat} {a' : Abs}
    {base' : List FShape} (hg' : g' ∈ C.segs) (hat : At g' (j + 1) a')
    (hend : img.code[j + 1]? = some .endCtx) (hb : Base img C g' base') :
    CtlInv img C (((j + 1 : Nat) : Int) + 1) (marks a' ++ base') := by
  have hok := hC.segs g' hg'
  have hlt := ret_lt_hi hC hg' hat hend
  obtain ⟨i, a0, a1, hci, ha0, ha1, htr⟩ := hok.point hat.lo hlt
  rw [hend] at hci
  cases hci
  rw [hat.abs] at ha0
  cases ha0
  simp only [transfer] at htr
  cases htr
  have := hat.lo
  exact CtlInv.seg hg' ⟨by omega, by omega, ha1⟩ hb (by omega) rfl

/-- one step from a point strictly inside a segment -/
theorem InvC.step_inner (hC : CertOk img C) {s : State} (h : InvC img C s)
    (hst : s.status = .running) {g : Seg} {n : Nat} {a : Abs} {base : List FShape}
    (hg : g ∈ C.segs) (hat : At g n a) (hb : Base img C g base) (hpc : s.pc = (n : Int))
    (hsh : shapes s = marks a ++ base) (hlt : n < g.hi) : InvC img C (step img s) := by
  have hok := hC.segs g hg
  obtain ⟨i, a0, a1, hci, ha0, ha1, htr⟩ := hok.point hat.lo hlt
  rw [hat.abs] at ha0
  cases ha0
  have hpc0 : 0 ≤ s.pc := by omega
  have hcode : img.code[s.pc.toNat]? = some i := by rw [hpc]; simpa using hci
  have hlo := hat.lo
  have hat1 : At g (n + 1) a1 := ⟨by omega, by omega, ha1⟩
  have hpc1 : s.pc + 1 = ((n + 1 : Nat) : Int) := by omega
  by_cases hd : isCtl i = false
  · -- data
    have hf := transfer_data hd htr
    refine h.of_outcome (step_data hst hpc0 hcode hd) (CtlInv.seg hg hat1 hb hpc1 ?_)
    rw [hsh, marks, marks, hf]
  cases i <;> (try (simp [isCtl] at hd; done)) <;> clear hd
  case jump c off =>
    have hind : c ≠ .indirect := by
      rintro rfl; simp [transfer] at htr
    have ha1' : a1 = a := by
      cases c <;> simp [transfer] at htr <;> first | exact htr.symm | exact absurd rfl hind
    subst ha1'
    obtain ⟨t, ht, ht1, ht2, ht3⟩ := hok.jump hat.lo hlt hci
    rcases step_jump hst hpc0 hcode hind with ho | ⟨_, ho⟩
    · exact h.of_outcome ho (CtlInv.seg hg ⟨ht1, ht2, ht3.trans hat.abs⟩ hb (by omega) hsh)
    · exact h.of_outcome ho (CtlInv.seg hg hat1 hb hpc1 hsh)
  case loop =>
    simp only [transfer, Option.some.injEq] at htr
    subst htr
    refine h.of_outcome (step_loop hst hpc0 hcode) (CtlInv.seg hg hat1 hb hpc1 ?_)
    simp [hsh, marks, kshape]
  case endLoop =>
    simp only [transfer] at htr
    split at htr
    · rename_i rest hfr
      cases htr
      have hsh' : shapes s = .loop :: (rest.map kshape ++ base) := by
        simp [hsh, marks, hfr, kshape]
      exact h.of_outcome (step_endLoop hst hpc0 hcode hsh') (CtlInv.seg hg hat1 hb hpc1 rfl)
    · cases htr
  case ctx =>
    simp only [transfer, Option.some.injEq] at htr
    subst htr
    refine h.of_outcome (step_ctx hst hpc0 hcode) (CtlInv.seg hg hat1 hb hpc1 ?_)
    simp [hsh, marks, kshape]
  case param nm src =>
    simp only [transfer] at htr
    split at htr
    · rename_i rest hfr
      cases htr
      have hsh' : shapes s = .pend :: (rest.map kshape ++ base) := by
        simp [hsh, marks, hfr, kshape]
      exact h.of_outcome (step_param hst hpc0 hcode hsh') (CtlInv.seg hg hat1 hb hpc1 hsh)
    · cases htr
  case jsr name =>
    simp only [transfer] at htr
    split at htr
    · rename_i rest hfr hnext
      split at htr
      · rename_i hknown
        cases htr
        have hsh' : shapes s = .pend :: (rest.map kshape ++ base) := by
          simp [hsh, marks, hfr, kshape]
        cases hu : img.routine? name with
        | some addr =>
          obtain ⟨g2, hg2, hr2, hlo2⟩ := hC.user name addr hu
          have hok2 := hC.segs g2 hg2
          have hat2 : At g2 addr Abs.empty :=
            ⟨by omega, by have := hok2.le; omega, by rw [← hlo2]; simpa using hok2.first⟩
          have hret : (s.pc + 1).toNat = n + 1 := by omega
          refine h.of_outcome (step_jsr_user hst hpc0 hcode hsh' hu)
            (CtlInv.seg hg2 hat2
              (Base.call hg2 hr2 hg hat.lo hat1 hci hnext (hlo2 ▸ hu) hb) rfl ?_)
          simp [hret, marks, Abs.empty]
        | none =>
          have hbi := hC.builtin name (by simpa [List.contains_iff_mem] using hknown) hu
          exact h.of_outcome (step_jsr_builtin hst hpc0 hcode hsh' hu hbi)
            (CtlInv.seg hg hat1 hb hpc1 rfl)
      · cases htr
    · cases htr
  case ret =>
    simp only [transfer] at htr
    split at htr
    · rename_i hcond
      cases htr
      simp only [Bool.and_eq_true, Bool.not_eq_true'] at hcond
      obtain ⟨g', j, name, a', base', hg', _, hat', _, hend, _, hb', rfl⟩ := hb.of_routine hcond.1
      exact h.of_outcome (step_ret hst hpc0 hcode (marks_loop_all hcond.2) hsh)
        (ctl_after_ret hC hg' hat' hend hb')
    · cases htr
  case endMatrix =>
    simp only [transfer] at htr
    split at htr
    · cases htr
      exact h.of_outcome (step_endMatrix hst hpc0 hcode) (CtlInv.seg hg hat1 hb hpc1 hsh)
    · cases htr
  all_goals (simp [transfer] at htr)

/-- one step from the end point of a segment: the main code halts with an empty frame stack,
a routine returns to its caller -/
theorem InvC.step_end (hC : CertOk img C) {s : State} (h : InvC img C s)
    (hst : s.status = .running) {g : Seg} {a : Abs} {base : List FShape}
    (hg : g ∈ C.segs) (hat : At g g.hi a) (hb : Base img C g base) (hpc : s.pc = (g.hi : Int))
    (hsh : shapes s = marks a ++ base) : InvC img C (step img s) := by
  have hok := hC.segs g hg
  have ha : a = Abs.empty := by
    have := hok.lastAbs; rw [hat.abs] at this; injection this
  subst ha
  have hpc0 : 0 ≤ s.pc := by omega
  cases hr : g.inRoutine with
  | false =>
    have hsize := (hok.main hr).2
    have hnone : img.code[s.pc.toNat]? = none := by rw [hpc, hsize]; simp
    have hbase := hb.of_main hr
    subst hbase
    have hstack : s.stack = [] := by simpa [shapes, marks, Abs.empty] using hsh
    rw [step_halts hst hpc0 hnone]
    refine ⟨h.ctl, ?_, ?_⟩
    · intro w hw; cases hw
    · intro _; exact ⟨hstack, by rw [hpc, hsize]⟩
  | true =>
    have hcode : img.code[s.pc.toNat]? = some (.end_ g.name) := by
      rw [hpc]; simpa using (hok.rout hr).2.2.1
    obtain ⟨g', j, name, a', base', hg', _, hat', _, _, _, hb', rfl⟩ := hb.of_routine hr
    have hsh' : shapes s = [] ++ .call (j + 1) :: (marks a' ++ base') := by
      simpa [marks, Abs.empty] using hsh
    exact h.of_outcome (Ctl.step_end hst hpc0 hcode (by simp) hsh')
      (CtlInv.seg hg' hat' hb' rfl rfl)

/-- the first step of an image with routines: `JUMP` to the main code -/
theorem InvC.step_start (hC : CertOk img C) {s : State} (h : InvC img C s)
    (hst : s.status = .running) (hr : img.routines ≠ []) (hpc : s.pc = 0)
    (hsh : shapes s = []) : InvC img C (step img s) := by
  rcases hC.prologue with ⟨h0, _⟩ | ⟨_, hc0, h1⟩
  · exact absurd h0 hr
  · obtain ⟨g, hg, hgm⟩ := hC.mainSeg
    have hok := hC.segs g hg
    have hlo := (hok.main hgm).1
    have hcode : img.code[s.pc.toNat]? = some (.jump .always C.mainLo) := by
      rw [hpc]; simpa using hc0
    have hat : At g C.mainLo Abs.empty :=
      ⟨by omega, by have := hok.le; omega, by rw [← hlo]; simpa using hok.first⟩
    rcases step_jump hst (by omega) hcode (by simp) with ho | ⟨hne, _⟩
    · exact h.of_outcome ho (CtlInv.seg hg hat (Base.main hg hgm) (by omega)
        (by simp [hsh, marks, Abs.empty]))
    · exact absurd rfl hne

/-- **preservation**: a step of the VM model keeps the invariant -/
theorem InvC.step (hC : CertOk img C) {s : State} (h : InvC img C s) : InvC img C (step img s) := by
  by_cases hst : s.status = .running
  · rcases h.ctl with ⟨hr, hpc, hsh⟩ | ⟨g, n, a, base, hg, hpc, hat, hb, hsh⟩
    · exact h.step_start hC hst hr hpc hsh
    · rcases Nat.lt_or_ge n g.hi with hlt | hge
      · exact h.step_inner hC hst hg hat hb hpc hsh hlt
      · have he : n = g.hi := Nat.le_antisymm hat.hi hge
        subst he
        exact h.step_end hC hst hg hat hb hpc hsh
  · have : Vm.step img s = s := by unfold Vm.step; simp [hst]
    rw [this]; exact h

theorem InvC.run (hC : CertOk img C) (fuel : Nat) {s : State} (h : InvC img C s) :
    InvC img C (run img fuel s) := by
  induction fuel generalizing s with
  | zero => exact h
  | succ n ih =>
    unfold Vm.run
    split
    · exact h
    · exact ih (h.step hC)

/-- the initial state satisfies the invariant -/
theorem InvC.init (hC : CertOk img C) (lights : List Light) : InvC img C (Vm.init lights) := by
  refine ⟨?_, ?_, ?_⟩
  · rcases hC.prologue with ⟨_, hm⟩ | ⟨hr, _, _⟩
    · obtain ⟨g, hg, hgm⟩ := hC.mainSeg
      have hok := hC.segs g hg
      have hlo := (hok.main hgm).1
      have hat : At g 0 Abs.empty :=
        ⟨by omega, Nat.zero_le _, by simpa using hok.first⟩
      exact CtlInv.seg hg hat (Base.main hg hgm) rfl rfl
    · exact .inl ⟨hr, rfl, rfl⟩
  · intro w hw; cases hw
  · intro hh; cases hh

end

/-! ## Soundness of the checker -/

/-- states the VM model can reach from its initial state by iterating `Vm.step` -/
inductive Reach (img : Image) (lights : List Light) : State → Prop
  | init : Reach img lights (Vm.init lights)
  | step {s : State} : Reach img lights s → Reach img lights (Vm.step img s)

theorem reach_run (img : Image) (lights : List Light) (fuel : Nat) :
    Reach img lights (run img fuel (Vm.init lights)) := by
  suffices ∀ s, Reach img lights s → Reach img lights (run img fuel s) from this _ .init
  induction fuel with
  | zero => intro s h; exact h
  | succ n ih =>
    intro s h
    unfold Vm.run
    split
    · exact h
    · exact ih _ h.step

/-- **C05, soundness of `wfImage`**: every reachable state of a checked image satisfies the
invariant -/
theorem C05_wf_sound_reach {img : Image} (hwf : wfImage img = true) {lights : List Light}
    {s : State} (hr : Reach img lights s) : Inv img s := by
  have hC := cert_ok hwf
  induction hr with
  | init => exact InvC.init hC lights
  | step _ ih => exact ih.step hC

/-- **C05, soundness of `wfImage`**, in terms of `Vm.run`: for all amounts of fuel and all
sets of lights -/
theorem C05_wf_sound {img : Image} (hwf : wfImage img = true) (fuel : Nat)
    (lights : List Light) : Inv img (run img fuel (Vm.init lights)) :=
  C05_wf_sound_reach hwf (reach_run img lights fuel)

/-! ## What the invariant gives -/

theorem Inv.pc_in_range {img : Image} (hwf : wfImage img = true) {s : State} (h : Inv img s) :
    0 ≤ s.pc ∧ s.pc ≤ img.code.size := by
  have hC := cert_ok hwf
  rcases h.ctl with ⟨_, hpc, _⟩ | ⟨g, n, a, base, hg, hpc, hat, _, _⟩
  · rw [hpc]; omega
  · have hok := hC.segs g hg
    have hhi := hat.hi
    have hml := hC.mainLe
    cases hr : g.inRoutine with
    | false => have := (hok.main hr).2; omega
    | true => have := (hok.rout hr).2.2.2; omega

/-- control never leaves the program -/
theorem C05_pc_in_range {img : Image} (hwf : wfImage img = true) (fuel : Nat)
    (lights : List Light) :
    0 ≤ (run img fuel (Vm.init lights)).pc ∧
      (run img fuel (Vm.init lights)).pc ≤ img.code.size :=
  (C05_wf_sound hwf fuel lights).pc_in_range hwf

/-- no execution ends in a control fault -/
theorem C05_no_control_fault {img : Image} (hwf : wfImage img = true) (fuel : Nat)
    (lights : List Light) :
    let st := (run img fuel (Vm.init lights)).status
    st ≠ .fault "pc negative" ∧ st ≠ .fault "END_LOOP without loop frame" ∧
    st ≠ .fault "return outside a routine" ∧ st ≠ .fault "JSR without CTX" ∧
    st ≠ .fault "PARAM without CTX" ∧ st ≠ .fault "ROUTINE executed" ∧
    st ≠ .fault "indirect jump" ∧ (∀ n, st ≠ .fault ("unknown routine " ++ n)) ∧
    (∀ w, st ≠ .fault ("bad instruction " ++ w)) := by
  have h := (C05_wf_sound hwf fuel lights).noCtl
  have key : ∀ w, ctlFault w = true → (run img fuel (Vm.init lights)).status ≠ .fault w := by
    intro w hw he
    rw [h w he] at hw
    cases hw
  exact ⟨key _ (by decide), key _ (by decide), key _ (by decide), key _ (by decide),
    key _ (by decide), key _ (by decide), key _ (by decide),
    fun n => key _ (ctlFault_unknown n), fun w => key _ (ctlFault_bad w)⟩

/-- a machine that halts has run off the end of the code with nothing left on the frame stack:
every loop and call that was entered has been left -/
theorem C05_halts_balanced {img : Image} (hwf : wfImage img = true) (fuel : Nat)
    (lights : List Light) (hh : (run img fuel (Vm.init lights)).status = .halted) :
    (run img fuel (Vm.init lights)).stack = [] ∧
      (run img fuel (Vm.init lights)).pc = img.code.size :=
  (C05_wf_sound hwf fuel lights).halted hh

/-- while the main code executes, the frame stack is exactly what the checker computed for
that program point: `loop`/`pend` markers only, no call frame -/
theorem Inv.main_frames {img : Image} (hwf : wfImage img = true) {s : State} (h : Inv img s)
    (hm : (mainStart img : Int) ≤ s.pc) :
    ∃ a, (mainSeg img).abs[s.pc.toNat - mainStart img]? = some a ∧ shapes s = marks a := by
  have hC := cert_ok hwf
  rcases h.ctl with ⟨hne, hpc, _⟩ | ⟨g, n, a, base, hg, hpc, hat, hb, hsh⟩
  · rcases hC.prologue with ⟨h0, _⟩ | ⟨_, _, h1⟩
    · exact absurd h0 hne
    · simp only [certOf] at h1; omega
  · have hok := hC.segs g hg
    cases hr : g.inRoutine with
    | true =>
      have := (hok.rout hr).2.2.2
      have := hat.hi
      simp only [certOf] at *
      omega
    | false =>
      have hgm : g = mainSeg img := by
        simp only [certOf, List.mem_cons, List.mem_map] at hg
        rcases hg with rfl | ⟨sp, _, rfl⟩
        · rfl
        · simp [routineSeg] at hr
      subst hgm
      have hb0 := hb.of_main hr
      subst hb0
      refine ⟨a, ?_, by simpa using hsh⟩
      have := hat.abs
      rw [hpc]
      simpa [mainSeg] using this

theorem C05_main_frames {img : Image} (hwf : wfImage img = true) (fuel : Nat)
    (lights : List Light) (hm : (mainStart img : Int) ≤ (run img fuel (Vm.init lights)).pc) :
    ∃ a, (mainSeg img).abs[(run img fuel (Vm.init lights)).pc.toNat - mainStart img]? = some a ∧
      shapes (run img fuel (Vm.init lights)) = marks a :=
  (C05_wf_sound hwf fuel lights).main_frames hwf hm

/-- `pc` is inside a routine body, read off the code alone: some `ROUTINE` marker stands before
`pc` with no `END` strictly between the two -/
def InRoutineBody (img : Image) (pc : Int) : Prop :=
  ∃ (r : Nat) (name : String), img.code[r]? = some (.routine name) ∧ (r : Int) < pc ∧
    ∀ (q : Nat) (n : String), r < q → (q : Int) < pc → img.code[q]? ≠ some (.end_ n)

theorem call_mem_of_shapes {s : State} {ret : Nat} (h : FShape.call ret ∈ shapes s) :
    ∃ locals, Frame.call locals ret ∈ s.stack := by
  simp only [shapes, List.mem_map] at h
  obtain ⟨f, hf, hs⟩ := h
  cases f with
  | call locals r =>
    simp only [shapeOf, FShape.call.injEq] at hs
    subst hs
    exact ⟨locals, hf⟩
  | loop _ _ => cases hs
  | pending _ => cases hs

theorem Inv.routine_only_by_call {img : Image} (hwf : wfImage img = true) {s : State}
    (h : Inv img s) (hin : InRoutineBody img s.pc) :
    ∃ locals j name, Frame.call locals (j + 1) ∈ s.stack ∧
      img.code[j]? = some (.jsr name) ∧ img.code[j + 1]? = some .endCtx := by
  have hC := cert_ok hwf
  obtain ⟨r, rname, hrc, hrlt, hnoend⟩ := hin
  rcases h.ctl with ⟨_, hpc, _⟩ | ⟨g, n, a, base, hg, hpc, hat, hb, hsh⟩
  · omega
  · have hok := hC.segs g hg
    cases hr : g.inRoutine with
    | true =>
      obtain ⟨g', j, name, a', base', _, _, _, hj, hend, _, _, rfl⟩ := hb.of_routine hr
      obtain ⟨locals, hm⟩ := call_mem_of_shapes (s := s) (ret := j + 1) (by simp [hsh])
      exact ⟨locals, j, name, hm, hj, hend⟩
    | false =>
      exfalso
      obtain ⟨hlo, hhi⟩ := hok.main hr
      have hnlo := hat.lo
      have hnhi := hat.hi
      rcases Nat.lt_or_ge r (certOf img).mainLo with hlt | hge
      · -- the marker is in the routine area: an `END` follows before the main code
        rcases hC.prologue with ⟨_, hm0⟩ | ⟨_, hc0, _⟩
        · omega
        · have hr1 : 1 ≤ r := by
            rcases Nat.eq_zero_or_pos r with rfl | hp
            · rw [hc0] at hrc; cases hrc
            · exact hp
          obtain ⟨q, qn, hq1, hq2, hq3⟩ := hC.endAfter r rname hr1 hlt hrc
          exact hnoend q qn hq1 (by omega) hq3
      · -- the marker would be an instruction of the main code: `transfer` rejects it
        obtain ⟨i, a0, a1, hci, _, _, htr⟩ := hok.point (pc := r) (by omega) (by omega)
        rw [hrc] at hci
        cases hci
        simp [transfer] at htr

/-- control is inside a routine body only by a call: whenever `pc` stands in a routine body,
the frame stack holds the frame of a call, whose return address is the `END_CTX` right after a
`JSR` -/
theorem C05_routine_only_by_call {img : Image} (hwf : wfImage img = true) (fuel : Nat)
    (lights : List Light) (hin : InRoutineBody img (run img fuel (Vm.init lights)).pc) :
    ∃ locals j name, Frame.call locals (j + 1) ∈ (run img fuel (Vm.init lights)).stack ∧
      img.code[j]? = some (.jsr name) ∧ img.code[j + 1]? = some .endCtx :=
  (C05_wf_sound hwf fuel lights).routine_only_by_call hwf hin

/-! ## The hypotheses are satisfiable -/

/-- ```
define f with x begin
  repeat begin  if … break;  …;  if … return  end
end
repeat … begin  f(1)  end
``` -/
def demo : Image :=
  { code := #[
      .jump .always 10,                      --  0  prologue: to the main code
      .routine "f",                          --  1
      .loop,                                 --  2
      .jump .ifTrue 5,                       --  3  break: to the END_LOOP at 8
      .moveq (.bool true) (.reg .result),    --  4
      .jump .ifFalse 2,                      --  5  skip the return
      .ret,                                  --  6  RETURN from inside the loop
      .jump .always (-4),                    --  7  back edge
      .endLoop,                              --  8
      .end_ "f",                             --  9
      .loop,                                 -- 10  main code
      .ctx,                                  -- 11
      .param "x" (.lit (.int 1)),            -- 12
      .jsr "f",                              -- 13
      .endCtx,                               -- 14
      .jump .ifFalse (-4),                   -- 15  back edge
      .endLoop],                             -- 16
    routines := [("f", 2)] }

/-- the checker accepts it … -/
example : wfImage demo = true := by decide

/-- … it runs into the routine, inside its loop, under the call frame, inside main's loop … -/
example : (run demo 6 (Vm.init [])).pc = 3 ∧
    shapes (run demo 6 (Vm.init [])) = [.loop, .call 14, .loop] := by decide +kernel

/-- … and halts at the end of the code with an empty frame stack, as `C05_halts_balanced` says -/
example : (run demo 20 (Vm.init [])).status = .halted ∧ (run demo 20 (Vm.init [])).pc = 17 := by
  decide +kernel

example : InRoutineBody demo 3 := ⟨1, "f", rfl, by decide, by
  intro q n h1 h2
  have : q = 2 := by omega
  subst this
  simp [demo]⟩

/-- a break that leaves the routine body instead of its loop is rejected -/
example : wfImage { demo with code := demo.code.set! 3 (.jump .ifTrue 8) } = false := by decide

/-- a `RETURN` in the main code is rejected -/
example : wfImage { demo with code := demo.code.set! 14 .ret } = false := by decide

/-- a routine table that points into the middle of a body is rejected -/
example : wfImage { demo with routines := [("f", 3)] } = false := by decide

/-- a call of a routine that does not exist is rejected -/
example : wfImage { demo with code := demo.code.set! 13 (.jsr "g") } = false := by decide

/-- an unbalanced `END_LOOP` is rejected — and the model VM does fault on it -/
example : wfImage { code := #[.endLoop], routines := [] } = false ∧
    (run { code := #[.endLoop], routines := [] } 1 (Vm.init [])).status =
      .fault "END_LOOP without loop frame" := by decide +kernel

end C05
end Bardolph
