import Bardolph.Props.C17
/-!
# C17 — from attribute coverage to independence of history

`Props/C17.lean` proves, over attribute lists regenerated from the Python source, that every
state-carrying attribute of the long-lived objects is re-initialised.  This file says what that
buys, for a model that DOES have hidden state: an object is a store from attribute names to
values (of any type), a reset overwrites the covered attributes with fresh values and leaves
the others as the previous use left them, and a use of the object (a run, a compile) is ANY
function whose result depends only on the object's own attributes.

* `reset_history_free`: if every non-exempt attribute is covered, the result of a use after the
  reset is the same for any two histories (any two prior stores) that agree on the exempt
  attributes;
* `reset_gap_observable`: the coverage condition is necessary — for an attribute that is
  neither covered nor exempt there are two histories and a use whose results differ;
* `C17_machine_history_free`, `C17_vm_io_history_free`, `C17_vm_math_history_free`,
  `C17_parser_history_free`, `C17_context_history_free`: the instances for the regenerated
  lists of `Machine` (reset() ∪ what run() sets), `VmIo`, `VmMath`, `Parser`, `Context`.

What is left to the correspondence (`harness/c17.py`): that the exempt attributes really are the
same in every history (constant tables, shared services) and that a run or compile reads nothing
outside these objects (no module-level state) — both are checked by comparing used objects with
fresh ones on every run.
-/
namespace Bardolph.C17
open Bardolph.Generated.ResetCoverage

/-- an object with hidden state: attribute name ↦ value -/
abbrev Obj (α : Type) := String → α

/-- a reset method that re-initialises exactly the `covered` attributes -/
def resetWith {α : Type} (covered : List String) (fresh : Obj α) (o : Obj α) : Obj α :=
  fun a => if a ∈ covered then fresh a else o a

def AgreeOn {α : Type} (attrs : List String) (o o' : Obj α) : Prop := ∀ a ∈ attrs, o a = o' a

/-- the result of `f` depends only on the listed attributes -/
def DependsOnly {α β : Type} (attrs : List String) (f : Obj α → β) : Prop :=
  ∀ o o', AgreeOn attrs o o' → f o = f o'

/-- after the reset two histories agree on every attribute of the object -/
theorem reset_agree {α : Type} (attrs exempt covered : List String) (fresh : Obj α)
    (hcov : ∀ a ∈ attrs, a ∉ exempt → a ∈ covered)
    (o o' : Obj α) (hex : AgreeOn exempt o o') :
    AgreeOn attrs (resetWith covered fresh o) (resetWith covered fresh o') := by
  intro a ha
  unfold resetWith
  by_cases hc : a ∈ covered
  · simp [hc]
  · simp only [hc, if_false]
    by_cases he : a ∈ exempt
    · exact hex a he
    · exact absurd (hcov a ha he) hc

/-- **run_history_free / parse_history_free (semantic form).**  With full coverage, any use of the
object after a reset gives the same result whatever was done with the object before. -/
theorem reset_history_free {α β : Type} (attrs exempt covered : List String) (fresh : Obj α)
    (hcov : ∀ a ∈ attrs, a ∉ exempt → a ∈ covered)
    (f : Obj α → β) (hf : DependsOnly attrs f)
    (o o' : Obj α) (hex : AgreeOn exempt o o') :
    f (resetWith covered fresh o) = f (resetWith covered fresh o') :=
  hf _ _ (reset_agree attrs exempt covered fresh hcov o o' hex)

/-- coverage is necessary: an attribute that the reset leaves out (and that is not exempt) lets a
use of the object see the previous history. -/
theorem reset_gap_observable (attrs covered : List String) (a : String)
    (ha : a ∈ attrs) (hc : a ∉ covered) :
    ∃ (f : Obj Nat → Nat) (o o' : Obj Nat), DependsOnly attrs f ∧
      (∀ b, b ≠ a → o b = o' b) ∧
      f (resetWith covered (fun _ => 0) o) ≠ f (resetWith covered (fun _ => 0) o') := by
  refine ⟨fun o => o a, fun _ => 0, fun b => if b = a then 1 else 0, ?_, ?_, ?_⟩
  · intro o o' h; exact h a ha
  · intro b hb; simp [hb]
  · simp [resetWith, hc]

/-! ### instances for the regenerated attribute lists -/

/-- `Machine`: whatever ran before, a run after `reset()` (+ what `run()` sets itself) gives the same
result, for every behaviour that reads only the machine's attributes. -/
theorem C17_machine_history_free {α β : Type} (fresh : Obj α) (f : Obj α → β)
    (hf : DependsOnly machineAttrs f) (o o' : Obj α) (hex : AgreeOn machineExempt o o') :
    f (resetWith (machineReset ++ machineRunSets) fresh o) =
      f (resetWith (machineReset ++ machineRunSets) fresh o') :=
  reset_history_free machineAttrs machineExempt _ fresh
    (fun a ha he => List.mem_append.mpr (C17_machine_reset_covers_state a ha he)) f hf o o' hex

theorem C17_vm_io_history_free {α β : Type} (fresh : Obj α) (f : Obj α → β)
    (hf : DependsOnly vmIoAttrs f) (o o' : Obj α) (hex : AgreeOn refAttrs o o') :
    f (resetWith vmIoReset fresh o) = f (resetWith vmIoReset fresh o') :=
  reset_history_free vmIoAttrs refAttrs _ fresh C17_subobjects_reset.2.1 f hf o o' hex

theorem C17_vm_math_history_free {α β : Type} (fresh : Obj α) (f : Obj α → β)
    (hf : DependsOnly vmMathAttrs f) (o o' : Obj α) (hex : AgreeOn refAttrs o o') :
    f (resetWith vmMathReset fresh o) = f (resetWith vmMathReset fresh o') :=
  reset_history_free vmMathAttrs refAttrs _ fresh C17_subobjects_reset.2.2.1 f hf o o' hex

/-- `Parser`: whatever was compiled before (accepted, rejected or cut short), a compile gives the
same result, for every behaviour that reads only the parser's attributes. -/
theorem C17_parser_history_free {α β : Type} (fresh : Obj α) (f : Obj α → β)
    (hf : DependsOnly parserAttrs f) (o o' : Obj α) (hex : AgreeOn parserExempt o o') :
    f (resetWith parserParseResets fresh o) = f (resetWith parserParseResets fresh o') :=
  reset_history_free parserAttrs parserExempt _ fresh C17_parse_resets_state.1 f hf o o' hex

/-- `Context`: the attributes that are used anywhere are all cleared (no exemptions). -/
theorem C17_context_history_free {α β : Type} (fresh : Obj α) (f : Obj α → β)
    (hf : DependsOnly contextUsed f) (o o' : Obj α) :
    f (resetWith contextClear fresh o) = f (resetWith contextClear fresh o') :=
  reset_history_free contextUsed [] _ fresh
    (fun a ha _ => C17_parse_resets_state.2.1 a (by revert a; decide) ha) f hf o o'
    (fun _ h => by cases h)

/-- the defects repaired for this property, as instances of `reset_gap_observable`: were
`_unnamed` (`VmIo`), `_in_matrix` (`Context`) or `_current_token` (`Parser`) dropped from the
reset again, some run or compile would show the previous history. -/
theorem C17_unnamed_must_be_reset :
    ∃ (f : Obj Nat → Nat) (o o' : Obj Nat), DependsOnly vmIoAttrs f ∧
      (∀ b, b ≠ "_unnamed" → o b = o' b) ∧
      f (resetWith [] (fun _ => 0) o) ≠ f (resetWith [] (fun _ => 0) o') :=
  reset_gap_observable vmIoAttrs [] "_unnamed" (by decide) (by decide)

theorem C17_current_token_must_be_reset :
    ∃ (f : Obj Nat → Nat) (o o' : Obj Nat), DependsOnly parserAttrs f ∧
      (∀ b, b ≠ "_current_token" → o b = o' b) ∧
      f (resetWith (parserParseResets.erase "_current_token") (fun _ => 0) o) ≠
        f (resetWith (parserParseResets.erase "_current_token") (fun _ => 0) o') :=
  reset_gap_observable parserAttrs _ "_current_token" (by decide) (by decide)

/-- non-vacuity: two machine histories that differ in a covered attribute and agree on the exempt
ones, and a behaviour that reads that attribute -/
example : (fun (o : Obj Nat) => o "_globals")
      (resetWith (machineReset ++ machineRunSets) (fun _ => 0) (fun _ => 7)) =
    (fun (o : Obj Nat) => o "_globals")
      (resetWith (machineReset ++ machineRunSets) (fun _ => 0)
        (fun a => if a = "_globals" then 9 else 7)) :=
  C17_machine_history_free (fun _ => 0) _ (fun _ _ h => h "_globals" (by decide)) _ _
    (fun a ha => by
      have : a ≠ "_globals" := by rintro rfl; revert ha; decide
      simp [this])

end Bardolph.C17
