import Bardolph.Model.TimePattern
/-!
# C11 — time-of-day patterns match exactly the times they denote; alternatives mean OR

Property theorems about `Bardolph.TP` (the model of `time_pattern.py` and of the VM's
`TIME_PATTERN` instruction).  Every bound used below (`hours24`, `hourLoopEnd`,
`hourValidBound`, `hourTens`, … ) is the value *generated from the Python source*; a change
of `range(0, 60)` or of `int_hours < 24` in the source makes the corresponding `decide`
fail.

Specification side (written from the manual, independent of the set-expansion code):
`HForm`/`MForm` are the well-formed field shapes, `hourAgrees`/`minAgrees` say what it
means for a clock time to agree with a pattern at every non-wildcard position.
-/
namespace Bardolph.TP
open Bardolph.Generated.TimePattern

/-! ## Specification -/

/-- hour field shapes: `*`, `*d`, `d*`, `dd`, `d` -/
inductive HForm : List PC → Prop
  | star : HForm [.star]
  | starDig (d) : HForm [.star, .dig d]
  | digStar (d) : HForm [.dig d, .star]
  | digDig (d e) : HForm [.dig d, .dig e]
  | dig (d) : HForm [.dig d]

/-- minute field shapes: `dd`, `d*`, `*d`, `*` -/
inductive MForm : List PC → Prop
  | digDig (d e) : MForm [.dig d, .dig e]
  | digStar (d) : MForm [.dig d, .star]
  | starDig (d) : MForm [.star, .dig d]
  | star : MForm [.star]

/-- position `k` of the two-digit rendering of `n` agrees with pattern character `c` -/
def posAgrees (c : PC) (digit : Nat) : Bool :=
  match c with
  | .star => true
  | .dig d => d.val == digit

/-- the hour `h` agrees with the hour field at every non-wildcard position -/
def hourAgrees : List PC → Nat → Bool
  | [.star], _ => true
  | [.dig d], h => h == d.val
  | [a, b], h => posAgrees a (h / 10) && posAgrees b (h % 10)
  | _, _ => false

/-- the minute `m` (two digits) agrees with the minute field -/
def minAgrees : List PC → Nat → Bool
  | [.star], _ => true
  | [a, b], m => posAgrees a (m / 10) && posAgrees b (m % 10)
  | _, _ => false

/-- the text `s` is `H:M` followed by white space or the end -/
def WF (s : List T) (H M : List PC) : Prop :=
  ∃ rest, s = H.map embed ++ T.colon :: (M.map embed ++ rest) ∧ HForm H ∧ MForm M ∧
    lookOk rest = true

/-! ## The recogniser is the declarative syntax -/

theorem hourAlts_sound {s : List T} {h : List PC} {r : List T} :
    (h, r) ∈ hourAlts s → HForm h ∧ s = h.map embed ++ r := by
  intro hm
  unfold hourAlts at hm
  simp only [List.mem_append] at hm
  rcases hm with (((hm | hm) | hm) | hm) | hm <;> split at hm <;> simp at hm <;>
    obtain ⟨rfl, rfl⟩ := hm <;> simp [embed] <;> constructor

theorem hourAlts_complete {h : List PC} (r : List T) (hf : HForm h) :
    (h, r) ∈ hourAlts (h.map embed ++ r) := by
  cases hf <;> simp [hourAlts, embed]

theorem minAlts_sound {s : List T} {m : List PC} {r : List T} :
    (m, r) ∈ minAlts s → MForm m ∧ s = m.map embed ++ r := by
  intro hm
  unfold minAlts at hm
  simp only [List.mem_append] at hm
  rcases hm with ((hm | hm) | hm) | hm <;> split at hm <;> simp at hm <;>
    obtain ⟨rfl, rfl⟩ := hm <;> simp [embed] <;> constructor

theorem minAlts_complete {m : List PC} (r : List T) (hf : MForm m) :
    (m, r) ∈ minAlts (m.map embed ++ r) := by
  cases hf <;> simp [minAlts, embed]

/-- what the regular expression accepts is well-formed, with those two groups -/
theorem regexMatch_sound {s : List T} {H M : List PC} :
    regexMatch s = some (H, M) → WF s H M := by
  intro h
  unfold regexMatch at h
  obtain ⟨⟨h', r⟩, hmem, hr⟩ := List.exists_of_findSome?_eq_some h
  obtain ⟨hH, rfl⟩ := hourAlts_sound hmem
  simp only at hr
  match r, hr with
  | T.colon :: r', hr =>
    simp only at hr
    obtain ⟨⟨m', rest⟩, hmem', hr'⟩ := List.exists_of_findSome?_eq_some hr
    obtain ⟨hM, rfl⟩ := minAlts_sound hmem'
    simp only at hr'
    split at hr'
    · rename_i hl
      simp only [Option.some.injEq, Prod.mk.injEq] at hr'
      obtain ⟨rfl, rfl⟩ := hr'
      exact ⟨rest, rfl, hH, hM, hl⟩
    · simp at hr'
  | [], hr => simp at hr
  | T.star :: _, hr => simp at hr
  | T.dig _ :: _, hr => simp at hr
  | T.ws :: _, hr => simp at hr
  | T.other :: _, hr => simp at hr

/-- the split of a well-formed text into its two fields is unique -/
theorem WF_unique {s : List T} {H M H' M' : List PC} :
    WF s H M → WF s H' M' → H = H' ∧ M = M' := by
  rintro ⟨rest, rfl, hH, hM, hl⟩ ⟨rest', he, hH', hM', hl'⟩
  cases hH <;> cases hH' <;> simp [embed] at he <;>
    cases hM <;> cases hM' <;> simp [embed] at he <;> grind [lookOk]

/-- every well-formed text is accepted by the regular expression, with exactly its fields -/
theorem regexMatch_complete {s : List T} {H M : List PC} :
    WF s H M → regexMatch s = some (H, M) := by
  intro hwf
  have hsome : (regexMatch s).isSome = true := by
    obtain ⟨rest, rfl, hH, hM, hl⟩ := hwf
    unfold regexMatch
    rw [List.findSome?_isSome_iff]
    refine ⟨(H, T.colon :: (M.map embed ++ rest)), hourAlts_complete _ hH, ?_⟩
    simp only
    rw [List.findSome?_isSome_iff]
    exact ⟨(M, rest), minAlts_complete _ hM, by simp [hl]⟩
  obtain ⟨⟨H', M'⟩, heq⟩ := Option.isSome_iff_exists.mp hsome
  obtain ⟨rfl, rfl⟩ := WF_unique hwf (regexMatch_sound heq)
  exact heq

/-! ## Validity = "matches at least one time of day" (over the generated bounds) -/

theorem hoursValid_iff_star : hoursValid [.star] = true ∧ hourAgrees [.star] 0 = true := by
  decide

theorem hoursValid_iff {H : List PC} (hf : HForm H) :
    hoursValid H = true ↔ ∃ h, h < 24 ∧ hourAgrees H h = true := by
  cases hf with
  | star => exact ⟨fun _ => ⟨0, by decide, rfl⟩, fun _ => rfl⟩
  | starDig d => revert d; decide +kernel
  | digStar d => revert d; decide +kernel
  | digDig d e => revert d e; decide +kernel
  | dig d => revert d; decide +kernel

theorem minutesValid_iff {M : List PC} (hf : MForm M) :
    minutesValid M = true ↔ ∃ m, m < 60 ∧ minAgrees M m = true := by
  cases hf with
  | star => exact ⟨fun _ => ⟨0, by decide, rfl⟩, fun _ => rfl⟩
  | starDig d => revert d; decide +kernel
  | digStar d => revert d; decide +kernel
  | digDig d e => revert d e; decide +kernel

/-! ## Set expansion = agreement at every position -/

theorem hourSet_contains {H : List PC} (hf : HForm H) (h : Fin 24) :
    (hourSet H).contains h.val = hourAgrees H h.val := by
  cases hf with
  | star => revert h; decide +kernel
  | starDig d => revert d h; decide +kernel
  | digStar d => revert d h; decide +kernel
  | digDig d e => revert d e h; decide +kernel
  | dig d => revert d h; decide +kernel

theorem minuteSet_contains {M : List PC} (hf : MForm M) (m : Fin 60) :
    (minuteSet M).contains m.val = minAgrees M m.val := by
  cases hf with
  | star => revert m; decide +kernel
  | starDig d => revert d m; decide +kernel
  | digStar d => revert d m; decide +kernel
  | digDig d e => revert d e m; decide +kernel

/-! ## Property theorems -/

/-- **match_iff_positions.**  For every text the compiler's `from_string` accepts, the
resulting pattern matches a time of day `h:m` (any `h < 24`, `m < 60`) exactly when the
hour and the two-digit minute agree with the text's fields at every non-wildcard
position. -/
theorem C11_match_iff_positions (s : List T) (p : Pat) (hacc : fromTagged s = some p) :
    ∃ H M, WF s H M ∧ ∀ h m, h < 24 → m < 60 →
      (p.matches h m = true ↔ hourAgrees H h = true ∧ minAgrees M m = true) := by
  unfold fromTagged at hacc
  split at hacc
  · rename_i H M hre
    split at hacc
    · have hwf := regexMatch_sound hre
      obtain ⟨rest, hs, hH, hM, hl⟩ := hwf
      refine ⟨H, M, ⟨rest, hs, hH, hM, hl⟩, ?_⟩
      intro h m hh hm
      cases hacc
      have e1 := hourSet_contains hH ⟨h, hh⟩
      have e2 := minuteSet_contains hM ⟨m, hm⟩
      simp only at e1 e2
      have e1' : h ∈ hourSet H ↔ hourAgrees H h = true := by rw [← e1]; simp
      have e2' : m ∈ minuteSet M ↔ minAgrees M m = true := by rw [← e2]; simp
      simp [Pat.matches, Pat.ofFields, e1', e2']
    · simp at hacc
  · simp at hacc

/-- **invalid_rejected / accepted_nonempty.**  A text is accepted exactly when it is
well-formed (`H:M` then white space or end) and its hour field agrees with some hour
`< 24` and its minute field with some minute `< 60`.  In particular `24:00`, `12:60`,
`3*:00`, `1:6*` and everything malformed are rejected. -/
theorem C11_accept_iff (s : List T) :
    (fromTagged s).isSome = true ↔
      ∃ H M, WF s H M ∧ (∃ h, h < 24 ∧ hourAgrees H h = true) ∧
        (∃ m, m < 60 ∧ minAgrees M m = true) := by
  constructor
  · intro h
    unfold fromTagged at h
    split at h
    · rename_i H M hre
      have hwf := regexMatch_sound hre
      obtain ⟨rest, hs, hH, hM, hl⟩ := hwf
      split at h
      · rename_i hv
        simp only [Bool.and_eq_true] at hv
        exact ⟨H, M, ⟨rest, hs, hH, hM, hl⟩, (hoursValid_iff hH).mp hv.1,
          (minutesValid_iff hM).mp hv.2⟩
      · simp at h
    · simp at h
  · rintro ⟨H, M, hwf, hh, hm⟩
    have hre := regexMatch_complete hwf
    obtain ⟨rest, hs, hH, hM, hl⟩ := hwf
    unfold fromTagged
    rw [hre]
    simp only
    rw [(hoursValid_iff hH).mpr hh, (minutesValid_iff hM).mpr hm]
    simp

/-- **accepted_nonempty.**  Every accepted pattern matches at least one time of day. -/
theorem C11_accepted_nonempty (s : List T) (p : Pat) (hacc : fromTagged s = some p) :
    ∃ h m, h < 24 ∧ m < 60 ∧ p.matches h m = true := by
  obtain ⟨H, M, hwf, hiff⟩ := C11_match_iff_positions s p hacc
  have hsome : (fromTagged s).isSome = true := by simp [hacc]
  obtain ⟨H', M', hwf', ⟨h, hh, hha⟩, ⟨m, hm, hma⟩⟩ := (C11_accept_iff s).mp hsome
  obtain ⟨rfl, rfl⟩ := WF_unique hwf hwf'
  exact ⟨h, m, hh, hm, (hiff h m hh hm).mpr ⟨hha, hma⟩⟩

theorem matches_union (p q : Pat) (h m : Nat) :
    (p.union q).matches h m = (p.matches h m || q.matches h m) := by
  simp [Pat.union, Pat.matches, List.any_append]

/-- **or_is_or.**  `time at p₀ or p₁ or … or pₙ` (an `INIT` followed by `UNION`s) matches
a time exactly when at least one of the listed patterns matches it — no other
combination of their fields. -/
theorem C11_or_is_or (p : Pat) (ps : List Pat) (h m : Nat) :
    (ps.foldl Pat.union p).matches h m = true ↔
      p.matches h m = true ∨ ∃ q, q ∈ ps ∧ q.matches h m = true := by
  induction ps generalizing p with
  | nil => simp
  | cons q qs ih =>
    rw [List.foldl_cons, ih, matches_union]
    simp only [Bool.or_eq_true, List.mem_cons]
    constructor
    · rintro ((h1 | h1) | ⟨r, hr, hm⟩)
      · exact Or.inl h1
      · exact Or.inr ⟨q, Or.inl rfl, h1⟩
      · exact Or.inr ⟨r, Or.inr hr, hm⟩
    · rintro (h1 | ⟨r, rfl | hr, hm⟩)
      · exact Or.inl (Or.inl h1)
      · exact Or.inl (Or.inr hm)
      · exact Or.inr ⟨r, hr, hm⟩

/-! ### use_is_pure: executing TIME_PATTERN instructions never alters a program-owned pattern -/

/-- the `time` register, if it holds a pattern, points outside the first `n` heap cells -/
def TpState.Fresh (st : TpState) (n : Nat) : Prop :=
  n ≤ st.heap.length ∧ ∀ t, st.time = some t → n ≤ t

theorem TpState.step_fresh (st : TpState) (i : TpInstr) (n : Nat) (hf : st.Fresh n) :
    (st.step i).Fresh n ∧ ∀ a, a < n → (st.step i).heap[a]? = st.heap[a]? := by
  obtain ⟨hlen, ht⟩ := hf
  cases i with
  | init a =>
    cases hp : st.heap[a]? with
    | none => simp only [TpState.step, hp]; exact ⟨⟨hlen, ht⟩, fun _ _ => trivial⟩
    | some p =>
      simp only [TpState.step, hp]
      refine ⟨⟨by simp; omega, ?_⟩, ?_⟩
      · intro t h; simp at h; omega
      · intro b hb
        rw [List.getElem?_append_left (by omega)]
  | union a =>
    cases htime : st.time with
    | none => simp only [TpState.step, htime]; exact ⟨⟨hlen, by simp [htime]⟩, fun _ _ => trivial⟩
    | some t =>
      cases hq : st.heap[a]? with
      | none => simp only [TpState.step, htime, hq]; exact ⟨⟨hlen, by simpa [htime] using ht⟩, fun _ _ => trivial⟩
      | some q =>
        cases hp : st.heap[t]? with
        | none => simp only [TpState.step, htime, hq, hp]; exact ⟨⟨hlen, by simpa [htime] using ht⟩, fun _ _ => trivial⟩
        | some p =>
          simp only [TpState.step, htime, hq, hp]
          have htn := ht t htime
          refine ⟨⟨by simp; omega, by simpa [htime] using ht⟩, ?_⟩
          intro b hb
          rw [List.getElem?_set_ne (by omega)]
/-- **use_is_pure.**  Let the first `n` heap cells be the pattern objects owned by the
program (instruction operands and macros) and let the `time` register not alias any of
them (true after `reset`, when it holds no pattern at all).  Then after executing *any*
sequence of `TIME_PATTERN` instructions every program-owned pattern is unchanged, so it
matches later exactly what it matched before. -/
theorem C11_use_is_pure (is : List TpInstr) (st : TpState) (n : Nat) (hf : st.Fresh n) :
    ∀ a, a < n → (st.run is).heap[a]? = st.heap[a]? := by
  induction is generalizing st with
  | nil => intro a _; rfl
  | cons i is ih =>
    intro a ha
    obtain ⟨hf', hkeep⟩ := st.step_fresh i n hf
    have := ih (st.step i) hf' a ha
    simp only [TpState.run, List.foldl_cons] at this ⊢
    rw [this, hkeep a ha]

/-! ## "waits for the first minute matched" -/

/-- `wait_until` returns after exactly `i` ticks iff the `i`-th reading of the wall clock matches
the pattern and none of the readings before it does — for ANY sequence of readings (a clock
that advances minute by minute, one that is read several times a minute, one that is stepped by
an hour between two ticks). -/
theorem C11_wait_ends_at_first_match (p : Pat) (rs : List (Nat × Nat)) (i : Nat) :
    waitUntil p rs = some i ↔
      (∃ r, rs[i]? = some r ∧ p.matches r.1 r.2 = true) ∧
      ∀ j, j < i → ∀ r, rs[j]? = some r → p.matches r.1 r.2 = false := by
  induction rs generalizing i with
  | nil => simp [waitUntil]
  | cons r rs ih =>
    obtain ⟨h, m⟩ := r
    by_cases hm : p.matches h m = true
    · simp only [waitUntil, hm, if_true]
      constructor
      · intro hi
        have : i = 0 := by simpa using hi.symm
        subst this
        exact ⟨⟨(h, m), by simp, hm⟩, fun j hj => absurd hj (Nat.not_lt_zero j)⟩
      · rintro ⟨_, hno⟩
        cases i with
        | zero => rfl
        | succ k =>
          have := hno 0 (Nat.succ_pos k) (h, m) (by simp)
          simp [hm] at this
    · have hm' : p.matches h m = false := by simpa using hm
      simp only [waitUntil, hm', Bool.false_eq_true, if_false]
      cases i with
      | zero =>
        constructor
        · intro hi
          cases hw : waitUntil p rs <;> simp [hw] at hi
        · rintro ⟨⟨r, hr, hmr⟩, _⟩
          simp at hr
          subst hr
          simp [hm'] at hmr
      | succ k =>
        have ihk := ih k
        constructor
        · intro hi
          have hk : waitUntil p rs = some k := by
            cases hw : waitUntil p rs with
            | none => simp [hw] at hi
            | some x => simp [hw] at hi; simp [hi]
          obtain ⟨⟨r, hr, hmr⟩, hno⟩ := ihk.mp hk
          refine ⟨⟨r, by simpa using hr, hmr⟩, ?_⟩
          intro j hj r' hr'
          cases j with
          | zero => simp at hr'; subst hr'; exact hm'
          | succ j' => exact hno j' (Nat.lt_of_succ_lt_succ hj) r' (by simpa using hr')
        · rintro ⟨⟨r, hr, hmr⟩, hno⟩
          have hk : waitUntil p rs = some k := by
            refine ihk.mpr ⟨⟨r, by simpa using hr, hmr⟩, ?_⟩
            intro j hj r' hr'
            exact hno (j + 1) (Nat.succ_lt_succ hj) r' (by simpa using hr')
          simp [hk]

/-- with `time at P1 or P2 …` the wait ends at the first reading matched by AT LEAST ONE of the
listed patterns (`C11_or_is_or` gives what the union matches) -/
theorem C11_wait_or (p : Pat) (ps : List Pat) (rs : List (Nat × Nat)) (i : Nat) :
    waitUntil (ps.foldl Pat.union p) rs = some i ↔
      (∃ r, rs[i]? = some r ∧ (ps.foldl Pat.union p).matches r.1 r.2 = true) ∧
      ∀ j, j < i → ∀ r, rs[j]? = some r → (ps.foldl Pat.union p).matches r.1 r.2 = false :=
  C11_wait_ends_at_first_match _ rs i

/-- a clock stepped from 1:30 to 2:30 between two ticks: `time at 2:30` ends at that very tick -/
example : waitUntil ((fromString "2:30").getD ⟨[]⟩) [(1, 29), (1, 30), (2, 30), (2, 31)] = some 2 := by
  decide +kernel

/-! ## Non-vacuity: concrete instances meet the hypotheses -/

example : fromString "1*:*5" = some (Pat.ofFields [.dig 1, .star] [.star, .dig 5]) := by
  decide +kernel
example : (fromString "23:59").isSome = true ∧ (fromString "24:00").isSome = false ∧
    (fromString "12:60").isSome = false ∧ (fromString "*:*").isSome = true ∧
    (fromString "3*:00").isSome = false ∧ (fromString "9:5").isSome = false := by
  decide +kernel
example : (((fromString "8:00").getD ⟨[]⟩).union ((fromString "9:30").getD ⟨[]⟩)).matches 8 30 = false := by
  decide +kernel
example : (((fromString "8:00").getD ⟨[]⟩).union ((fromString "9:30").getD ⟨[]⟩)).matches 9 30 = true := by
  decide +kernel
example : (TpState.mk [⟨[([8], [0])]⟩, ⟨[([9], [30])]⟩] none).Fresh 2 := ⟨by decide, by simp⟩

end Bardolph.TP
