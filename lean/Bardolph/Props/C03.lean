import Bardolph.Model.Gen
import Bardolph.Model.Sem
import Bardolph.Proofs.VmSteps
/-!
# C03 — parameters are by-value locals hiding globals; return works from any depth

All statements are for an arbitrary call-stack depth and an arbitrary number of enclosing
loop frames.  Model pieces: `Vm` (`Frame`, `activation`, `putVariable`, `doReturn`, the
`CTX`/`PARAM`/`JSR` handlers), `Gen.genCall` (the calling sequence the parser emits) and `Sem`
(`callRoutine`).  The tie of `Vm`/`Gen` to the Python code is the correspondence run by the
harness; what is proved here is about the model.
-/
namespace Bardolph
open Vm VmSteps

/-! ## frames -/

def Vm.Frame.isLoop : Frame → Bool
  | .loop _ _ => true
  | _ => false

/-- a stack segment that consists of loop frames only (any number, including none) -/
def LoopsOnly (l : List Frame) : Prop := ∀ f ∈ l, f.isLoop = true

instance (l : List Frame) : Decidable (LoopsOnly l) := by unfold LoopsOnly; infer_instance

theorem LoopsOnly.nil : LoopsOnly [] := by simp [LoopsOnly]

theorem LoopsOnly.cons {f : Frame} {l : List Frame} (h : LoopsOnly (f :: l)) :
    (∃ vars ht, f = .loop vars ht) ∧ LoopsOnly l := by
  constructor
  · have := h f (by simp)
    cases f <;> simp_all [Frame.isLoop]
  · intro g hg; exact h g (by simp [hg])

theorem owner_loops (loops : List Frame) (f : Frame) (rest : List Frame) (hl : LoopsOnly loops)
    (hf : f.isLoop = false) : State.putVariable.owner (loops ++ f :: rest) = some f := by
  induction loops with
  | nil => cases f <;> simp_all [State.putVariable.owner, Frame.isLoop]
  | cons g gs ih =>
    obtain ⟨⟨vars, ht, rfl⟩, hgs⟩ := hl.cons
    simpa [State.putVariable.owner] using ih hgs

theorem owner_only_loops (loops : List Frame) (hl : LoopsOnly loops) :
    State.putVariable.owner loops = none := by
  induction loops with
  | nil => rfl
  | cons g gs ih =>
    obtain ⟨⟨vars, ht, rfl⟩, hgs⟩ := hl.cons
    simpa [State.putVariable.owner] using ih hgs

theorem activation_loops (loops : List Frame) (locals : Dict) (ret : Nat) (rest : List Frame)
    (hl : LoopsOnly loops) : activation (loops ++ .call locals ret :: rest) = some locals := by
  induction loops with
  | nil => rfl
  | cons g gs ih =>
    obtain ⟨⟨vars, ht, rfl⟩, hgs⟩ := hl.cons
    simpa [activation] using ih hgs

theorem activation_only_loops (loops : List Frame) (hl : LoopsOnly loops) :
    activation loops = none := by
  induction loops with
  | nil => rfl
  | cons g gs ih =>
    obtain ⟨⟨vars, ht, rfl⟩, hgs⟩ := hl.cons
    simpa [activation] using ih hgs

theorem setActivation_loops (loops : List Frame) (locals d : Dict) (ret : Nat) (rest : List Frame)
    (hl : LoopsOnly loops) :
    setActivation (loops ++ .call locals ret :: rest) d = loops ++ .call d ret :: rest := by
  induction loops with
  | nil => rfl
  | cons g gs ih =>
    obtain ⟨⟨vars, ht, rfl⟩, hgs⟩ := hl.cons
    simpa [setActivation] using ih hgs

theorem popLoops_loops (loops : List Frame) (f : Frame) (rest : List Frame) (hl : LoopsOnly loops)
    (hf : f.isLoop = false) : popLoops (loops ++ f :: rest) = f :: rest := by
  induction loops with
  | nil => cases f <;> simp_all [popLoops, Frame.isLoop]
  | cons g gs ih =>
    obtain ⟨⟨vars, ht, rfl⟩, hgs⟩ := hl.cons
    simpa [popLoops] using ih hgs

/-- the height `unwind_loops` restores is the one recorded by the OUTERMOST loop frame -/
theorem unwindHeight_loops (inner : List Frame) (vars : List (LoopVar × Val)) (h : Nat)
    (f : Frame) (rest : List Frame) (hl : LoopsOnly inner) (hf : f.isLoop = false) :
    unwindHeight (inner ++ .loop vars h :: f :: rest) = some h := by
  induction inner with
  | nil => cases f <;> simp_all [unwindHeight, Frame.isLoop]
  | cons g gs ih =>
    obtain ⟨⟨vars', ht, rfl⟩, hgs⟩ := hl.cons
    simp [unwindHeight, ih hgs]

/-! ## dictionaries -/

theorem Dict.get_cons (k : String) (x : Val) (d : Dict) (n : String) :
    Dict.get ((k, x) :: d) n = if k = n then some x else Dict.get d n := by
  by_cases h : k = n
  · simp [Dict.get, h]
  · have hb : (k == n) = false := by simpa using h
    simp [Dict.get, h, hb]

theorem Dict.put_cons (k : String) (x : Val) (d : Dict) (n : String) (v : Val) :
    Dict.put ((k, x) :: d) n v = if k = n then (k, v) :: (if d.any (·.1 == n) then Dict.put d n v else d)
      else (k, x) :: Dict.put d n v := by
  by_cases h : k = n
  · subst h
    by_cases h2 : d.any (·.1 == k) = true
    · simp [Dict.put, h2]
    · simp only [Bool.not_eq_true] at h2
      simp [Dict.put, h2]
      conv => rhs; rw [← List.map_id d]
      apply List.map_congr_left
      intro p hp
      have := List.any_eq_false.1 h2 p hp
      have hne : ¬ p.1 = k := by simpa using this
      simp [hne]
  · by_cases h2 : d.any (·.1 == n) = true
    · simp [Dict.put, h2, h]
    · simp [Dict.put, h2, h]

theorem Dict.get_put_self (d : Dict) (n : String) (v : Val) : (d.put n v).get n = some v := by
  induction d with
  | nil => simp [Dict.put, Dict.get]
  | cons kv d ih =>
    obtain ⟨k, x⟩ := kv
    rw [Dict.put_cons]
    by_cases hk : k = n
    · simp [hk, Dict.get_cons]
    · simp [hk, Dict.get_cons, ih]

theorem Dict.get_put_other (d : Dict) (n m : String) (v : Val) (hm : m ≠ n) :
    (d.put n v).get m = d.get m := by
  induction d with
  | nil =>
    have : ¬ n = m := fun h => hm h.symm
    simp [Dict.put, Dict.get, this]
  | cons kv d ih =>
    obtain ⟨k, x⟩ := kv
    rw [Dict.put_cons]
    by_cases hk : k = n
    · subst hk
      have : ¬ k = m := fun h => hm h.symm
      simp only [if_true, Dict.get_cons, this, if_false]
      split
      · exact ih
      · rfl
    · simp [hk, Dict.get_cons, ih]

theorem Dict.has_iff_get (d : Dict) (n : String) : d.has n = true ↔ ∃ v, d.get n = some v := by
  induction d with
  | nil => simp [Dict.has, Dict.get]
  | cons kv d ih =>
    obtain ⟨k, x⟩ := kv
    rw [Dict.get_cons]
    by_cases h : k = n
    · simp [Dict.has, h]
    · simp only [Dict.has] at ih
      simp [Dict.has, h, ih]

/-! ## 1. arguments are evaluated in the caller's scope -/

/-- **args_in_caller_scope.**  Between `CTX` and `JSR` the new frame is only being filled: no
name resolves to it.  Whatever the parameter dictionary `ps` of the callee holds — in
particular a parameter with the same name as a variable used in a later argument — every
variable and register read gives what it gave before `CTX`. -/
theorem C03_args_in_caller_scope (s : State) (ps : Dict) (n : String) :
    ({ s with stack := .pending ps :: s.stack }).getVariable n = s.getVariable n := rfl

theorem C03_args_in_caller_scope_read (s : State) (ps : Dict) (src : Src)
    (h : ∀ l, src ≠ .loopVar l) :
    ({ s with stack := .pending ps :: s.stack }).read src = s.read src := by
  cases src with
  | loopVar l => exact absurd rfl (h l)
  | _ => rfl

/-- the same during the whole argument phase: the pending dictionary, the `result` register,
`pc` and the evaluation stack do not enter variable lookup -/
theorem getVariable_pending (s t : State) (ps : Dict) (n : String)
    (hst : t.stack = .pending ps :: s.stack) (hg : t.globals = s.globals)
    (hc : t.constants = s.constants) : t.getVariable n = s.getVariable n := by
  simp [State.getVariable, hst, hg, hc, activation]

/-! ## 3. assignment resolution under any number of loop frames -/

/-- **param_private.**  Assigning to a parameter (or an existing local) of the current call,
under any number of loop frames, replaces that entry of the call's own dictionary and nothing
else: the caller's frames `rest`, the globals — even a global of the same name — and every
other component of the state are untouched. -/
theorem C03_param_private (s : State) (loops : List Frame) (locals : Dict) (ret : Nat)
    (rest : List Frame) (n : String) (v : Val) (hl : LoopsOnly loops)
    (hs : s.stack = loops ++ .call locals ret :: rest) (hn : locals.has n = true) :
    s.putVariable n v = { s with stack := loops ++ .call (locals.put n v) ret :: rest } := by
  simp [State.putVariable, hs, owner_loops loops (.call locals ret) rest hl rfl, hn,
    setActivation_loops loops locals _ ret rest hl]

/-- **global_assign.**  A name that is not a parameter/local of the current call but is a
global: the global is updated, no frame changes. -/
theorem C03_global_assign (s : State) (loops : List Frame) (locals : Dict) (ret : Nat)
    (rest : List Frame) (n : String) (v : Val) (hl : LoopsOnly loops)
    (hs : s.stack = loops ++ .call locals ret :: rest) (hn : locals.has n = false)
    (hg : s.globals.has n = true) :
    s.putVariable n v = { s with globals := s.globals.put n v } := by
  simp [State.putVariable, hs, owner_loops loops (.call locals ret) rest hl rfl, hn, hg]

/-- **new_name_is_local.**  Any other name becomes a new entry of the current call's
dictionary (and so disappears with the frame on return); callers and globals untouched. -/
theorem C03_new_name_is_local (s : State) (loops : List Frame) (locals : Dict) (ret : Nat)
    (rest : List Frame) (n : String) (v : Val) (hl : LoopsOnly loops)
    (hs : s.stack = loops ++ .call locals ret :: rest) (hn : locals.has n = false)
    (hg : s.globals.has n = false) :
    s.putVariable n v = { s with stack := loops ++ .call (locals ++ [(n, v)]) ret :: rest } := by
  have hput : locals.put n v = locals ++ [(n, v)] := by
    have : locals.any (·.1 == n) = false := hn
    simp [Dict.put, this]
  simp [State.putVariable, hs, owner_loops loops (.call locals ret) rest hl rfl, hn, hg,
    setActivation_loops loops locals _ ret rest hl, hput]

/-- at top level (no call frame, any number of loop frames) every assignment is to a global -/
theorem C03_toplevel_assign (s : State) (n : String) (v : Val) (hl : LoopsOnly s.stack) :
    s.putVariable n v = { s with globals := s.globals.put n v } := by
  simp [State.putVariable, owner_only_loops s.stack hl]

/-- in all three cases the caller's frames and all registers survive an assignment made inside
the callee, at any loop depth -/
theorem C03_assign_keeps_callers (s : State) (loops : List Frame) (locals : Dict) (ret : Nat)
    (rest : List Frame) (n : String) (v : Val) (hl : LoopsOnly loops)
    (hs : s.stack = loops ++ .call locals ret :: rest) :
    ∃ locals', (s.putVariable n v).stack = loops ++ .call locals' ret :: rest ∧
      (s.putVariable n v).regs = s.regs ∧ (s.putVariable n v).eval = s.eval ∧
      (s.putVariable n v).status = s.status ∧ (s.putVariable n v).pc = s.pc ∧
      ((s.putVariable n v).globals = s.globals ∨ (locals.has n = false ∧ s.globals.has n = true)) := by
  by_cases hn : locals.has n = true
  · rw [C03_param_private s loops locals ret rest n v hl hs hn]
    exact ⟨_, rfl, rfl, rfl, rfl, rfl, .inl rfl⟩
  · have hn : locals.has n = false := by simpa using hn
    by_cases hg : s.globals.has n = true
    · rw [C03_global_assign s loops locals ret rest n v hl hs hn hg]
      exact ⟨_, hs, rfl, rfl, rfl, rfl, .inr ⟨hn, hg⟩⟩
    · have hg : s.globals.has n = false := by simpa using hg
      rw [C03_new_name_is_local s loops locals ret rest n v hl hs hn hg]
      exact ⟨_, rfl, rfl, rfl, rfl, rfl, .inl rfl⟩

/-- **param_hides_global.**  Under any number of loop frames a parameter/local is what its
name denotes, whatever the globals hold (macros/constants are resolved before, at compile
time, and can never be assigned; `hc` says no constant of that name exists). -/
theorem C03_param_hides_global (s : State) (loops : List Frame) (locals : Dict) (ret : Nat)
    (rest : List Frame) (n : String) (x : Val) (hl : LoopsOnly loops)
    (hs : s.stack = loops ++ .call locals ret :: rest) (hc : s.constants.get n = none)
    (hn : locals.get n = some x) : s.getVariable n = x := by
  simp [State.getVariable, hc, hs, activation_loops loops locals ret rest hl, hn]

theorem C03_param_hides_global' (s : State) (loops : List Frame) (locals : Dict) (ret : Nat)
    (rest : List Frame) (n : String) (hl : LoopsOnly loops)
    (hs : s.stack = loops ++ .call locals ret :: rest) (hc : s.constants.get n = none)
    (hn : locals.has n = true) : ∃ x, locals.get n = some x ∧ s.getVariable n = x := by
  obtain ⟨x, hx⟩ := (Dict.has_iff_get locals n).1 hn
  exact ⟨x, hx, C03_param_hides_global s loops locals ret rest n x hl hs hc hx⟩

/-- a name that is not local falls through to the global -/
theorem C03_nonlocal_reads_global (s : State) (loops : List Frame) (locals : Dict) (ret : Nat)
    (rest : List Frame) (n : String) (hl : LoopsOnly loops)
    (hs : s.stack = loops ++ .call locals ret :: rest) (hc : s.constants.get n = none)
    (hn : locals.get n = none) : s.getVariable n = (s.globals.get n).getD .none := by
  simp [State.getVariable, hc, hs, activation_loops loops locals ret rest hl, hn]

/-- assignment to a parameter then reading it, at any loop depth: the new value is read back,
and the global of the same name still holds what it held -/
theorem C03_param_assign_then_read (s : State) (loops : List Frame) (locals : Dict) (ret : Nat)
    (rest : List Frame) (n : String) (v : Val) (hl : LoopsOnly loops)
    (hs : s.stack = loops ++ .call locals ret :: rest) (hc : s.constants.get n = none)
    (hn : locals.has n = true) :
    (s.putVariable n v).getVariable n = v ∧ (s.putVariable n v).globals = s.globals := by
  rw [C03_param_private s loops locals ret rest n v hl hs hn]
  refine ⟨?_, rfl⟩
  exact C03_param_hides_global _ loops (locals.put n v) ret rest n v hl rfl hc
    (Dict.get_put_self locals n v)

/-! ## 5. nested activations have separate dictionaries -/

/-- the dictionaries of the entered call frames of a stack, top first -/
def callDicts : List Frame → List Dict
  | [] => []
  | .call d _ :: rest => d :: callDicts rest
  | _ :: rest => callDicts rest

theorem callDicts_loops (loops : List Frame) (rest : List Frame) (hl : LoopsOnly loops) :
    callDicts (loops ++ rest) = callDicts rest := by
  induction loops with
  | nil => rfl
  | cons g gs ih =>
    obtain ⟨⟨vars, ht, rfl⟩, hgs⟩ := hl.cons
    simpa [callDicts] using ih hgs

/-- **recursion_fresh.**  With any number of activations on the stack (of the same routine or
of different ones), an assignment made in the top activation — whatever the name, at any loop
depth — leaves the dictionary of every deeper activation exactly as it was. -/
theorem C03_recursion_fresh (s : State) (loops : List Frame) (locals : Dict) (ret : Nat)
    (rest : List Frame) (n : String) (v : Val) (hl : LoopsOnly loops)
    (hs : s.stack = loops ++ .call locals ret :: rest) :
    (callDicts (s.putVariable n v).stack).tail = callDicts rest ∧
    (callDicts s.stack).tail = callDicts rest := by
  obtain ⟨locals', h, _⟩ := C03_assign_keeps_callers s loops locals ret rest n v hl hs
  rw [h, hs, callDicts_loops _ _ hl, callDicts_loops _ _ hl]
  simp [callDicts]

/-! ## 4. return from any loop depth -/

/-- `EvalStack.trim h` keeps exactly the bottom `h` values -/
theorem trimEval_bottom (top bot : List Val) : trimEval (top ++ bot) bot.length = bot := by
  simp [trimEval]

/-- return with no enclosing loop frame -/
theorem C03_return_depth0 (s : State) (locals : Dict) (ret : Nat) (rest : List Frame)
    (hs : s.stack = .call locals ret :: rest) :
    s.doReturn = { s with stack := rest, pc := ret } := by
  simp [State.doReturn, hs, popLoops, unwindHeight]

/-- return from under `inner.length + 1` loop frames, the outermost of which recorded the
evaluation-stack height `h` -/
theorem C03_return_depth_pos (s : State) (inner : List Frame) (vars : List (LoopVar × Val))
    (h : Nat) (locals : Dict) (ret : Nat) (rest : List Frame) (hl : LoopsOnly inner)
    (hs : s.stack = inner ++ .loop vars h :: .call locals ret :: rest) :
    s.doReturn = { s with stack := rest, pc := ret, eval := trimEval s.eval h } := by
  have hl' : LoopsOnly (inner ++ [.loop vars h]) := by
    intro f hf
    rcases List.mem_append.1 hf with hf | hf
    · exact hl f hf
    · simp at hf; subst hf; rfl
  have hp := popLoops_loops (inner ++ [.loop vars h]) (.call locals ret) rest hl' rfl
  simp only [List.append_assoc, List.singleton_append] at hp
  simp [State.doReturn, hs, hp, unwindHeight_loops inner vars h (.call locals ret) rest hl rfl]

/-- **return_any_depth.**  `RETURN` under `d = loops.length ≥ 0` loop frames pops exactly those
frames and the call frame, continues at the recorded return address, keeps the machine's
status, restores the evaluation stack to the height it had when the outermost of those loops
was entered (unchanged if `d = 0`), and leaves the caller's frames `rest` (its loop records and
locals), the globals, the registers (so the value placed in `result`), the trace and
everything else exactly as they were. -/
theorem C03_return_any_depth (s : State) (loops : List Frame) (locals : Dict) (ret : Nat)
    (rest : List Frame) (hl : LoopsOnly loops)
    (hs : s.stack = loops ++ .call locals ret :: rest) :
    s.doReturn = { s with
      stack := rest, pc := ret,
      eval := match loops.getLast? with
        | some (.loop _ h) => trimEval s.eval h
        | _ => s.eval } := by
  rcases List.eq_nil_or_concat loops with rfl | ⟨inner, f, hcat⟩
  · simpa using C03_return_depth0 s locals ret rest hs
  · rw [List.concat_eq_append] at hcat
    subst hcat
    have hf := hl f (by simp)
    have hinner : LoopsOnly inner := fun g hg => hl g (by simp [hg])
    cases f with
    | loop vars h =>
      have hg : (inner ++ [Frame.loop vars h]).getLast? = some (.loop vars h) := by simp
      rw [hg]
      exact C03_return_depth_pos s inner vars h locals ret rest hinner (by simpa using hs)
    | _ => simp [Frame.isLoop] at hf

/-- spelled out by component -/
theorem C03_return_any_depth_fields (s : State) (loops : List Frame) (locals : Dict) (ret : Nat)
    (rest : List Frame) (hl : LoopsOnly loops)
    (hs : s.stack = loops ++ .call locals ret :: rest) :
    s.doReturn.stack = rest ∧ s.doReturn.pc = ret ∧ s.doReturn.status = s.status ∧
    s.doReturn.globals = s.globals ∧ s.doReturn.constants = s.constants ∧
    s.doReturn.regs = s.regs ∧ s.doReturn.trace = s.trace ∧
    (loops = [] → s.doReturn.eval = s.eval) := by
  rw [C03_return_any_depth s loops locals ret rest hl hs]
  refine ⟨rfl, rfl, rfl, rfl, rfl, rfl, rfl, ?_⟩
  rintro rfl; rfl

/-! ## 2. the calling sequence -/

theorem step_moveq_result (img : Image) (s : State) (pc : Nat) (v : Val)
    (hs : s.status = .running) (hpc : s.pc = (pc : Int))
    (hi : img.code[pc]? = some (.moveq v (.reg .result))) :
    step img s = { s with pc := (pc : Int) + 1, regs := fun r => if r = .result then v else s.regs r } := by
  rw [step_plain img s pc _ hs hpc hi (by simp) rfl]
  · simp [execInstr, State.put, State.setReg, hpc]
  · simp [execInstr, State.put, State.setReg, hs]

theorem step_move_result (img : Image) (s : State) (pc : Nat) (src : Src)
    (hs : s.status = .running) (hpc : s.pc = (pc : Int))
    (hi : img.code[pc]? = some (.move src (.reg .result))) :
    step img s = { s with pc := (pc : Int) + 1,
                          regs := fun r => if r = .result then s.read src else s.regs r } := by
  rw [step_plain img s pc _ hs hpc hi (by simp) rfl]
  · simp [execInstr, State.put, State.setReg, hpc]
  · simp [execInstr, State.put, State.setReg, hs]

theorem step_param (img : Image) (s : State) (pc : Nat) (p : String) (src : Src) (d : Dict)
    (st : List Frame)
    (hs : s.status = .running) (hpc : s.pc = (pc : Int)) (hst : s.stack = .pending d :: st)
    (hi : img.code[pc]? = some (.param p src)) :
    step img s = { s with pc := (pc : Int) + 1, stack := .pending (d.put p (s.read src)) :: st } := by
  rw [step_plain img s pc _ hs hpc hi (by simp) rfl]
  · simp [execInstr, hst, hpc]
  · simp [execInstr, hst, hs]

theorem step_ctx (img : Image) (s : State) (pc : Nat)
    (hs : s.status = .running) (hpc : s.pc = (pc : Int))
    (hi : img.code[pc]? = some .ctx) :
    step img s = { s with pc := (pc : Int) + 1, stack := .pending [] :: s.stack } := by
  rw [step_plain img s pc _ hs hpc hi (by simp) rfl]
  · simp [execInstr, hpc]
  · simp [execInstr, hs]

theorem step_jsr (img : Image) (s : State) (pc : Nat) (f : String) (addr : Nat) (d : Dict)
    (st : List Frame)
    (hs : s.status = .running) (hpc : s.pc = (pc : Int)) (hst : s.stack = .pending d :: st)
    (hf : img.routine? f = some addr)
    (hi : img.code[pc]? = some (.jsr f)) :
    step img s = { s with pc := (addr : Int), stack := .call d (pc + 1) :: st } := by
  unfold step
  have h0 : ¬ (s.pc < 0) := by omega
  have h1 : s.pc.toNat = pc := by omega
  rw [if_neg (by simp [hs]), if_neg h0, h1, hi]
  have : ((pc : Int) + 1).toNat = pc + 1 := by omega
  simp [execInstr, hst, hf, hs, hpc, this]

/-- argument forms that need no evaluation code of their own: a literal, a variable, a
register -/
inductive SimpleArg : Rv → Prop
  | lit (v : Val) : SimpleArg (.lit v)
  | var (n : String) : SimpleArg (.var n)
  | reg (r : Reg) : SimpleArg (.reg r)

inductive SimpleArgs : Args → Prop
  | nil : SimpleArgs .nil
  | cons {a : Rv} {rest : Args} : SimpleArg a → SimpleArgs rest → SimpleArgs (.cons a rest)

/-- value of a simple argument in state `s`; `res` is the current content of the `result`
register, through which every argument passes (`s.regs .result` for the first argument, the
previous argument's value afterwards — only an argument that is the `result` register itself
can tell) -/
def argVal (s : State) (res : Val) : Rv → Val
  | .lit v => v
  | .var n => s.getVariable n
  | .reg r => if r = .result then res else s.regs r
  | _ => .none

/-- the callee's dictionary built by `PARAM`: later duplicates override as `Dict.put` does -/
def bindArgs (s : State) : Val → List String → Args → Dict → Dict
  | res, p :: ps, .cons a rest, d => bindArgs s (argVal s res a) ps rest (d.put p (argVal s res a))
  | _, _, _, d => d

/-- what the `result` register holds after the argument phase -/
def lastRes (s : State) : Val → List String → Args → Val
  | res, _ :: ps, .cons a rest => lastRes s (argVal s res a) ps rest
  | res, _, _ => res

/-- one argument: `⟦a⟧ → RESULT; PARAM p RESULT` -/
theorem run_one_param (img : Image) (s0 : State) (p : String) (a : Rv) (ha : SimpleArg a)
    (t : State) (pc : Nat) (d : Dict) (st : List Frame)
    (hs : t.status = .running) (hpc : t.pc = (pc : Int)) (hst : t.stack = .pending d :: st)
    (hv : ∀ n, t.getVariable n = s0.getVariable n)
    (hr : ∀ r, r ≠ .result → t.regs r = s0.regs r)
    (hc : CodeAt img pc (Gen.genRv a (.to Gen.result) ++ [.param p (.reg .result)])) :
    run img (Gen.genRv a (.to Gen.result) ++ [Instr.param p (.reg .result)]).length t =
      { t with pc := (pc : Int) + (Gen.genRv a (.to Gen.result) ++ [Instr.param p (.reg .result)]).length,
               stack := .pending (d.put p (argVal s0 (t.regs .result) a)) :: st,
               regs := fun r => if r = .result then argVal s0 (t.regs .result) a else t.regs r } := by
  cases ha with
  | lit v =>
    simp only [Gen.genRv, Gen.result, List.cons_append, List.nil_append, List.length_cons,
      List.length_nil] at hc ⊢
    rw [run_succ _ _ _ hs, step_moveq_result img t pc v hs hpc hc.head]
    rw [run_one _ _ (by exact hs), step_param img _ (pc + 1) p _ d st (by exact hs) (by simp) (by exact hst) (hc.tail.head)]
    apply State.ext' <;> simp [State.read, argVal]
    omega
  | var n =>
    simp only [Gen.genRv, Gen.result, List.cons_append, List.nil_append, List.length_cons,
      List.length_nil] at hc ⊢
    rw [run_succ _ _ _ hs, step_move_result img t pc _ hs hpc hc.head]
    rw [run_one _ _ (by exact hs), step_param img _ (pc + 1) p _ d st (by exact hs) (by simp) (by exact hst) (hc.tail.head)]
    apply State.ext' <;> simp [State.read, argVal, hv]
    omega
  | reg r =>
    by_cases h : r = .result
    · subst h
      simp only [Gen.genRv, Gen.result, if_true, List.nil_append, List.length_cons,
        List.length_nil] at hc ⊢
      rw [run_one _ _ hs, step_param img _ pc p _ d st hs hpc hst hc.head]
      apply State.ext' <;> simp [State.read, argVal]
      funext r; split <;> simp_all
    · have h' : ¬ (Dst.reg Reg.result = Dst.reg r) := by
        intro hh; injection hh with hh; exact h hh.symm
      simp only [Gen.genRv, Gen.result, if_neg h', List.cons_append, List.nil_append,
        List.length_cons, List.length_nil] at hc ⊢
      rw [run_succ _ _ _ hs, step_move_result img t pc _ hs hpc hc.head]
      rw [run_one _ _ (by exact hs), step_param img _ (pc + 1) p _ d st (by exact hs) (by simp) (by exact hst) (hc.tail.head)]
      apply State.ext' <;> simp [State.read, argVal, h, hr r h]
      omega

theorem getVariable_congr (a b : State) (n : String) (hc : a.constants = b.constants)
    (hg : a.globals = b.globals) (ha : activation a.stack = activation b.stack) :
    a.getVariable n = b.getVariable n := by
  simp [State.getVariable, hc, hg, ha]

/-- the whole argument phase, from a state whose top frame is the pending one -/
theorem run_params (img : Image) (s0 : State) (as : Args) (has : SimpleArgs as) :
    ∀ (ps : List String) (t : State) (pc : Nat) (d : Dict) (st : List Frame),
    t.status = .running → t.pc = (pc : Int) → t.stack = .pending d :: st →
    (∀ n, t.getVariable n = s0.getVariable n) →
    (∀ r, r ≠ .result → t.regs r = s0.regs r) →
    CodeAt img pc (Gen.genParams ps as) →
    run img (Gen.genParams ps as).length t =
      { t with pc := (pc : Int) + (Gen.genParams ps as).length,
               stack := .pending (bindArgs s0 (t.regs .result) ps as d) :: st,
               regs := fun r => if r = .result then lastRes s0 (t.regs .result) ps as
                                else t.regs r } := by
  induction has with
  | nil =>
    intro ps t pc d st hs hpc hst hv hr hc
    have : Gen.genParams ps .nil = [] := by cases ps <;> simp [Gen.genParams]
    rw [this]
    have hb : bindArgs s0 (t.regs .result) ps .nil d = d := by cases ps <;> simp [bindArgs]
    have hl : lastRes s0 (t.regs .result) ps .nil = t.regs .result := by cases ps <;> simp [lastRes]
    rw [hb, hl]
    apply State.ext' <;> simp [run, hpc, hst]
    funext r; split <;> simp_all
  | @cons a rest ha hrest ih =>
    intro ps t pc d st hs hpc hst hv hr hc
    cases ps with
    | nil =>
      simp only [Gen.genParams, bindArgs, lastRes]
      apply State.ext' <;> simp [run, hpc, hst]
      funext r; split <;> simp_all
    | cons p ps =>
      simp only [Gen.genParams, bindArgs, lastRes] at hc ⊢
      rw [List.length_append, run_add,
        run_one_param img s0 p a ha t pc d st hs hpc hst hv hr hc.left]
      have hc2 := hc.right
      rw [ih ps _ _ _ st (by exact hs) (by simp) rfl
        (fun n => by
          rw [← hv n]
          exact getVariable_congr _ t n rfl rfl (by simp [hst, activation]))
        (fun r hr' => by simp [hr', hr r hr']) hc2]
      apply State.ext' <;> simp
      · omega
      · funext r; split <;> simp_all

theorem genCall_length (f : String) (ps : List String) (as : Args) :
    (Gen.genCall f ps as).length = (Gen.genParams ps as).length + 3 := by
  simp [Gen.genCall]

/-- **call_sequence.**  From ANY running state `s` (any stack, any loop nesting) whose code at
`pc` is the calling sequence `CTX; (⟦argᵢ⟧→RESULT; PARAM pᵢ RESULT)*; JSR f; END_CTX` of a user
routine `f` with simple arguments, after exactly `length - 1` steps (everything but the
`END_CTX`, which is where the callee returns to) the machine is at the routine's entry with ONE
new frame on top of the unchanged stack `s.stack`: an entered call frame whose dictionary binds
each `pᵢ` to the value of `argᵢ` as read in `s` (`bindArgs s …`, built by `Dict.put` from the
empty dictionary) and whose return address is the `END_CTX`.  Globals, constants, the
evaluation stack, the trace, the status and every register except `result` are those of `s`. -/
theorem C03_call_sequence (img : Image) (s : State) (pc : Nat) (f : String) (addr : Nat)
    (ps : List String) (as : Args) (has : SimpleArgs as)
    (hs : s.status = .running) (hpc : s.pc = (pc : Int)) (hf : img.routine? f = some addr)
    (hc : CodeAt img pc (Gen.genCall f ps as)) :
    run img ((Gen.genCall f ps as).length - 1) s =
      { s with pc := (addr : Int),
               stack := .call (bindArgs s (s.regs .result) ps as [])
                          (pc + (Gen.genCall f ps as).length - 1) :: s.stack,
               regs := fun r => if r = .result then lastRes s (s.regs .result) ps as
                                else s.regs r } ∧
    img.code[pc + (Gen.genCall f ps as).length - 1]? = some .endCtx := by
  have hlen := genCall_length f ps as
  have hend : img.code[pc + (Gen.genCall f ps as).length - 1]? = some .endCtx := by
    have := hc ((Gen.genParams ps as).length + 2) (by omega)
    have e : pc + (Gen.genCall f ps as).length - 1 = pc + ((Gen.genParams ps as).length + 2) := by
      omega
    rw [e, this]
    simp [Gen.genCall]
  refine ⟨?_, hend⟩
  have e : (Gen.genCall f ps as).length - 1 = 1 + ((Gen.genParams ps as).length + 1) := by omega
  rw [e, run_add, run_add]
  simp only [Gen.genCall] at hc
  have hctx : img.code[pc]? = some .ctx := by
    have := hc.left.left
    exact this.head
  have hpar : CodeAt img (pc + 1) (Gen.genParams ps as) := by
    have := hc.left.right
    simpa using this
  have hjsr : img.code[pc + 1 + (Gen.genParams ps as).length]? = some (.jsr f) := by
    have := hc.right
    simp only [List.length_append, List.length_cons, List.length_nil] at this
    have := this.head
    rw [← this]; congr 1; omega
  rw [run_one _ _ hs, step_ctx img s pc hs hpc hctx]
  rw [run_params img s as has ps _ (pc + 1) [] s.stack (by exact hs) (by simp) (by rfl)
    (by intro n; rfl) (by intro r _; rfl) hpar]
  rw [run_one _ _ (by exact hs),
    step_jsr img _ (pc + 1 + (Gen.genParams ps as).length) f addr _ s.stack (by exact hs)
      (by simp) rfl hf hjsr]
  apply State.ext' <;> simp
  omega

/-- the `Src` a simple argument is read from -/
def Rv.src : Rv → Src
  | .lit v => .lit v
  | .var n => .var n
  | .reg r => .reg r
  | _ => .lit .none

/-- the callee's dictionary with every argument READ IN THE ORIGINAL STATE `s` -/
def bindRead (s : State) : List String → Args → Dict → Dict
  | p :: ps, .cons a rest, d => bindRead s ps rest (d.put p (s.read a.src))
  | _, _, d => d

/-- no argument is the `result` register itself (the register every argument passes through;
it is not nameable in a script) -/
def NoResultReg : Args → Prop
  | .nil => True
  | .cons a rest => a ≠ .reg .result ∧ NoResultReg rest

theorem bindArgs_eq_bindRead (s : State) (as : Args) (has : SimpleArgs as) :
    ∀ (_ : NoResultReg as) (res : Val) (ps : List String) (d : Dict),
      bindArgs s res ps as d = bindRead s ps as d := by
  induction has with
  | nil => intro _ res ps d; cases ps <;> simp [bindArgs, bindRead]
  | @cons a rest ha _ ih =>
    intro hn res ps d
    cases ps with
    | nil => simp [bindArgs, bindRead]
    | cons p ps =>
      have hv : argVal s res a = s.read a.src := by
        cases ha with
        | lit v => rfl
        | var n => rfl
        | reg r =>
          have : r ≠ .result := fun h => hn.1 (by rw [h])
          simp [argVal, Rv.src, State.read, this]
      simp only [bindArgs, bindRead, hv]
      exact ih hn.2 _ ps _

/-- **call_sequence**, with the arguments read in the original state: each `pᵢ` is bound to
`s.read argᵢ` — the variable, register or literal as it was BEFORE the `CTX`, whatever names
the callee's parameters have. -/
theorem C03_call_sequence_original_state (img : Image) (s : State) (pc : Nat) (f : String)
    (addr : Nat) (ps : List String) (as : Args) (has : SimpleArgs as) (hn : NoResultReg as)
    (hs : s.status = .running) (hpc : s.pc = (pc : Int)) (hf : img.routine? f = some addr)
    (hc : CodeAt img pc (Gen.genCall f ps as)) :
    let s' := run img ((Gen.genCall f ps as).length - 1) s
    s'.pc = addr ∧
    s'.stack = .call (bindRead s ps as []) (pc + (Gen.genCall f ps as).length - 1) :: s.stack ∧
    s'.globals = s.globals ∧ s'.constants = s.constants ∧ s'.eval = s.eval ∧
    s'.status = .running ∧ s'.trace = s.trace ∧ (∀ r, r ≠ .result → s'.regs r = s.regs r) := by
  intro s'
  have h := (C03_call_sequence img s pc f addr ps as has hs hpc hf hc).1
  have hs' : s' = _ := h
  rw [hs', bindArgs_eq_bindRead s as has hn]
  refine ⟨rfl, rfl, rfl, rfl, rfl, hs, rfl, ?_⟩
  intro r hr; simp [hr]

/-! ## non-vacuity: concrete states satisfying the hypotheses -/

section Examples

/-- two loop frames over an activation of `f` over another activation of `f` (recursion), with
a global `x` hidden by the parameter `x` -/
def c03ExState : State :=
  { regs := initRegs
    stack := [.loop [] 3, .loop [(.counter, .int 2)] 1,
              .call [("x", .int 1)] 7, .loop [] 0, .call [("x", .int 5)] 3]
    globals := [("x", .int 9), ("g", .int 2)]
    eval := [.int 10, .int 20, .int 30, .int 40] }

example : LoopsOnly [Frame.loop [] 3, .loop [(.counter, .int 2)] 1] := by decide
example : c03ExState.stack =
    [Frame.loop [] 3, .loop [(.counter, .int 2)] 1] ++ .call [("x", .int 1)] 7 ::
      [.loop [] 0, .call [("x", .int 5)] 3] := rfl
example : Dict.has [("x", Val.int 1)] "x" = true := by decide
example : Dict.has [("x", Val.int 1)] "g" = false ∧ c03ExState.globals.has "g" = true := by decide
example : Dict.has [("x", Val.int 1)] "y" = false ∧ c03ExState.globals.has "y" = false := by decide
example : c03ExState.constants.get "x" = none := rfl

/-- the parameter `x` is assigned under two loop frames: the hidden global keeps 9, the
recursive caller's `x` keeps 5 -/
example : (c03ExState.putVariable "x" (.int 77)).stack =
      [.loop [] 3, .loop [(.counter, .int 2)] 1, .call [("x", .int 77)] 7, .loop [] 0,
       .call [("x", .int 5)] 3] ∧
    (c03ExState.putVariable "x" (.int 77)).globals = c03ExState.globals := by
  rw [C03_param_private c03ExState [.loop [] 3, .loop [(.counter, .int 2)] 1] [("x", .int 1)] 7
    [.loop [] 0, .call [("x", .int 5)] 3] "x" (.int 77) (by decide) rfl (by decide)]
  exact ⟨rfl, rfl⟩

/-- `return` from under the two loop frames: back at 7, the caller's loop frame and
activation intact, the evaluation stack cut to the height 1 recorded by the outer loop -/
example : c03ExState.doReturn.stack = [.loop [] 0, .call [("x", .int 5)] 3] ∧
    c03ExState.doReturn.pc = 7 ∧ c03ExState.doReturn.eval = [.int 40] := by
  rw [C03_return_any_depth c03ExState [.loop [] 3, .loop [(.counter, .int 2)] 1] [("x", .int 1)] 7
    [.loop [] 0, .call [("x", .int 5)] 3] (by decide) rfl]
  exact ⟨rfl, rfl, rfl⟩

/-- a calling sequence `f 5 g x` placed at address 2; the callee's parameters are named `g`
and `x` like the variables the later arguments read -/
def c03ExArgs : Args := .cons (.lit (.int 5)) (.cons (.var "g") (.cons (.var "x") .nil))
def c03ExImg : Image :=
  ⟨([Instr.nop, .nop] ++ Gen.genCall "f" ["g", "x", "z"] c03ExArgs ++ [Instr.stop]).toArray, [("f", 40)]⟩

example : CodeAt c03ExImg 2 (Gen.genCall "f" ["g", "x", "z"] c03ExArgs) :=
  CodeAt.intro [Instr.nop, .nop] (Gen.genCall "f" ["g", "x", "z"] c03ExArgs) [Instr.stop] [("f", 40)]
example : SimpleArgs c03ExArgs := .cons (.lit _) (.cons (.var _) (.cons (.var _) .nil))
example : NoResultReg c03ExArgs := by simp [c03ExArgs, NoResultReg]
example : c03ExImg.routine? "f" = some 40 := by decide
/-- the arguments are read in the caller's scope: `g` is the global 2 and `x` the caller's
parameter 1, although the callee's first parameter — already bound to 5 — is called `g` -/
example : bindRead c03ExState ["g", "x", "z"] c03ExArgs [] =
    [("g", .int 5), ("x", .int 2), ("z", .int 1)] := by
  simp [bindRead, c03ExArgs, Rv.src, State.read, State.getVariable, c03ExState, activation, Dict.get,
    Dict.put]

/-- the theorem applied: eight steps from address 2 enter `f` at 40 with return address 10 (the
`END_CTX`) on top of the untouched stack -/
example :
    let s' := run c03ExImg 8 { c03ExState with pc := 2 }
    s'.pc = 40 ∧ s'.stack = .call (bindRead c03ExState ["g", "x", "z"] c03ExArgs []) 10 :: c03ExState.stack := by
  have h := C03_call_sequence_original_state c03ExImg { c03ExState with pc := 2 } 2 "f" 40
    ["g", "x", "z"] c03ExArgs (.cons (.lit _) (.cons (.var _) (.cons (.var _) .nil)))
    (by simp [c03ExArgs, NoResultReg]) rfl rfl (by decide)
    (CodeAt.intro [Instr.nop, .nop] (Gen.genCall "f" ["g", "x", "z"] c03ExArgs) [Instr.stop] [("f", 40)])
  have e : (Gen.genCall "f" ["g", "x", "z"] c03ExArgs).length = 9 := by
    simp [Gen.genCall, Gen.genParams, Gen.genRv, c03ExArgs]
  simp only [e] at h
  exact ⟨h.1, h.2.1⟩

end Examples

/-! ## 6. source level -/

section SemLevel
open Sem

/-- value evaluation at fuel `f` returns with the caller's locals -/
def KeepsLocals (f : Nat) : Prop :=
  (∀ e s v s', evalExpr f e s = .ok (v, s') → s'.locals = s.locals) ∧
  (∀ rv s v s', evalRv f rv s = .ok (v, s') → s'.locals = s.locals) ∧
  (∀ ps as s d s', evalArgs f ps as s = .ok (d, s') → s'.locals = s.locals) ∧
  (∀ name ps as s v s', callRoutine f name ps as s = .ok (v, s') → s'.locals = s.locals)

theorem keepsLocals_zero : KeepsLocals 0 := by
  refine ⟨?_, ?_, ?_, ?_⟩ <;> intros <;> simp_all [evalExpr, evalRv, evalArgs, callRoutine]

theorem keepsLocals_succ (f : Nat) (ih : KeepsLocals f) : KeepsLocals (f + 1) := by
  obtain ⟨ihE, ihR, ihA, ihC⟩ := ih
  refine ⟨?_, ?_, ?_, ?_⟩
  · intro e s v s' h
    cases e with
    | lit x => simp [evalExpr] at h; rw [h.2]
    | var n =>
      simp only [evalExpr] at h
      split at h <;> simp at h
      rw [h.2]
    | reg r =>
      simp only [evalExpr] at h
      split at h <;> simp at h
      rw [h.2]
    | call name ps as =>
      simp only [evalExpr] at h
      split at h
      · rename_i v1 s1 hc
        split at h <;> simp at h
        rw [← h.2]; exact ihC _ _ _ _ _ _ hc
      · simp at h
    | un minus e =>
      simp only [evalExpr] at h
      split at h
      · rename_i v1 s1 hc
        have := ihE _ _ _ _ hc
        split at h
        · split at h <;> simp at h
          rw [← h.2]; exact this
        · simp at h; rw [← h.2]; exact this
      · simp at h
    | paren e => simp only [evalExpr] at h; exact ihE _ _ _ _ h
    | bin op a b =>
      simp only [evalExpr] at h
      split at h
      · simp at h
      · rename_i x s1 ha
        split at h
        · simp at h
        · rename_i y s2 hb
          have e1 := ihE _ _ _ _ ha
          have e2 := ihE _ _ _ _ hb
          have : s2.locals = s.locals := e2.trans e1
          split at h
          · simp at h; rw [← h.2]; exact this
          · simp at h; rw [← h.2]; exact this
          · split at h
            · split at h
              · simp at h
              · split at h <;> simp at h
                rw [← h.2]; exact this
            · simp at h
          · split at h <;> simp at h
            rw [← h.2]; exact this
  · intro rv s v s' h
    cases rv with
    | lit x => simp [evalRv] at h; rw [h.2]
    | var n => simp [evalRv] at h; rw [h.2]
    | reg r => simp [evalRv] at h; rw [h.2]
    | expr e => simp only [evalRv] at h; exact ihE _ _ _ _ h
    | call name ps as => simp only [evalRv] at h; exact ihC _ _ _ _ _ _ h
  · intro ps as s d s' h
    cases ps with
    | nil => simp [evalArgs] at h; rw [h.2]
    | cons p ps =>
      cases as with
      | nil => simp [evalArgs] at h; rw [h.2]
      | cons a rest =>
        simp only [evalArgs] at h
        split at h
        · simp at h
        · rename_i v1 s1 h1
          split at h
          · simp at h
          · rename_i d2 s2 h2
            simp at h
            rw [← h.2, ihA _ _ _ _ _ h2, ihR _ _ _ _ h1]
  · intro name ps as s v s' h
    simp only [callRoutine] at h
    split at h
    · simp at h
    · rename_i args s1 h1
      have e1 := ihA _ _ _ _ _ h1
      split at h
      · split at h <;> simp at h
        · rw [← h.2]; exact e1
        · rw [← h.2]; exact e1
      · split at h
        · split at h <;> simp at h
          rw [← h.2]; exact e1
        · simp at h

theorem keepsLocals (f : Nat) : KeepsLocals f := by
  induction f with
  | zero => exact keepsLocals_zero
  | succ f ih => exact keepsLocals_succ f ih

/-- **sem_call_restores_locals.**  At source level, for every fuel: a call that returns gives
back the caller's locals exactly (whatever the callee assigned, to whatever names, at whatever
loop depth and through whatever nested or recursive calls), and so does every form of value
evaluation (`{expr}`, `[call]`, argument lists — calls nested in arguments included). -/
theorem C03_sem_call_restores_locals (f : Nat) (name : String) (ps : List String) (as : Args)
    (s s' : S) (v : Val) (h : callRoutine f name ps as s = .ok (v, s')) : s'.locals = s.locals :=
  (keepsLocals f).2.2.2 name ps as s v s' h

theorem C03_sem_evalExpr_keeps_locals (f : Nat) (e : Expr) (s s' : S) (v : Val)
    (h : evalExpr f e s = .ok (v, s')) : s'.locals = s.locals := (keepsLocals f).1 e s v s' h

theorem C03_sem_evalRv_keeps_locals (f : Nat) (rv : Rv) (s s' : S) (v : Val)
    (h : evalRv f rv s = .ok (v, s')) : s'.locals = s.locals := (keepsLocals f).2.1 rv s v s' h

theorem C03_sem_evalArgs_keeps_locals (f : Nat) (ps : List String) (as : Args) (s s' : S)
    (d : Dict) (h : evalArgs f ps as s = .ok (d, s')) : s'.locals = s.locals :=
  (keepsLocals f).2.2.1 ps as s d s' h

/-- the dictionary built from the arguments has exactly the parameters as keys, in order (as
many as there are arguments) -/
theorem evalArgs_keys (f : Nat) : ∀ (ps : List String) (as : Args) (s s' : S) (d : Dict),
    evalArgs f ps as s = .ok (d, s') → d.map (·.1) = ps.take as.toList.length := by
  induction f with
  | zero => intro ps as s s' d h; simp [evalArgs] at h
  | succ f ih =>
    intro ps as s s' d h
    cases ps with
    | nil => simp [evalArgs] at h; simp [h.1]
    | cons p ps =>
      cases as with
      | nil => simp [evalArgs] at h; simp [h.1, Args.toList]
      | cons a rest =>
        simp only [evalArgs] at h
        split at h
        · simp at h
        · rename_i v1 s1 h1
          split at h
          · simp at h
          · rename_i d2 s2 h2
            simp at h
            rw [← h.1]
            simp [Args.toList, ih _ _ _ _ _ h2]

/-- **sem_callee_sees_only_params.**  A call of a user routine evaluates the arguments in the
caller's state, then runs the body from a state whose locals are `some args` — a dictionary
whose keys are exactly the parameters — with nothing of the caller's locals in it; when the
body ends (normally or by `return` from any depth) the caller's locals are put back. -/
theorem C03_sem_callee_sees_only_params (f : Nat) (name : String) (ps : List String) (as : Args)
    (s s1 : S) (args : Dict) (nm : String) (rt : Routine)
    (ha : evalArgs f ps as s = .ok (args, s1))
    (hr : s1.routines.find? (·.1 == name) = some (nm, rt)) :
    callRoutine (f + 1) name ps as s =
      (match execBlock f rt.body { s1 with locals := some args, result := .none } with
        | (.normal, s2) => .ok (s2.result, { s2 with locals := s1.locals, result := .none })
        | (.ret, s2) => .ok (s2.result, { s2 with locals := s1.locals, result := .none })
        | (.brk, _) => .error (.fault "break outside loop")
        | (o, _) => .error o) ∧
    args.map (·.1) = ps.take as.toList.length ∧ s1.locals = s.locals := by
  refine ⟨?_, evalArgs_keys f ps as s s1 args ha, C03_sem_evalArgs_keeps_locals f ps as s s1 args ha⟩
  simp only [callRoutine, ha, hr]
  rfl

/-- inside the callee a name resolves to a parameter if there is one, else to the global;
the caller's locals are not consulted -/
theorem C03_sem_callee_lookup (s1 : S) (args : Dict) (n : String)
    (hc : s1.vm.constants.get n = none) :
    ({ s1 with locals := some args, result := .none } : S).lookup n =
      match args.get n with
      | some v => v
      | none => (s1.vm.globals.get n).getD .none := by
  simp only [S.lookup, hc, Option.bind_some]
  rfl

/-! ### the source-level scope rules and the VM's frames agree -/

/-- the semantic state and the VM state denote the same scope: same globals and constants, and
the current call's dictionary is the nearest entered call frame's -/
def ScopeAgree (σ : S) (s : State) : Prop :=
  σ.vm.globals = s.globals ∧ σ.vm.constants = s.constants ∧ σ.locals = activation s.stack

theorem ScopeAgree.lookup {σ : S} {s : State} (h : ScopeAgree σ s) (n : String) :
    σ.lookup n = s.getVariable n := by
  obtain ⟨hg, hc, hl⟩ := h
  simp only [S.lookup, State.getVariable, hg, hc, hl]
  rfl

/-- assignment keeps the agreement, inside a routine at any loop depth … -/
theorem C03_assign_agrees_in_call (σ : S) (s : State) (loops : List Frame) (locals : Dict)
    (ret : Nat) (rest : List Frame) (n : String) (v : Val) (hl : LoopsOnly loops)
    (hs : s.stack = loops ++ .call locals ret :: rest) (h : ScopeAgree σ s) :
    ScopeAgree (σ.assign n v) (s.putVariable n v) := by
  obtain ⟨hg, hc, hloc⟩ := h
  rw [hs, activation_loops loops locals ret rest hl] at hloc
  by_cases hn : locals.has n = true
  · rw [C03_param_private s loops locals ret rest n v hl hs hn]
    simp [ScopeAgree, S.assign, hloc, hn, hg, hc, activation_loops loops _ ret rest hl]
  · have hn : locals.has n = false := by simpa using hn
    by_cases hgl : s.globals.has n = true
    · rw [C03_global_assign s loops locals ret rest n v hl hs hn hgl]
      simp [ScopeAgree, S.assign, hloc, hn, hg, hgl, hc, hs,
        activation_loops loops _ ret rest hl]
    · have hgl : s.globals.has n = false := by simpa using hgl
      have hput : locals.put n v = locals ++ [(n, v)] := by
        have : locals.any (·.1 == n) = false := hn
        simp [Dict.put, this]
      rw [C03_new_name_is_local s loops locals ret rest n v hl hs hn hgl]
      simp [ScopeAgree, S.assign, hloc, hn, hg, hgl, hc, hput,
        activation_loops loops _ ret rest hl]

/-- … and at top level -/
theorem C03_assign_agrees_toplevel (σ : S) (s : State) (n : String) (v : Val)
    (hl : LoopsOnly s.stack) (h : ScopeAgree σ s) :
    ScopeAgree (σ.assign n v) (s.putVariable n v) := by
  obtain ⟨hg, hc, hloc⟩ := h
  rw [activation_only_loops s.stack hl] at hloc
  rw [C03_toplevel_assign s n v hl]
  simp [ScopeAgree, S.assign, hloc, hg, hc, activation_only_loops s.stack hl]

end SemLevel

end Bardolph
