import Bardolph.Model.Vm
/-! # C03 — parameters are by-value locals hiding globals (theorems: see agent branch) -/
namespace Bardolph
end Bardolph
