import Bardolph.Model.StopProtocol
/-!
# C09 — a stop request ends a running script promptly in every state and is never lost

Theorems about `Bardolph.Stop` (Model/StopProtocol.lean): the statement-level transition
system of job thread M, clock threads K and requester R, mirroring clock.py / machine.py /
script_job.py after the `fix:` commits f1c3df5, c0f21d6, d0d6252.  `Reachable` closes over
every interleaving of the three threads and every resolution of what the model leaves open
(instruction kinds, outcomes of the time tests, when the program is exhausted).

One class of lost stops remains in the code and therefore in the model: a stop that executes
before `ScriptJob.execute`'s `reset()` / `Machine.run`'s `self._keep_running = True`
(`armedAtStop = false`).  It is carried as a proved witness (`C09_stop_before_arm_witness`)
and the command bound is proved for every other stop (`C09_stop_bounds_commands_partial`).
The three defects that were repaired are kept as proved witnesses on the corresponding
variant of the step function (`stepV`): `C09_B1_lost_wakeup_witness`,
`C09_B3_time_at_spins_witness`, `C09_B4_clock_thread_leaks_witness`.
-/
namespace Bardolph.Stop

macro "step_cases " h:ident : tactic =>
  `(tactic| (simp only [step] at $h:ident <;> (try split at $h:ident) <;> (try split at $h:ident) <;>
      (try split at $h:ident) <;> (first | cases $h:ident | skip)))

/-! ## The inductive invariant, one conjunct at a time -/

/-- A: an armed stop keeps the run flag down and the machine past the arming statements -/
def PA (s : State) : Prop :=
  s.stopped = true → s.armedAtStop = true → s.kr = false ∧ s.mpc.armed = true
/-- B: device commands after an armed stop -/
def PB (s : State) : Prop :=
  s.stopped = true → s.armedAtStop = true →
    s.cmdsAfterStop ≤ 1 ∧ (s.cmdsAfterStop = 1 → s.inProgAtStop = true) ∧
    (s.mpc = .m5 → s.inProgAtStop = true ∧ s.cmdsAfterStop = 0)
/-- C': once the run's clock thread has been spawned, "no clock thread alive" implies that the
event flag is up (the last one to leave set it, and nobody is left to clear it) -/
def PC' (s : State) : Prop :=
  s.mpc.afterSpawn = true → s.k0.live = false → s.k1.live = false → s.flag = true
/-- C: a machine blocked in `Event.wait` has a live clock thread -/
def PC (s : State) : Prop :=
  s.mpc.isWaiting = true → s.k0.live = true ∨ s.k1.live = true
/-- D: the second run is not disturbed by the stop aimed at the first -/
def PD (s : State) : Prop :=
  s.run2 = true → s.rpc = .done ∧ s.exitStopped = false ∧ s.cutShort = false ∧
    (s.mpc.armed = true → s.mpc ≠ .done → s.mpc ≠ .m9 → s.mpc ≠ .m10 → s.kr = true) ∧
    (s.mpc.inLoop = true ∨ s.mpc = .s2 ∨ s.mpc = .s3 → s.kg = true)
/-- F: after a completed armed stop, a fetched instruction or a wait in progress sees
`_keep_going` false -/
def PF (s : State) : Prop :=
  s.stopped = true → s.armedAtStop = true → s.rpc = .done → s.mpc.inInstr = true → s.kg = false
/-- R: a stop that has been issued has left the requester's first statement -/
def PR (s : State) : Prop := s.stopped = true → s.rpc ≠ .r0
/-- K: the fixed code has no self-arming clock thread -/
def PK (s : State) : Prop := s.k0 ≠ .ka ∧ s.k1 ≠ .ka

set_option maxHeartbeats 1000000 in
theorem PA_step {s s' : State} {l : Label} (hA : PA s) (h : step s l = some s') : PA s' := by
  unfold PA at hA ⊢
  cases l <;> step_cases h <;>
    simp_all [MPc.armed, State.kpc, State.setK, State.eventSet] <;> grind

set_option maxHeartbeats 1000000 in
theorem PB_step {s s' : State} {l : Label} (hA : PA s) (hB : PB s) (h : step s l = some s') :
    PB s' := by
  unfold PA at hA; unfold PB at hB ⊢
  cases l <;> step_cases h <;>
    simp_all [MPc.armed, State.kpc, State.setK, State.eventSet] <;> grind

set_option maxHeartbeats 1000000 in
theorem PC'_step {s s' : State} {l : Label} (hC' : PC' s) (h : step s l = some s') : PC' s' := by
  unfold PC' at hC' ⊢
  cases l <;> step_cases h <;>
    simp_all [MPc.afterSpawn, KPc.live, State.kpc, State.setK, State.eventSet] <;> grind

set_option maxHeartbeats 1000000 in
theorem PC_step {s s' : State} {l : Label} (hC' : PC' s) (hC : PC s) (h : step s l = some s') :
    PC s' := by
  unfold PC' at hC'; unfold PC at hC ⊢
  cases l <;> step_cases h <;>
    simp_all [MPc.afterSpawn, MPc.isWaiting, KPc.live, State.kpc, State.setK, State.eventSet] <;>
    grind

set_option maxHeartbeats 1000000 in
theorem PD_step {s s' : State} {l : Label} (hD : PD s) (h : step s l = some s') : PD s' := by
  unfold PD at hD ⊢
  cases l <;> step_cases h <;>
    simp_all [MPc.armed, MPc.inLoop, State.kpc, State.setK, State.eventSet] <;> grind

set_option maxHeartbeats 1000000 in
theorem PR_step {s s' : State} {l : Label} (hR : PR s) (h : step s l = some s') : PR s' := by
  unfold PR at hR ⊢
  cases l <;> step_cases h <;>
    simp_all [State.kpc, State.setK, State.eventSet] <;> grind

set_option maxHeartbeats 1000000 in
theorem PF_step {s s' : State} {l : Label} (hA : PA s) (hR : PR s) (hF : PF s)
    (h : step s l = some s') : PF s' := by
  unfold PA at hA; unfold PR at hR; unfold PF at hF ⊢
  cases l <;> step_cases h <;>
    simp_all [MPc.armed, MPc.inInstr, State.kpc, State.setK, State.eventSet] <;> grind

set_option maxHeartbeats 1000000 in
theorem PK_step {s s' : State} {l : Label} (hK : PK s) (h : step s l = some s') : PK s' := by
  unfold PK at hK ⊢
  cases l <;> step_cases h <;>
    simp_all [State.kpc, State.setK, State.eventSet] <;> grind

structure Inv (s : State) : Prop where
  a : PA s
  b : PB s
  c' : PC' s
  c : PC s
  d : PD s
  f : PF s
  k : PK s
  r : PR s

theorem inv_init : Inv init := by
  constructor <;>
    simp [init, PA, PB, PC', PC, PD, PF, PK, PR, MPc.afterSpawn, MPc.isWaiting, MPc.inInstr]

theorem inv_step {s s' : State} {l : Label} (hi : Inv s) (h : step s l = some s') : Inv s' :=
  ⟨PA_step hi.a h, PB_step hi.a hi.b h, PC'_step hi.c' h, PC_step hi.c' hi.c h, PD_step hi.d h,
   PF_step hi.a hi.r hi.f h, PK_step hi.k h, PR_step hi.r h⟩

theorem reachable_inv {s : State} (h : Reachable s) : Inv s := by
  induction h with
  | init => exact inv_init
  | step l _ hs ih => exact inv_step ih hs

theorem reachable_runFrom {ls : List Label} : ∀ {s s' : State}, Reachable s →
    runFrom s ls = some s' → Reachable s' := by
  induction ls with
  | nil => intro s s' hr h; simp [runFrom] at h; subst h; exact hr
  | cons l rest ih =>
    intro s s' hr h
    simp only [runFrom] at h
    split at h
    · rename_i s₁ hs; exact ih (Reachable.step l hr hs) h
    · cases h

/-! ## Commands after a stop

Full statement (FALSE in the code as it stands — see the witness below):
```
theorem C09_stop_bounds_commands {s : State} (h : Reachable s) (hs : s.stopped = true) :
    s.cmdsAfterStop ≤ 1 ∧ (s.cmdsAfterStop = 1 → s.inProgAtStop = true)
```
Proved: the same for every stop whose first statement executes after `Machine.run` has
re-armed `_keep_running` (`armedAtStop`), i.e. for every stop except the class
*stop-before-arm*. -/

/-- **stop bounds commands (partial: every stop but stop-before-arm).** In every
interleaving, once `self._keep_running = False` has executed the machine emits no device
command other than the one of the instruction that was already fetched, the run flag stays
down, and no further instruction is started. -/
theorem C09_stop_bounds_commands_partial {s : State} (h : Reachable s)
    (hs : s.stopped = true) (ha : s.armedAtStop = true) :
    s.cmdsAfterStop ≤ 1 ∧ (s.cmdsAfterStop = 1 → s.inProgAtStop = true) ∧ s.kr = false ∧
    step s .mLoopGo = none := by
  have hi := reachable_inv h
  have hb := hi.b hs ha
  have hkr := (hi.a hs ha).1
  refine ⟨hb.1, hb.2.1, hkr, ?_⟩
  simp [step, hkr]

def beforeArmSchedule : List Label :=
  [.rStopRun, .rStopClock, .mReset, .mArm, .mStartReset, .mArmClock, .mClear, .mSpawn,
   .mLoopGo, .mExec .cmd, .mAdvance, .mLoopGo, .mExec .cmd, .mAdvance, .mLoopGo, .mExec .cmd]

/-- **B2, still possible: stop-before-arm.** The stop executes completely after the job was
started but before `reset()`/`run()` re-arm the flag; the machine then emits command after
command (here three) although the stop has been carried out. -/
theorem C09_stop_before_arm_witness :
    ∃ s, runFrom init beforeArmSchedule = some s ∧ Reachable s ∧ s.stopped = true ∧
      s.rpc = .done ∧ s.armedAtStop = false ∧ s.cmdsAfterStop = 3 ∧ s.kr = true := by
  have h : ∃ s, runFrom init beforeArmSchedule = some s ∧ s.stopped = true ∧
      s.rpc = .done ∧ s.armedAtStop = false ∧ s.cmdsAfterStop = 3 ∧ s.kr = true := by decide
  obtain ⟨s, h1, h2⟩ := h
  exact ⟨s, h1, reachable_runFrom Reachable.init h1, h2⟩

/-! ## No lost wake-up -/

theorem kpc_setK (s : State) (i : Bool) (p : KPc) : (s.setK i p).kpc i = p := by
  cases i <;> simp [State.kpc, State.setK]

/-- clock-thread labels that wake a machine blocked in `Event.wait`, given the state of a live
clock thread `i` -/
def wakePath (i : Bool) (pc : KPc) (kg : Bool) : List Label :=
  match pc with
  | .k1 => if kg then [.kLoop i, .kSleep i, .kSet i] else [.kLoop i, .kFinal i]
  | .k2 => [.kSleep i, .kSet i]
  | .k3 => [.kSet i]
  | .k4 => if kg then [.kClear i, .kLoop i, .kSleep i, .kSet i] else [.kClear i, .kLoop i, .kFinal i]
  | .k9 => [.kFinal i]
  | _ => []

theorem wakePath_works (s : State) (i : Bool) (c : Ctx) (hm : s.mpc = .ww c)
    (hl : (s.kpc i).live = true) (hka : s.kpc i ≠ .ka) :
    ∃ s', runFrom s (wakePath i (s.kpc i) s.kg) = some s' ∧ s'.mpc = .w4 c := by
  cases i <;> cases hk : s.kpc _ <;> cases hg : s.kg <;>
    simp_all [KPc.live, wakePath, runFrom, step, State.kpc, State.setK, State.eventSet]

/-- **no lost wake-up.** There is no reachable state in which the machine is blocked in the
event wait and no enabled transition of any thread leads to its wake-up: from every such
state (whether or not a stop has been requested) at most four statements of a live clock
thread, all enabled in sequence, release it.  In particular the state "blocked, stop
requested, clock thread gone" is unreachable. -/
theorem C09_no_lost_wakeup {s : State} (h : Reachable s) (hw : s.mpc.isWaiting = true) :
    ∃ ls s', ls.length ≤ 4 ∧ (∀ l ∈ ls, l.isK = true) ∧ runFrom s ls = some s' ∧
      s'.mpc.isWaiting = false := by
  have hi := reachable_inv h
  have hlive := hi.c hw
  obtain ⟨c, hm⟩ : ∃ c, s.mpc = .ww c := by
    cases hp : s.mpc <;> simp [hp, MPc.isWaiting] at hw
    exact ⟨_, rfl⟩
  have key : ∀ i, (s.kpc i).live = true → s.kpc i ≠ .ka →
      ∃ ls s', ls.length ≤ 4 ∧ (∀ l ∈ ls, l.isK = true) ∧ runFrom s ls = some s' ∧
        s'.mpc.isWaiting = false := by
    intro i hl hka
    obtain ⟨s', hr, hm'⟩ := wakePath_works s i c hm hl hka
    refine ⟨_, s', ?_, ?_, hr, by simp [hm', MPc.isWaiting]⟩
    · cases hk : s.kpc i <;> cases hg : s.kg <;> simp [wakePath]
    · cases hk : s.kpc i <;> cases hg : s.kg <;> simp [wakePath, Label.isK]
  rcases hlive with h0 | h1
  · exact key false (by simpa [State.kpc] using h0) (by simpa [State.kpc] using hi.k.1)
  · exact key true (by simpa [State.kpc] using h1) (by simpa [State.kpc] using hi.k.2)

/-- the state of B1 — blocked, stop carried out, every clock thread gone — is unreachable -/
theorem C09_blocked_without_clock_unreachable {s : State} (h : Reachable s)
    (hw : s.mpc.isWaiting = true) : ¬ (s.k0.live = false ∧ s.k1.live = false) := by
  have := (reachable_inv h).c hw
  grind

/-! ## Waits give up once the clock has been stopped -/

set_option maxHeartbeats 1000000 in
/-- **wait_until gives up.** With `_keep_going` false, every statement of the machine inside
`wait_until` either leaves it (towards the end of the instruction) or strictly decreases the
number of own statements left; `_keep_going` stays false.  So a time-of-day wait ends after
at most four more statements of the machine, without the pattern ever matching. -/
theorem C09_wait_until_gives_up {s s' : State} {l : Label} (hkg : s.kg = false)
    (hu : s.mpc.inUntil = true) (hl : l.isM = true) (h : step s l = some s') :
    s'.kg = false ∧ (s'.mpc = .m6 ∨ (s'.mpc.inUntil = true ∧ s'.mpc.waitRank < s.mpc.waitRank)) := by
  cases l <;> simp [Label.isM] at hl <;> step_cases h <;>
    simp_all [MPc.inUntil, MPc.waitRank] <;> (try (rename_i c; cases c <;> simp_all)) <;> grind

set_option maxHeartbeats 1000000 in
/-- the same for a timed delay -/
theorem C09_delay_gives_up {s s' : State} {l : Label} (hkg : s.kg = false)
    (hu : s.mpc.inPause = true) (hl : l.isM = true) (h : step s l = some s') :
    s'.kg = false ∧ (s'.mpc = .m6 ∨ (s'.mpc.inPause = true ∧ s'.mpc.waitRank < s.mpc.waitRank)) := by
  cases l <;> simp [Label.isM] at hl <;> step_cases h <;>
    simp_all [MPc.inPause, MPc.waitRank] <;> (try (rename_i c; cases c <;> simp_all)) <;> grind

/-- after a completed stop (armed) every fetched instruction or wait in progress sees
`_keep_going` false — the hypothesis of the two theorems above holds -/
theorem C09_stop_reaches_waits {s : State} (h : Reachable s) (hs : s.stopped = true)
    (ha : s.armedAtStop = true) (hr : s.rpc = .done) (hin : s.mpc.inInstr = true) :
    s.kg = false :=
  (reachable_inv h).f hs ha hr hin

/-! ## A stop is local to the run it was aimed at -/

/-- **stop is local.** In a run of the same job started after the stopped one has ended
(`run2`), whatever the first run and its stop left behind — flags, the event flag, a clock
thread still alive — the run flag and the clock flag are up throughout the loop, no wait is
cut short and the loop is left only because the program is exhausted. -/
theorem C09_stop_is_local {s : State} (h : Reachable s) (h2 : s.run2 = true) :
    s.exitStopped = false ∧ s.cutShort = false ∧
    (s.mpc.inLoop = true → s.kr = true ∧ s.kg = true) ∧
    (∀ s', step s .mLoopExit = some s' → s'.exitStopped = false) := by
  have hd := (reachable_inv h).d h2
  refine ⟨hd.2.1, hd.2.2.1, ?_, ?_⟩
  · intro hl
    refine ⟨hd.2.2.2.1 ?_ ?_ ?_ ?_, hd.2.2.2.2 (Or.inl hl)⟩ <;>
      (cases hp : s.mpc <;> simp_all [MPc.inLoop, MPc.armed])
  · intro s' hs
    simp only [step] at hs
    split at hs
    · rename_i hm
      cases hs
      have : s.kr = true := hd.2.2.2.1 (by simp [hm, MPc.armed]) (by simp [hm]) (by simp [hm])
        (by simp [hm])
      simp [this]
    · cases hs

def secondRunSchedule : List Label :=
  [.mReset, .mArm, .mStartReset, .mArmClock, .mClear, .mSpawn, .mLoopGo, .mExec .delay,
   .mPauseTest true, .mWaitTest, .mEventWait, .rStopRun, .rStopClock, .kLoop false, .kFinal false,
   .mWaitRet, .mAdvance, .mLoopExit, .mClockStop, .mFlush,
   -- the same job again
   .mRestart, .mReset, .mArm, .mStartReset, .mArmClock, .mClear, .mSpawn, .mLoopGo, .mExec .cmd,
   .mAdvance, .mLoopGo, .mExec .delay, .mPauseTest true, .mWaitTest, .mEventWait,
   .kLoop true, .kSleep true, .kSet true, .mWaitRet, .mPauseTest false, .mAdvance, .mLoopExit,
   .mClockStop, .mFlush, .kClear true, .kLoop true, .kFinal true]

/-- non-vacuity: a run stopped inside a delay, then the same job again, which completes -/
theorem C09_second_run_reachable :
    ∃ s, runFrom init secondRunSchedule = some s ∧ s.run2 = true ∧ s.mpc = .done ∧ s.cmds = 1 ∧
      s.exitStopped = false ∧ s.cutShort = false ∧ s.k0 = .done ∧ s.k1 = .done := by decide

/-! ## `stop_all` leaves the queue empty and nothing further starts -/

open Queue in
/-- **stop-all empties the queue.** After `clear_queue`, whatever sequence of controller
operations follows (jobs finishing, `_run_next_job`, `stop_current`) — anything but a new
`add_job` — the queue stays empty and no further job is started. -/
theorem C09_stop_all_empties_queue (j : JC) (ops : List Op) :
    (ops.foldl Queue.apply (Queue.apply j .clearQueue)).queue = [] ∧
    (ops.foldl Queue.apply (Queue.apply j .clearQueue)).started = j.started := by
  have gen : ∀ (ops : List Op) (j' : JC), j'.queue = [] →
      (ops.foldl Queue.apply j').queue = [] ∧ (ops.foldl Queue.apply j').started = j'.started := by
    intro ops
    induction ops with
    | nil => intro j' h; exact ⟨h, rfl⟩
    | cons op rest ih =>
      intro j' h
      have h1 : (Queue.apply j' op).queue = [] ∧ (Queue.apply j' op).started = j'.started := by
        cases op <;> simp [Queue.apply, Queue.runNext, h] <;> (try split) <;> simp_all
      have := ih (Queue.apply j' op) h1.1
      simp only [List.foldl]
      exact ⟨this.1, this.2.trans h1.2⟩
  exact gen ops (Queue.apply j .clearQueue) (by simp [Queue.apply])

/-- the current job receives the stop request -/
theorem C09_stop_all_stops_current (j : Queue.JC) (a : Nat) (h : j.active = some a) :
    a ∈ (Queue.apply (Queue.apply j .clearQueue) .stopCurrent).stopRequests := by
  simp [Queue.apply, h]

/-! ## The repaired defects, as witnesses on the code variants before each fix -/

theorem stepV_fixed (s : State) (l : Label) : stepV fixed s l = step s l := by
  cases l <;> simp [stepV, step, fixed] <;> (try split) <;> (try split) <;> (try split) <;>
    simp_all

def b1Schedule : List Label :=
  [.mReset, .mArm, .mStartReset, .mArmClock, .mClear, .mSpawn, .mLoopGo, .mExec .delay,
   .mPauseTest true, .mWaitTest, .rStopRun, .rStopClock, .kLoop false, .kFinal false, .mEventWait]

/-- **B1 (repaired by d0d6252).** Without the clock thread's final `set`: the machine passes
`if self._keep_going`, the stop executes, the clock thread leaves its loop and ends, the
machine then blocks in `Event.wait()` — and no statement of any thread is enabled: it is
blocked for ever. -/
theorem C09_B1_lost_wakeup_witness :
    ∃ s, runFromV ⟨true, false, true⟩ init b1Schedule = some s ∧ s.mpc = .ww .pause ∧
      s.rpc = .done ∧ s.stopped = true ∧ s.armedAtStop = true ∧
      deadlockedV ⟨true, false, true⟩ s = true := by decide

def b3Prefix : List Label :=
  [.mReset, .mArm, .mStartReset, .mArmClock, .mClear, .mSpawn, .mLoopGo, .mExec .until_,
   .mUntilTest true, .mWaitTest, .mEventWait, .rStopRun, .rStopClock, .kLoop false, .kFinal false,
   .mWaitRet]

/-- **B3 (repaired by f1c3df5).** When `wait_until` ignores `wait()`'s result, after the stop
the machine cycles `while not match → wait() (returns at once) → while …` and comes back to
the very same state: it spins until the pattern matches, never looking at the stop. -/
theorem C09_B3_time_at_spins_witness :
    ∃ s, runFromV ⟨true, true, false⟩ init b3Prefix = some s ∧ s.mpc = .u1 ∧ s.rpc = .done ∧
      s.kr = false ∧ s.kg = false ∧
      runFromV ⟨true, true, false⟩ s [.mUntilTest true, .mWaitTest, .mWaitRet] = some s := by
  decide

def b4Prefix : List Label :=
  [.mReset, .mArm, .mStartReset, .mArmClock, .mClear, .mSpawn, .mLoopExit, .mClockStop, .mFlush,
   .kArm false]

/-- **B4 (repaired by c0f21d6).** When the clock thread arms `_keep_going` itself, a script
that ends before the thread's first statement leaves it ticking for ever: after the machine
is done the clock thread's loop returns to the same state. -/
theorem C09_B4_clock_thread_leaks_witness :
    ∃ s, runFromV ⟨false, true, true⟩ init b4Prefix = some s ∧ s.mpc = .done ∧ s.kg = true ∧
      s.k0 = .k1 ∧
      ∃ s₁, runFromV ⟨false, true, true⟩ s [.kLoop false, .kSleep false, .kSet false] = some s₁ ∧
        runFromV ⟨false, true, true⟩ s₁ [.kClear false, .kLoop false, .kSleep false, .kSet false]
          = some s₁ := by
  decide

/-- in the repaired code the schedules of B1, B3 and B4 end well: the machine is released /
leaves the wait / the clock thread ends -/
example : ∃ s, runFrom init (b1Schedule ++ [.mWaitRet, .mAdvance, .mLoopExit, .mClockStop, .mFlush])
    = some s ∧ s.mpc = .done ∧ s.k0 = .done ∧ s.exitStopped = true ∧ s.cmdsAfterStop = 0 := by
  decide
example : ∃ s, runFrom init (b3Prefix ++ [.mAdvance, .mLoopExit, .mClockStop, .mFlush]) = some s ∧
    s.mpc = .done ∧ s.k0 = .done ∧ s.exitStopped = true := by decide
example : ∃ s, runFrom init [.mReset, .mArm, .mStartReset, .mArmClock, .mClear, .mSpawn, .mLoopExit,
    .mClockStop, .mFlush, .kLoop false, .kFinal false] = some s ∧ s.mpc = .done ∧ s.k0 = .done := by
  decide

end Bardolph.Stop
