import Bardolph.Generated.ResetCoverage
import Bardolph.Model.Vm
/-!
# C17 — compiles and runs are independent of what was compiled or run before

The compiler and the machine are long-lived mutable objects; independence of history means
that everything that carries state is re-initialised by `Parser.parse` / `Context.clear` /
`CodeGen.clear` and by `Machine.reset` (+ what `Machine.run` sets itself).  The attribute
lists below are REGENERATED from the Python source on every run
(`tools/sections/reset_coverage.py`); the theorems say that no attribute that carries state
is left out.  The exemption lists are the model's claim about which attributes do NOT carry
state between uses; each entry is justified, and the history correspondence of
`harness/c17.py` (same text on a used and on a fresh object) is what ties them to the code.
-/
namespace Bardolph.C17
open Bardolph.Generated.ResetCoverage

/-- `Machine` attributes that do not carry run state:
`_clock` is the shared clock service (restarted by `run`), `_fn_table` is the constant
dispatch table, `_vm_discover` only holds references to the register file and call stack. -/
def machineExempt : List String := ["_clock", "_fn_table", "_vm_discover"]

/-- sub-objects hold references to the register file and the call stack, which `Machine.reset`
resets itself -/
def refAttrs : List String := ["_call_stack", "_reg"]

/-- `Parser` attributes that do not carry state from one `parse` to the next:
`_command_map` is the constant dispatch table, `_token_trace` a debugging switch,
`_lexer` is never used, `_op_code` is written by `_action` before every use. -/
def parserExempt : List String := ["_command_map", "_token_trace", "_lexer", "_op_code"]

/-- **run_history_free (coverage form).**  Every `Machine` attribute that carries run state is
re-initialised by `reset()` or set by `run()` before the first instruction. -/
theorem C17_machine_reset_covers_state :
    ∀ a ∈ machineAttrs, a ∉ machineExempt → a ∈ machineReset ∨ a ∈ machineRunSets := by
  decide

/-- the register file is re-created as a whole; the output accumulator and the evaluation
stack — the only state of `VmIo` and `VmMath` — are cleared -/
theorem C17_subobjects_reset :
    registersReset = ["*"] ∧
    (∀ a ∈ vmIoAttrs, a ∉ refAttrs → a ∈ vmIoReset) ∧
    (∀ a ∈ vmMathAttrs, a ∉ refAttrs → a ∈ vmMathReset) ∧
    "_top" ∈ callStackReset ∧
    "_vm_io" ∈ machineReset ∧ "_vm_math" ∈ machineReset ∧ "_call_stack" ∈ machineReset ∧
    "_reg" ∈ machineReset := by
  decide

/-- **parse_history_free (coverage form).**  Every `Parser` attribute that carries state is
re-initialised at the start of `parse()`; every `Context` attribute that is used anywhere is
cleared by `Context.clear()`; the code generator's only attribute is cleared. -/
theorem C17_parse_resets_state :
    (∀ a ∈ parserAttrs, a ∉ parserExempt → a ∈ parserParseResets) ∧
    (∀ a ∈ contextAttrs, a ∈ contextUsed → a ∈ contextClear) ∧
    (∀ a ∈ codeGenAttrs, a ∈ codeGenClear) := by
  decide

/-! ### the model side: a run depends only on the image and the lights

`Vm.init` is the state `Machine.reset()` followed by the start of `Machine.run()` establishes
(the coverage theorems above are why that is all there is).  In the model the compiled
program is an argument of `run` and cannot be altered by it, and a run is a function of the
image and the lights only — these are typing facts of the model, not theorems; what ties them
to the code is `harness/c17.py`: repeated and interleaved executions and compiles on used
objects are compared with fresh ones, and the real program is compared before and after
every execution. -/

example : "_unnamed" ∈ vmIoReset ∧ "_in_matrix" ∈ contextClear ∧
    "_current_token" ∈ parserParseResets := by decide

end Bardolph.C17
