import Bardolph.Model.Units
namespace Bardolph.Units
open Bardolph.Generated.Units

theorem C14_machine_table_agrees :
    machineConvertFn.all (fun e => convertFn.contains e) = true := by decide
