import Bardolph.Proofs.Switch
/-!
# C14 — switching units re-expresses settings without changing what the lights get

Theorems about `switchUnitMode` (the model of `machine.py:_switch_unit_mode`) and what a
`set` placed after the switch transmits (`wireColor`, `wireDuration`, `delaySeconds`).
All numeric literals and the conversion tables come from `Bardolph.Generated.Units`.

Specification side: `manualRewrites` is the table "Changed When Switching Units Mode" of
`docs/language.rst`; `Documented` are the documented valid ranges of the settings in force;
`HueSame` identifies the hue 65535 with 0; `SameColour` compares two transmitted colours as
colours (the rgb triple their hue/saturation/brightness denote) and their kelvin.
-/
namespace Bardolph.Units
open Bardolph.Generated.Units

/-! ## The tables of the source are the tables of the model -/

theorem C14_tables_agree :
    convertFn = modelConvertFn ∧
    machineConvertFn.all (fun e => convertFn.contains e) = true ∧ machineConvertFn.length = 6 ∧
    switchModes = ["RAW", "RAW"] ∧
    switchCalls = ["time_raw", "time_raw", "time_logical", "time_logical"] := by decide

/-! ## A switch to the mode in force changes nothing -/

theorem C14_same_mode_noop (r : Regs) : switchUnitMode r r.unitMode = r := by
  simp [switchUnitMode]

/-! ## kelvin -/

theorem rgbToRaw_k (c : Color) : (rgbToRaw c).k = c.k := rfl
theorem rgbToLogical_k (c : Color) : (rgbToLogical c).k = c.k := rfl
theorem rawToRgb_k (c : Color) : (rawToRgb c).k = c.k := rfl
theorem logicalToRgb_k (c : Color) : (logicalToRgb c).k = c.k := rfl

/-- **kelvin_untouched**: no switch alters `kelvin` (for `raw → logical` the source clamps a
negative kelvin to 0, so there the documented range `0 ≤ kelvin` is assumed; see
`C14_kelvin_negative_witness`). -/
theorem C14_kelvin_untouched (r : Regs) (dst : Mode)
    (h : r.unitMode = .raw → dst = .logical → 0 ≤ r.kelvin) :
    (switchUnitMode r dst).kelvin = r.kelvin := by
  by_cases hsame : r.unitMode = dst
  · rw [← hsame, C14_same_mode_noop]
  · have hk : (switchUnitMode r dst).kelvin = (convert r.unitMode dst r.getColor).k := by
      cases hm : r.unitMode <;> cases dst <;>
        simp_all [switchUnitMode, Regs.getColor, Regs.storeColor]
    have hg : r.getColor.k = r.kelvin := by
      unfold Regs.getColor; split <;> rfl
    rw [hk]
    cases hm : r.unitMode <;> cases dst <;> simp_all [convert, logicalToRaw, rgbToRaw_k,
      rgbToLogical_k, rawToRgb_k, logicalToRgb_k]
    -- raw → logical
    unfold rawToLogical
    simp only [r2lKelvinFloor]
    push_cast
    rw [hg]
    exact rmax_zero_of_nonneg h

/-- outside the documented range: a negative kelvin is rewritten by `raw → logical` -/
theorem C14_kelvin_negative_witness :
    (switchUnitMode ⟨0, 0, 0, -5, 0, 0, 0, 0, .num 0, false, .raw⟩ .logical).kelvin ≠ -5 := by
  decide +kernel

/-! ## Exactly the documented settings are rewritten -/

/-- the settings of the manual's table -/
inductive RegName where
  | time | duration | hue | saturation | brightness | red | green | blue
  deriving DecidableEq, Repr

def Regs.field (r : Regs) : RegName → TimeReg
  | .time => r.time
  | .duration => .num r.duration
  | .hue => .num r.hue
  | .saturation => .num r.saturation
  | .brightness => .num r.brightness
  | .red => .num r.red
  | .green => .num r.green
  | .blue => .num r.blue

def allRegNames : List RegName :=
  [.time, .duration, .hue, .saturation, .brightness, .red, .green, .blue]

/-- docs/language.rst, table "Changed When Switching Units Mode": the ticked columns -/
def manualRewrites : Mode → Mode → List RegName
  | .logical, .raw => [.time, .duration, .hue, .saturation, .brightness]
  | .raw, .logical => [.time, .duration, .hue, .saturation, .brightness]
  | .rgb, .raw => [.time, .duration, .hue, .saturation, .brightness]
  | .raw, .rgb => [.time, .duration, .red, .green, .blue]
  | .rgb, .logical => [.hue, .saturation, .brightness]
  | .logical, .rgb => [.red, .green, .blue]
  | _, _ => []

/-- **rewrites_exactly** (⊆): a setting the manual does not list for the transition keeps
its value, whatever the registers hold. -/
theorem C14_rewrites_exactly (r : Regs) (dst : Mode) (reg : RegName)
    (h : reg ∉ manualRewrites r.unitMode dst) :
    (switchUnitMode r dst).field reg = r.field reg := by
  cases hm : r.unitMode <;> cases dst <;> cases reg <;>
    simp_all [manualRewrites, switchUnitMode, Regs.field, Regs.storeColor, Regs.getColor]

/-- a register file in which every setting is visibly affected by a rewrite -/
def witnessRegs (m : Mode) : Regs :=
  match m with
  | .raw => ⟨12000, 30000, 20000, 2700, 10, 20, 30, 2500, .num 1500, false, .raw⟩
  | m => ⟨120, 50, 25, 2700, 10, 20, 30, 5 / 2, .num (3 / 2), false, m⟩

/-- **rewrites_exactly** (⊇): every setting the manual lists for a transition is really
rewritten — for each of the six transitions there are register contents on which each listed
setting changes. -/
theorem C14_rewrites_tight :
    (allModes.all fun a => allModes.all fun b => (manualRewrites a b).all fun reg =>
      decide ((switchUnitMode (witnessRegs a) b).field reg ≠ (witnessRegs a).field reg)) = true := by
  decide +kernel

/-! ## Duration and pending delay -/

theorem storeColor_duration (r : Regs) (c : Color) :
    (r.storeColor c).duration = r.duration ∧ (r.storeColor c).time = r.time ∧
    (r.storeColor c).unitMode = r.unitMode := by
  unfold Regs.storeColor; split <;> simp

theorem param32_eq_of_tiny {d : Rat} (_h1 : -eps < d) (h2 : d < eps) : param32 d = 0 := by
  have he := eps_val
  rw [he] at h2
  have e : param32 d = roundHalfEven (clampQ 0 4294967295 d) := by
    simp [param32, paramN_eq, param32Lo, param32Hi]
  rw [e]
  by_cases h0 : d ≤ 0
  · rw [clampQ_of_le (by norm_num) h0]; exact roundHalfEven_intCast 0
  · rw [clampQ_of_mem (by linarith) (by linarith)]
    exact roundHalfEven_eq_of_close (n := 0) (by push_cast; linarith) (by push_cast; linarith)

/-- **switch_time** (duration): the duration a following `set`/`on`/`off` transmits is the
same as without the switch — exactly, for any register contents and any transition. -/
theorem C14_switch_time (r : Regs) (dst : Mode) :
    wireDuration (switchUnitMode r dst) = wireDuration r := by
  by_cases hsame : r.unitMode = dst
  · rw [← hsame, C14_same_mode_noop]
  · have key : (switchUnitMode r dst).unitMode = dst ∧
        (switchUnitMode r dst).duration =
          (if dst = .raw then timeRaw r.duration
           else if r.unitMode = .raw then timeLogical r.duration else r.duration) := by
      cases hm : r.unitMode <;> cases dst <;>
        simp_all [switchUnitMode, Regs.storeColor]
    unfold wireDuration
    rw [key.1, key.2]
    cases hm : r.unitMode <;> cases dst <;> simp_all [asRawTime]
    all_goals
      unfold timeLogical timeRaw
      simp only [timeLogicalZero, timeLogicalDivisor, timeRawFactor]
      push_cast
      split_ifs with ht
      · rw [zero_mul]
        have : param32 0 = 0 := by
          have := param32_int (n := 0) ⟨by norm_num, by norm_num⟩
          simpa using this
        rw [this, param32_eq_of_tiny ht.1 ht.2]
      · congr 1
        field_simp

/-- the pause for a numeric `time` setting -/
def delayOf (m : Mode) (t : Rat) : Option Rat :=
  if 0 < t then some (if m = .raw then t / 1000 else t) else none

theorem delayOf_timeRaw (m : Mode) (hm : m ≠ .raw) (t : Rat) :
    delayOf .raw (timeRaw t) = delayOf m t := by
  unfold delayOf timeRaw
  simp only [timeRawFactor, if_neg hm, if_true]
  push_cast
  by_cases ht : 0 < t
  · have h2 : 0 < t * 1000 := by positivity
    rw [if_pos ht, if_pos h2]
    congr 1
    field_simp
  · have h2 : ¬ 0 < t * 1000 := fun hc => ht (by linarith)
    rw [if_neg ht, if_neg h2]

theorem delayOf_timeLogical (m : Mode) (hm : m ≠ .raw) (t : Rat) (h : t ≤ 0 ∨ eps ≤ t) :
    delayOf m (timeLogical t) = delayOf .raw t := by
  have he := eps_val
  unfold delayOf timeLogical
  simp only [timeLogicalZero, timeLogicalDivisor, if_neg hm, if_true]
  push_cast
  by_cases hz : -eps < t ∧ t < eps
  · have ht : ¬ 0 < t := by
      rcases h with h | h
      · linarith
      · linarith [hz.2]
    rw [if_pos hz, if_neg (lt_irrefl 0), if_neg ht]
  · rw [if_neg hz]
    by_cases ht : 0 < t
    · have h2 : 0 < t / 1000 := by positivity
      rw [if_pos ht, if_pos h2]
    · have h2 : ¬ 0 < t / 1000 := by
        intro hc
        apply ht
        have := mul_pos hc (show (0 : Rat) < 1000 by norm_num)
        rwa [div_mul_cancel₀ _ (show (1000 : Rat) ≠ 0 by norm_num)] at this
      rw [if_neg ht, if_neg h2]

/-- **switch_time** (delay): the pause a following `wait` asks the clock for is the same as
without the switch (a time-of-day pattern in the `time` register is left alone).  Leaving
raw units sets a time below `_EPSILON` ms (7.6 ns) to zero, so raw times are assumed to be
zero or at least `_EPSILON`. -/
theorem C14_switch_delay (r : Regs) (dst : Mode)
    (h : ∀ t, r.unitMode = .raw → r.time = .num t → t ≤ 0 ∨ eps ≤ t) :
    delaySeconds (switchUnitMode r dst) = delaySeconds r := by
  by_cases hsame : r.unitMode = dst
  · rw [← hsame, C14_same_mode_noop]
  · have key : (switchUnitMode r dst).unitMode = dst ∧
        (switchUnitMode r dst).time =
          (if dst = .raw then r.time.map timeRaw
           else if r.unitMode = .raw then r.time.map timeLogical else r.time) := by
      cases hm : r.unitMode <;> cases dst <;>
        simp_all [switchUnitMode, Regs.storeColor]
    have dn : ∀ (q : Regs) (t : Rat), q.time = .num t → delaySeconds q = delayOf q.unitMode t := by
      intro q t hq
      simp [delaySeconds, delayOf, hq]
    cases htime : r.time with
    | pattern =>
      have : (switchUnitMode r dst).time = .pattern := by
        rw [key.2, htime]; split_ifs <;> rfl
      simp [delaySeconds, this, htime]
    | num t =>
      rw [dn r t htime]
      by_cases hd : dst = .raw
      · have ht : (switchUnitMode r dst).time = .num (timeRaw t) := by
          rw [key.2, htime, if_pos hd]; rfl
        rw [dn _ _ ht, key.1, hd]
        exact delayOf_timeRaw _ (by rw [← hd]; exact hsame) t
      · by_cases hs : r.unitMode = .raw
        · have ht : (switchUnitMode r dst).time = .num (timeLogical t) := by
            rw [key.2, htime, if_neg hd, if_pos hs]; rfl
          rw [dn _ _ ht, key.1, hs]
          exact delayOf_timeLogical dst hd t (h t hs htime)
        · have ht : (switchUnitMode r dst).time = .num t := by
            rw [key.2, htime, if_neg hd, if_neg hs]
          rw [dn _ _ ht, key.1]
          unfold delayOf
          rw [if_neg hd, if_neg hs]

/-! ## What the lights get -/

/-- the documented valid ranges of the colour settings in force -/
def Documented (r : Regs) : Prop :=
  match r.unitMode with
  | .logical => (0 ≤ r.hue ∧ r.hue ≤ 360) ∧ (0 ≤ r.saturation ∧ r.saturation ≤ 100) ∧
      (0 ≤ r.brightness ∧ r.brightness ≤ 100)
  | .raw => (0 ≤ r.hue ∧ r.hue ≤ 65535) ∧ (0 ≤ r.saturation ∧ r.saturation ≤ 65535) ∧
      (0 ≤ r.brightness ∧ r.brightness ≤ 65535)
  | .rgb => (0 ≤ r.red ∧ r.red ≤ 100) ∧ (0 ≤ r.green ∧ r.green ≤ 100) ∧
      (0 ≤ r.blue ∧ r.blue ≤ 100)

/-- two transmitted colours are the same up to the identification of hue 65535 with 0 -/
def WireSame (w1 w2 : Int × Int × Int × Int) : Prop := HueSame w1.1 w2.1 ∧ w1.2 = w2.2

/-- the colour a transmitted (hue, saturation, brightness, kelvin) denotes -/
def colourOfWire (w : Int × Int × Int × Int) : Rat × Rat × Rat :=
  colourOfHsb (w.1 : Rat) (w.2.1 : Rat) (w.2.2.1 : Rat)

/-- two transmitted colours compared as colours, and their kelvin -/
def SameColour (w1 w2 : Int × Int × Int × Int) : Prop :=
  colourOfWire w1 = colourOfWire w2 ∧ w1.2.2.2 = w2.2.2.2

theorem WireSame.sameColour {w1 w2 : Int × Int × Int × Int} (h : WireSame w1 w2) :
    SameColour w1 w2 := by
  obtain ⟨h1, h2⟩ := h
  refine ⟨?_, by rw [h2]⟩
  unfold colourOfWire
  rw [h2]
  exact colourOfHsb_hueSame h1 _ _

theorem SameColour.trans {a b c : Int × Int × Int × Int} (h1 : SameColour a b)
    (h2 : SameColour b c) : SameColour a c :=
  ⟨h1.1.trans h2.1, h1.2.trans h2.2⟩

theorem wireColor_eq (r : Regs) : wireColor r = paramColor (toRaw r.unitMode r.getColor) := by
  rw [wireColor, asRawColor_eq]

theorem wireColor_switch (r : Regs) (dst : Mode) (h : r.unitMode ≠ dst) :
    wireColor (switchUnitMode r dst) = paramColor (toRaw dst (convert r.unitMode dst r.getColor)) := by
  rw [wireColor, asRawColor_switch r dst h]

/-- entering raw units (from logical or rgb): the registers receive exactly what
`_as_raw_color` computed before, so the transmitted colour is identical -/
theorem wire_to_raw (r : Regs) (h : r.unitMode ≠ .raw) :
    wireColor (switchUnitMode r .raw) = wireColor r := by
  rw [wireColor_switch r .raw h, wireColor_eq]
  cases hm : r.unitMode <;> simp_all [toRaw, convert]

theorem param16_rmax_zero (k : Rat) : param16 (rmax k 0) = param16 k := by
  by_cases hk : 0 ≤ k
  · rw [rmax_zero_of_nonneg hk]
  · have : rmax k 0 = 0 := by unfold rmax; rw [if_pos (by linarith)]
    rw [this, param16_zero, param16_eq_rnd16, rnd16_small (by linarith)]

theorem pct_back_q (y : Rat) (hy : 0 ≤ y) :
    param16 (pctToRaw (rmax (if (65535 : Rat) ≤ y then 100 else y / 65535 * 100) 0)) = param16 y := by
  split_ifs with hc
  · rw [rmax_zero_of_nonneg (by norm_num), pct_step, param16_eq_rnd16]
    rw [show (100 : Rat) / 100 * 65535 = ((65535 : Int) : Rat) by norm_num,
      rnd16_int ⟨by norm_num, by norm_num⟩]
    unfold rnd16
    rw [clampQ_of_ge (by norm_num) hc]
    exact (roundHalfEven_intCast 65535).symm
  · have hv : (0 : Rat) ≤ y / 65535 * 100 := by positivity
    rw [rmax_zero_of_nonneg hv, pct_step, param16_eq_rnd16]
    congr 1
    field_simp

theorem hue_back_q (x : Rat) (h0 : 0 ≤ x) (h1 : x ≤ 65535) :
    HueSame (param16 (hueToRaw (rmax (x / 65535 * 360) 0))) (param16 x) := by
  have hv : (0 : Rat) ≤ x / 65535 * 360 := by positivity
  have hv1 : x / 65535 * 360 ≤ 360 := by
    have : x / 65535 ≤ 1 := by rw [div_le_one (by norm_num)]; exact h1
    linarith
  rw [rmax_zero_of_nonneg hv]
  have := hue_step _ hv hv1
  rwa [show x / 65535 * 360 / 360 * 65535 = x by field_simp, ← param16_eq_rnd16] at this

/-- leaving raw units for logical units -/
theorem wire_raw_to_logical (r : Regs) (hm : r.unitMode = .raw) (hd : Documented r) :
    WireSame (wireColor (switchUnitMode r .logical)) (wireColor r) := by
  have hne : r.unitMode ≠ .logical := by rw [hm]; decide
  unfold Documented at hd
  rw [hm] at hd
  obtain ⟨⟨x0, x1⟩, ⟨y0, _⟩, ⟨z0, _⟩⟩ := hd
  rw [wireColor_switch r .logical hne, wireColor_eq, hm]
  have hg : r.getColor = ⟨r.hue, r.saturation, r.brightness, r.kelvin⟩ := by
    simp [Regs.getColor, hm]
  rw [hg]
  have e : paramColor (toRaw .logical (convert .raw .logical ⟨r.hue, r.saturation, r.brightness, r.kelvin⟩)) =
      (param16 (hueToRaw (rmax (r.hue / 65535 * 360) 0)),
       param16 (pctToRaw (rmax (if (65535 : Rat) ≤ r.saturation then 100 else r.saturation / 65535 * 100) 0)),
       param16 (pctToRaw (rmax (if (65535 : Rat) ≤ r.brightness then 100 else r.brightness / 65535 * 100) 0)),
       param16 (rmax r.kelvin 0)) := rfl
  rw [e, pct_back_q _ y0, pct_back_q _ z0, param16_rmax_zero]
  exact ⟨hue_back_q _ x0 x1, rfl⟩

/-- the fraction of full intensity colorsys receives for a percentage -/
def frac (p : Rat) : Rat := rmax 0 (p / 100)

theorem frac_nonneg (p : Rat) : 0 ≤ frac p := by
  unfold frac rmax; split_ifs <;> linarith

theorem frac_le_one {p : Rat} (h : p ≤ 100) : frac p ≤ 1 := by
  unfold frac rmax
  split_ifs
  · rw [div_le_one (by norm_num)]; exact h
  · norm_num

theorem frac_scaled {q : Rat} (h : 0 ≤ q) : frac (q * 100) = q := by
  unfold frac rmax
  rw [show q * 100 / 100 = q by field_simp, if_pos h]

theorem rgbFraction_r (p : Rat) : rgbFraction g2rFloor g2rDivisor p = frac p := by
  unfold rgbFraction frac
  simp only [g2rFloor, g2rDivisor]
  push_cast
  rfl

theorem rgbFraction_l (p : Rat) : rgbFraction g2lFloor g2lDivisor p = frac p := by
  unfold rgbFraction frac
  simp only [g2lFloor, g2lDivisor]
  push_cast
  rfl

theorem rgbToRaw_eq (c : Color) :
    rgbToRaw c = ⟨makeRaw (rgbToHsv (frac c.c0) (frac c.c1) (frac c.c2)).1,
      makeRaw (rgbToHsv (frac c.c0) (frac c.c1) (frac c.c2)).2.1,
      makeRaw (rgbToHsv (frac c.c0) (frac c.c1) (frac c.c2)).2.2, c.k⟩ := by
  unfold rgbToRaw
  simp only [rgbFraction_r]

theorem rgbToLogical_eq (c : Color) :
    rgbToLogical c = ⟨(rgbToHsv (frac c.c0) (frac c.c1) (frac c.c2)).1 * 360,
      (rgbToHsv (frac c.c0) (frac c.c1) (frac c.c2)).2.1 * 100,
      (rgbToHsv (frac c.c0) (frac c.c1) (frac c.c2)).2.2 * 100, c.k⟩ := by
  unfold rgbToLogical
  simp only [rgbFraction_l, g2lHueScale, g2lSatScale, g2lBriScale]
  push_cast
  rfl

theorem rawToRgb_eq (c : Color) :
    rawToRgb c = ⟨(hsvToRgb (c.c0 / 65535) (c.c1 / 65535) (c.c2 / 65535)).1 * 100,
      (hsvToRgb (c.c0 / 65535) (c.c1 / 65535) (c.c2 / 65535)).2.1 * 100,
      (hsvToRgb (c.c0 / 65535) (c.c1 / 65535) (c.c2 / 65535)).2.2 * 100, c.k⟩ := rfl

theorem logicalToRgb_eq (c : Color) :
    logicalToRgb c = ⟨(hsvToRgb (c.c0 / 360) (c.c1 / 100) (c.c2 / 100)).1 * 100,
      (hsvToRgb (c.c0 / 360) (c.c1 / 100) (c.c2 / 100)).2.1 * 100,
      (hsvToRgb (c.c0 / 360) (c.c1 / 100) (c.c2 / 100)).2.2 * 100, c.k⟩ := rfl

theorem paramColor_rgbToRaw (c : Color) :
    paramColor (rgbToRaw c) =
      (rnd16 ((rgbToHsv (frac c.c0) (frac c.c1) (frac c.c2)).1 * 65535),
       rnd16 ((rgbToHsv (frac c.c0) (frac c.c1) (frac c.c2)).2.1 * 65535),
       rnd16 ((rgbToHsv (frac c.c0) (frac c.c1) (frac c.c2)).2.2 * 65535), param16 c.k) := by
  rw [rgbToRaw_eq]
  simp only [paramColor, param16_makeRaw]

/-- leaving rgb units for logical units: the transmitted integers are the same (hue 65535
≡ 0), for any register contents -/
theorem wire_rgb_to_logical (r : Regs) (hm : r.unitMode = .rgb) :
    WireSame (wireColor (switchUnitMode r .logical)) (wireColor r) := by
  have hne : r.unitMode ≠ .logical := by rw [hm]; decide
  rw [wireColor_switch r .logical hne, wireColor_eq, hm]
  show WireSame (paramColor (logicalToRaw (rgbToLogical r.getColor))) (paramColor (rgbToRaw r.getColor))
  rw [paramColor_rgbToRaw, rgbToLogical_eq]
  obtain ⟨a1, a2, _, _, _⟩ := rgbToHsv_range _ _ _ (frac_nonneg r.getColor.c0)
    (frac_nonneg r.getColor.c1) (frac_nonneg r.getColor.c2)
  simp only [logicalToRaw, paramColor, pct_step]
  constructor
  · have := hue_step ((rgbToHsv (frac r.getColor.c0) (frac r.getColor.c1) (frac r.getColor.c2)).1 * 360)
      (by positivity) (by linarith)
    rwa [show ∀ q : Rat, q * 360 / 360 * 65535 = q * 65535 from fun q => by field_simp] at this
  · simp only [show ∀ q : Rat, q * 100 / 100 * 65535 = q * 65535 from fun q => by field_simp]

/-- entering rgb units from a hue/saturation/brightness triple given as fractions: what is
transmitted afterwards denotes the colour of the triple rounded to 16 bits -/
theorem enter_rgb (h s v k : Rat) (hh0 : 0 ≤ h) (hh1 : h ≤ 1) (hs0 : 0 ≤ s) (hs1 : s ≤ 1)
    (hv0 : 0 ≤ v) :
    colourOfWire (paramColor (rgbToRaw ⟨(hsvToRgb h s v).1 * 100, (hsvToRgb h s v).2.1 * 100,
        (hsvToRgb h s v).2.2 * 100, k⟩)) =
      colourOfHsb (rnd16 (h * 65535)) (rnd16 (s * 65535)) (rnd16 (v * 65535)) ∧
    (paramColor (rgbToRaw ⟨(hsvToRgb h s v).1 * 100, (hsvToRgb h s v).2.1 * 100,
        (hsvToRgb h s v).2.2 * 100, k⟩)).2.2.2 = param16 k := by
  obtain ⟨r0, _, g0, _, b0, _⟩ := hsvToRgb_range h s v hh0 hh1 hs0 hs1 hv0
  rw [paramColor_rgbToRaw]
  simp only [frac_scaled r0, frac_scaled g0, frac_scaled b0, colourOfWire]
  exact ⟨roundtrip_colour h s v hh0 hh1 hs0 hs1 hv0, trivial⟩

theorem unit_div {x m : Rat} (hm : 0 < m) (h0 : 0 ≤ x) (h1 : x ≤ m) : 0 ≤ x / m ∧ x / m ≤ 1 :=
  ⟨by positivity, by rw [div_le_one hm]; exact h1⟩

/-- entering rgb units from raw units -/
theorem colour_raw_to_rgb (r : Regs) (hm : r.unitMode = .raw) (hd : Documented r) :
    SameColour (wireColor (switchUnitMode r .rgb)) (wireColor r) := by
  have hne : r.unitMode ≠ .rgb := by rw [hm]; decide
  unfold Documented at hd
  rw [hm] at hd
  obtain ⟨⟨x0, x1⟩, ⟨y0, y1⟩, ⟨z0, z1⟩⟩ := hd
  rw [wireColor_switch r .rgb hne, wireColor_eq, hm]
  have hg : r.getColor = ⟨r.hue, r.saturation, r.brightness, r.kelvin⟩ := by
    simp [Regs.getColor, hm]
  rw [hg]
  show SameColour (paramColor (rgbToRaw (rawToRgb ⟨r.hue, r.saturation, r.brightness, r.kelvin⟩)))
    (paramColor ⟨r.hue, r.saturation, r.brightness, r.kelvin⟩)
  rw [rawToRgb_eq]
  obtain ⟨hx0, hx1⟩ := unit_div (by norm_num : (0 : Rat) < 65535) x0 x1
  obtain ⟨hy0, hy1⟩ := unit_div (by norm_num : (0 : Rat) < 65535) y0 y1
  obtain ⟨hz0, _⟩ := unit_div (by norm_num : (0 : Rat) < 65535) z0 z1
  obtain ⟨e1, e2⟩ := enter_rgb (r.hue / 65535) (r.saturation / 65535) (r.brightness / 65535) r.kelvin
    hx0 hx1 hy0 hy1 hz0
  refine ⟨?_, e2⟩
  rw [e1]
  simp only [colourOfWire, paramColor, param16_eq_rnd16,
    show ∀ q : Rat, q / 65535 * 65535 = q from fun q => by field_simp]

/-- entering rgb units from logical units -/
theorem colour_logical_to_rgb (r : Regs) (hm : r.unitMode = .logical) (hd : Documented r) :
    SameColour (wireColor (switchUnitMode r .rgb)) (wireColor r) := by
  have hne : r.unitMode ≠ .rgb := by rw [hm]; decide
  unfold Documented at hd
  rw [hm] at hd
  obtain ⟨⟨x0, x1⟩, ⟨y0, y1⟩, ⟨z0, z1⟩⟩ := hd
  rw [wireColor_switch r .rgb hne, wireColor_eq, hm]
  have hg : r.getColor = ⟨r.hue, r.saturation, r.brightness, r.kelvin⟩ := by
    simp [Regs.getColor, hm]
  rw [hg]
  show SameColour (paramColor (rgbToRaw (logicalToRgb ⟨r.hue, r.saturation, r.brightness, r.kelvin⟩)))
    (paramColor (logicalToRaw ⟨r.hue, r.saturation, r.brightness, r.kelvin⟩))
  rw [logicalToRgb_eq]
  obtain ⟨hx0, hx1⟩ := unit_div (by norm_num : (0 : Rat) < 360) x0 x1
  obtain ⟨hy0, hy1⟩ := unit_div (by norm_num : (0 : Rat) < 100) y0 y1
  obtain ⟨hz0, _⟩ := unit_div (by norm_num : (0 : Rat) < 100) z0 z1
  obtain ⟨e1, e2⟩ := enter_rgb (r.hue / 360) (r.saturation / 100) (r.brightness / 100) r.kelvin
    hx0 hx1 hy0 hy1 hz0
  refine ⟨?_, e2⟩
  rw [e1]
  simp only [colourOfWire, paramColor, logicalToRaw, pct_step]
  exact (colourOfHsb_hueSame (hue_step r.hue x0 x1) _ _).symm

theorem HueSame.refl (a : Int) : HueSame a a := Or.inl rfl

theorem HueSame.trans {a b c : Int} (h1 : HueSame a b) (h2 : HueSame b c) : HueSame a c := by
  unfold HueSame at *
  omega

theorem WireSame.refl (w : Int × Int × Int × Int) : WireSame w w := ⟨HueSame.refl _, rfl⟩

theorem WireSame.trans {a b c : Int × Int × Int × Int} (h1 : WireSame a b) (h2 : WireSame b c) :
    WireSame a c := ⟨h1.1.trans h2.1, h1.2.trans h2.2⟩

theorem SameColour.refl (w : Int × Int × Int × Int) : SameColour w w := ⟨rfl, rfl⟩

/-- **switch_preserves_wire**: for every transition that does not enter rgb units
(logical ↔ raw, rgb → raw, rgb → logical, and switches to the mode in force) a following `set`
transmits the same integers as without the switch — exactly, except that a hue of 65535 may
become 0 (the same angle).  Entering raw units needs no range assumption at all
(`wire_to_raw`); leaving raw units assumes the documented range 0…65535. -/
theorem C14_switch_preserves_wire (r : Regs) (dst : Mode) (hd : Documented r)
    (h : dst = .rgb → r.unitMode = .rgb) :
    WireSame (wireColor (switchUnitMode r dst)) (wireColor r) := by
  by_cases hsame : r.unitMode = dst
  · rw [← hsame, C14_same_mode_noop]; exact WireSame.refl _
  · cases dst with
    | raw => rw [wire_to_raw r hsame]; exact WireSame.refl _
    | rgb => exact absurd (h rfl) hsame
    | logical =>
      cases hm : r.unitMode with
      | logical => exact absurd hm hsame
      | raw => exact wire_raw_to_logical r hm hd
      | rgb => exact wire_rgb_to_logical r hm

/-- **switch_preserves_colour**: for every one of the six transitions (and the three
switches to the mode in force), with the settings in force inside their documented ranges,
the colour a following `set` transmits denotes exactly the same colour as without the switch,
and the same kelvin.  (When the colour has a hue — saturation and brightness not zero — even
the transmitted integers are the same; a grey or black colour loses its unused hue, which is
why rgb transitions are compared as colours.) -/
theorem C14_switch_preserves_colour (r : Regs) (dst : Mode) (hd : Documented r) :
    SameColour (wireColor (switchUnitMode r dst)) (wireColor r) := by
  by_cases h : dst = .rgb → r.unitMode = .rgb
  · exact (C14_switch_preserves_wire r dst hd h).sameColour
  · have hdst : dst = .rgb := by
      by_contra hc; exact h (fun hh => absurd hh hc)
    have hsrc : r.unitMode ≠ .rgb := fun hc => h (fun _ => hc)
    subst hdst
    cases hm : r.unitMode with
    | rgb => exact absurd hm hsrc
    | raw => exact colour_raw_to_rgb r hm hd
    | logical => exact colour_logical_to_rgb r hm hd

/-! ## The documented ranges are kept by every switch -/

/-- the documented range of a colour held in the units `m` -/
def DocColor (m : Mode) (c : Color) : Prop :=
  match m with
  | .logical => (0 ≤ c.c0 ∧ c.c0 ≤ 360) ∧ (0 ≤ c.c1 ∧ c.c1 ≤ 100) ∧ (0 ≤ c.c2 ∧ c.c2 ≤ 100)
  | .raw => (0 ≤ c.c0 ∧ c.c0 ≤ 65535) ∧ (0 ≤ c.c1 ∧ c.c1 ≤ 65535) ∧ (0 ≤ c.c2 ∧ c.c2 ≤ 65535)
  | .rgb => (0 ≤ c.c0 ∧ c.c0 ≤ 100) ∧ (0 ≤ c.c1 ∧ c.c1 ≤ 100) ∧ (0 ≤ c.c2 ∧ c.c2 ≤ 100)

theorem documented_iff (r : Regs) : Documented r ↔ DocColor r.unitMode r.getColor := by
  cases hm : r.unitMode <;> simp [Documented, DocColor, Regs.getColor, hm]

theorem hueToRaw_range (d : Rat) : 0 ≤ hueToRaw d ∧ hueToRaw d ≤ 65535 := by
  unfold hueToRaw
  simp only [l2rWrapLo, l2rWrapHi, l2rHueZero, l2rHueModulus, l2rHueDivisor, l2rHueScale]
  push_cast
  split_ifs
  · constructor <;> norm_num
  · obtain ⟨h0, h1⟩ := pyMod_range (m := 360) (by norm_num) d
    constructor
    · positivity
    · linarith

theorem pctToRaw_range {p : Rat} (h0 : 0 ≤ p) (h1 : p ≤ 100) : 0 ≤ pctToRaw p ∧ pctToRaw p ≤ 65535 := by
  unfold pctToRaw
  simp only [pctZero, pctDivisor, pctScale]
  push_cast
  split_ifs
  · constructor <;> norm_num
  · constructor
    · positivity
    · linarith

theorem makeRaw_range (q : Rat) : 0 ≤ makeRaw q ∧ makeRaw q ≤ 65535 := by
  rw [makeRaw_eq]
  obtain ⟨h0, h1⟩ := rnd16_range (q * 65535)
  exact ⟨by exact_mod_cast h0, by exact_mod_cast h1⟩

theorem rawToLogical_eq (c : Color) :
    rawToLogical c = ⟨rmax (c.c0 / 65535 * 360) 0,
      rmax (if (65535 : Rat) ≤ c.c1 then 100 else c.c1 / 65535 * 100) 0,
      rmax (if (65535 : Rat) ≤ c.c2 then 100 else c.c2 / 65535 * 100) 0, rmax c.k 0⟩ := rfl

theorem pct_of_raw_range {y : Rat} (h0 : 0 ≤ y) :
    0 ≤ rmax (if (65535 : Rat) ≤ y then 100 else y / 65535 * 100) 0 ∧
    rmax (if (65535 : Rat) ≤ y then 100 else y / 65535 * 100) 0 ≤ 100 := by
  split_ifs with hc
  · rw [rmax_zero_of_nonneg (by norm_num)]; constructor <;> norm_num
  · have hv : (0 : Rat) ≤ y / 65535 * 100 := by positivity
    rw [rmax_zero_of_nonneg hv]
    refine ⟨hv, ?_⟩
    have : y / 65535 ≤ 1 := by rw [div_le_one (by norm_num)]; linarith
    linarith

theorem docColor_convert (src dst : Mode) (c : Color) (h : DocColor src c) :
    DocColor dst (convert src dst c) := by
  cases src <;> cases dst <;> simp only [convert, id] <;> try exact h
  · -- logical → raw
    obtain ⟨_, ⟨y0, y1⟩, ⟨z0, z1⟩⟩ := h
    exact ⟨hueToRaw_range _, pctToRaw_range y0 y1, pctToRaw_range z0 z1⟩
  · -- logical → rgb
    obtain ⟨⟨x0, x1⟩, ⟨y0, y1⟩, ⟨z0, z1⟩⟩ := h
    rw [logicalToRgb_eq]
    obtain ⟨hx0, hx1⟩ := unit_div (by norm_num : (0 : Rat) < 360) x0 x1
    obtain ⟨hy0, hy1⟩ := unit_div (by norm_num : (0 : Rat) < 100) y0 y1
    obtain ⟨hz0, hz1⟩ := unit_div (by norm_num : (0 : Rat) < 100) z0 z1
    obtain ⟨a0, a1, b0, b1, c0, c1⟩ := hsvToRgb_range _ _ _ hx0 hx1 hy0 hy1 hz0
    exact ⟨⟨by positivity, by linarith⟩, ⟨by positivity, by linarith⟩, ⟨by positivity, by linarith⟩⟩
  · -- raw → logical
    obtain ⟨⟨x0, x1⟩, ⟨y0, _⟩, ⟨z0, _⟩⟩ := h
    rw [rawToLogical_eq]
    have hv : (0 : Rat) ≤ c.c0 / 65535 * 360 := by positivity
    refine ⟨?_, pct_of_raw_range y0, pct_of_raw_range z0⟩
    rw [rmax_zero_of_nonneg hv]
    refine ⟨hv, ?_⟩
    have : c.c0 / 65535 ≤ 1 := by rw [div_le_one (by norm_num)]; exact x1
    linarith
  · -- raw → rgb
    obtain ⟨⟨x0, x1⟩, ⟨y0, y1⟩, ⟨z0, z1⟩⟩ := h
    rw [rawToRgb_eq]
    obtain ⟨hx0, hx1⟩ := unit_div (by norm_num : (0 : Rat) < 65535) x0 x1
    obtain ⟨hy0, hy1⟩ := unit_div (by norm_num : (0 : Rat) < 65535) y0 y1
    obtain ⟨hz0, hz1⟩ := unit_div (by norm_num : (0 : Rat) < 65535) z0 z1
    obtain ⟨a0, a1, b0, b1, c0, c1⟩ := hsvToRgb_range _ _ _ hx0 hx1 hy0 hy1 hz0
    exact ⟨⟨by positivity, by linarith⟩, ⟨by positivity, by linarith⟩, ⟨by positivity, by linarith⟩⟩
  · -- rgb → logical
    obtain ⟨⟨x0, x1⟩, ⟨y0, y1⟩, ⟨z0, z1⟩⟩ := h
    rw [rgbToLogical_eq]
    obtain ⟨a1, a2, a3, a4, a5⟩ := rgbToHsv_range _ _ _ (frac_nonneg c.c0) (frac_nonneg c.c1)
      (frac_nonneg c.c2)
    have hv : (rgbToHsv (frac c.c0) (frac c.c1) (frac c.c2)).2.2 ≤ 1 := by
      rw [rgbToHsv_value]
      have := frac_le_one x1
      have := frac_le_one y1
      have := frac_le_one z1
      unfold rmax
      split_ifs <;> linarith
    exact ⟨⟨by positivity, by linarith⟩, ⟨by positivity, by linarith⟩, ⟨by positivity, by linarith⟩⟩
  · -- rgb → raw
    rw [rgbToRaw_eq]
    exact ⟨makeRaw_range _, makeRaw_range _, makeRaw_range _⟩

/-- a switch leaves the settings in force inside their documented ranges -/
theorem C14_switch_documented (r : Regs) (dst : Mode) (hd : Documented r) :
    Documented (switchUnitMode r dst) := by
  by_cases hsame : r.unitMode = dst
  · rw [← hsame, C14_same_mode_noop]; exact hd
  · obtain ⟨h1, h2⟩ := getColor_switch r dst hsame
    rw [documented_iff, h1, h2]
    exact docColor_convert _ _ _ ((documented_iff r).1 hd)

/-! ## Chains of switches, by induction on the list -/

theorem switchChain_cons (r : Regs) (m : Mode) (ms : List Mode) :
    switchChain r (m :: ms) = switchChain (switchUnitMode r m) ms := rfl

theorem C14_chain_documented (ms : List Mode) (r : Regs) (hd : Documented r) :
    Documented (switchChain r ms) := by
  induction ms generalizing r with
  | nil => exact hd
  | cons m ms ih => rw [switchChain_cons]; exact ih _ (C14_switch_documented r m hd)

/-- after any chain of switches a `set` transmits the same colour (compared as a colour)
and the same kelvin as without the chain -/
theorem C14_chain_colour (ms : List Mode) (r : Regs) (hd : Documented r) :
    SameColour (wireColor (switchChain r ms)) (wireColor r) := by
  induction ms generalizing r with
  | nil => exact SameColour.refl _
  | cons m ms ih =>
    rw [switchChain_cons]
    exact (ih _ (C14_switch_documented r m hd)).trans (C14_switch_preserves_colour r m hd)

/-- after any chain of switches that never enters rgb units the transmitted integers are
the same (hue 65535 ≡ 0) -/
theorem C14_chain_wire (ms : List Mode) (r : Regs) (hd : Documented r)
    (h : ∀ m ∈ ms, m ≠ .rgb) :
    WireSame (wireColor (switchChain r ms)) (wireColor r) := by
  induction ms generalizing r with
  | nil => exact WireSame.refl _
  | cons m ms ih =>
    rw [switchChain_cons]
    have hm : m ≠ .rgb := h m (List.mem_cons_self)
    exact (ih _ (C14_switch_documented r m hd) (fun x hx => h x (List.mem_cons_of_mem _ hx))).trans
      (C14_switch_preserves_wire r m hd (fun hc => absurd hc hm))

/-- after any chain of switches the transmitted duration is the same -/
theorem C14_chain_time (ms : List Mode) (r : Regs) :
    wireDuration (switchChain r ms) = wireDuration r := by
  induction ms generalizing r with
  | nil => rfl
  | cons m ms ih => rw [switchChain_cons, ih, C14_switch_time]

/-- after any chain of switches kelvin is what it was (documented range: not negative) -/
theorem C14_chain_kelvin (ms : List Mode) (r : Regs) (hk : 0 ≤ r.kelvin) :
    (switchChain r ms).kelvin = r.kelvin := by
  induction ms generalizing r with
  | nil => rfl
  | cons m ms ih =>
    have h1 := C14_kelvin_untouched r m (fun _ _ => hk)
    rw [switchChain_cons, ih _ (by rw [h1]; exact hk), h1]

/-! ## Non-vacuity -/

/-- `units logical hue 120 saturation 100 brightness 100 kelvin 2500 time 1.5 duration 1.5`,
the manual's example -/
def manualExample : Regs := ⟨120, 100, 100, 2500, 7, 8, 9, 3 / 2, .num (3 / 2), false, .logical⟩

example : Documented manualExample := by
  unfold Documented manualExample; norm_num
example : (switchUnitMode manualExample .rgb).red = 0 ∧ (switchUnitMode manualExample .rgb).green = 100 ∧
    (switchUnitMode manualExample .rgb).blue = 0 ∧ (switchUnitMode manualExample .rgb).hue = 120 := by
  decide +kernel
example : wireColor (switchChain manualExample [.rgb, .raw, .logical]) = wireColor manualExample := by
  decide +kernel
example : (switchChain manualExample [.raw]).duration = 1500 ∧
    (switchChain manualExample [.raw]).time = .num 1500 := by decide +kernel
/-- a grey colour: the hue is lost on the way through rgb, the colour is not -/
example : wireColor (switchUnitMode { manualExample with saturation := 0 } .rgb) = (0, 0, 65535, 2500) ∧
    wireColor { manualExample with saturation := 0 } = (21845, 0, 65535, 2500) := by decide +kernel

end Bardolph.Units
