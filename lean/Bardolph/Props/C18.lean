import Bardolph.Model.Snapshot
import Bardolph.Props.C15
/-! # C18 — replaying a captured snapshot script restores the captured light state (theorems below) -/
namespace Bardolph
namespace C18
open Vm Sem SemSteps Snapshot

/-! ## the devices

What a device keeps: a plain light its colour and power, a multizone light one colour per
zone, a matrix light one colour per cell.  `applyEvent` is what the simulated devices (and
the real ones) do on receiving the message. -/

inductive Dev where
  | plain (color : List Int) (power : Int)
  | multizone (zones : List (List Int))
  | matrix (cells : List (List Int))
  deriving Repr, DecidableEq, Inhabited

/-- the devices on the network, by light name -/
abbrev DeviceState := String → Option Dev

def upd (D : DeviceState) (n : String) (f : Dev → Dev) : DeviceState :=
  fun m => if m = n then (D m).map f else D m

def Dev.setColor (c : List Int) : Dev → Dev
  | .plain _ p => .plain c p
  | .multizone z => .multizone (z.map fun _ => c)
  | .matrix cells => .matrix (cells.map fun _ => c)

def Dev.setPower (p : Int) : Dev → Dev
  | .plain c _ => .plain c p
  | d => d

def Dev.setZones (a b : Nat) (c : List Int) : Dev → Dev
  | .multizone z => .multizone (C15.applyZones z a b c)
  | d => d

def Dev.setTile (cells : List (List Int)) : Dev → Dev
  | .matrix _ => .matrix cells
  | d => d

def applyEvent (e : Event) (D : DeviceState) : DeviceState :=
  match e with
  | .setColor n c _ => upd D n (Dev.setColor c)
  | .setPower n p _ => upd D n (Dev.setPower p)
  | .setZones n a b c _ => upd D n (Dev.setZones a.toNat b.toNat c)
  | .setTile n cells _ _ _ => upd D n (Dev.setTile cells)
  | .allColor c _ => fun m => (D m).map (Dev.setColor c)
  | .allPower p _ => fun m => (D m).map (Dev.setPower (if p != 0 then 65535 else 0))
  | _ => D

/-- a VM trace (newest event first) applied in the order the events happened -/
def applyTrace (trace : List Event) (D : DeviceState) : DeviceState := trace.foldr applyEvent D

/-- the light a message is addressed to -/
def target : Event → Option String
  | .setColor n _ _ | .setPower n _ _ | .setZones n _ _ _ _ | .setTile n _ _ _ _ => some n
  | _ => none

theorem applyTrace_append (a b : List Event) (D : DeviceState) :
    applyTrace (a ++ b) D = applyTrace a (applyTrace b D) := by
  simp [applyTrace, List.foldr_append]

/-- **frame.**  Messages addressed to light `n` leave every other device as it is. -/
theorem applyTrace_frame (n m : String) (hne : m ≠ n) :
    ∀ (evs : List Event), (∀ e ∈ evs, target e = some n) → ∀ D, applyTrace evs D m = D m := by
  intro evs
  induction evs with
  | nil => intro _ D; rfl
  | cons e evs ih =>
    intro h D
    have he := h e (by simp)
    have ih' := ih (fun x hx => h x (by simp [hx])) D
    simp only [applyTrace, List.foldr_cons] at ih' ⊢
    cases e <;> simp only [target, Option.some.injEq, reduceCtorEq] at he <;> subst he <;>
      simp [applyEvent, upd, hne, ih']

/-! ## the VM side: what `on`/`off`/`set` send in raw units with no duration -/

/-- raw units, no duration, no pending time, still running -/
structure Ready (vm : Vm.State) : Prop where
  mode : vm.regs .unitMode = .mode .raw
  dur : numOf (vm.regs .duration) = some 0
  time : numOf (vm.regs .time) = some 0
  run : vm.status = .running

theorem Ready.setReg {vm : Vm.State} (h : Ready vm) (r : Reg) (v : Val) (h1 : r ≠ .unitMode)
    (h2 : r ≠ .duration) (h3 : r ≠ .time) : Ready (vm.setReg r v) := by
  obtain ⟨a, b, c, d⟩ := h
  constructor <;> simp [State.setReg, Ne.symm h1, Ne.symm h2, Ne.symm h3, *]

theorem Ready.mode_raw {vm : Vm.State} (h : Ready vm) : vm.mode = .raw := by
  simp [State.mode, h.mode]

theorem Ready.dur_wire {vm : Vm.State} (h : Ready vm) :
    (vm.asRawTime (vm.regs .duration)).bind wire32 = some 0 := by
  simp [State.asRawTime, h.mode_raw, wire32, h.dur, param32_zero]

/-- the colour registers hold the raw colour `c` -/
def HoldsColor (vm : Vm.State) (c : List Int) : Prop :=
  ∃ h s b k, c = [h, s, b, k] ∧ vm.regs .hue = .int h ∧ vm.regs .saturation = .int s ∧
    vm.regs .brightness = .int b ∧ vm.regs .kelvin = .int k

def InRange (c : List Int) : Prop := c.length = 4 ∧ ∀ x ∈ c, 0 ≤ x ∧ x ≤ 65535

theorem getColor_of_holds {vm : Vm.State} {c : List Int} (h : Ready vm) (hc : HoldsColor vm c) :
    vm.getColor = c.map Val.int := by
  obtain ⟨a, b, d, e, rfl, h1, h2, h3, h4⟩ := hc
  simp [State.getColor, h.mode_raw, h1, h2, h3, h4]

theorem color_wire {vm : Vm.State} {c : List Int} (h : Ready vm) (hc : HoldsColor vm c)
    (hr : InRange c) : (vm.asRawColor vm.getColor).bind wireColor = some c := by
  rw [getColor_of_holds h hc]
  simp [State.asRawColor, h.mode_raw, convert, wireColor_ints c hr.2]

/-- two VM states see the same lights (names and kinds; colours and power may differ) -/
def SameDir (a b : Vm.State) : Prop :=
  b.lights.map (fun l => (l.name, l.kind)) = a.lights.map (fun l => (l.name, l.kind))

theorem SameDir.rfl' {a : Vm.State} : SameDir a a := rfl
theorem SameDir.trans {a b c : Vm.State} (h1 : SameDir a b) (h2 : SameDir b c) : SameDir a c :=
  Eq.trans h2 h1

theorem sameDir_of_lights {a b : Vm.State} (h : b.lights = a.lights) : SameDir a b := by
  simp [SameDir, h]

theorem sameDir_updLight (a : Vm.State) (n : String) (f : Light → Light)
    (hf : ∀ l, (f l).name = l.name ∧ (f l).kind = l.kind) : SameDir a (a.updLight n f) := by
  simp only [SameDir, State.updLight, List.map_map]
  apply List.map_congr_left
  intro l _
  by_cases h : l.name = n <;> simp [h, hf l]

/-- the light called `n` and its kind -/
def HasKind (vm : Vm.State) (n : String) (k : LightKind) : Prop :=
  ∃ l, vm.light? (.str n) = some l ∧ l.kind = k

theorem light?_name {vm : Vm.State} {n : String} {l : Light} (h : vm.light? (.str n) = some l) :
    l.name = n := by
  have := List.find?_some h
  simpa using this

theorem HasKind.of_sameDir {a b : Vm.State} (h : SameDir a b) {n : String} {k : LightKind}
    (hk : HasKind a n k) : HasKind b n k := by
  obtain ⟨l, hl, hkind⟩ := hk
  have key : ∀ (ls : List Light),
      (ls.find? (·.name == n)).map (fun l => (l.name, l.kind)) =
        (ls.map fun l => (l.name, l.kind)).find? (·.1 == n) := by
    intro ls
    rw [List.find?_map]
    rfl
  have h1 := key a.lights
  have h2 := key b.lights
  rw [h] at h2
  simp only [State.light?] at hl
  rw [hl] at h1
  rw [← h1] at h2
  simp only [Option.map_some, Option.map_eq_some_iff] at h2
  obtain ⟨l', hl', heq⟩ := h2
  simp only [Prod.mk.injEq] at heq
  exact ⟨l', by simpa [State.light?] using hl', by rw [heq.2, hkind]⟩

theorem doPower_light (vm : Vm.State) (n : String) (k : LightKind)
    (hop : vm.regs .operand = .operand .light) (hname : vm.regs .name = .str n)
    (hk : HasKind vm n k) (hr : Ready vm) :
    vm.doPower = (vm.emit (.setPower n vm.powerLevel 0)).updLight n
      fun l => { l with power := vm.powerLevel } := by
  obtain ⟨l, hl, _⟩ := hk
  have hn := light?_name hl
  have hat : vm.asRawTime (vm.regs .duration) = some (vm.regs .duration) := by
    simp [State.asRawTime, hr.mode_raw]
  have hw : wire32 (vm.regs .duration) = some 0 := by simp [wire32, hr.dur, param32_zero]
  simp [State.doPower, hop, hname, hl, State.powerMultiple, hat, hn, hr.run, State.sendPower, hw]

theorem doColor_light (vm : Vm.State) (n : String) (k : LightKind) (c : List Int)
    (hop : vm.regs .operand = .operand .light) (hname : vm.regs .name = .str n)
    (hk : HasKind vm n k) (hr : Ready vm) (hc : HoldsColor vm c) (hin : InRange c) :
    vm.doColor = (vm.emit (.setColor n c 0)).updLight n fun l => { l with color := c } := by
  obtain ⟨l, hl, _⟩ := hk
  have hn := light?_name hl
  simp only [State.doColor, hop, hname, hl, hn]
  exact C15.colorMultiple_single vm n c 0 hr.run (color_wire hr hc hin) hr.dur_wire

/-! ## the script, statement by statement -/

/-- from `s` to `s'`: still in raw units with nothing pending, the same lights, and exactly
the events `evs` (newest first) sent -/
structure Adds (s s' : S) (evs : List Event) : Prop where
  ready : Ready s'.vm
  dir : SameDir s.vm s'.vm
  trace : s'.vm.trace = evs ++ s.vm.trace

theorem Adds.trans {s s' s'' : S} {e1 e2 : List Event} (h1 : Adds s s' e1) (h2 : Adds s' s'' e2) :
    Adds s s'' (e2 ++ e1) :=
  ⟨h2.ready, h1.dir.trans h2.dir, by rw [h2.trace, h1.trace, List.append_assoc]⟩

/-- the four `hue … saturation … brightness … kelvin …` settings -/
def loadColor (s : S) (c : List Int) : S :=
  ([Reg.hue, .saturation, .brightness, .kelvin].zip c).foldl
    (fun st (rv : Reg × Int) => st.setReg rv.1 (.int rv.2)) s

theorem settings_run (c : List Int) (s : S) : RunsTo 2 (settingsAst c) s (loadColor s c) := by
  unfold settingsAst loadColor
  generalize [Reg.hue, Reg.saturation, Reg.brightness, Reg.kelvin].zip c = pairs
  induction pairs generalizing s with
  | nil => exact RunsTo.nil 2 s
  | cons rv rest ih =>
    obtain ⟨r, v⟩ := rv
    simp only [List.map_cons, List.foldl_cons]
    have h1 : RunsTo 2 [Stmt.setReg r (Snapshot.lit v)] s (s.setReg r (.int v)) := by
      apply RunsTo.single
      intro f hf
      obtain ⟨g, rfl⟩ : ∃ g, f = g + 2 := ⟨f - 2, by omega⟩
      exact exec_setReg_lit g r (.int v) s
    exact RunsTo.append h1 (ih (s.setReg r (.int v)))

theorem length4 {c : List Int} (h : c.length = 4) : ∃ a b d e, c = [a, b, d, e] := by
  match c, h with
  | [a, b, d, e], _ => exact ⟨a, b, d, e, rfl⟩

theorem loadColor_vm (s : S) (a b d e : Int) :
    (loadColor s [a, b, d, e]).vm =
      (((s.vm.setReg .hue (.int a)).setReg .saturation (.int b)).setReg .brightness (.int d)).setReg
        .kelvin (.int e) := rfl

theorem loadColor_ready {s : S} {c : List Int} (hc : c.length = 4) (h : Ready s.vm) :
    Ready (loadColor s c).vm := by
  obtain ⟨a, b, d, e, rfl⟩ := length4 hc
  rw [loadColor_vm]
  exact (((h.setReg _ _ (by decide) (by decide) (by decide)).setReg _ _ (by decide) (by decide)
    (by decide)).setReg _ _ (by decide) (by decide) (by decide)).setReg _ _ (by decide)
    (by decide) (by decide)

theorem loadColor_holds {s : S} {c : List Int} (hc : c.length = 4) :
    HoldsColor (loadColor s c).vm c := by
  obtain ⟨a, b, d, e, rfl⟩ := length4 hc
  rw [loadColor_vm]
  exact ⟨a, b, d, e, rfl, by simp [State.setReg], by simp [State.setReg], by simp [State.setReg],
    by simp [State.setReg]⟩

theorem loadColor_adds {s : S} {c : List Int} (hc : c.length = 4) (h : Ready s.vm) :
    Adds s (loadColor s c) [] := by
  refine ⟨loadColor_ready hc h, ?_, ?_⟩
  · obtain ⟨a, b, d, e, rfl⟩ := length4 hc
    exact sameDir_of_lights rfl
  · obtain ⟨a, b, d, e, rfl⟩ := length4 hc
    rfl

theorem loadColor_matrix {s : S} {c : List Int} (hc : c.length = 4) :
    (loadColor s c).vm.matrix = s.vm.matrix := by
  obtain ⟨a, b, d, e, rfl⟩ := length4 hc
  rfl

theorem ready_sent {vm : Vm.State} (h : Ready vm) (e : Event) (n : String) (f : Light → Light) :
    Ready ((vm.emit e).updLight n f) := ⟨h.mode, h.dur, h.time, h.run⟩

theorem HoldsColor.setReg {vm : Vm.State} {c : List Int} (h : HoldsColor vm c) (r : Reg) (v : Val)
    (h1 : r ≠ .hue) (h2 : r ≠ .saturation) (h3 : r ≠ .brightness) (h4 : r ≠ .kelvin) :
    HoldsColor (vm.setReg r v) c := by
  obtain ⟨a, b, d, e, rfl, g1, g2, g3, g4⟩ := h
  exact ⟨a, b, d, e, rfl, by simp [State.setReg, Ne.symm h1, g1], by simp [State.setReg, Ne.symm h2, g2],
    by simp [State.setReg, Ne.symm h3, g3], by simp [State.setReg, Ne.symm h4, g4]⟩

/-- `set "n"` -/
theorem stmt_set_light (n : String) (k : LightKind) (c : List Int) (s : S) (hr : Ready s.vm)
    (hk : HasKind s.vm n k) (hc : HoldsColor s.vm c) (hin : InRange c) :
    ∃ s', (∀ f, 3 ≤ f → execStmt f (.action .set (.cons (.light (.str n)) .nil)) s = (.normal, s')) ∧
      Adds s s' [.setColor n c 0] ∧ HoldsColor s'.vm c := by
  let s2 : S := (s.setReg .name (.str n)).setReg .operand (.operand .light)
  have hr2 : Ready s2.vm :=
    (hr.setReg _ _ (by decide) (by decide) (by decide)).setReg _ _ (by decide) (by decide) (by decide)
  have hk2 : HasKind s2.vm n k := hk.of_sameDir (sameDir_of_lights rfl)
  have hc2 : HoldsColor s2.vm c :=
    (hc.setReg _ _ (by decide) (by decide) (by decide) (by decide)).setReg _ _ (by decide)
      (by decide) (by decide) (by decide)
  have hdo := doColor_light s2.vm n k c (by simp [s2, S.setReg, State.setReg])
    (by simp [s2, S.setReg, State.setReg]) hk2 hr2 hc2 hin
  refine ⟨{ s2 with vm := (s2.vm.emit (.setColor n c 0)).updLight n fun l => { l with color := c } },
    ?_, ⟨ready_sent hr2 _ _ _, ?_, rfl⟩, hc2⟩
  · intro f hf
    obtain ⟨g, rfl⟩ : ∃ g, f = g + 3 := ⟨f - 3, by omega⟩
    rw [exec_action_single g .set _ s hr.time hr.run, exec_light]
    simp only [beq_self_eq_true, if_true]
    rw [device_running _ _ (by rw [hdo]; exact hr2.run), hdo]
  · exact SameDir.trans (sameDir_of_lights rfl) (sameDir_updLight _ n _ (fun l => ⟨rfl, rfl⟩))

/-- `on "n"` / `off "n"` -/
theorem stmt_power_light (n : String) (k : LightKind) (on : Bool) (c : List Int) (s : S)
    (hr : Ready s.vm) (hk : HasKind s.vm n k) (hc : HoldsColor s.vm c) :
    ∃ s', (∀ f, 3 ≤ f →
        execStmt f (.action (if on then .on else .off) (.cons (.light (.str n)) .nil)) s = (.normal, s')) ∧
      Adds s s' [.setPower n (if on then 65535 else 0) 0] ∧ HoldsColor s'.vm c := by
  let s2 : S := ((s.setReg .power (.bool on)).setReg .name (.str n)).setReg .operand (.operand .light)
  have hr2 : Ready s2.vm :=
    ((hr.setReg _ _ (by decide) (by decide) (by decide)).setReg _ _ (by decide) (by decide)
      (by decide)).setReg _ _ (by decide) (by decide) (by decide)
  have hk2 : HasKind s2.vm n k := hk.of_sameDir (sameDir_of_lights rfl)
  have hc2 : HoldsColor s2.vm c :=
    ((hc.setReg _ _ (by decide) (by decide) (by decide) (by decide)).setReg _ _ (by decide)
      (by decide) (by decide) (by decide)).setReg _ _ (by decide) (by decide) (by decide) (by decide)
  have hdo := doPower_light s2.vm n k (by simp [s2, S.setReg, State.setReg])
    (by simp [s2, S.setReg, State.setReg]) hk2 hr2
  have hlevel : s2.vm.powerLevel = if on then 65535 else 0 := by
    cases on <;> simp [s2, State.powerLevel, S.setReg, State.setReg, Val.truthy]
  rw [hlevel] at hdo
  let vm3 : Vm.State := (s2.vm.emit (.setPower n (if on then 65535 else 0) 0)).updLight n
    (fun l => { l with power := if on then 65535 else 0 })
  refine ⟨{ s2 with vm := vm3 }, ?_, ⟨ready_sent hr2 _ _ _, ?_, rfl⟩, hc2⟩
  · intro f hf
    obtain ⟨g, rfl⟩ : ∃ g, f = g + 3 := ⟨f - 3, by omega⟩
    rw [exec_action_single g _ _ s hr.time hr.run, exec_light]
    have e : ∀ x : S, x = s2 → x.device State.doPower = (.normal, { s2 with vm := vm3 }) := by
      intro x hx
      rw [hx, device_running _ _ (by rw [hdo]; exact hr2.run), hdo]
    cases on
    · exact e _ rfl
    · exact e _ rfl
  · exact SameDir.trans (sameDir_of_lights rfl) (sameDir_updLight _ n _ (fun l => ⟨rfl, rfl⟩))


/-! ## 1. a plain light -/

theorem plain_runs (n : String) (c : List Int) (p : Int) (k : LightKind) (s : S)
    (hr : Ready s.vm) (hk : HasKind s.vm n k) (hin : InRange c) (hp : p = 0 ∨ p = 65535) :
    ∃ s', RunsTo 3 (lightAst (.plain n c p)) s s' ∧
      Adds s s' [.setColor n c 0, .setPower n p 0] := by
  have h0 := loadColor_adds hin.1 hr
  obtain ⟨s2, hx2, ha2, hc2⟩ := stmt_power_light n k (p != 0) c (loadColor s c) h0.ready
    (hk.of_sameDir h0.dir) (loadColor_holds hin.1)
  obtain ⟨s3, hx3, ha3, _⟩ := stmt_set_light n k c s2 ha2.ready
    ((hk.of_sameDir h0.dir).of_sameDir ha2.dir) hc2 hin
  have hpow : (if (p != 0) = true then (65535 : Int) else 0) = p := by
    rcases hp with rfl | rfl <;> rfl
  rw [hpow] at ha2
  refine ⟨s3, ?_, (h0.trans ha2).trans ha3⟩
  exact RunsTo.append ((settings_run c s).mono (by omega))
    (RunsTo.append (RunsTo.single hx2) (RunsTo.single hx3))

/-- **C18_plain_restored.**  The lines the capture writes for a plain light called `n` with raw
colour `c` (hue, saturation, brightness and kelvin, each anywhere in 0…65535) and power `p`,
run from ANY state in raw units with no duration and no pending time in which `n` is a known
light, send exactly `setPower n p 0` and then `setColor n c 0`; a device in any other state
ends with exactly the captured colour and power. -/
theorem C18_plain_restored (n : String) (c : List Int) (p : Int) (k : LightKind) (s : S)
    (hr : Ready s.vm) (hk : HasKind s.vm n k) (hin : InRange c) (hp : p = 0 ∨ p = 65535)
    (fuel : Nat) (hf : 10 ≤ fuel) (D : DeviceState) (c0 : List Int) (p0 : Int)
    (hD : D n = some (.plain c0 p0)) :
    ∃ s', execBlock fuel (Block.ofList (lightAst (.plain n c p))) s = (.normal, s') ∧
      s'.vm.trace = [.setColor n c 0, .setPower n p 0] ++ s.vm.trace ∧
      applyTrace [.setColor n c 0, .setPower n p 0] D n = some (.plain c p) := by
  obtain ⟨s', hrun, hadds⟩ := plain_runs n c p k s hr hk hin hp
  refine ⟨s', hrun.block fuel (by simpa [lightAst, settingsAst, hin.1] using hf), hadds.trace, ?_⟩
  simp [applyTrace, applyEvent, upd, hD, Dev.setColor, Dev.setPower]

end C18
end Bardolph
