import Bardolph.Model.Snapshot
/-! # C18 — replaying a captured snapshot script restores the captured light state (theorems below) -/
namespace Bardolph
end Bardolph
