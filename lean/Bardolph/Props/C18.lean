import Bardolph.Model.Snapshot
import Bardolph.Props.C15
/-! # C18 — replaying a captured snapshot script restores the captured light state (theorems below) -/
namespace Bardolph
namespace C18
open Vm Sem SemSteps Snapshot

/-! ## the devices

What a device keeps: a plain light its colour and power, a multizone light one colour per
zone, a matrix light one colour per cell.  `applyEvent` is what the simulated devices (and
the real ones) do on receiving the message. -/

inductive Dev where
  | plain (color : List Int) (power : Int)
  | multizone (zones : List (List Int))
  | matrix (cells : List (List Int))
  deriving Repr, DecidableEq, Inhabited

/-- the devices on the network, by light name -/
abbrev DeviceState := String → Option Dev

def upd (D : DeviceState) (n : String) (f : Dev → Dev) : DeviceState :=
  fun m => if m = n then (D m).map f else D m

def Dev.setColor (c : List Int) : Dev → Dev
  | .plain _ p => .plain c p
  | .multizone z => .multizone (z.map fun _ => c)
  | .matrix cells => .matrix (cells.map fun _ => c)

def Dev.setPower (p : Int) : Dev → Dev
  | .plain c _ => .plain c p
  | d => d

def Dev.setZones (a b : Nat) (c : List Int) : Dev → Dev
  | .multizone z => .multizone (C15.applyZones z a b c)
  | d => d

def Dev.setTile (cells : List (List Int)) : Dev → Dev
  | .matrix _ => .matrix cells
  | d => d

def applyEvent (e : Event) (D : DeviceState) : DeviceState :=
  match e with
  | .setColor n c _ => upd D n (Dev.setColor c)
  | .setPower n p _ => upd D n (Dev.setPower p)
  | .setZones n a b c _ => upd D n (Dev.setZones a.toNat b.toNat c)
  | .setTile n cells _ _ _ => upd D n (Dev.setTile cells)
  | .allColor c _ => fun m => (D m).map (Dev.setColor c)
  | .allPower p _ => fun m => (D m).map (Dev.setPower (if p != 0 then 65535 else 0))
  | _ => D

/-- a VM trace (newest event first) applied in the order the events happened -/
def applyTrace (trace : List Event) (D : DeviceState) : DeviceState := trace.foldr applyEvent D

/-- the light a message is addressed to -/
def target : Event → Option String
  | .setColor n _ _ | .setPower n _ _ | .setZones n _ _ _ _ | .setTile n _ _ _ _ => some n
  | _ => none

theorem applyTrace_append (a b : List Event) (D : DeviceState) :
    applyTrace (a ++ b) D = applyTrace a (applyTrace b D) := by
  simp [applyTrace, List.foldr_append]

/-- **frame.**  Messages addressed to light `n` leave every other device as it is. -/
theorem applyTrace_frame (n m : String) (hne : m ≠ n) :
    ∀ (evs : List Event), (∀ e ∈ evs, target e = some n) → ∀ D, applyTrace evs D m = D m := by
  intro evs
  induction evs with
  | nil => intro _ D; rfl
  | cons e evs ih =>
    intro h D
    have he := h e (by simp)
    have ih' := ih (fun x hx => h x (by simp [hx])) D
    simp only [applyTrace, List.foldr_cons] at ih' ⊢
    cases e <;> simp only [target, Option.some.injEq, reduceCtorEq] at he <;> subst he <;>
      simp [applyEvent, upd, hne, ih']

/-! ## the VM side: what `on`/`off`/`set` send in raw units with no duration -/

/-- raw units, no duration, no pending time, still running -/
structure Ready (vm : Vm.State) : Prop where
  mode : vm.regs .unitMode = .mode .raw
  dur : numOf (vm.regs .duration) = some 0
  time : numOf (vm.regs .time) = some 0
  run : vm.status = .running

theorem Ready.setReg {vm : Vm.State} (h : Ready vm) (r : Reg) (v : Val) (h1 : r ≠ .unitMode)
    (h2 : r ≠ .duration) (h3 : r ≠ .time) : Ready (vm.setReg r v) := by
  obtain ⟨a, b, c, d⟩ := h
  constructor <;> simp [State.setReg, Ne.symm h1, Ne.symm h2, Ne.symm h3, *]

theorem Ready.mode_raw {vm : Vm.State} (h : Ready vm) : vm.mode = .raw := by
  simp [State.mode, h.mode]

theorem Ready.dur_wire {vm : Vm.State} (h : Ready vm) :
    (vm.asRawTime (vm.regs .duration)).bind wire32 = some 0 := by
  simp [State.asRawTime, h.mode_raw, wire32, h.dur, param32_zero]

/-- the colour registers hold the raw colour `c` -/
def HoldsColor (vm : Vm.State) (c : List Int) : Prop :=
  ∃ h s b k, c = [h, s, b, k] ∧ vm.regs .hue = .int h ∧ vm.regs .saturation = .int s ∧
    vm.regs .brightness = .int b ∧ vm.regs .kelvin = .int k

def InRange (c : List Int) : Prop := c.length = 4 ∧ ∀ x ∈ c, 0 ≤ x ∧ x ≤ 65535

theorem getColor_of_holds {vm : Vm.State} {c : List Int} (h : Ready vm) (hc : HoldsColor vm c) :
    vm.getColor = c.map Val.int := by
  obtain ⟨a, b, d, e, rfl, h1, h2, h3, h4⟩ := hc
  simp [State.getColor, h.mode_raw, h1, h2, h3, h4]

theorem color_wire {vm : Vm.State} {c : List Int} (h : Ready vm) (hc : HoldsColor vm c)
    (hr : InRange c) : (vm.asRawColor vm.getColor).bind wireColor = some c := by
  rw [getColor_of_holds h hc]
  simp [State.asRawColor, h.mode_raw, convert, wireColor_ints c hr.2]

/-- two VM states see the same lights (names and kinds; colours and power may differ) -/
def SameDir (a b : Vm.State) : Prop :=
  b.lights.map (fun l => (l.name, l.kind)) = a.lights.map (fun l => (l.name, l.kind))

theorem SameDir.rfl' {a : Vm.State} : SameDir a a := rfl
theorem SameDir.trans {a b c : Vm.State} (h1 : SameDir a b) (h2 : SameDir b c) : SameDir a c :=
  Eq.trans h2 h1

theorem sameDir_of_lights {a b : Vm.State} (h : b.lights = a.lights) : SameDir a b := by
  simp [SameDir, h]

theorem sameDir_updLight (a : Vm.State) (n : String) (f : Light → Light)
    (hf : ∀ l, (f l).name = l.name ∧ (f l).kind = l.kind) : SameDir a (a.updLight n f) := by
  simp only [SameDir, State.updLight, List.map_map]
  apply List.map_congr_left
  intro l _
  by_cases h : l.name = n <;> simp [h, hf l]

/-- the light called `n` and its kind -/
def HasKind (vm : Vm.State) (n : String) (k : LightKind) : Prop :=
  ∃ l, vm.light? (.str n) = some l ∧ l.kind = k

theorem light?_name {vm : Vm.State} {n : String} {l : Light} (h : vm.light? (.str n) = some l) :
    l.name = n := by
  have := List.find?_some h
  simpa using this

theorem HasKind.of_sameDir {a b : Vm.State} (h : SameDir a b) {n : String} {k : LightKind}
    (hk : HasKind a n k) : HasKind b n k := by
  obtain ⟨l, hl, hkind⟩ := hk
  have key : ∀ (ls : List Light),
      (ls.find? (·.name == n)).map (fun l => (l.name, l.kind)) =
        (ls.map fun l => (l.name, l.kind)).find? (·.1 == n) := by
    intro ls
    rw [List.find?_map]
    rfl
  have h1 := key a.lights
  have h2 := key b.lights
  rw [h] at h2
  simp only [State.light?] at hl
  rw [hl] at h1
  rw [← h1] at h2
  simp only [Option.map_some, Option.map_eq_some_iff] at h2
  obtain ⟨l', hl', heq⟩ := h2
  simp only [Prod.mk.injEq] at heq
  exact ⟨l', by simpa [State.light?] using hl', by rw [heq.2, hkind]⟩

theorem doPower_light (vm : Vm.State) (n : String) (k : LightKind)
    (hop : vm.regs .operand = .operand .light) (hname : vm.regs .name = .str n)
    (hk : HasKind vm n k) (hr : Ready vm) :
    vm.doPower = (vm.emit (.setPower n vm.powerLevel 0)).updLight n
      fun l => { l with power := vm.powerLevel } := by
  obtain ⟨l, hl, _⟩ := hk
  have hn := light?_name hl
  have hat : vm.asRawTime (vm.regs .duration) = some (vm.regs .duration) := by
    simp [State.asRawTime, hr.mode_raw]
  have hw : wire32 (vm.regs .duration) = some 0 := by simp [wire32, hr.dur, param32_zero]
  simp [State.doPower, hop, hname, hl, State.powerMultiple, hat, hn, hr.run, State.sendPower, hw]

theorem doColor_light (vm : Vm.State) (n : String) (k : LightKind) (c : List Int)
    (hop : vm.regs .operand = .operand .light) (hname : vm.regs .name = .str n)
    (hk : HasKind vm n k) (hr : Ready vm) (hc : HoldsColor vm c) (hin : InRange c) :
    vm.doColor = (vm.emit (.setColor n c 0)).updLight n fun l => { l with color := c } := by
  obtain ⟨l, hl, _⟩ := hk
  have hn := light?_name hl
  simp only [State.doColor, hop, hname, hl, hn]
  exact C15.colorMultiple_single vm n c 0 hr.run (color_wire hr hc hin) hr.dur_wire

/-! ## the script, statement by statement -/

/-- from `s` to `s'`: still in raw units with nothing pending, the same lights, and exactly
the events `evs` (newest first) sent -/
structure Adds (s s' : S) (evs : List Event) : Prop where
  ready : Ready s'.vm
  dir : SameDir s.vm s'.vm
  trace : s'.vm.trace = evs ++ s.vm.trace

theorem Adds.trans {s s' s'' : S} {e1 e2 : List Event} (h1 : Adds s s' e1) (h2 : Adds s' s'' e2) :
    Adds s s'' (e2 ++ e1) :=
  ⟨h2.ready, h1.dir.trans h2.dir, by rw [h2.trace, h1.trace, List.append_assoc]⟩

/-- the four `hue … saturation … brightness … kelvin …` settings -/
def loadColor (s : S) (c : List Int) : S :=
  ([Reg.hue, .saturation, .brightness, .kelvin].zip c).foldl
    (fun st (rv : Reg × Int) => st.setReg rv.1 (.int rv.2)) s

theorem settings_run (c : List Int) (s : S) : RunsTo 2 (settingsAst c) s (loadColor s c) := by
  unfold settingsAst loadColor
  generalize [Reg.hue, Reg.saturation, Reg.brightness, Reg.kelvin].zip c = pairs
  induction pairs generalizing s with
  | nil => exact RunsTo.nil 2 s
  | cons rv rest ih =>
    obtain ⟨r, v⟩ := rv
    simp only [List.map_cons, List.foldl_cons]
    have h1 : RunsTo 2 [Stmt.setReg r (Snapshot.lit v)] s (s.setReg r (.int v)) := by
      apply RunsTo.single
      intro f hf
      obtain ⟨g, rfl⟩ : ∃ g, f = g + 2 := ⟨f - 2, by omega⟩
      exact exec_setReg_lit g r (.int v) s
    exact RunsTo.append h1 (ih (s.setReg r (.int v)))

theorem length4 {c : List Int} (h : c.length = 4) : ∃ a b d e, c = [a, b, d, e] := by
  match c, h with
  | [a, b, d, e], _ => exact ⟨a, b, d, e, rfl⟩

theorem loadColor_vm (s : S) (a b d e : Int) :
    (loadColor s [a, b, d, e]).vm =
      (((s.vm.setReg .hue (.int a)).setReg .saturation (.int b)).setReg .brightness (.int d)).setReg
        .kelvin (.int e) := rfl

theorem loadColor_ready {s : S} {c : List Int} (hc : c.length = 4) (h : Ready s.vm) :
    Ready (loadColor s c).vm := by
  obtain ⟨a, b, d, e, rfl⟩ := length4 hc
  rw [loadColor_vm]
  exact (((h.setReg _ _ (by decide) (by decide) (by decide)).setReg _ _ (by decide) (by decide)
    (by decide)).setReg _ _ (by decide) (by decide) (by decide)).setReg _ _ (by decide)
    (by decide) (by decide)

theorem loadColor_holds {s : S} {c : List Int} (hc : c.length = 4) :
    HoldsColor (loadColor s c).vm c := by
  obtain ⟨a, b, d, e, rfl⟩ := length4 hc
  rw [loadColor_vm]
  exact ⟨a, b, d, e, rfl, by simp [State.setReg], by simp [State.setReg], by simp [State.setReg],
    by simp [State.setReg]⟩

theorem loadColor_adds {s : S} {c : List Int} (hc : c.length = 4) (h : Ready s.vm) :
    Adds s (loadColor s c) [] := by
  refine ⟨loadColor_ready hc h, ?_, ?_⟩
  · obtain ⟨a, b, d, e, rfl⟩ := length4 hc
    exact sameDir_of_lights rfl
  · obtain ⟨a, b, d, e, rfl⟩ := length4 hc
    rfl

theorem loadColor_matrix {s : S} {c : List Int} (hc : c.length = 4) :
    (loadColor s c).vm.matrix = s.vm.matrix := by
  obtain ⟨a, b, d, e, rfl⟩ := length4 hc
  rfl

theorem ready_sent {vm : Vm.State} (h : Ready vm) (e : Event) (n : String) (f : Light → Light) :
    Ready ((vm.emit e).updLight n f) := ⟨h.mode, h.dur, h.time, h.run⟩

theorem HoldsColor.setReg {vm : Vm.State} {c : List Int} (h : HoldsColor vm c) (r : Reg) (v : Val)
    (h1 : r ≠ .hue) (h2 : r ≠ .saturation) (h3 : r ≠ .brightness) (h4 : r ≠ .kelvin) :
    HoldsColor (vm.setReg r v) c := by
  obtain ⟨a, b, d, e, rfl, g1, g2, g3, g4⟩ := h
  exact ⟨a, b, d, e, rfl, by simp [State.setReg, Ne.symm h1, g1], by simp [State.setReg, Ne.symm h2, g2],
    by simp [State.setReg, Ne.symm h3, g3], by simp [State.setReg, Ne.symm h4, g4]⟩

/-- `set "n"` -/
theorem stmt_set_light (n : String) (k : LightKind) (c : List Int) (s : S) (hr : Ready s.vm)
    (hk : HasKind s.vm n k) (hc : HoldsColor s.vm c) (hin : InRange c) :
    ∃ s', (∀ f, 3 ≤ f → execStmt f (.action .set true (.cons (.light (.str n)) .nil)) s = (.normal, s')) ∧
      Adds s s' [.setColor n c 0] ∧ HoldsColor s'.vm c := by
  let s2 : S := (s.setReg .name (.str n)).setReg .operand (.operand .light)
  have hr2 : Ready s2.vm :=
    (hr.setReg _ _ (by decide) (by decide) (by decide)).setReg _ _ (by decide) (by decide) (by decide)
  have hk2 : HasKind s2.vm n k := hk.of_sameDir (sameDir_of_lights rfl)
  have hc2 : HoldsColor s2.vm c :=
    (hc.setReg _ _ (by decide) (by decide) (by decide) (by decide)).setReg _ _ (by decide)
      (by decide) (by decide) (by decide)
  have hdo := doColor_light s2.vm n k c (by simp [s2, S.setReg, State.setReg])
    (by simp [s2, S.setReg, State.setReg]) hk2 hr2 hc2 hin
  refine ⟨{ s2 with vm := (s2.vm.emit (.setColor n c 0)).updLight n fun l => { l with color := c } },
    ?_, ⟨ready_sent hr2 _ _ _, ?_, rfl⟩, hc2⟩
  · intro f hf
    obtain ⟨g, rfl⟩ : ∃ g, f = g + 3 := ⟨f - 3, by omega⟩
    rw [exec_action_single g .set _ s hr.time hr.run, exec_light]
    simp only [beq_self_eq_true, if_true]
    rw [device_running _ _ (by rw [hdo]; exact hr2.run), hdo]
  · exact SameDir.trans (sameDir_of_lights rfl) (sameDir_updLight _ n _ (fun l => ⟨rfl, rfl⟩))

/-- `on "n"` / `off "n"` -/
theorem stmt_power_light (n : String) (k : LightKind) (on : Bool) (c : List Int) (s : S)
    (hr : Ready s.vm) (hk : HasKind s.vm n k) (hc : HoldsColor s.vm c) :
    ∃ s', (∀ f, 3 ≤ f →
        execStmt f (.action (if on then .on else .off) true (.cons (.light (.str n)) .nil)) s = (.normal, s')) ∧
      Adds s s' [.setPower n (if on then 65535 else 0) 0] ∧ HoldsColor s'.vm c := by
  let s2 : S := ((s.setReg .power (.bool on)).setReg .name (.str n)).setReg .operand (.operand .light)
  have hr2 : Ready s2.vm :=
    ((hr.setReg _ _ (by decide) (by decide) (by decide)).setReg _ _ (by decide) (by decide)
      (by decide)).setReg _ _ (by decide) (by decide) (by decide)
  have hk2 : HasKind s2.vm n k := hk.of_sameDir (sameDir_of_lights rfl)
  have hc2 : HoldsColor s2.vm c :=
    ((hc.setReg _ _ (by decide) (by decide) (by decide) (by decide)).setReg _ _ (by decide)
      (by decide) (by decide) (by decide)).setReg _ _ (by decide) (by decide) (by decide) (by decide)
  have hdo := doPower_light s2.vm n k (by simp [s2, S.setReg, State.setReg])
    (by simp [s2, S.setReg, State.setReg]) hk2 hr2
  have hlevel : s2.vm.powerLevel = if on then 65535 else 0 := by
    cases on <;> simp [s2, State.powerLevel, S.setReg, State.setReg, Val.truthy]
  rw [hlevel] at hdo
  let vm3 : Vm.State := (s2.vm.emit (.setPower n (if on then 65535 else 0) 0)).updLight n
    (fun l => { l with power := if on then 65535 else 0 })
  refine ⟨{ s2 with vm := vm3 }, ?_, ⟨ready_sent hr2 _ _ _, ?_, rfl⟩, hc2⟩
  · intro f hf
    obtain ⟨g, rfl⟩ : ∃ g, f = g + 3 := ⟨f - 3, by omega⟩
    rw [exec_action_single g _ _ s hr.time hr.run, exec_light]
    have e : ∀ x : S, x = s2 → x.device State.doPower = (.normal, { s2 with vm := vm3 }) := by
      intro x hx
      rw [hx, device_running _ _ (by rw [hdo]; exact hr2.run), hdo]
    cases on
    · exact e _ rfl
    · exact e _ rfl
  · exact SameDir.trans (sameDir_of_lights rfl) (sameDir_updLight _ n _ (fun l => ⟨rfl, rfl⟩))


/-! ## 1. a plain light -/

theorem plain_runs (n : String) (c : List Int) (p : Int) (k : LightKind) (s : S)
    (hr : Ready s.vm) (hk : HasKind s.vm n k) (hin : InRange c) (hp : p = 0 ∨ p = 65535) :
    ∃ s', RunsTo 3 (lightAst (.plain n c p)) s s' ∧
      Adds s s' [.setColor n c 0, .setPower n p 0] := by
  have h0 := loadColor_adds hin.1 hr
  obtain ⟨s2, hx2, ha2, hc2⟩ := stmt_power_light n k (p != 0) c (loadColor s c) h0.ready
    (hk.of_sameDir h0.dir) (loadColor_holds hin.1)
  obtain ⟨s3, hx3, ha3, _⟩ := stmt_set_light n k c s2 ha2.ready
    ((hk.of_sameDir h0.dir).of_sameDir ha2.dir) hc2 hin
  have hpow : (if (p != 0) = true then (65535 : Int) else 0) = p := by
    rcases hp with rfl | rfl <;> rfl
  rw [hpow] at ha2
  refine ⟨s3, ?_, (h0.trans ha2).trans ha3⟩
  exact RunsTo.append ((settings_run c s).mono (by omega))
    (RunsTo.append (RunsTo.single hx2) (RunsTo.single hx3))

/-- **C18_plain_restored.**  The lines the capture writes for a plain light called `n` with raw
colour `c` (hue, saturation, brightness and kelvin, each anywhere in 0…65535) and power `p`,
run from ANY state in raw units with no duration and no pending time in which `n` is a known
light, send exactly `setPower n p 0` and then `setColor n c 0`; a device in any other state
ends with exactly the captured colour and power. -/
theorem C18_plain_restored (n : String) (c : List Int) (p : Int) (k : LightKind) (s : S)
    (hr : Ready s.vm) (hk : HasKind s.vm n k) (hin : InRange c) (hp : p = 0 ∨ p = 65535)
    (fuel : Nat) (hf : 10 ≤ fuel) (D : DeviceState) (c0 : List Int) (p0 : Int)
    (hD : D n = some (.plain c0 p0)) :
    ∃ s', execBlock fuel (Block.ofList (lightAst (.plain n c p))) s = (.normal, s') ∧
      s'.vm.trace = [.setColor n c 0, .setPower n p 0] ++ s.vm.trace ∧
      applyTrace [.setColor n c 0, .setPower n p 0] D n = some (.plain c p) := by
  obtain ⟨s', hrun, hadds⟩ := plain_runs n c p k s hr hk hin hp
  refine ⟨s', hrun.block fuel (by simpa [lightAst, settingsAst, hin.1] using hf), hadds.trace, ?_⟩
  simp [applyTrace, applyEvent, upd, hD, Dev.setColor, Dev.setPower]

/-! ## 2a. a multizone light -/

theorem ready_emit {vm : Vm.State} (h : Ready vm) (e : Event) : Ready (vm.emit e) :=
  ⟨h.mode, h.dur, h.time, h.run⟩

/-- `set "n" zone i` -/
theorem stmt_set_zone (n : String) (zc : Nat) (i : Nat) (c : List Int) (s : S) (hr : Ready s.vm)
    (hk : HasKind s.vm n (.multizone zc)) (hc : HoldsColor s.vm c) (hin : InRange c)
    (hi : i ≤ 65534) :
    ∃ s', (∀ f, 5 ≤ f →
        execStmt f (.action .set true (.cons (.zone (.str n) ⟨Snapshot.lit i, none⟩) .nil)) s = (.normal, s')) ∧
      Adds s s' [.setZones n i ((i : Int) + 1) c 0] := by
  let s2 : S := (((s.setReg .name (.str n)).setReg .firstZone (.int i)).setReg .lastZone .none).setReg
    .operand (.operand .mzLight)
  have hr2 : Ready s2.vm :=
    (((hr.setReg _ _ (by decide) (by decide) (by decide)).setReg _ _ (by decide) (by decide)
      (by decide)).setReg _ _ (by decide) (by decide) (by decide)).setReg _ _ (by decide)
      (by decide) (by decide)
  obtain ⟨l, hl, hkind⟩ := hk.of_sameDir (sameDir_of_lights (a := s.vm) (b := s2.vm) rfl)
  have hc2 : HoldsColor s2.vm c :=
    (((hc.setReg _ _ (by decide) (by decide) (by decide) (by decide)).setReg _ _ (by decide)
      (by decide) (by decide) (by decide)).setReg _ _ (by decide) (by decide) (by decide)
      (by decide)).setReg _ _ (by decide) (by decide) (by decide) (by decide)
  have hname : s2.vm.regs .name = .str n := by simp [s2, S.setReg, State.setReg]
  have hdo := C15.doColor_zones s2.vm l zc i i c 0 (by simp [s2, S.setReg, State.setReg])
    (by rw [hname]; exact hl) hkind (by simp [s2, S.setReg, State.setReg])
    (.inr ⟨by simp [s2, S.setReg, State.setReg], rfl⟩) (by omega) (by omega) (by omega)
    (color_wire hr2 hc2 hin) hr2.dur_wire
  rw [light?_name hl] at hdo
  refine ⟨{ s2 with vm := s2.vm.emit (.setZones n i ((i : Int) + 1) c 0) }, ?_,
    ⟨ready_emit hr2 _, sameDir_of_lights rfl, rfl⟩⟩
  intro f hf
  obtain ⟨g, rfl⟩ : ∃ g, f = g + 5 := ⟨f - 5, by omega⟩
  simp only [Snapshot.lit]
  rw [show g + 5 = (g + 2) + 3 from rfl, exec_action_single (g + 2) .set _ s hr.time hr.run,
    show g + 2 + 1 = g + 3 from rfl, exec_zone_single]
  simp only [beq_self_eq_true, if_true]
  rw [device_running _ _ (by rw [hdo]; exact hr2.run), hdo]

def zoneStmts (n : String) (zi : List Int × Nat) : List Stmt :=
  settingsAst zi.1 ++ [Stmt.action .set true (.cons (.zone (.str n) ⟨Snapshot.lit zi.2, none⟩) .nil)]

def zoneEvent (n : String) (zi : List Int × Nat) : Event :=
  .setZones n zi.2 ((zi.2 : Int) + 1) zi.1 0

theorem zones_run (n : String) (zc : Nat) : ∀ (zones : List (List Int)) (k : Nat) (s : S),
    Ready s.vm → HasKind s.vm n (.multizone zc) → (∀ z ∈ zones, InRange z) →
    k + zones.length ≤ 65535 →
    ∃ s', RunsTo 5 ((zones.zipIdx k).map (zoneStmts n)).flatten s s' ∧
      Adds s s' ((zones.zipIdx k).map (zoneEvent n)).reverse := by
  intro zones
  induction zones with
  | nil =>
    intro k s hr _ _ _
    exact ⟨s, RunsTo.nil 5 s, hr, SameDir.rfl', rfl⟩
  | cons z rest ih =>
    intro k s hr hk hin hlen
    have hz := hin z (by simp)
    simp only [List.length_cons] at hlen
    have h0 := loadColor_adds hz.1 hr
    obtain ⟨s2, hx2, ha2⟩ := stmt_set_zone n zc k z (loadColor s z) h0.ready (hk.of_sameDir h0.dir)
      (loadColor_holds hz.1) hz (by omega)
    obtain ⟨s3, hx3, ha3⟩ := ih (k + 1) s2 ha2.ready ((hk.of_sameDir h0.dir).of_sameDir ha2.dir)
      (fun x hx => hin x (by simp [hx])) (by omega)
    refine ⟨s3, ?_, ?_⟩
    · simp only [List.zipIdx_cons, List.map_cons, List.flatten_cons]
      exact RunsTo.append
        (RunsTo.append ((settings_run z s).mono (by omega)) (RunsTo.single hx2)) hx3
    · simp only [List.zipIdx_cons, List.map_cons, List.reverse_cons]
      exact (h0.trans ha2).trans ha3

theorem lightAst_multizone (n : String) (zones : List (List Int)) :
    lightAst (.multizone n zones) = ((zones.zipIdx 0).map (zoneStmts n)).flatten := rfl


theorem applyTrace_snoc (evs : List Event) (e : Event) (D : DeviceState) :
    applyTrace (evs ++ [e]) D = applyTrace evs (applyEvent e D) := by
  rw [applyTrace_append]; rfl

/-- the zone commands of one light, applied in order, on a device with any content: zones
`k … k + zones.length - 1` take the captured colours, the others keep theirs -/
theorem zones_device (n : String) : ∀ (zones : List (List Int)) (k : Nat) (D : DeviceState)
    (cur : List (List Int)), D n = some (.multizone cur) → k + zones.length ≤ cur.length →
    ∃ R, applyTrace ((zones.zipIdx k).map (zoneEvent n)).reverse D n = some (.multizone R) ∧
      R.length = cur.length ∧
      ∀ i, R[i]? = if k ≤ i ∧ i < k + zones.length then zones[i - k]? else cur[i]? := by
  intro zones
  induction zones with
  | nil =>
    intro k D cur hD _
    refine ⟨cur, by simpa [applyTrace] using hD, rfl, ?_⟩
    intro i
    have : ¬ (k ≤ i ∧ i < k + ([] : List (List Int)).length) := by simp
    rw [if_neg this]
  | cons z rest ih =>
    intro k D cur hD hlen
    simp only [List.length_cons] at hlen
    let cur1 := C15.applyZones cur k (k + 1) z
    have hD1 : applyEvent (zoneEvent n (z, k)) D n = some (.multizone cur1) := by
      simp only [zoneEvent, applyEvent, upd, if_true, hD, Option.map_some, Dev.setZones]
      have e1 : (Int.toNat (k : Int)) = k := by omega
      have e2 : (Int.toNat ((k : Int) + 1)) = k + 1 := by omega
      rw [e1, e2]
    have hl1 : cur1.length = cur.length := C15.applyZones_length _ _ _ _
    obtain ⟨R, hR, hRl, hRi⟩ := ih (k + 1) _ cur1 hD1 (by omega)
    refine ⟨R, ?_, by omega, ?_⟩
    · simp only [List.zipIdx_cons, List.map_cons, List.reverse_cons]
      rw [applyTrace_snoc]
      exact hR
    · intro i
      rw [hRi i, C15.applyZones_getElem?]
      by_cases h1 : k + 1 ≤ i ∧ i < k + 1 + rest.length
      · have h2 : k ≤ i ∧ i < k + (z :: rest).length := by simp; omega
        rw [if_pos h1, if_pos h2]
        have : i - k = (i - (k + 1)) + 1 := by omega
        rw [this, List.getElem?_cons_succ]
      · rw [if_neg h1]
        by_cases h3 : i = k
        · subst h3
          have h2 : i ≤ i ∧ i < i + (z :: rest).length := by simp
          have h4 : i ≤ i ∧ i < i + 1 := by omega
          rw [if_pos h2, if_pos h4, List.getElem?_eq_getElem (by omega : i < cur.length)]
          simp
        · have h2 : ¬ (k ≤ i ∧ i < k + (z :: rest).length) := by simp; omega
          have h4 : ¬ (k ≤ i ∧ i < k + 1) := by omega
          rw [if_neg h2, if_neg h4]

theorem settingsAst_length_le (c : List Int) : (settingsAst c).length ≤ 4 := by
  simp only [settingsAst, List.length_map, List.length_zip, List.length_cons, List.length_nil]
  omega

theorem zoneStmts_length_le (n : String) (zones : List (List Int)) (k : Nat) :
    ((zones.zipIdx k).map (zoneStmts n)).flatten.length ≤ 5 * zones.length := by
  induction zones generalizing k with
  | nil => simp
  | cons z rest ih =>
    have := ih (k + 1)
    have h4 := settingsAst_length_le z
    simp only [List.zipIdx_cons, List.map_cons, List.flatten_cons, List.length_append, zoneStmts,
      List.length_cons, List.length_nil]
    omega

/-- the events the capture script of a multizone light sends, oldest first -/
def zoneEvents (n : String) (zones : List (List Int)) : List Event :=
  (zones.zipIdx 0).map (zoneEvent n)

theorem zones_device_all (n : String) (zones : List (List Int)) (D : DeviceState)
    (cur : List (List Int)) (hD : D n = some (.multizone cur)) (hcur : cur.length = zones.length) :
    applyTrace (zoneEvents n zones).reverse D n = some (.multizone zones) := by
  obtain ⟨R, hR, hRl, hRi⟩ := zones_device n zones 0 D cur hD (by omega)
  rw [zoneEvents, hR]
  congr 2
  apply List.ext_getElem?
  intro i
  rw [hRi i]
  by_cases h : i < zones.length
  · have : 0 ≤ i ∧ i < 0 + zones.length := by omega
    rw [if_pos this]; rfl
  · have : ¬ (0 ≤ i ∧ i < 0 + zones.length) := by omega
    rw [if_neg this, List.getElem?_eq_none (by omega), List.getElem?_eq_none (by omega)]

/-- **C18_zone_restored.**  The lines written for a multizone light `n` (any number of zones up
to 65535, each colour component anywhere in 0…65535), run from any ready state, send one zone
command per zone, `setZones n i (i+1) zones[i] 0` for `i = 0, 1, …`; a device with the same
number of zones in any other state ends with exactly the captured colour in every zone. -/
theorem C18_zone_restored (n : String) (zones : List (List Int)) (s : S)
    (hr : Ready s.vm) (hk : HasKind s.vm n (.multizone zones.length))
    (hin : ∀ z ∈ zones, InRange z) (hlen : zones.length ≤ 65535)
    (fuel : Nat) (hf : 5 * zones.length + 6 ≤ fuel) (D : DeviceState) (cur : List (List Int))
    (hD : D n = some (.multizone cur)) (hcur : cur.length = zones.length) :
    ∃ s', execBlock fuel (Block.ofList (lightAst (.multizone n zones))) s = (.normal, s') ∧
      s'.vm.trace = (zoneEvents n zones).reverse ++ s.vm.trace ∧
      applyTrace (zoneEvents n zones).reverse D n = some (.multizone zones) := by
  obtain ⟨s', hrun, hadds⟩ := zones_run n zones.length zones 0 s hr hk hin (by omega)
  have hlenAst := zoneStmts_length_le n zones 0
  refine ⟨s', ?_, hadds.trace, zones_device_all n zones D cur hD hcur⟩
  rw [lightAst_multizone]
  exact hrun.block fuel (by omega)


/-! ## 2b. a matrix light -/

theorem find?_unique {α : Type} (p : α → Bool) (L : List α) (x : α) (hx : x ∈ L) (hp : p x = true)
    (hu : ∀ y ∈ L, p y = true → y = x) : L.find? p = some x := by
  cases h : L.find? p with
  | none =>
    have := List.find?_eq_none.mp h x hx
    simp [hp] at this
  | some y =>
    rw [hu y (List.mem_of_find?_eq_some h) (List.find?_some h)]

/-- the stage the capture writes for cell number `k` of a matrix `w` wide: that cell alone -/
def cellStage (w : Nat) (ck : List Int × Nat) : Stage :=
  ⟨ck.2 / w, ck.2 / w, ck.2 % w, ck.2 % w, ck.1.map Val.int⟩

/-- every cell is covered by exactly its own stage -/
theorem snapshot_cell (h w : Nat) (cells : List (List Int)) (hlen : cells.length = h * w)
    (r c : Nat) (hr : r < h) (hc : c < w) :
    Matrix.cell ⟨h, w, (cells.zipIdx 0).map (cellStage w)⟩ r c =
      some ((cells.getD (r * w + c) []).map Val.int) := by
  have hk : r * w + c < cells.length := by
    rw [hlen]
    have : (r + 1) * w ≤ h * w := Nat.mul_le_mul_right w hr
    rw [Nat.succ_mul] at this
    omega
  have hdiv : (r * w + c) / w = r := by
    rw [Nat.add_comm, Nat.add_mul_div_right _ _ (by omega), Nat.div_eq_of_lt hc, Nat.zero_add]
  have hmod : (r * w + c) % w = c := by
    rw [Nat.add_comm, Nat.add_mul_mod_self_right, Nat.mod_eq_of_lt hc]
  rw [C15.cell_eq]
  rw [find?_unique _ _ (cellStage w (cells.getD (r * w + c) [], r * w + c))]
  · rfl
  · simp only [List.mem_reverse, List.mem_map]
    refine ⟨(cells.getD (r * w + c) [], r * w + c), ?_, rfl⟩
    rw [List.mem_zipIdx_iff_getElem?]
    simp [List.getD, List.getElem?_eq_getElem hk]
  · simp [C15.covers, cellStage, hdiv, hmod]
  · intro y hy hp
    simp only [List.mem_reverse, List.mem_map] at hy
    obtain ⟨⟨c', k'⟩, hmem, rfl⟩ := hy
    have hm := List.mem_zipIdx hmem
    have hp := (C15.C15_rect_inclusive (k' / w) (k' / w) (k' % w) (k' % w) (c'.map .int) r c).mp hp
    have hk' : k' = r * w + c := by
      have := Nat.div_add_mod k' w
      have e1 : k' / w = r := by omega
      have e2 : k' % w = c := by omega
      rw [e1, e2, Nat.mul_comm] at this
      omega
    subst hk'
    have hc' : c' = cells.getD (r * w + c) [] := by
      rw [hm.2.2]
      simp [List.getD, List.getElem?_eq_getElem hk]
    rw [hc']


theorem loadColor_name {s : S} {c : List Int} (hc : c.length = 4) :
    (loadColor s c).vm.regs .name = s.vm.regs .name := by
  obtain ⟨a, b, d, e, rfl⟩ := length4 hc
  rw [loadColor_vm]
  simp [State.setReg]

/-- `stage row r column c` -/
theorem stmt_stage_cell (m : Matrix) (r ci : Nat) (c : List Int) (s : S) (hr : Ready s.vm)
    (hm : s.vm.matrix = some m) (hc : HoldsColor s.vm c) (hrow : r < m.height)
    (hcol : ci < m.width) :
    ∃ s', (∀ f, 4 ≤ f →
        execStmt f (.stage (some ⟨Snapshot.lit r, none⟩) (some ⟨Snapshot.lit ci, none⟩) false) s =
          (.normal, s')) ∧
      Adds s s' [] ∧ s'.vm.regs .name = s.vm.regs .name ∧
      s'.vm.matrix = some { m with stages := m.stages ++ [⟨r, r, ci, ci, c.map Val.int⟩] } := by
  let s2 : S := ((((s.setReg .operand (.operand .matrix)).setReg .firstRow (.int r)).setReg
    .lastRow .none).setReg .firstColumn (.int ci)).setReg .lastColumn .none
  have hr2 : Ready s2.vm :=
    ((((hr.setReg _ _ (by decide) (by decide) (by decide)).setReg _ _ (by decide) (by decide)
      (by decide)).setReg _ _ (by decide) (by decide) (by decide)).setReg _ _ (by decide)
      (by decide) (by decide)).setReg _ _ (by decide) (by decide) (by decide)
  have hc2 : HoldsColor s2.vm c :=
    ((((hc.setReg _ _ (by decide) (by decide) (by decide) (by decide)).setReg _ _ (by decide)
      (by decide) (by decide) (by decide)).setReg _ _ (by decide) (by decide) (by decide)
      (by decide)).setReg _ _ (by decide) (by decide) (by decide) (by decide)).setReg _ _
      (by decide) (by decide) (by decide) (by decide)
  have hcol2 := getColor_of_holds hr2 hc2
  have hdo := C15.doColor_stage s2.vm m r r ci ci (by simp [s2, S.setReg, State.setReg]) hm
    (by
      have e1 : s2.vm.regs .firstRow = .int r := by simp [s2, S.setReg, State.setReg]
      have e2 : s2.vm.regs .lastRow = .none := by simp [s2, S.setReg, State.setReg]
      rw [e1, e2]; exact C15.C15_omitted_end_is_start r _)
    (by
      have e1 : s2.vm.regs .firstColumn = .int ci := by simp [s2, S.setReg, State.setReg]
      have e2 : s2.vm.regs .lastColumn = .none := by simp [s2, S.setReg, State.setReg]
      rw [e1, e2]; exact C15.C15_omitted_end_is_start ci _)
    (.inr ⟨hrow, hcol⟩)
  rw [hcol2] at hdo
  let vm3 : Vm.State :=
    { s2.vm with matrix := some { m with stages := m.stages ++ [⟨r, r, ci, ci, c.map Val.int⟩] } }
  refine ⟨{ s2 with vm := vm3 }, ?_, ⟨⟨hr2.mode, hr2.dur, hr2.time, hr2.run⟩, sameDir_of_lights rfl, rfl⟩,
    by simp [vm3, s2, S.setReg, State.setReg], rfl⟩
  intro f hf
  obtain ⟨g, rfl⟩ : ∃ g, f = g + 4 := ⟨f - 4, by omega⟩
  simp only [Snapshot.lit]
  rw [exec_stage_cell, device_running _ _ (by rw [hdo]; exact hr2.run), hdo]

def cellStmts (w : Nat) (ck : List Int × Nat) : List Stmt :=
  settingsAst ck.1 ++ [Stmt.stage (some ⟨Snapshot.lit (ck.2 / w : Nat), none⟩)
    (some ⟨Snapshot.lit (ck.2 % w : Nat), none⟩) false]

theorem lightAst_matrix (n : String) (h w : Nat) (cells : List (List Int)) :
    lightAst (.matrix n h w cells) =
      [.action .set true (.cons (.matrixBlock (.str n)
        (Block.ofList ((cells.zipIdx 0).map (cellStmts w)).flatten)) .nil)] := rfl

theorem cells_run (h w : Nat) : ∀ (cells : List (List Int)) (k : Nat) (s : S) (stages : List Stage),
    Ready s.vm → s.vm.matrix = some ⟨h, w, stages⟩ → (∀ c ∈ cells, InRange c) →
    k + cells.length ≤ h * w →
    ∃ s', RunsTo 4 ((cells.zipIdx k).map (cellStmts w)).flatten s s' ∧ Adds s s' [] ∧
      s'.vm.regs .name = s.vm.regs .name ∧
      s'.vm.matrix = some ⟨h, w, stages ++ (cells.zipIdx k).map (cellStage w)⟩ := by
  intro cells
  induction cells with
  | nil =>
    intro k s stages hr hm _ _
    exact ⟨s, RunsTo.nil 4 s, ⟨hr, SameDir.rfl', rfl⟩, rfl, by simpa using hm⟩
  | cons c rest ih =>
    intro k s stages hr hm hin hlen
    have hc := hin c (by simp)
    simp only [List.length_cons] at hlen
    have hkw : k < h * w := by omega
    have hw : 0 < w := by
      rcases Nat.eq_zero_or_pos w with h0 | h0
      · subst h0; simp at hkw
      · exact h0
    have h0 := loadColor_adds hc.1 hr
    obtain ⟨s2, hx2, ha2, hn2, hm2⟩ := stmt_stage_cell ⟨h, w, stages⟩ (k / w) (k % w) c (loadColor s c)
      h0.ready (by rw [loadColor_matrix hc.1]; exact hm) (loadColor_holds hc.1)
      ((Nat.div_lt_iff_lt_mul hw).mpr hkw) (Nat.mod_lt _ hw)
    obtain ⟨s3, hx3, ha3, hn3, hm3⟩ := ih (k + 1) s2 _ ha2.ready hm2
      (fun x hx => hin x (by simp [hx])) (by omega)
    refine ⟨s3, ?_, (h0.trans ha2).trans ha3, by rw [hn3, hn2, loadColor_name hc.1], ?_⟩
    · simp only [List.zipIdx_cons, List.map_cons, List.flatten_cons]
      exact RunsTo.append
        (RunsTo.append ((settings_run c s).mono (by omega)) (RunsTo.single hx2)) hx3
    · rw [hm3]
      simp [List.zipIdx_cons, cellStage]

theorem cellStmts_length_le (w : Nat) (cells : List (List Int)) (k : Nat) :
    ((cells.zipIdx k).map (cellStmts w)).flatten.length ≤ 5 * cells.length := by
  induction cells generalizing k with
  | nil => simp
  | cons z rest ih =>
    have := ih (k + 1)
    have h4 := settingsAst_length_le z
    simp only [List.zipIdx_cons, List.map_cons, List.flatten_cons, List.length_append, cellStmts,
      List.length_cons, List.length_nil]
    omega


theorem index_lt {h w r c : Nat} (hr : r < h) (hc : c < w) : r * w + c < h * w := by
  have : (r + 1) * w ≤ h * w := Nat.mul_le_mul_right w hr
  rw [Nat.succ_mul] at this
  omega

theorem tile_cells (h w : Nat) (cells : List (List Int)) (hlen : cells.length = h * w) :
    C15.tile h w (fun r c => cells.getD (r * w + c) []) = cells := by
  apply C15.tile_ext h w _ _ (C15.tile_length _ _ _) hlen
  intro r c hr hc
  rw [C15.tile_getElem? h w _ r c hr hc]
  have hk : r * w + c < cells.length := by rw [hlen]; exact index_lt hr hc
  simp [List.getD, List.getElem?_eq_getElem hk]

theorem matrix_runs (n : String) (h w : Nat) (cells : List (List Int)) (s : S)
    (hr : Ready s.vm) (hk : HasKind s.vm n (.matrix h w)) (hin : ∀ c ∈ cells, InRange c)
    (hlen : cells.length = h * w) :
    ∃ s', RunsTo (5 * cells.length + 8) (lightAst (.matrix n h w cells)) s s' ∧
      Adds s s' [.setTile n cells 0 w h] := by
  obtain ⟨l, hl, hkind⟩ := hk
  let s1 : S := { s with vm := { s.vm.setReg .name (.str n) with matrix := some ⟨h, w, []⟩ } }
  have hr1 : Ready s1.vm := by
    have := hr.setReg .name (.str n) (by decide) (by decide) (by decide)
    exact ⟨this.mode, this.dur, this.time, this.run⟩
  have hd1 : SameDir s.vm s1.vm := sameDir_of_lights rfl
  obtain ⟨s2, hx2, ha2, hn2, hm2⟩ := cells_run h w cells 0 s1 [] hr1 rfl hin (by omega)
  let s3 : S := (s2.setReg .name (.str n)).setReg .operand (.operand .matrixLight)
  have hr3 : Ready s3.vm :=
    (ha2.ready.setReg .name (.str n) (by decide) (by decide) (by decide)).setReg _ _ (by decide)
      (by decide) (by decide)
  have hd3 : SameDir s.vm s3.vm := (hd1.trans ha2.dir).trans (sameDir_of_lights rfl)
  obtain ⟨l3, hl3, hk3⟩ := HasKind.of_sameDir hd3 ⟨l, hl, hkind⟩
  have hname3 : s3.vm.regs .name = .str n := by simp [s3, S.setReg, State.setReg]
  have hcells : ∀ r c, r < h → c < w →
      C15.cellWire s3.vm (Matrix.cell ⟨h, w, (cells.zipIdx 0).map (cellStage w)⟩ r c) =
        some (cells.getD (r * w + c) []) := by
    intro r c hr' hc'
    rw [snapshot_cell h w cells hlen r c hr' hc']
    have hk : r * w + c < cells.length := by rw [hlen]; exact index_lt hr' hc'
    have hmem : cells.getD (r * w + c) [] ∈ cells := by
      simp [List.getD, List.getElem?_eq_getElem hk]
    have hw := wireColor_ints _ (hin _ hmem).2
    simp only [C15.cellWire, State.asRawColor, hr3.mode_raw, convert, Option.bind_some]
    exact hw
  have hdo := C15.doColor_matrixLight s3.vm l3 h w ⟨h, w, (cells.zipIdx 0).map (cellStage w)⟩
    (fun r c => cells.getD (r * w + c) []) 0 (by simp [s3, S.setReg, State.setReg])
    (by rw [hname3]; exact hl3) hk3
    (by
      have : s3.vm.matrix = s2.vm.matrix := rfl
      rw [this, hm2]; simp)
    rfl rfl hcells hr3.dur_wire
  rw [tile_cells h w cells hlen, light?_name hl3] at hdo
  refine ⟨{ s3 with vm := s3.vm.emit (.setTile n cells 0 w h) }, ?_,
    ⟨ready_emit hr3 _, hd3, ?_⟩⟩
  · rw [lightAst_matrix]
    apply RunsTo.single
    intro f hf
    obtain ⟨g, rfl⟩ : ∃ g, f = g + 3 := ⟨f - 3, by omega⟩
    rw [exec_action_single g .set _ s hr.time hr.run]
    simp only []
    rw [exec_matrixBlock g .set n _ s l h w hl hkind hr.run]
    have hb := hx2.block g (by
      have := cellStmts_length_le w cells 0
      omega)
    rw [hb]
    simp only [beq_self_eq_true, if_true]
    rw [device_running _ _ (by rw [hdo]; exact hr3.run), hdo]
  · have : s3.vm.trace = s2.vm.trace := rfl
    simp only [State.emit, this, ha2.trace]
    rfl

/-- **C18_matrix_restored.**  The block written for a matrix light `n` of any height and width
(`cells.length = h * w`, each component anywhere in 0…65535), run from any ready state, sends
exactly one `setTile` whose cells are exactly the captured cells, in order; a device in any
other state ends with exactly the captured cells. -/
theorem C18_matrix_restored (n : String) (h w : Nat) (cells : List (List Int)) (s : S)
    (hr : Ready s.vm) (hk : HasKind s.vm n (.matrix h w)) (hin : ∀ c ∈ cells, InRange c)
    (hlen : cells.length = h * w) (fuel : Nat) (hf : 5 * cells.length + 10 ≤ fuel)
    (D : DeviceState) (cur : List (List Int)) (hD : D n = some (.matrix cur)) :
    ∃ s', execBlock fuel (Block.ofList (lightAst (.matrix n h w cells))) s = (.normal, s') ∧
      s'.vm.trace = [.setTile n cells 0 w h] ++ s.vm.trace ∧
      applyTrace [.setTile n cells 0 w h] D n = some (.matrix cells) := by
  obtain ⟨s', hrun, hadds⟩ := matrix_runs n h w cells s hr hk hin hlen
  refine ⟨s', hrun.block fuel (by simp [lightAst]; omega), hadds.trace, ?_⟩
  simp [applyTrace, applyEvent, upd, hD, Dev.setTile]


/-! ## 3. the whole population -/

/-- `sortNames` only reorders -/
theorem sortNames_perm (xs : List String) : (sortNames xs).Perm xs := by
  have key : ∀ (xs acc : List String),
      (xs.foldl (fun acc x => (acc.takeWhile (· < x)) ++ [x] ++ (acc.dropWhile (· < x))) acc).Perm
        (acc ++ xs) := by
    intro xs
    induction xs with
    | nil => intro acc; simp
    | cons x rest ih =>
      intro acc
      simp only [List.foldl_cons]
      refine (ih _).trans ?_
      have h1 : (List.takeWhile (· < x) acc ++ [x] ++ List.dropWhile (· < x) acc).Perm (x :: acc) := by
        have e : List.takeWhile (· < x) acc ++ [x] ++ List.dropWhile (· < x) acc =
            List.takeWhile (· < x) acc ++ x :: List.dropWhile (· < x) acc := by simp
        rw [e]
        have p := List.perm_middle (a := x) (l₁ := List.takeWhile (· < x) acc)
          (l₂ := List.dropWhile (· < x) acc)
        rwa [List.takeWhile_append_dropWhile] at p
      refine (List.Perm.append_right rest h1).trans ?_
      exact (List.perm_middle (l₁ := acc) (l₂ := rest) (a := x)).symm
  simpa [sortNames] using key xs []

theorem mem_ordered {ls : List Captured} {c : Captured} (h : c ∈ ordered ls) : c ∈ ls := by
  simp only [ordered, List.mem_filterMap] at h
  obtain ⟨n, _, hf⟩ := h
  exact List.mem_of_find?_eq_some hf

theorem ordered_names (ls : List Captured) :
    (ordered ls).map (·.name) = sortNames (ls.map (·.name)) := by
  have key : ∀ names : List String, (∀ n ∈ names, ∃ c ∈ ls, c.name = n) →
      (names.filterMap fun n => ls.find? (·.name == n)).map (·.name) = names := by
    intro names
    induction names with
    | nil => intro _; rfl
    | cons n rest ih =>
      intro h
      obtain ⟨c, hc, hn⟩ := h n (by simp)
      have hsome : (ls.find? (·.name == n)).isSome := by
        rw [List.find?_isSome]
        exact ⟨c, hc, by simp [hn]⟩
      obtain ⟨c', hc'⟩ := Option.isSome_iff_exists.mp hsome
      have hn' : c'.name = n := by simpa using List.find?_some hc'
      rw [List.filterMap_cons, hc']
      simp only [List.map_cons, hn']
      rw [ih (fun m hm => h m (by simp [hm]))]
  apply key
  intro n hn
  have := (sortNames_perm _).mem_iff.mp hn
  simpa using this

theorem name_inj {ls : List Captured} (hnd : (ls.map (·.name)).Nodup) {a b : Captured}
    (ha : a ∈ ls) (hb : b ∈ ls) (h : a.name = b.name) : a = b := by
  induction ls with
  | nil => cases ha
  | cons x rest ih =>
    simp only [List.map_cons, List.nodup_cons, List.mem_map, not_exists, not_and] at hnd
    simp only [List.mem_cons] at ha hb
    rcases ha with rfl | ha <;> rcases hb with rfl | hb
    · rfl
    · exact absurd h.symm (hnd.1 b hb)
    · exact absurd h (hnd.1 a ha)
    · exact ih hnd.2 ha hb

theorem ordered_mem {ls : List Captured} (hnd : (ls.map (·.name)).Nodup) {c : Captured}
    (hc : c ∈ ls) : c ∈ ordered ls := by
  simp only [ordered, List.mem_filterMap]
  refine ⟨c.name, (sortNames_perm _).mem_iff.mpr (by simp; exact ⟨c, hc, rfl⟩), ?_⟩
  have hsome : (ls.find? (·.name == c.name)).isSome := by
    rw [List.find?_isSome]
    exact ⟨c, hc, by simp⟩
  obtain ⟨c', hc'⟩ := Option.isSome_iff_exists.mp hsome
  have hn' : c'.name = c.name := by simpa using List.find?_some hc'
  rw [hc', name_inj hnd (List.mem_of_find?_eq_some hc') hc hn']

theorem ordered_nodup {ls : List Captured} (hnd : (ls.map (·.name)).Nodup) :
    ((ordered ls).map (·.name)).Nodup := by
  rw [ordered_names]
  exact (sortNames_perm _).nodup_iff.mpr hnd


theorem init_raw (lights : List Light) :
    Ready ((Vm.init lights).switchMode .raw) ∧ ((Vm.init lights).switchMode .raw).lights = lights ∧
      ((Vm.init lights).switchMode .raw).trace = [] := by
  refine ⟨⟨?_, ?_, ?_, ?_⟩, ?_, ?_⟩
  · rfl
  · show numOf (.num (0 * 1000)) = some 0
    simp [numOf, Val.asNum, Rat.zero_mul]
  · show numOf (.num (0 * 1000)) = some 0
    simp [numOf, Val.asNum, Rat.zero_mul]
  · rfl
  · rfl
  · rfl

/-- a possible capture: raw values in range, matrix cells matching the size -/
def Valid : Captured → Prop
  | .plain _ c p => InRange c ∧ (p = 0 ∨ p = 65535)
  | .multizone _ zones => zones.length ≤ 65535 ∧ ∀ z ∈ zones, InRange z
  | .matrix _ h w cells => cells.length = h * w ∧ ∀ c ∈ cells, InRange c

def kindOf : Captured → LightKind
  | .plain _ _ _ => .plain
  | .multizone _ zones => .multizone zones.length
  | .matrix _ h w _ => .matrix h w

/-- the captured state as a device state -/
def devOf : Captured → Dev
  | .plain _ c p => .plain c p
  | .multizone _ zones => .multizone zones
  | .matrix _ _ _ cells => .matrix cells

/-- the messages replaying one light's lines sends, oldest first -/
def events : Captured → List Event
  | .plain n c p => [.setPower n p 0, .setColor n c 0]
  | .multizone n zones => zoneEvents n zones
  | .matrix n h w cells => [.setTile n cells 0 w h]

/-- the device at replay time is the same light: same make, same number of zones -/
def SameShape (D : DeviceState) : Captured → Prop
  | .plain n _ _ => ∃ c p, D n = some (.plain c p)
  | .multizone n zones => ∃ cur, D n = some (.multizone cur) ∧ cur.length = zones.length
  | .matrix n _ _ _ => ∃ cur, D n = some (.matrix cur)

/-- fuel one statement of a light's lines may need -/
def stmtBound : Captured → Nat
  | .plain _ _ _ => 3
  | .multizone _ _ => 5
  | .matrix _ _ _ cells => 5 * cells.length + 8

theorem light_runs (c : Captured) (s : S) (hr : Ready s.vm)
    (hk : HasKind s.vm c.name (kindOf c)) (hv : Valid c) :
    ∃ s', RunsTo (stmtBound c) (lightAst c) s s' ∧ Adds s s' (events c).reverse := by
  cases c with
  | plain n col p => exact plain_runs n col p _ s hr hk hv.1 hv.2
  | multizone n zones =>
    obtain ⟨s', h1, h2⟩ := zones_run n zones.length zones 0 s hr hk hv.2 (by have := hv.1; omega)
    exact ⟨s', h1, h2⟩
  | matrix n h w cells => exact matrix_runs n h w cells s hr hk hv.2 hv.1

theorem lights_run (K : Nat) : ∀ (ord : List Captured) (s : S), (∀ c ∈ ord, stmtBound c ≤ K) →
    Ready s.vm → (∀ c ∈ ord, HasKind s.vm c.name (kindOf c)) → (∀ c ∈ ord, Valid c) →
    ∃ s', RunsTo K (ord.map lightAst).flatten s s' ∧ Adds s s' (ord.flatMap events).reverse := by
  intro ord
  induction ord with
  | nil => intro s _ hr _ _; exact ⟨s, RunsTo.nil K s, hr, SameDir.rfl', rfl⟩
  | cons c rest ih =>
    intro s hK hr hk hv
    obtain ⟨s1, hx1, ha1⟩ := light_runs c s hr (hk c (by simp)) (hv c (by simp))
    obtain ⟨s2, hx2, ha2⟩ := ih s1 (fun x hx => hK x (by simp [hx])) ha1.ready
      (fun x hx => (hk x (by simp [hx])).of_sameDir ha1.dir) (fun x hx => hv x (by simp [hx]))
    refine ⟨s2, ?_, ?_⟩
    · simp only [List.map_cons, List.flatten_cons]
      exact RunsTo.append (hx1.mono (hK c (by simp))) hx2
    · simp only [List.flatMap_cons, List.reverse_append]
      exact ha1.trans ha2

theorem events_target (c : Captured) : ∀ e ∈ events c, target e = some c.name := by
  cases c with
  | plain n col p =>
    intro e he
    simp only [events, List.mem_cons, List.not_mem_nil, or_false] at he
    rcases he with rfl | rfl <;> rfl
  | multizone n zones =>
    intro e he
    simp only [events, zoneEvents, List.mem_map] at he
    obtain ⟨zi, _, rfl⟩ := he
    rfl
  | matrix n h w cells =>
    intro e he
    simp only [events, List.mem_cons, List.not_mem_nil, or_false] at he
    subst he; rfl

/-- **frame**, for a whole trace: messages addressed to other lights leave device `m` alone -/
theorem applyTrace_frame' (m : String) : ∀ (evs : List Event),
    (∀ e ∈ evs, ∃ n, target e = some n ∧ n ≠ m) → ∀ D, applyTrace evs D m = D m := by
  intro evs
  induction evs with
  | nil => intro _ D; rfl
  | cons e evs ih =>
    intro h D
    obtain ⟨n, hn, hne⟩ := h e (by simp)
    have h1 : applyTrace (e :: evs) D = applyTrace [e] (applyTrace evs D) := rfl
    rw [h1, applyTrace_frame n m (Ne.symm hne) [e] (by simpa using hn)]
    exact ih (fun x hx => h x (by simp [hx])) D

theorem light_device (c : Captured) (D : DeviceState) (hs : SameShape D c) :
    applyTrace (events c).reverse D c.name = some (devOf c) := by
  cases c with
  | plain n col p =>
    obtain ⟨c0, p0, hD⟩ := hs
    simp [events, applyTrace, applyEvent, upd, hD, Dev.setColor, Dev.setPower, devOf, Captured.name]
  | multizone n zones =>
    obtain ⟨cur, hD, hl⟩ := hs
    exact zones_device_all n zones D cur hD hl
  | matrix n h w cells =>
    obtain ⟨cur, hD⟩ := hs
    simp [events, applyTrace, applyEvent, upd, hD, Dev.setTile, devOf, Captured.name]

theorem SameShape.congr {D D' : DeviceState} {c : Captured} (h : D' c.name = D c.name)
    (hs : SameShape D c) : SameShape D' c := by
  cases c <;> simp only [SameShape, Captured.name] at * <;> rw [h] <;> exact hs

theorem lights_device : ∀ (ord : List Captured) (D : DeviceState), (ord.map (·.name)).Nodup →
    (∀ c ∈ ord, SameShape D c) →
    ∀ c ∈ ord, applyTrace (ord.flatMap events).reverse D c.name = some (devOf c) := by
  intro ord
  induction ord with
  | nil => intro D _ _ c hc; cases hc
  | cons x rest ih =>
    intro D hnd hs c hc
    simp only [List.map_cons, List.nodup_cons, List.mem_map, not_exists, not_and] at hnd
    simp only [List.flatMap_cons, List.reverse_append]
    rw [applyTrace_append]
    have hframe : ∀ y ∈ rest, applyTrace (events x).reverse D y.name = D y.name := by
      intro y hy
      apply applyTrace_frame x.name y.name
      · intro e; exact hnd.1 y hy (e ▸ rfl)
      · intro e he
        exact events_target x e (by simpa using he)
    simp only [List.mem_cons] at hc
    rcases hc with rfl | hc
    · rw [applyTrace_frame' c.name]
      · exact light_device c D (hs c (by simp))
      · intro e he
        simp only [List.mem_reverse, List.mem_flatMap] at he
        obtain ⟨y, hy, hey⟩ := he
        exact ⟨y.name, events_target y e hey, fun e' => hnd.1 y hy e'⟩
    · exact ih _ hnd.2 (fun y hy => SameShape.congr (hframe y hy) (hs y (by simp [hy]))) c hc

theorem stmtBound_le_max (ord : List Captured) :
    ∀ c ∈ ord, stmtBound c ≤ (ord.map stmtBound).foldr max 3 := by
  induction ord with
  | nil => intro c hc; cases hc
  | cons x rest ih =>
    intro c hc
    simp only [List.map_cons, List.foldr_cons]
    simp only [List.mem_cons] at hc
    rcases hc with rfl | hc
    · exact Nat.le_max_left _ _
    · exact Nat.le_trans (ih c hc) (Nat.le_max_right _ _)

/-- fuel that suffices to replay the capture of `ls`: one unit per top-level statement, plus
what the most deeply nested statement (the largest matrix block) needs -/
def fuelBound (ls : List Captured) : Nat :=
  ((ordered ls).map lightAst).flatten.length + ((ordered ls).map stmtBound).foldr max 3 + 2

/-- **C18_snapshot_roundtrip.**  For every population of captured lights with pairwise distinct
names — any mix of plain, multizone and matrix lights, any zone counts and matrix sizes, every
raw component anywhere in 0…65535, power on or off — the script `Snapshot.scriptAst ls`, run
from the VM's initial state against the same lights, ends normally, sends exactly the messages
`events` lists, light after light in name order, and leaves every device — whatever state it
was in before — in exactly the captured state. -/
theorem C18_snapshot_roundtrip (ls : List Captured) (lights : List Light) (D : DeviceState)
    (hnd : (ls.map (·.name)).Nodup) (hv : ∀ c ∈ ls, Valid c)
    (hpop : ∀ c ∈ ls, HasKind (Vm.init lights) c.name (kindOf c))
    (hD : ∀ c ∈ ls, SameShape D c) (fuel : Nat) (hf : fuelBound ls ≤ fuel) :
    (Sem.run fuel (scriptAst ls) lights).1 = .normal ∧
    (Sem.run fuel (scriptAst ls) lights).2.vm.trace = ((ordered ls).flatMap events).reverse ∧
    ∀ c ∈ ls, applyTrace (Sem.run fuel (scriptAst ls) lights).2.vm.trace D c.name =
      some (devOf c) := by
  let K := ((ordered ls).map stmtBound).foldr max 3
  let s0 : S := { vm := Vm.init lights, routines := (collect (scriptAst ls)).reverse }
  obtain ⟨hr1, hl1, ht1⟩ := init_raw lights
  let s1 : S := { s0 with vm := (Vm.init lights).switchMode .raw }
  have hunits : RunsTo K [Stmt.units .raw] s0 s1 := by
    apply RunsTo.single
    intro f hf
    obtain ⟨g, rfl⟩ : ∃ g, f = g + 1 := ⟨f - 1, by
      have : 3 ≤ K := by
        show 3 ≤ ((ordered ls).map stmtBound).foldr max 3
        generalize (ordered ls).map stmtBound = xs
        induction xs with
        | nil => exact Nat.le_refl _
        | cons a t ih => exact Nat.le_trans ih (Nat.le_max_right _ _)
      omega⟩
    simp only [execStmt]
    exact device_running s0 _ hr1.run
  have hd01 : SameDir (Vm.init lights) s1.vm := sameDir_of_lights hl1
  obtain ⟨s2, hx2, ha2⟩ := lights_run K (ordered ls) s1 (stmtBound_le_max _) hr1
    (fun c hc => (hpop c (mem_ordered hc)).of_sameDir hd01) (fun c hc => hv c (mem_ordered hc))
  have hrun : Sem.run fuel (scriptAst ls) lights = (.normal, s2) := by
    have := (RunsTo.append hunits hx2).block fuel (by
      simp only [fuelBound] at hf
      simp only [List.length_append, List.length_cons, List.length_nil]
      omega)
    exact this
  have htrace : s2.vm.trace = ((ordered ls).flatMap events).reverse := by
    rw [ha2.trace]
    show _ ++ ((Vm.init lights).switchMode .raw).trace = _
    rw [ht1, List.append_nil]
  rw [hrun]
  refine ⟨rfl, htrace, ?_⟩
  intro c hc
  simp only [htrace]
  exact lights_device (ordered ls) D (ordered_nodup hnd) (fun x hx => hD x (mem_ordered hx)) c
    (ordered_mem hnd hc)


/-! ## 4. the AST is the text

`pretty` writes the statement forms the capture uses the way `ScriptSnapshot` writes them; the
script text of a capture is the pretty-printed AST (plus the comment line for an empty
population, which is not a statement). -/

def regWord : Reg → String
  | .hue => "hue" | .saturation => "saturation" | .brightness => "brightness"
  | .kelvin => "kelvin" | _ => "?"

mutual
  def pretty : Stmt → String
    | .units .raw => "units raw\n"
    | .setReg r (.lit (.int v)) => regWord r ++ " " ++ toString v ++ " "
    | .action .on true (.cons (.light (.str n)) .nil) => "on " ++ quoted n ++ "\n"
    | .action .off true (.cons (.light (.str n)) .nil) => "off " ++ quoted n ++ "\n"
    | .action .set true (.cons (.light (.str n)) .nil) => "set " ++ quoted n ++ "\n"
    | .action .set true (.cons (.zone (.str n) ⟨.lit (.int i), none⟩) .nil) =>
      "set " ++ quoted n ++ " zone " ++ toString i ++ "\n"
    | .action .set true (.cons (.matrixBlock (.str n) body) .nil) =>
      "set " ++ quoted n ++ " begin\n" ++ prettyBlock body ++ "end\n"
    | .stage (some ⟨.lit (.int r), none⟩) (some ⟨.lit (.int c), none⟩) false =>
      "stage row " ++ toString r ++ " column " ++ toString c ++ "\n"
    | _ => ""
  def prettyBlock : Block → String
    | .nil => ""
    | .cons s rest => pretty s ++ prettyBlock rest
end

theorem prettyBlock_append (xs ys : List Stmt) :
    prettyBlock (Block.ofList (xs ++ ys)) =
      prettyBlock (Block.ofList xs) ++ prettyBlock (Block.ofList ys) := by
  induction xs with
  | nil => simp [Block.ofList, prettyBlock, String.empty_append]
  | cons x rest ih => simp [Block.ofList, prettyBlock, ih, String.append_assoc]

theorem prettyBlock_flatten {α : Type} (f : α → List Stmt) (L : List α) :
    prettyBlock (Block.ofList (L.map f).flatten) =
      String.join (L.map fun x => prettyBlock (Block.ofList (f x))) := by
  induction L with
  | nil => simp [Block.ofList, prettyBlock]
  | cons x rest ih =>
    simp only [List.map_cons, List.flatten_cons, prettyBlock_append, ih, String.join_cons]

theorem pretty_settings (c : List Int) :
    prettyBlock (Block.ofList (settingsAst c)) = settingsText c := by
  have key : ∀ (rs : List Reg) (c : List Int),
      prettyBlock (Block.ofList ((rs.zip c).map fun (rv : Reg × Int) => Stmt.setReg rv.1 (Snapshot.lit rv.2))) =
        String.join (((rs.map regWord).zip c).map fun (wv : String × Int) =>
          wv.1 ++ " " ++ toString wv.2 ++ " ") := by
    intro rs
    induction rs with
    | nil => intro c; simp [Block.ofList, prettyBlock]
    | cons r rest ih =>
      intro c
      cases c with
      | nil => simp [Block.ofList, prettyBlock]
      | cons v c =>
        simp only [List.zip_cons_cons, List.map_cons, Block.ofList, prettyBlock, String.join_cons]
        rw [ih c]
        simp only [Snapshot.lit, pretty]
  exact key [Reg.hue, .saturation, .brightness, .kelvin] c

theorem pretty_zone_item (n : String) (z : List Int) (i : Nat) :
    prettyBlock (Block.ofList (settingsAst z ++
      [Stmt.action .set true (.cons (.zone (.str n) ⟨Snapshot.lit i, none⟩) .nil)])) =
    settingsText z ++ "set " ++ quoted n ++ " zone " ++ toString i ++ "\n" := by
  simp only [prettyBlock_append, pretty_settings, Block.ofList, prettyBlock, pretty, Snapshot.lit,
    String.append_assoc, String.append_empty]
  rfl

theorem pretty_cell_item (w : Nat) (c : List Int) (k : Nat) :
    prettyBlock (Block.ofList (settingsAst c ++
      [Stmt.stage (some ⟨Snapshot.lit (k / w : Nat), none⟩) (some ⟨Snapshot.lit (k % w : Nat), none⟩)
        false])) =
    settingsText c ++ "stage row " ++ toString (k / w) ++ " column " ++ toString (k % w) ++ "\n" := by
  simp only [prettyBlock_append, pretty_settings, Block.ofList, prettyBlock, pretty, Snapshot.lit,
    String.append_assoc, String.append_empty]
  rfl

theorem pretty_light (c : Captured) : prettyBlock (Block.ofList (lightAst c)) = lightText c := by
  cases c with
  | plain n col p =>
    simp only [lightAst, lightText, prettyBlock_append, pretty_settings]
    cases hp : (p != 0) <;>
      simp only [Block.ofList, prettyBlock, pretty, String.append_assoc, String.append_empty,
        Bool.false_eq_true, if_false, if_true]
  | multizone n zones =>
    simp only [lightAst, lightText, prettyBlock_flatten, pretty_zone_item]
  | matrix n h w cells =>
    simp only [lightAst, lightText, Block.ofList, prettyBlock, pretty, prettyBlock_flatten,
      String.append_empty, pretty_cell_item]

/-- **C18_ast_is_text.**  The text the capture writes is the AST the theorems above run,
pretty-printed statement by statement — byte for byte; an empty population adds one comment
line, which is not a statement. -/
theorem C18_ast_is_text (ls : List Captured) :
    prettyBlock (scriptAst ls) ++ (if ls.isEmpty then "# No lights found.\n" else "") =
      scriptText ls := by
  have : scriptAst ls = Block.ofList ([Stmt.units .raw] ++ ((ordered ls).map lightAst).flatten) := rfl
  rw [this, prettyBlock_append, prettyBlock_flatten]
  simp only [scriptText, Block.ofList, prettyBlock, pretty, String.append_empty, pretty_light]


/-! ## the hypotheses are satisfiable

A population with one light of each kind, captured in one state and replayed against devices
in another. -/
namespace Example

def captured : List Captured :=
  [.plain "lamp" [21845, 65535, 32768, 3500] 65535,
   .multizone "strip" [[0, 0, 0, 2700], [100, 200, 300, 2700], [65535, 65535, 65535, 9000]],
   .matrix "tile" 2 2 [[1, 2, 3, 4], [5, 6, 7, 8], [9, 10, 11, 12], [13, 14, 15, 16]]]

def lights : List Light :=
  [{ name := "lamp", group := "g", location := "l", kind := .plain },
   { name := "strip", group := "g", location := "l", kind := .multizone 3 },
   { name := "tile", group := "g", location := "l", kind := .matrix 2 2 }]

def before : DeviceState
  | "lamp" => some (.plain [1, 1, 1, 1] 0)
  | "strip" => some (.multizone [[7, 7, 7, 7], [8, 8, 8, 8], [9, 9, 9, 9]])
  | "tile" => some (.matrix [[0, 0, 0, 0], [0, 0, 0, 0], [0, 0, 0, 0], [0, 0, 0, 0]])
  | _ => none

theorem inRange_of {c : List Int} (h : c.length = 4 ∧ c.all (fun x => 0 ≤ x && x ≤ 65535) = true) :
    InRange c := by
  refine ⟨h.1, ?_⟩
  intro x hx
  have := List.all_eq_true.mp h.2 x hx
  simpa using this

theorem captured_valid : ∀ c ∈ captured, Valid c := by
  intro c hc
  simp only [captured, List.mem_cons, List.not_mem_nil, or_false] at hc
  rcases hc with rfl | rfl | rfl
  · exact ⟨inRange_of (by decide), .inr rfl⟩
  · refine ⟨by decide, ?_⟩
    intro z hz
    simp only [List.mem_cons, List.not_mem_nil, or_false] at hz
    rcases hz with rfl | rfl | rfl <;> exact inRange_of (by decide)
  · refine ⟨by decide, ?_⟩
    intro z hz
    simp only [List.mem_cons, List.not_mem_nil, or_false] at hz
    rcases hz with rfl | rfl | rfl | rfl <;> exact inRange_of (by decide)

theorem captured_known : ∀ c ∈ captured, HasKind (Vm.init lights) c.name (kindOf c) := by
  intro c hc
  simp only [captured, List.mem_cons, List.not_mem_nil, or_false] at hc
  rcases hc with rfl | rfl | rfl
  · exact ⟨{ name := "lamp", group := "g", location := "l", kind := .plain }, rfl, rfl⟩
  · exact ⟨{ name := "strip", group := "g", location := "l", kind := .multizone 3 }, rfl, rfl⟩
  · exact ⟨{ name := "tile", group := "g", location := "l", kind := .matrix 2 2 }, rfl, rfl⟩

theorem before_shape : ∀ c ∈ captured, SameShape before c := by
  intro c hc
  simp only [captured, List.mem_cons, List.not_mem_nil, or_false] at hc
  rcases hc with rfl | rfl | rfl
  · exact ⟨_, _, rfl⟩
  · exact ⟨_, rfl, rfl⟩
  · exact ⟨_, rfl⟩

/-- the replay ends normally and every device ends in the captured state -/
example : (Sem.run 200 (scriptAst captured) lights).1 = .normal ∧
    ∀ c ∈ captured, applyTrace (Sem.run 200 (scriptAst captured) lights).2.vm.trace before c.name =
      some (devOf c) := by
  have h := C18_snapshot_roundtrip captured lights before (by decide) captured_valid captured_known
    before_shape 200 (by decide)
  exact ⟨h.1, h.2.2⟩

/-- the text, for a small population (lights in name order, names with spaces) -/
example : scriptText [.plain "lamp" [1, 2, 3, 4] 65535, .multizone "a strip" [[5, 6, 7, 8]]] =
    "units raw\nhue 5 saturation 6 brightness 7 kelvin 8 set \"a strip\" zone 0\nhue 1 saturation 2 brightness 3 kelvin 4 on \"lamp\"\nset \"lamp\"\n" := by
  decide +kernel

example : prettyBlock (scriptAst captured) = scriptText captured := by
  have := C18_ast_is_text captured
  simpa [captured, String.append_empty] using this

end Example

end C18
end Bardolph
