import Bardolph.Proofs.ParseTokBase
/-!
# C03 on the token-level parser model: a parameter hides a macro

"A parameter hides a global of the same name for the whole body."  For global *variables* the
symbol lookup (`Context.get_symbol`: locals first) always did that.  For *macros* the compiler
substituted the constant before it looked at the locals (`define step 10  define f with step begin
print step end  f 3` printed 10) until repository commit 7b6a843 made `Context.get_macro` give way
to a local of the same name.  The theorems below state the repaired behaviour for every parser
state and every place a value can stand.
-/
namespace Bardolph.ParseTok
open Bardolph

/-- a name that is a parameter or a local of the routine being compiled is no macro, whatever the
global table holds -/
theorem C03_local_is_no_macro (st : St) (n : String) (h : (st.locals.get n).isSome = true) :
    st.getMacro n = none := by
  simp [St.getMacro, h]

/-- … so the constant the compiler substitutes for the current token is none -/
theorem C03_local_has_no_constant (st : St) (hty : st.cur.ty = .name)
    (h : (st.locals.get st.cur.str).isSome = true) :
    currentConstant st = .ok none st := by
  have hm := C03_local_is_no_macro st st.cur.str h
  simp [currentConstant, currentLiteral, bind_run, hty, getSt, hm, pure_run]

/-- Where a value is expected and the current token names a parameter / local variable `p` of the
routine being compiled, the compiled code READS THE VARIABLE `p` (delivers it to the destination),
exactly as if no macro of that name existed: the result is the same for any two states that
differ only in their global table. -/
theorem C03_parameter_hides_macro (dest : Dest) (cg : CG) (st : St) (s : Sym)
    (hty : st.cur.ty = .name) (hl : st.locals.get st.cur.str = some s) (hk : s.kind = .var) :
    rvalueSimple dest cg st =
      (do deliverSrc (.var st.cur.str) dest cg; nextToken; return true : M Bool) st := by
  have hc := C03_local_has_no_constant st hty (by simp [hl])
  have hmark : st.cur.isMark "-" = false := by simp [Tok.isMark, hty]
  have hsym : st.hasSymbolTyped st.cur.str [.var] = true := by
    simp [St.hasSymbolTyped, St.getSymbol, hl, hk]
  simp [rvalueSimple, bind_run, getSt, hmark, hc, rvalueValue, hty, hsym, pure_run]

/-- non-vacuous: inside `define f with step`, with the macro `step = 10` defined before -/
example :
    let st : St := { cur := { ty := .name, content := "step", line := 1 },
                     rest := [{ ty := .eof, content := "", line := 0 }],
                     globals := [("step", { kind := .macro, val := .v (.num 10) })],
                     locals := [("step", { kind := .var })], inRoutine := true }
    st.getMacro "step" = none ∧ st.globalOfType "step" .macro ≠ none := by
  decide

end Bardolph.ParseTok
