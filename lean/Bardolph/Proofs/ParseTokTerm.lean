import Bardolph.Proofs.ParseTokStmt
/-!
Termination of the statement family of the parser model: every statement that succeeds at a token
other than end-of-file consumes a token, and the recursion never exhausts its fuel.
-/
namespace Bardolph.ParseTok
open Bardolph

variable {t : Bool}

/-! ## "Succeeds at a token other than EOF ⇒ consumes a token" -/

/-- a successful run started at a token other than end-of-file consumes at least one token -/
def SNE (m : M α) : Prop :=
  ∀ st a st', Inv st → st.cur.ty ≠ .eof → m st = .ok a st' → st'.rest.length < st.rest.length

/-- the routine leaves the pending tokens alone -/
def Keeps (m : M α) : Prop :=
  ∀ st a s, Inv st → m st = .ok a s → s.cur = st.cur ∧ s.rest = st.rest ∧ Inv s

theorem Keeps.of_sameCore {m : M α} (h : ∀ st a s, m st = .ok a s → SameCore st s) : Keeps m :=
  fun st a s hi he => ⟨(h st a s he).cur, (h st a s he).rest,
    inv_of_eq hi (h st a s he).cur (h st a s he).rest (h st a s he).globals⟩

theorem keeps_getSt : Keeps getSt := Keeps.of_sameCore fun st a s he => by
  cases he; exact ⟨rfl, rfl, rfl, rfl, rfl⟩
theorem keeps_offset : Keeps offset := Keeps.of_sameCore fun st a s he => by
  cases he; exact ⟨rfl, rfl, rfl, rfl, rfl⟩
theorem keeps_emit (i : Instr) : Keeps (emit i) := Keeps.of_sameCore fun st a s he => by
  cases he; exact ⟨rfl, rfl, rfl, rfl, rfl⟩
theorem keeps_pure (x : α) : Keeps (pure x : M α) := Keeps.of_sameCore fun st a s he => by
  cases he; exact ⟨rfl, rfl, rfl, rfl, rfl⟩
theorem keeps_setOpCode (o : OpC) : Keeps (modifySt fun st => { st with opCode := o }) :=
  Keeps.of_sameCore fun st a s he => by cases he; exact ⟨rfl, rfl, rfl, rfl, rfl⟩
theorem keeps_addBreak (n : Nat) : Keeps (addBreak n) := by
  intro st a s hi he
  unfold addBreak at he
  split at he
  · cases he; exact ⟨rfl, rfl, inv_of_eq hi rfl rfl rfl⟩
  · cases he
  · cases he
theorem Keeps.ite {c : Prop} [Decidable c] {a e : M α} (ha : Keeps a) (he : Keeps e) :
    Keeps (if c then a else e) := by
  split <;> assumption

theorem keeps_triggerError (msg : String) : Keeps (triggerError msg : M α) := by
  intro st a s _ he; cases he
theorem keeps_tokenError (x y : String) : Keeps (tokenError x y : M α) := by
  intro st a s _ he; cases he

theorem SNE.of_strict {m : M α} (h : Strict m) : SNE m := fun st a st' hi _ he => h st a st' hi he

theorem SNE.triggerError (msg : String) : SNE (triggerError msg : M α) := by
  intro st a st' _ _ he; cases he
theorem SNE.tokenError (x y : String) : SNE (tokenError x y : M α) := by
  intro st a st' _ _ he; cases he
theorem SNE.raise (k : String) : SNE (raise k : M α) := by
  intro st a st' _ _ he; cases he
theorem SNE.outOfFuel : SNE (outOfFuel : M α) := by
  intro st a st' _ _ he; cases he

theorem SNE.nextToken : SNE nextToken := fun _ _ _ hi hne he => nextToken_strict hi he hne
theorem SNE.skipToken : SNE skipToken := fun _ _ _ hi hne he => skipToken_strict hi he hne

theorem SNE.bind_left {m : M α} {k : α → M β} (hm : SNE m) (hs : Spec false m)
    (hk : ∀ a, Spec false (k a)) : SNE (m >>= k) := by
  intro st b st' hi hne he
  obtain ⟨a, s, e1, e2⟩ := bind_ok_inv he
  have l1 := hm st a s hi hne e1
  have l2 := (ok_of_spec (hk a) (ok_of_spec hs hi e1).1 e2).2
  omega

theorem SNE.keep_bind {m : M α} {k : α → M β} (hm : Keeps m) (hk : ∀ a, SNE (k a)) :
    SNE (m >>= k) := by
  intro st b st' hi hne he
  obtain ⟨a, s, e1, e2⟩ := bind_ok_inv he
  obtain ⟨hc, hr, hi'⟩ := hm st a s hi e1
  have := hk a s b st' hi' (by rw [hc]; exact hne) e2
  rw [hr] at this; exact this

theorem SNE.ite {c : Prop} [Decidable c] {a e : M α} (ha : SNE a) (he : SNE e) :
    SNE (if c then a else e) := by
  split <;> assumption

/-- `SNE` along the leading steps of a `do` block: steps that keep the tokens, then a step that
consumes one; `Spec` of what follows by `spec_steps` -/
syntax "sne_steps" ("[" term,* "]")? : tactic
macro_rules
  | `(tactic| sne_steps) => `(tactic| sne_steps [])
  | `(tactic| sne_steps [$ts,*]) => `(tactic| repeat' (first
    | assumption
    $[| with_reducible exact $ts]*
    | with_reducible exact SNE.triggerError _
    | with_reducible exact SNE.tokenError _ _
    | with_reducible exact SNE.raise _
    | with_reducible exact SNE.outOfFuel
    | with_reducible exact SNE.nextToken
    | with_reducible exact SNE.skipToken
    | with_reducible exact keeps_getSt
    | with_reducible exact keeps_offset
    | with_reducible exact keeps_emit _
    | with_reducible exact keeps_pure _
    | with_reducible exact keeps_setOpCode _
    | with_reducible exact keeps_addBreak _
    | with_reducible exact keeps_triggerError _
    | with_reducible exact keeps_tokenError _ _
    | (show Spec false _; spec_steps [$ts,*]; done)
    | with_reducible refine SNE.bind_left SNE.skipToken spec_skipToken (fun _ => ?_)
    | with_reducible refine SNE.bind_left SNE.nextToken spec_nextToken (fun _ => ?_)
    | with_reducible refine SNE.keep_bind ?_ (fun _ => ?_)
    | with_reducible apply SNE.ite
    | with_reducible apply Keeps.ite
    | split
    | (show SNE _; dsimp only)
    | (show Keeps _; dsimp only)))

theorem sne_assignment : SNE assignment := by
  unfold assignment; sne_steps [spec_rvalueTop _ _]
theorem sne_breakStmt : SNE breakStmt := by unfold breakStmt; sne_steps
theorem sne_breakpointStmt : SNE breakpointStmt := by unfold breakpointStmt; sne_steps
theorem sne_getColor : SNE getColor := by unfold getColor; sne_steps [spec_rvalueTop _ _]
theorem sne_pauseStmt : SNE pauseStmt := by unfold pauseStmt; sne_steps
theorem sne_printStmt : SNE printStmt := by unfold printStmt; sne_steps [spec_outRvalue]
theorem sne_printfStmt : SNE printfStmt := by unfold printfStmt; sne_steps [spec_printfRest]
theorem sne_printlnStmt : SNE printlnStmt := by
  unfold printlnStmt
  exact SNE.bind_left sne_printStmt spec_printStmt (fun _ => spec_emit _)
theorem sne_returnStmt : SNE returnStmt := by
  unfold returnStmt; sne_steps [spec_rvalueTop _ _]
theorem sne_setUnits : SNE setUnits := by unfold setUnits; sne_steps
theorem sne_waitStmt : SNE waitStmt := by unfold waitStmt; sne_steps
theorem sne_timeStmt : SNE timeStmt := by
  unfold timeStmt; sne_steps [spec_processTimePatterns, spec_rvalueTop _ _]
theorem sne_setReg : SNE setReg := by
  unfold setReg; sne_steps [sne_timeStmt, spec_stringToReg _, spec_rvalueTop _ _]

theorem sne_callNamed : ∀ f b, SNE (callNamed f b) := by
  intro f b
  cases f with
  | zero => unfold callNamed; exact SNE.outOfFuel
  | succ f =>
    unfold callNamed
    sne_steps [(spec_rvFamily f).2.2.1 _]

theorem sne_callRoutine : SNE callRoutine := by
  intro st a st' hi hne he
  unfold callRoutine at he
  split at he
  · rename_i hm
    have ha := advance_spec hi
    have l1 := ha.2.2 (isMark_ne_eof hm)
    have l2 := (ok_of_spec ((spec_rvFamily (rvFuel st)).2.1 true) ha.2.1.inv he).2
    omega
  · exact sne_callNamed _ _ st a st' hi hne he

theorem sne_markStmt : SNE markStmt := by unfold markStmt; sne_steps [sne_callRoutine]

/-! ## The name of an operand is always consumed -/

theorem strict_varOperand : SNE varOperand := by unfold varOperand; sne_steps

theorem strict_operandName : Strict operandName := by
  intro st a st' hi he
  unfold operandName at he
  rcases currentStr_cases hi with ⟨v, hv, hty⟩ | ⟨hty, msg, hv⟩
  · rw [bind_ok hv] at he
    by_cases hl : v.length > 0
    · rw [if_pos hl] at he
      have hne : st.cur.ty ≠ .eof := by
        have : v ≠ "" := by intro h; rw [h] at hl; simp at hl
        rcases hty this with h | h | h | h <;> (rw [h]; decide)
      exact (show SNE (do emit (.moveq (.str v) (.reg .name)); skipToken) by sne_steps)
        st a st' hi hne he
    · rw [if_neg hl, getSt_bind] at he
      by_cases hn : (st.cur.ty == TT.name) = true
      · rw [if_pos hn] at he
        have : st.cur.ty = .name := by simpa using hn
        exact strict_varOperand st a st' hi (by rw [this]; decide) he
      · rw [if_neg hn, getSt_bind] at he
        split at he <;> cases he
  · rw [bind_ok hv] at he
    have h1 : ("".length > 0) = False := by simp
    have h2 : ((st.addError msg).cur.ty == TT.name) = false := by
      show (st.cur.ty == TT.name) = false
      rcases hty with h | h <;> (rw [h]; rfl)
    simp only [h1, if_false, getSt_bind, h2, Bool.false_eq_true] at he
    split at he <;> cases he

/-! ## Statements with nested statements -/

theorem sne_syntaxError : SNE (syntaxError : M Unit) := SNE.tokenError _ _

theorem sne_ifStmt (f : Nat) : SNE (ifStmt f) := by
  cases f with
  | zero => unfold ifStmt; exact SNE.outOfFuel
  | succ f =>
    obtain ⟨sC, sS, sM, sI, sR, sD, sA, sT, sO, sX⟩ := spec_stmtFamily f
    unfold ifStmt
    sne_steps [spec_rvalueTop _ _, spec_ifTrueStart, spec_ifElse _, spec_ifEnd _]

theorem sne_repeatStmt (f : Nat) : SNE (repeatStmt f) := by
  cases f with
  | zero => unfold repeatStmt; exact SNE.outOfFuel
  | succ f =>
    unfold repeatStmt
    sne_steps [spec_repeatRest (spec_stmtFamily f).2.1]

theorem sne_definition (f : Nat) : SNE (definition f) := by
  cases f with
  | zero => unfold definition; exact SNE.outOfFuel
  | succ f =>
    unfold definition
    sne_steps [spec_definitionNamed (spec_stmtFamily f).2.1]

theorem sne_action (f : Nat) (o : OpC) : SNE (action f o) := by
  cases f with
  | zero => unfold action; exact SNE.outOfFuel
  | succ f =>
    obtain ⟨sC, sS, sM, sI, sR, sD, sA, sT, sO, sX⟩ := spec_stmtFamily f
    unfold action
    sne_steps [spec_allOperand, spec_defaultOperand, sT _]

theorem sne_command (f : Nat) : SNE (command f) := by
  cases f with
  | zero => unfold command; exact SNE.outOfFuel
  | succ f =>
    unfold command
    sne_steps [sne_assignment, sne_breakStmt, sne_breakpointStmt, sne_definition _, sne_getColor,
      sne_ifStmt _, sne_markStmt, sne_callRoutine, sne_syntaxError, sne_action _ _, sne_pauseStmt,
      sne_printStmt, sne_printfStmt, sne_printlnStmt, sne_returnStmt, sne_setReg,
      sne_repeatStmt _, sne_setUnits, sne_waitStmt]

theorem strict_operand (f : Nat) : Strict (operand f) := by
  cases f with
  | zero => intro st a st' _ he; unfold operand at he; cases he
  | succ f =>
    obtain ⟨sC, sS, sM, sI, sR, sD, sA, sT, sO, sX⟩ := spec_stmtFamily f
    unfold operand
    refine Strict.bind_right spec_operandKind (fun _ => ?_)
    refine Strict.bind_left spec_operandName strict_operandName (fun _ => ?_)
    spec_steps [spec_zoneRange]

/-! ## The statement family never runs out of fuel -/

/-- successful runs keep the invariant and do not give tokens back -/
def Mono (m : M α) : Prop :=
  ∀ st a s, Inv st → m st = .ok a s → Inv s ∧ s.rest.length ≤ st.rest.length

theorem Mono.of_spec {m : M α} (h : Spec false m) : Mono m := fun _ _ _ hi he => ok_of_spec h hi he

theorem Mono.of_modify {f : St → St} (h : ∀ st, (f st).cur = st.cur ∧ (f st).rest = st.rest ∧
    (f st).globals = st.globals) : Mono (modifySt f) := by
  intro st a s hi he
  cases he
  obtain ⟨h1, h2, h3⟩ := h st
  exact ⟨inv_of_eq hi h1 h2 h3, by rw [h2]; exact Nat.le_refl _⟩

theorem Fin.bindM {c F : Nat} {m : M α} {f : α → M β} (hm : Fin c F m) (hs : Mono m)
    (hf : ∀ a, Fin c F (f a)) : Fin c F (m >>= f) := by
  intro st hi hb he
  rcases bind_oof_inv he with h1 | ⟨a, s, h1, h2⟩
  · exact hm st hi hb h1
  · have h3 := hs st a s hi h1
    exact hf a s h3.1 (by omega) h2

theorem Fin.of_never {c F : Nat} {m : M α} (h : ∀ st, m st ≠ .oof) : Fin c F m :=
  fun st _ _ => h st

theorem fin_blockOperand {c F : Nat} {body : M Unit} (hb : Fin c F body) (hs : Spec false body) :
    Fin c F (blockOperand body) := by
  unfold blockOperand
  refine Fin.bindM (Fin.of_never fun _ he => by cases he)
    (Mono.of_modify fun _ => ⟨rfl, rfl, rfl⟩) (fun _ => ?_)
  exact Fin.bind hb hs (fun _ => Fin.of_never fun _ he => by cases he)

theorem closeLoop_ne_oof (st : St) : closeLoop st ≠ .oof := by
  unfold closeLoop
  intro he
  rcases bind_oof_inv he with h | ⟨_, s1, h1, h2⟩
  · unfold fixBreakAddrs at h; split at h <;> cases h
  · rcases bind_oof_inv h2 with h | ⟨_, s2, h3, h4⟩
    · cases h
    · unfold exitLoop at h4; split at h4 <;> cases h4

theorem mono_repeatBody {body : M Unit} (hs : Spec false body) : Mono (repeatBody body) :=
  Mono.of_spec (spec_repeatBody hs)

theorem fin_repeatRest {c F : Nat} {body : M Unit} (hb : Fin c F body) (hs : Spec false body) :
    Fin c F (repeatRest body) := by
  unfold repeatRest
  refine Fin.bindM (Fin.of_never fun _ he => by cases he)
    (Mono.of_modify fun _ => ⟨rfl, rfl, rfl⟩) (fun _ => ?_)
  refine Fin.bindM ?_ (mono_repeatBody hs) (fun _ => Fin.of_never closeLoop_ne_oof)
  unfold repeatBody
  fin_steps [hb, hs, spec_detectLoopType, spec_preLoop _, spec_loopTest _, spec_ifTrueStart,
    spec_loopPost _, spec_jumpBack _, spec_ifEnd _]

theorem fin_routinePart {c F : Nat} (name : String) (w : Bool) {body : M Unit}
    (hb : Fin c F body) : Fin c F (routinePart name w body) := by
  unfold routinePart
  refine Fin.bindM (Fin.of_never fun _ he => by cases he)
    (Mono.of_modify fun _ => ⟨rfl, rfl, rfl⟩) (fun _ => ?_)
  refine Fin.bind (Fin.of_spec (spec_routineHead _ _)) (spec_routineHead _ _) (fun _ => ?_)
  intro st hi hbd he
  unfold andFinally at he
  have := hb st hi hbd
  cases hr : body st with
  | ok a s => rw [hr] at he; cases he
  | fail s => rw [hr] at he; cases he
  | raised k s => rw [hr] at he; cases he
  | oof => exact this hr

theorem fin_definitionRest {c F : Nat} (name : String) (hn : nameLike name = true)
    {body : M Unit} (hb : Fin c F body) : Fin c F (definitionRest name body) := by
  unfold definitionRest
  fin_steps [fin_routinePart _ _ hb, spec_macroDefinition _ hn]

theorem fin_definitionNamed {c F : Nat} {body : M Unit} (hb : Fin c F body) :
    Fin c F (definitionNamed body) := by
  unfold definitionNamed
  refine Fin.of_getSt_bind (fun st h hbd => ?_)
  by_cases hty : st.cur.ty = .name
  · have hne : (st.cur.ty != TT.name) = false := by rw [hty]; rfl
    simp only [hne, Bool.false_eq_true, if_false]
    have hk := h.toks st.cur (by simp [St.toks])
    simp only [tokOk, hty] at hk
    have hs : st.cur.str = st.cur.content := by simp [Tok.str, hty, TT.hasString]
    exact (Fin.bind (Fin.of_spec spec_skipToken) spec_skipToken (fun _ =>
      fin_definitionRest _ (by rw [hs]; exact hk) hb)) st h hbd
  · have hne : (st.cur.ty != TT.name) = true := by simpa using hty
    simp only [hne, if_true]
    intro he; cases he

/-- `Fin` for a routine entered at a token other than end-of-file -/
def FinNE (c F : Nat) (m : M α) : Prop :=
  ∀ st, Inv st → st.cur.ty ≠ .eof → 6 * st.rest.length + c < F → m st ≠ .oof

theorem FinNE.skip_bind {c F : Nat} {k : Unit → M β} (hk : ∀ a, Fin (c + 6) F (k a)) :
    FinNE c F (skipToken >>= k) :=
  fun _ hi hne hb =>
    fin_strict_step spec_skipToken (fun _ _ e => skipToken_strict hi e hne) hk hi hb

theorem FinNE.keep_bind {c F : Nat} {m : M α} {k : α → M β} (hm : Keeps m)
    (hn : ∀ st, m st ≠ .oof) (hk : ∀ a, FinNE c F (k a)) : FinNE c F (m >>= k) := by
  intro st hi hne hb he
  rcases bind_oof_inv he with h | ⟨a, s, h1, h2⟩
  · exact hn st h
  · obtain ⟨hc, hr, hi'⟩ := hm st a s hi h1
    exact hk a s hi' (by rw [hc]; exact hne) (by rw [hr]; exact hb) h2

theorem FinNE.ite {c F : Nat} {p : Prop} [Decidable p] {a e : M α} (ha : FinNE c F a)
    (he : FinNE c F e) : FinNE c F (if p then a else e) := by
  split <;> assumption

theorem fin_stmtFamily : ∀ f,
    Fin 1 f (command f) ∧ Fin 2 f (commandSeq f) ∧ Fin 2 f (compoundMore f) ∧
    Fin 0 f (ifStmt f) ∧ FinNE 0 f (repeatStmt f) ∧ FinNE 0 f (definition f) ∧
    (∀ o, FinNE 0 f (action f o)) ∧ (∀ o, Fin 1 f (operandThenMore f o)) ∧
    Fin 0 f (operand f) ∧ Fin 3 f (matrixOperandList f) := by
  intro f
  induction f with
  | zero =>
    refine ⟨?_, ?_, ?_, ?_, ?_, ?_, ?_, ?_, ?_, ?_⟩ <;> intros <;>
      first
      | (intro st _ hb; omega)
      | (intro st _ _ hb; omega)
  | succ f ih =>
    obtain ⟨ihC, ihS, ihM, ihI, ihR, ihD, ihA, ihT, ihO, ihX⟩ := ih
    obtain ⟨sC, sS, sM, sI, sR, sD, sA, sT, sO, sX⟩ := spec_stmtFamily f
    refine ⟨?_, ?_, ?_, ?_, ?_, ?_, ?_, ?_, ?_, ?_⟩
    · -- command
      unfold command
      refine Fin.of_getSt_bind (fun s hi hb => ?_)
      cases hty : s.cur.ty
      all_goals dsimp only
      all_goals first
        | exact ihD s hi (by rw [hty]; decide) (by omega)
        | exact ihR s hi (by rw [hty]; decide) (by omega)
        | exact ihI s hi (by omega)
        | exact ihA _ s hi (by rw [hty]; decide) (by omega)
        | exact (FinNE.keep_bind (keeps_emit _) (fun _ he => by cases he) (fun _ =>
            fun st hi' hne hb' => ihA _ st hi' hne (by omega))) s hi (by rw [hty]; decide) hb
        | (refine (Fin.of_spec (c := 1) (F := f + 1) ?_) s hi hb
           first
             | exact spec_assignment | exact spec_breakpointStmt | exact spec_getColor
             | exact spec_markStmt | exact spec_callRoutine | exact spec_syntaxError
             | exact spec_pauseStmt | exact spec_printStmt | exact spec_printfStmt
             | exact spec_printlnStmt | exact spec_returnStmt | exact spec_setUnits
             | exact spec_waitStmt)
        | skip
      · -- break
        intro he
        have := good_breakStmt (t := true) hi
        rw [he] at this; cases this
      · -- register
        intro he
        have := good_setReg (t := true) hi hty
        rw [he] at this; cases this
      · -- stage
        rw [getSt_bind]
        split
        · exact ihA _ s hi (by rw [hty]; decide) (by omega)
        · intro he; cases he
    · -- commandSeq
      unfold commandSeq
      refine Fin.of_getSt_bind (fun s hi hb => ?_)
      by_cases hc : (s.cur.ty != TT.begin_) = true
      · rw [if_pos hc]
        exact (Fin.call ihC (by omega)) s hi hb
      · rw [if_neg hc]
        have hne : s.cur.ty ≠ .eof := by
          have : s.cur.ty = .begin_ := by simpa using hc
          rw [this]; decide
        exact fin_strict_step spec_skipToken (fun _ _ e => skipToken_strict hi e hne)
          (fun _ => Fin.call ihM (by omega)) hi hb
    · -- compoundMore
      unfold compoundMore
      refine Fin.of_getSt_bind (fun s hi hb => ?_)
      by_cases h1 : (s.cur.ty == TT.end_) = true
      · rw [if_pos h1]
        exact (Fin.of_spec (c := 2) (F := f + 1) spec_nextToken) s hi hb
      · rw [if_neg h1]
        by_cases h2 : (s.cur.ty == TT.eof) = true
        · rw [if_pos h2]; intro he; cases he
        · rw [if_neg h2]
          have hne : s.cur.ty ≠ .eof := by simpa using h2
          intro he
          rcases bind_oof_inv he with e | ⟨a, s1, e1, e2⟩
          · exact (Fin.call ihC (c := 2) (by omega)) s hi hb e
          · have l := sne_command f s a s1 hi hne e1
            exact ihM s1 (ok_of_spec sC hi e1).1 (by omega) e2
    · -- ifStmt
      unfold ifStmt
      refine Fin.bind (Fin.of_spec spec_skipToken) spec_skipToken (fun _ => ?_)
      refine Fin.bind_strict (Fin.of_spec (spec_rvalueTop _ _)) (spec_rvalueTop _ _)
        (strict_rvalueTop _ _) (fun _ => ?_)
      fin_steps [Fin.call ihS (by omega), sS, spec_ifTrueStart, spec_ifElse _, spec_ifEnd _]
    · -- repeatStmt
      unfold repeatStmt
      exact FinNE.skip_bind (fun _ => fin_repeatRest (Fin.call ihS (by omega)) sS)
    · -- definition
      unfold definition
      exact FinNE.skip_bind (fun _ => fin_definitionNamed (Fin.call ihS (by omega)))
    · -- action
      intro o
      unfold action
      refine FinNE.keep_bind keeps_getSt (fun _ he => by cases he) (fun s0 => ?_)
      dsimp only
      refine FinNE.keep_bind (keeps_setOpCode _) (fun _ he => by cases he) (fun _ => ?_)
      refine FinNE.ite ?_ ?_
      · refine FinNE.keep_bind (keeps_emit _) (fun _ he => by cases he) (fun _ => ?_)
        refine FinNE.skip_bind (fun _ => ?_)
        fin_steps [Fin.call ihX (by omega), Fin.call (ihT _) (by omega), sX, sT _,
          spec_allOperand, spec_defaultOperand]
      · refine FinNE.skip_bind (fun _ => ?_)
        fin_steps [Fin.call ihX (by omega), Fin.call (ihT _) (by omega), sX, sT _,
          spec_allOperand, spec_defaultOperand]
    · -- operandThenMore
      intro o
      unfold operandThenMore
      refine Fin.bind_strict (Fin.call ihO (by omega)) sO (strict_operand f) (fun _ => ?_)
      fin_steps [Fin.call (ihT _) (by omega), sT _,
        spec_modifySt_same fun _ => ⟨rfl, rfl, rfl, rfl, rfl⟩]
    · -- operand
      unfold operand
      refine Fin.bind (Fin.of_spec spec_operandKind) spec_operandKind (fun _ => ?_)
      refine Fin.bind_strict (Fin.of_spec spec_operandName) spec_operandName strict_operandName
        (fun _ => ?_)
      fin_steps [Fin.call ihX (by omega), sX, spec_zoneRange]
    · -- matrixOperandList
      unfold matrixOperandList
      fin_steps [fin_blockOperand (Fin.call ihS (by omega)) sS, spec_inlineOperand]

end Bardolph.ParseTok
