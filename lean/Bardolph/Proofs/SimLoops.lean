import Bardolph.Proofs.SimStmts
/-!
Loops for the simulation theorem C01: counting (`repeat n`), the loop frame, the layout of an
assembled loop, and the iteration lemmas for `repeat while` / `repeat` / `repeat n`.
-/
namespace Bardolph
namespace Sim
open Vm VmSteps Sem Gen

/-! ## counting -/

/-- number of passes of `repeat n`: as long as the remaining count is positive
(`Sem.passCount`) -/
def passes (n : Rat) : Nat := if n ≤ 0 then 0 else n.ceil.toNat

theorem passCount_eq (n : Rat) : passCount n = passes n := rfl

theorem passes_nonpos (q : Rat) (h : ¬ 0 < q) : passes q = 0 := by
  have : q ≤ 0 := Rat.not_lt.mp h
  simp [passes, this]

theorem passes_pos (q : Rat) (h : 0 < q) : passes q = passes (q - 1) + 1 := by
  have hq : ¬ q ≤ 0 := Rat.not_le.mpr h
  have hc : 0 < q.ceil := by
    have := (Rat.lt_ceil_iff (x := q) (y := 0)).2 (by simpa using h)
    exact this
  simp only [passes, hq, if_false, Rat.ceil_sub_one]
  by_cases h1 : q - 1 ≤ 0
  · simp only [h1, if_true]
    have : q.ceil ≤ 1 := Rat.ceil_le_iff.2 (by
      have : q ≤ 1 := by grind
      simpa using this)
    omega
  · simp only [h1, if_false]
    omega

theorem tri_gt (q : Rat) :
    ((if q < 0 then Ordering.lt else if q == 0 then .eq else .gt) == .gt) = decide (0 < q) := by
  by_cases hlt : q < 0
  · have : ¬ 0 < q := by grind
    simp [hlt, this]
  · by_cases heq : q = 0
    · subst heq; simp
    · have : 0 < q := by grind
      simp [hlt, heq, this]

/-- the test `counter > 0` on a numeric counter -/
theorem cmp_gt_zero (cnt : Val) (q : Rat) (fl : Bool) (h : cnt.asNum = some (q, fl)) :
    binVal .gt cnt (.int 0) = some (.bool (decide (0 < q))) := by
  cases cnt with
  | int i =>
    simp only [Val.asNum, Option.some.injEq, Prod.mk.injEq] at h
    obtain ⟨rfl, rfl⟩ := h
    simp only [binVal, binOp, Val.cmp, Val.asNum]
    rw [show ((0 : Int) : Rat) = 0 from rfl, tri_gt]
  | num r =>
    simp only [Val.asNum, Option.some.injEq, Prod.mk.injEq] at h
    obtain ⟨rfl, rfl⟩ := h
    simp only [binVal, binOp, Val.cmp, Val.asNum]
    rw [show ((0 : Int) : Rat) = 0 from rfl, tri_gt]
  | bool b =>
    simp only [Val.asNum, Option.some.injEq, Prod.mk.injEq] at h
    obtain ⟨rfl, rfl⟩ := h
    simp only [binVal, binOp, Val.cmp, Val.asNum]
    rw [show ((0 : Int) : Rat) = 0 from rfl, tri_gt]
  | _ => simp [Val.asNum] at h

/-- `counter - 1` on a numeric counter is the numeric counter one less -/
theorem sub_one_num (cnt : Val) (q : Rat) (fl : Bool) (h : cnt.asNum = some (q, fl)) :
    ∃ c' fl', binVal .sub cnt (.int 1) = some c' ∧ c'.asNum = some (q - 1, fl') := by
  have h1 : (Val.int 1).asNum = some (1, false) := by simp [Val.asNum]
  simp only [binVal, binOp, Val.sub, h, h1, Bool.or_false]
  cases cnt with
  | int i =>
    simp only [Val.asNum, Option.some.injEq, Prod.mk.injEq] at h
    obtain ⟨rfl, rfl⟩ := h
    refine ⟨_, false, rfl, ?_⟩
    have : ((i : Rat) - 1) = ((i - 1 : Int) : Rat) := by simp [Rat.intCast_sub]
    simp only [Val.mkNum, Bool.false_eq_true, if_false, Val.asNum, this, Rat.num_intCast]
  | num r =>
    simp only [Val.asNum, Option.some.injEq, Prod.mk.injEq] at h
    obtain ⟨rfl, rfl⟩ := h
    exact ⟨_, true, rfl, by simp [Val.mkNum, Val.asNum]⟩
  | bool b =>
    simp only [Val.asNum, Option.some.injEq, Prod.mk.injEq] at h
    obtain ⟨rfl, rfl⟩ := h
    refine ⟨_, false, rfl, ?_⟩
    cases b
    · have : ((0 : Rat) - 1) = ((-1 : Int) : Rat) := by decide +kernel
      simp only [Bool.false_eq_true, if_false, Val.mkNum, Val.asNum, this, Rat.num_intCast]
    · have : ((1 : Rat) - 1) = ((0 : Int) : Rat) := by decide +kernel
      simp only [if_true, Val.mkNum, Bool.false_eq_true, if_false, Val.asNum, this, Rat.num_intCast]
  | _ => simp [Val.asNum] at h


/-! ## loop frames -/

variable {img : Image} {K : Ctx} {stk : List Frame} {un : List Val} {σ : S} {s : State} {pc : Nat}

def putVar (vars : List (LoopVar × Val)) (l : LoopVar) (v : Val) : List (LoopVar × Val) :=
  if vars.any (·.1 == l) then vars.map fun (k, x) => if k == l then (k, v) else (k, x)
  else vars ++ [(l, v)]

def getVar (vars : List (LoopVar × Val)) (l : LoopVar) : Val :=
  ((vars.find? (·.1 == l)).map (·.2)).getD .none

theorem getVar_map (vars : List (LoopVar × Val)) (l : LoopVar) (v : Val)
    (h : vars.any (·.1 == l) = true) :
    getVar (vars.map fun (k, x) => if k == l then (k, v) else (k, x)) l = v := by
  induction vars with
  | nil => simp at h
  | cons p rest ih =>
    obtain ⟨k, x⟩ := p
    by_cases hk : k = l
    · subst hk
      simp [getVar]
    · have hk' : (k == l) = false := by simpa using hk
      have h' : rest.any (·.1 == l) = true := by simpa [hk'] using h
      have := ih h'
      unfold getVar at this ⊢
      rw [List.map_cons]
      simp only [hk', Bool.false_eq_true, if_false]
      rw [List.find?_cons]
      simp only [hk']
      exact this

theorem getVar_append (vars : List (LoopVar × Val)) (l : LoopVar) (v : Val)
    (h : vars.any (·.1 == l) = false) : getVar (vars ++ [(l, v)]) l = v := by
  induction vars with
  | nil => simp [getVar]
  | cons p rest ih =>
    obtain ⟨k, x⟩ := p
    simp only [List.any_cons, Bool.or_eq_false_iff] at h
    have := ih h.2
    unfold getVar at this ⊢
    rw [List.cons_append, List.find?_cons]
    simp only [h.1]
    exact this

theorem getVar_putVar (vars : List (LoopVar × Val)) (l : LoopVar) (v : Val) :
    getVar (putVar vars l v) l = v := by
  unfold putVar
  split
  · rename_i h; exact getVar_map vars l v h
  · rename_i h; exact getVar_append vars l v (Bool.eq_false_iff.mpr h)

theorem SimU.setStack (h : SimU K stk un σ s) (stk' : List Frame) (hl : LoopsOnly stk') :
    SimU K stk' un σ { s with stack := stk' ++ baseOf K σ.locals } :=
  ⟨h.running, rfl, hl, h.eval, h.unnamed, h.locals, h.status, h.globals, h.constants,
    h.lights, h.trace, h.defaultColor, h.matrix, h.draws, h.regs⟩

theorem loopsOnly_cons (vars : List (LoopVar × Val)) (ht : Nat) (hl : LoopsOnly stk) :
    LoopsOnly (.loop vars ht :: stk) := by
  intro f hf
  simp only [List.mem_cons] at hf
  rcases hf with rfl | hf
  · rfl
  · exact hl f hf

/-- `LOOP`: a fresh loop frame -/
theorem exec_loop (h : SimU K stk un σ s) (hpc : s.pc = (pc : Int)) (hi : img.code[pc]? = some .loop) :
    Exec img s (At K (pc + 1) (.loop [] 0 :: stk) un σ) := by
  apply Exec.step h.running
  apply Exec.done
  rw [step_eq _ { s with stack := (.loop [] 0 :: stk) ++ baseOf K σ.locals } h.running hpc hi rfl
    (by simp only [execInstr, h.eval, h.stack, List.length_nil, List.cons_append]) h.running]
  refine ⟨?_, (h.setStack _ (loopsOnly_cons [] 0 h.loops)).setPc _⟩
  show s.pc + 1 = _
  rw [hpc]; omega

/-- `END_LOOP`: the frame is dropped -/
theorem exec_endLoop (vars : List (LoopVar × Val)) (ht : Nat) (h : SimU K (.loop vars ht :: stk) un σ s)
    (hpc : s.pc = (pc : Int)) (hi : img.code[pc]? = some .endLoop) :
    Exec img s (At K (pc + 1) stk un σ) := by
  apply Exec.step h.running
  apply Exec.done
  rw [step_eq _ { s with stack := stk ++ baseOf K σ.locals } h.running hpc hi rfl
    (by simp only [execInstr, h.stack, h.eval, trimEval, List.drop_nil, List.cons_append]) h.running]
  refine ⟨?_, (h.setStack _ h.loops.cons.2).setPc _⟩
  show s.pc + 1 = _
  rw [hpc]; omega

/-- a store into a loop variable of the innermost loop -/
theorem putLoopVar_top (vars : List (LoopVar × Val)) (ht : Nat) (h : s.stack = .loop vars ht :: stk)
    (l : LoopVar) (v : Val) :
    s.putLoopVar l v = { s with stack := .loop (putVar vars l v) ht :: stk } := by
  simp only [State.putLoopVar, h, putVar]

theorem getLoopVar_top (vars : List (LoopVar × Val)) (ht : Nat) (h : s.stack = .loop vars ht :: stk)
    (l : LoopVar) : s.getLoopVar l = getVar vars l := by
  simp only [State.getLoopVar, h, getVar]


theorem Exec.next {img : Image} {s t : State} {P : State → Prop} (hs : s.status = .running)
    (e : Vm.step img s = t) (h : Exec img t P) : Exec img s P :=
  Exec.step hs (e ▸ h)

theorem step_popResult (img : Image) (s : State) (pc : Nat) (v : Val) (rest : List Val)
    (hs : s.status = .running) (hpc : s.pc = (pc : Int))
    (hi : img.code[pc]? = some (.pop result)) (hev : s.eval = v :: rest) :
    Vm.step img s = { s with pc := (pc : Int) + 1, eval := rest,
                             regs := fun r => if r = .result then v else s.regs r } := by
  rw [step_pop img s pc result v rest hs hpc hi hev]
  simp only [result, State.put, State.setReg]
  rw [if_pos (by exact hs)]
  apply State.ext' <;> first | rfl | (simp [hpc])

theorem step_popCounter (img : Image) (s : State) (pc : Nat) (v : Val) (rest : List Val)
    (vars : List (LoopVar × Val)) (ht : Nat) (stk : List Frame)
    (hs : s.status = .running) (hpc : s.pc = (pc : Int))
    (hi : img.code[pc]? = some (.pop counter)) (hev : s.eval = v :: rest)
    (hst : s.stack = .loop vars ht :: stk) :
    Vm.step img s = { s with pc := (pc : Int) + 1, eval := rest,
                             stack := .loop (putVar vars .counter v) ht :: stk } := by
  rw [step_pop img s pc counter v rest hs hpc hi hev]
  have : ({ s with eval := rest } : State).put counter v =
      { s with eval := rest, stack := .loop (putVar vars .counter v) ht :: stk } := by
    simp only [counter, State.put]
    exact putLoopVar_top (s := { s with eval := rest }) vars ht hst _ _
  rw [this, if_pos (by exact hs)]
  apply State.ext' <;> first | rfl | (simp [hpc])

/-- `counter > 0` into `result` -/
theorem exec_counterTest (vars : List (LoopVar × Val)) (ht : Nat) (cnt : Val) (q : Rat) (fl : Bool)
    (h : SimU K (.loop vars ht :: stk) un σ s) (hpc : s.pc = (pc : Int))
    (hc : CodeAt img pc counterTest) (hcnt : getVar vars .counter = cnt)
    (hnum : cnt.asNum = some (q, fl)) :
    Exec img s (fun t => At K (pc + 4) (.loop vars ht :: stk) un σ t ∧
      t.regs .result = .bool (decide (0 < q))) := by
  have hne : cnt = .none → False := by rintro rfl; simp [Val.asNum] at hnum
  simp only [counterTest, testOp] at hc
  have hrd : s.read (.loopVar .counter) = cnt := by
    simp only [State.read, getLoopVar_top vars ht h.stack, hcnt]
  refine Exec.next h.running (step_push img s pc _ cnt h.running hpc hc.head (by simp) hrd hne) ?_
  refine Exec.next (by exact h.running)
    (step_pushq img _ (pc + 1) _ (by exact h.running) rfl hc.tail.head) ?_
  refine Exec.next (by exact h.running)
    (step_binop img _ (pc + 1 + 1) .gt cnt (.int 0) _ s.eval (by exact h.running) rfl
      hc.tail.tail.head rfl (cmp_gt_zero cnt q fl hnum)) ?_
  refine Exec.next (by exact h.running)
    (step_popResult img _ (pc + 1 + 1 + 1) _ s.eval (by exact h.running) rfl
      hc.tail.tail.tail.head rfl) ?_
  apply Exec.done
  refine ⟨⟨rfl, ?_⟩, by simp⟩
  exact ⟨h.running, h.stack, h.loops, h.eval, h.unnamed, h.locals, h.status, h.globals, h.constants,
    h.lights, h.trace, h.defaultColor, h.matrix, h.draws, fun r hr => by
      simp only [if_neg hr]; exact h.regs r hr⟩

/-- `counter := counter - 1` -/
theorem exec_loopPost (vars : List (LoopVar × Val)) (ht : Nat) (cnt c' : Val)
    (h : SimU K (.loop vars ht :: stk) un σ s) (hpc : s.pc = (pc : Int))
    (hc : CodeAt img pc (loopPost none)) (hcnt : getVar vars .counter = cnt)
    (hne : cnt = .none → False) (hsub : binVal .sub cnt (.int 1) = some c') :
    Exec img s (At K (pc + 4) (.loop (putVar vars .counter c') ht :: stk) un σ) := by
  simp only [loopPost, List.append_nil] at hc
  have hrd : s.read (.loopVar .counter) = cnt := by
    simp only [State.read, getLoopVar_top vars ht h.stack, hcnt]
  refine Exec.next h.running (step_push img s pc _ cnt h.running hpc hc.head (by simp) hrd hne) ?_
  refine Exec.next (by exact h.running)
    (step_pushq img _ (pc + 1) _ (by exact h.running) rfl hc.tail.head) ?_
  refine Exec.next (by exact h.running)
    (step_binop img _ (pc + 1 + 1) .sub cnt (.int 1) c' s.eval (by exact h.running) rfl
      hc.tail.tail.head rfl hsub) ?_
  refine Exec.next (by exact h.running)
    (step_popCounter img _ (pc + 1 + 1 + 1) c' s.eval vars ht (stk ++ baseOf K σ.locals)
      (by exact h.running) rfl hc.tail.tail.tail.head rfl (by exact h.stack)) ?_
  apply Exec.done
  refine ⟨rfl, ?_⟩
  exact ⟨h.running, rfl, loopsOnly_cons _ _ h.loops.cons.2, h.eval, h.unnamed, h.locals, h.status,
    h.globals, h.constants, h.lights, h.trace, h.defaultColor, h.matrix, h.draws, h.regs⟩

/-- `repeat n`: the count goes into the loop frame -/
theorem exec_toCounter (v : Rv) (hv : RvOK v) (vars : List (LoopVar × Val)) (ht : Nat)
    (h : SimU K (.loop vars ht :: stk) un σ s) (hpc : s.pc = (pc : Int))
    (hc : CodeAt img pc (genRv v (.to counter)))
    {f : Nat} {x : Val} {σ' : S} (hev : evalRv f v σ = .ok (x, σ')) :
    σ' = σ ∧ Exec img s (At K (pc + (genRv v (.to counter)).length)
      (.loop (putVar vars .counter x) ht :: stk) un σ) := by
  have hput : s.put counter x =
      { s with stack := (.loop (putVar vars .counter x) ht :: stk) ++ baseOf K σ.locals } := by
    simp only [counter, State.put]
    exact putLoopVar_top (stk := stk ++ baseOf K σ.locals) vars ht h.stack _ _
  obtain ⟨rfl, hrun⟩ := run_genRv v hv counter (by simp [counter]) h hpc hc hev
    (by rw [hput]; exact h.running)
  refine ⟨rfl, Exec.of_run _ hrun ⟨rfl, ?_⟩⟩
  rw [hput]
  exact (h.setStack _ (loopsOnly_cons _ _ h.loops.cons.2)).setPc _


/-! ## the shape of a loop -/

/-- the instructions of an assembled loop placed at `pc`: the `break`s of the body lead to its
`END_LOOP` -/
theorem resolve_assembleLoop (pre test bodyPre : List Instr) (body : Code) (post : List Instr)
    (pc : Nat) (ex : Int) :
    resolve (assembleLoop pre test bodyPre body post) pc ex =
      ([Instr.loop] ++ pre) ++ test ++
      [Instr.jump .ifFalse ((bodyPre.length + body.length + post.length : Nat) + 2)] ++
      (bodyPre ++
        resolve body (pc + (1 + pre.length + test.length + 1 + bodyPre.length))
          ((pc + (1 + pre.length + test.length + 1 + (bodyPre.length + body.length + post.length) + 1) : Nat) : Int) ++
        post) ++
      [Instr.jump .always (((1 + pre.length : Nat) : Int) -
        ((1 + pre.length + test.length + 1 + (bodyPre.length + body.length + post.length) : Nat) : Int))] ++
      [Instr.endLoop] := by
  unfold assembleLoop
  simp only [patchBreaks_eq, resolve_append, resolve_patchRec, resolve_ins, resolve, ins_length,
    List.length_append, List.length_cons, List.length_nil]
  have e2 : ∀ X : Nat, ((pc : Int) - ((0 : Nat) : Int) + (X : Int)) = ((pc + X : Nat) : Int) := by
    intro X; omega
  simp only [Nat.zero_add, e2]
  rw [Nat.add_assoc pc]

variable {img : Image} {K : Ctx}

/-! ## iteration -/

/-- what a pass of a loop body leads to: the next pass, or — after `break` — the end of the loop -/
def loopBody (r : Outcome × S) (K : S → Outcome × S) : Outcome × S :=
  match r with
  | (.normal, s2) => K s2
  | (.brk, s2) => (.normal, s2)
  | r => r

theorem loopBody_cases {r : Outcome × S} {K : S → Outcome × S} {o : Outcome} {σ' : S}
    (h : loopBody r K = (o, σ')) (ho : o = .normal ∨ o = .brk) :
    (∃ s2, r = (.normal, s2) ∧ K s2 = (o, σ')) ∨ (r = (.brk, σ') ∧ o = .normal) := by
  obtain ⟨o1, s1⟩ := r
  cases o1 with
  | normal => exact Or.inl ⟨s1, rfl, h⟩
  | brk =>
    simp only [loopBody, Prod.mk.injEq] at h
    obtain ⟨rfl, rfl⟩ := h
    exact Or.inr ⟨rfl, rfl⟩
  | _ =>
    simp only [loopBody, Prod.mk.injEq] at h
    obtain ⟨rfl, rfl⟩ := h
    rcases ho with h | h <;> simp at h

def semTest (f : Nat) (c : Option Rv) (σ : S) : Except Outcome (Bool × S) :=
  match c with
  | none => .ok (true, σ)
  | some rv =>
    match evalRv f rv σ with
    | .ok (v, s') => .ok (v.truthy, s')
    | .error o => .error o

theorem execWhile_succ (f : Nat) (c : Option Rv) (body : Block) (σ : S) :
    execWhile (f + 1) c body σ =
      match semTest f c σ with
      | .error o => (o, σ)
      | .ok (false, s1) => (.normal, s1)
      | .ok (true, s1) => loopBody (execBlock f body s1) fun s2 => execWhile f c body s2 := by
  cases c <;> simp only [execWhile, semTest] <;> rfl

/-- the end of a pass that ran to its end: the increment is added to the index variable -/
def stepIdx (ix : Option (String × Val)) (s2 : S) (K : S → Outcome × S) : Outcome × S :=
  match ix with
  | none => K s2
  | some (v, incr) =>
    match Vm.binOp .add (s2.lookup v) incr with
    | some x => K (s2.assign v x)
    | none => (.fault "arithmetic error", s2)

theorem execPasses_succ (f : Nat) (binds : List (String × Val)) (rest : List (List (String × Val)))
    (ix : Option (String × Val)) (body : Block) (σ : S) :
    execPasses (f + 1) (binds :: rest) ix body σ =
      loopBody (execBlock f body (binds.foldl (fun st (n, v) => st.assign n v) σ))
        fun s2 => stepIdx ix s2 fun s3 => execPasses f rest ix body s3 := by
  simp only [execPasses]
  cases ix with
  | none => rfl
  | some p => obtain ⟨v, incr⟩ := p; rfl


def testCode : Option Rv → List Instr
  | none => [.moveq (.bool true) result]
  | some c => genRv c (.to result)

def CondOK : Option Rv → Prop
  | none => True
  | some c => RvOK c

theorem semTest_error {c : Option Rv} (hc : CondOK c) (f : Nat) (σ : S) (o : Outcome)
    (h : semTest f c σ = .error o) : o ≠ .normal ∧ o ≠ .brk ∧ o ≠ .ret := by
  cases c with
  | none => simp [semTest] at h
  | some rv =>
    simp only [semTest] at h
    split at h
    · simp at h
    · rename_i o' he
      simp at h; subst h
      exact evalRv_error hc f σ _ he

/-- the test of a `while` loop: the truth of the condition goes to `result` -/
theorem exec_test {stk : List Frame} {σ : S} {s : State} {pc : Nat} (c : Option Rv) (hcnd : CondOK c)
    (h : Sim K stk σ s) (hpc : s.pc = (pc : Int)) (hc : CodeAt img pc (testCode c))
    {f : Nat} {b : Bool} {σ' : S} (hev : semTest f c σ = .ok (b, σ')) :
    σ' = σ ∧ Exec img s (fun t => At K (pc + (testCode c).length) stk [] σ t ∧
      (t.regs .result).truthy = b) := by
  cases c with
  | none =>
    simp only [semTest, Except.ok.injEq, Prod.mk.injEq] at hev
    obtain ⟨rfl, rfl⟩ := hev
    refine ⟨rfl, ?_⟩
    simp only [testCode] at hc ⊢
    apply Exec.step h.running
    apply Exec.done
    rw [step_eq _ (s.setReg .result (.bool true)) h.running hpc hc.head rfl
      (by rw [execInstr_moveq _ _ (by simp [result])]; rfl) h.running]
    refine ⟨⟨?_, (h.setResult _).setPc _⟩, by simp [State.setReg, Val.truthy]⟩
    show s.pc + 1 = _
    rw [hpc]; simp
  | some rv =>
    simp only [semTest] at hev
    split at hev
    · rename_i v s' he
      simp only [Except.ok.injEq, Prod.mk.injEq] at hev
      obtain ⟨rfl, rfl⟩ := hev
      obtain ⟨rfl, hex⟩ := exec_toResult rv hcnd h hpc hc he
      exact ⟨rfl, hex.mono fun t ⟨ht, hres⟩ => ⟨ht, by rw [hres]⟩⟩
    · simp at hev

/-- `repeat while c` / `repeat`: from the test on, with the loop frame in place -/
def WhileIter (img : Image) (K : Ctx) (f : Nat) : Prop :=
  ∀ (c : Option Rv) (body : Block), CondOK c → FragBlock body →
  ∀ (σ σ' : S) (o : Outcome) (s : State) (top : Nat) (stk : List Frame)
    (vars : List (LoopVar × Val)) (ht : Nat) (off : Int),
    Sim K (.loop vars ht :: stk) σ s → s.pc = (top : Int) →
    CodeAt img top (testCode c ++ [.jump .ifFalse (((genBlock body).length : Nat) + 2)] ++
      resolve (genBlock body) (top + (testCode c).length + 1)
        ((top + (testCode c).length + 1 + (genBlock body).length + 1 : Nat) : Int) ++
      [.jump .always off] ++ [.endLoop]) →
    ((top + (testCode c).length + 1 + (genBlock body).length : Nat) : Int) + off = (top : Int) →
    execWhile f c body σ = (o, σ') → (o = .normal ∨ o = .brk) →
    o = .normal ∧
      Exec img s (At K (top + (testCode c).length + 1 + (genBlock body).length + 1 + 1) stk [] σ')

theorem while_zero : WhileIter img K 0 := by
  intro c body _ _ σ σ' o s top stk vars ht off _ _ _ _ h ho
  simp only [execWhile, Prod.mk.injEq] at h
  rcases ho with rfl | rfl <;> simp at h

theorem while_step (f : Nat) (ihB : BlockGoal img K f) (ihW : WhileIter img K f) : WhileIter img K (f + 1) := by
  intro c body hcnd hb σ σ' o s top stk vars ht off sim hpc hc hoff h ho
  rw [execWhile_succ] at h
  have hct := hc.left.left.left.left
  have hcj := hc.left.left.left.right.head
  have hcb := hc.left.left.right
  have hcjb := hc.left.right.head
  have hce := hc.right.head
  simp only [List.length_append, List.length_cons, List.length_nil, resolve_length] at hcb hcjb hce
  split at h
  · rename_i o' he
    simp only [Prod.mk.injEq] at h
    obtain ⟨rfl, rfl⟩ := h
    have := semTest_error hcnd f σ _ he
    rcases ho with rfl | rfl <;> simp at this
  · rename_i s1 he
    simp only [Prod.mk.injEq] at h
    obtain ⟨rfl, rfl⟩ := h
    obtain ⟨rfl, hex⟩ := exec_test c hcnd sim hpc hct he
    refine ⟨rfl, hex.trans fun t ⟨ht0, hres⟩ => ?_⟩
    refine (exec_jump .ifFalse _ (top + (testCode c).length + 1 + (genBlock body).length + 1)
      (by simp) ht0.2 ht0.1 hcj (by simp [hres]; omega)).trans fun t1 ht1 => ?_
    exact exec_endLoop vars ht ht1.2 ht1.1 (idx hce)
  · rename_i s1 he
    obtain ⟨rfl, hex⟩ := exec_test c hcnd sim hpc hct he
    have hjmp : ∀ t0, (At K (top + (testCode c).length) (.loop vars ht :: stk) [] s1 t0 ∧
        (t0.regs .result).truthy = true) →
        Exec img t0 (At K (top + (testCode c).length + 1) (.loop vars ht :: stk) [] s1) := by
      intro t0 ⟨ht0, hres⟩
      exact exec_jump .ifFalse _ _ (by simp) ht0.2 ht0.1 hcj (by simp [hres])
    rcases loopBody_cases h ho with ⟨s2, hbody, hrest⟩ | ⟨hbody, rfl⟩
    · have hback : ∀ t2, At K (top + (testCode c).length + 1 + (genBlock body).length)
          (.loop vars ht :: stk) [] s2 t2 → Exec img t2 (At K top (.loop vars ht :: stk) [] s2) := by
        intro t2 ht2
        exact exec_jump .always off top (by simp) ht2.2 ht2.1 (idx hcjb) (by simpa using hoff)
      have hbodyEx : ∀ t1, At K (top + (testCode c).length + 1) (.loop vars ht :: stk) [] s1 t1 →
          Exec img t1 (At K (top + (testCode c).length + 1 + (genBlock body).length)
            (.loop vars ht :: stk) [] s2) := by
        intro t1 ht1
        exact ihB body hb s1 s2 .normal t1 _ _ _ ht1.2 ht1.1 (cat hcb) hbody (Or.inl rfl)
      -- the rest of the loop, from the test again
      have hrestEx : ∀ t3, At K top (.loop vars ht :: stk) [] s2 t3 →
          o = .normal ∧ Exec img t3
            (At K (top + (testCode c).length + 1 + (genBlock body).length + 1 + 1) stk [] σ') := by
        intro t3 ht3
        exact ihW c body hcnd hb s2 σ' o t3 top stk vars ht off ht3.2 ht3.1 hc hoff hrest ho
      obtain ⟨t3, ht3⟩ : ∃ t3, At K top (.loop vars ht :: stk) [] s2 t3 := by
        obtain ⟨k, hk⟩ := ((hex.trans hjmp).trans hbodyEx).trans hback
        exact ⟨_, hk⟩
      refine ⟨(hrestEx t3 ht3).1, ?_⟩
      exact ((((hex.trans hjmp).trans hbodyEx).trans hback).trans fun t ht => (hrestEx t ht).2)
    · refine ⟨rfl, ?_⟩
      refine ((hex.trans hjmp).trans fun t1 ht1 => ?_)
      refine (ihB body hb s1 σ' .brk t1 _ _ _ ht1.2 ht1.1 (cat hcb) hbody (Or.inr rfl)).trans
        fun t2 ht2 => ?_
      simp only [Target] at ht2
      exact exec_endLoop vars ht ht2.2 (pc := top + (testCode c).length + 1 + (genBlock body).length + 1)
        (by rw [ht2.1]) (idx hce)


/-- `repeat n`: from the test on, with the counter in the loop frame -/
def CountIter (img : Image) (K : Ctx) (f : Nat) : Prop :=
  ∀ (body : Block), FragBlock body →
  ∀ (σ σ' : S) (o : Outcome) (s : State) (top : Nat) (stk : List Frame)
    (vars : List (LoopVar × Val)) (ht : Nat) (cnt : Val) (q : Rat) (fl : Bool) (off : Int),
    Sim K (.loop vars ht :: stk) σ s → s.pc = (top : Int) →
    getVar vars .counter = cnt → cnt.asNum = some (q, fl) →
    CodeAt img top (counterTest ++ [.jump .ifFalse (((genBlock body).length + 4 : Nat) + 2)] ++
      (resolve (genBlock body) (top + 5) ((top + 5 + (genBlock body).length + 4 + 1 : Nat) : Int) ++
        loopPost none) ++
      [.jump .always off] ++ [.endLoop]) →
    ((top + 5 + (genBlock body).length + 4 : Nat) : Int) + off = (top : Int) →
    execPasses f (List.replicate (passes q) []) none body σ = (o, σ') → (o = .normal ∨ o = .brk) →
    o = .normal ∧ Exec img s (At K (top + 5 + (genBlock body).length + 4 + 1 + 1) stk [] σ')

theorem count_zero : CountIter img K 0 := by
  intro body _ σ σ' o s top stk vars ht cnt q fl off _ _ _ _ _ _ h ho
  simp only [execPasses, Prod.mk.injEq] at h
  rcases ho with rfl | rfl <;> simp at h

theorem count_step (f : Nat) (ihB : BlockGoal img K f) (ihC : CountIter img K f) : CountIter img K (f + 1) := by
  intro body hb σ σ' o s top stk vars ht cnt q fl off sim hpc hcnt hnum hc hoff h ho
  have hct := hc.left.left.left.left
  have hcj := hc.left.left.left.right.head
  have hcb := hc.left.left.right.left
  have hcp := hc.left.left.right.right
  have hcjb := hc.left.right.head
  have hce := hc.right.head
  have hlen : counterTest.length = 4 := rfl
  have hlenp : (loopPost none).length = 4 := rfl
  simp only [List.length_append, List.length_cons, List.length_nil, resolve_length, hlen, hlenp]
    at hcj hcb hcp hcjb hce
  have hne : cnt = .none → False := by rintro rfl; simp [Val.asNum] at hnum
  have hex := exec_counterTest vars ht cnt q fl sim hpc hct hcnt hnum
  by_cases hq : 0 < q
  · -- one more pass
    rw [passes_pos q hq, List.replicate_succ, execPasses_succ] at h
    simp only [List.foldl_nil, stepIdx] at h
    have hjmp : ∀ t0, (At K (top + 4) (.loop vars ht :: stk) [] σ t0 ∧
        t0.regs .result = .bool (decide (0 < q))) →
        Exec img t0 (At K (top + 5) (.loop vars ht :: stk) [] σ) := by
      intro t0 ⟨ht0, hres⟩
      exact exec_jump .ifFalse _ _ (by simp) ht0.2 ht0.1 (idx hcj)
        (by simp [hres, hq, Val.truthy]; omega)
    rcases loopBody_cases h ho with ⟨s2, hbody, hrest⟩ | ⟨hbody, rfl⟩
    · obtain ⟨c1, fl1, hsub1, hc1⟩ := sub_one_num cnt q fl hnum
      have hbodyEx : ∀ t1, At K (top + 5) (.loop vars ht :: stk) [] σ t1 →
          Exec img t1 (At K (top + 5 + (genBlock body).length) (.loop vars ht :: stk) [] s2) := by
        intro t1 ht1
        exact ihB body hb σ s2 .normal t1 _ _ _ ht1.2 ht1.1 (cat hcb) hbody (Or.inl rfl)
      have hpostEx : ∀ t2, At K (top + 5 + (genBlock body).length) (.loop vars ht :: stk) [] s2 t2 →
          Exec img t2 (At K (top + 5 + (genBlock body).length + 4)
            (.loop (putVar vars .counter c1) ht :: stk) [] s2) := by
        intro t2 ht2
        exact exec_loopPost vars ht cnt c1 ht2.2 ht2.1 (cat hcp) hcnt hne hsub1
      have hback : ∀ t3, At K (top + 5 + (genBlock body).length + 4)
          (.loop (putVar vars .counter c1) ht :: stk) [] s2 t3 →
          Exec img t3 (At K top (.loop (putVar vars .counter c1) ht :: stk) [] s2) := by
        intro t3 ht3
        exact exec_jump .always off top (by simp) ht3.2 ht3.1 (idx hcjb) (by simpa using hoff)
      have hrestEx : ∀ t4, At K top (.loop (putVar vars .counter c1) ht :: stk) [] s2 t4 →
          o = .normal ∧ Exec img t4 (At K (top + 5 + (genBlock body).length + 4 + 1 + 1) stk [] σ') := by
        intro t4 ht4
        exact ihC body hb s2 σ' o t4 top stk _ ht c1 (q - 1) fl1 off ht4.2 ht4.1
          (getVar_putVar vars .counter c1) hc1 hc hoff hrest ho
      have hall := (((hex.trans hjmp).trans hbodyEx).trans hpostEx).trans hback
      obtain ⟨t4, ht4⟩ : ∃ t4, At K top (.loop (putVar vars .counter c1) ht :: stk) [] s2 t4 := by
        obtain ⟨k, hk⟩ := hall
        exact ⟨_, hk⟩
      exact ⟨(hrestEx t4 ht4).1, hall.trans fun t ht => (hrestEx t ht).2⟩
    · refine ⟨rfl, (hex.trans hjmp).trans fun t1 ht1 => ?_⟩
      refine (ihB body hb σ σ' .brk t1 _ _ _ ht1.2 ht1.1 (cat hcb) hbody (Or.inr rfl)).trans
        fun t2 ht2 => ?_
      simp only [Target] at ht2
      exact exec_endLoop vars ht ht2.2 ht2.1 (idx hce)
  · -- the count is used up
    rw [passes_nonpos q hq] at h
    simp only [List.replicate_zero, execPasses, Prod.mk.injEq] at h
    obtain ⟨rfl, rfl⟩ := h
    refine ⟨rfl, hex.trans fun t0 ⟨ht0, hres⟩ => ?_⟩
    refine (exec_jump .ifFalse _ (top + 5 + (genBlock body).length + 4 + 1) (by simp) ht0.2 ht0.1
      (idx hcj) (by simp [hres, hq, Val.truthy]; omega)).trans fun t1 ht1 => ?_
    exact exec_endLoop vars ht ht1.2 ht1.1 (idx hce)


/-! ## the loop statement -/

theorem assembleLoop_length (pre test bodyPre : List Instr) (body : Code) (post : List Instr) :
    (assembleLoop pre test bodyPre body post).length =
      1 + pre.length + test.length + 1 + (bodyPre.length + body.length + post.length) + 1 + 1 := by
  rw [← resolve_length _ 0 0, resolve_assembleLoop]
  simp only [List.length_append, List.length_cons, List.length_nil, resolve_length]

def LoopGoal (img : Image) (K : Ctx) (f : Nat) : Prop :=
  ∀ (hd : LoopHdr) (body : Block), LoopHdrOK hd → FragBlock body →
  ∀ (σ σ' : S) (o : Outcome) (s : State) (pc exit : Nat) (stk : List Frame),
    Sim K stk σ s → s.pc = (pc : Int) →
    CodeAt img pc (resolve (genLoop hd (genBlock body)) pc exit) →
    execLoop f hd body σ = (o, σ') → (o = .normal ∨ o = .brk) →
    o = .normal ∧ Exec img s (At K (pc + (genLoop hd (genBlock body)).length) stk [] σ')

theorem loop_zero : LoopGoal img K 0 := by
  intro hd body _ _ σ σ' o s pc exit stk _ _ _ h ho
  simp only [execLoop, Prod.mk.injEq] at h
  rcases ho with rfl | rfl <;> simp at h

/-- `repeat while c` and `repeat`: frame, iterations, frame dropped -/
theorem loop_while (f : Nat) (ihW : WhileIter img K f) (c : Option Rv) (hcnd : CondOK c) (body : Block)
    (hb : FragBlock body) (σ σ' : S) (o : Outcome) (s : State) (pc exit : Nat) (stk : List Frame)
    (sim : Sim K stk σ s) (hpc : s.pc = (pc : Int))
    (hc : CodeAt img pc (resolve (assembleLoop [] (testCode c) [] (genBlock body) []) pc exit))
    (h : execWhile f c body σ = (o, σ')) (ho : o = .normal ∨ o = .brk) :
    o = .normal ∧
      Exec img s (At K (pc + (assembleLoop [] (testCode c) [] (genBlock body) []).length) stk [] σ') := by
  rw [resolve_assembleLoop] at hc
  rw [assembleLoop_length]
  simp only [List.append_nil, List.nil_append, List.length_nil, Nat.add_zero, Nat.zero_add] at hc ⊢
  have hloop := hc.left.left.left.left.head
  have hrest : CodeAt img (pc + 1) (testCode c ++ [.jump .ifFalse (((genBlock body).length : Nat) + 2)] ++
      resolve (genBlock body) (pc + 1 + (testCode c).length + 1)
        ((pc + 1 + (testCode c).length + 1 + (genBlock body).length + 1 : Nat) : Int) ++
      [.jump .always (((1 : Nat) : Int) - ((1 + (testCode c).length + 1 + (genBlock body).length : Nat) : Int))] ++
      [.endLoop]) := by
    have := hc
    simp only [List.cons_append, List.append_assoc] at this ⊢
    have h2 := this.tail
    have e1 : pc + (1 + (testCode c).length + 1) = pc + 1 + (testCode c).length + 1 := by omega
    have e2 : pc + (1 + (testCode c).length + 1 + (genBlock body).length + 1) =
        pc + 1 + (testCode c).length + 1 + (genBlock body).length + 1 := by omega
    rw [e1, e2] at h2
    exact h2
  have hiter := fun t (ht : At K (pc + 1) (.loop [] 0 :: stk) [] σ t) =>
    ihW c body hcnd hb σ σ' o t (pc + 1) stk [] 0 _ ht.2 ht.1 hrest (by omega) h ho
  have hl := exec_loop sim hpc hloop
  obtain ⟨t, ht⟩ : ∃ t, At K (pc + 1) (.loop [] 0 :: stk) [] σ t := by
    obtain ⟨k, hk⟩ := hl; exact ⟨_, hk⟩
  refine ⟨(hiter t ht).1, (hl.trans fun t ht => (hiter t ht).2).mono fun t2 ht2 => ⟨?_, ht2.2⟩⟩
  rw [ht2.1]; congr 1; omega


theorem range_map_nil (k : Nat) :
    ((List.range k).map fun _ => ([] : List (String × Val))) = List.replicate k [] := by
  rw [List.map_const', List.length_range]

/-- `repeat n`: frame, the count into the frame, the passes, frame dropped -/
theorem loop_count (f : Nat) (ihC : CountIter img K f) (n : Rv) (hn : RvOK n) (body : Block)
    (hb : FragBlock body) (σ σ' : S) (o : Outcome) (s : State) (pc exit : Nat) (stk : List Frame)
    (sim : Sim K stk σ s) (hpc : s.pc = (pc : Int))
    (hc : CodeAt img pc (resolve (genLoop (.count n) (genBlock body)) pc exit))
    (h : execLoop (f + 1) (.count n) body σ = (o, σ')) (ho : o = .normal ∨ o = .brk) :
    o = .normal ∧
      Exec img s (At K (pc + (genLoop (.count n) (genBlock body)).length) stk [] σ') := by
  simp only [genLoop] at hc ⊢
  rw [resolve_assembleLoop] at hc
  rw [assembleLoop_length]
  have hlen : counterTest.length = 4 := rfl
  have hlenp : (loopPost none).length = 4 := rfl
  simp only [List.nil_append, List.length_nil, Nat.add_zero, Nat.zero_add, hlen, hlenp]
    at hc ⊢
  simp only [execLoop] at h
  split at h
  · rename_i o' he
    simp only [Prod.mk.injEq] at h
    obtain ⟨rfl, rfl⟩ := h
    exact (error_excluded hn he ho).elim
  · rename_i x σ1 he
    split at h
    · rename_i q hq
      obtain ⟨fl, hnum⟩ : ∃ fl, x.asNum = some (q, fl) := by
        simp only [numToCount, Option.map_eq_some_iff] at hq
        obtain ⟨⟨q', fl⟩, h1, h2⟩ := hq
        exact ⟨fl, by rw [h1]; simp at h2; rw [h2]⟩
      have h' : execPasses f (List.replicate (passes q) []) none body σ1 = (o, σ') := by
        rw [← passCount_eq]; exact h
      have hloop := hc.left.left.left.left.left.head
      have hpre := hc.left.left.left.left.left.tail
      have hrest : CodeAt img (pc + 1 + (genRv n (.to counter)).length)
          (counterTest ++ [.jump .ifFalse (((genBlock body).length + 4 : Nat) + 2)] ++
            (resolve (genBlock body) (pc + 1 + (genRv n (.to counter)).length + 5)
              ((pc + 1 + (genRv n (.to counter)).length + 5 + (genBlock body).length + 4 + 1 : Nat) : Int) ++
              loopPost none) ++
            [.jump .always (((1 + (genRv n (.to counter)).length : Nat) : Int) -
              ((1 + (genRv n (.to counter)).length + 4 + 1 + ((genBlock body).length + 4) : Nat) : Int))] ++
            [.endLoop]) := by
        have h1 := hc.left.left.left.right
        have h2 := hc.left.left.right
        have h3 := hc.left.right
        have h4 := hc.right
        simp only [List.length_append, List.length_cons, List.length_nil, resolve_length, hlen, hlenp]
          at h1 h2 h3 h4
        have e1 : pc + (1 + (genRv n (.to counter)).length + 4 + 1) =
            pc + 1 + (genRv n (.to counter)).length + 5 := by omega
        have e2 : pc + (1 + (genRv n (.to counter)).length + 4 + 1 + ((genBlock body).length + 4) + 1) =
            pc + 1 + (genRv n (.to counter)).length + 5 + (genBlock body).length + 4 + 1 := by omega
        rw [e1, e2] at hc
        have := hc
        simp only [List.append_assoc, List.cons_append, List.nil_append] at this ⊢
        have hh := (CodeAt.right (a := Instr.loop :: genRv n (.to counter)) this)
        simp only [List.length_cons] at hh
        have e3 : pc + ((genRv n (.to counter)).length + 1) = pc + 1 + (genRv n (.to counter)).length := by
          omega
        rw [e3] at hh
        exact hh
      have hl := exec_loop sim hpc hloop
      have hcnt := fun t (ht : At K (pc + 1) (.loop [] 0 :: stk) [] σ t) =>
        exec_toCounter n hn [] 0 ht.2 ht.1 hpre he
      obtain ⟨t, ht⟩ : ∃ t, At K (pc + 1) (.loop [] 0 :: stk) [] σ t := by
        obtain ⟨k, hk⟩ := hl; exact ⟨_, hk⟩
      obtain ⟨rfl, _⟩ := hcnt t ht
      have hiter := fun t (ht : At K (pc + 1 + (genRv n (.to counter)).length)
          (.loop (putVar [] .counter x) 0 :: stk) [] σ1 t) =>
        ihC body hb σ1 σ' o t _ stk _ 0 x q fl _ ht.2 ht.1 (getVar_putVar [] .counter x) hnum hrest
          (by omega) h' ho
      have hall := hl.trans fun t ht => (hcnt t ht).2
      obtain ⟨t2, ht2⟩ : ∃ t2, At K (pc + 1 + (genRv n (.to counter)).length)
          (.loop (putVar [] .counter x) 0 :: stk) [] σ1 t2 := by
        obtain ⟨k, hk⟩ := hall; exact ⟨_, hk⟩
      refine ⟨(hiter t2 ht2).1, (hall.trans fun t ht => (hiter t ht).2).mono fun t3 ht3 => ⟨?_, ht3.2⟩⟩
      rw [ht3.1]; congr 1; omega
    · simp only [Prod.mk.injEq] at h
      obtain ⟨rfl, rfl⟩ := h
      rcases ho with h | h <;> simp at h

theorem loop_step (f : Nat) (ihW : WhileIter img K f) (ihC : CountIter img K f) : LoopGoal img K (f + 1) := by
  intro hd body hhd hb σ σ' o s pc exit stk sim hpc hc h ho
  cases hd with
  | forever =>
    exact loop_while f ihW none trivial body hb σ σ' o s pc exit stk sim hpc hc
      (by simpa only [execLoop] using h) ho
  | while_ c =>
    exact loop_while f ihW (some c) hhd body hb σ σ' o s pc exit stk sim hpc hc
      (by simpa only [execLoop] using h) ho
  | count n => exact loop_count f ihC n hhd body hb σ σ' o s pc exit stk sim hpc hc h ho
  | _ => exact absurd hhd (by simp [LoopHdrOK])

theorem stmt_repeat (f : Nat) (ihL : LoopGoal img K f) (hd : LoopHdr) (body : Block) (hhd : LoopHdrOK hd)
    (hb : FragBlock body) : StmtGoal img K (.repeat_ hd body) (f + 1) := by
  intro σ σ' o s pc exit stk sim hpc hc h ho
  simp only [genStmt] at hc ⊢
  simp only [execStmt] at h
  obtain ⟨rfl, hex⟩ := ihL hd body hhd hb σ σ' o s pc exit stk sim hpc hc h ho
  exact hex


end Sim
end Bardolph
