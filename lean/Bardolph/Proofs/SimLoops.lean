import Bardolph.Proofs.SimIter
/-!
Loops for the simulation theorem C01: the layout of an assembled loop, and the iteration lemmas
for `repeat while` / `repeat` / `repeat n` and the index-variable forms.
-/
namespace Bardolph
namespace Sim
open Vm VmSteps Sem Gen

variable {V : String → Prop}
variable {img : Image} {K : Ctx} {stk : Stk} {un : List Val} {σ : S} {s : State} {pc : Nat}

/-! ## the shape of a loop -/

/-- the instructions of an assembled loop placed at `pc`: the `break`s of the body lead to its
`END_LOOP` -/
theorem resolve_assembleLoop (pre test bodyPre : List Instr) (body : Code) (post : List Instr)
    (pc : Nat) (ex : Int) :
    resolve (assembleLoop pre test bodyPre body post) pc ex =
      ([Instr.loop] ++ pre) ++ test ++
      [Instr.jump .ifFalse ((bodyPre.length + body.length + post.length : Nat) + 2)] ++
      (bodyPre ++
        resolve body (pc + (1 + pre.length + test.length + 1 + bodyPre.length))
          ((pc + (1 + pre.length + test.length + 1 + (bodyPre.length + body.length + post.length) + 1) : Nat) : Int) ++
        post) ++
      [Instr.jump .always (((1 + pre.length : Nat) : Int) -
        ((1 + pre.length + test.length + 1 + (bodyPre.length + body.length + post.length) : Nat) : Int))] ++
      [Instr.endLoop] := by
  unfold assembleLoop
  simp only [patchBreaks_eq, resolve_append, resolve_patchRec, resolve_ins, resolve, ins_length,
    List.length_append, List.length_cons, List.length_nil]
  have e2 : ∀ X : Nat, ((pc : Int) - ((0 : Nat) : Int) + (X : Int)) = ((pc + X : Nat) : Int) := by
    intro X; omega
  simp only [Nat.zero_add, e2]
  rw [Nat.add_assoc pc]

variable {img : Image} {K : Ctx}

/-! ## iteration -/

/-- what a pass of a loop body leads to: the next pass, or — after `break` — the end of the loop -/
def loopBody (r : Outcome × S) (K : S → Outcome × S) : Outcome × S :=
  match r with
  | (.normal, s2) => K s2
  | (.brk, s2) => (.normal, s2)
  | r => r

theorem loopBody_cases {r : Outcome × S} {K : S → Outcome × S} {o : Outcome} {σ' : S}
    (h : loopBody r K = (o, σ')) (ho : o = .normal ∨ o = .brk) :
    (∃ s2, r = (.normal, s2) ∧ K s2 = (o, σ')) ∨ (r = (.brk, σ') ∧ o = .normal) := by
  obtain ⟨o1, s1⟩ := r
  cases o1 with
  | normal => exact Or.inl ⟨s1, rfl, h⟩
  | brk =>
    simp only [loopBody, Prod.mk.injEq] at h
    obtain ⟨rfl, rfl⟩ := h
    exact Or.inr ⟨rfl, rfl⟩
  | _ =>
    simp only [loopBody, Prod.mk.injEq] at h
    obtain ⟨rfl, rfl⟩ := h
    rcases ho with h | h <;> simp at h

def semTest (f : Nat) (c : Option Rv) (σ : S) : Except Outcome (Bool × S) :=
  match c with
  | none => .ok (true, σ)
  | some rv =>
    match evalRv f rv σ with
    | .ok (v, s') => .ok (v.truthy, s')
    | .error o => .error o

theorem execWhile_succ (f : Nat) (c : Option Rv) (body : Block) (σ : S) :
    execWhile (f + 1) c body σ =
      match semTest f c σ with
      | .error o => (o, σ)
      | .ok (false, s1) => (.normal, s1)
      | .ok (true, s1) => loopBody (execBlock f body s1) fun s2 => execWhile f c body s2 := by
  cases c <;> simp only [execWhile, semTest] <;> rfl

/-- the end of a pass that ran to its end: the increment is added to the index variable -/
def stepIdx (ix : Option (String × Val)) (s2 : S) (K : S → Outcome × S) : Outcome × S :=
  match ix with
  | none => K s2
  | some (v, incr) =>
    match Vm.binOp .add (s2.lookup v) incr with
    | some x => K (s2.assign v x)
    | none => (.fault "arithmetic error", s2)

theorem execPasses_succ (f : Nat) (binds : List (String × Val)) (rest : List (List (String × Val)))
    (ix : Option (String × Val)) (body : Block) (σ : S) :
    execPasses (f + 1) (binds :: rest) ix body σ =
      loopBody (execBlock f body (binds.foldl (fun st (n, v) => st.assign n v) σ))
        fun s2 => stepIdx ix s2 fun s3 => execPasses f rest ix body s3 := by
  simp only [execPasses]
  cases ix with
  | none => rfl
  | some p => obtain ⟨v, incr⟩ := p; rfl


def testCode : Option Rv → List Instr
  | none => [.moveq (.bool true) result]
  | some c => genRv c (.to result)

def CondOK (V : String → Prop) : Option Rv → Prop
  | none => True
  | some c => RvC V c

theorem semTest_error {c : Option Rv} (f : Nat) (σ : S) (o : Outcome)
    (h : semTest f c σ = .error o) : o ≠ .normal ∧ o ≠ .brk ∧ o ≠ .ret := by
  cases c with
  | none => simp [semTest] at h
  | some rv =>
    simp only [semTest] at h
    split at h
    · simp at h
    · rename_i o' he
      simp at h; subst h
      exact evalRvC_error he

/-- the test of a `while` loop: the truth of the condition goes to `result` -/
theorem exec_test {stk : Stk} {σ : S} {s : State} {pc : Nat} {f : Nat} (ihRv : RvToGoal V img K f)
    (c : Option Rv) (hcnd : CondOK V c)
    (h : Sim K stk σ s) (hpc : s.pc = (pc : Int)) (hc : CodeAt img pc (testCode c))
    {b : Bool} {σ' : S} (hev : semTest f c σ = .ok (b, σ')) :
    Exec img s (fun t => At K (pc + (testCode c).length) stk [] σ' t ∧
      (t.regs .result).truthy = b) := by
  cases c with
  | none =>
    simp only [semTest, Except.ok.injEq, Prod.mk.injEq] at hev
    obtain ⟨rfl, rfl⟩ := hev
    simp only [testCode] at hc ⊢
    apply Exec.step h.running
    apply Exec.done
    rw [step_eq _ (s.setReg .result (.bool true)) h.running hpc hc.head rfl
      (by rw [execInstr_moveq _ _ (by simp [result])]; rfl) h.running]
    refine ⟨⟨?_, (h.setResult _).setPc _⟩, by simp [State.setReg, Val.truthy]⟩
    show s.pc + 1 = _
    rw [hpc]; simp
  | some rv =>
    simp only [semTest] at hev
    split at hev
    · rename_i v s' he
      simp only [Except.ok.injEq, Prod.mk.injEq] at hev
      obtain ⟨rfl, rfl⟩ := hev
      exact (rv_toResult ihRv rv hcnd h hpc hc he).mono fun t ⟨ht, hres⟩ => ⟨ht, by rw [hres]⟩
    · simp at hev

/-- `repeat while c` / `repeat`: from the test on, with the loop frame in place -/
def WhileIter (V : String → Prop) (img : Image) (K : Ctx) (f : Nat) : Prop :=
  ∀ (c : Option Rv) (body : Block), CondOK V c → FragBlock V body →
  ∀ (σ σ' : S) (o : Outcome) (s : State) (top : Nat) (stk : Stk)
    (vars : List (LoopVar × Val)) (extra : List Val) (off : Int),
    Sim K (stk.inner vars extra) σ s → s.pc = (top : Int) →
    CodeAt img top (testCode c ++ [.jump .ifFalse (((genBlock body).length : Nat) + 2)] ++
      resolve (genBlock body) (top + (testCode c).length + 1)
        ((top + (testCode c).length + 1 + (genBlock body).length + 1 : Nat) : Int) ++
      [.jump .always off] ++ [.endLoop]) →
    ((top + (testCode c).length + 1 + (genBlock body).length : Nat) : Int) + off = (top : Int) →
    execWhile f c body σ = (o, σ') → (o = .normal ∨ o = .brk) →
    o = .normal ∧
      Exec img s (At K (top + (testCode c).length + 1 + (genBlock body).length + 1 + 1) stk [] σ')

theorem while_zero : WhileIter V img K 0 := by
  intro c body _ _ σ σ' o s top stk vars extra off _ _ _ _ h ho
  simp only [execWhile, Prod.mk.injEq] at h
  rcases ho with rfl | rfl <;> simp at h

theorem while_step (f : Nat) (ihRv : RvToGoal V img K f) (ihB : BlockGoal V img K f)
    (ihW : WhileIter V img K f) : WhileIter V img K (f + 1) := by
  intro c body hcnd hb σ σ' o s top stk vars extra off sim hpc hc hoff h ho
  rw [execWhile_succ] at h
  have hct := hc.left.left.left.left
  have hcj := hc.left.left.left.right.head
  have hcb := hc.left.left.right
  have hcjb := hc.left.right.head
  have hce := hc.right.head
  simp only [List.length_append, List.length_cons, List.length_nil, resolve_length] at hcb hcjb hce
  split at h
  · rename_i o' he
    simp only [Prod.mk.injEq] at h
    obtain ⟨rfl, rfl⟩ := h
    have := semTest_error f σ _ he
    rcases ho with rfl | rfl <;> simp at this
  · rename_i s1 he
    simp only [Prod.mk.injEq] at h
    obtain ⟨rfl, rfl⟩ := h
    have hex := exec_test ihRv c hcnd sim hpc hct he
    refine ⟨rfl, hex.trans fun t ⟨ht0, hres⟩ => ?_⟩
    refine (exec_jump .ifFalse _ (top + (testCode c).length + 1 + (genBlock body).length + 1)
      (by simp) ht0.2 ht0.1 hcj (by simp [hres]; omega)).trans fun t1 ht1 => ?_
    exact exec_endLoop vars extra ht1.2 ht1.1 (idx hce)
  · rename_i s1 he
    have hex := exec_test ihRv c hcnd sim hpc hct he
    have hjmp : ∀ t0, (At K (top + (testCode c).length) (stk.inner vars extra) [] s1 t0 ∧
        (t0.regs .result).truthy = true) →
        Exec img t0 (At K (top + (testCode c).length + 1) (stk.inner vars extra) [] s1) := by
      intro t0 ⟨ht0, hres⟩
      exact exec_jump .ifFalse _ _ (by simp) ht0.2 ht0.1 hcj (by simp [hres])
    rcases loopBody_cases h ho with ⟨s2, hbody, hrest⟩ | ⟨hbody, rfl⟩
    · have hback : ∀ t2, At K (top + (testCode c).length + 1 + (genBlock body).length)
          (stk.inner vars extra) [] s2 t2 → Exec img t2 (At K top (stk.inner vars extra) [] s2) := by
        intro t2 ht2
        exact exec_jump .always off top (by simp) ht2.2 ht2.1 (idx hcjb) (by simpa using hoff)
      have hbodyEx : ∀ t1, At K (top + (testCode c).length + 1) (stk.inner vars extra) [] s1 t1 →
          Exec img t1 (At K (top + (testCode c).length + 1 + (genBlock body).length)
            (stk.inner vars extra) [] s2) := by
        intro t1 ht1
        exact ihB body hb s1 s2 .normal t1 _ _ _ ht1.2 ht1.1 (cat hcb) hbody (Or.inl rfl)
      -- the rest of the loop, from the test again
      have hrestEx : ∀ t3, At K top (stk.inner vars extra) [] s2 t3 →
          o = .normal ∧ Exec img t3
            (At K (top + (testCode c).length + 1 + (genBlock body).length + 1 + 1) stk [] σ') := by
        intro t3 ht3
        exact ihW c body hcnd hb s2 σ' o t3 top stk vars extra off ht3.2 ht3.1 hc hoff hrest ho
      obtain ⟨t3, ht3⟩ : ∃ t3, At K top (stk.inner vars extra) [] s2 t3 := by
        obtain ⟨k, hk⟩ := ((hex.trans hjmp).trans hbodyEx).trans hback
        exact ⟨_, hk⟩
      refine ⟨(hrestEx t3 ht3).1, ?_⟩
      exact ((((hex.trans hjmp).trans hbodyEx).trans hback).trans fun t ht => (hrestEx t ht).2)
    · refine ⟨rfl, ?_⟩
      refine ((hex.trans hjmp).trans fun t1 ht1 => ?_)
      refine (ihB body hb s1 σ' .brk t1 _ _ _ ht1.2 ht1.1 (cat hcb) hbody (Or.inr rfl)).trans
        fun t2 ht2 => ?_
      simp only [Target] at ht2
      exact exec_endLoop vars extra ht2.2 (pc := top + (testCode c).length + 1 + (genBlock body).length + 1)
        (by rw [ht2.1]) (idx hce)


/-! ### counted passes, with or without an index variable -/

/-- the source-level state after the end of a pass: the increment added to the index variable -/
def idxNext (ix : Option (String × Val)) (σ : S) : Option S :=
  match ix with
  | none => some σ
  | some (v, incr) => (Vm.binOp .add (σ.lookup v) incr).map fun x => σ.assign v x

theorem stepIdx_cases {ix : Option (String × Val)} {σ2 : S} {Kf : S → Outcome × S} {o : Outcome} {σ' : S}
    (h : stepIdx ix σ2 Kf = (o, σ')) :
    (∃ σ3, idxNext ix σ2 = some σ3 ∧ Kf σ3 = (o, σ')) ∨ o = .fault "arithmetic error" := by
  cases ix with
  | none => exact Or.inl ⟨σ2, rfl, h⟩
  | some p =>
    obtain ⟨v, incr⟩ := p
    simp only [stepIdx] at h
    split at h
    · rename_i x hx
      exact Or.inl ⟨_, by simp [idxNext, hx], h⟩
    · simp only [Prod.mk.injEq] at h
      exact Or.inr h.1.symm

/-- the code at the end of a pass -/
def postOf (ix : Option (String × Val)) : List Instr := loopPost (ix.map (·.1))

theorem postOf_none : postOf none = loopPost none := rfl

theorem add_some_ne_none {a b d : Val} (h : Val.add a b = some d) : (a = .none → False) ∧ (b = .none → False) := by
  constructor
  · rintro rfl; cases b <;> simp [Val.add, Val.asNum] at h
  · rintro rfl; cases a <;> simp [Val.add, Val.asNum] at h

/-- the end of a pass: the counter goes down by one, the increment is added to the index variable -/
theorem exec_passEnd {stk : Stk} {s : State} {pc : Nat} (ix : Option (String × Val))
    (vars : List (LoopVar × Val)) (extra : List Val) (cnt c1 : Val) (σ2 σ3 : S)
    (h : Sim K (stk.inner vars extra) σ2 s) (hpc : s.pc = (pc : Int)) (hc : CodeAt img pc (postOf ix))
    (hcnt : getVar vars .counter = cnt) (hne : cnt = .none → False)
    (hsub : binVal .sub cnt (.int 1) = some c1) (hincr : ∀ p ∈ ix, getVar vars .incr = p.2)
    (hnext : idxNext ix σ2 = some σ3) :
    Exec img s (At K (pc + (postOf ix).length) (stk.inner (putVar vars .counter c1) extra) [] σ3) := by
  cases ix with
  | none =>
    simp only [idxNext, Option.some.injEq] at hnext
    subst hnext
    exact exec_loopPost vars _ cnt c1 h hpc hc hcnt hne hsub
  | some p =>
    obtain ⟨v, incr⟩ := p
    have hi : getVar vars .incr = incr := hincr (v, incr) rfl
    simp only [idxNext, Option.map_eq_some_iff] at hnext
    obtain ⟨x, hadd, rfl⟩ := hnext
    have hc' : CodeAt img pc ([Instr.push (.loopVar .counter), .pushq (.int 1), .op .sub, .pop counter] ++
        [Instr.push (.var v), .push (.loopVar .incr), .op .add, .pop (.var v)]) := hc
    have hnn := add_some_ne_none (show Val.add (σ2.lookup v) incr = some x from hadd)
    refine (exec_group_lv _ _ .sub .counter cnt (.int 1) c1 h hpc hc'.left
      (pf_lv h _ .counter cnt hcnt hne) (Loops.pfStep_pushq _ _ _) hsub).trans fun t1 ht1 => ?_
    have hi1 : getVar (putVar vars .counter c1) .incr = incr := by
      rw [getVar_putVar_other _ _ _ _ (by decide), hi]
    exact exec_group_var _ _ .add v (σ2.lookup v) incr x ht1.2 ht1.1 hc'.right
      (pf_var ht1.2 _ v _ rfl hnn.1) (pf_lv ht1.2 _ .incr incr hi1 hnn.2) hadd

/-! ### what a loop over names adds: the name popped at the start of every pass -/

/-- the instruction at the start of a pass: the next name into the loop's variable -/
def bodyPreOf (lv : Option String) : List Instr :=
  match lv with
  | none => []
  | some v => [.pop (.var v)]

/-- the source-level bindings of the passes: one pass per element of `names` (for a loop that
counts, only the length of `names` matters) -/
def bindOf (lv : Option String) (n : String) : List (String × Val) :=
  match lv with
  | none => []
  | some v => [(v, .str n)]

def bindsOf (lv : Option String) (names : List String) : List (List (String × Val)) :=
  names.map (bindOf lv)

/-- the names waiting on the evaluation stack -/
def pendOf (lv : Option String) (names : List String) : List Val :=
  match lv with
  | none => []
  | some _ => names.map .str

/-- the source-level state at the start of a pass -/
def bindσ (lv : Option String) (n : String) (σ : S) : S :=
  match lv with
  | none => σ
  | some v => σ.assign v (.str n)

theorem bindsOf_cons (lv : Option String) (n : String) (rest : List String) :
    bindsOf lv (n :: rest) = bindOf lv n :: bindsOf lv rest := rfl

theorem foldl_bind (lv : Option String) (n : String) (σ : S) :
    (bindOf lv n).foldl (fun st (p : String × Val) =>
      match p with | (n, v) => st.assign n v) σ = bindσ lv n σ := by
  cases lv <;> rfl

theorem bindsOf_none (k : Nat) : bindsOf none (List.replicate k "") = List.replicate k [] := by
  simp [bindsOf, bindOf]

theorem exec_bodyPre {stk : Stk} {σ : S} {s : State} {pc : Nat} (lv : Option String) (n : String)
    (rest : List String) (vars : List (LoopVar × Val))
    (h : Sim K (stk.inner vars (pendOf lv (n :: rest))) σ s) (hpc : s.pc = (pc : Int))
    (hc : CodeAt img pc (bodyPreOf lv)) :
    Exec img s (At K (pc + (bodyPreOf lv).length) (stk.inner vars (pendOf lv rest)) [] (bindσ lv n σ)) := by
  cases lv with
  | none => exact Exec.done ⟨by simpa [bodyPreOf] using hpc, h⟩
  | some v => exact exec_popVar v (.str n) _ h hpc hc.head

/-- a counted loop (`repeat n`, `repeat [n] with v …`, the loops over names): from the test on,
with the counter — and the increment of the index variable `ix`, if there is one — in the loop
frame, and the names still to visit (`names`, for a loop with a light variable `lv`) on the
evaluation stack -/
def CountIter (V : String → Prop) (img : Image) (K : Ctx) (f : Nat) : Prop :=
  ∀ (body : Block), FragBlock V body → ∀ (lv : Option String) (ix : Option (String × Val))
    (names : List String) (σ σ' : S) (o : Outcome) (s : State) (top : Nat) (stk : Stk)
    (vars : List (LoopVar × Val)) (cnt : Val) (q : Rat) (fl : Bool) (off : Int),
    Sim K (stk.inner vars (pendOf lv names)) σ s → s.pc = (top : Int) →
    getVar vars .counter = cnt → cnt.asNum = some (q, fl) → passes q = names.length →
    (∀ p ∈ ix, getVar vars .incr = p.2) →
    CodeAt img top (counterTest ++
      [.jump .ifFalse (((bodyPreOf lv).length + (genBlock body).length + (postOf ix).length : Nat) + 2)] ++
      (bodyPreOf lv ++ resolve (genBlock body) (top + 5 + (bodyPreOf lv).length)
        ((top + 5 + ((bodyPreOf lv).length + (genBlock body).length + (postOf ix).length) + 1 : Nat) : Int) ++
        postOf ix) ++
      [.jump .always off] ++ [.endLoop]) →
    ((top + 5 + ((bodyPreOf lv).length + (genBlock body).length + (postOf ix).length) : Nat) : Int) + off =
      (top : Int) →
    execPasses f (bindsOf lv names) ix body σ = (o, σ') → (o = .normal ∨ o = .brk) →
    o = .normal ∧
      Exec img s (At K (top + 5 + ((bodyPreOf lv).length + (genBlock body).length + (postOf ix).length) + 1 + 1)
        stk [] σ')

theorem count_zero : CountIter V img K 0 := by
  intro body _ lv ix names σ σ' o s top stk vars cnt q fl off _ _ _ _ _ _ _ _ h ho
  simp only [execPasses, Prod.mk.injEq] at h
  rcases ho with rfl | rfl <;> simp at h

theorem count_step (f : Nat) (ihB : BlockGoal V img K f) (ihC : CountIter V img K f) : CountIter V img K (f + 1) := by
  intro body hb lv ix names σ σ' o s top stk vars cnt q fl off sim hpc hcnt hnum hlenq hincr hc hoff h ho
  have hct := hc.left.left.left.left
  have hcj := hc.left.left.left.right.head
  have hcpre := hc.left.left.right.left.left
  have hcb := hc.left.left.right.left.right
  have hcp := hc.left.left.right.right
  have hcjb := hc.left.right.head
  have hce := hc.right.head
  have hlen : counterTest.length = 4 := rfl
  simp only [List.length_append, List.length_cons, List.length_nil, resolve_length, hlen]
    at hcj hcpre hcb hcp hcjb hce
  have hne : cnt = .none → False := by rintro rfl; simp [Val.asNum] at hnum
  have hex := exec_counterTest vars _ cnt q fl sim hpc hct hcnt hnum
  cases names with
  | cons n rest =>
    -- one more pass
    have hq : 0 < q := by
      apply Classical.byContradiction
      intro hc'
      rw [passes_nonpos q hc'] at hlenq
      simp at hlenq
    rw [bindsOf_cons, execPasses_succ, foldl_bind] at h
    have hjmp : ∀ t0, (At K (top + 4) (stk.inner vars (pendOf lv (n :: rest))) [] σ t0 ∧
        t0.regs .result = .bool (decide (0 < q))) →
        Exec img t0 (At K (top + 5) (stk.inner vars (pendOf lv (n :: rest))) [] σ) := by
      intro t0 ⟨ht0, hres⟩
      exact exec_jump .ifFalse _ _ (by simp) ht0.2 ht0.1 (idx hcj)
        (by simp [hres, hq, Val.truthy]; omega)
    have hpreEx : ∀ t0, At K (top + 5) (stk.inner vars (pendOf lv (n :: rest))) [] σ t0 →
        Exec img t0 (At K (top + 5 + (bodyPreOf lv).length) (stk.inner vars (pendOf lv rest)) []
          (bindσ lv n σ)) := by
      intro t0 ht0
      exact exec_bodyPre lv n rest vars ht0.2 ht0.1 (hcpre.cast (by omega))
    rcases loopBody_cases h ho with ⟨s2, hbody, hrest⟩ | ⟨hbody, rfl⟩
    · have hnf : o ≠ .fault "arithmetic error" := by rcases ho with rfl | rfl <;> simp
      obtain ⟨s3, hnext, hrest⟩ := (stepIdx_cases hrest).resolve_right hnf
      obtain ⟨c1, fl1, hsub1, hc1⟩ := sub_one_num cnt q fl hnum
      have hbodyEx : ∀ t1, At K (top + 5 + (bodyPreOf lv).length) (stk.inner vars (pendOf lv rest)) []
            (bindσ lv n σ) t1 →
          Exec img t1 (At K (top + 5 + (bodyPreOf lv).length + (genBlock body).length)
            (stk.inner vars (pendOf lv rest)) [] s2) := by
        intro t1 ht1
        exact ihB body hb _ s2 .normal t1 _ _ _ ht1.2 ht1.1 (hcb.cast (by omega)) hbody (Or.inl rfl)
      have hpostEx : ∀ t2, At K (top + 5 + (bodyPreOf lv).length + (genBlock body).length)
            (stk.inner vars (pendOf lv rest)) [] s2 t2 →
          Exec img t2 (At K (top + 5 + (bodyPreOf lv).length + (genBlock body).length + (postOf ix).length)
            (stk.inner (putVar vars .counter c1) (pendOf lv rest)) [] s3) := by
        intro t2 ht2
        exact exec_passEnd ix vars _ cnt c1 s2 s3 ht2.2 ht2.1 (hcp.cast (by omega)) hcnt hne hsub1 hincr hnext
      have hback : ∀ t3, At K (top + 5 + (bodyPreOf lv).length + (genBlock body).length + (postOf ix).length)
          (stk.inner (putVar vars .counter c1) (pendOf lv rest)) [] s3 t3 →
          Exec img t3 (At K top (stk.inner (putVar vars .counter c1) (pendOf lv rest)) [] s3) := by
        intro t3 ht3
        exact exec_jump .always off top (by simp) ht3.2 ht3.1 (idx hcjb) (by rw [← hoff]; congr 2; omega)
      have hlen' : passes (q - 1) = rest.length := by
        rw [passes_pos q hq] at hlenq
        simpa using hlenq
      have hrestEx : ∀ t4, At K top (stk.inner (putVar vars .counter c1) (pendOf lv rest)) [] s3 t4 →
          o = .normal ∧ Exec img t4
            (At K (top + 5 + ((bodyPreOf lv).length + (genBlock body).length + (postOf ix).length) + 1 + 1)
              stk [] σ') := by
        intro t4 ht4
        exact ihC body hb lv ix rest s3 σ' o t4 top stk _ c1 (q - 1) fl1 off ht4.2 ht4.1
          (getVar_putVar vars .counter c1) hc1 hlen'
          (fun p hp => by rw [getVar_putVar_other _ _ _ _ (by decide)]; exact hincr p hp) hc hoff hrest ho
      have hall := ((((hex.trans hjmp).trans hpreEx).trans hbodyEx).trans hpostEx).trans hback
      obtain ⟨t4, ht4⟩ : ∃ t4, At K top (stk.inner (putVar vars .counter c1) (pendOf lv rest)) [] s3 t4 := by
        obtain ⟨k, hk⟩ := hall
        exact ⟨_, hk⟩
      exact ⟨(hrestEx t4 ht4).1, hall.trans fun t ht => (hrestEx t ht).2⟩
    · refine ⟨rfl, ((hex.trans hjmp).trans hpreEx).trans fun t1 ht1 => ?_⟩
      refine (ihB body hb _ σ' .brk t1 _ _ _ ht1.2 ht1.1 (hcb.cast (by omega)) hbody (Or.inr rfl)).trans
        fun t2 ht2 => ?_
      simp only [Target] at ht2
      exact exec_endLoop vars _ ht2.2 ht2.1 (idx hce)
  | nil =>
    -- the count is used up
    have hq : ¬ 0 < q := by
      intro hq
      rw [passes_pos q hq] at hlenq
      simp at hlenq
    simp only [bindsOf, List.map_nil, execPasses, Prod.mk.injEq] at h
    obtain ⟨rfl, rfl⟩ := h
    refine ⟨rfl, hex.trans fun t0 ⟨ht0, hres⟩ => ?_⟩
    refine (exec_jump .ifFalse _
      (top + 5 + ((bodyPreOf lv).length + (genBlock body).length + (postOf ix).length) + 1) (by simp) ht0.2 ht0.1
      (idx hcj) (by simp [hres, hq, Val.truthy]; omega)).trans fun t1 ht1 => ?_
    exact exec_endLoop vars _ ht1.2 ht1.1 (idx hce)


/-! ## the loop statement -/

theorem assembleLoop_length (pre test bodyPre : List Instr) (body : Code) (post : List Instr) :
    (assembleLoop pre test bodyPre body post).length =
      1 + pre.length + test.length + 1 + (bodyPre.length + body.length + post.length) + 1 + 1 := by
  rw [← resolve_length _ 0 0, resolve_assembleLoop]
  simp only [List.length_append, List.length_cons, List.length_nil, resolve_length]

def LoopGoal (V : String → Prop) (img : Image) (K : Ctx) (f : Nat) : Prop :=
  ∀ (hd : LoopHdr) (body : Block), LoopHdrOK V hd → FragBlock V body →
  ∀ (σ σ' : S) (o : Outcome) (s : State) (pc exit : Nat) (stk : Stk),
    Sim K stk σ s → s.pc = (pc : Int) →
    CodeAt img pc (resolve (genLoop hd (genBlock body)) pc exit) →
    execLoop f hd body σ = (o, σ') → (o = .normal ∨ o = .brk) →
    o = .normal ∧ Exec img s (At K (pc + (genLoop hd (genBlock body)).length) stk [] σ')

theorem loop_zero : LoopGoal V img K 0 := by
  intro hd body _ _ σ σ' o s pc exit stk _ _ _ h ho
  simp only [execLoop, Prod.mk.injEq] at h
  rcases ho with rfl | rfl <;> simp at h

/-- `repeat while c` and `repeat`: frame, iterations, frame dropped -/
theorem loop_while (f : Nat) (ihW : WhileIter V img K f) (c : Option Rv) (hcnd : CondOK V c) (body : Block)
    (hb : FragBlock V body) (σ σ' : S) (o : Outcome) (s : State) (pc exit : Nat) (stk : Stk)
    (sim : Sim K stk σ s) (hpc : s.pc = (pc : Int))
    (hc : CodeAt img pc (resolve (assembleLoop [] (testCode c) [] (genBlock body) []) pc exit))
    (h : execWhile f c body σ = (o, σ')) (ho : o = .normal ∨ o = .brk) :
    o = .normal ∧
      Exec img s (At K (pc + (assembleLoop [] (testCode c) [] (genBlock body) []).length) stk [] σ') := by
  rw [resolve_assembleLoop] at hc
  rw [assembleLoop_length]
  simp only [List.append_nil, List.nil_append, List.length_nil, Nat.add_zero, Nat.zero_add] at hc ⊢
  have hloop := hc.left.left.left.left.head
  have hrest : CodeAt img (pc + 1) (testCode c ++ [.jump .ifFalse (((genBlock body).length : Nat) + 2)] ++
      resolve (genBlock body) (pc + 1 + (testCode c).length + 1)
        ((pc + 1 + (testCode c).length + 1 + (genBlock body).length + 1 : Nat) : Int) ++
      [.jump .always (((1 : Nat) : Int) - ((1 + (testCode c).length + 1 + (genBlock body).length : Nat) : Int))] ++
      [.endLoop]) := by
    have := hc
    simp only [List.cons_append, List.append_assoc] at this ⊢
    have h2 := this.tail
    have e1 : pc + (1 + (testCode c).length + 1) = pc + 1 + (testCode c).length + 1 := by omega
    have e2 : pc + (1 + (testCode c).length + 1 + (genBlock body).length + 1) =
        pc + 1 + (testCode c).length + 1 + (genBlock body).length + 1 := by omega
    rw [e1, e2] at h2
    exact h2
  have hiter := fun t (ht : At K (pc + 1) (stk.inner [] []) [] σ t) =>
    ihW c body hcnd hb σ σ' o t (pc + 1) stk [] [] _ ht.2 ht.1 hrest (by omega) h ho
  have hl := exec_loop sim hpc hloop
  obtain ⟨t, ht⟩ : ∃ t, At K (pc + 1) (stk.inner [] []) [] σ t := by
    obtain ⟨k, hk⟩ := hl; exact ⟨_, hk⟩
  refine ⟨(hiter t ht).1, (hl.trans fun t ht => (hiter t ht).2).mono fun t2 ht2 => ⟨?_, ht2.2⟩⟩
  rw [ht2.1]; congr 1; omega


/-- the code of a counted loop from its test on, as `CountIter` wants it -/
theorem counted_rest {pc exit : Nat} (pre : List Instr) (lv : Option String) (ix : Option (String × Val))
    (body : Block)
    (hc : CodeAt img pc (resolve (assembleLoop pre counterTest (bodyPreOf lv) (genBlock body) (postOf ix))
      pc exit)) :
    img.code[pc]? = some .loop ∧ CodeAt img (pc + 1) pre ∧
    CodeAt img (pc + 1 + pre.length) (counterTest ++
      [.jump .ifFalse (((bodyPreOf lv).length + (genBlock body).length + (postOf ix).length : Nat) + 2)] ++
      (bodyPreOf lv ++ resolve (genBlock body) (pc + 1 + pre.length + 5 + (bodyPreOf lv).length)
        ((pc + 1 + pre.length + 5 + ((bodyPreOf lv).length + (genBlock body).length + (postOf ix).length) + 1
          : Nat) : Int) ++ postOf ix) ++
      [.jump .always (((1 + pre.length : Nat) : Int) -
        ((1 + pre.length + 4 + 1 + ((bodyPreOf lv).length + (genBlock body).length + (postOf ix).length) : Nat)
          : Int))] ++
      [.endLoop]) := by
  rw [resolve_assembleLoop] at hc
  have hlen : counterTest.length = 4 := rfl
  simp only [hlen] at hc
  refine ⟨hc.left.left.left.left.left.head, hc.left.left.left.left.left.tail, ?_⟩
  have e1 : pc + (1 + pre.length + 4 + 1 + (bodyPreOf lv).length) =
      pc + 1 + pre.length + 5 + (bodyPreOf lv).length := by omega
  have e2 : pc + (1 + pre.length + 4 + 1 + ((bodyPreOf lv).length + (genBlock body).length + (postOf ix).length) + 1) =
      pc + 1 + pre.length + 5 + ((bodyPreOf lv).length + (genBlock body).length + (postOf ix).length) + 1 := by
    omega
  rw [e1, e2] at hc
  have := hc
  simp only [List.append_assoc, List.cons_append, List.nil_append] at this ⊢
  have hh := (CodeAt.right (a := Instr.loop :: pre) this)
  simp only [List.length_cons] at hh
  exact hh.cast (by omega)

/-- **a counted loop**: `LOOP`, the prologue `pre` (which leaves the count — and the increment of
the index variable `ix` — in the loop frame, the names to visit on the evaluation stack, and the
source-level state `σ1`), the passes, `END_LOOP` -/
theorem loop_counted (f : Nat) (ihC : CountIter V img K f) (pre : List Instr) (lv : Option String)
    (ix : Option (String × Val)) (body : Block) (hb : FragBlock V body) (names : List String)
    (σ σ1 σ' : S) (o : Outcome) (s : State) (pc exit : Nat)
    (stk : Stk) (sim : Sim K stk σ s) (hpc : s.pc = (pc : Int))
    (hc : CodeAt img pc (resolve (assembleLoop pre counterTest (bodyPreOf lv) (genBlock body) (postOf ix))
      pc exit))
    (hpre : CodeAt img (pc + 1) pre → ∀ t, At K (pc + 1) (stk.inner [] []) [] σ t →
      Exec img t (fun t' => ∃ vars cnt q fl,
        At K (pc + 1 + pre.length) (stk.inner vars (pendOf lv names)) [] σ1 t' ∧
        getVar vars .counter = cnt ∧ cnt.asNum = some (q, fl) ∧ (∀ p ∈ ix, getVar vars .incr = p.2) ∧
        passes q = names.length))
    (h : execPasses f (bindsOf lv names) ix body σ1 = (o, σ')) (ho : o = .normal ∨ o = .brk) :
    o = .normal ∧
      Exec img s (At K (pc + (assembleLoop pre counterTest (bodyPreOf lv) (genBlock body) (postOf ix)).length)
        stk [] σ') := by
  obtain ⟨hloop, hcpre, hrest⟩ := counted_rest pre lv ix body hc
  rw [assembleLoop_length]
  have hlen : counterTest.length = 4 := rfl
  simp only [hlen]
  have hl := exec_loop sim hpc hloop
  have hall := hl.trans (hpre hcpre)
  have hiter : ∀ t', (∃ vars cnt q fl,
        At K (pc + 1 + pre.length) (stk.inner vars (pendOf lv names)) [] σ1 t' ∧
        getVar vars .counter = cnt ∧ cnt.asNum = some (q, fl) ∧ (∀ p ∈ ix, getVar vars .incr = p.2) ∧
        passes q = names.length) →
      o = .normal ∧ Exec img t'
        (At K (pc + 1 + pre.length + 5 + ((bodyPreOf lv).length + (genBlock body).length + (postOf ix).length)
          + 1 + 1) stk [] σ') := by
    intro t' ⟨vars, cnt, q, fl, ht', hcnt, hnum, hincr, hk⟩
    exact ihC body hb lv ix names σ1 σ' o t' _ stk vars cnt q fl _ ht'.2 ht'.1 hcnt hnum hk hincr hrest
      (by omega) h ho
  obtain ⟨t2, ht2⟩ : ∃ t2, (∃ vars cnt q fl,
        At K (pc + 1 + pre.length) (stk.inner vars (pendOf lv names)) [] σ1 t2 ∧
        getVar vars .counter = cnt ∧ cnt.asNum = some (q, fl) ∧ (∀ p ∈ ix, getVar vars .incr = p.2) ∧
        passes q = names.length) := by
    obtain ⟨k', hk'⟩ := hall; exact ⟨_, hk'⟩
  refine ⟨(hiter t2 ht2).1, (hall.trans fun t ht => (hiter t ht).2).mono fun t3 ht3 => ⟨?_, ht3.2⟩⟩
  rw [ht3.1]; congr 1; omega

/-- the passes of a loop that only counts -/
theorem passes_replicate (k : Nat) : (List.replicate k "").length = k := List.length_replicate

/-- `repeat n` -/
theorem loop_count (f : Nat) (ihRv : RvToGoal V img K f) (ihC : CountIter V img K f) (n : Rv) (hn : RvC V n)
    (body : Block)
    (hb : FragBlock V body) (σ σ' : S) (o : Outcome) (s : State) (pc exit : Nat) (stk : Stk)
    (sim : Sim K stk σ s) (hpc : s.pc = (pc : Int))
    (hc : CodeAt img pc (resolve (genLoop (.count n) (genBlock body)) pc exit))
    (h : execLoop (f + 1) (.count n) body σ = (o, σ')) (ho : o = .normal ∨ o = .brk) :
    o = .normal ∧
      Exec img s (At K (pc + (genLoop (.count n) (genBlock body)).length) stk [] σ') := by
  simp only [genLoop] at hc ⊢
  simp only [execLoop] at h
  split at h
  · rename_i o' he
    simp only [Prod.mk.injEq] at h
    obtain ⟨rfl, rfl⟩ := h
    exact (errorC_excluded he ho).elim
  · rename_i x σ1 he
    split at h
    · rename_i q hq
      obtain ⟨fl, hnum⟩ := numToCount_num hq
      rw [passCount_eq, ← bindsOf_none] at h
      refine loop_counted f ihC _ none none body hb _ σ σ1 σ' o s pc exit stk sim hpc hc ?_ h ho
      intro hcpre t ht
      have hcnt := rv_toLoopVar ihRv n hn .counter [] _ ht.2 ht.1 hcpre he
      exact hcnt.mono fun t' ht' => ⟨_, x, q, fl, ht', getVar_putVar [] .counter x, hnum, by simp,
        (passes_replicate _).symm⟩
    · simp only [Prod.mk.injEq] at h
      obtain ⟨rfl, rfl⟩ := h
      rcases ho with h | h <;> simp at h

/-- `repeat with v from a to b` -/
theorem loop_range (f : Nat) (ihRv : RvToGoal V img K f) (ihC : CountIter V img K f) (v : String) (a b : Rv)
    (ha : RvC V a) (hbd : RvC V b)
    (body : Block) (hb : FragBlock V body) (σ σ' : S) (o : Outcome) (s : State) (pc exit : Nat)
    (stk : Stk) (sim : Sim K stk σ s) (hpc : s.pc = (pc : Int))
    (hc : CodeAt img pc (resolve (genLoop (.range v a b) (genBlock body)) pc exit))
    (h : execLoop (f + 1) (.range v a b) body σ = (o, σ')) (ho : o = .normal ∨ o = .brk) :
    o = .normal ∧
      Exec img s (At K (pc + (genLoop (.range v a b) (genBlock body)).length) stk [] σ') := by
  simp only [genLoop] at hc ⊢
  simp only [execLoop] at h
  split at h
  · rename_i o' he
    simp only [Prod.mk.injEq] at h
    obtain ⟨rfl, rfl⟩ := h
    exact (errorC_excluded he ho).elim
  · rename_i x σ1 hea
    split at h
    · rename_i o' he
      simp only [Prod.mk.injEq] at h
      obtain ⟨rfl, rfl⟩ := h
      exact (errorC_excluded he ho).elim
    · rename_i y σ2 heb
      split at h
      · rename_i p q hp hq
        rw [passCount_eq, ← bindsOf_none] at h
        refine loop_counted f ihC _ none (some (v, if q < p then .int (-1) else .int 1)) body hb _ σ
          (σ2.assign v x) σ' o s pc exit stk sim hpc hc ?_ h ho
        intro hcpre t ht
        simp only [indexVarRange, if_true] at hcpre ⊢
        refine (rv_toLoopVar ihRv a ha .first [] _ ht.2 ht.1 hcpre.left.left.left hea).trans fun t1 ht1 => ?_
        refine (rv_toLoopVar ihRv b hbd .last _ _ ht1.2 ht1.1 hcpre.left.left.right heb).trans fun t2 ht2 => ?_
        have hfirst : getVar (putVar (putVar [] .first x) .last y) .first = x := by
          rw [getVar_putVar_other _ _ _ _ (by decide), getVar_putVar]
        have hlast : getVar (putVar (putVar [] .first x) .last y) .last = y := getVar_putVar _ _ _
        have hm := hcpre.left.right.head
        simp only [List.length_append] at hm
        refine (exec_moveLVVar .first v ht2.2 ht2.1 (idx hm)).trans fun t3 ht3 => ?_
        rw [hfirst] at ht3
        have hcc := hcpre.right
        simp only [List.length_append, List.length_cons, List.length_nil] at hcc
        refine (exec_calcCounter x y p q ht3.2 ht3.1 (cat hcc) hfirst hlast hp hq).mono
          fun t4 ⟨vars', fl, ht4, hcnt, hinc⟩ => ?_
        refine ⟨vars', _, _, fl, ⟨?_, ht4.2⟩, rfl, hcnt, ?_, (passes_replicate _).symm⟩
        · rw [ht4.1]; simp [calcCounter, testOp, incCounter]; omega
        · intro p' hp'
          simp only [Option.mem_def, Option.some.injEq] at hp'
          subst hp'
          exact hinc
      · rename_i hnn
        simp only [Prod.mk.injEq] at h
        obtain ⟨rfl, rfl⟩ := h
        rcases ho with h | h <;> simp at h

/-- the counted forms with a `with` clause: `repeat n with v from a to b`, `repeat n with v cycle [s]` -/
theorem loop_with (f : Nat) (ihRvs : RvToGoals V img K f) (ihC : CountIter V img K f) (n : Rv) (hn : RvC V n)
    (wc : WithClause)
    (hw : WithOK V wc) (body : Block) (hb : FragBlock V body) (σ σ' : S) (o : Outcome) (s : State)
    (pc exit : Nat) (stk : Stk) (sim : Sim K stk σ s) (hpc : s.pc = (pc : Int))
    (hc : CodeAt img pc (resolve (assembleLoop (genRv n (.to counter) ++ withCode wc) counterTest []
      (genBlock body) (loopPost (some (withVarOf wc)))) pc exit))
    (h : (match evalRv f n σ with
        | .error o => (o, σ)
        | .ok (cnt, s1) =>
          match numToCount cnt with
          | none => (.fault "count is not a number", s1)
          | some q =>
            match evalWith f wc cnt s1 with
            | .error o => (o, s1)
            | .ok (none, s2) => (.fault "arithmetic error", s2)
            | .ok (some i, s2) =>
              execPasses f (List.replicate (passCount q) []) (some (withVarOf wc, i)) body s2) = (o, σ'))
    (ho : o = .normal ∨ o = .brk) :
    o = .normal ∧
      Exec img s (At K (pc + (assembleLoop (genRv n (.to counter) ++ withCode wc) counterTest []
        (genBlock body) (loopPost (some (withVarOf wc)))).length) stk [] σ') := by
  split at h
  · rename_i o' he
    simp only [Prod.mk.injEq] at h
    obtain ⟨rfl, rfl⟩ := h
    exact (errorC_excluded he ho).elim
  · rename_i cnt σ1 he
    split at h
    · simp only [Prod.mk.injEq] at h
      obtain ⟨rfl, rfl⟩ := h
      rcases ho with h | h <;> simp at h
    · rename_i q hq
      obtain ⟨fl, hnum⟩ := numToCount_num hq
      split at h
      · rename_i o' hew
        simp only [Prod.mk.injEq] at h
        obtain ⟨rfl, rfl⟩ := h
        have := evalWith_error f cnt σ1 _ hew
        rcases ho with rfl | rfl <;> simp at this
      · simp only [Prod.mk.injEq] at h
        obtain ⟨rfl, rfl⟩ := h
        rcases ho with h | h <;> simp at h
      · rename_i i σ2 hew
        rw [passCount_eq, ← bindsOf_none] at h
        refine loop_counted f ihC _ none (some (withVarOf wc, i)) body hb _ σ σ2 σ' o s pc exit stk sim hpc hc
          ?_ h ho
        intro hcpre t ht
        refine (rv_toLoopVar (ihRvs f (Nat.le_refl f)) n hn .counter [] _ ht.2 ht.1 hcpre.left he).trans
          fun t1 ht1 => ?_
        refine (exec_with ihRvs wc hw cnt q fl ht1.2 ht1.1 hcpre.right (getVar_putVar [] .counter cnt) hnum hew).mono
          fun t2 ⟨vars', ht2, hc2, hi2⟩ => ?_
        refine ⟨vars', cnt, q, fl, ⟨?_, ht2.2⟩, hc2, hnum, ?_, (passes_replicate _).symm⟩
        · rw [ht2.1]; simp only [List.length_append, counter]; omega
        · intro p' hp'
          simp only [Option.mem_def, Option.some.injEq] at hp'
          subst hp'
          exact hi2

theorem withVar_eq (w : Option WithClause) : withVar w = w.map withVarOf := by
  cases w with
  | none => rfl
  | some wc => cases wc <;> rfl

theorem passes_nat (n : Nat) : passes (((n : Int)) : Rat) = n := by
  have : Loops.passes (((n : Int)) : Rat) = n := by
    have := Loops.passes_intCast (n : Int)
    simpa using this
  exact this

/-- **a loop over names**: `LOOP`, the counter set to 0, the discovery code `disc` (which pushes the
names `names` and counts them, leaving the source-level state `σd`), the `with` clause, the passes —
each starting with the next name popped into `lv` —, `END_LOOP` -/
theorem loop_names (g : Nat) (ihRvs : RvToGoals V img K g) (ihC : CountIter V img K g) (disc : List Instr)
    (lv : String)
    (w : Option WithClause) (hw : OWithOK V w) (body : Block) (hb : FragBlock V body) (names : List String)
    (σ σd σ' : S) (o : Outcome) (s : State) (pc exit : Nat) (stk : Stk)
    (sim : Sim K stk σ s) (hpc : s.pc = (pc : Int))
    (hc : CodeAt img pc (resolve (assembleLoop ([.moveq (.int 0) counter] ++ disc ++ withClause w) counterTest
      [.pop (.var lv)] (genBlock body) (loopPost (withVar w))) pc exit))
    (hdisc : ∀ (vars : List (LoopVar × Val)) (t : State) (p : Nat), Sim K (stk.inner vars []) σ t →
      t.pc = (p : Int) → CodeAt img p disc → getVar vars .counter = .int 0 →
      Exec img t (fun t' => ∃ vars', At K (p + disc.length) (stk.inner vars' (names.map .str)) [] σd t' ∧
        getVar vars' .counter = .int names.length))
    (h : iterLoop (g + 1) names lv w body σd = (o, σ')) (ho : o = .normal ∨ o = .brk) :
    o = .normal ∧ Exec img s (At K (pc + (assembleLoop ([.moveq (.int 0) counter] ++ disc ++ withClause w)
      counterTest [.pop (.var lv)] (genBlock body) (loopPost (withVar w))).length) stk [] σ') := by
  have hnum : (Val.int names.length).asNum = some (((names.length : Int) : Rat), false) := rfl
  -- the counter and the names
  have hfirst : CodeAt img (pc + 1) ([.moveq (.int 0) counter] ++ disc ++ withClause w) →
      ∀ t, At K (pc + 1) (stk.inner [] []) [] σ t →
      Exec img t (fun t' => ∃ vars', At K (pc + 1 + 1 + disc.length) (stk.inner vars' (names.map .str)) [] σd t' ∧
        getVar vars' .counter = .int names.length) := by
    intro hcpre t ht
    refine (exec_moveqLV (.int 0) .counter ht.2 ht.1 hcpre.left.left.head).trans fun t1 ht1 => ?_
    exact hdisc _ t1 _ ht1.2 ht1.1 hcpre.left.right (getVar_putVar _ _ _)
  simp only [iterLoop] at h
  cases w with
  | none =>
    simp only at h
    refine loop_counted g ihC _ (some lv) none body hb names σ σd σ' o s pc exit stk sim hpc hc ?_ h ho
    intro hcpre t ht
    refine (hfirst hcpre t ht).mono fun t' ⟨vars', ht', hcnt⟩ => ?_
    refine ⟨vars', _, _, false, ⟨?_, ht'.2⟩, hcnt, hnum, by simp, passes_nat _⟩
    rw [ht'.1]; simp [withClause]; omega
  | some wc =>
    have hwc : WithOK V wc := hw
    simp only at h
    split at h
    · rename_i o' hew
      simp only [Prod.mk.injEq] at h
      obtain ⟨rfl, rfl⟩ := h
      have := evalWith_error g _ σd _ hew
      rcases ho with rfl | rfl <;> simp at this
    · simp only [Prod.mk.injEq] at h
      obtain ⟨rfl, rfl⟩ := h
      rcases ho with h | h <;> simp at h
    · rename_i i σ2 hew
      have hpost : loopPost (withVar (some wc)) = postOf (some (withVarOf wc, i)) := by
        rw [withVar_eq]; rfl
      rw [hpost] at hc ⊢
      refine loop_counted g ihC _ (some lv) (some (withVarOf wc, i)) body hb names σ σ2 σ' o s pc exit stk sim hpc
        hc ?_ h ho
      intro hcpre t ht
      refine (hfirst hcpre t ht).trans fun t1 ⟨vars1, ht1, hcnt1⟩ => ?_
      have hcw : CodeAt img (pc + 1 + 1 + disc.length) (withCode wc) := by
        have := hcpre.right
        rw [withClause_some] at this
        exact this.cast (by simp; omega)
      refine (exec_with ihRvs wc hwc (.int names.length) _ false ht1.2 ht1.1 hcw hcnt1 hnum hew).mono
        fun t2 ⟨vars2, ht2, hc2, hi2⟩ => ?_
      refine ⟨vars2, _, _, false, ⟨?_, ht2.2⟩, hc2, hnum, ?_, passes_nat _⟩
      · rw [ht2.1]; simp [withClause_some]; omega
      · intro p' hp'
        simp only [Option.mem_def, Option.some.injEq] at hp'
        subst hp'
        exact hi2

theorem loop_step (f : Nat) (ihRvs : RvToGoals V img K f) (ihW : WhileIter V img K f) (ihC : CountIter V img K f)
    (ihC1 : ∀ g, g + 1 = f → CountIter V img K g) : LoopGoal V img K (f + 1) := by
  intro hd body hhd hb σ σ' o s pc exit stk sim hpc hc h ho
  have ihRv := ihRvs f (Nat.le_refl f)
  cases hd with
  | forever =>
    exact loop_while f ihW none trivial body hb σ σ' o s pc exit stk sim hpc hc
      (by simpa only [execLoop] using h) ho
  | while_ c =>
    exact loop_while f ihW (some c) hhd body hb σ σ' o s pc exit stk sim hpc hc
      (by simpa only [execLoop] using h) ho
  | count n => exact loop_count f ihRv ihC n hhd body hb σ σ' o s pc exit stk sim hpc hc h ho
  | range v a b => exact loop_range f ihRv ihC v a b hhd.1 hhd.2 body hb σ σ' o s pc exit stk sim hpc hc h ho
  | interp n v a b =>
    exact loop_with f ihRvs ihC n hhd.1 (.fromTo v a b) hhd.2 body hb σ σ' o s pc exit stk sim hpc hc
      (by simp only [execLoop] at h; exact h) ho
  | cycle n v start =>
    exact loop_with f ihRvs ihC n hhd.1 (.cycle v start) hhd.2 body hb σ σ' o s pc exit stk sim hpc hc
      (by simp only [execLoop] at h; exact h) ho
  | all lv w =>
    simp only [execLoop] at h
    cases f with
    | zero => simp only [iterLoop, Prod.mk.injEq] at h; rcases ho with rfl | rfl <;> simp at h
    | succ g =>
      refine loop_names g (fun g' hg' => ihRvs g' (Nat.le_succ_of_le hg')) (ihC1 g rfl) iterLights lv w hhd body hb _ σ _ σ' o s pc exit stk sim hpc hc ?_ h ho
      intro vars t p ht hp hcd hcnt
      refine (exec_iterSets (o := .light) (Or.inl rfl) (.loopVar .current) (Or.inl rfl) 0 ht hp hcd hcnt).mono
        fun t' ⟨vars', ht', hc'⟩ => ⟨vars', by simpa [namesOf, iterLights, iterSets, iterSkeleton_length] using ht',
          by simpa [namesOf] using hc'⟩
  | groups lv w =>
    simp only [execLoop] at h
    cases f with
    | zero => simp only [iterLoop, Prod.mk.injEq] at h; rcases ho with rfl | rfl <;> simp at h
    | succ g =>
      refine loop_names g (fun g' hg' => ihRvs g' (Nat.le_succ_of_le hg')) (ihC1 g rfl) (iterSets .group) lv w hhd body hb _ σ _ σ' o s pc exit stk sim hpc hc
        ?_ h ho
      intro vars t p ht hp hcd hcnt
      refine (exec_iterSets (o := .group) (Or.inr (Or.inl rfl)) (.reg .result) (Or.inr rfl) 0 ht hp hcd hcnt).mono
        fun t' ⟨vars', ht', hc'⟩ => ⟨vars', by simpa [namesOf, iterLights, iterSets, iterSkeleton_length] using ht',
          by simpa [namesOf] using hc'⟩
  | locations lv w =>
    simp only [execLoop] at h
    cases f with
    | zero => simp only [iterLoop, Prod.mk.injEq] at h; rcases ho with rfl | rfl <;> simp at h
    | succ g =>
      refine loop_names g (fun g' hg' => ihRvs g' (Nat.le_succ_of_le hg')) (ihC1 g rfl) (iterSets .location) lv w hhd body hb _ σ _ σ' o s pc exit stk sim hpc hc
        ?_ h ho
      intro vars t p ht hp hcd hcnt
      refine (exec_iterSets (o := .location) (Or.inr (Or.inr rfl)) (.reg .result) (Or.inr rfl) 0 ht hp hcd
        hcnt).mono
        fun t' ⟨vars', ht', hc'⟩ => ⟨vars', by simpa [namesOf, iterLights, iterSets, iterSkeleton_length] using ht',
          by simpa [namesOf] using hc'⟩
  | iter items lv w =>
    simp only [execLoop] at h
    split at h
    · rename_i o' he
      simp only [Prod.mk.injEq] at h
      obtain ⟨rfl, rfl⟩ := h
      have := iterNames_error items f σ _ he
      rcases ho with rfl | rfl <;> simp at this
    · rename_i names σ1 he
      cases f with
      | zero => simp [iterNames] at he
      | succ g =>
        refine loop_names g (fun g' hg' => ihRvs g' (Nat.le_succ_of_le hg')) (ihC1 g rfl) (iterItems items) lv w hhd.2 body hb names σ σ1 σ' o s pc exit stk sim
          hpc hc ?_ h ho
        intro vars t p ht hp hcd hcnt
        refine (exec_iterItems items hhd.1 (g + 1) ihRvs σ σ1 names vars [] t p 0 he ht hp hcd hcnt).mono
          fun t' ⟨vars', ht', hc'⟩ => ⟨vars', by simpa using ht', by simpa using hc'⟩

theorem stmt_repeat (f : Nat) (ihL : LoopGoal V img K f) (hd : LoopHdr) (body : Block) (hhd : LoopHdrOK V hd)
    (hb : FragBlock V body) : StmtGoal img K (.repeat_ hd body) (f + 1) := by
  intro σ σ' o s pc exit stk sim hpc hc h ho
  simp only [genStmt] at hc ⊢
  simp only [execStmt] at h
  obtain ⟨rfl, hex⟩ := ihL hd body hhd hb σ σ' o s pc exit stk sim hpc hc h ho
  exact hex


end Sim
end Bardolph
