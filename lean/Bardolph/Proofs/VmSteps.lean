import Bardolph.Model.Vm
import Bardolph.Model.Gen
/-!
Stepping lemmas for the VM model shared by the C02 and C03 theorems: code placement
(`CodeAt`), composition of `run`, one lemma per instruction used by expression code and by
the calling sequence, and extensionality of `State`.
-/
namespace Bardolph
namespace VmSteps
open Vm

/-- the instruction list `code` sits in the image at address `pc` -/
def CodeAt (img : Image) (pc : Nat) (code : List Instr) : Prop :=
  ∀ k, (h : k < code.length) → img.code[pc + k]? = some code[k]

theorem CodeAt.left {img : Image} {pc : Nat} {a b : List Instr} (h : CodeAt img pc (a ++ b)) :
    CodeAt img pc a := by
  intro k hk
  have := h k (by simp; omega)
  rw [this, List.getElem_append_left hk]

theorem CodeAt.right {img : Image} {pc : Nat} {a b : List Instr} (h : CodeAt img pc (a ++ b)) :
    CodeAt img (pc + a.length) b := by
  intro k hk
  have := h (a.length + k) (by simp; omega)
  rw [Nat.add_assoc, this, List.getElem_append_right (by omega)]
  simp

theorem CodeAt.head {img : Image} {pc : Nat} {i : Instr} {b : List Instr}
    (h : CodeAt img pc (i :: b)) : img.code[pc]? = some i := by
  have := h 0 (by simp)
  simpa using this

theorem CodeAt.tail {img : Image} {pc : Nat} {i : Instr} {b : List Instr}
    (h : CodeAt img pc (i :: b)) : CodeAt img (pc + 1) b := by
  have : CodeAt img pc ([i] ++ b) := h
  simpa using this.right

/-- code laid out as `pre ++ code ++ post` has `code` at address `pre.length` -/
theorem CodeAt.intro (pre code post : List Instr) (rts : List (String × Nat)) :
    CodeAt ⟨(pre ++ code ++ post).toArray, rts⟩ pre.length code := by
  intro k hk
  simp only [List.getElem?_toArray, List.append_assoc]
  rw [List.getElem?_append_right (by omega)]
  simp only [Nat.add_sub_cancel_left]
  rw [List.getElem?_append_left hk, List.getElem?_eq_getElem hk]

/-! ### `run` composes -/

theorem run_halted (img : Image) (n : Nat) (s : State) (h : s.status ≠ .running) :
    run img n s = s := by
  cases n with
  | zero => rfl
  | succ n => simp [run, h]

theorem run_add (img : Image) (a b : Nat) (s : State) :
    run img (a + b) s = run img b (run img a s) := by
  induction a generalizing s with
  | zero => simp [run]
  | succ a ih =>
    rw [Nat.add_right_comm]
    by_cases h : s.status = .running
    · simp [run, h, ih]
    · simp [run, h, run_halted img b s h]

theorem run_succ (img : Image) (n : Nat) (s : State) (h : s.status = .running) :
    run img (n + 1) s = run img n (step img s) := by
  simp [run, h]

theorem run_one (img : Image) (s : State) (h : s.status = .running) :
    run img 1 s = step img s := by
  simp [run, h]

/-! ### extensionality -/

theorem State.ext' {a b : State}
    (h1 : a.pc = b.pc) (h2 : a.regs = b.regs) (h3 : a.defaultColor = b.defaultColor)
    (h4 : a.matrix = b.matrix) (h5 : a.stack = b.stack) (h6 : a.globals = b.globals)
    (h7 : a.constants = b.constants) (h8 : a.eval = b.eval) (h9 : a.unnamed = b.unnamed)
    (h10 : a.lights = b.lights) (h11 : a.trace = b.trace) (h12 : a.status = b.status)
    (h13 : a.draws = b.draws) : a = b := by
  cases a; cases b; simp_all

/-! ### one step -/

/-- a step at an ordinary instruction (neither `STOP` nor one that sets `pc` itself) whose
handler leaves the machine running: the handler's result with `pc` advanced -/
theorem step_plain (img : Image) (s : State) (pc : Nat) (i : Instr)
    (hs : s.status = .running) (hpc : s.pc = (pc : Int)) (hi : img.code[pc]? = some i)
    (hstop : i ≠ .stop)
    (hplain : (match i with | .end_ _ | .endMatrix | .jsr _ | .jump _ _ => false | _ => true) = true)
    (hrun : (execInstr img s i).status = .running) :
    step img s = { execInstr img s i with pc := (execInstr img s i).pc + 1 } := by
  unfold step
  have h0 : ¬ (s.pc < 0) := by omega
  have h1 : s.pc.toNat = pc := by omega
  rw [if_neg (by simp [hs]), if_neg h0, h1, hi]
  cases i <;> first | exact absurd rfl hstop | simp_all

/-- a step at an ordinary instruction: the handler's result, with `pc` advanced if the machine
is still running -/
theorem step_plain_gen (img : Image) (s : State) (pc : Nat) (i : Instr)
    (hs : s.status = .running) (hpc : s.pc = (pc : Int)) (hi : img.code[pc]? = some i)
    (hstop : i ≠ .stop)
    (hplain : (match i with | .end_ _ | .endMatrix | .jsr _ | .jump _ _ => false | _ => true) = true) :
    step img s = if (execInstr img s i).status = .running
      then { execInstr img s i with pc := (execInstr img s i).pc + 1 } else execInstr img s i := by
  unfold step
  have h0 : ¬ (s.pc < 0) := by omega
  have h1 : s.pc.toNat = pc := by omega
  rw [if_neg (by simp [hs]), if_neg h0, h1, hi]
  by_cases hr : (execInstr img s i).status = .running
  · rw [if_pos hr]; cases i <;> first | exact absurd rfl hstop | simp_all
  · rw [if_neg hr]; cases i <;> first | exact absurd rfl hstop | simp_all

theorem step_pushq (img : Image) (s : State) (pc : Nat) (v : Val)
    (hs : s.status = .running) (hpc : s.pc = (pc : Int))
    (hi : img.code[pc]? = some (.pushq v)) :
    step img s = { s with pc := (pc : Int) + 1, eval := v :: s.eval } := by
  rw [step_plain img s pc _ hs hpc hi (by simp) rfl]
  · simp [execInstr, hpc]
  · simp [execInstr, hs]

theorem step_push (img : Image) (s : State) (pc : Nat) (src : Src) (v : Val)
    (hs : s.status = .running) (hpc : s.pc = (pc : Int))
    (hi : img.code[pc]? = some (.push src)) (hsrc : ∀ x, src ≠ .lit x)
    (hv : s.read src = v) (hne : v = .none → False) :
    step img s = { s with pc := (pc : Int) + 1, eval := v :: s.eval } := by
  have hex : execInstr img s (.push src) = { s with eval := v :: s.eval } := by
    cases src with
    | lit x => exact absurd rfl (hsrc x)
    | _ =>
      -- the default arm of the `match` on the value read is selected by `hne`
      simp only [execInstr, hv]
  rw [step_plain img s pc _ hs hpc hi (by simp) rfl]
  · simp [hex, hpc]
  · simp [hex, hs]

theorem step_op (img : Image) (s : State) (pc : Nat) (o : Operator) (s' : State)
    (hs : s.status = .running) (hpc : s.pc = (pc : Int))
    (hi : img.code[pc]? = some (.op o)) (hd : s.doOp o = s') (hr : s'.status = .running) :
    step img s = { s' with pc := s'.pc + 1 } := by
  rw [step_plain img s pc _ hs hpc hi (by simp) rfl]
  · simp [execInstr, hd]
  · simp [execInstr, hd, hr]


theorem putVariable_eval (s : State) (n : String) (v : Val) : (s.putVariable n v).eval = s.eval := by
  unfold State.putVariable
  repeat' split
  all_goals rfl

theorem put_eval (s : State) (d : Dst) (v : Val) : (s.put d v).eval = s.eval := by
  cases d with
  | reg r => rfl
  | var n => exact putVariable_eval s n v
  | loopVar l =>
    simp only [State.put, State.putLoopVar]
    split <;> rfl

theorem step_pop (img : Image) (s : State) (pc : Nat) (d : Dst) (v : Val) (rest : List Val)
    (hs : s.status = .running) (hpc : s.pc = (pc : Int))
    (hi : img.code[pc]? = some (.pop d)) (hev : s.eval = v :: rest) :
    step img s =
      if (({ s with eval := rest }).put d v).status = .running
      then { ({ s with eval := rest }).put d v with pc := (({ s with eval := rest }).put d v).pc + 1 }
      else ({ s with eval := rest }).put d v := by
  rw [step_plain_gen img s pc _ hs hpc hi (by simp) rfl]
  simp [execInstr, hev]


end VmSteps
end Bardolph
