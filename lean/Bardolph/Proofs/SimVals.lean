import Bardolph.Proofs.SimCalls
/-!
Value positions with calls, for the simulation theorem C01 (statements of the goals:
`Proofs/SimX.lean`): expressions (`expr_step`), value positions delivered in `result` (`rv_step`),
the arguments of a call (`args_step`), and the call itself — of a routine of the script or of a
built-in function — with its value in `result` (`call_step`).
-/
namespace Bardolph
namespace Sim
open Vm VmSteps Sem Gen

variable {V : String → Prop}
variable {img : Image} {K : Ctx} {stk : Stk} {ops : List Val} {pends : List Dict} {σ : S} {s : State}
  {pc : Nat}

/-- a value pushed during the evaluation of an expression -/
theorem SimX.pushed (h : SimX K stk ops pends σ s) (v : Val) (p : Int) :
    SimX K stk (v :: ops) pends σ { s with pc := p, eval := v :: s.eval } := by
  have := h.setEval (v :: ops) p
  rw [h.eval]
  exact this

/-! ## expressions -/

theorem expr_step (f : Nat) (ihE : ExprGoal V img K f) (ihC : CallGoal V img K f) :
    ExprGoal V img K (f + 1) := by
  intro e he σ σ' x s pc stk ops pends h hpc hc hev
  cases e with
  | lit v =>
    simp only [evalExpr, Except.ok.injEq, Prod.mk.injEq] at hev
    obtain ⟨rfl, rfl⟩ := hev
    simp only [genExpr, pushLit] at hc ⊢
    apply Exec.step h.running
    apply Exec.done
    rw [step_pushq img s pc _ h.running hpc hc.head]
    exact ⟨by simp, h.pushed _ _⟩
  | var n =>
    simp only [evalExpr] at hev
    simp only [genExpr] at hc ⊢
    split at hev
    · simp at hev
    · rename_i hne
      simp only [Except.ok.injEq, Prod.mk.injEq] at hev
      obtain ⟨rfl, rfl⟩ := hev
      apply Exec.step h.running
      apply Exec.done
      rw [step_push img s pc (.var n) (σ.lookup n) h.running hpc hc.head (by simp)
        (by simp only [State.read]; exact (h.lookup n).symm) (fun e => hne e)]
      exact ⟨by simp, h.pushed _ _⟩
  | reg r =>
    have hr : r ≠ .result := he
    simp only [evalExpr] at hev
    simp only [genExpr] at hc ⊢
    split at hev
    · simp at hev
    · rename_i hne
      simp only [Except.ok.injEq, Prod.mk.injEq] at hev
      obtain ⟨rfl, rfl⟩ := hev
      apply Exec.step h.running
      apply Exec.done
      rw [step_push img s pc (.reg r) (σ.vm.regs r) h.running hpc hc.head (by simp)
        (by simp only [State.read]; exact (h.regs r hr).symm) (fun e => hne e)]
      exact ⟨by simp, h.pushed _ _⟩
  | paren e =>
    simp only [evalExpr] at hev
    simp only [genExpr] at hc ⊢
    exact ihE e he σ σ' x s pc stk ops pends h hpc hc hev
  | un minus e =>
    have he' : ExprC V e := he
    simp only [evalExpr] at hev
    simp only [genExpr] at hc ⊢
    split at hev
    · rename_i v σ1 hev1
      refine (ihE e he' σ σ1 v s pc stk ops pends h hpc hc.left hev1).trans fun t1 ht1 => ?_
      cases minus with
      | false =>
        simp only [Bool.false_eq_true, if_false, Except.ok.injEq, Prod.mk.injEq] at hev
        obtain ⟨rfl, rfl⟩ := hev
        exact Exec.done ⟨by simpa using ht1.1, ht1.2⟩
      | true =>
        simp only [if_true] at hev hc ⊢
        split at hev
        · rename_i r hr
          simp only [Except.ok.injEq, Prod.mk.injEq] at hev
          obtain ⟨rfl, rfl⟩ := hev
          have hc2 := hc.right
          refine Exec.next ht1.2.running (step_pushq img t1 _ _ ht1.2.running ht1.1 hc2.head) ?_
          refine Exec.next (by exact ht1.2.running)
            (step_binop img _ (pc + (genExpr e).length + 1) .mul v (.int (-1)) r (ops ++ stk.ev)
              (by exact ht1.2.running) (by simp) hc2.tail.head (by simp [ht1.2.eval])
              (by simpa [binVal] using hr)) ?_
          apply Exec.done
          refine ⟨by simp [List.length_append]; omega, ?_⟩
          have := ht1.2.setEval (r :: ops) (((pc + (genExpr e).length + 1 : Nat) : Int) + 1)
          exact this
        · simp at hev
    · simp at hev
  | bin op a b =>
    have ha' : ExprC V a := he.1
    have hb' : ExprC V b := he.2
    obtain ⟨x1, σ1, y, ha, hb, hv⟩ := evalExpr_bin_ok f op a b σ σ' x hev
    simp only [genExpr] at hc ⊢
    refine (ihE a ha' σ σ1 x1 s pc stk ops pends h hpc hc.left.left ha).trans fun t1 ht1 => ?_
    refine (ihE b hb' σ1 σ' y t1 _ stk (x1 :: ops) pends ht1.2 ht1.1 hc.left.right hb).trans fun t2 ht2 => ?_
    have hop := hc.right.head
    simp only [List.length_append] at hop
    refine Exec.next ht2.2.running
      (step_binop img t2 (pc + (genExpr a).length + (genExpr b).length) op x1 y x (ops ++ stk.ev)
        ht2.2.running ht2.1 (idx hop) (by simp [ht2.2.eval]) hv) ?_
    apply Exec.done
    refine ⟨by simp [List.length_append]; omega, ?_⟩
    exact ht2.2.setEval (x :: ops) _
  | call g ps as =>
    obtain ⟨hV, hnd, has⟩ : V g ∧ ps.Nodup ∧ ArgsC V as := he
    simp only [evalExpr] at hev
    simp only [genExpr] at hc ⊢
    split at hev
    · rename_i v σ1 hcall
      have hne : v = .none → False := by
        intro e; subst e; simp at hev
      have hx : x = v ∧ σ' = σ1 := by
        cases v <;> simp_all
      obtain ⟨rfl, rfl⟩ := hx
      refine (ihC g ps as hnd has σ σ' x s pc stk ops pends h hpc hc.left hcall).trans
        fun t1 ⟨hpc1, ht1, hres⟩ => ?_
      apply Exec.step ht1.running
      apply Exec.done
      rw [step_push img t1 _ (.reg .result) x ht1.running hpc1 hc.right.head (by simp)
        (by simp only [State.read]; exact hres hV) hne]
      exact ⟨by simp [List.length_append]; omega, ht1.pushed _ _⟩
    · simp at hev

/-! ## value positions -/

theorem rv_step (f : Nat) (ihE : ExprGoal V img K f) (ihC : CallGoal V img K f) :
    RvGoal V img K (f + 1) := by
  intro v hv σ σ' x s pc stk ops pends h hpc hc hev
  cases v with
  | lit c =>
    simp only [evalRv, Except.ok.injEq, Prod.mk.injEq] at hev
    obtain ⟨rfl, rfl⟩ := hev
    simp only [genRv] at hc ⊢
    apply Exec.step h.running
    apply Exec.done
    rw [step_moveq_result img s pc _ h.running hpc hc.head]
    exact ⟨by simp, h.setResult _ _, by simp⟩
  | var n =>
    simp only [evalRv, Except.ok.injEq, Prod.mk.injEq] at hev
    obtain ⟨rfl, rfl⟩ := hev
    simp only [genRv] at hc ⊢
    apply Exec.step h.running
    apply Exec.done
    rw [step_move_result img s pc (.var n) h.running hpc hc.head]
    refine ⟨by simp, h.setResult _ _, ?_⟩
    simp only [State.read, if_true]
    exact (h.lookup n).symm
  | reg r =>
    have hr : r ≠ .result := hv
    simp only [evalRv, Except.ok.injEq, Prod.mk.injEq] at hev
    obtain ⟨rfl, rfl⟩ := hev
    have hd : ¬ (Gen.result = Dst.reg r) := by
      simp only [Gen.result, Dst.reg.injEq]; exact fun e => hr e.symm
    simp only [genRv, if_neg hd] at hc ⊢
    apply Exec.step h.running
    apply Exec.done
    rw [step_move_result img s pc (.reg r) h.running hpc hc.head]
    refine ⟨by simp, h.setResult _ _, ?_⟩
    simp only [State.read, if_true]
    exact (h.regs r hr).symm
  | expr e =>
    have he : ExprC V e := hv
    simp only [evalRv] at hev
    simp only [genRv] at hc ⊢
    refine (ihE e he σ σ' x s pc stk ops pends h hpc hc.left hev).trans fun t1 ht1 => ?_
    apply Exec.step ht1.2.running
    apply Exec.done
    rw [step_popResult img t1 _ x (ops ++ stk.ev) ht1.2.running ht1.1 hc.right.head (by simp [ht1.2.eval])]
    refine ⟨by simp [List.length_append]; omega, ?_, by simp⟩
    have := (ht1.2.setEval ops (((pc + (genExpr e).length : Nat) : Int) + 1)).setResult x
      (((pc + (genExpr e).length : Nat) : Int) + 1)
    exact this
  | call g ps as =>
    obtain ⟨hV, hnd, has⟩ : V g ∧ ps.Nodup ∧ ArgsC V as := hv
    simp only [evalRv] at hev
    simp only [genRv, if_true, List.append_nil] at hc ⊢
    exact (ihC g ps as hnd has σ σ' x s pc stk ops pends h hpc hc hev).mono
      fun t ⟨h1, h2, h3⟩ => ⟨h1, h2, h3 hV⟩

/-! ## the arguments of a call -/

theorem put_fresh (d0 : Dict) (p : String) (v : Val) (h : d0.any (·.1 == p) = false) :
    d0.put p v = d0 ++ [(p, v)] := by
  simp [Dict.put, h]

theorem args_step (f : Nat) (ihR : RvGoal V img K f) (ihA : ArgsGoal V img K f) :
    ArgsGoal V img K (f + 1) := by
  intro ps as hnd has σ σ' d s pc stk ops d0 pends h hpc hc hfresh hev
  have hdone : ∀ (_ : evalArgs (f + 1) ps as σ = .ok ([], σ)) (_ : genParams ps as = []),
      (d, σ') = ([], σ) → Exec img s (fun t => t.pc = ((pc + (genParams ps as).length : Nat) : Int) ∧
        SimX K stk ops ((d0 ++ d) :: pends) σ' t) := by
    intro _ hg he
    simp only [Prod.mk.injEq] at he
    obtain ⟨rfl, rfl⟩ := he
    rw [hg]
    exact Exec.done ⟨by simpa using hpc, by simpa using h⟩
  cases ps with
  | nil =>
    have e1 : evalArgs (f + 1) [] as σ = .ok ([], σ) := by cases as <;> simp [evalArgs]
    have e2 : genParams [] as = [] := by cases as <;> simp [genParams]
    rw [e1] at hev
    exact hdone e1 e2 (by simpa using hev.symm)
  | cons p ps =>
    cases as with
    | nil =>
      have e1 : evalArgs (f + 1) (p :: ps) .nil σ = .ok ([], σ) := by simp [evalArgs]
      have e2 : genParams (p :: ps) .nil = [] := by simp [genParams]
      rw [e1] at hev
      exact hdone e1 e2 (by simpa using hev.symm)
    | cons a rest =>
      obtain ⟨ha, hrest⟩ : RvC V a ∧ ArgsC V rest := has
      have hnd' := List.nodup_cons.1 hnd
      simp only [evalArgs] at hev
      simp only [genParams] at hc ⊢
      split at hev
      · simp at hev
      · rename_i v σ1 hev1
        split at hev
        · simp at hev
        · rename_i d' σ2 hev2
          simp only [Except.ok.injEq, Prod.mk.injEq] at hev
          obtain ⟨rfl, rfl⟩ := hev
          refine (ihR a ha σ σ1 v s pc stk ops (d0 :: pends) h hpc hc.left.left hev1).trans
            fun t1 ⟨hpc1, ht1, hres⟩ => ?_
          have hp : d0.any (·.1 == p) = false := hfresh p (by simp)
          have hparam := hc.left.right.head
          have hstep : step img t1 =
              { t1 with pc := ((pc + (genRv a (.to result)).length : Nat) : Int) + 1,
                        stack := ((d0 ++ [(p, v)]) :: pends).map Frame.pending ++
                          (stk.frames ++ baseOf K σ1.locals) } := by
            rw [step_param img t1 _ p (.reg .result) d0 (pends.map Frame.pending ++ (stk.frames ++ baseOf K σ1.locals))
              ht1.running hpc1 (by rw [ht1.stack]; rfl) hparam]
            simp only [State.read, hres, put_fresh d0 p v hp]
            rfl
          refine Exec.next ht1.running hstep ?_
          have ht2 := ht1.setPends ((d0 ++ [(p, v)]) :: pends)
            (((pc + (genRv a (.to result)).length : Nat) : Int) + 1)
          have hcr := hc.right
          simp only [List.length_append, List.length_cons, List.length_nil] at hcr
          have hfresh' : ∀ p' ∈ ps, (d0 ++ [(p, v)]).any (·.1 == p') = false := by
            intro p' hp'
            have hne : p ≠ p' := fun e => hnd'.1 (e ▸ hp')
            have := hfresh p' (by simp [hp'])
            simp [List.any_append, this, hne]
          refine (ihA ps rest hnd'.2 hrest σ1 σ2 d' _ (pc + ((genRv a (.to result)).length + 1)) stk ops
            (d0 ++ [(p, v)]) pends ht2 (by simp; omega) hcr hfresh' hev2).mono fun t3 ht3 => ?_
          refine ⟨?_, ?_⟩
          · rw [ht3.1]; simp only [List.length_append, List.length_cons, List.length_nil]; congr 1; omega
          · have e : d0 ++ (p, v) :: d' = (d0 ++ [(p, v)]) ++ d' := by simp
            rw [e]; exact ht3.2

/-! ## the call -/

/-- at the routine's entry: the relation in the callee's context, built from the caller's -/
theorem SimX.callee {σ1 : S} {t : State} {args : Dict} (h : SimX K stk ops (args :: pends) σ1 t)
    (addr ret : Nat) :
    Sim ⟨some (ret, pends.map Frame.pending ++ (stk.frames ++ baseOf K σ1.locals), ops ++ stk.ev), K.routines⟩
      ⟨[], ops ++ stk.ev⟩ { σ1 with locals := some args, result := .none }
      { t with pc := (addr : Int),
               stack := .call args ret :: (pends.map Frame.pending ++ (stk.frames ++ baseOf K σ1.locals)) } :=
  ⟨h.sim.running, by simp [baseOf], LoopsOnly.nil, h.eval, EvOk.nil, h.sim.unnamed, ⟨rfl, h.sim.locals.2⟩,
    h.sim.status, h.sim.umode, h.sim.globals, h.sim.constants, h.sim.lights, h.sim.trace, h.sim.defaultColor,
    h.sim.matrix, h.sim.draws, h.sim.regs⟩

theorem call_step (f : Nat) (hR : RoutinesAt V img K.routines) (ihA : ArgsGoal V img K f)
    (ihB : ∀ r st, BlockGoal V img ⟨some (r, st), K.routines⟩ f)
    (ihBR : ∀ r st, BlockRet V img ⟨some (r, st), K.routines⟩ f) : CallGoal V img K (f + 1) := by
  intro g ps as hnd has σ σ' v s pc stk ops pends h hpc hc hev
  have hlen : (genCall g ps as).length = (genParams ps as).length + 3 := genCall_length g ps as
  simp only [genCall] at hc
  have hctx : img.code[pc]? = some .ctx := hc.left.left.head
  have hpar : CodeAt img (pc + 1) (genParams ps as) := by
    have := hc.left.right
    simpa using this
  have hjsr : img.code[pc + 1 + (genParams ps as).length]? = some (.jsr g) := by
    have := hc.right.head
    simp only [List.length_append, List.length_cons, List.length_nil] at this
    rw [← this]; congr 1; omega
  have hend : img.code[pc + 1 + (genParams ps as).length + 1]? = some .endCtx := by
    have := hc.right.tail.head
    simp only [List.length_append, List.length_cons, List.length_nil] at this
    rw [← this]; congr 1; omega
  simp only [callRoutine] at hev
  split at hev
  · simp at hev
  · rename_i args σ1 hargs
    -- CTX
    have hstep0 : step img s =
        { s with pc := (pc : Int) + 1,
                 stack := (([] : Dict) :: pends).map Frame.pending ++ (stk.frames ++ baseOf K σ.locals) } := by
      rw [step_ctx img s pc h.running hpc hctx, h.stack]; rfl
    refine Exec.next h.running hstep0 ?_
    have h0 := h.setPends ([] :: pends) ((pc : Int) + 1)
    -- the arguments
    refine (ihA ps as hnd has σ σ1 args _ (pc + 1) stk ops [] pends h0 (by simp) hpar (by simp) hargs).trans
      fun t1 ⟨hpc1, ht1⟩ => ?_
    rw [List.nil_append] at ht1
    have hrt : σ1.routines = K.routines := ht1.sim.locals.2
    have hRg := hR g
    rw [← hrt] at hRg
    have hst1 : t1.stack = .pending args :: (pends.map Frame.pending ++ (stk.frames ++ baseOf K σ1.locals)) := by
      rw [ht1.stack]; rfl
    split at hev
    · -- a routine of the script
      rename_i n' rt hfind
      rw [hfind] at hRg
      obtain ⟨hfrag, hends, addr, nm, haddr, hbody⟩ := hRg
      have hcb : CodeAt img addr (resolve (genBlock rt.body) addr (0 : Nat)) := hbody.left
      have hce : img.code[addr + (genBlock rt.body).length]? = some (.end_ nm) := by
        have := hbody.right.head
        rwa [resolve_length] at this
      refine Exec.next ht1.running (step_jsr img t1 _ g addr args _ ht1.running hpc1 hst1 haddr hjsr) ?_
      have hsc := ht1.callee addr (pc + 1 + (genParams ps as).length + 1)
      -- back in the caller
      have hback : ∀ (s2 : S) (t : State), t.pc = ((pc + (genCall g ps as).length : Nat) : Int) →
          t.stack = pends.map Frame.pending ++ (stk.frames ++ baseOf K σ1.locals) →
          t.status = .running → t.eval = ops ++ stk.ev → t.unnamed = [] → s2.routines = K.routines →
          s2.vm.status = .running → RegsOk s2.vm.regs → s2.vm.globals = t.globals →
          s2.vm.constants = t.constants → s2.vm.lights = t.lights → s2.vm.trace = t.trace →
          s2.vm.defaultColor = t.defaultColor → s2.vm.matrix = t.matrix → s2.vm.draws = t.draws →
          (∀ r, r ≠ .result → s2.vm.regs r = t.regs r) →
          SimX K stk ops pends { s2 with locals := σ1.locals, result := .none } t := by
        intro s2 t _ hstk hrun hevl hun hrts hstat hro hg hcn hl htr hdc hm hdr hrg
        exact ⟨hevl, hstk, hrun, rfl, ht1.sim.loops, rfl, ht1.sim.evok, hun, ⟨ht1.sim.locals.1, hrts⟩, hstat, hro,
          hg, hcn, hl, htr, hdc, hm, hdr, hrg⟩
      split at hev
      · -- the body runs to its end
        rename_i s2 hex
        simp only [Except.ok.injEq, Prod.mk.injEq] at hev
        obtain ⟨rfl, rfl⟩ := hev
        refine ((ihB _ _) rt.body hfrag _ s2 .normal _ addr 0 ⟨[], ops ++ stk.ev⟩ hsc rfl hcb hex
          (Or.inl rfl)).trans fun t2 ht2 => ?_
        simp only [Target] at ht2
        refine (exec_end ht2.2 ht2.1 nm hce _ _ _ rfl).trans fun t3 ht3 => ?_
        obtain ⟨h1, h2, h3, h4, h5, h6, h7, hum, h8, h9, h10, h11, h12, h13, h14, h15⟩ := ht3
        apply Exec.step h3
        apply Exec.done
        rw [step_eq _ t3 h3 h1 hend rfl (by simp only [execInstr]) h3]
        refine ⟨?_, hback s2 _ ?_ h2 h3 h4 h5 h6 h7 hum h8 h9 h10 h11 h12 h13 h14 h15, ?_⟩
        · show t3.pc + 1 = _
          rw [h1, hlen]; simp; omega
        · show t3.pc + 1 = _
          rw [h1, hlen]; simp; omega
        · intro hV
          exact absurd hex (EndsRet.not_normal f rt.body (hends hV) _ _)
      · -- the body returns
        rename_i s2 hex
        simp only [Except.ok.injEq, Prod.mk.injEq] at hev
        obtain ⟨rfl, rfl⟩ := hev
        refine ((ihBR _ _) rt.body hfrag _ s2 _ addr 0 ⟨[], ops ++ stk.ev⟩ hsc rfl hcb hex).mono
          fun t2 ht2 => ?_
        obtain ⟨r', rest', evc', hK', hpc', hst'⟩ := ht2.ctx
        simp only [Option.some.injEq, Prod.mk.injEq] at hK'
        obtain ⟨rfl, rfl, rfl⟩ := hK'
        have hpc2 : t2.pc = ((pc + (genCall g ps as).length : Nat) : Int) := by
          rw [hpc', hlen]; simp; omega
        refine ⟨hpc2, hback s2 t2 hpc2 hst' ht2.running ht2.eval ht2.unnamed ht2.routines ht2.status ht2.umode
          ht2.globals ht2.constants ht2.lights ht2.trace ht2.defaultColor ht2.matrix ht2.draws ht2.regs, ?_⟩
        intro _
        exact ht2.result
      · simp at hev
      · simp at hev
    · -- a built-in function
      rename_i hfind
      rw [hfind] at hRg
      split at hev
      · rename_i names hbp
        split at hev
        · rename_i v' hval
          simp only [Except.ok.injEq, Prod.mk.injEq] at hev
          obtain ⟨rfl, rfl⟩ := hev
          have hdr : σ1.vm.draws = t1.draws := ht1.sim.draws
          refine Exec.next ht1.running
            (step_jsr_builtin img t1 _ g args _ names v' ht1.running hpc1 hst1 hRg hbp
              (by rw [← hdr]; exact hval) hjsr) ?_
          refine Exec.next (by exact ht1.running)
            (step_eq (pc := pc + 1 + (genParams ps as).length + 1) _ _ (by exact ht1.running) (by simp) hend rfl
              rfl (by exact ht1.running)) ?_
          apply Exec.done
          refine ⟨?_, ⟨ht1.eval, rfl, ?_⟩, fun _ => by simp [execInstr]⟩
          · show ((pc + 1 + (genParams ps as).length : Nat) : Int) + 1 + 1 = _
            rw [hlen]; simp; omega
          · have hs := ht1.sim
            refine ⟨hs.running, rfl, hs.loops, rfl, hs.evok, hs.unnamed, hs.locals, ?_, ?_, ?_, ?_, ?_, ?_,
              ?_, ?_, ?_, ?_⟩
            all_goals (by_cases hr : (g == "random") = true)
            all_goals try simp only [hr, if_true, Bool.false_eq_true, if_false]
            all_goals first
              | exact hs.status | exact hs.umode | exact hs.globals | exact hs.constants | exact hs.lights
              | exact hs.trace | exact hs.defaultColor | exact hs.matrix | exact hs.draws
              | (show σ1.vm.draws + 1 = t1.draws + 1; rw [hdr])
              | (intro r hr'; show σ1.vm.regs r = (if r = Reg.result then v' else t1.regs r)
                 simp only [if_neg hr']; exact hs.regs r hr')
        · simp at hev
        · simp at hev
      · simp at hev


/-! ## value positions at statement level -/

theorem SimX.to_sim_eval {x : Val} (h : SimX K stk [x] [] σ s) : Sim K stk σ { s with eval := stk.ev } := by
  have e : ({ s with eval := stk.ev, stack := stk.frames ++ baseOf K σ.locals } : State) =
      { s with eval := stk.ev } := by
    apply State.ext' <;> first | rfl | exact h.stack.symm
  have := h.sim
  rw [e] at this
  exact this

theorem rvTo_zero : RvToGoal V img K 0 := by
  intro v _ d _ σ σ' x s pc stk _ _ _ hev
  simp [evalRv] at hev

theorem rvTo_step (f : Nat) (ihE : ExprGoal V img K f) (ihC : CallGoal V img K f) :
    RvToGoal V img K (f + 1) := by
  intro v hv d hd σ σ' x s pc stk h hpc hc hev hput
  have hpure : RvOK v → Exec img s (fun t => ∃ s0, Sim K stk σ' s0 ∧
      t = { s0.put d x with pc := ((pc + (genRv v (.to d)).length : Nat) : Int) }) := by
    intro hp
    have hσ : σ' = σ := by
      cases v with
      | lit _ => simp only [evalRv, Except.ok.injEq, Prod.mk.injEq] at hev; exact hev.2.symm
      | var _ => simp only [evalRv, Except.ok.injEq, Prod.mk.injEq] at hev; exact hev.2.symm
      | reg _ => simp only [evalRv, Except.ok.injEq, Prod.mk.injEq] at hev; exact hev.2.symm
      | expr e =>
        simp only [evalRv] at hev
        exact (evalExpr_congr (show Pure e from hp) f σ σ' σ x ⟨fun _ => rfl, fun _ _ => rfl⟩ hev).1
      | call _ _ _ => exact absurd hp (by simp [RvOK])
    subst hσ
    obtain ⟨_, hrun⟩ := run_genRv v hp d hd h hpc hc hev (hput s h)
    exact Exec.of_run _ hrun ⟨s, h, by simp⟩
  cases v with
  | lit c => exact hpure trivial
  | var n => exact hpure trivial
  | reg r => exact hpure hv
  | expr e =>
    have he : ExprC V e := hv
    simp only [evalRv] at hev
    simp only [genRv] at hc ⊢
    refine (ihE e he σ σ' x s pc stk [] [] (SimX.of_sim h) hpc hc.left hev).trans fun t1 ht1 => ?_
    have hs0 := ht1.2.to_sim_eval
    have hev1 : t1.eval = x :: stk.ev := by rw [ht1.2.eval]; rfl
    apply Exec.step ht1.2.running
    apply Exec.done
    rw [step_pop img t1 _ d x stk.ev ht1.2.running ht1.1 hc.right.head hev1, if_pos (hput _ hs0)]
    refine ⟨_, hs0, ?_⟩
    rw [put_pc]
    apply State.ext' <;> first | rfl | (simp [List.length_append, ht1.1]; omega)
  | call g ps as =>
    obtain ⟨hV, hnd, has⟩ : V g ∧ ps.Nodup ∧ ArgsC V as := hv
    simp only [evalRv] at hev
    simp only [genRv] at hc ⊢
    by_cases hdr : d = Gen.result
    · subst hdr
      simp only [if_true, List.append_nil] at hc ⊢
      refine (ihC g ps as hnd has σ σ' x s pc stk [] [] (SimX.of_sim h) hpc hc hev).mono
        fun t1 ⟨hpc1, ht1, hres⟩ => ?_
      refine ⟨t1, ht1.to_sim, ?_⟩
      apply State.ext' <;> first | rfl | (simp [hpc1]) | skip
      funext r
      by_cases hr : r = .result
      · subst hr; simp [Gen.result, State.put, State.setReg, hres hV]
      · simp [Gen.result, State.put, State.setReg, hr]
    · simp only [if_neg hdr] at hc ⊢
      refine (ihC g ps as hnd has σ σ' x s pc stk [] [] (SimX.of_sim h) hpc hc.left hev).trans
        fun t1 ⟨hpc1, ht1, hres⟩ => ?_
      have hs0 := ht1.to_sim
      apply Exec.step ht1.running
      apply Exec.done
      have hex : execInstr img t1 (.move (.reg .result) d) = t1.put d x := by
        simp only [execInstr, State.read, hres hV]
      rw [step_eq _ _ ht1.running hpc1 hc.right.head rfl hex (hput _ hs0)]
      refine ⟨t1, hs0, ?_⟩
      rw [put_pc]
      apply State.ext' <;> first | rfl | (simp [List.length_append, hpc1]; omega)


/-! ## without fuel nothing is evaluated -/

theorem expr_zero : ExprGoal V img K 0 := by
  intro e _ σ σ' x s pc stk ops pends _ _ _ hev
  simp [evalExpr] at hev

theorem call_zero : CallGoal V img K 0 := by
  intro g ps as _ _ σ σ' v s pc stk ops pends _ _ _ hev
  simp [callRoutine] at hev

theorem rv_zero : RvGoal V img K 0 := by
  intro v _ σ σ' x s pc stk ops pends _ _ _ hev
  simp [evalRv] at hev

theorem args_zero : ArgsGoal V img K 0 := by
  intro ps as _ _ σ σ' d s pc stk ops d0 pends _ _ _ _ hev
  simp [evalArgs] at hev


end Sim
end Bardolph
