import Bardolph.Proofs.SimLoops
/-!
Routine calls and `return` for the simulation theorem C01: the outcome `ret` reaches out of
blocks, `if`, operands and loops back to the caller (`RetPost`); a call of a user routine with
simple arguments runs the calling sequence (`C03_call_sequence`), the body in the callee's
context, and resumes after the call; built-in functions called as statements.
-/
namespace Bardolph
namespace Sim
open Vm VmSteps Sem Gen

variable {V : String → Prop}
variable {img : Image} {K : Ctx}

/-! ## `return` -/

/-- after `return`: control is back in the caller (one past the recorded return address), the
callee's call frame and loop frames are gone, everything else is as the source says -/
structure RetPost (K : Ctx) (σ' : S) (t : State) : Prop where
  ctx : ∃ ret rest evc, K.ret = some (ret, rest, evc) ∧ t.pc = ((ret + 1 : Nat) : Int) ∧ t.stack = rest
  running : t.status = .running
  eval : t.eval = K.base
  unnamed : t.unnamed = []
  routines : σ'.routines = K.routines
  status : σ'.vm.status = .running
  umode : RegsOk σ'.vm.regs
  globals : σ'.vm.globals = t.globals
  constants : σ'.vm.constants = t.constants
  lights : σ'.vm.lights = t.lights
  trace : σ'.vm.trace = t.trace
  defaultColor : σ'.vm.defaultColor = t.defaultColor
  matrix : σ'.vm.matrix = t.matrix
  draws : σ'.vm.draws = t.draws
  regs : ∀ r, r ≠ .result → σ'.vm.regs r = t.regs r
  /-- the value returned is in `result` -/
  result : t.regs .result = σ'.result

/-- the `RETURN` instruction, at any loop depth of a routine -/
theorem exec_ret {stk : Stk} {σ : S} {s : State} {pc : Nat} (h : Sim K stk σ s)
    (hpc : s.pc = (pc : Int)) (hi : img.code[pc]? = some .ret) (ret : Nat) (rest : List Frame)
    (evc : List Val) (hK : K.ret = some (ret, rest, evc)) (x : Val) (hx : s.regs .result = x) :
    Exec img s (RetPost K { σ with result := x }) := by
  have hloc := h.locals.1
  rw [hK] at hloc
  cases hl : σ.locals with
  | none => rw [hl] at hloc; simp at hloc
  | some d =>
    have hst : s.stack = stk.frames ++ .call d ret :: rest := by
      rw [h.stack, hl]; simp only [baseOf, hK]
    have hret := C03_return_any_depth s stk.frames d ret rest h.loops hst
    have hret' : s.doReturn = { s with stack := rest, pc := (ret : Int), eval := K.base } := by
      rw [hret]
      apply State.ext' <;> try rfl
      show (match stk.frames.getLast? with
        | some (.loop _ hh) => trimEval s.eval hh
        | _ => s.eval) = K.base
      rw [h.eval]
      exact h.evok.unwind
    apply Exec.step h.running
    apply Exec.done
    rw [step_eq _ { s with stack := rest, pc := (ret : Int), eval := K.base } h.running hpc hi rfl
      (by simp only [execInstr]; exact hret') h.running]
    exact ⟨⟨ret, rest, evc, hK, by simp, rfl⟩, h.running, rfl, h.unnamed, h.locals.2, h.status, h.umode,
      h.globals, h.constants, h.lights, h.trace, h.defaultColor, h.matrix, h.draws, h.regs, hx⟩

def StmtRet (img : Image) (K : Ctx) (st : Stmt) (f : Nat) : Prop :=
  ∀ (σ σ' : S) (s : State) (pc exit : Nat) (stk : Stk),
    Sim K stk σ s → s.pc = (pc : Int) → CodeAt img pc (resolve (genStmt st) pc exit) →
    execStmt f st σ = (.ret, σ') → Exec img s (RetPost K σ')

/-- `return` / `return v` inside a routine -/
theorem stmt_ret (f : Nat) (ihRv : RvToGoal V img K f) (v : Option Rv)
    (hv : match v with | some rv => RvC V rv | none => True)
    (ret : Nat) (rest : List Frame) (evc : List Val) (hK : K.ret = some (ret, rest, evc)) :
    StmtRet img K (.ret v) (f + 1) := by
  intro σ σ' s pc exit stk sim hpc hc h
  simp only [genStmt, resolve_ins] at hc
  cases v with
  | none =>
    simp only [execStmt, Prod.mk.injEq, true_and] at h
    subst h
    apply Exec.step sim.running
    rw [step_eq _ (s.setReg .result .none) sim.running hpc hc.head rfl
      (by rw [execInstr_moveq _ _ (by simp [result])]; rfl) sim.running]
    have hsim := (sim.setResult .none).setPc ((pc + 1 : Nat) : Int)
    have e : (s.setReg .result .none).pc + 1 = ((pc + 1 : Nat) : Int) := by
      show s.pc + 1 = _
      rw [hpc]; omega
    rw [e]
    exact exec_ret hsim rfl hc.tail.head ret rest evc hK .none (by simp [State.setReg])
  | some rv =>
    have hv : RvC V rv := hv
    simp only [execStmt] at h
    split at h
    · rename_i x σ1 hev
      simp only [Prod.mk.injEq, true_and] at h
      subst h
      refine (rv_toResult ihRv rv hv sim hpc hc.left hev).trans fun t ⟨ht, hres⟩ => ?_
      exact exec_ret ht.2 ht.1 hc.right.head ret rest evc hK x hres
    · rename_i o' hev
      simp only [Prod.mk.injEq] at h
      have := evalRvC_error hev
      rw [h.1] at this
      simp at this


/-! ### statements that cannot return -/

theorem device_ne_ret {σ σ' : S} {g : State → State} : σ.device g ≠ (.ret, σ') := by
  intro h
  simp only [S.device] at h
  split at h <;> simp at h

theorem andThen_device_ne_ret {σ σ' : S} {g g' : State → State} {F : S → S} :
    andThen (σ.device g) (fun s2 => (F s2).device g') ≠ (.ret, σ') := by
  intro h
  rcases andThen_cases h with ⟨s2, _, h2⟩ | ⟨h1, _⟩
  · exact device_ne_ret h2
  · exact device_ne_ret h1

/-- the statements without nested blocks never end with `return` -/
theorem leaf_not_ret (f : Nat) (st : Stmt) (hst : FragStmt V st) (σ σ' : S)
    (h : execStmt (f + 1) st σ = (.ret, σ')) :
    (∃ c t e, st = .ite c t e) ∨ (∃ hd b, st = .repeat_ hd b) ∨ (∃ k w ops, st = .action k w ops) ∨
    (∃ v, st = .ret v) ∨ (∃ g ps as, st = .call g ps as) := by
  have hrv : ∀ {v : Rv} {o}, evalRv f v σ = .error o → o ≠ .ret :=
    fun he => (evalRvC_error he).2.2
  cases st with
  | ite c t e => exact Or.inl ⟨c, t, e, rfl⟩
  | repeat_ hd b => exact Or.inr (Or.inl ⟨hd, b, rfl⟩)
  | action k w ops => exact Or.inr (Or.inr (Or.inl ⟨k, w, ops, rfl⟩))
  | ret v => exact Or.inr (Or.inr (Or.inr (Or.inl ⟨v, rfl⟩)))
  | call g ps as => exact Or.inr (Or.inr (Or.inr (Or.inr ⟨g, ps, as, rfl⟩)))
  | defRoutine _ _ _ => exact absurd hst (by simp [FragStmt])
  | setReg r v =>
    exfalso
    simp only [execStmt] at h
    split at h
    · simp at h
    · rename_i o he
      simp only [Prod.mk.injEq] at h
      exact hrv he h.1
  | assign n v =>
    exfalso
    simp only [execStmt] at h
    split at h
    · simp at h
    · rename_i o he
      simp only [Prod.mk.injEq] at h
      exact hrv he h.1
  | print v =>
    exfalso
    simp only [execStmt] at h
    split at h
    · simp at h
    · rename_i o he
      simp only [Prod.mk.injEq] at h
      exact hrv he h.1
  | println v =>
    exfalso
    cases v with
    | none => simp [execStmt] at h
    | some rv =>
      simp only [execStmt] at h
      split at h
      · simp at h
      · rename_i o he
        simp only [Prod.mk.injEq] at h
        exact hrv he h.1
  | get name =>
    exfalso
    simp only [execStmt] at h
    split at h
    · exact device_ne_ret h
    · rename_i o he
      simp only [Prod.mk.injEq] at h
      exact hrv he h.1
  | printf fmt as =>
    exfalso
    simp only [execStmt] at h
    split at h
    · rename_i o he
      simp only [Prod.mk.injEq] at h
      exact (evalOutArgs_error f as hst.1 σ _ he).2.2 h.1
    · simp at h
  | stage rows cols cf =>
    exfalso
    simp only [execStmt] at h
    split at h
    · rename_i o he
      simp only [Prod.mk.injEq] at h
      exact (evalMatrixRanges_error f cf _ _ he).2.2 h.1
    · exact device_ne_ret h
  | units m => exfalso; simp only [execStmt] at h; exact device_ne_ret h
  | wait => exfalso; simp only [execStmt] at h; exact device_ne_ret h
  | brk => exfalso; simp [execStmt] at h
  | defMacro n v => exfalso; simp [execStmt] at h
  | timeAt ps => exfalso; cases ps <;> simp [execStmt] at h
  | setDefault w =>
    exfalso
    cases w
    · simp only [execStmt, Bool.false_eq_true, ↓reduceIte] at h
      exact device_ne_ret h
    · simp only [execStmt, ↓reduceIte] at h
      have h' : andThen (σ.device fun vm => execInstr default vm .wait)
          (fun s2 => (s2.setReg .operand (.operand .default)).device State.doColor) = (.ret, σ') := by
        rw [← andThen_eq]; exact h
      exact andThen_device_ne_ret h'
  | actAll k =>
    exfalso
    simp only [execStmt] at h
    have h' : andThen ((powerSet k σ).device fun vm => execInstr default vm .wait)
        (fun s2 => (s2.setReg .operand (.operand .all)).device
          (if k == .set then State.doColor else State.doPower)) = (.ret, σ') := by
      rw [← andThen_eq]; cases k <;> exact h
    exact andThen_device_ne_ret h'


/-! ### `return` from inside blocks, `if`, operands -/

def StmtsRet (V : String → Prop) (img : Image) (K : Ctx) (f : Nat) : Prop := ∀ st, FragStmt V st → StmtRet img K st f

def BlockRet (V : String → Prop) (img : Image) (K : Ctx) (f : Nat) : Prop :=
  ∀ b, FragBlock V b → ∀ (σ σ' : S) (s : State) (pc exit : Nat) (stk : Stk),
    Sim K stk σ s → s.pc = (pc : Int) → CodeAt img pc (resolve (genBlock b) pc exit) →
    execBlock f b σ = (.ret, σ') → Exec img s (RetPost K σ')

def OperandRet (V : String → Prop) (img : Image) (K : Ctx) (f : Nat) : Prop :=
  ∀ (k : ActKind) (op : Operand_), FragOperand V op →
  ∀ (σ σ' : S) (s : State) (pc exit : Nat) (stk : Stk),
    Sim K stk σ s → s.pc = (pc : Int) →
    CodeAt img pc (resolve (genOperand op ++ ins [opcodeOf k]) pc exit) →
    execOperand f k op σ = (.ret, σ') → Exec img s (RetPost K σ')

def OperandsRet (V : String → Prop) (img : Image) (K : Ctx) (f : Nat) : Prop :=
  ∀ (k : ActKind) (ops : Operands), FragOperands V ops →
  ∀ (σ σ' : S) (s : State) (pc exit : Nat) (stk : Stk),
    Sim K stk σ s → s.pc = (pc : Int) →
    CodeAt img pc (resolve (genOperands k ops) pc exit) →
    execOperands f k ops σ = (.ret, σ') → Exec img s (RetPost K σ')

theorem block_ret_zero : BlockRet V img K 0 := by
  intro b _ σ σ' s pc exit stk _ _ _ h
  simp [execBlock] at h

theorem block_ret_step (f : Nat) (ihS : StmtsGoal V img K f) (ihSR : StmtsRet V img K f)
    (ihBR : BlockRet V img K f) : BlockRet V img K (f + 1) := by
  intro b hb σ σ' s pc exit stk sim hpc hc h
  cases b with
  | nil => simp [execBlock] at h
  | cons st rest =>
    simp only [execBlock] at h
    simp only [genBlock, resolve_append] at hc
    have h : andThen (execStmt f st σ) (fun s' => execBlock f rest s') = (.ret, σ') := by
      rw [← andThen_eq]; exact h
    rcases andThen_cases h with ⟨σ1, hst, hrest⟩ | ⟨hst, _⟩
    · refine (ihS st hb.1 σ σ1 .normal s pc exit stk sim hpc hc.left hst (Or.inl rfl)).trans
        fun t ht => ?_
      have hcr := hc.right
      rw [resolve_length] at hcr
      exact ihBR rest hb.2 σ1 σ' t _ exit stk ht.2 ht.1 hcr hrest
    · exact ihSR st hb.1 σ σ' s pc exit stk sim hpc hc.left hst

theorem operand_ret_zero : OperandRet V img K 0 := by
  intro k op _ σ σ' s pc exit stk _ _ _ h
  simp [execOperand] at h

theorem operand_ret_step (f : Nat) (ihBR : BlockRet V img K f) : OperandRet V img K (f + 1) := by
  intro k op hop σ σ' s pc exit stk sim hpc hc h
  cases op with
  | light n =>
    exfalso
    have h' : ((nameSet n σ).setReg .operand (.operand .light)).device
        (if k == .set then State.doColor else State.doPower) = (.ret, σ') := by
      cases n <;> (simp only [execOperand] at h; exact h)
    exact device_ne_ret h'
  | group n =>
    exfalso
    have h' : ((nameSet n σ).setReg .operand (.operand .group)).device
        (if k == .set then State.doColor else State.doPower) = (.ret, σ') := by
      cases n <;> (simp only [execOperand] at h; exact h)
    exact device_ne_ret h'
  | location n =>
    exfalso
    have h' : ((nameSet n σ).setReg .operand (.operand .location)).device
        (if k == .set then State.doColor else State.doPower) = (.ret, σ') := by
      cases n <;> (simp only [execOperand] at h; exact h)
    exact device_ne_ret h'
  | zone n r =>
    exfalso
    simp only [execOperand] at h
    split at h
    · rename_i o he
      simp only [Prod.mk.injEq] at h
      exact (evalRange_error f _ _ _ _ he).2.2 h.1
    · exact device_ne_ret h
  | matrixInline n rows cols cf =>
    exfalso
    rw [execOperand_matrixInline] at h
    rcases andThen_cases h with ⟨s1, _, h⟩ | ⟨h1, _⟩
    · split at h
      · rename_i o he
        simp only [Prod.mk.injEq] at h
        exact (evalMatrixRanges_error f cf _ _ he).2.2 h.1
      · rw [andThen_eq] at h
        exact andThen_device_ne_ret h
    · exact device_ne_ret h1
  | matrixBlock n body =>
    simp only [genOperand, resolve_append, resolve_ins, ins_length] at hc
    rw [execOperand_matrixBlock] at h
    rcases andThen_cases h with ⟨s1, hm, h⟩ | ⟨h1, _⟩
    · rw [andThen_eq] at h
      have hcl1 := hc.left.left.left
      have hcb := hc.left.left.right
      simp only [List.length_cons, List.length_nil] at hcb
      refine (exec_nameSet n sim hpc hcl1.head).trans fun t ht => ?_
      refine (exec_matrix ht.2 ht.1 hcl1.tail.head hm).trans fun t1 ht1 => ?_
      have e : pc + 1 + 1 = pc + (0 + 1 + 1) := by omega
      rw [e] at ht1
      rcases andThen_cases h with ⟨s2, _, hfire⟩ | ⟨hbody, _⟩
      · exact (device_ne_ret hfire).elim
      · exact ihBR body hop s1 σ' t1 _ exit stk ht1.2 ht1.1 hcb hbody
    · exact (device_ne_ret h1).elim

theorem operands_ret_zero : OperandsRet V img K 0 := by
  intro k op _ σ σ' s pc exit stk _ _ _ h
  simp [execOperands] at h

theorem operands_ret_step (f : Nat) (ihO : OperandGoal V img K f) (ihOR : OperandRet V img K f)
    (ihOsR : OperandsRet V img K f) : OperandsRet V img K (f + 1) := by
  intro k ops hops σ σ' s pc exit stk sim hpc hc h
  cases ops with
  | nil => simp [execOperands] at h
  | cons op rest =>
    simp only [execOperands] at h
    have h : andThen (execOperand f k op σ) (fun s' => execOperands f k rest s') = (.ret, σ') := by
      rw [← andThen_eq]; exact h
    have hc' : CodeAt img pc (resolve (genOperand op ++ ins [opcodeOf k]) pc exit ++
        resolve (genOperands k rest) (pc + ((genOperand op).length + 1)) exit) := by
      have := hc
      simp only [genOperands, resolve_append, List.length_append, ins_length, List.length_cons,
        List.length_nil] at this ⊢
      exact this
    rcases andThen_cases h with ⟨σ1, hop, hrest⟩ | ⟨hop, _⟩
    · refine (ihO k op hops.1 σ σ1 .normal s pc exit stk sim hpc hc'.left hop (Or.inl rfl)).trans
        fun t ht => ?_
      simp only [Target] at ht
      have hcr := hc'.right
      simp only [resolve_length, List.length_append, ins_length, List.length_cons, List.length_nil] at hcr
      exact ihOsR k rest hops.2 σ1 σ' t _ exit stk ht.2 ht.1 hcr hrest
    · exact ihOR k op hops.1 σ σ' s pc exit stk sim hpc hc'.left hop


/-! ### `return` from inside loops -/

theorem loopBody_ret {r : Outcome × S} {Kf : S → Outcome × S} {σ' : S}
    (h : loopBody r Kf = (.ret, σ')) :
    (∃ s2, r = (.normal, s2) ∧ Kf s2 = (.ret, σ')) ∨ r = (.ret, σ') := by
  obtain ⟨o1, s1⟩ := r
  cases o1 with
  | normal => exact Or.inl ⟨s1, rfl, h⟩
  | brk => simp [loopBody] at h
  | ret => simp only [loopBody] at h; exact Or.inr h
  | _ => simp [loopBody] at h

def WhileRet (V : String → Prop) (img : Image) (K : Ctx) (f : Nat) : Prop :=
  ∀ (c : Option Rv) (body : Block), CondOK V c → FragBlock V body →
  ∀ (σ σ' : S) (s : State) (top : Nat) (stk : Stk)
    (vars : List (LoopVar × Val)) (extra : List Val) (off : Int),
    Sim K (stk.inner vars extra) σ s → s.pc = (top : Int) →
    CodeAt img top (testCode c ++ [.jump .ifFalse (((genBlock body).length : Nat) + 2)] ++
      resolve (genBlock body) (top + (testCode c).length + 1)
        ((top + (testCode c).length + 1 + (genBlock body).length + 1 : Nat) : Int) ++
      [.jump .always off] ++ [.endLoop]) →
    ((top + (testCode c).length + 1 + (genBlock body).length : Nat) : Int) + off = (top : Int) →
    execWhile f c body σ = (.ret, σ') → Exec img s (RetPost K σ')

theorem while_ret_zero : WhileRet V img K 0 := by
  intro c body _ _ σ σ' s top stk vars extra off _ _ _ _ h
  simp [execWhile] at h

theorem while_ret_step (f : Nat) (ihRv : RvToGoal V img K f) (ihB : BlockGoal V img K f) (ihBR : BlockRet V img K f)
    (ihW : WhileRet V img K f) : WhileRet V img K (f + 1) := by
  intro c body hcnd hb σ σ' s top stk vars extra off sim hpc hc hoff h
  rw [execWhile_succ] at h
  have hct := hc.left.left.left.left
  have hcj := hc.left.left.left.right.head
  have hcb := hc.left.left.right
  have hcjb := hc.left.right.head
  simp only [List.length_append, List.length_cons, List.length_nil, resolve_length] at hcb hcjb
  split at h
  · rename_i o' he
    simp only [Prod.mk.injEq] at h
    exact ((semTest_error f σ _ he).2.2 h.1).elim
  · simp at h
  · rename_i s1 he
    have hex := exec_test ihRv c hcnd sim hpc hct he
    have hjmp : ∀ t0, (At K (top + (testCode c).length) (stk.inner vars extra) [] s1 t0 ∧
        (t0.regs .result).truthy = true) →
        Exec img t0 (At K (top + (testCode c).length + 1) (stk.inner vars extra) [] s1) := by
      intro t0 ⟨ht0, hres⟩
      exact exec_jump .ifFalse _ _ (by simp) ht0.2 ht0.1 hcj (by simp [hres])
    refine (hex.trans hjmp).trans fun t1 ht1 => ?_
    rcases loopBody_ret h with ⟨s2, hbody, hrest⟩ | hbody
    · refine (ihB body hb s1 s2 .normal t1 _ _ _ ht1.2 ht1.1 (cat hcb) hbody (Or.inl rfl)).trans
        fun t2 ht2 => ?_
      simp only [Target] at ht2
      refine (exec_jump .always off top (by simp) ht2.2 ht2.1 (idx hcjb) (by simpa using hoff)).trans
        fun t3 ht3 => ?_
      exact ihW c body hcnd hb s2 σ' t3 top stk vars extra off ht3.2 ht3.1 hc hoff hrest
    · exact ihBR body hb s1 σ' t1 _ _ _ ht1.2 ht1.1 (cat hcb) hbody

def CountRet (V : String → Prop) (img : Image) (K : Ctx) (f : Nat) : Prop :=
  ∀ (body : Block), FragBlock V body → ∀ (lv : Option String) (ix : Option (String × Val))
    (names : List String) (σ σ' : S) (s : State) (top : Nat) (stk : Stk)
    (vars : List (LoopVar × Val)) (cnt : Val) (q : Rat) (fl : Bool) (off : Int),
    Sim K (stk.inner vars (pendOf lv names)) σ s → s.pc = (top : Int) →
    getVar vars .counter = cnt → cnt.asNum = some (q, fl) → passes q = names.length →
    (∀ p ∈ ix, getVar vars .incr = p.2) →
    CodeAt img top (counterTest ++
      [.jump .ifFalse (((bodyPreOf lv).length + (genBlock body).length + (postOf ix).length : Nat) + 2)] ++
      (bodyPreOf lv ++ resolve (genBlock body) (top + 5 + (bodyPreOf lv).length)
        ((top + 5 + ((bodyPreOf lv).length + (genBlock body).length + (postOf ix).length) + 1 : Nat) : Int) ++
        postOf ix) ++
      [.jump .always off] ++ [.endLoop]) →
    ((top + 5 + ((bodyPreOf lv).length + (genBlock body).length + (postOf ix).length) : Nat) : Int) + off =
      (top : Int) →
    execPasses f (bindsOf lv names) ix body σ = (.ret, σ') → Exec img s (RetPost K σ')

theorem count_ret_zero : CountRet V img K 0 := by
  intro body _ lv ix names σ σ' s top stk vars cnt q fl off _ _ _ _ _ _ _ _ h
  simp [execPasses] at h

theorem count_ret_step (f : Nat) (ihB : BlockGoal V img K f) (ihBR : BlockRet V img K f)
    (ihC : CountRet V img K f) : CountRet V img K (f + 1) := by
  intro body hb lv ix names σ σ' s top stk vars cnt q fl off sim hpc hcnt hnum hlenq hincr hc hoff h
  have hct := hc.left.left.left.left
  have hcj := hc.left.left.left.right.head
  have hcpre := hc.left.left.right.left.left
  have hcb := hc.left.left.right.left.right
  have hcp := hc.left.left.right.right
  have hcjb := hc.left.right.head
  have hlen : counterTest.length = 4 := rfl
  simp only [List.length_append, List.length_cons, List.length_nil, resolve_length, hlen]
    at hcj hcpre hcb hcp hcjb
  have hne : cnt = .none → False := by rintro rfl; simp [Val.asNum] at hnum
  have hex := exec_counterTest vars _ cnt q fl sim hpc hct hcnt hnum
  cases names with
  | cons n rest =>
    have hq : 0 < q := by
      apply Classical.byContradiction
      intro hc'
      rw [passes_nonpos q hc'] at hlenq
      simp at hlenq
    rw [bindsOf_cons, execPasses_succ, foldl_bind] at h
    have hjmp : ∀ t0, (At K (top + 4) (stk.inner vars (pendOf lv (n :: rest))) [] σ t0 ∧
        t0.regs .result = .bool (decide (0 < q))) →
        Exec img t0 (At K (top + 5) (stk.inner vars (pendOf lv (n :: rest))) [] σ) := by
      intro t0 ⟨ht0, hres⟩
      exact exec_jump .ifFalse _ _ (by simp) ht0.2 ht0.1 (idx hcj)
        (by simp [hres, hq, Val.truthy]; omega)
    refine ((hex.trans hjmp).trans fun t0 ht0 =>
      exec_bodyPre lv n rest vars ht0.2 ht0.1 (hcpre.cast (by omega))).trans fun t1 ht1 => ?_
    rcases loopBody_ret h with ⟨s2, hbody, hrest⟩ | hbody
    · obtain ⟨s3, hnext, hrest⟩ := (stepIdx_cases hrest).resolve_right (by simp)
      obtain ⟨c1, fl1, hsub1, hc1⟩ := sub_one_num cnt q fl hnum
      refine (ihB body hb _ s2 .normal t1 _ _ _ ht1.2 ht1.1 (hcb.cast (by omega)) hbody (Or.inl rfl)).trans
        fun t2 ht2 => ?_
      simp only [Target] at ht2
      refine (exec_passEnd ix vars _ cnt c1 s2 s3 ht2.2 ht2.1 (hcp.cast (by omega)) hcnt hne hsub1 hincr
        hnext).trans fun t3 ht3 => ?_
      refine (exec_jump .always off top (by simp) ht3.2 ht3.1 (idx hcjb)
        (by rw [← hoff]; congr 2; omega)).trans fun t4 ht4 => ?_
      have hlen' : passes (q - 1) = rest.length := by
        rw [passes_pos q hq] at hlenq
        simpa using hlenq
      exact ihC body hb lv ix rest s3 σ' t4 top stk _ c1 (q - 1) fl1 off ht4.2 ht4.1
        (getVar_putVar vars .counter c1) hc1 hlen'
        (fun p hp => by rw [getVar_putVar_other _ _ _ _ (by decide)]; exact hincr p hp) hc hoff hrest
    · exact ihBR body hb _ σ' t1 _ _ _ ht1.2 ht1.1 (hcb.cast (by omega)) hbody
  | nil => simp [bindsOf, execPasses] at h

def LoopRet (V : String → Prop) (img : Image) (K : Ctx) (f : Nat) : Prop :=
  ∀ (hd : LoopHdr) (body : Block), LoopHdrOK V hd → FragBlock V body →
  ∀ (σ σ' : S) (s : State) (pc exit : Nat) (stk : Stk),
    Sim K stk σ s → s.pc = (pc : Int) →
    CodeAt img pc (resolve (genLoop hd (genBlock body)) pc exit) →
    execLoop f hd body σ = (.ret, σ') → Exec img s (RetPost K σ')

theorem loop_ret_zero : LoopRet V img K 0 := by
  intro hd body _ _ σ σ' s pc exit stk _ _ _ h
  simp [execLoop] at h


theorem loop_while_ret (f : Nat) (ihW : WhileRet V img K f) (c : Option Rv) (hcnd : CondOK V c) (body : Block)
    (hb : FragBlock V body) (σ σ' : S) (s : State) (pc exit : Nat) (stk : Stk)
    (sim : Sim K stk σ s) (hpc : s.pc = (pc : Int))
    (hc : CodeAt img pc (resolve (assembleLoop [] (testCode c) [] (genBlock body) []) pc exit))
    (h : execWhile f c body σ = (.ret, σ')) : Exec img s (RetPost K σ') := by
  rw [resolve_assembleLoop] at hc
  simp only [List.append_nil, List.nil_append, List.length_nil, Nat.add_zero, Nat.zero_add] at hc
  have hloop := hc.left.left.left.left.head
  have hrest : CodeAt img (pc + 1) (testCode c ++ [.jump .ifFalse (((genBlock body).length : Nat) + 2)] ++
      resolve (genBlock body) (pc + 1 + (testCode c).length + 1)
        ((pc + 1 + (testCode c).length + 1 + (genBlock body).length + 1 : Nat) : Int) ++
      [.jump .always (((1 : Nat) : Int) - ((1 + (testCode c).length + 1 + (genBlock body).length : Nat) : Int))] ++
      [.endLoop]) := by
    have := hc
    simp only [List.cons_append, List.append_assoc] at this ⊢
    have h2 := this.tail
    have e1 : pc + (1 + (testCode c).length + 1) = pc + 1 + (testCode c).length + 1 := by omega
    have e2 : pc + (1 + (testCode c).length + 1 + (genBlock body).length + 1) =
        pc + 1 + (testCode c).length + 1 + (genBlock body).length + 1 := by omega
    rw [e1, e2] at h2
    exact h2
  refine (exec_loop sim hpc hloop).trans fun t ht => ?_
  exact ihW c body hcnd hb σ σ' t (pc + 1) stk [] [] _ ht.2 ht.1 hrest (by omega) h

/-- `return` out of a counted loop -/
theorem loop_counted_ret (f : Nat) (ihC : CountRet V img K f) (pre : List Instr) (lv : Option String)
    (ix : Option (String × Val)) (body : Block) (hb : FragBlock V body) (names : List String)
    (σ σ1 σ' : S) (s : State) (pc exit : Nat)
    (stk : Stk) (sim : Sim K stk σ s) (hpc : s.pc = (pc : Int))
    (hc : CodeAt img pc (resolve (assembleLoop pre counterTest (bodyPreOf lv) (genBlock body) (postOf ix))
      pc exit))
    (hpre : CodeAt img (pc + 1) pre → ∀ t, At K (pc + 1) (stk.inner [] []) [] σ t →
      Exec img t (fun t' => ∃ vars cnt q fl,
        At K (pc + 1 + pre.length) (stk.inner vars (pendOf lv names)) [] σ1 t' ∧
        getVar vars .counter = cnt ∧ cnt.asNum = some (q, fl) ∧ (∀ p ∈ ix, getVar vars .incr = p.2) ∧
        passes q = names.length))
    (h : execPasses f (bindsOf lv names) ix body σ1 = (.ret, σ')) : Exec img s (RetPost K σ') := by
  obtain ⟨hloop, hcpre, hrest⟩ := counted_rest pre lv ix body hc
  refine ((exec_loop sim hpc hloop).trans (hpre hcpre)).trans
    fun t' ⟨vars, cnt, q, fl, ht', hcnt, hnum, hincr, hk⟩ => ?_
  exact ihC body hb lv ix names σ1 σ' t' _ stk vars cnt q fl _ ht'.2 ht'.1 hcnt hnum hk hincr hrest
    (by omega) h

theorem loop_count_ret (f : Nat) (ihRv : RvToGoal V img K f) (ihC : CountRet V img K f) (n : Rv) (hn : RvC V n)
    (body : Block)
    (hb : FragBlock V body) (σ σ' : S) (s : State) (pc exit : Nat) (stk : Stk)
    (sim : Sim K stk σ s) (hpc : s.pc = (pc : Int))
    (hc : CodeAt img pc (resolve (genLoop (.count n) (genBlock body)) pc exit))
    (h : execLoop (f + 1) (.count n) body σ = (.ret, σ')) : Exec img s (RetPost K σ') := by
  simp only [genLoop] at hc
  simp only [execLoop] at h
  split at h
  · rename_i o' he
    simp only [Prod.mk.injEq] at h
    exact ((evalRvC_error he).2.2 h.1).elim
  · rename_i x σ1 he
    split at h
    · rename_i q hq
      obtain ⟨fl, hnum⟩ := numToCount_num hq
      rw [passCount_eq, ← bindsOf_none] at h
      refine loop_counted_ret f ihC _ none none body hb _ σ σ1 σ' s pc exit stk sim hpc hc ?_ h
      intro hcpre t ht
      have hcnt := rv_toLoopVar ihRv n hn .counter [] _ ht.2 ht.1 hcpre he
      exact hcnt.mono fun t' ht' => ⟨_, x, q, fl, ht', getVar_putVar [] .counter x, hnum, by simp,
        (passes_replicate _).symm⟩
    · simp at h

theorem loop_range_ret (f : Nat) (ihRv : RvToGoal V img K f) (ihC : CountRet V img K f) (v : String) (a b : Rv)
    (ha : RvC V a) (hbd : RvC V b)
    (body : Block) (hb : FragBlock V body) (σ σ' : S) (s : State) (pc exit : Nat)
    (stk : Stk) (sim : Sim K stk σ s) (hpc : s.pc = (pc : Int))
    (hc : CodeAt img pc (resolve (genLoop (.range v a b) (genBlock body)) pc exit))
    (h : execLoop (f + 1) (.range v a b) body σ = (.ret, σ')) : Exec img s (RetPost K σ') := by
  simp only [genLoop] at hc
  simp only [execLoop] at h
  split at h
  · rename_i o' he
    simp only [Prod.mk.injEq] at h
    exact ((evalRvC_error he).2.2 h.1).elim
  · rename_i x σ1 hea
    split at h
    · rename_i o' he
      simp only [Prod.mk.injEq] at h
      exact ((evalRvC_error he).2.2 h.1).elim
    · rename_i y σ2 heb
      split at h
      · rename_i p q hp hq
        rw [passCount_eq, ← bindsOf_none] at h
        refine loop_counted_ret f ihC _ none (some (v, if q < p then .int (-1) else .int 1)) body hb _ σ
          (σ2.assign v x) σ' s pc exit stk sim hpc hc ?_ h
        intro hcpre t ht
        simp only [indexVarRange, if_true] at hcpre ⊢
        refine (rv_toLoopVar ihRv a ha .first [] _ ht.2 ht.1 hcpre.left.left.left hea).trans fun t1 ht1 => ?_
        refine (rv_toLoopVar ihRv b hbd .last _ _ ht1.2 ht1.1 hcpre.left.left.right heb).trans fun t2 ht2 => ?_
        have hfirst : getVar (putVar (putVar [] .first x) .last y) .first = x := by
          rw [getVar_putVar_other _ _ _ _ (by decide), getVar_putVar]
        have hlast : getVar (putVar (putVar [] .first x) .last y) .last = y := getVar_putVar _ _ _
        have hm := hcpre.left.right.head
        simp only [List.length_append] at hm
        refine (exec_moveLVVar .first v ht2.2 ht2.1 (idx hm)).trans fun t3 ht3 => ?_
        rw [hfirst] at ht3
        have hcc := hcpre.right
        simp only [List.length_append, List.length_cons, List.length_nil] at hcc
        refine (exec_calcCounter x y p q ht3.2 ht3.1 (cat hcc) hfirst hlast hp hq).mono
          fun t4 ⟨vars', fl, ht4, hcnt, hinc⟩ => ?_
        refine ⟨vars', _, _, fl, ⟨?_, ht4.2⟩, rfl, hcnt, ?_, (passes_replicate _).symm⟩
        · rw [ht4.1]; simp [calcCounter, testOp, incCounter]; omega
        · intro p' hp'
          simp only [Option.mem_def, Option.some.injEq] at hp'
          subst hp'
          exact hinc
      · simp at h

theorem loop_with_ret (f : Nat) (ihRvs : RvToGoals V img K f) (ihC : CountRet V img K f) (n : Rv) (hn : RvC V n)
    (wc : WithClause)
    (hw : WithOK V wc) (body : Block) (hb : FragBlock V body) (σ σ' : S) (s : State)
    (pc exit : Nat) (stk : Stk) (sim : Sim K stk σ s) (hpc : s.pc = (pc : Int))
    (hc : CodeAt img pc (resolve (assembleLoop (genRv n (.to counter) ++ withCode wc) counterTest []
      (genBlock body) (loopPost (some (withVarOf wc)))) pc exit))
    (h : (match evalRv f n σ with
        | .error o => (o, σ)
        | .ok (cnt, s1) =>
          match numToCount cnt with
          | none => (.fault "count is not a number", s1)
          | some q =>
            match evalWith f wc cnt s1 with
            | .error o => (o, s1)
            | .ok (none, s2) => (.fault "arithmetic error", s2)
            | .ok (some i, s2) =>
              execPasses f (List.replicate (passCount q) []) (some (withVarOf wc, i)) body s2) = (.ret, σ')) :
    Exec img s (RetPost K σ') := by
  split at h
  · rename_i o' he
    simp only [Prod.mk.injEq] at h
    exact ((evalRvC_error he).2.2 h.1).elim
  · rename_i cnt σ1 he
    split at h
    · simp at h
    · rename_i q hq
      obtain ⟨fl, hnum⟩ := numToCount_num hq
      split at h
      · rename_i o' hew
        simp only [Prod.mk.injEq] at h
        exact ((evalWith_error f cnt σ1 _ hew).2.2 h.1).elim
      · simp at h
      · rename_i i σ2 hew
        rw [passCount_eq, ← bindsOf_none] at h
        refine loop_counted_ret f ihC _ none (some (withVarOf wc, i)) body hb _ σ σ2 σ' s pc exit stk sim hpc hc
          ?_ h
        intro hcpre t ht
        refine (rv_toLoopVar (ihRvs f (Nat.le_refl f)) n hn .counter [] _ ht.2 ht.1 hcpre.left he).trans
          fun t1 ht1 => ?_
        refine (exec_with ihRvs wc hw cnt q fl ht1.2 ht1.1 hcpre.right (getVar_putVar [] .counter cnt) hnum hew).mono
          fun t2 ⟨vars', ht2, hc2, hi2⟩ => ?_
        refine ⟨vars', cnt, q, fl, ⟨?_, ht2.2⟩, hc2, hnum, ?_, (passes_replicate _).symm⟩
        · rw [ht2.1]; simp only [List.length_append, counter]; omega
        · intro p' hp'
          simp only [Option.mem_def, Option.some.injEq] at hp'
          subst hp'
          exact hi2

/-- `return` out of a loop over names -/
theorem loop_names_ret (g : Nat) (ihRvs : RvToGoals V img K g) (ihC : CountRet V img K g) (disc : List Instr)
    (lv : String)
    (w : Option WithClause) (hw : OWithOK V w) (body : Block) (hb : FragBlock V body) (names : List String)
    (σ σd σ' : S) (s : State) (pc exit : Nat) (stk : Stk)
    (sim : Sim K stk σ s) (hpc : s.pc = (pc : Int))
    (hc : CodeAt img pc (resolve (assembleLoop ([.moveq (.int 0) counter] ++ disc ++ withClause w) counterTest
      [.pop (.var lv)] (genBlock body) (loopPost (withVar w))) pc exit))
    (hdisc : ∀ (vars : List (LoopVar × Val)) (t : State) (p : Nat), Sim K (stk.inner vars []) σ t →
      t.pc = (p : Int) → CodeAt img p disc → getVar vars .counter = .int 0 →
      Exec img t (fun t' => ∃ vars', At K (p + disc.length) (stk.inner vars' (names.map .str)) [] σd t' ∧
        getVar vars' .counter = .int names.length))
    (h : iterLoop (g + 1) names lv w body σd = (.ret, σ')) : Exec img s (RetPost K σ') := by
  have hnum : (Val.int names.length).asNum = some (((names.length : Int) : Rat), false) := rfl
  have hfirst : CodeAt img (pc + 1) ([.moveq (.int 0) counter] ++ disc ++ withClause w) →
      ∀ t, At K (pc + 1) (stk.inner [] []) [] σ t →
      Exec img t (fun t' => ∃ vars', At K (pc + 1 + 1 + disc.length) (stk.inner vars' (names.map .str)) [] σd t' ∧
        getVar vars' .counter = .int names.length) := by
    intro hcpre t ht
    refine (exec_moveqLV (.int 0) .counter ht.2 ht.1 hcpre.left.left.head).trans fun t1 ht1 => ?_
    exact hdisc _ t1 _ ht1.2 ht1.1 hcpre.left.right (getVar_putVar _ _ _)
  simp only [iterLoop] at h
  cases w with
  | none =>
    simp only at h
    refine loop_counted_ret g ihC _ (some lv) none body hb names σ σd σ' s pc exit stk sim hpc hc ?_ h
    intro hcpre t ht
    refine (hfirst hcpre t ht).mono fun t' ⟨vars', ht', hcnt⟩ => ?_
    refine ⟨vars', _, _, false, ⟨?_, ht'.2⟩, hcnt, hnum, by simp, passes_nat _⟩
    rw [ht'.1]; simp [withClause]; omega
  | some wc =>
    have hwc : WithOK V wc := hw
    simp only at h
    split at h
    · rename_i o' hew
      simp only [Prod.mk.injEq] at h
      exact ((evalWith_error g _ σd _ hew).2.2 h.1).elim
    · simp at h
    · rename_i i σ2 hew
      have hpost : loopPost (withVar (some wc)) = postOf (some (withVarOf wc, i)) := by
        rw [withVar_eq]; rfl
      rw [hpost] at hc
      refine loop_counted_ret g ihC _ (some lv) (some (withVarOf wc, i)) body hb names σ σ2 σ' s pc exit stk sim hpc
        hc ?_ h
      intro hcpre t ht
      refine (hfirst hcpre t ht).trans fun t1 ⟨vars1, ht1, hcnt1⟩ => ?_
      have hcw : CodeAt img (pc + 1 + 1 + disc.length) (withCode wc) := by
        have := hcpre.right
        rw [withClause_some] at this
        exact this.cast (by simp; omega)
      refine (exec_with ihRvs wc hwc (.int names.length) _ false ht1.2 ht1.1 hcw hcnt1 hnum hew).mono
        fun t2 ⟨vars2, ht2, hc2, hi2⟩ => ?_
      refine ⟨vars2, _, _, false, ⟨?_, ht2.2⟩, hc2, hnum, ?_, passes_nat _⟩
      · rw [ht2.1]; simp [withClause_some]; omega
      · intro p' hp'
        simp only [Option.mem_def, Option.some.injEq] at hp'
        subst hp'
        exact hi2

theorem loop_ret_step (f : Nat) (ihRvs : RvToGoals V img K f) (ihW : WhileRet V img K f) (ihC : CountRet V img K f)
    (ihC1 : ∀ g, g + 1 = f → CountRet V img K g) : LoopRet V img K (f + 1) := by
  intro hd body hhd hb σ σ' s pc exit stk sim hpc hc h
  have ihRv := ihRvs f (Nat.le_refl f)
  cases hd with
  | forever =>
    exact loop_while_ret f ihW none trivial body hb σ σ' s pc exit stk sim hpc hc
      (by simpa only [execLoop] using h)
  | while_ c =>
    exact loop_while_ret f ihW (some c) hhd body hb σ σ' s pc exit stk sim hpc hc
      (by simpa only [execLoop] using h)
  | count n => exact loop_count_ret f ihRv ihC n hhd body hb σ σ' s pc exit stk sim hpc hc h
  | range v a b => exact loop_range_ret f ihRv ihC v a b hhd.1 hhd.2 body hb σ σ' s pc exit stk sim hpc hc h
  | interp n v a b =>
    exact loop_with_ret f ihRvs ihC n hhd.1 (.fromTo v a b) hhd.2 body hb σ σ' s pc exit stk sim hpc hc
      (by simp only [execLoop] at h; exact h)
  | cycle n v start =>
    exact loop_with_ret f ihRvs ihC n hhd.1 (.cycle v start) hhd.2 body hb σ σ' s pc exit stk sim hpc hc
      (by simp only [execLoop] at h; exact h)
  | all lv w =>
    simp only [execLoop] at h
    cases f with
    | zero => simp [iterLoop] at h
    | succ g =>
      refine loop_names_ret g (fun g' hg' => ihRvs g' (Nat.le_succ_of_le hg')) (ihC1 g rfl) iterLights lv w hhd body hb _ σ _ σ' s pc exit stk sim hpc hc ?_ h
      intro vars t p ht hp hcd hcnt
      refine (exec_iterSets (o := .light) (Or.inl rfl) (.loopVar .current) (Or.inl rfl) 0 ht hp hcd hcnt).mono
        fun t' ⟨vars', ht', hc'⟩ => ⟨vars', by simpa [namesOf, iterLights, iterSets, iterSkeleton_length] using ht',
          by simpa [namesOf] using hc'⟩
  | groups lv w =>
    simp only [execLoop] at h
    cases f with
    | zero => simp [iterLoop] at h
    | succ g =>
      refine loop_names_ret g (fun g' hg' => ihRvs g' (Nat.le_succ_of_le hg')) (ihC1 g rfl) (iterSets .group) lv w hhd body hb _ σ _ σ' s pc exit stk sim hpc hc
        ?_ h
      intro vars t p ht hp hcd hcnt
      refine (exec_iterSets (o := .group) (Or.inr (Or.inl rfl)) (.reg .result) (Or.inr rfl) 0 ht hp hcd hcnt).mono
        fun t' ⟨vars', ht', hc'⟩ => ⟨vars', by simpa [namesOf, iterLights, iterSets, iterSkeleton_length] using ht',
          by simpa [namesOf] using hc'⟩
  | locations lv w =>
    simp only [execLoop] at h
    cases f with
    | zero => simp [iterLoop] at h
    | succ g =>
      refine loop_names_ret g (fun g' hg' => ihRvs g' (Nat.le_succ_of_le hg')) (ihC1 g rfl) (iterSets .location) lv w hhd body hb _ σ _ σ' s pc exit stk sim hpc hc
        ?_ h
      intro vars t p ht hp hcd hcnt
      refine (exec_iterSets (o := .location) (Or.inr (Or.inr rfl)) (.reg .result) (Or.inr rfl) 0 ht hp hcd
        hcnt).mono
        fun t' ⟨vars', ht', hc'⟩ => ⟨vars', by simpa [namesOf, iterLights, iterSets, iterSkeleton_length] using ht',
          by simpa [namesOf] using hc'⟩
  | iter items lv w =>
    simp only [execLoop] at h
    split at h
    · rename_i o' he
      simp only [Prod.mk.injEq] at h
      exact ((iterNames_error items f σ _ he).2.2 h.1).elim
    · rename_i names σ1 he
      cases f with
      | zero => simp [iterNames] at he
      | succ g =>
        refine loop_names_ret g (fun g' hg' => ihRvs g' (Nat.le_succ_of_le hg')) (ihC1 g rfl) (iterItems items) lv w hhd.2 body hb names σ σ1 σ' s pc exit stk sim
          hpc hc ?_ h
        intro vars t p ht hp hcd hcnt
        refine (exec_iterItems items hhd.1 (g + 1) ihRvs σ σ1 names vars [] t p 0 he ht hp hcd hcnt).mono
          fun t' ⟨vars', ht', hc'⟩ => ⟨vars', by simpa using ht', by simpa using hc'⟩


/-! ## calls -/

/-- a routine that delivers a value on every path that reaches its end: its last statement is a
`return` (a `return` anywhere else ends it earlier) -/
def EndsRet : Block → Prop
  | .nil => False
  | .cons (.ret _) .nil => True
  | .cons _ rest => EndsRet rest

/-- a routine whose last statement is `return` never runs off its end -/
theorem EndsRet.not_normal : ∀ (f : Nat) (b : Block), EndsRet b → ∀ (s s' : S), execBlock f b s ≠ (.normal, s') := by
  intro f
  induction f with
  | zero => intro b _ s s' he; simp [execBlock] at he
  | succ f ih =>
    intro b h s s' he
    cases b with
    | nil => exact absurd h (by simp [EndsRet])
    | cons st rest =>
      simp only [execBlock] at he
      cases rest with
      | nil =>
        cases st with
        | ret v =>
          cases f with
          | zero => simp [execStmt] at he
          | succ f =>
            cases v with
            | none => simp [execStmt] at he
            | some rv =>
              simp only [execStmt] at he
              cases hev : evalRv f rv s with
              | ok p => rw [hev] at he; simp at he
              | error o =>
                rw [hev] at he
                have := ((eval_error_ctl f).2.1 rv s o hev).1
                cases o <;> simp_all
        | _ => simp [EndsRet] at h
      | cons st2 rest2 =>
        have h' : EndsRet (.cons st2 rest2) := by
          cases st <;> simpa [EndsRet] using h
        split at he
        · exact ih _ h' _ s' he
        · rename_i hne
          exact hne _ he

/-- the routines of the script are compiled from bodies of the fragment and sit where the image's
routine table says, each followed by its `END`; other names are not in the table; the routines
that may be called for their value (`V`) end with a `return` -/
def RoutinesAt (V : String → Prop) (img : Image) (R : List (String × Sem.Routine)) : Prop :=
  ∀ name, match R.find? (·.1 == name) with
    | some (_, rt) =>
      FragBlock V rt.body ∧ (V name → EndsRet rt.body) ∧ ∃ addr nm, img.routine? name = some addr ∧
        CodeAt img addr (resolve (genBlock rt.body) addr (0 : Nat) ++ [.end_ nm])
    | none => img.routine? name = none

/-- back in the caller after a `return` -/
theorem RetPost.toSim {K Kc : Ctx} {σ2 : S} {t : State} (h : RetPost K σ2 t) (ret : Nat)
    (stkc : Stk) (loc : Option Dict) (hK : K.ret = some (ret, stkc.frames ++ baseOf Kc loc, stkc.ev))
    (hloc : Kc.ret.isSome = loc.isSome) (hrt : Kc.routines = K.routines) (hl : LoopsOnly stkc.frames)
    (hok : EvOk Kc.base stkc.frames stkc.ev) :
    At Kc (ret + 1) stkc [] { σ2 with locals := loc, result := .none } t := by
  obtain ⟨r', rest', evc', hK', hpc, hst⟩ := h.ctx
  have hbase : K.base = stkc.ev := by simp only [Ctx.base, hK]
  rw [hK] at hK'
  simp only [Option.some.injEq, Prod.mk.injEq] at hK'
  obtain ⟨rfl, rfl, rfl⟩ := hK'
  exact ⟨hpc, h.running, hst, hl, by rw [h.eval, hbase], hok, h.unnamed, ⟨hloc, by rw [hrt]; exact h.routines⟩,
    h.status, h.umode,
    h.globals, h.constants, h.lights, h.trace, h.defaultColor, h.matrix, h.draws, h.regs⟩

/-- `END name`: the routine's code ran to its end -/
theorem exec_end {stk : Stk} {σ : S} {s : State} {pc : Nat} (h : Sim K stk σ s)
    (hpc : s.pc = (pc : Int)) (nm : String) (hi : img.code[pc]? = some (.end_ nm)) (ret : Nat)
    (rest : List Frame) (evc : List Val) (hK : K.ret = some (ret, rest, evc)) :
    Exec img s (fun t => t.pc = (ret : Int) ∧ t.stack = rest ∧ t.status = .running ∧ t.eval = K.base ∧
      t.unnamed = [] ∧ σ.routines = K.routines ∧ σ.vm.status = .running ∧
      RegsOk σ.vm.regs ∧ σ.vm.globals = t.globals ∧
      σ.vm.constants = t.constants ∧ σ.vm.lights = t.lights ∧ σ.vm.trace = t.trace ∧
      σ.vm.defaultColor = t.defaultColor ∧ σ.vm.matrix = t.matrix ∧ σ.vm.draws = t.draws ∧
      ∀ r, r ≠ .result → σ.vm.regs r = t.regs r) := by
  have hloc := h.locals.1
  rw [hK] at hloc
  cases hl : σ.locals with
  | none => rw [hl] at hloc; simp at hloc
  | some d =>
    have hst : s.stack = stk.frames ++ .call d ret :: rest := by
      rw [h.stack, hl]; simp only [baseOf, hK]
    have hret := C03_return_any_depth s stk.frames d ret rest h.loops hst
    have hret' : s.doReturn = { s with stack := rest, pc := (ret : Int), eval := K.base } := by
      rw [hret]
      apply State.ext' <;> try rfl
      show (match stk.frames.getLast? with
        | some (.loop _ hh) => trimEval s.eval hh
        | _ => s.eval) = K.base
      rw [h.eval]
      exact h.evok.unwind
    apply Exec.step h.running
    apply Exec.done
    have : step img s = { s with stack := rest, pc := (ret : Int), eval := K.base } := by
      unfold step
      have h0 : ¬ (s.pc < 0) := by omega
      have h1 : s.pc.toNat = pc := by omega
      rw [if_neg (by simp [h.running]), if_neg h0, h1, hi]
      simp only [execInstr, hret']
      simp [h.running]
    rw [this]
    exact ⟨rfl, rfl, h.running, rfl, h.unnamed, h.locals.2, h.status, h.umode, h.globals, h.constants, h.lights,
      h.trace, h.defaultColor, h.matrix, h.draws, h.regs⟩


theorem step_jsr_builtin (img : Image) (s : State) (pc : Nat) (g : String) (d : Dict)
    (st : List Frame) (names : List String) (v : Val)
    (hs : s.status = .running) (hpc : s.pc = (pc : Int)) (hst : s.stack = .pending d :: st)
    (hnone : img.routine? g = none) (hbp : builtinParams g = some names)
    (hval : callBuiltin g (names.map fun n => (d.get n).getD .none) s.draws = .val v)
    (hi : img.code[pc]? = some (.jsr g)) :
    step img s = { s with pc := (pc : Int) + 1, stack := st,
                          regs := fun r => if r = .result then v else s.regs r,
                          draws := if g == "random" then s.draws + 1 else s.draws } := by
  unfold step
  have h0 : ¬ (s.pc < 0) := by omega
  have h1 : s.pc.toNat = pc := by omega
  rw [if_neg (by simp [hs]), if_neg h0, h1, hi]
  simp only [execInstr, hst, hnone, hbp, hval]
  by_cases hr : (g == "random") = true
  · simp only [hr, if_true, State.setReg, hs]
    apply State.ext' <;> simp [hpc]
  · simp only [hr, Bool.false_eq_true, if_false, State.setReg, hs]
    apply State.ext' <;> simp [hpc]

/-- the call statement: a user routine of the script, or a built-in; its value is dropped -/
theorem stmt_call (f : Nat) (ihC : CallGoal V img K f) (g : String) (ps : List String) (as : Args)
    (has : ArgsC V as) (hnd : ps.Nodup) : StmtGoal img K (.call g ps as) (f + 1) := by
  intro σ σ' o s pc exit stk sim hpc hc h ho
  simp only [genStmt, resolve_ins, ins_length] at hc ⊢
  simp only [execStmt] at h
  split at h
  · rename_i v s1 hcall
    simp only [Prod.mk.injEq] at h
    obtain ⟨rfl, rfl⟩ := h
    exact (ihC g ps as hnd has σ _ v s pc stk [] [] (SimX.of_sim sim) hpc hc hcall).mono
      fun t ⟨h1, h2, _⟩ => ⟨h1, h2.to_sim⟩
  · rename_i o' hcall
    simp only [Prod.mk.injEq] at h
    obtain ⟨rfl, rfl⟩ := h
    have := (eval_error_ctl f).2.2.2 g ps as σ _ hcall
    rcases ho with rfl | rfl <;> simp [NotCtl] at this

/-- a call statement never ends with `return` -/
theorem call_not_ret (f : Nat) (g : String) (ps : List String) (as : Args)
    (σ σ' : S) : execStmt f (.call g ps as) σ ≠ (.ret, σ') := by
  intro h
  cases f with
  | zero => simp [execStmt] at h
  | succ f =>
    simp only [execStmt] at h
    split at h
    · simp at h
    · rename_i o' hcall
      simp only [Prod.mk.injEq] at h
      exact ((eval_error_ctl f).2.2.2 g ps as σ _ hcall).2.2 h.1

theorem stmts_ret_zero : StmtsRet V img K 0 := by
  intro st _ σ σ' s pc exit stk _ _ _ h
  simp [execStmt] at h

/-- `return` reaches out of every compound statement -/
theorem stmts_ret_step (f : Nat) (ihRv : RvToGoal V img K f) (ihBR : BlockRet V img K f) (ihOs : OperandsRet V img K f)
    (ihL : LoopRet V img K f) (ret : Nat) (rest : List Frame) (evc : List Val)
    (hK : K.ret = some (ret, rest, evc)) :
    StmtsRet V img K (f + 1) := by
  intro st hst σ σ' s pc exit stk sim hpc hc h
  rcases leaf_not_ret f st hst σ σ' h with ⟨c, t, e, rfl⟩ | ⟨hd, b, rfl⟩ | ⟨k, w, ops, rfl⟩ | ⟨v, rfl⟩ |
    ⟨g, ps, as, rfl⟩
  · -- if
    cases e with
    | none =>
      have hc1 : RvC V c := hst.1
      have ht1 : FragBlock V t := hst.2.1
      simp only [execStmt] at h
      split at h
      · rename_i o' hev
        simp only [Prod.mk.injEq] at h
        exact ((evalRvC_error hev).2.2 h.1).elim
      · rename_i x σ1 hev
        simp only [genStmt, genIf, resolve_append, resolve_ins, ins_length, resolve, List.length_append,
          List.length_cons, List.length_nil] at hc
        refine (rv_toResult ihRv c hc1 sim hpc hc.left.left hev).trans fun t0 ⟨ht0, hres⟩ => ?_
        by_cases hx : x.truthy = true
        · simp only [hx, if_true] at h
          refine (exec_jump .ifFalse _ (pc + (genRv c (.to result)).length + 1) (by simp) ht0.2 ht0.1
            hc.left.right.head (by simp [hres, hx])).trans fun t1 ht1' => ?_
          exact ihBR t ht1 σ1 σ' t1 _ exit stk ht1'.2 ht1'.1 (cat hc.right) h
        · simp [hx] at h
    | some e =>
      have hc1 : RvC V c := hst.1
      have ht1 : FragBlock V t := hst.2.1
      have he1 : FragBlock V e := hst.2.2
      simp only [execStmt] at h
      split at h
      · rename_i o' hev
        simp only [Prod.mk.injEq] at h
        exact ((evalRvC_error hev).2.2 h.1).elim
      · rename_i x σ1 hev
        simp only [genStmt, genIf, resolve_append, resolve_ins, ins_length, resolve, List.length_append,
          List.length_cons, List.length_nil] at hc
        refine (rv_toResult ihRv c hc1 sim hpc hc.left.left.left.left hev).trans fun t0 ⟨ht0, hres⟩ => ?_
        have hj := hc.left.left.left.right.head
        have hct := hc.left.left.right
        have hce := hc.right
        simp only [resolve_length, List.length_append, List.length_cons, List.length_nil] at hct hce
        by_cases hx : x.truthy = true
        · simp only [hx, if_true] at h
          refine (exec_jump .ifFalse _ (pc + (genRv c (.to result)).length + 1) (by simp) ht0.2 ht0.1 hj
            (by simp [hres, hx])).trans fun t1 ht1' => ?_
          exact ihBR t ht1 σ1 σ' t1 _ exit stk ht1'.2 ht1'.1 (cat hct) h
        · simp only [hx, Bool.false_eq_true, if_false] at h
          refine (exec_jump .ifFalse _ (pc + ((genRv c (.to result)).length + 1 + (genBlock t).length + 1))
            (by simp) ht0.2 ht0.1 hj (by simp [hres, hx]; omega)).trans fun t1 ht1' => ?_
          exact ihBR e he1 σ1 σ' t1 _ exit stk ht1'.2 ht1'.1 (cat hce) h
  · -- repeat
    simp only [genStmt] at hc
    simp only [execStmt] at h
    exact ihL hd b hst.1 hst.2 σ σ' s pc exit stk sim hpc hc h
  · -- set / on / off
    cases w
    · -- inside a matrix block: no `WAIT`
      simp only [execStmt, Bool.false_eq_true, ↓reduceIte] at h
      have hrest : execOperands f k ops (powerSet k σ) = (.ret, σ') := by
        cases k <;> exact h
      have hc' : CodeAt img pc (powerCode k ++
          resolve (genOperands k ops) (pc + (powerCode k).length) exit) := by
        have := hc
        simp only [genStmt, resolve_append, resolve_ins, ins_length, List.length_append, List.length_cons,
          List.length_nil, Bool.false_eq_true, ↓reduceIte, List.append_nil, Nat.add_zero] at this
        cases k <;> exact this
      refine (exec_powerSet k sim hpc hc'.left).trans fun t ht => ?_
      exact ihOs k ops hst _ σ' t _ exit stk ht.2 ht.1 hc'.right hrest
    · simp only [execStmt, ↓reduceIte] at h
      have h' : andThen ((powerSet k σ).device fun vm => execInstr default vm .wait)
          (fun s2 => execOperands f k ops s2) = (.ret, σ') := by
        rw [← andThen_eq]
        cases k <;> exact h
      rcases andThen_cases h' with ⟨σ2, hw, hrest⟩ | ⟨hw, _⟩
      · have hc' : CodeAt img pc (powerCode k ++ [Instr.wait] ++
            resolve (genOperands k ops) (pc + ((powerCode k).length + 1)) exit) := by
          have := hc
          simp only [genStmt, resolve_append, resolve_ins, ins_length, List.length_append, List.length_cons,
            List.length_nil, ↓reduceIte] at this
          cases k <;> exact this
        refine (exec_powerSet k sim hpc hc'.left.left).trans fun t ht => ?_
        refine (exec_wait ht.2 ht.1 hc'.left.right.head hw).trans fun t2 ht2 => ?_
        have hcr := hc'.right
        simp only [List.length_append, List.length_cons, List.length_nil] at hcr
        exact ihOs k ops hst σ2 σ' t2 _ exit stk ht2.2 (by rw [ht2.1]; congr 1) hcr hrest
      · exact (device_ne_ret hw).elim
  · -- return
    exact stmt_ret f ihRv v hst ret rest evc hK σ σ' s pc exit stk sim hpc hc h
  · exact (call_not_ret (f + 1) g ps as σ σ' h).elim


/-- a `return` statement never ends normally or with `break` -/
theorem stmt_ret_goal (f : Nat) (v : Option Rv) :
    StmtGoal img K (.ret v) (f + 1) := by
  intro σ σ' o s pc exit stk sim hpc hc h ho
  exfalso
  cases v with
  | none =>
    simp only [execStmt, Prod.mk.injEq] at h
    rcases ho with rfl | rfl <;> simp at h
  | some rv =>
    simp only [execStmt] at h
    split at h
    · simp only [Prod.mk.injEq] at h
      rcases ho with rfl | rfl <;> simp at h
    · rename_i o' hev
      simp only [Prod.mk.injEq] at h
      obtain ⟨rfl, rfl⟩ := h
      exact errorC_excluded hev ho

end Sim
end Bardolph
