import Bardolph.Proofs.SimStmts
import Bardolph.Props.C04
/-!
Loop frames for the simulation theorem C01: counting (`repeat n`), the loop frame and its hidden
variables, the instruction groups of loop control (`PUSH a; PUSH b; OP o; POP d`), and the
prologues of the index-variable forms (`Gen.calcCounter`, `Gen.calcIncr`, `Gen.cycleVarRange`,
the `with` clause) against `Sem.evalWith`.
-/
namespace Bardolph
namespace Sim
open Vm VmSteps Sem Gen

/-! ## counting -/

/-- number of passes of `repeat n`: as long as the remaining count is positive
(`Sem.passCount`) -/
def passes (n : Rat) : Nat := if n ≤ 0 then 0 else n.ceil.toNat

theorem passCount_eq (n : Rat) : passCount n = passes n := rfl

theorem passes_nonpos (q : Rat) (h : ¬ 0 < q) : passes q = 0 := by
  have : q ≤ 0 := Rat.not_lt.mp h
  simp [passes, this]

theorem passes_pos (q : Rat) (h : 0 < q) : passes q = passes (q - 1) + 1 := by
  have hq : ¬ q ≤ 0 := Rat.not_le.mpr h
  have hc : 0 < q.ceil := by
    have := (Rat.lt_ceil_iff (x := q) (y := 0)).2 (by simpa using h)
    exact this
  simp only [passes, hq, if_false, Rat.ceil_sub_one]
  by_cases h1 : q - 1 ≤ 0
  · simp only [h1, if_true]
    have : q.ceil ≤ 1 := Rat.ceil_le_iff.2 (by
      have : q ≤ 1 := by grind
      simpa using this)
    omega
  · simp only [h1, if_false]
    omega

theorem tri_gt (q : Rat) :
    ((if q < 0 then Ordering.lt else if q == 0 then .eq else .gt) == .gt) = decide (0 < q) := by
  by_cases hlt : q < 0
  · have : ¬ 0 < q := by grind
    simp [hlt, this]
  · by_cases heq : q = 0
    · subst heq; simp
    · have : 0 < q := by grind
      simp [hlt, heq, this]

/-- the test `counter > 0` on a numeric counter -/
theorem cmp_gt_zero (cnt : Val) (q : Rat) (fl : Bool) (h : cnt.asNum = some (q, fl)) :
    binVal .gt cnt (.int 0) = some (.bool (decide (0 < q))) := by
  cases cnt with
  | int i =>
    simp only [Val.asNum, Option.some.injEq, Prod.mk.injEq] at h
    obtain ⟨rfl, rfl⟩ := h
    simp only [binVal, binOp, Val.cmp, Val.asNum]
    rw [show ((0 : Int) : Rat) = 0 from rfl, tri_gt]
  | num r =>
    simp only [Val.asNum, Option.some.injEq, Prod.mk.injEq] at h
    obtain ⟨rfl, rfl⟩ := h
    simp only [binVal, binOp, Val.cmp, Val.asNum]
    rw [show ((0 : Int) : Rat) = 0 from rfl, tri_gt]
  | bool b =>
    simp only [Val.asNum, Option.some.injEq, Prod.mk.injEq] at h
    obtain ⟨rfl, rfl⟩ := h
    simp only [binVal, binOp, Val.cmp, Val.asNum]
    rw [show ((0 : Int) : Rat) = 0 from rfl, tri_gt]
  | _ => simp [Val.asNum] at h

/-- `counter - 1` on a numeric counter is the numeric counter one less -/
theorem sub_one_num (cnt : Val) (q : Rat) (fl : Bool) (h : cnt.asNum = some (q, fl)) :
    ∃ c' fl', binVal .sub cnt (.int 1) = some c' ∧ c'.asNum = some (q - 1, fl') := by
  have h1 : (Val.int 1).asNum = some (1, false) := by simp [Val.asNum]
  simp only [binVal, binOp, Val.sub, h, h1, Bool.or_false]
  cases cnt with
  | int i =>
    simp only [Val.asNum, Option.some.injEq, Prod.mk.injEq] at h
    obtain ⟨rfl, rfl⟩ := h
    refine ⟨_, false, rfl, ?_⟩
    have : ((i : Rat) - 1) = ((i - 1 : Int) : Rat) := by simp [Rat.intCast_sub]
    simp only [Val.mkNum, Bool.false_eq_true, if_false, Val.asNum, this, Rat.num_intCast]
  | num r =>
    simp only [Val.asNum, Option.some.injEq, Prod.mk.injEq] at h
    obtain ⟨rfl, rfl⟩ := h
    exact ⟨_, true, rfl, by simp [Val.mkNum, Val.asNum]⟩
  | bool b =>
    simp only [Val.asNum, Option.some.injEq, Prod.mk.injEq] at h
    obtain ⟨rfl, rfl⟩ := h
    refine ⟨_, false, rfl, ?_⟩
    cases b
    · have : ((0 : Rat) - 1) = ((-1 : Int) : Rat) := by decide +kernel
      simp only [Bool.false_eq_true, if_false, Val.mkNum, Val.asNum, this, Rat.num_intCast]
    · have : ((1 : Rat) - 1) = ((0 : Int) : Rat) := by decide +kernel
      simp only [if_true, Val.mkNum, Bool.false_eq_true, if_false, Val.asNum, this, Rat.num_intCast]
  | _ => simp [Val.asNum] at h


/-! ## loop frames -/

variable {V : String → Prop}
variable {img : Image} {K : Ctx} {stk : Stk} {fr : List Frame} {ev : List Val} {un : List Val} {σ : S} {s : State}
  {pc : Nat}

def putVar (vars : List (LoopVar × Val)) (l : LoopVar) (v : Val) : List (LoopVar × Val) :=
  if vars.any (·.1 == l) then vars.map fun (k, x) => if k == l then (k, v) else (k, x)
  else vars ++ [(l, v)]

def getVar (vars : List (LoopVar × Val)) (l : LoopVar) : Val :=
  ((vars.find? (·.1 == l)).map (·.2)).getD .none

theorem getVar_map (vars : List (LoopVar × Val)) (l : LoopVar) (v : Val)
    (h : vars.any (·.1 == l) = true) :
    getVar (vars.map fun (k, x) => if k == l then (k, v) else (k, x)) l = v := by
  induction vars with
  | nil => simp at h
  | cons p rest ih =>
    obtain ⟨k, x⟩ := p
    by_cases hk : k = l
    · subst hk
      simp [getVar]
    · have hk' : (k == l) = false := by simpa using hk
      have h' : rest.any (·.1 == l) = true := by simpa [hk'] using h
      have := ih h'
      unfold getVar at this ⊢
      rw [List.map_cons]
      simp only [hk', Bool.false_eq_true, if_false]
      rw [List.find?_cons]
      simp only [hk']
      exact this

theorem getVar_append (vars : List (LoopVar × Val)) (l : LoopVar) (v : Val)
    (h : vars.any (·.1 == l) = false) : getVar (vars ++ [(l, v)]) l = v := by
  induction vars with
  | nil => simp [getVar]
  | cons p rest ih =>
    obtain ⟨k, x⟩ := p
    simp only [List.any_cons, Bool.or_eq_false_iff] at h
    have := ih h.2
    unfold getVar at this ⊢
    rw [List.cons_append, List.find?_cons]
    simp only [h.1]
    exact this

theorem getVar_putVar (vars : List (LoopVar × Val)) (l : LoopVar) (v : Val) :
    getVar (putVar vars l v) l = v := by
  unfold putVar
  split
  · rename_i h; exact getVar_map vars l v h
  · rename_i h; exact getVar_append vars l v (Bool.eq_false_iff.mpr h)

theorem SimU.setStack {fr' : List Frame} (h : SimU K ⟨fr, ev⟩ un σ s) (hl : LoopsOnly fr')
    (hok : EvOk K.base fr' ev) :
    SimU K ⟨fr', ev⟩ un σ { s with stack := fr' ++ baseOf K σ.locals } :=
  ⟨h.running, rfl, hl, h.eval, hok, h.unnamed, h.locals, h.status, h.umode, h.globals, h.constants,
    h.lights, h.trace, h.defaultColor, h.matrix, h.draws, h.regs⟩

theorem loopsOnly_cons (vars : List (LoopVar × Val)) (ht : Nat) (hl : LoopsOnly fr) :
    LoopsOnly (.loop vars ht :: fr) := by
  intro f hf
  simp only [List.mem_cons] at hf
  rcases hf with rfl | hf
  · rfl
  · exact hl f hf

/-- the stacks inside a loop entered with the stacks `stk`: the loop's frame (hidden variables
`vars`, the height of the evaluation stack at `LOOP`) on top, and `extra` — the names a loop over
lights has still to visit — pushed on the evaluation stack -/
abbrev Stk.inner (stk : Stk) (vars : List (LoopVar × Val)) (extra : List Val) : Stk :=
  ⟨.loop vars stk.ev.length :: stk.frames, extra ++ stk.ev⟩

/-- `LOOP`: a fresh loop frame -/
theorem exec_loop (h : SimU K stk un σ s) (hpc : s.pc = (pc : Int)) (hi : img.code[pc]? = some .loop) :
    Exec img s (At K (pc + 1) (stk.inner [] []) un σ) := by
  apply Exec.step h.running
  apply Exec.done
  rw [step_eq _ { s with stack := (.loop [] stk.ev.length :: stk.frames) ++ baseOf K σ.locals } h.running hpc
    hi rfl (by simp only [execInstr, h.eval, h.stack, List.cons_append]) h.running]
  refine ⟨?_, ?_⟩
  · show s.pc + 1 = _
    rw [hpc]; omega
  · exact ⟨h.running, rfl, loopsOnly_cons [] _ h.loops, h.eval, .loop [] [] h.evok, h.unnamed, h.locals,
      h.status, h.umode, h.globals, h.constants, h.lights, h.trace, h.defaultColor, h.matrix, h.draws, h.regs⟩

/-- `END_LOOP`: the frame is dropped, the evaluation stack cut back to what it was at `LOOP` -/
theorem exec_endLoop (vars : List (LoopVar × Val)) (extra : List Val) (h : SimU K (stk.inner vars extra) un σ s)
    (hpc : s.pc = (pc : Int)) (hi : img.code[pc]? = some .endLoop) :
    Exec img s (At K (pc + 1) stk un σ) := by
  apply Exec.step h.running
  apply Exec.done
  have htrim : trimEval (extra ++ stk.ev) stk.ev.length = stk.ev := by
    rw [trimEval_append _ _ _ (Nat.le_refl _), trimEval_self]
  rw [step_eq _ { s with stack := stk.frames ++ baseOf K σ.locals, eval := stk.ev } h.running hpc hi rfl
    (by simp only [execInstr, h.stack, h.eval, List.cons_append, htrim]) h.running]
  obtain ⟨extra', ev0', he, hlen, hok⟩ := h.evok.inv
  have : stk.ev = ev0' := List.append_inj_right' he hlen
  refine ⟨?_, ?_⟩
  · show s.pc + 1 = _
    rw [hpc]; omega
  · exact ⟨h.running, rfl, h.loops.cons.2, rfl, by rw [this]; exact hok, h.unnamed, h.locals,
      h.status, h.umode, h.globals, h.constants, h.lights, h.trace, h.defaultColor, h.matrix, h.draws, h.regs⟩

/-- a store into a loop variable of the innermost loop -/
theorem putLoopVar_top (vars : List (LoopVar × Val)) (ht : Nat) (h : s.stack = .loop vars ht :: fr)
    (l : LoopVar) (v : Val) :
    s.putLoopVar l v = { s with stack := .loop (putVar vars l v) ht :: fr } := by
  simp only [State.putLoopVar, h, putVar]

theorem getLoopVar_top (vars : List (LoopVar × Val)) (ht : Nat) (h : s.stack = .loop vars ht :: fr)
    (l : LoopVar) : s.getLoopVar l = getVar vars l := by
  simp only [State.getLoopVar, h, getVar]


theorem Exec.next {img : Image} {s t : State} {P : State → Prop} (hs : s.status = .running)
    (e : Vm.step img s = t) (h : Exec img t P) : Exec img s P :=
  Exec.step hs (e ▸ h)

theorem step_popResult (img : Image) (s : State) (pc : Nat) (v : Val) (rest : List Val)
    (hs : s.status = .running) (hpc : s.pc = (pc : Int))
    (hi : img.code[pc]? = some (.pop result)) (hev : s.eval = v :: rest) :
    Vm.step img s = { s with pc := (pc : Int) + 1, eval := rest,
                             regs := fun r => if r = .result then v else s.regs r } := by
  rw [step_pop img s pc result v rest hs hpc hi hev]
  simp only [result, State.put, State.setReg]
  rw [if_pos (by exact hs)]
  apply State.ext' <;> first | rfl | (simp [hpc])

theorem step_popCounter (img : Image) (s : State) (pc : Nat) (v : Val) (rest : List Val)
    (vars : List (LoopVar × Val)) (ht : Nat) (fr : List Frame)
    (hs : s.status = .running) (hpc : s.pc = (pc : Int))
    (hi : img.code[pc]? = some (.pop counter)) (hev : s.eval = v :: rest)
    (hst : s.stack = .loop vars ht :: fr) :
    Vm.step img s = { s with pc := (pc : Int) + 1, eval := rest,
                             stack := .loop (putVar vars .counter v) ht :: fr } := by
  rw [step_pop img s pc counter v rest hs hpc hi hev]
  have : ({ s with eval := rest } : State).put counter v =
      { s with eval := rest, stack := .loop (putVar vars .counter v) ht :: fr } := by
    simp only [counter, State.put]
    exact putLoopVar_top (s := { s with eval := rest }) vars ht hst _ _
  rw [this, if_pos (by exact hs)]
  apply State.ext' <;> first | rfl | (simp [hpc])

/-- `counter > 0` into `result` -/
theorem exec_counterTest (vars : List (LoopVar × Val)) (ht : Nat) (cnt : Val) (q : Rat) (fl : Bool)
    (h : SimU K ⟨.loop vars ht :: fr, ev⟩ un σ s) (hpc : s.pc = (pc : Int))
    (hc : CodeAt img pc counterTest) (hcnt : getVar vars .counter = cnt)
    (hnum : cnt.asNum = some (q, fl)) :
    Exec img s (fun t => At K (pc + 4) ⟨.loop vars ht :: fr, ev⟩ un σ t ∧
      t.regs .result = .bool (decide (0 < q))) := by
  have hne : cnt = .none → False := by rintro rfl; simp [Val.asNum] at hnum
  simp only [counterTest, testOp] at hc
  have hrd : s.read (.loopVar .counter) = cnt := by
    simp only [State.read, getLoopVar_top vars ht h.stack, hcnt]
  refine Exec.next h.running (step_push img s pc _ cnt h.running hpc hc.head (by simp) hrd hne) ?_
  refine Exec.next (by exact h.running)
    (step_pushq img _ (pc + 1) _ (by exact h.running) rfl hc.tail.head) ?_
  refine Exec.next (by exact h.running)
    (step_binop img _ (pc + 1 + 1) .gt cnt (.int 0) _ s.eval (by exact h.running) rfl
      hc.tail.tail.head rfl (cmp_gt_zero cnt q fl hnum)) ?_
  refine Exec.next (by exact h.running)
    (step_popResult img _ (pc + 1 + 1 + 1) _ s.eval (by exact h.running) rfl
      hc.tail.tail.tail.head rfl) ?_
  apply Exec.done
  refine ⟨⟨rfl, ?_⟩, by simp⟩
  exact ⟨h.running, h.stack, h.loops, h.eval, h.evok, h.unnamed, h.locals, h.status, h.umode, h.globals, h.constants,
    h.lights, h.trace, h.defaultColor, h.matrix, h.draws, fun r hr => by
      simp only [if_neg hr]; exact h.regs r hr⟩

/-- `counter := counter - 1` -/
theorem exec_loopPost (vars : List (LoopVar × Val)) (ht : Nat) (cnt c' : Val)
    (h : SimU K ⟨.loop vars ht :: fr, ev⟩ un σ s) (hpc : s.pc = (pc : Int))
    (hc : CodeAt img pc (loopPost none)) (hcnt : getVar vars .counter = cnt)
    (hne : cnt = .none → False) (hsub : binVal .sub cnt (.int 1) = some c') :
    Exec img s (At K (pc + 4) ⟨.loop (putVar vars .counter c') ht :: fr, ev⟩ un σ) := by
  simp only [loopPost, List.append_nil] at hc
  have hrd : s.read (.loopVar .counter) = cnt := by
    simp only [State.read, getLoopVar_top vars ht h.stack, hcnt]
  refine Exec.next h.running (step_push img s pc _ cnt h.running hpc hc.head (by simp) hrd hne) ?_
  refine Exec.next (by exact h.running)
    (step_pushq img _ (pc + 1) _ (by exact h.running) rfl hc.tail.head) ?_
  refine Exec.next (by exact h.running)
    (step_binop img _ (pc + 1 + 1) .sub cnt (.int 1) c' s.eval (by exact h.running) rfl
      hc.tail.tail.head rfl hsub) ?_
  refine Exec.next (by exact h.running)
    (step_popCounter img _ (pc + 1 + 1 + 1) c' s.eval vars ht (fr ++ baseOf K σ.locals)
      (by exact h.running) rfl hc.tail.tail.tail.head rfl (by exact h.stack)) ?_
  apply Exec.done
  refine ⟨rfl, ?_⟩
  exact ⟨h.running, rfl, loopsOnly_cons _ _ h.loops.cons.2, h.eval, h.evok.retop _, h.unnamed, h.locals, h.status, h.umode,
    h.globals, h.constants, h.lights, h.trace, h.defaultColor, h.matrix, h.draws, h.regs⟩

/-- `repeat n`: the count goes into the loop frame -/
theorem exec_toCounter (v : Rv) (hv : RvOK v) (vars : List (LoopVar × Val)) (ht : Nat)
    (h : SimU K ⟨.loop vars ht :: fr, ev⟩ un σ s) (hpc : s.pc = (pc : Int))
    (hc : CodeAt img pc (genRv v (.to counter)))
    {f : Nat} {x : Val} {σ' : S} (hev : evalRv f v σ = .ok (x, σ')) :
    σ' = σ ∧ Exec img s (At K (pc + (genRv v (.to counter)).length)
      ⟨.loop (putVar vars .counter x) ht :: fr, ev⟩ un σ) := by
  have hput : s.put counter x =
      { s with stack := (.loop (putVar vars .counter x) ht :: fr) ++ baseOf K σ.locals } := by
    simp only [counter, State.put]
    exact putLoopVar_top (fr := fr ++ baseOf K σ.locals) vars ht h.stack _ _
  obtain ⟨rfl, hrun⟩ := run_genRv v hv counter (by simp [counter]) h hpc hc hev
    (by rw [hput]; exact h.running)
  refine ⟨rfl, Exec.of_run _ hrun ⟨rfl, ?_⟩⟩
  rw [hput]
  exact (h.setStack (loopsOnly_cons _ _ h.loops.cons.2) (h.evok.retop _)).setPc _

theorem _root_.Bardolph.VmSteps.CodeAt.cast {img : Image} {p p' : Nat} {c : List Instr} (h : CodeAt img p c)
    (e : p = p') : CodeAt img p' c := e ▸ h


/-- a value position (with calls) evaluated into a hidden variable of the innermost loop -/
theorem rv_toLoopVar {f : Nat} (ihRv : RvToGoal V img K f) (v : Rv) (hv : RvC V v) (l : LoopVar)
    (vars : List (LoopVar × Val)) (ht : Nat) {σ' : S} {x : Val}
    (h : Sim K ⟨.loop vars ht :: fr, ev⟩ σ s) (hpc : s.pc = (pc : Int))
    (hc : CodeAt img pc (genRv v (.to (.loopVar l)))) (hev : evalRv f v σ = .ok (x, σ')) :
    Exec img s (At K (pc + (genRv v (.to (.loopVar l))).length) ⟨.loop (putVar vars l x) ht :: fr, ev⟩ [] σ') := by
  have hput : ∀ s0, Sim K ⟨.loop vars ht :: fr, ev⟩ σ' s0 → s0.put (.loopVar l) x =
      { s0 with stack := (.loop (putVar vars l x) ht :: fr) ++ baseOf K σ'.locals } := by
    intro s0 h0
    simp only [State.put]
    exact putLoopVar_top (fr := fr ++ baseOf K σ'.locals) vars ht h0.stack _ _
  refine (ihRv v hv (.loopVar l) (by simp) σ σ' x s pc _ h hpc hc hev
    (fun s0 h0 => by rw [hput s0 h0]; exact h0.running)).mono fun t ⟨s0, h0, ht'⟩ => ?_
  subst ht'
  rw [hput s0 h0]
  exact ⟨rfl, (h0.setStack (loopsOnly_cons _ _ h0.loops.cons.2) (h0.evok.retop _)).setPc _⟩

/-! ## hidden loop variables: the records of `Proofs/Loops.lean` -/

theorem getVar_eq : @getVar = @Loops.getLV := rfl
theorem putVar_eq : @putVar = @Loops.setLV := rfl

theorem getVar_putVar_other (vars : List (LoopVar × Val)) (l l' : LoopVar) (v : Val) (hne : l' ≠ l) :
    getVar (putVar vars l v) l' = getVar vars l' := by
  rw [getVar_eq, putVar_eq]; exact Loops.getLV_setLV_other vars l l' v hne

/-- the frames and `result` belong to the generated code: a change of the top loop frame's record
and of `result` keeps the relation -/
theorem SimU.retop {vars : List (LoopVar × Val)} {ht : Nat} (h : SimU K ⟨.loop vars ht :: fr, ev⟩ un σ s)
    (vars' : List (LoopVar × Val)) (R : Reg → Val) (hR : ∀ q, q ≠ .result → R q = s.regs q) (p : Int) :
    SimU K ⟨.loop vars' ht :: fr, ev⟩ un σ
      { s with pc := p, regs := R, stack := .loop vars' ht :: (fr ++ baseOf K σ.locals) } :=
  ⟨h.running, rfl, loopsOnly_cons _ _ h.loops.cons.2, h.eval, h.evok.retop _, h.unnamed, h.locals, h.status, h.umode,
    h.globals, h.constants, h.lights, h.trace, h.defaultColor, h.matrix, h.draws,
    fun r hr => by rw [h.regs r hr]; exact (hR r hr).symm⟩

theorem SimU.readLV {vars : List (LoopVar × Val)} {ht : Nat} (h : SimU K ⟨.loop vars ht :: fr, ev⟩ un σ s)
    (l : LoopVar) : s.getLoopVar l = getVar vars l :=
  getLoopVar_top (fr := fr ++ baseOf K σ.locals) vars ht h.stack l

/-! ### what a `PUSH` puts on the evaluation stack, seen from the source level -/

theorem pf_lv {vars : List (LoopVar × Val)} {ht : Nat} (h : SimU K ⟨.loop vars ht :: fr, ev⟩ un σ s)
    (ev : List Val) (l : LoopVar) (v : Val) (hv : getVar vars l = v) (hne : v = .none → False) :
    Loops.pfStep s.read ev (.push (.loopVar l)) = some (v :: ev) :=
  Loops.pfStep_push_lv s ev l v (by rw [h.readLV, hv]) hne

theorem pf_var (h : SimU K stk un σ s) (ev : List Val) (n : String) (v : Val) (hv : σ.lookup n = v)
    (hne : v = .none → False) : Loops.pfStep s.read ev (.push (.var n)) = some (v :: ev) :=
  Loops.pfStep_push_var s ev n v (by rw [← h.lookup, hv]) hne

theorem pf_reg (h : SimU K stk un σ s) (ev : List Val) (r : Reg) (v : Val) (hr : r ≠ .result)
    (hv : σ.vm.regs r = v) (hne : v = .none → False) :
    Loops.pfStep s.read ev (.push (.reg r)) = some (v :: ev) :=
  Loops.pfStep_push_reg s ev r v (by rw [← h.regs r hr, hv]) hne

theorem pfStep_op (rd : Src → Val) (x y : Val) (rest : List Val) (o : Operator) :
    Loops.pfStep rd (y :: x :: rest) (.op o) = (binVal o x y).map (· :: rest) := rfl

/-! ### instruction groups `a; b; OP o; POP d` -/

/-- … into `result` -/
theorem exec_group_result (a b : Instr) (o : Operator) (x y r : Val)
    (h : SimU K stk un σ s) (hpc : s.pc = (pc : Int)) (hc : CodeAt img pc [a, b, .op o, .pop result])
    (ha : Loops.pfStep s.read s.eval a = some (x :: s.eval))
    (hb : Loops.pfStep s.read (x :: s.eval) b = some (y :: x :: s.eval)) (ho : binVal o x y = some r) :
    Exec img s (fun t => At K (pc + 4) stk un σ t ∧ t.regs .result = r) := by
  have hrun := Loops.run_group_reg img a b o .result s pc x y r h.running hpc hc ha hb ho
  refine Exec.of_run 4 hrun ⟨⟨by simp, ?_⟩, by simp⟩
  exact (h.setResult r).setPc _

/-- … into a hidden variable of the innermost loop -/
theorem exec_group_lv {vars : List (LoopVar × Val)} {ht : Nat} (a b : Instr) (o : Operator) (l : LoopVar)
    (x y r : Val) (h : SimU K ⟨.loop vars ht :: fr, ev⟩ un σ s) (hpc : s.pc = (pc : Int))
    (hc : CodeAt img pc [a, b, .op o, .pop (.loopVar l)])
    (ha : Loops.pfStep s.read s.eval a = some (x :: s.eval))
    (hb : Loops.pfStep s.read (x :: s.eval) b = some (y :: x :: s.eval)) (ho : binVal o x y = some r) :
    Exec img s (At K (pc + 4) ⟨.loop (putVar vars l r) ht :: fr, ev⟩ un σ) := by
  have hrun := Loops.run_group_lv img a b o l s pc x y r vars ht (fr ++ baseOf K σ.locals) h.running hpc hc
    h.stack ha hb ho
  refine Exec.of_run 4 hrun ⟨by simp, ?_⟩
  exact h.retop (putVar vars l r) s.regs (fun _ _ => rfl) _

/-- … into a script variable -/
theorem exec_group_var (a b : Instr) (o : Operator) (n : String) (x y r : Val)
    (h : SimU K stk un σ s) (hpc : s.pc = (pc : Int)) (hc : CodeAt img pc [a, b, .op o, .pop (.var n)])
    (ha : Loops.pfStep s.read s.eval a = some (x :: s.eval))
    (hb : Loops.pfStep s.read (x :: s.eval) b = some (y :: x :: s.eval)) (ho : binVal o x y = some r) :
    Exec img s (At K (pc + 4) stk un (σ.assign n r)) := by
  have hrun := Loops.run_group_var img a b o n s pc x y r h.running hpc hc ha hb ho
  exact Exec.of_run 4 hrun ⟨by simp, (h.assign n r).setPc _⟩

/-- a postfix run stored in a hidden variable of the innermost loop -/
theorem exec_pf_lv {vars : List (LoopVar × Val)} {ht : Nat} (pf : List Instr) (l : LoopVar) (r : Val)
    (h : SimU K ⟨.loop vars ht :: fr, ev⟩ un σ s) (hpc : s.pc = (pc : Int))
    (hc : CodeAt img pc (pf ++ [.pop (.loopVar l)]))
    (hr : Loops.pfRun s.read pf s.eval = some (r :: s.eval)) :
    Exec img s (At K (pc + pf.length + 1) ⟨.loop (putVar vars l r) ht :: fr, ev⟩ un σ) := by
  have hrun := Loops.run_pf_lv img pf l s pc r vars ht (fr ++ baseOf K σ.locals) h.running hpc hc h.stack hr
  refine Exec.of_run _ hrun ⟨by simp, ?_⟩
  exact h.retop (putVar vars l r) s.regs (fun _ _ => rfl) _

/-! ### single instructions on hidden variables -/

/-- `MOVEQ v <hidden variable>` -/
theorem exec_moveqLV {vars : List (LoopVar × Val)} {ht : Nat} (v : Val) (l : LoopVar)
    (h : SimU K ⟨.loop vars ht :: fr, ev⟩ un σ s) (hpc : s.pc = (pc : Int))
    (hi : img.code[pc]? = some (.moveq v (.loopVar l))) :
    Exec img s (At K (pc + 1) ⟨.loop (putVar vars l v) ht :: fr, ev⟩ un σ) := by
  have hrun := Loops.run_moveq_lv img s pc l v vars ht (fr ++ baseOf K σ.locals) h.running hpc hi h.stack
  refine Exec.of_run 1 hrun ⟨by simp, ?_⟩
  exact h.retop (putVar vars l v) s.regs (fun _ _ => rfl) _

/-- `MOVE <hidden variable> v`: the index variable gets its first value -/
theorem exec_moveLVVar {vars : List (LoopVar × Val)} {ht : Nat} (l : LoopVar) (n : String)
    (h : SimU K ⟨.loop vars ht :: fr, ev⟩ un σ s) (hpc : s.pc = (pc : Int))
    (hi : img.code[pc]? = some (.move (.loopVar l) (.var n))) :
    Exec img s (At K (pc + 1) ⟨.loop vars ht :: fr, ev⟩ un (σ.assign n (getVar vars l))) := by
  have hrun := Loops.run_move_lv_var img s pc l n vars ht (fr ++ baseOf K σ.locals) h.running hpc hi h.stack
  exact Exec.of_run 1 hrun ⟨by simp, (h.assign n _).setPc _⟩

/-- a value position evaluated into a hidden variable of the innermost loop -/
theorem exec_toLoopVar (v : Rv) (hv : RvOK v) (l : LoopVar) (vars : List (LoopVar × Val)) (ht : Nat)
    (h : SimU K ⟨.loop vars ht :: fr, ev⟩ un σ s) (hpc : s.pc = (pc : Int))
    (hc : CodeAt img pc (genRv v (.to (.loopVar l))))
    {f : Nat} {x : Val} {σ' : S} (hev : evalRv f v σ = .ok (x, σ')) :
    σ' = σ ∧ Exec img s (At K (pc + (genRv v (.to (.loopVar l))).length)
      ⟨.loop (putVar vars l x) ht :: fr, ev⟩ un σ) := by
  have hput : s.put (.loopVar l) x =
      { s with stack := (.loop (putVar vars l x) ht :: fr) ++ baseOf K σ.locals } := by
    simp only [State.put]
    exact putLoopVar_top (fr := fr ++ baseOf K σ.locals) vars ht h.stack _ _
  obtain ⟨rfl, hrun⟩ := run_genRv v hv (.loopVar l) (by simp) h hpc hc hev
    (by rw [hput]; exact h.running)
  refine ⟨rfl, Exec.of_run _ hrun ⟨rfl, ?_⟩⟩
  rw [hput]
  exact (h.setStack (loopsOnly_cons _ _ h.loops.cons.2) (h.evok.retop _)).setPc _


/-! ## the prologues of the index-variable forms -/

theorem numToCount_num {x : Val} {p : Rat} (h : numToCount x = some p) : ∃ fl, x.asNum = some (p, fl) := by
  simp only [numToCount, Option.map_eq_some_iff] at h
  obtain ⟨⟨q', fl⟩, h1, h2⟩ := h
  exact ⟨fl, by rw [h1]; simp at h2; rw [h2]⟩

theorem sub_some_ne_none {a b d : Val} (h : Val.sub a b = some d) : (a = .none → False) ∧ (b = .none → False) := by
  constructor
  · rintro rfl; simp [Val.sub, Val.asNum] at h
  · rintro rfl; cases a <;> simp [Val.sub, Val.asNum] at h

theorem div_some_ne_none {a b d : Val} (h : Val.div a b = some d) : (a = .none → False) ∧ (b = .none → False) := by
  constructor
  · rintro rfl; simp [Val.div, Val.asNum] at h
  · rintro rfl; cases a <;> simp [Val.div, Val.asNum] at h

/-- **`_calc_counter`** (`repeat with v from a to b`): with numbers in `first` and `last`, the hidden
counter becomes `|last − first| + 1` and `incr` becomes `+1` or `−1` -/
theorem exec_calcCounter {vars : List (LoopVar × Val)} {ht : Nat} (x y : Val) (p q : Rat)
    (h : SimU K ⟨.loop vars ht :: fr, ev⟩ un σ s) (hpc : s.pc = (pc : Int)) (hc : CodeAt img pc calcCounter)
    (hf : getVar vars .first = x) (hl : getVar vars .last = y)
    (hp : numToCount x = some p) (hq : numToCount y = some q) :
    Exec img s (fun t => ∃ vars' fl, At K (pc + 20) ⟨.loop vars' ht :: fr, ev⟩ un σ t ∧
      (getVar vars' .counter).asNum = some ((if q < p then p - q else q - p) + 1, fl) ∧
      getVar vars' .incr = (if q < p then .int (-1) else .int 1)) := by
  obtain ⟨fx, hx⟩ := numToCount_num hp
  obtain ⟨fy, hy⟩ := numToCount_num hq
  obtain ⟨k, vars', hrun, hcnt, hinc, _⟩ := run_calcCounter img s pc vars ht (fr ++ baseOf K σ.locals) p q fx fy
    h.running hpc hc h.stack (by rw [← getVar_eq, hf]; exact hx) (by rw [← getVar_eq, hl]; exact hy)
  have hlt : (q - p < 0) ↔ q < p := by constructor <;> intro h <;> grind
  refine Exec.of_run k hrun ⟨vars', fy || fx, ⟨by simp, h.retop vars' _ (fun r hr => by simp [hr]) _⟩, ?_, ?_⟩
  · rw [getVar_eq]
    have : (if q - p < 0 then -(q - p) else q - p) = (if q < p then p - q else q - p) := by
      by_cases hh : q < p
      · rw [if_pos hh, if_pos (hlt.2 hh)]; grind
      · rw [if_neg hh, if_neg (fun h' => hh (hlt.1 h'))]
    rw [← this]
    exact hcnt
  · rw [getVar_eq, hinc]
    by_cases hh : q < p
    · rw [if_pos hh, if_pos (hlt.2 hh)]
    · rw [if_neg hh, if_neg (fun h' => hh (hlt.1 h'))]

/-- **`_calc_incr`** (`… with v from a to b` over a count): `incr` becomes what `Sem.interpIncr`
says -/
theorem exec_calcIncr {vars : List (LoopVar × Val)} {ht : Nat} (cnt x y i : Val)
    (h : SimU K ⟨.loop vars ht :: fr, ev⟩ un σ s) (hpc : s.pc = (pc : Int)) (hc : CodeAt img pc calcIncr)
    (hcnt : getVar vars .counter = cnt) (hf : getVar vars .first = x) (hl : getVar vars .last = y)
    (hcn : cnt = .none → False) (hi : interpIncr cnt x y = some i) :
    Exec img s (At K (pc + 15) ⟨.loop (putVar vars .incr i) ht :: fr, ev⟩ un σ) := by
  have hg := exec_group_result (.push (.loopVar .counter)) (.pushq (.int 1)) .noteq cnt (.int 1)
    (.bool (!Val.beq cnt (.int 1))) h hpc (hc.slice 0 4) (pf_lv h _ .counter cnt hcnt hcn)
    (Loops.pfStep_pushq _ _ _) rfl
  refine hg.trans fun t ⟨ht0, hres⟩ => ?_
  unfold interpIncr at hi
  by_cases hb : Val.beq cnt (.int 1) = true
  · -- a single value: no increment
    rw [if_pos hb] at hi
    simp only [Option.some.injEq] at hi
    subst hi
    refine (exec_jump .ifFalse 10 (pc + 14) (by simp) ht0.2 ht0.1 (hc.get 4 (by decide))
      (by simp [hres, hb, Val.truthy]; omega)).trans fun t1 ht1 => ?_
    exact exec_moveqLV (.int 0) .incr ht1.2 ht1.1 (hc.get 14 (by decide))
  · rw [if_neg hb] at hi
    have hb' : Val.beq cnt (.int 1) = false := by simpa using hb
    obtain ⟨d, hd, hi⟩ := Option.bind_eq_some_iff.1 hi
    obtain ⟨m, hm, hi⟩ := Option.bind_eq_some_iff.1 hi
    have hdn := sub_some_ne_none (show Val.sub y x = some d from hd)
    refine (exec_jump .ifFalse 10 (pc + 5) (by simp) ht0.2 ht0.1 (hc.get 4 (by decide))
      (by simp [hres, hb', Val.truthy]; omega)).trans fun t1 ht1 => ?_
    have hpf : Loops.pfRun t1.read [Instr.push (.loopVar .last), .push (.loopVar .first), .op .sub,
        .push (.loopVar .counter), .pushq (.int 1), .op .sub, .op .div] t1.eval = some (i :: t1.eval) := by
      simp only [Loops.pfRun, pf_lv ht1.2 _ .last y hl hdn.1, pf_lv ht1.2 _ .first x hf hdn.2,
        pf_lv ht1.2 _ .counter cnt hcnt hcn, Loops.pfStep_pushq, pfStep_op, Option.bind_some,
        show binVal .sub y x = some d from hd, show binVal .sub cnt (.int 1) = some m from hm,
        show binVal .div d m = some i from hi, Option.map_some]
    refine (exec_pf_lv _ .incr i ht1.2 ht1.1 (hc.slice 5 8) hpf).trans fun t2 ht2 => ?_
    exact exec_jump .always 2 (pc + 15) (by simp) ht2.2 ht2.1 (hc.get 13 (by decide)) (by simp; omega)


theorem turnOf_eq (m : UnitMode) : Sem.turnOf m = Bardolph.turnOf m := by
  cases m <;> rfl

/-- **the increment of `cycle`**: a full turn in the current units divided by the count, nothing
for a count of 0 — what `Sem.cycleIncr` says -/
theorem exec_cycleTail {vars : List (LoopVar × Val)} {ht : Nat} (cnt i : Val) (q : Rat) (fl : Bool)
    (h : SimU K ⟨.loop vars ht :: fr, ev⟩ un σ s) (hpc : s.pc = (pc : Int)) (hc : CodeAt img pc cycleTail)
    (hcnt : getVar vars .counter = cnt) (hnum : cnt.asNum = some (q, fl))
    (hi : cycleIncr σ.vm.mode cnt = some i) :
    Exec img s (At K (pc + 18) ⟨.loop (putVar vars .incr i) ht :: fr, ev⟩ un σ) := by
  obtain ⟨m, hm⟩ := h.umode.1
  have hms : s.regs .unitMode = .mode m := by rw [← h.regs _ (by decide), hm]
  have hmode : σ.vm.mode = m := by simp [State.mode, hm]
  have hn : Loops.Num (Loops.getLV vars .counter) q fl := by rw [← getVar_eq, hcnt]; exact hnum
  have hn' : Loops.Num cnt q fl := hnum
  obtain ⟨k, R, hrun, hR⟩ := run_cycleIncr_val img s pc vars ht (fr ++ baseOf K σ.locals) q fl m h.running hpc
    hc h.stack hn hms
  have hval : (if q = 0 then Val.int 0 else .num (((Bardolph.turnOf m : Int) : Rat) / q)) = i := by
    rw [hmode] at hi
    unfold cycleIncr at hi
    rw [Loops.num_beq_int hn' 0] at hi
    by_cases h0 : q = 0
    · have : decide (q = ((0 : Int) : Rat)) = true := by simp [h0]
      rw [if_pos this] at hi
      rw [if_pos h0]
      exact Option.some.inj hi
    · have : ¬ decide (q = ((0 : Int) : Rat)) = true := by simpa using h0
      rw [if_neg this] at hi
      rw [if_neg h0]
      have hd := Loops.num_div (Loops.Num.int (Sem.turnOf m)) hn' h0
      have hi' : Val.div (.int (Sem.turnOf m)) cnt = some i := hi
      rw [hd] at hi'
      rw [← turnOf_eq]
      exact Option.some.inj hi'
  rw [hval] at hrun
  refine Exec.of_run k hrun ⟨by simp, ?_⟩
  exact h.retop (putVar vars .incr i) R hR _

/-- the code of a `with` clause -/
def withCode : WithClause → List Instr
  | .fromTo v a b => indexVarRange v a b false
  | .cycle v start => cycleVarRange v start

theorem withClause_some (wc : WithClause) : Gen.withClause (some wc) = withCode wc := by
  cases wc <;> rfl

theorem evalWith_error {wc : WithClause} (f : Nat) (cnt : Val) (σ : S) (o : Outcome)
    (h : evalWith f wc cnt σ = .error o) : o ≠ .normal ∧ o ≠ .brk ∧ o ≠ .ret := by
  cases f with
  | zero => simp [evalWith] at h; subst h; simp
  | succ f =>
    cases wc with
    | fromTo v a b =>
      simp only [evalWith] at h
      split at h
      · rename_i o' he
        simp at h; subst h
        exact evalRvC_error he
      · split at h
        · rename_i o' he
          simp at h; subst h
          exact evalRvC_error he
        · simp at h
    | cycle v start =>
      cases start with
      | none => simp [evalWith] at h
      | some r =>
        simp only [evalWith] at h
        split at h
        · rename_i o' he
          simp at h; subst h
          exact evalRvC_error he
        · simp at h

/-- **the `with` clause**: operands into `first`/`last`, the index variable set to its first value,
the increment computed from the count in the hidden counter — as `Sem.evalWith` says -/
theorem exec_with {f : Nat} (ihRvs : RvToGoals V img K f) (wc : WithClause) (hw : WithOK V wc)
    {vars : List (LoopVar × Val)} {ht : Nat} (cnt : Val)
    (q : Rat) (fl : Bool) (h : Sim K ⟨.loop vars ht :: fr, ev⟩ σ s) (hpc : s.pc = (pc : Int))
    (hc : CodeAt img pc (withCode wc)) (hcnt : getVar vars .counter = cnt)
    (hnum : cnt.asNum = some (q, fl))
    {i : Val} {σ' : S} (hev : evalWith f wc cnt σ = .ok (some i, σ')) :
    Exec img s (fun t => ∃ vars', At K (pc + (withCode wc).length) ⟨.loop vars' ht :: fr, ev⟩ [] σ' t ∧
      getVar vars' .counter = cnt ∧ getVar vars' .incr = i) := by
  have hcn : cnt = .none → False := by rintro rfl; simp [Val.asNum] at hnum
  cases f with
  | zero => simp [evalWith] at hev
  | succ f =>
  have ihRv := ihRvs f (Nat.le_succ f)
  cases wc with
  | fromTo v a b =>
    simp only [evalWith] at hev
    split at hev
    · simp at hev
    · rename_i x σ1 hea
      split at hev
      · simp at hev
      · rename_i y σ2 heb
        simp only [Except.ok.injEq, Prod.mk.injEq] at hev
        obtain ⟨hi, rfl⟩ := hev
        simp only [withCode, indexVarRange, Bool.false_eq_true, if_false] at hc ⊢
        refine (rv_toLoopVar ihRv a hw.1 .first vars ht h hpc hc.left.left.left hea).trans fun t1 ht1 => ?_
        refine (rv_toLoopVar ihRv b hw.2 .last _ ht ht1.2 ht1.1 hc.left.left.right heb).trans fun t2 ht2 => ?_
        have hfirst : getVar (putVar (putVar vars .first x) .last y) .first = x := by
          rw [getVar_putVar_other _ _ _ _ (by decide), getVar_putVar]
        have hlast : getVar (putVar (putVar vars .first x) .last y) .last = y := getVar_putVar _ _ _
        have hcounter : getVar (putVar (putVar vars .first x) .last y) .counter = cnt := by
          rw [getVar_putVar_other _ _ _ _ (by decide), getVar_putVar_other _ _ _ _ (by decide), hcnt]
        have hm := hc.left.right.head
        simp only [List.length_append] at hm
        refine (exec_moveLVVar .first v ht2.2 ht2.1 (idx hm)).trans fun t3 ht3 => ?_
        rw [hfirst] at ht3
        have hcc := hc.right
        simp only [List.length_append, List.length_cons, List.length_nil] at hcc
        refine (exec_calcIncr cnt x y i ht3.2 ht3.1 (cat hcc) hcounter hfirst hlast hcn hi).mono fun t4 ht4 => ?_
        refine ⟨_, ⟨?_, ht4.2⟩, ?_, getVar_putVar _ _ _⟩
        · rw [ht4.1]; simp [calcIncr, testOp]; omega
        · rw [getVar_putVar_other _ _ _ _ (by decide), hcounter]
  | cycle v start =>
    simp only [evalWith] at hev
    rw [show withCode (.cycle v start) = cycleVarRange v start from rfl, cycleVarRange_eq] at hc ⊢
    -- from the point where `first` holds the start value
    have cont : ∀ (σ0 : S) (x : Val) (t1 : State) (L : Nat),
        At K (pc + L) ⟨.loop (putVar vars .first x) ht :: fr, ev⟩ [] σ0 t1 →
        CodeAt img (pc + L) ([Instr.move (.loopVar .first) (.var v)] ++ cycleTail) →
        (cycleIncr σ0.vm.mode cnt, σ0.assign v x) = (some i, σ') →
        Exec img t1 (fun t => ∃ vars', At K (pc + (L + 1 + 18)) ⟨.loop vars' ht :: fr, ev⟩ [] σ' t ∧
          getVar vars' .counter = cnt ∧ getVar vars' .incr = i) := by
      intro σ0 x t1 L ht1 hcl hres
      simp only [Prod.mk.injEq] at hres
      obtain ⟨hi, rfl⟩ := hres
      have hcounter : getVar (putVar vars .first x) .counter = cnt := by
        rw [getVar_putVar_other _ _ _ _ (by decide), hcnt]
      refine (exec_moveLVVar .first v ht1.2 ht1.1 hcl.head).trans fun t2 ht2 => ?_
      rw [getVar_putVar] at ht2
      have hi' : cycleIncr (σ0.assign v x).vm.mode cnt = some i := by
        have : (σ0.assign v x).vm.mode = σ0.vm.mode := by
          simp only [S.assign]
          repeat' split
          all_goals rfl
        rw [this]; exact hi
      refine (exec_cycleTail cnt i q fl ht2.2 ht2.1 hcl.tail hcounter hnum hi').mono fun t3 ht3 => ?_
      refine ⟨_, ⟨?_, ht3.2⟩, ?_, getVar_putVar _ _ _⟩
      · rw [ht3.1]; congr 1
      · rw [getVar_putVar_other _ _ _ _ (by decide), hcounter]
    have hlen : cycleTail.length = 18 := rfl
    cases start with
    | none =>
      simp only [Except.ok.injEq] at hev
      have hc0 : CodeAt img pc ([Instr.moveq (.int 0) (.loopVar .first)] ++
          ([Instr.move (.loopVar .first) (.var v)] ++ cycleTail)) := by
        simpa [startRv, genRv] using hc
      refine (exec_moveqLV (.int 0) .first h hpc hc0.head).trans fun t1 ht1 => ?_
      refine (cont σ (.int 0) t1 1 ht1 hc0.right hev).mono fun t ht => ?_
      simpa [startRv, genRv, hlen] using ht
    | some r =>
      have hr : RvC V r := hw
      simp only [] at hev
      split at hev
      · simp at hev
      · rename_i x σ1 her
        simp only [Except.ok.injEq] at hev
        have hcr : CodeAt img pc (genRv r (.to (.loopVar .first)) ++
            ([Instr.move (.loopVar .first) (.var v)] ++ cycleTail)) := by
          simpa [startRv] using hc
        refine (rv_toLoopVar ihRv r hr .first vars ht h hpc hcr.left her).trans fun t1 ht1 => ?_
        refine (cont σ1 x t1 _ ht1 hcr.right hev).mono fun t ht => ?_
        simpa [startRv, hlen, Nat.add_assoc] using ht

/-! ## names on the evaluation stack (loops over lights) -/

/-- what has been pushed since the innermost `LOOP` may be anything -/
theorem EvOk.setExtra {base : List Val} {frames : List Frame} {ev0 extra : List Val}
    {vars : List (LoopVar × Val)} (h : EvOk base (.loop vars ev0.length :: frames) (extra ++ ev0))
    (extra' : List Val) : EvOk base (.loop vars ev0.length :: frames) (extra' ++ ev0) := by
  obtain ⟨e1, ev1, he, hlen, hok⟩ := h.inv
  have : ev0 = ev1 := List.append_inj_right' he hlen
  subst this
  exact .loop vars extra' hok

/-- the evaluation stack above the innermost `LOOP` changed (a name pushed or popped) -/
theorem SimU.setExtra {vars : List (LoopVar × Val)} {extra : List Val}
    (h : SimU K (stk.inner vars extra) un σ s) (extra' : List Val) :
    SimU K (stk.inner vars extra') un σ { s with eval := extra' ++ stk.ev } :=
  ⟨h.running, h.stack, h.loops, rfl, h.evok.setExtra extra', h.unnamed, h.locals, h.status, h.umode,
    h.globals, h.constants, h.lights, h.trace, h.defaultColor, h.matrix, h.draws, h.regs⟩

/-- `POP v`: the next name goes into the loop's variable -/
theorem exec_popVar {vars : List (LoopVar × Val)} (v : String) (x : Val) (extra : List Val)
    (h : SimU K (stk.inner vars (x :: extra)) un σ s) (hpc : s.pc = (pc : Int))
    (hi : img.code[pc]? = some (.pop (.var v))) :
    Exec img s (At K (pc + 1) (stk.inner vars extra) un (σ.assign v x)) := by
  have h1 := (h.setExtra extra).assign v x
  apply Exec.step h.running
  apply Exec.done
  rw [step_pop img s pc (.var v) x (extra ++ stk.ev) h.running hpc hi (by rw [h.eval]; rfl)]
  have hst : (({ s with eval := extra ++ stk.ev } : State).put (.var v) x).status = .running := h1.running
  rw [if_pos hst]
  refine ⟨?_, h1.setPc _⟩
  show (State.putVariable _ v x).pc + 1 = _
  rw [Loops.putVariable_pc]
  show s.pc + 1 = _
  rw [hpc]; omega

/-- a value pushed inside the innermost loop -/
theorem SimU.pushed {vars : List (LoopVar × Val)} {extra : List Val}
    (h : SimU K (stk.inner vars extra) un σ s) (x : Val) (p : Int) :
    SimU K (stk.inner vars (x :: extra)) un σ { s with pc := p, eval := x :: s.eval } :=
  ⟨h.running, h.stack, h.loops, by show x :: s.eval = _; rw [h.eval]; rfl, h.evok.setExtra (x :: extra),
    h.unnamed, h.locals, h.status, h.umode,
    h.globals, h.constants, h.lights, h.trace, h.defaultColor, h.matrix, h.draws, h.regs⟩


end Sim
end Bardolph
