import Bardolph.Proofs.ParseTokTop
import Bardolph.Model.ExprParse
/-!
The bridge between the two expression-parser models: `ParseTok.expression` (the mirror of
`expr_parser.py` inside the whole-parser model, tied to the real parser on every run) and the
stand-alone `ExprParse` (about which the C02 theorems are proved).

`toE ctx` translates a token of the parser model into a token of `ExprParse`: operators,
parentheses, and — as atoms carrying the code `_rvalue(PUSH)` emits for them — numbers, strings,
registers and the names declared in `ctx` (macros, variables).  Calls in brackets are left out.
-/
namespace Bardolph.ParseTok
open Bardolph

abbrev ETok := ExprParse.Tok

/-- the operator symbols that are punctuation -/
def binMarks : List String := ["+", "-", "*", "/", "%", "^"]
/-- the comparison symbols -/
def cmpSyms : List String := ["==", "<=", ">=", "!=", "<", ">"]

/-- the shared alphabet of the two models, relative to the symbol tables of `ctx` -/
def toE (ctx : St) (t : Tok) : Option ETok :=
  match t.ty with
  | .mark =>
    if t.content = "(" then some .lparen
    else if t.content = ")" then some .rparen
    else if binMarks.contains t.content then some (.op t.content)
    else none
  | .compare => if cmpSyms.contains t.content then some (.op t.content) else none
  | .and_ => if t.content = "and" then some (.op "and") else none
  | .or_ => if t.content = "or" then some (.op "or") else none
  | .not_ => if t.content = "not" then some (.op "not") else none
  | .number => (cvalOfNum (parseNumber t.content)).map fun c => .atom [pushqC c]
  | .literalString => some (.atom [.pushq (.str t.content)])
  | .name =>
    match ctx.getMacro t.content with
    | some s => some (.atom [pushqC s.val])
    | none =>
      if ctx.hasSymbolTyped t.content [.var] then some (.atom [.push (.var t.content)]) else none
  | .register => (regOfName t.content).map fun r => .atom [.push (.reg r)]
  | _ => none

/-- all operator symbols of the alphabet -/
def opSyms : List String := binMarks ++ cmpSyms ++ ["and", "or", "not"]

/-- what an operator token of the alphabet looks like -/
theorem toE_op {ctx : St} {t : Tok} {s : String} (h : toE ctx t = some (.op s)) :
    t.content = s ∧ s ∈ opSyms ∧
    ((t.ty = .mark ∧ s ∈ binMarks) ∨ (t.ty = .compare ∧ s ∈ cmpSyms) ∨
     (t.ty = .and_ ∧ s = "and") ∨ (t.ty = .or_ ∧ s = "or") ∨ (t.ty = .not_ ∧ s = "not")) := by
  unfold toE at h
  split at h
  · rename_i hty
    split at h
    · cases h
    · split at h
      · cases h
      · split at h
        · rename_i hc
          cases h
          have hm : t.content ∈ binMarks := by simpa using hc
          exact ⟨rfl, by simp [opSyms, hm], .inl ⟨hty, hm⟩⟩
        · cases h
  · rename_i hty
    split at h
    · rename_i hc
      cases h
      have hm : t.content ∈ cmpSyms := by simpa using hc
      exact ⟨rfl, by simp [opSyms, hm], .inr (.inl ⟨hty, hm⟩)⟩
    · cases h
  · rename_i hty
    split at h
    · rename_i hc; cases h
      exact ⟨hc, by simp [opSyms], .inr (.inr (.inl ⟨hty, rfl⟩))⟩
    · cases h
  · rename_i hty
    split at h
    · rename_i hc; cases h
      exact ⟨hc, by simp [opSyms], .inr (.inr (.inr (.inl ⟨hty, rfl⟩)))⟩
    · cases h
  · rename_i hty
    split at h
    · rename_i hc; cases h
      exact ⟨hc, by simp [opSyms], .inr (.inr (.inr (.inr ⟨hty, rfl⟩)))⟩
    · cases h
  · simp only [Option.map_eq_some_iff] at h; obtain ⟨_, _, h⟩ := h; cases h
  · cases h
  · split at h
    · cases h
    · split at h <;> cases h
  · simp only [Option.map_eq_some_iff] at h; obtain ⟨_, _, h⟩ := h; cases h
  · cases h

/-- `ExprParse.doOp` before the wrapping into an instruction -/
def doOpO (s : String) : Option Operator :=
  match Generated.ExprTables.operatorOf.find? (·.1 == s) with
  | some (_, name) => ExprParse.operatorByName name
  | none => none

theorem doOp_eq (s : String) : ExprParse.doOp s = (doOpO s).map Instr.op := by
  unfold ExprParse.doOp doOpO
  cases Generated.ExprTables.operatorOf.find? (·.1 == s) with
  | none => rfl
  | some p => rfl

/-- the two models' operator tables agree on the alphabet -/
theorem tables_agree : ∀ s ∈ opSyms,
    precOfContent s = ExprParse.precOf s ∧ doOpO s = operatorOfContent s := by
  decide

theorem e_facts : ∀ s ∈ opSyms,
    ExprParse.isBinop (.op s) = (s != "not") ∧
    ExprParse.isRight (.op s) = (s == "^" || s == "not") ∧
    ExprParse.tokPrec (.op s) = precOfContent s := by
  decide

/-- on an operator token of the alphabet the predicates of the two models agree -/
theorem op_facts {ctx : St} {t : Tok} {s : String} (h : toE ctx t = some (.op s)) :
    t.isBinop = ExprParse.isBinop (.op s) ∧ t.isRight = ExprParse.isRight (.op s) ∧
    t.prec = ExprParse.tokPrec (.op s) ∧ t.content = s ∧ s ∈ opSyms ∧ t.ty ≠ .eof ∧
    t.isMark "(" = false ∧ t.isMark "+" = (t.ty == .mark && s == "+") ∧
    t.isMark "-" = (t.ty == .mark && s == "-") := by
  obtain ⟨hc, hs, hcase⟩ := toE_op h
  obtain ⟨e1, e2, e3⟩ := e_facts s hs
  rw [e1, e2, e3]
  have hp : t.prec = precOfContent s := by unfold Tok.prec; rw [hc]
  refine ⟨?_, ?_, hp, hc, hs, ?_, ?_, ?_, ?_⟩
  all_goals
    rcases hcase with ⟨hty, hm⟩ | ⟨hty, hm⟩ | ⟨hty, rfl⟩ | ⟨hty, rfl⟩ | ⟨hty, rfl⟩
  all_goals first
    | (simp only [binMarks, List.mem_cons, List.not_mem_nil, or_false] at hm
       rcases hm with rfl | rfl | rfl | rfl | rfl | rfl <;>
         simp [Tok.isBinop, Tok.isRight, Tok.isMark, hty, hc])
    | (simp only [cmpSyms, List.mem_cons, List.not_mem_nil, or_false] at hm
       rcases hm with rfl | rfl | rfl | rfl | rfl | rfl <;>
         simp [Tok.isBinop, Tok.isRight, Tok.isMark, hty, hc])
    | simp [Tok.isBinop, Tok.isRight, Tok.isMark, hty, hc]

/-! ## The states of the simulation -/

/-- what stays fixed while an expression is parsed: the rest of the parser state, the token that
ends the expression and the tokens after it -/
structure Frame where
  base : St
  term : Tok
  more : List Tok
  /-- the code emitted before the expression -/
  pre : Array Instr := base.code

/-- the parser state with `toks` (then the terminator) pending and `code` emitted -/
def Frame.S (fr : Frame) (toks : List Tok) (code : List Instr) : St :=
  match toks with
  | t :: r =>
    { fr.base with cur := t, rest := r ++ fr.term :: fr.more, code := fr.pre ++ code.toArray }
  | [] => { fr.base with cur := fr.term, rest := fr.more, code := fr.pre ++ code.toArray }

theorem Frame.S_cur_cons (fr : Frame) (t : Tok) (r : List Tok) (code : List Instr) :
    (fr.S (t :: r) code).cur = t := rfl

theorem Frame.S_cur_nil (fr : Frame) (code : List Instr) : (fr.S [] code).cur = fr.term := rfl

theorem Frame.advance_S (fr : Frame) {t : Tok} (r : List Tok) (code : List Instr)
    (h : t.ty ≠ .eof) : advance (fr.S (t :: r) code) = (fr.S r code, true) := by
  have hb : (t.ty == TT.eof) = false := by simpa using h
  cases r with
  | nil => simp [Frame.S, advance, hb]
  | cons a r' => simp [Frame.S, advance, hb]

theorem Frame.skipToken_S (fr : Frame) {t : Tok} (r : List Tok) (code : List Instr)
    (h : t.ty ≠ .eof) : skipToken (fr.S (t :: r) code) = .ok () (fr.S r code) := by
  unfold skipToken; rw [fr.advance_S r code h]

theorem Frame.nextToken_S (fr : Frame) {t : Tok} (r : List Tok) (code : List Instr)
    (h : t.ty ≠ .eof) : nextToken (fr.S (t :: r) code) = .ok () (fr.S r code) := by
  unfold nextToken; rw [fr.advance_S r code h]; rfl

theorem Frame.emit_S (fr : Frame) (toks : List Tok) (code : List Instr) (i : Instr) :
    emit i (fr.S toks code) = .ok () (fr.S toks (code ++ [i])) := by
  cases toks <;> simp [emit, emitTo, modifySt, Frame.S]

theorem Frame.emitList_S (fr : Frame) (toks : List Tok) (code : List Instr) (is : List Instr) :
    emitList is (fr.S toks code) = .ok () (fr.S toks (code ++ is)) := by
  cases toks <;> simp [emitList, emitListTo, modifySt, Frame.S]

theorem Frame.S_tables (fr : Frame) (toks : List Tok) (code : List Instr) :
    (fr.S toks code).globals = fr.base.globals ∧ (fr.S toks code).locals = fr.base.locals ∧
    (fr.S toks code).errors = fr.base.errors := by
  cases toks <;> exact ⟨rfl, rfl, rfl⟩

theorem toE_congr {a b : St} (hg : a.globals = b.globals) (hl : a.locals = b.locals) (t : Tok) :
    toE a t = toE b t := by
  unfold toE St.getMacro St.globalOfType St.hasSymbolTyped St.getSymbol
  rw [hg, hl]

/-! ## Atoms -/

theorem toE_atom {ctx : St} {t : Tok} {c : List Instr} (h : toE ctx t = some (.atom c)) :
    (t.ty = .number ∧ ∃ v, cvalOfNum (parseNumber t.content) = some v ∧ c = [pushqC v]) ∨
    (t.ty = .literalString ∧ c = [.pushq (.str t.content)]) ∨
    (t.ty = .name ∧ ∃ s, ctx.getMacro t.content = some s ∧ c = [pushqC s.val]) ∨
    (t.ty = .name ∧ ctx.getMacro t.content = none ∧
      ctx.hasSymbolTyped t.content [.var] = true ∧ c = [.push (.var t.content)]) ∨
    (t.ty = .register ∧ ∃ r, regOfName t.content = some r ∧ c = [.push (.reg r)]) := by
  unfold toE at h
  split at h
  · split at h
    · cases h
    · split at h
      · cases h
      · split at h <;> cases h
  · split at h <;> cases h
  · split at h <;> cases h
  · split at h <;> cases h
  · split at h <;> cases h
  · rename_i hty
    simp only [Option.map_eq_some_iff] at h
    obtain ⟨v, hv, h⟩ := h
    cases h
    exact .inl ⟨hty, v, hv, rfl⟩
  · rename_i hty; cases h; exact .inr (.inl ⟨hty, rfl⟩)
  · rename_i hty
    split at h
    · rename_i s hs; cases h; exact .inr (.inr (.inl ⟨hty, s, hs, rfl⟩))
    · rename_i hs
      split at h
      · rename_i hv; cases h; exact .inr (.inr (.inr (.inl ⟨hty, hs, hv, rfl⟩)))
      · cases h
  · rename_i hty
    simp only [Option.map_eq_some_iff] at h
    obtain ⟨r, hr, h⟩ := h
    cases h
    exact .inr (.inr (.inr (.inr ⟨hty, r, hr, rfl⟩)))
  · cases h

theorem currentConstant_of_lit {st : St} {v : CVal} (h : currentLiteral st = .ok (some v) st) :
    currentConstant st = .ok (some v) st := by
  unfold currentConstant
  rw [bind_ok h]
  rfl

theorem Frame.emit_next_S (fr : Frame) {t : Tok} (toks : List Tok) (code : List Instr) (i : Instr)
    (hne : t.ty ≠ .eof) :
    (do emitTo .main i; nextToken; pure true : M Bool) (fr.S (t :: toks) code) =
      .ok true (fr.S toks (code ++ [i])) := by
  have he : emitTo .main i (fr.S (t :: toks) code) = .ok () (fr.S (t :: toks) (code ++ [i])) :=
    fr.emit_S (t :: toks) code i
  rw [bind_ok he, bind_ok (fr.nextToken_S toks _ hne)]
  rfl

theorem rvalueSimple_atom_tok (fr : Frame) {t : Tok} {c : List Instr} (toks : List Tok)
    (code : List Instr) (h : toE fr.base t = some (.atom c)) :
    rvalueSimple .push .main (fr.S (t :: toks) code) = .ok true (fr.S toks (code ++ c)) := by
  have hg : ∀ n, (fr.S (t :: toks) code).getMacro n = fr.base.getMacro n := fun _ => rfl
  have hvv : ∀ n k, (fr.S (t :: toks) code).hasSymbolTyped n k = fr.base.hasSymbolTyped n k :=
    fun _ _ => rfl
  rcases toE_atom h with ⟨hty, v, hv', rfl⟩ | ⟨hty, rfl⟩ | ⟨hty, s, hs, rfl⟩ |
    ⟨hty, hs, hvar, rfl⟩ | ⟨hty, r, hr, rfl⟩
  all_goals
    have hne : t.ty ≠ .eof := by rw [hty]; decide
    have hm : ∀ m, t.isMark m = false := fun m => by simp [Tok.isMark, hty]
    have hstr : t.str = t.content := by simp [Tok.str, hty, TT.hasString]
    unfold rvalueSimple
    rw [getSt_bind]
    simp only [Frame.S_cur_cons, hm, Bool.false_eq_true, if_false]
    rw [bind_ok (pure_run () _)]
  · -- number
    have hl : currentLiteral (fr.S (t :: toks) code) = .ok (some v) (fr.S (t :: toks) code) := by
      simp [currentLiteral, Frame.S_cur_cons, hty, hstr, hv']
    rw [bind_ok (currentConstant_of_lit hl)]
    simp only [rvalueValue, Bool.false_and, Bool.false_eq_true, if_false, deliverConst]
    exact fr.emit_next_S toks code _ hne
  · -- string
    have hl : currentLiteral (fr.S (t :: toks) code) =
        .ok (some (.v (.str t.content))) (fr.S (t :: toks) code) := by
      simp [currentLiteral, Frame.S_cur_cons, hty, hstr]
    rw [bind_ok (currentConstant_of_lit hl)]
    simp only [rvalueValue, Bool.false_and, Bool.false_eq_true, if_false, deliverConst]
    exact fr.emit_next_S toks code _ hne
  · -- macro
    have hc : currentConstant (fr.S (t :: toks) code) = .ok (some s.val) (fr.S (t :: toks) code) := by
      have hl : currentLiteral (fr.S (t :: toks) code) = .ok none (fr.S (t :: toks) code) := by
        simp [currentLiteral, Frame.S_cur_cons, hty]
      unfold currentConstant
      rw [bind_ok hl]
      simp only [getSt_bind, Frame.S_cur_cons, hty, hstr, hg, hs]
      rfl
    rw [bind_ok hc]
    simp only [rvalueValue, Bool.false_and, Bool.false_eq_true, if_false, deliverConst]
    exact fr.emit_next_S toks code _ hne
  · -- variable
    have hc : currentConstant (fr.S (t :: toks) code) = .ok none (fr.S (t :: toks) code) := by
      have hl : currentLiteral (fr.S (t :: toks) code) = .ok none (fr.S (t :: toks) code) := by
        simp [currentLiteral, Frame.S_cur_cons, hty]
      unfold currentConstant
      rw [bind_ok hl]
      simp only [getSt_bind, Frame.S_cur_cons, hty, hstr, hg, hs]
      rfl
    rw [bind_ok hc]
    simp only [rvalueValue, Bool.false_and, Bool.false_eq_true, if_false, getSt_bind,
      Frame.S_cur_cons, hty, hstr, hvv, hvar, if_true, deliverSrc]
    exact fr.emit_next_S toks code _ hne
  · -- register
    have hc : currentConstant (fr.S (t :: toks) code) = .ok none (fr.S (t :: toks) code) := by
      have hl : currentLiteral (fr.S (t :: toks) code) = .ok none (fr.S (t :: toks) code) := by
        simp [currentLiteral, Frame.S_cur_cons, hty]
      unfold currentConstant
      rw [bind_ok hl]
      have hn : ((fr.S (t :: toks) code).cur.ty != TT.name) = true := by
        show (t.ty != TT.name) = true
        rw [hty]; rfl
      dsimp only
      rw [getSt_bind, if_pos hn]
      rfl
    rw [bind_ok hc]
    simp only [rvalueValue, Bool.false_and, Bool.false_eq_true, if_false, getSt_bind,
      Frame.S_cur_cons, hty, hstr, hr, deliverSrc]
    exact fr.emit_next_S toks code _ hne

theorem rvalue_atom_tok (fr : Frame) {t : Tok} {c : List Instr} (toks : List Tok)
    (code : List Instr) (F : Nat) (h : toE fr.base t = some (.atom c)) :
    rvalue (F + 1) .push .main (fr.S (t :: toks) code) = .ok () (fr.S toks (code ++ c)) := by
  have hm : ∀ m, t.isMark m = false := fun m => by
    rcases toE_atom h with ⟨hty, _⟩ | ⟨hty, _⟩ | ⟨hty, _⟩ | ⟨hty, _⟩ | ⟨hty, _⟩ <;>
      simp [Tok.isMark, hty]
  unfold rvalue
  rw [getSt_bind]
  simp only [Frame.S_cur_cons, hm, Bool.false_eq_true, if_false]
  rw [bind_ok (rvalueSimple_atom_tok fr toks code h)]
  rfl

/-- a token that is no value (punctuation other than `{ [ -`, a comparison, `and`, `or`) -/
def NonValue (t : Tok) : Prop :=
  (t.ty = .mark ∨ t.ty = .compare ∨ t.ty = .and_ ∨ t.ty = .or_) ∧
  t.isMark "{" = false ∧ t.isMark "[" = false ∧ t.isMark "-" = false

theorem rvalue_nonvalue_fails {st : St} (h : NonValue st.cur) (F : Nat) :
    rvalue (F + 1) .push .main st =
      .fail (st.addError ("Cannot use " ++ st.cur.str ++ " as a value.")) := by
  obtain ⟨hty, h1, h2, h3⟩ := h
  have hl : currentLiteral st = .ok none st := by
    unfold currentLiteral
    rcases hty with h | h | h | h <;> simp [h]
  have hn : (st.cur.ty != TT.name) = true := by
    rcases hty with h | h | h | h <;> (rw [h]; rfl)
  have hc : currentConstant st = .ok none st := by
    unfold currentConstant
    rw [bind_ok hl]
    dsimp only
    rw [getSt_bind, if_pos hn]
    rfl
  unfold rvalue
  rw [getSt_bind]
  simp only [h1, h2, Bool.false_eq_true, if_false]
  apply bind_fail
  unfold rvalueSimple
  rw [getSt_bind]
  simp only [h3, Bool.false_eq_true, if_false]
  rw [bind_ok (pure_run () st), bind_ok hc]
  unfold rvalueValue
  simp only [Bool.false_and, Bool.false_eq_true, if_false, getSt_bind]
  rcases hty with h | h | h | h <;> simp [h, tokenError, triggerError]

end Bardolph.ParseTok

/-! ## `ExprParse`: what a successful run consumes -/

namespace Bardolph.ExprParse
open Bardolph

/-- how many tokens a successful run of each routine of `ExprParse` leaves -/
theorem consume : ∀ f,
    (∀ st st', atom f st = some st' → st'.1.length < st.1.length) ∧
    (∀ st st', expression f st = some st' → st'.1.length < st.1.length) ∧
    (∀ m st st', climb f m st = some st' → st'.1.length ≤ st.1.length ∧
      (∀ t r, st.1 = t :: r → isBinop t = true → tokPrec t ≥ m → st'.1.length < st.1.length)) ∧
    (∀ op st st', inner f op st = some st' → st'.1.length ≤ st.1.length) := by
  intro f
  induction f with
  | zero =>
    refine ⟨?_, ?_, ?_, ?_⟩ <;> intros <;> simp_all [atom, expression, climb, inner]
  | succ f ih =>
    obtain ⟨ihA, ihE, ihC, ihI⟩ := ih
    refine ⟨?_, ?_, ?_, ?_⟩
    · rintro ⟨toks, code⟩ st' h
      unfold atom at h
      split at h
      · -- lparen
        split at h
        · rename_i rest rest2 code2 he
          cases h
          have := ihE _ _ he
          simp at this ⊢; omega
        · cases h
      · split at h
        · rename_i rest rest2 code2 he
          cases h
          have := ihA _ _ he
          simp at this ⊢; omega
        · cases h
      · rename_i rest
        have := ihA _ _ h
        simp at this ⊢; omega
      · split at h
        · rename_i rest rest2 code2 he
          cases h
          have := ihE _ _ he
          simp at this ⊢; omega
        · cases h
      · cases h; simp
      · cases h
    · rintro st st' h
      unfold expression at h
      split at h
      · rename_i st1 ha
        have h1 := ihA _ _ ha
        have h2 := (ihC _ _ _ h).1
        omega
      · cases h
    · rintro m ⟨toks, code⟩ st' h
      unfold climb at h
      cases toks with
      | nil => simp at h; cases h; simp
      | cons t rest =>
        dsimp only at h
        split at h
        · -- the loop runs
          split at h
          · cases h
          · rename_i st1 ha
            split at h
            · cases h
            · rename_i toks2 code2 hi
              have h1 := ihA _ _ ha
              have h2 := ihI _ _ _ hi
              simp at h1 h2
              split at h
              · split at h
                · have h3 := (ihC _ _ _ h).1
                  simp at h3
                  refine ⟨by simp; omega, fun _ _ _ _ _ => by simp; omega⟩
                · cases h
              · cases h
        · rename_i hc
          cases h
          refine ⟨Nat.le_refl _, fun t' r' he hb hp => ?_⟩
          simp only [List.cons.injEq] at he
          obtain ⟨rfl, rfl⟩ := he
          simp [hb, hp] at hc
    · rintro op ⟨toks, code⟩ st' h
      unfold inner at h
      cases toks with
      | nil => simp at h; cases h; simp
      | cons t rest =>
        dsimp only at h
        split at h
        · split at h
          · rename_i st1 hc
            have h1 := (ihC _ _ _ hc).1
            have h2 := ihI _ _ _ h
            omega
          · cases h
        · cases h; simp

end Bardolph.ExprParse

namespace Bardolph.ParseTok
open Bardolph

/-! ## The translation of a token list; facts about the token classes -/

/-- the tokens `toks` of the parser model are the tokens `etoks` of `ExprParse` -/
inductive Tr (fr : Frame) : List Tok → List ETok → Prop
  | nil : Tr fr [] []
  | cons {t : Tok} {e : ETok} {r : List Tok} {er : List ETok} (h : toE fr.base t = some e)
      (hr : Tr fr r er) : Tr fr (t :: r) (e :: er)

theorem Tr.nil_inv {fr : Frame} {etoks : List ETok} (h : Tr fr [] etoks) : etoks = [] := by
  cases h; rfl

theorem Tr.cons_inv {fr : Frame} {t : Tok} {r : List Tok} {etoks : List ETok}
    (h : Tr fr (t :: r) etoks) : ∃ e er, etoks = e :: er ∧ toE fr.base t = some e ∧ Tr fr r er := by
  cases h with
  | cons h1 h2 => exact ⟨_, _, rfl, h1, h2⟩

theorem Tr.length {fr : Frame} {toks : List Tok} {etoks : List ETok} (h : Tr fr toks etoks) :
    toks.length = etoks.length := by
  induction h with
  | nil => rfl
  | cons _ _ ih => simp [ih]

theorem toE_lparen {ctx : St} {t : Tok} (h : toE ctx t = some .lparen) :
    t.isMark "(" = true ∧ t.ty ≠ .eof ∧ t.isBinop = false ∧ t.isRight = false := by
  unfold toE at h
  split at h
  · rename_i hty
    split at h
    · rename_i hc
      simp [Tok.isMark, Tok.isBinop, Tok.isRight, hty, hc]
    · split at h
      · cases h
      · split at h <;> cases h
  all_goals first
    | (split at h <;> cases h)
    | (simp only [Option.map_eq_some_iff] at h; obtain ⟨_, _, h⟩ := h; cases h)
    | cases h
    | (split at h
       · cases h
       · split at h <;> cases h)

theorem toE_rparen {ctx : St} {t : Tok} (h : toE ctx t = some .rparen) :
    t.isMark ")" = true ∧ t.ty ≠ .eof ∧ t.isBinop = false ∧ t.isRight = false ∧
    t.isMark "(" = false ∧ t.isMark "+" = false ∧ t.isMark "-" = false ∧ NonValue t := by
  unfold toE at h
  split at h
  · rename_i hty
    split at h
    · cases h
    · split at h
      · rename_i hc
        simp [Tok.isMark, Tok.isBinop, Tok.isRight, NonValue, hty, hc]
      · split at h <;> cases h
  all_goals first
    | (split at h <;> cases h)
    | (simp only [Option.map_eq_some_iff] at h; obtain ⟨_, _, h⟩ := h; cases h)
    | cases h
    | (split at h
       · cases h
       · split at h <;> cases h)

theorem toE_atom_facts {ctx : St} {t : Tok} {c : List Instr} (h : toE ctx t = some (.atom c)) :
    (∀ m, t.isMark m = false) ∧ t.isBinop = false ∧ t.isRight = false ∧ t.ty ≠ .eof := by
  rcases toE_atom h with ⟨hty, _⟩ | ⟨hty, _⟩ | ⟨hty, _⟩ | ⟨hty, _⟩ | ⟨hty, _⟩ <;>
    simp [Tok.isMark, Tok.isBinop, Tok.isRight, hty]

theorem term_facts {t : Tok} (h : t.isMark "}" = true) :
    NonValue t ∧ t.isBinop = false ∧ t.isRight = false ∧ t.isMark "(" = false ∧
    t.isMark ")" = false ∧ t.isMark "+" = false ∧ t.isMark "-" = false ∧ t.ty ≠ .eof := by
  simp only [Tok.isMark, Bool.and_eq_true, beq_iff_eq] at h
  simp [NonValue, Tok.isMark, Tok.isBinop, Tok.isRight, h.1, h.2]

theorem rvalueSimple_not {st : St} (d : Dest) (cg : CG) (h : st.cur.ty = .not_) :
    rvalueSimple d cg st = .ok false st := by
  have hm : st.cur.isMark "-" = false := by simp [Tok.isMark, h]
  have hl : currentLiteral st = .ok none st := by simp [currentLiteral, h]
  have hn : (st.cur.ty != TT.name) = true := by rw [h]; rfl
  have hc : currentConstant st = .ok none st := by
    unfold currentConstant
    rw [bind_ok hl]
    dsimp only
    rw [getSt_bind, if_pos hn]
    rfl
  unfold rvalueSimple
  rw [getSt_bind]
  simp only [hm, Bool.false_eq_true, if_false]
  rw [bind_ok (pure_run () st), bind_ok hc]
  simp [rvalueValue, getSt_bind, h, pure_run]

end Bardolph.ParseTok
