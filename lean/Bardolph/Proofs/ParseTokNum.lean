import Bardolph.Proofs.ParseTokLex
/-!
The text of a NUMBER token of the lexer model is matched ENTIRELY by the number expression
`[0-9]*\.?[0-9]+`; hence the only NUMBER token Python's `int()`/`float()` reject is an integer of
more than 4300 digits.
-/
namespace Bardolph.ParseTok
open Bardolph Bardolph.Lex Bardolph.Generated Bardolph.TP

/-! ## the words of `splitLine` -/

theorem mem_splitLine {f : Nat} {s m : List Char} (h : m ∈ splitLine f s) :
    ∃ s', scanAt s' = some m.length ∧ m = s'.take m.length ∧ 0 < m.length := by
  induction f generalizing s with
  | zero => simp [splitLine] at h
  | succ f ih =>
    cases s with
    | nil => simp [splitLine] at h
    | cons c rest =>
      unfold splitLine at h
      cases hs : scanAt (c :: rest) with
      | none => rw [hs] at h; exact ih h
      | some n =>
        rw [hs] at h
        dsimp only at h
        split at h
        · exact ih h
        · rename_i hn
          rcases List.mem_cons.mp h with h | h
          · have hle := scanAt_le hs
            have hl : m.length = n := by rw [h, List.length_take]; omega
            exact ⟨c :: rest, by rw [hl]; exact hs, by rw [hl]; exact h, by omega⟩
          · exact ih h

/-! ## the number expression on a prefix -/

theorem takeWhile_take_of_le {α} (p : α → Bool) (l : List α) (n : Nat)
    (h : (l.takeWhile p).length ≤ n) : (l.take n).takeWhile p = l.takeWhile p := by
  induction l generalizing n with
  | nil => simp
  | cons a l ih =>
    cases n with
    | zero =>
      simp only [List.takeWhile] at h ⊢
      split at h
      · simp at h
      · simp [List.takeWhile, *]
    | succ n =>
      simp only [List.take_succ_cons, List.takeWhile]
      split
      · rename_i hp
        simp only [List.takeWhile, hp, List.length_cons] at h
        rw [ih n (by omega)]
      · rfl

theorem takeWhile_all_self {α} (p : α → Bool) (l : List α) : (l.takeWhile p).all p = true := by
  induction l with
  | nil => rfl
  | cons a l ih =>
    simp only [List.takeWhile]
    split
    · simp [*]
    · rfl

theorem numberTail_ge {d n : Nat} {t : List Char} (h : numberTail d t = some n) : d ≤ n := by
  unfold numberTail at h
  split at h
  · dsimp only at h
    split at h
    · cases h; omega
    · split at h <;> cases h; omega
  · split at h <;> cases h; omega

theorem numberTail_take {d n : Nat} {t : List Char} (h : numberTail d t = some n) :
    numberTail d (t.take (n - d)) = some n := by
  unfold numberTail at h
  split at h
  · rename_i rest
    dsimp only at h
    split at h
    · rename_i hd2
      cases h
      have e : d + 1 + (List.takeWhile isDigit rest).length - d
          = (List.takeWhile isDigit rest).length + 1 := by omega
      rw [e, List.take_succ_cons]
      have e2 := takeWhile_take_of_le isDigit rest _ (Nat.le_refl (List.takeWhile isDigit rest).length)
      simp only [numberTail, e2, hd2, if_true]
    · split at h
      · rename_i hd
        cases h
        simp [numberTail, hd]
      · cases h
  · split at h
    · rename_i hd
      cases h
      simp [numberTail, hd]
    · cases h

/-- what the number expression matched is matched again, entirely, on the matched prefix -/
theorem scanNumber_take {s : List Char} {n : Nat} (h : scanNumber s = some n) :
    scanNumber (s.take n) = some n := by
  rw [scanNumber_eq] at h ⊢
  have hge := numberTail_ge h
  rw [takeWhile_take_of_le _ _ _ hge, List.drop_take]
  exact numberTail_take h

/-! ## the time-pattern expression on a prefix -/

theorem regexMatch_take {x : List T} {h m : List PC} (hm : regexMatch x = some (h, m)) :
    (regexMatch (x.take (h.length + 1 + m.length))).isSome = true := by
  unfold regexMatch at hm
  obtain ⟨⟨h', r⟩, hmem, hf⟩ := List.exists_of_findSome?_eq_some hm
  match r, hf with
  | .colon :: r', hf =>
    simp only at hf
    obtain ⟨⟨m', rest⟩, hmem2, hf2⟩ := List.exists_of_findSome?_eq_some hf
    simp only at hf2
    split at hf2
    · simp only [Option.some.injEq, Prod.mk.injEq] at hf2
      obtain ⟨rfl, rfl⟩ := hf2
      unfold hourAlts at hmem
      unfold minAlts at hmem2
      simp only [List.mem_append] at hmem hmem2
      rcases hmem with (((hmem | hmem) | hmem) | hmem) | hmem <;> split at hmem <;>
        simp at hmem <;> obtain ⟨rfl, hr⟩ := hmem <;>
        (try subst hr) <;>
        rcases hmem2 with ((hmem2 | hmem2) | hmem2) | hmem2 <;> split at hmem2 <;>
        simp at hmem2 <;> obtain ⟨rfl, rfl⟩ := hmem2 <;>
        simp [regexMatch, hourAlts, minAlts, lookOk]
    · cases hf2

theorem scanTimePattern_take {s : List Char} {n : Nat} (h : scanTimePattern s = some n) :
    (scanTimePattern (s.take n)).isSome = true := by
  simp only [scanTimePattern, Option.map_eq_some_iff] at h
  obtain ⟨⟨hh, mm⟩, hm, rfl⟩ := h
  have := regexMatch_take hm
  simp only [scanTimePattern, List.map_take, Option.isSome_map]
  exact this

/-! ## a word classified NUMBER is a number, entirely -/

theorem scanNumber_head {m : List Char} (h : (scanNumber m).isSome = true) :
    ∃ c r, m = c :: r ∧ (isDigit c = true ∨ c = '.') := by
  cases m with
  | nil => simp [scanNumber] at h
  | cons c r =>
    refine ⟨c, r, rfl, ?_⟩
    by_cases hd : isDigit c = true
    · exact .inl hd
    · by_cases hp : c = '.'
      · exact .inr hp
      · rw [scanNumber_none r (by simpa using hd) hp] at h; cases h

theorem digit_or_dot_facts {c : Char} (h : isDigit c = true ∨ c = '.') :
    c ≠ '=' ∧ c ≠ '<' ∧ c ≠ '>' ∧ c ≠ '!' ∧ c ≠ '"' ∧ isNameStart c = false ∧
    "[](){}+-*<>/%#:^".toList.contains c = false := by
  rcases h with h | rfl
  · have := isDigit_nat.mp h
    refine ⟨?_, ?_, ?_, ?_, ?_, ?_, ?_⟩
    all_goals first
      | (apply ne_of_toNat_ne; simp; omega)
      | (rw [← Bool.not_eq_true, isNameStart_nat]; omega)
      | (simp [char_eq_iff c]; omega)
  · decide

theorem numberTail_pos {d : Nat} {t : List Char} (h : d > 0) : (numberTail d t).isSome = true := by
  unfold numberTail
  split
  · dsimp only; split <;> simp [h]
  · simp [h]

theorem number_word {s : List Char} {n : Nat} (hs : scanAt s = some n)
    (h1 : scanTimePattern (s.take n) = none) (h3 : (scanNumber (s.take n)).isSome = true) :
    scanNumber (s.take n) = some n := by
  obtain ⟨c, r, hm, hc⟩ := scanNumber_head h3
  have hsc : ∃ tl, s = c :: tl := by
    cases s with
    | nil => simp at hm
    | cons a tl =>
      cases n with
      | zero => simp at hm
      | succ n => simp only [List.take_succ_cons, List.cons.injEq] at hm; exact ⟨tl, by rw [hm.1]⟩
  obtain ⟨tl, rfl⟩ := hsc
  obtain ⟨f1, f2, f3, f4, f5, f6, f7⟩ := digit_or_dot_facts hc
  unfold scanAt at hs
  cases e1 : scanTimePattern (c :: tl) with
  | some k =>
    rw [e1] at hs; cases hs
    have := scanTimePattern_take e1
    rw [h1] at this; cases this
  | none =>
    rw [e1, scanCmp_none tl ⟨f1, f2, f3, f4⟩, scanString_none tl f5] at hs
    cases e4 : scanNumber (c :: tl) with
    | some k =>
      rw [e4] at hs; cases hs
      exact scanNumber_take e4
    | none =>
      -- the word starts with a dot that no digit follows: not a number on the prefix either
      exfalso
      rcases hc with hd | rfl
      · rw [scanNumber_eq] at e4
        have hp : (List.takeWhile isDigit (c :: tl)).length > 0 := by
          simp [List.takeWhile, hd]
        have := numberTail_pos (t := List.drop (List.takeWhile isDigit (c :: tl)).length (c :: tl)) hp
        rw [e4] at this; cases this
      · rw [scanNumber_eq] at e4
        have hnd : isDigit '.' = false := by decide
        simp only [List.takeWhile, hnd, List.length_nil, List.drop_zero, numberTail] at e4
        have hz : (List.takeWhile isDigit tl).length = 0 := by
          cases hk : (List.takeWhile isDigit tl).length with
          | zero => rfl
          | succ k => rw [hk] at e4; simp at e4
        cases n with
        | zero => simp at hm
        | succ n =>
          rw [List.take_succ_cons, scanNumber_eq] at h3
          simp only [List.takeWhile, hnd, List.length_nil, List.drop_zero, numberTail] at h3
          have hz' : (List.takeWhile isDigit (tl.take n)).length = 0 := by
            have hnil : List.takeWhile isDigit tl = [] := List.eq_nil_of_length_eq_zero hz
            cases tl with
            | nil => simp
            | cons a tl' =>
              cases n with
              | zero => simp
              | succ n =>
                simp only [List.takeWhile] at hnil
                split at hnil
                · cases hnil
                · simp [List.takeWhile, *]
          simp [hz'] at h3

/-! ## NUMBER tokens of the lexer model -/

theorem mem_lineTokens_word {n : Nat} {ws : List (List Char)} {t : Lex.Token}
    (h : t ∈ lineTokens n ws) :
    t.type = "MARK" ∨ ∃ m ∈ ws, t.type = tokenType (unabbreviate (String.ofList m)) ∧
      (t.type ≠ "LITERAL_STRING" → t.content = unabbreviate (String.ofList m)) := by
  induction ws with
  | nil => simp [lineTokens] at h
  | cons m rest ih =>
    have lift : (t.type = "MARK" ∨ ∃ m' ∈ rest, t.type = tokenType (unabbreviate (String.ofList m')) ∧
        (t.type ≠ "LITERAL_STRING" → t.content = unabbreviate (String.ofList m'))) →
        (t.type = "MARK" ∨ ∃ m' ∈ m :: rest, t.type = tokenType (unabbreviate (String.ofList m')) ∧
        (t.type ≠ "LITERAL_STRING" → t.content = unabbreviate (String.ofList m'))) := by
      rintro (h | ⟨m', hm, h⟩)
      · exact .inl h
      · exact .inr ⟨m', List.mem_cons_of_mem _ hm, h⟩
    unfold lineTokens at h
    dsimp only at h
    split at h
    · simp at h
    · split at h
      · rcases List.mem_cons.mp h with h | h
        · subst h; exact .inl rfl
        · exact lift (ih h)
      · rcases List.mem_cons.mp h with h | h
        · subst h
          refine .inr ⟨m, List.mem_cons_self, rfl, fun hne => ?_⟩
          dsimp only at hne ⊢
          have : (tokenType (unabbreviate (String.ofList m)) == "LITERAL_STRING") = false := by
            simpa using hne
          simp only [this, Bool.false_eq_true, if_false]
        · exact lift (ih h)

theorem tokenType_number {u : String} (h : tokenType u = "NUMBER") :
    classifyBy "TIME_PATTERN" u.toList = false ∧ classifyBy "NUMBER" u.toList = true := by
  unfold tokenType at h
  by_cases h1 : (isLower u && LexTables.keywords.contains u) = true
  · rw [if_pos h1] at h
    simp only [Bool.and_eq_true, List.contains_eq_mem, decide_eq_true_eq] at h1
    exact absurd h (kw_upper u h1.2).2.2.2.2.2.1
  · rw [if_neg h1] at h
    by_cases h2 : LexTables.registerWords.contains u = true
    · rw [if_pos h2] at h; exact absurd h (by decide)
    · rw [if_neg h2] at h
      simp only [LexTables.classifyOrder, List.find?] at h
      cases hc : classifyBy "COMPARE" u.toList <;> rw [hc] at h
      · cases ht : classifyBy "TIME_PATTERN" u.toList <;> rw [ht] at h
        · cases hs : classifyBy "LITERAL_STRING" u.toList <;> rw [hs] at h
          · cases hn : classifyBy "NUMBER" u.toList <;> rw [hn] at h
            · cases hm : classifyBy "NAME" u.toList <;> rw [hm] at h <;>
                (dsimp only [Option.getD] at h; exact absurd h (by decide))
            · exact ⟨rfl, rfl⟩
          · dsimp only [Option.getD] at h; exact absurd h (by decide)
        · dsimp only [Option.getD] at h; exact absurd h (by decide)
      · dsimp only [Option.getD] at h; exact absurd h (by decide)

theorem unabbreviate_cases (w : String) :
    unabbreviate w = w ∨ unabbreviate w ∈ LexTables.abbreviations.map (·.2) := by
  unfold unabbreviate
  cases hf : LexTables.abbreviations.find? (·.1 == w) with
  | none => exact .inl rfl
  | some p =>
    right
    exact List.mem_map.mpr ⟨p, List.mem_of_find?_eq_some hf, rfl⟩

/-- the text of every NUMBER token is matched entirely by `[0-9]*\.?[0-9]+` -/
theorem number_token_shape {text : String} {t : Lex.Token} (h : t ∈ Lex.tokens text)
    (hty : t.type = "NUMBER") : scanNumber t.content.toList = some t.content.toList.length := by
  unfold Lex.tokens at h
  obtain ⟨l, hl, ht⟩ := List.mem_flatten.mp h
  obtain ⟨⟨line, i⟩, _, rfl⟩ := List.mem_map.mp hl
  rcases mem_lineTokens_word ht with hm | ⟨m, hm, h1, h2⟩
  · rw [hty] at hm; exact absurd hm (by decide)
  · have hc := h2 (by rw [hty]; decide)
    rw [hty] at h1
    have hu : unabbreviate (String.ofList m) = String.ofList m := by
      rcases unabbreviate_cases (String.ofList m) with h | h
      · exact h
      · exfalso
        have : ∀ x ∈ LexTables.abbreviations.map (·.2), tokenType x ≠ "NUMBER" := by
          decide +kernel
        exact this _ h h1.symm
    rw [hu] at h1 hc
    obtain ⟨htp, hnum⟩ := tokenType_number h1.symm
    rw [String.toList_ofList] at htp hnum
    obtain ⟨s', hs1, hs2, _⟩ := mem_splitLine hm
    rw [hc, String.toList_ofList]
    have hw := number_word hs1 (by
      rw [← hs2]
      simp only [classifyBy] at htp
      cases hx : scanTimePattern m with
      | none => rfl
      | some k => rw [hx] at htp; cases htp) (by rw [← hs2]; simpa [classifyBy] using hnum)
    rw [← hs2] at hw
    exact hw

/-! ## `int()` / `float()` on such a text -/

theorem dropWhile_eq_drop {α} (p : α → Bool) (l : List α) :
    l.dropWhile p = l.drop (l.takeWhile p).length := by
  induction l with
  | nil => rfl
  | cons a l ih =>
    simp only [List.dropWhile, List.takeWhile]
    split <;> simp [*]

theorem all_of_takeWhile_length {α} (p : α → Bool) (l : List α)
    (h : (l.takeWhile p).length = l.length) : l.all p = true := by
  induction l with
  | nil => rfl
  | cons a l ih =>
    simp only [List.takeWhile] at h
    split at h
    · rename_i hp
      simp only [List.length_cons, Nat.add_right_cancel_iff] at h
      simp [hp, ih h]
    · simp at h

theorem isDigit_eq : Lex.isDigit = isAsciiDigit := rfl

/-- Python converts every text of the number form, except an integer of more than 4300 digits -/
theorem parseNumber_shape {c : String} (h : scanNumber c.toList = some c.toList.length)
    (hb : cvalOfNum (parseNumber c) = none) :
    c.toList.all isAsciiDigit = true ∧ c.toList.length > maxStrDigits := by
  unfold parseNumber at hb
  dsimp only at hb
  by_cases hall : c.toList.all isAsciiDigit = true
  · refine ⟨hall, ?_⟩
    rw [if_pos hall] at hb
    by_cases hlen : (c.toList.isEmpty || decide (c.toList.length > maxStrDigits)) = true
    · simp only [Bool.or_eq_true, decide_eq_true_eq] at hlen
      rcases hlen with he | hl
      · have : c.toList = [] := by simpa using he
        rw [this] at h
        simp [scanNumber] at h
      · exact hl
    · rw [if_neg hlen] at hb; cases hb
  · exfalso
    rw [if_neg hall] at hb
    rw [scanNumber_eq, isDigit_eq] at h
    rw [dropWhile_eq_drop] at hb
    generalize hd : (c.toList.takeWhile isAsciiDigit).length = d1 at h hb
    have hlen : c.toList.length = d1 + (c.toList.drop d1).length := by
      have := takeWhile_length_le isAsciiDigit c.toList
      rw [List.length_drop]; omega
    generalize ht : c.toList.drop d1 = t at h hb hlen
    unfold numberTail at h
    split at h
    · rename_i rest
      dsimp only at h
      split at h
      · rename_i hd2
        simp only [Option.some.injEq] at h
        simp only [List.length_cons] at hlen
        have hr : (List.takeWhile isDigit rest).length = rest.length := by omega
        have hall2 := all_of_takeWhile_length isDigit rest hr
        rw [isDigit_eq] at hall2
        have hne : rest.isEmpty = false := by
          cases rest with
          | nil => simp at hd2
          | cons _ _ => rfl
        simp only [hall2, hne, Bool.and_false, Bool.not_false, Bool.and_true, if_true] at hb
        split at hb <;> cases hb
      · split at h
        · simp only [Option.some.injEq] at h
          simp only [List.length_cons] at hlen
          omega
        · cases h
    · split at h
      · simp only [Option.some.injEq] at h
        have : t = [] := List.eq_nil_of_length_eq_zero (by omega)
        apply hall
        have h2 : c.toList.takeWhile isAsciiDigit = c.toList := by
          have h3 := List.takeWhile_append_dropWhile (p := isAsciiDigit) (l := c.toList)
          rw [dropWhile_eq_drop, hd, ht, this, List.append_nil] at h3
          exact h3
        rw [← h2]
        exact takeWhile_all_self _ _
      · cases h

end Bardolph.ParseTok
