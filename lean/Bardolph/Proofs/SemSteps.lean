import Bardolph.Model.Sem
/-!
Facts about the source semantics (`Sem`) and the device handlers of the VM model shared by
the C15 and C18 theorems: whole numbers pass the device wrappers' clamp-and-round unchanged;
evaluation never fails "normally".
-/
namespace Bardolph
namespace SemSteps
open Vm Sem

/-! ### whole numbers on the wire -/

theorem roundHalfEven_int (n : Int) : Val.roundHalfEven (n : Rat) = n := by
  have h : ((n : Rat) - ((n : Int) : Rat) < 1 / 2) := by
    rw [Rat.sub_self]; decide +kernel
  simp only [Val.roundHalfEven, Rat.floor_intCast, h, if_true]

/-- `param_16` leaves an integer in `0 … 65535` alone -/
theorem param16_int (n : Int) (h0 : 0 ≤ n) (h1 : n ≤ 65535) : Conv.param16 (n : Rat) = n := by
  have e1 : ((n : Rat) ≤ ((65535 : Int) : Rat)) := Rat.intCast_le_intCast.mpr h1
  have e2 : ((0 : Rat) ≤ (n : Rat)) := Rat.intCast_le_intCast.mpr h0
  simp only [Conv.param16, Conv.clampRound, Rat.min_def, Rat.max_def, e1, e2, if_true,
    roundHalfEven_int]

theorem param32_zero : Conv.param32 0 = 0 := by decide +kernel

theorem wire16_int (n : Int) (h0 : 0 ≤ n) (h1 : n ≤ 65535) : wire16 (.int n) = some n := by
  simp [wire16, numOf, Val.asNum, param16_int n h0 h1]

/-- Python `b + 1` on an int -/
theorem add_one (b : Int) : Val.add (.int b) (.int 1) = some (.int (b + 1)) := by
  simp only [Val.add, Val.asNum, Val.mkNum, Bool.or_self]
  rw [← Rat.intCast_add, Rat.num_intCast]
  rfl

/-- a raw colour (four integers in `0 … 65535`) reaches the wire as it is -/
theorem wireColor_ints (c : List Int) (hc : ∀ x ∈ c, 0 ≤ x ∧ x ≤ 65535) :
    wireColor (c.map Val.int) = some c := by
  unfold wireColor
  induction c with
  | nil => rfl
  | cons a c ih =>
    have ha := hc a (by simp)
    rw [List.map_cons, List.mapM_cons, ih (fun x hx => hc x (by simp [hx]))]
    simp [numOf, Val.asNum, param16_int a ha.1 ha.2]

/-! ### evaluation never fails with the outcome `normal` -/

theorem no_error_normal (f : Nat) :
    (∀ e s, evalExpr f e s ≠ .error .normal) ∧ (∀ r s, evalRv f r s ≠ .error .normal) ∧
    (∀ ps as s, evalArgs f ps as s ≠ .error .normal) ∧
    (∀ name ps as s, callRoutine f name ps as s ≠ .error .normal) := by
  induction f with
  | zero => simp [evalExpr, evalRv, evalArgs, callRoutine]
  | succ f ih =>
    obtain ⟨ihE, ihR, ihA, ihC⟩ := ih
    have hC : ∀ name ps as s, callRoutine (f + 1) name ps as s ≠ .error .normal := by
      intro name ps as s h
      simp only [callRoutine] at h
      split at h
      · rename_i o he
        simp at h; subst h; exact ihA _ _ _ he
      · split at h
        · split at h <;> simp at h
          rename_i hnn _ _ _
          subst h
          exact hnn rfl
        · split at h
          · split at h <;> simp at h
          · simp at h
    have hE : ∀ e s, evalExpr (f + 1) e s ≠ .error .normal := by
      intro e s h
      cases e <;> simp only [evalExpr] at h
      all_goals (repeat' split at h)
      all_goals simp_all
    have hR : ∀ r s, evalRv (f + 1) r s ≠ .error .normal := by
      intro e s h
      cases e <;> simp only [evalRv] at h
      all_goals simp_all
    have hA : ∀ ps as s, evalArgs (f + 1) ps as s ≠ .error .normal := by
      intro ps as s h
      cases ps <;> cases as <;> simp only [evalArgs] at h
      all_goals (repeat' split at h)
      all_goals simp_all
    exact ⟨hE, hR, hA, hC⟩

theorem evalRange_ne_normal (f : Nat) (r : Range) (a b : Reg) (s : S) :
    evalRange f r a b s ≠ .error .normal := by
  intro h
  cases f with
  | zero => simp [evalRange] at h
  | succ f =>
    simp only [evalRange] at h
    repeat' split at h
    all_goals simp at h
    all_goals subst h
    all_goals rename_i he
    all_goals exact (no_error_normal f).2.1 _ _ he

theorem evalMatrixRanges_ne_normal (f : Nat) (rows cols : Option Range) (cf : Bool) (s : S) :
    evalMatrixRanges f rows cols cf s ≠ .error .normal := by
  intro h
  cases f with
  | zero => simp [evalMatrixRanges] at h
  | succ f =>
    have hr := evalRange_ne_normal f
    cases cf <;> cases rows <;> cases cols <;> simp only [evalMatrixRanges] at h <;>
      (repeat' split at h) <;> simp_all <;> (rename_i he; split at he <;> simp_all)

end SemSteps
end Bardolph
