import Bardolph.Model.Sem
/-!
Facts about the source semantics (`Sem`) and the device handlers of the VM model shared by
the C15 and C18 theorems: whole numbers pass the device wrappers' clamp-and-round unchanged;
evaluation never fails "normally".
-/
namespace Bardolph
namespace SemSteps
open Vm Sem

/-! ### whole numbers on the wire -/

theorem roundHalfEven_int (n : Int) : Val.roundHalfEven (n : Rat) = n := by
  have h : ((n : Rat) - ((n : Int) : Rat) < 1 / 2) := by
    rw [Rat.sub_self]; decide +kernel
  simp only [Val.roundHalfEven, Rat.floor_intCast, h, if_true]

/-- `param_16` leaves an integer in `0 … 65535` alone -/
theorem param16_int (n : Int) (h0 : 0 ≤ n) (h1 : n ≤ 65535) : Conv.param16 (n : Rat) = n := by
  have e1 : ((n : Rat) ≤ ((65535 : Int) : Rat)) := Rat.intCast_le_intCast.mpr h1
  have e2 : ((0 : Rat) ≤ (n : Rat)) := Rat.intCast_le_intCast.mpr h0
  simp only [Conv.param16, Conv.clampRound, Rat.min_def, Rat.max_def, e1, e2, if_true,
    roundHalfEven_int]

theorem param32_zero : Conv.param32 0 = 0 := by decide +kernel

theorem wire16_int (n : Int) (h0 : 0 ≤ n) (h1 : n ≤ 65535) : wire16 (.int n) = some n := by
  simp [wire16, numOf, Val.asNum, param16_int n h0 h1]

/-- Python `b + 1` on an int -/
theorem add_one (b : Int) : Val.add (.int b) (.int 1) = some (.int (b + 1)) := by
  simp only [Val.add, Val.asNum, Val.mkNum, Bool.or_self]
  rw [← Rat.intCast_add, Rat.num_intCast]
  rfl

/-- a raw colour (four integers in `0 … 65535`) reaches the wire as it is -/
theorem wireColor_ints (c : List Int) (hc : ∀ x ∈ c, 0 ≤ x ∧ x ≤ 65535) :
    wireColor (c.map Val.int) = some c := by
  unfold wireColor
  induction c with
  | nil => rfl
  | cons a c ih =>
    have ha := hc a (by simp)
    rw [List.map_cons, List.mapM_cons, ih (fun x hx => hc x (by simp [hx]))]
    simp [numOf, Val.asNum, param16_int a ha.1 ha.2]

/-! ### evaluation never fails with the outcome `normal` -/

theorem no_error_normal (f : Nat) :
    (∀ e s, evalExpr f e s ≠ .error .normal) ∧ (∀ r s, evalRv f r s ≠ .error .normal) ∧
    (∀ ps as s, evalArgs f ps as s ≠ .error .normal) ∧
    (∀ name ps as s, callRoutine f name ps as s ≠ .error .normal) := by
  induction f with
  | zero => simp [evalExpr, evalRv, evalArgs, callRoutine]
  | succ f ih =>
    obtain ⟨ihE, ihR, ihA, ihC⟩ := ih
    have hC : ∀ name ps as s, callRoutine (f + 1) name ps as s ≠ .error .normal := by
      intro name ps as s h
      simp only [callRoutine] at h
      split at h
      · rename_i o he
        simp at h; subst h; exact ihA _ _ _ he
      · split at h
        · split at h <;> simp at h
          rename_i hnn _ _ _
          subst h
          exact hnn rfl
        · split at h
          · split at h <;> simp at h
          · simp at h
    have hE : ∀ e s, evalExpr (f + 1) e s ≠ .error .normal := by
      intro e s h
      cases e <;> simp only [evalExpr] at h
      all_goals (repeat' split at h)
      all_goals simp_all
    have hR : ∀ r s, evalRv (f + 1) r s ≠ .error .normal := by
      intro e s h
      cases e <;> simp only [evalRv] at h
      all_goals simp_all
    have hA : ∀ ps as s, evalArgs (f + 1) ps as s ≠ .error .normal := by
      intro ps as s h
      cases ps <;> cases as <;> simp only [evalArgs] at h
      all_goals (repeat' split at h)
      all_goals simp_all
    exact ⟨hE, hR, hA, hC⟩

theorem evalRange_ne_normal (f : Nat) (r : Range) (a b : Reg) (s : S) :
    evalRange f r a b s ≠ .error .normal := by
  intro h
  cases f with
  | zero => simp [evalRange] at h
  | succ f =>
    simp only [evalRange] at h
    repeat' split at h
    all_goals simp at h
    all_goals subst h
    all_goals rename_i he
    all_goals exact (no_error_normal f).2.1 _ _ he

theorem evalMatrixRanges_ne_normal (f : Nat) (rows cols : Option Range) (cf : Bool) (s : S) :
    evalMatrixRanges f rows cols cf s ≠ .error .normal := by
  intro h
  cases f with
  | zero => simp [evalMatrixRanges] at h
  | succ f =>
    have hr := evalRange_ne_normal f
    cases cf <;> cases rows <;> cases cols <;> simp only [evalMatrixRanges] at h <;>
      (repeat' split at h) <;> simp_all <;> (rename_i he; split at he <;> simp_all)

/-! ### straight-line blocks -/

/-- the statements `xs`, at the head of any block and with any fuel of at least
`K + xs.length`, run normally from `s` to `s'` -/
def RunsTo (K : Nat) (xs : List Stmt) (s s' : S) : Prop :=
  ∀ f ys, K + xs.length ≤ f →
    execBlock f (Block.ofList (xs ++ ys)) s = execBlock (f - xs.length) (Block.ofList ys) s'

theorem RunsTo.nil (K : Nat) (s : S) : RunsTo K [] s s := by
  intro f ys _; simp

theorem RunsTo.single {K : Nat} {st : Stmt} {s s' : S}
    (h : ∀ f, K ≤ f → execStmt f st s = (.normal, s')) : RunsTo K [st] s s' := by
  intro f ys hf
  obtain ⟨g, rfl⟩ : ∃ g, f = g + 1 := ⟨f - 1, by simp at hf; omega⟩
  simp only [List.cons_append, List.nil_append, Block.ofList, execBlock, List.length_cons,
    List.length_nil, Nat.zero_add, Nat.add_sub_cancel]
  rw [h g (by simp at hf; omega)]

theorem RunsTo.append {K : Nat} {xs ys : List Stmt} {s s' s'' : S}
    (h1 : RunsTo K xs s s') (h2 : RunsTo K ys s' s'') : RunsTo K (xs ++ ys) s s'' := by
  intro f zs hf
  simp only [List.length_append] at hf
  rw [List.append_assoc, h1 f (ys ++ zs) (by omega), h2 (f - xs.length) zs (by omega)]
  simp only [List.length_append]
  congr 1
  omega

theorem RunsTo.mono {K K' : Nat} {xs : List Stmt} {s s' : S} (h : RunsTo K xs s s')
    (hk : K ≤ K') : RunsTo K' xs s s' := by
  intro f ys hf
  exact h f ys (by omega)

/-- a straight-line block as a whole -/
theorem RunsTo.block {K : Nat} {xs : List Stmt} {s s' : S} (h : RunsTo K xs s s') (f : Nat)
    (hf : K + xs.length + 1 ≤ f) : execBlock f (Block.ofList xs) s = (.normal, s') := by
  have := h f [] (by omega)
  rw [List.append_nil] at this
  rw [this]
  obtain ⟨g, hg⟩ : ∃ g, f - xs.length = g + 1 := ⟨f - xs.length - 1, by omega⟩
  rw [hg]
  rfl

/-! ### single statements -/

theorem device_running (s : S) (f : Vm.State → Vm.State) (h : (f s.vm).status = .running) :
    s.device f = (.normal, { s with vm := f s.vm }) := by
  simp [S.device, h]

/-- with nothing in the `time` register, the implicit wait before a command does nothing -/
theorem wait_noop (vm : Vm.State) (h : numOf (vm.regs .time) = some 0) :
    execInstr default vm .wait = vm := by
  simp only [numOf, Option.map_eq_some_iff] at h
  obtain ⟨⟨q, fl⟩, hq, rfl⟩ := h
  simp only [execInstr]
  split
  · rename_i p hp; rw [hp] at hq; simp [Val.asNum] at hq
  · rw [hq]
    have : ¬ ((0 : Rat) > 0) := by decide +kernel
    simp [this]

theorem exec_setReg_lit (f : Nat) (r : Reg) (v : Val) (s : S) :
    execStmt (f + 2) (.setReg r (.lit v)) s = (.normal, s.setReg r v) := by
  simp [execStmt, evalRv]

/-- `set`/`on`/`off` with one operand: the power register for `on`/`off`, the (idle) wait, the
operand -/
theorem exec_action_single (f : Nat) (k : ActKind) (o : Operand_) (s : S)
    (ht : numOf (s.vm.regs .time) = some 0) (hr : s.vm.status = .running) :
    execStmt (f + 3) (.action k true (.cons o .nil)) s =
      execOperand (f + 1) k o
        (match k with
          | .on => s.setReg .power (.bool true)
          | .off => s.setReg .power (.bool false)
          | .set => s) := by
  have hw : ∀ s1 : S, numOf (s1.vm.regs .time) = some 0 → s1.vm.status = .running →
      (s1.device fun vm => execInstr default vm .wait) = (.normal, s1) := by
    intro s1 h1 h2
    rw [device_running _ _ (by rw [wait_noop _ h1]; exact h2), wait_noop _ h1]
  simp only [execStmt]
  cases k
  all_goals
    simp only []
    rw [hw _ (by simpa [S.setReg, State.setReg] using ht) (by simpa [S.setReg, State.setReg] using hr)]
    simp only [execOperands, ↓reduceIte]
    generalize execOperand (f + 1) _ _ _ = R
    obtain ⟨o', s'⟩ := R
    cases o' <;> rfl


theorem exec_light (f : Nat) (k : ActKind) (n : String) (s : S) :
    execOperand (f + 1) k (.light (.str n)) s =
      ((s.setReg .name (.str n)).setReg .operand (.operand .light)).device
        (if k == .set then Vm.State.doColor else Vm.State.doPower) := by
  simp only [execOperand]

theorem exec_zone_single (f : Nat) (k : ActKind) (n : String) (a : Val) (s : S) :
    execOperand (f + 3) k (.zone (.str n) ⟨.lit a, none⟩) s =
      ((((s.setReg .name (.str n)).setReg .firstZone a).setReg .lastZone .none).setReg
        .operand (.operand .mzLight)).device
        (if k == .set then Vm.State.doColor else Vm.State.doPower) := by
  simp only [execOperand, evalRange, evalRv]

theorem exec_stage_cell (f : Nat) (a b : Val) (s : S) :
    execStmt (f + 4) (.stage (some ⟨.lit a, none⟩) (some ⟨.lit b, none⟩) false) s =
      (((((s.setReg .operand (.operand .matrix)).setReg .firstRow a).setReg .lastRow .none).setReg
        .firstColumn b).setReg .lastColumn .none).device Vm.State.doColor := by
  simp [execStmt, evalMatrixRanges, evalRange, evalRv]

theorem exec_matrixBlock (f : Nat) (k : ActKind) (n : String) (body : Block) (s : S) (l : Light) (h w : Nat)
    (hl : s.vm.light? (.str n) = some l) (hk : l.kind = .matrix h w)
    (hr : s.vm.status = .running) :
    execOperand (f + 1) k (.matrixBlock (.str n) body) s =
      match execBlock f body
        { s with vm := { s.vm.setReg .name (.str n) with matrix := some ⟨h, w, []⟩ } } with
      | (.normal, s2) => ((s2.setReg .name (.str n)).setReg .operand (.operand .matrixLight)).device
          (if k == .set then Vm.State.doColor else Vm.State.doPower)
      | r => r := by
  have hl' : (s.vm.setReg .name (.str n)).light? ((s.vm.setReg .name (.str n)).regs .name) = some l := by
    simpa [State.setReg, State.light?] using hl
  have hm : execInstr default (s.vm.setReg .name (.str n)) .matrix =
      { s.vm.setReg .name (.str n) with matrix := some ⟨h, w, []⟩ } := by
    simp only [execInstr, hl', hk]
  have hdev : ((s.setReg .name (.str n)).device fun vm => execInstr default vm .matrix) =
      (.normal, { s with vm := { s.vm.setReg .name (.str n) with matrix := some ⟨h, w, []⟩ } }) := by
    rw [device_running _ _ (by simp only [S.setReg, hm]; exact hr)]
    simp only [S.setReg, hm]
  simp only [execOperand, hdev]
  rfl

end SemSteps
end Bardolph
