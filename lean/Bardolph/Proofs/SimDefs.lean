import Bardolph.Proofs.SimReloc
import Bardolph.Props.C06
/-!
Routine definitions anywhere in the script (top level, inside `if` and `repeat` bodies).

* `strip_sem`: replacing every definition by a statement that does nothing (`stripB`) does not
  change what `Sem` computes — a definition takes effect through `Sem.collect`, not when it is
  reached;
* `mainSegment_strip`: the main segment the loader makes of the compiled script is the compiled
  stripped script;
-/
namespace Bardolph
namespace Sim
open Vm VmSteps Sem Gen

variable {V : String → Prop} {K : List String}

/-! ## the source semantics does not see where the definitions stand -/

structure StripInv (f : Nat) : Prop where
  stmt : ∀ st σ, execStmt f (stripS st) σ = execStmt f st σ
  block : ∀ b σ, execBlock f (stripB b) σ = execBlock f b σ
  passes : ∀ binds ix body σ, execPasses f binds ix (stripB body) σ = execPasses f binds ix body σ
  while_ : ∀ c body σ, execWhile f c (stripB body) σ = execWhile f c body σ
  loop : ∀ h body σ, execLoop f h (stripB body) σ = execLoop f h body σ
  iter : ∀ names lv w body σ, iterLoop f names lv w (stripB body) σ = iterLoop f names lv w body σ
  operands : ∀ k ops σ, execOperands f k (stripOps ops) σ = execOperands f k ops σ
  operand : ∀ k o σ, execOperand f k (stripOp o) σ = execOperand f k o σ

theorem stripInv_zero : StripInv 0 :=
  ⟨fun _ _ => by simp [execStmt], fun _ _ => by simp [execBlock], fun _ _ _ _ => by simp [execPasses],
    fun _ _ _ => by simp [execWhile], fun _ _ _ => by simp [execLoop],
    fun _ _ _ _ _ => by simp [execLoop.eq_def, iterLoop], fun _ _ _ => by simp [execOperands],
    fun _ _ _ => by simp [execOperand]⟩

theorem stripInv_succ (f : Nat) (ih : StripInv f) : StripInv (f + 1) := by
  refine ⟨?_, ?_, ?_, ?_, ?_, ?_, ?_, ?_⟩
  · intro st σ
    cases st with
    | defRoutine n ps body => rfl
    | action k w ops => simp only [stripS, execStmt, ih.operands]
    | ite c t e =>
      cases e with
      | none => simp only [stripS, execStmt, ih.block]
      | some e => simp only [stripS, execStmt, ih.block]
    | repeat_ h body => simp only [stripS, execStmt, ih.loop]
    | _ => rfl
  · intro b σ
    cases b with
    | nil => rfl
    | cons st rest => simp only [stripB, execBlock, ih.stmt, ih.block]
  · intro binds ix body σ
    cases binds with
    | nil => rfl
    | cons bd rest => simp only [execPasses, ih.block, ih.passes]
  · intro c body σ
    simp only [execWhile, ih.block, ih.while_]
  · intro h body σ
    cases h <;> simp only [execLoop, ih.while_, ih.passes, ih.iter]
  · intro names lv w body σ
    cases w <;> simp only [iterLoop, ih.passes]
  · intro k ops σ
    cases ops with
    | nil => rfl
    | cons o rest => simp only [stripOps, execOperands, ih.operand, ih.operands]
  · intro k o σ
    cases o with
    | matrixBlock n body => simp only [stripOp, execOperand, ih.block]
    | _ => rfl

theorem stripInv : ∀ f, StripInv f
  | 0 => stripInv_zero
  | f + 1 => stripInv_succ f (stripInv f)

/-- **definitions do nothing where they stand.**  The source semantics of a script and of the
script with every routine definition replaced by an empty `time at` are the same function (the
routine table is collected beforehand, `Sem.collect`). -/
theorem strip_sem (f : Nat) (b : Block) (σ : S) : execBlock f (stripB b) σ = execBlock f b σ :=
  (stripInv f).block b σ

/-! ## the definitions of a script: `Closed.defsB` and `Sem.collect` -/

mutual
  theorem defsS_frag : ∀ (s : Stmt), FragStmt V s → Closed.defsS s = []
    | .defRoutine _ _ _, h => absurd h (by simp [FragStmt])
    | .ite c t none, h => by rw [Closed.defsS]; exact defsB_frag t h.2.1
    | .ite c t (some e), h => by rw [Closed.defsS, defsB_frag t h.2.1, defsB_frag e h.2.2]; rfl
    | .repeat_ hd body, h => by rw [Closed.defsS]; exact defsB_frag body h.2
    | .action k w ops, h => by rw [Closed.defsS]; exact defsOps_frag ops h
    | .setReg _ _, _ => by rw [Closed.defsS]
    | .units _, _ => by rw [Closed.defsS]
    | .actAll _, _ => by rw [Closed.defsS]
    | .setDefault _, _ => by rw [Closed.defsS]
    | .get _, _ => by rw [Closed.defsS]
    | .wait, _ => by rw [Closed.defsS]
    | .timeAt _, _ => by rw [Closed.defsS]
    | .assign _ _, _ => by rw [Closed.defsS]
    | .defMacro _ _, _ => by rw [Closed.defsS]
    | .call _ _ _, _ => by rw [Closed.defsS]
    | .ret _, _ => by rw [Closed.defsS]
    | .brk, _ => by rw [Closed.defsS]
    | .print _, _ => by rw [Closed.defsS]
    | .println _, _ => by rw [Closed.defsS]
    | .printf _ _, _ => by rw [Closed.defsS]
    | .stage _ _ _, _ => by rw [Closed.defsS]
  theorem defsB_frag : ∀ (b : Block), FragBlock V b → Closed.defsB b = []
    | .nil, _ => by rw [Closed.defsB]
    | .cons s rest, h => by rw [Closed.defsB, defsS_frag s h.1, defsB_frag rest h.2]; rfl
  theorem defsOp_frag : ∀ (o : Operand_), FragOperand V o → Closed.defsOp o = []
    | .light _, _ => by rw [Closed.defsOp]
    | .group _, _ => by rw [Closed.defsOp]
    | .location _, _ => by rw [Closed.defsOp]
    | .zone _ _, _ => by rw [Closed.defsOp]
    | .matrixInline _ _ _ _, _ => by rw [Closed.defsOp]
    | .matrixBlock _ body, h => by rw [Closed.defsOp]; exact defsB_frag body h
  theorem defsOps_frag : ∀ (ops : Operands), FragOperands V ops → Closed.defsOps ops = []
    | .nil, _ => by rw [Closed.defsOps]
    | .cons o rest, h => by rw [Closed.defsOps, defsOp_frag o h.1, defsOps_frag rest h.2]; rfl
end

mutual
  /-- the definitions the loader extracts are the ones `Sem.collect` finds, in the same order -/
  theorem defsB_collect : ∀ (b : Block), FragBlock V (stripB b) →
      Closed.defsB b = (Sem.collect b).map fun d => (d.1, d.2.body)
    | .nil, _ => by rw [Closed.defsB, Sem.collect]; rfl
    | .cons st rest, h => by
      simp only [stripB, FragBlock] at h
      have ih := defsB_collect rest h.2
      cases st with
      | defRoutine n ps body => simp only [Closed.defsB, Closed.defsS, Sem.collect, ih, List.map_cons]; rfl
      | ite c t e =>
        cases e with
        | none =>
          have h1 := h.1
          simp only [stripS, FragStmt] at h1
          simp only [Closed.defsB, Closed.defsS, Sem.collect, ih, defsB_collect t h1.2.1, List.map_append]
        | some e =>
          have h1 := h.1
          simp only [stripS, FragStmt] at h1
          simp only [Closed.defsB, Closed.defsS, Sem.collect, ih, defsB_collect t h1.2.1,
            defsB_collect e h1.2.2, List.map_append, List.append_assoc]
      | repeat_ hd body =>
        have h1 := h.1
        simp only [stripS, FragStmt] at h1
        simp only [Closed.defsB, Closed.defsS, Sem.collect, ih, defsB_collect body h1.2, List.map_append]
      | action k w ops =>
        have h1 := h.1
        simp only [stripS, FragStmt] at h1
        simp only [Closed.defsB, Closed.defsS, Sem.collect, ih, defsOps_collect ops h1, List.map_append]
      | _ => simp only [Closed.defsB, Closed.defsS, Sem.collect, ih, List.nil_append]
  theorem defsOps_collect : ∀ (ops : Operands), FragOperands V (stripOps ops) →
      Closed.defsOps ops = (Sem.collectOps ops).map fun d => (d.1, d.2.body)
    | .nil, _ => by rw [Closed.defsOps, Sem.collectOps]; rfl
    | .cons o rest, h => by
      simp only [stripOps, FragOperands] at h
      have ih := defsOps_collect rest h.2
      cases o with
      | matrixBlock n body =>
        have h1 := h.1
        simp only [stripOp, FragOperand] at h1
        simp only [Closed.defsOps, Closed.defsOp, Sem.collectOps, ih, defsB_collect body h1, List.map_append]
      | _ => simp only [Closed.defsOps, Closed.defsOp, Sem.collectOps, ih, List.nil_append]
end

/-! ## the loaded image of a script with definitions anywhere -/

theorem noBrk_mainAuxP (n : Nat) (bits : List Bool) (c : Code) (cb : List Bool) (i : Nat) (h : NoBrk c) :
    NoBrk (mainAuxP (relocG n bits) c cb i) := by
  induction c generalizing cb i with
  | nil => intro g hg; simp [mainAuxP_nil] at hg
  | cons g r ih =>
    cases cb with
    | nil => intro g' hg'; simp [mainAuxP] at hg'
    | cons b cb =>
      have hr := ih cb (i + 1) fun g' hg' => h g' (by simp [hg'])
      cases b with
      | true => simpa [mainAuxP] using hr
      | false =>
        intro g' hg'
        simp only [mainAuxP, Bool.false_eq_true, if_false, List.mem_cons] at hg'
        rcases hg' with rfl | hg'
        · cases g with
          | brk => exact absurd rfl (h .brk (by simp))
          | i x => simp [relocG]
        · exact hr g' hg'

/-- the main segment of the compiled script is the compiled script without the definitions -/
theorem mainSegment_strip (b : Block) (hws : Closed.wsBlock K false false false b = true)
    (hf : FragBlock V (stripB b)) (hnb : NoBrk (genBlock b)) :
    Loader.mainSegment ((genBlock b).map Closed.gi) (Loader.classify none ((genBlock b).map Closed.gi)) =
      (genBlock (stripB b)).map Closed.gi ∧ NoBrk (genBlock (stripB b)) := by
  have hm := mloc_block (V := V) b false false hws hf
  have hins : genBlock b = ins ((genBlock b).map Closed.gi) := by
    have := resolve_noBrk _ hnb 0 (0 : Nat)
    generalize genBlock b = c at hnb
    clear this hm
    induction c with
    | nil => rfl
    | cons g r ih =>
      have := ih fun g' hg' => hnb g' (by simp [hg'])
      cases g with
      | brk => exact absurd rfl (hnb .brk (by simp))
      | i x => simp only [List.map_cons, Closed.gi, Closed.ins_cons, ← this]
  constructor
  · rw [Closed.Load.mainSegment_eq, reloc_eq, ← hm]
    have := mainAuxP_map (relocG ((genBlock b).map Closed.gi).length (Loader.classify none ((genBlock b).map Closed.gi)))
      (relocI ((genBlock b).map Closed.gi).length (Loader.classify none ((genBlock b).map Closed.gi)))
      (fun x i => rfl) ((genBlock b).map Closed.gi) (Loader.classify none ((genBlock b).map Closed.gi)) 0
    rw [← this, ← hins]
    unfold mloc clsG
    simp only [List.length_map]
  · rw [← hm]
    exact noBrk_mainAuxP _ _ _ _ _ hnb

theorem code_of_genProgram {b : Block} {code : List Instr} (hcode : genProgram b = some code) :
    code = (genBlock b).map Closed.gi := by
  have hnb := noBrk_of_mapM _ _ hcode
  rw [← resolve_noBrk _ hnb 0 (0 : Nat)]
  exact (resolve_of_mapM _ _ hcode 0 _).symm

/-- the bodies of the definitions: well-scoped routine bodies -/
theorem ws_bodies (b : Block) (hws : Closed.wsBlock K false false false b = true)
    (hf : FragBlock V (stripB b)) :
    ∀ d ∈ Sem.collect b, Closed.wsBlock K true false false d.2.body = true := by
  intro d hd
  have := C06.ws_defs_block b false false hws (d.1, d.2.body) (by
    rw [defsB_collect b hf]
    exact List.mem_map.mpr ⟨d, hd, rfl⟩)
  exact this

/-- **the loaded image**, definitions anywhere: a jump over the routine sections, the sections
in source order, the compiled script without its definitions; the table points behind each
`ROUTINE` marker.  Without definitions: the code as it is. -/
theorem load_defs (b : Block) (hws : Closed.wsBlock K false false false b = true)
    (hf : FragBlock V (stripB b)) (code : List Instr) (hcode : genProgram b = some code) :
    Loader.load code =
      if Sem.collect b = [] then ⟨((genBlock (stripB b)).map Closed.gi).toArray, []⟩
      else
        ⟨(Instr.jump .always ((((Sem.collect b).map secOfDef).flatMap Closed.Load.render).length + 1) ::
            (((Sem.collect b).map secOfDef).flatMap Closed.Load.render ++
              (genBlock (stripB b)).map Closed.gi)).toArray,
          ((Closed.Load.secSpans 1 ((Sem.collect b).map secOfDef)).map fun p => (p.1, p.2.1)).reverse⟩ := by
  have hnb := noBrk_of_mapM _ _ hcode
  have hc := code_of_genProgram hcode
  have hins : genBlock b = ins code := genBlock_of_genProgram hcode
  have hmain := (mainSegment_strip (V := V) b hws hf hnb).1
  rw [← hc] at hmain
  have hseg : Loader.routineSegment code (Loader.classify none code) =
      ((Sem.collect b).map secOfDef).flatMap Closed.Load.render := by
    rw [Closed.routineSegment_eq, ← hins, Closed.split_block b false false hws, defsB_collect b hf,
      List.flatMap_map, List.flatMap_map]
    simp only [List.map_flatMap]
    congr 1
    funext d
    simp [Closed.rc, Closed.Load.render, secOfDef, List.map_append, Closed.gi]
  unfold Loader.load
  simp only [hmain, hseg]
  by_cases hs : Sem.collect b = []
  · simp [hs]
  · obtain ⟨d0, rest, hd⟩ := List.exists_cons_of_ne_nil hs
    have hne : (((Sem.collect b).map secOfDef).flatMap Closed.Load.render).isEmpty = false := by
      rw [hd]; simp [List.flatMap_cons, Closed.Load.render]
    have htab : Loader.routineTable (((Sem.collect b).map secOfDef).flatMap Closed.Load.render) =
        (Closed.Load.secSpans 1 ((Sem.collect b).map secOfDef)).map (fun p => (p.1, p.2.1)) := by
      have hsec : ∀ sec ∈ (Sem.collect b).map secOfDef, ∀ x ∈ sec.2, Closed.isRoutine x = none := by
        intro sec hsec x hx
        obtain ⟨d, hd', rfl⟩ := List.mem_map.mp hsec
        have hm := Closed.markerFree_block (ws_bodies b hws hf d hd')
        obtain ⟨g, hg, rfl⟩ := List.mem_map.mp hx
        exact (hm g hg).1
      have := Closed.Load.routineTable_secs _ 0 hsec
      simp only [Nat.zero_add] at this
      exact this
    simp only [hne, hs, if_false, htab]
    rfl

/-- the routine table of such an image leads to the bodies -/
theorem routinesAt_image (ds : List (String × Sem.Routine)) (main : List Instr)
    (hfrag : ∀ d ∈ ds, FragBlock V d.2.body ∧ (V d.1 → EndsRet d.2.body) ∧ NoBrk (genBlock d.2.body)) :
    RoutinesAt V
      ⟨(Instr.jump .always (((ds.map secOfDef).flatMap Closed.Load.render).length + 1) ::
          ((ds.map secOfDef).flatMap Closed.Load.render ++ main)).toArray,
        ((Closed.Load.secSpans 1 (ds.map secOfDef)).map fun p => (p.1, p.2.1)).reverse⟩ ds.reverse := by
  generalize himg : Image.mk _ _ = img
  have hcode : ∀ j, j < ((ds.map secOfDef).flatMap Closed.Load.render).length →
      img.code[1 + j]? = ((ds.map secOfDef).flatMap Closed.Load.render)[j]? := by
    intro j hj
    subst himg
    simp only []
    rw [List.getElem?_toArray, Nat.add_comm 1 j, List.getElem?_cons_succ,
      List.getElem?_append_left hj]
  have hpar := spans_forall2 secOfDef img.code ds 1 hcode
  intro name
  rcases find_rev_forall2 (ka := fun d => d.1) (kb := fun p => p.1)
    (fun d p hp => by simpa [secOfDef] using hp.1) hpar name with ⟨h1, h2⟩ | ⟨d, p, h1, h2, hp⟩
  · rw [h1]
    simp only [Image.routine?]
    subst himg
    simp only [h2, Option.map_none]
  · rw [h1]
    obtain ⟨n, rt⟩ := d
    have hmem : (n, rt) ∈ ds := List.mem_reverse.mp (List.mem_of_find?_eq_some h1)
    refine ⟨(hfrag _ hmem).1, ?_, p.2, n, ?_, ?_⟩
    · have hname : n = name := by
        have := List.find?_some h1
        simpa using this
      rw [← hname]
      exact (hfrag _ hmem).2.1
    · simp only [Image.routine?]
      subst himg
      simp only [h2, Option.map_some]
    · rw [resolve_noBrk _ (hfrag _ hmem).2.2]
      intro k hk
      exact hp.2 k hk

theorem eq_ins_of_noBrk {c : Code} (h : NoBrk c) : c = ins (c.map Closed.gi) := by
  induction c with
  | nil => rfl
  | cons g r ih =>
    have := ih fun g' hg' => h g' (by simp [hg'])
    cases g with
    | brk => exact absurd rfl (h .brk (by simp))
    | i x => simp only [List.map_cons, Closed.gi, Closed.ins_cons, ← this]

theorem noBrk_ins (xs : List Instr) : NoBrk (ins xs) := by
  intro g hg
  simp only [ins, List.mem_map] at hg
  obtain ⟨x, _, rfl⟩ := hg
  simp

/-- a script with routine definitions anywhere outside routine and matrix bodies: without the
definitions it is a script of the fragment, and the bodies of the definitions are blocks of the
fragment (those of the routines called for their value ending with `return`) -/
def DefBlock (V : String → Prop) (b : Block) : Prop :=
  FragBlock V (stripB b) ∧ ∀ d ∈ Sem.collect b, FragBlock V d.2.body ∧ (V d.1 → EndsRet d.2.body)

/-- what the simulation needs of the loaded image -/
theorem image_defs (b : Block) (hb : DefBlock V b) (hws : Closed.wsBlock K false false false b = true)
    (code : List Instr) (hcode : genProgram b = some code) :
    ∃ (main : List Instr) (pc : Nat),
      genProgram (stripB b) = some main ∧
      RoutinesAt V (Loader.load code) (Sem.collect b).reverse ∧
      CodeAt (Loader.load code) pc main ∧ (Loader.load code).code.size = pc + main.length ∧
      (pc = 0 ∨ (Loader.load code).code[0]? = some (.jump .always (pc : Int))) := by
  have hnb := noBrk_of_mapM _ _ hcode
  have hnm := (mainSegment_strip (V := V) b hws hb.1 hnb).2
  have hmain : genProgram (stripB b) = some ((genBlock (stripB b)).map Closed.gi) :=
    genProgram_of_ins _ _ (eq_ins_of_noBrk hnm)
  rw [load_defs b hws hb.1 code hcode]
  by_cases hs : Sem.collect b = []
  · rw [if_pos hs, hs]
    refine ⟨_, 0, hmain, fun name => rfl, ?_, by simp, Or.inl rfl⟩
    have := CodeAt.intro [] ((genBlock (stripB b)).map Closed.gi) [] []
    simpa using this
  · rw [if_neg hs]
    generalize hrs : ((Sem.collect b).map secOfDef).flatMap Closed.Load.render = rseg
    refine ⟨_, rseg.length + 1, hmain, ?_, ?_, by simp; omega, Or.inr (by simp)⟩
    · rw [← hrs]
      refine routinesAt_image (Sem.collect b) _ fun d hd => ⟨(hb.2 d hd).1, (hb.2 d hd).2, ?_⟩
      rw [(C06.body_closed (ws_bodies b hws hb.1 d hd)).1]
      exact noBrk_ins _
    · have := CodeAt.intro (Instr.jump .always ((rseg.length : Int) + 1) :: rseg)
        ((genBlock (stripB b)).map Closed.gi) []
        ((Closed.Load.secSpans 1 ((Sem.collect b).map secOfDef)).map fun p => (p.1, p.2.1)).reverse
      simpa using this

end Sim
end Bardolph
