import Bardolph.Proofs.ParseTokTop
import Bardolph.Proofs.LexLemmas
/-!
What the lexer model `Lex.tokens` guarantees about its tokens, as far as the parser model depends
on it (`tokOk`), and where their line numbers lie.
-/
namespace Bardolph.ParseTok
open Bardolph Bardolph.Lex Bardolph.Generated

/-- a token of `lineTokens`: its line, and how its type and content arise -/
theorem mem_lineTokens {n : Nat} {ws : List (List Char)} {t : Lex.Token} (h : t ∈ lineTokens n ws) :
    t.line = n ∧ (t.type = "MARK" ∨
      ∃ u, t.type = tokenType u ∧ (t.type ≠ "LITERAL_STRING" → t.content = u)) := by
  induction ws with
  | nil => simp [lineTokens] at h
  | cons m rest ih =>
    unfold lineTokens at h
    dsimp only at h
    split at h
    · simp at h
    · split at h
      · rcases List.mem_cons.mp h with h | h
        · subst h; exact ⟨rfl, .inl rfl⟩
        · exact ih h
      · rcases List.mem_cons.mp h with h | h
        · subst h
          refine ⟨rfl, .inr ⟨_, rfl, fun hne => ?_⟩⟩
          dsimp only at hne ⊢
          have : (tokenType (unabbreviate (String.ofList m)) == "LITERAL_STRING") = false := by
            simpa using hne
          simp only [this, Bool.false_eq_true, if_false]
        · exact ih h

theorem mem_tokens {text : String} {t : Lex.Token} (h : t ∈ Lex.tokens text) :
    ∃ i ws, i < (text.splitOn "\n").length ∧ t ∈ lineTokens (i + 1) ws := by
  unfold Lex.tokens at h
  obtain ⟨l, hl, ht⟩ := List.mem_flatten.mp h
  obtain ⟨⟨line, i⟩, hm, rfl⟩ := List.mem_map.mp hl
  have := List.mem_zipIdx hm
  exact ⟨i, _, by omega, ht⟩

/-- the line number of every token is the number of a line of the text -/
theorem tokens_line {text : String} {t : Lex.Token} (h : t ∈ Lex.tokens text) :
    1 ≤ t.line ∧ t.line ≤ (text.splitOn "\n").length := by
  obtain ⟨i, ws, hi, ht⟩ := mem_tokens h
  have := (mem_lineTokens ht).1
  omega

theorem kw_upper : ∀ k ∈ LexTables.keywords,
    (k.toUpper = "NOT" → k = "not") ∧ (k.toUpper = "AND" → k = "and") ∧
    (k.toUpper = "OR" → k = "or") ∧ k.toUpper ≠ "COMPARE" ∧ k.toUpper ≠ "TIME_PATTERN" ∧
    k.toUpper ≠ "NUMBER" ∧ k.toUpper ≠ "NAME" ∧ k.toUpper ≠ "LITERAL_STRING" := by
  decide +kernel

/-- `Lex._token_type`: how a word gets its type -/
theorem tokenType_inv (w : String) :
    (w ∈ LexTables.keywords ∧ tokenType w = w.toUpper) ∨ tokenType w = "REGISTER" ∨
    tokenType w = "ERROR" ∨
    (tokenType w ∈ LexTables.classifyOrder ∧ classifyBy (tokenType w) w.toList = true) := by
  unfold tokenType
  by_cases h1 : (isLower w && LexTables.keywords.contains w) = true
  · rw [if_pos h1]
    simp only [Bool.and_eq_true, List.contains_eq_mem, decide_eq_true_eq] at h1
    exact .inl ⟨h1.2, rfl⟩
  · rw [if_neg h1]
    by_cases h2 : LexTables.registerWords.contains w = true
    · rw [if_pos h2]; exact .inr (.inl rfl)
    · rw [if_neg h2]
      cases hf : LexTables.classifyOrder.find? fun t => classifyBy t w.toList with
      | none => exact .inr (.inr (.inl rfl))
      | some t =>
        have h3 : classifyBy t w.toList = true :=
          List.find?_some (p := fun t => classifyBy t w.toList) hf
        exact .inr (.inr (.inr ⟨List.mem_of_find?_eq_some hf, h3⟩))

theorem ofString_cases (s : String) :
    (TT.ofString s = .not_ → s = "NOT") ∧ (TT.ofString s = .and_ → s = "AND") ∧
    (TT.ofString s = .or_ → s = "OR") ∧ (TT.ofString s = .compare → s = "COMPARE") ∧
    (TT.ofString s = .name → s = "NAME") ∧ (TT.ofString s = .timePattern → s = "TIME_PATTERN") ∧
    (TT.ofString s = .number → s = "NUMBER") := by
  unfold TT.ofString
  split <;> simp

/-- the types the regular-expression classification can give are not keyword types -/
theorem classify_types : ∀ T ∈ LexTables.classifyOrder, T ≠ "NOT" ∧ T ≠ "AND" ∧ T ≠ "OR" := by
  decide

theorem tokOk_of_lex {t : Lex.Token}
    (hs : t.type = "MARK" ∨ ∃ u, t.type = tokenType u ∧ (t.type ≠ "LITERAL_STRING" → t.content = u)) :
    tokOk (Tok.ofLex t) = true := by
  obtain ⟨o1, o2, o3, o4, o5, o6, o7⟩ := ofString_cases t.type
  -- the word the token was made from, when its type is one of the seven that matter
  have word : ∀ T : String, t.type = T → T ≠ "MARK" → T ≠ "LITERAL_STRING" →
      ∃ u, tokenType u = T ∧ t.content = u := by
    intro T hT h1 h2
    rcases hs with h | ⟨u, hu, hc⟩
    · rw [hT] at h; exact absurd h h1
    · exact ⟨u, by rw [← hu, hT], hc (by rw [hT]; exact h2)⟩
  unfold tokOk Tok.ofLex
  cases hty : TT.ofString t.type
  all_goals dsimp only
  all_goals first
    | rfl
    | skip
  · -- and
    obtain ⟨u, hu, hc⟩ := word "AND" (o2 hty) (by decide) (by decide)
    rcases tokenType_inv u with ⟨hk, he⟩ | he | he | ⟨hm, _⟩
    · have := (kw_upper u hk).2.1 (by rw [← he, hu])
      rw [hc, this]; decide
    · rw [hu] at he; exact absurd he (by decide)
    · rw [hu] at he; exact absurd he (by decide)
    · rw [hu] at hm; exact absurd rfl (classify_types _ hm).2.1
  · -- compare
    obtain ⟨u, hu, hc⟩ := word "COMPARE" (o4 hty) (by decide) (by decide)
    rcases tokenType_inv u with ⟨hk, he⟩ | he | he | ⟨_, hcl⟩
    · exact absurd (by rw [← he, hu]) (kw_upper u hk).2.2.2.1
    · rw [hu] at he; exact absurd he (by decide)
    · rw [hu] at he; exact absurd he (by decide)
    · rw [hu] at hcl
      rw [hc]
      simp only [bne_iff_ne, ne_eq]
      intro h; rw [h] at hcl; revert hcl; decide
  · -- name
    obtain ⟨u, hu, hc⟩ := word "NAME" (o5 hty) (by decide) (by decide)
    rcases tokenType_inv u with ⟨hk, he⟩ | he | he | ⟨_, hcl⟩
    · exact absurd (by rw [← he, hu]) (kw_upper u hk).2.2.2.2.2.2.1
    · rw [hu] at he; exact absurd he (by decide)
    · rw [hu] at he; exact absurd he (by decide)
    · rw [hu] at hcl
      rw [hc]
      unfold nameLike
      simp only [classifyBy, scanName] at hcl
      cases hl : u.toList with
      | nil => rw [hl] at hcl; simp at hcl
      | cons c r =>
        rw [hl] at hcl
        dsimp only at hcl ⊢
        by_cases hn : isNameStart c = true
        · exact hn
        · simp [hn] at hcl
  · -- not
    obtain ⟨u, hu, hc⟩ := word "NOT" (o1 hty) (by decide) (by decide)
    rcases tokenType_inv u with ⟨hk, he⟩ | he | he | ⟨hm, _⟩
    · have := (kw_upper u hk).1 (by rw [← he, hu])
      rw [hc, this]; decide
    · rw [hu] at he; exact absurd he (by decide)
    · rw [hu] at he; exact absurd he (by decide)
    · rw [hu] at hm; exact absurd rfl (classify_types _ hm).1
  · -- number
    obtain ⟨u, hu, hc⟩ := word "NUMBER" (o7 hty) (by decide) (by decide)
    rcases tokenType_inv u with ⟨hk, he⟩ | he | he | ⟨_, hcl⟩
    · exact absurd (by rw [← he, hu]) (kw_upper u hk).2.2.2.2.2.1
    · rw [hu] at he; exact absurd he (by decide)
    · rw [hu] at he; exact absurd he (by decide)
    · rw [hu] at hcl
      rw [hc]
      unfold nameLike
      simp only [classifyBy] at hcl
      cases hl : u.toList with
      | nil => rfl
      | cons c r =>
        rw [hl] at hcl
        dsimp only
        by_cases hn : isNameStart c = true
        · rw [scanNumber_none r (isNameStart_not_digit hn) (nameStart_ne hn).2.2.2.2.2.1] at hcl
          cases hcl
        · simpa using hn
  · -- or
    obtain ⟨u, hu, hc⟩ := word "OR" (o3 hty) (by decide) (by decide)
    rcases tokenType_inv u with ⟨hk, he⟩ | he | he | ⟨hm, _⟩
    · have := (kw_upper u hk).2.2.1 (by rw [← he, hu])
      rw [hc, this]; decide
    · rw [hu] at he; exact absurd he (by decide)
    · rw [hu] at he; exact absurd he (by decide)
    · rw [hu] at hm; exact absurd rfl (classify_types _ hm).2.2
  · -- time pattern
    obtain ⟨u, hu, hc⟩ := word "TIME_PATTERN" (o6 hty) (by decide) (by decide)
    rcases tokenType_inv u with ⟨hk, he⟩ | he | he | ⟨_, hcl⟩
    · exact absurd (by rw [← he, hu]) (kw_upper u hk).2.2.2.2.1
    · rw [hu] at he; exact absurd he (by decide)
    · rw [hu] at he; exact absurd he (by decide)
    · rw [hu] at hcl
      rw [hc]
      unfold nameLike
      simp only [classifyBy] at hcl
      cases hl : u.toList with
      | nil => rfl
      | cons c r =>
        rw [hl] at hcl
        dsimp only
        by_cases hn : isNameStart c = true
        · rw [scanTimePattern_of_tag_other r (tag_nameStart hn)] at hcl
          cases hcl
        · simpa using hn

/-- every token of the lexer model satisfies `tokOk` -/
theorem tokOk_tokens (text : String) :
    ∀ t ∈ (Lex.tokens text).map Tok.ofLex, tokOk t = true := by
  intro t ht
  obtain ⟨l, hl, rfl⟩ := List.mem_map.mp ht
  obtain ⟨i, ws, _, hm⟩ := mem_tokens hl
  exact tokOk_of_lex (mem_lineTokens hm).2

end Bardolph.ParseTok
