import Bardolph.Proofs.ParseTokPrim
/-! The proof automation, and `Spec` for the rvalue family (`_rvalue`, `_call_routine`, the expression
parser). -/
namespace Bardolph.ParseTok
open Bardolph

variable {t : Bool}

/-- decompose a `do` block along its binds, tests and matches; closes the primitive leaves and
those that are instances of the given lemmas -/
syntax "spec_steps" ("[" term,* "]")? : tactic
macro_rules
  | `(tactic| spec_steps) => `(tactic| spec_steps [])
  | `(tactic| spec_steps [$ts,*]) => `(tactic| repeat' (first
    | assumption
    | with_reducible exact Spec.pure _
    | with_reducible exact spec_getSt
    | with_reducible exact spec_emit _
    | with_reducible exact spec_emitTo _ _
    | with_reducible exact spec_emitList _
    | with_reducible exact spec_emitListTo _ _
    | with_reducible exact spec_offset
    | with_reducible exact spec_patch _ _
    | with_reducible exact spec_takeInner
    | with_reducible exact spec_triggerError _
    | with_reducible exact spec_tokenError _ _
    | with_reducible exact spec_timeSpecError
    | with_reducible exact spec_syntaxError
    | with_reducible exact spec_nextToken
    | with_reducible exact spec_skipToken
    | with_reducible exact spec_addVariable _
    | with_reducible exact spec_assignable _
    | with_reducible exact spec_addRoutine _ _
    | with_reducible exact spec_addParam _ _
    | with_reducible exact Spec.outOfFuel
    $[| with_reducible exact $ts]*
    | with_reducible refine Spec.bind ?_ (fun _ => ?_)
    | with_reducible apply Spec.ite
    | split
    | (show Spec t _; dsimp only)))

theorem spec_ifTrueStart : Spec t ifTrueStart := by unfold ifTrueStart; spec_steps
theorem spec_ifElse (m : Marker) : Spec t (ifElse m) := by unfold ifElse; spec_steps
theorem spec_ifEnd (m : Marker) : Spec t (ifEnd m) := by unfold ifEnd; spec_steps
theorem spec_jumpBack (n : Nat) : Spec t (jumpBack n) := by unfold jumpBack; spec_steps
theorem spec_waitStmt : Spec t waitStmt := by unfold waitStmt; spec_steps
theorem spec_setUnits : Spec t setUnits := by unfold setUnits; spec_steps

theorem spec_deliverConst (c d cg) : Spec t (deliverConst c d cg) := by
  unfold deliverConst; spec_steps
theorem spec_deliverSrc (c d cg) : Spec t (deliverSrc c d cg) := by unfold deliverSrc; spec_steps

theorem spec_rvalueValue (u d cg v) : Spec t (rvalueValue u d cg v) := by
  unfold rvalueValue
  spec_steps [spec_deliverConst _ _ _, spec_deliverSrc _ _ _]

/-- at a token on which `_current_literal()` left a message, `_rvalue` fails with its own -/
theorem rvalueValue_bad (u : Bool) (d : Dest) (cg : CG) {st : St} (h : BadLit st) :
    ∃ msg, rvalueValue u d cg none st = .fail (st.addError msg) := by
  unfold rvalueValue
  cases u
  · rcases h with h | h <;>
      (simp [getSt_bind, h, tokenError, triggerError]; exact ⟨_, rfl⟩)
  · simp [triggerError]; exact ⟨_, rfl⟩

theorem spec_rvalueSimple (dest : Dest) (cg : CG) : Spec t (rvalueSimple dest cg) := by
  unfold rvalueSimple
  refine Spec.bind spec_getSt (fun s => ?_)
  refine Spec.bind (by spec_steps) (fun _ => ?_)
  refine spec_bind_currentConstant (fun v => spec_rvalueValue _ _ _ v) ?_
  intro st _ hty
  exact rvalueValue_bad _ _ _ hty

/-! ## The rvalue family -/

theorem spec_rvFamily : ∀ f,
    (∀ d cg, Spec false (rvalue f d cg)) ∧ (∀ b, Spec false (callNamed f b)) ∧
    (∀ ps, Spec false (callParams f ps)) ∧ Spec false (expression f) ∧
    (∀ p, Spec false (climb f p)) ∧ (∀ op, Spec false (inner f op)) ∧ Spec false (atom f) := by
  intro f
  induction f with
  | zero =>
    refine ⟨?_, ?_, ?_, ?_, ?_, ?_, ?_⟩ <;> intros <;>
      first
      | (unfold rvalue; exact Spec.outOfFuel)
      | (unfold callNamed; exact Spec.outOfFuel)
      | (unfold callParams; exact Spec.outOfFuel)
      | (unfold expression; exact Spec.outOfFuel)
      | (unfold climb; exact Spec.outOfFuel)
      | (unfold inner; exact Spec.outOfFuel)
      | (unfold atom; exact Spec.outOfFuel)
  | succ f ih =>
    obtain ⟨ihR, ihN, ihP, ihE, ihC, ihI, ihA⟩ := ih
    refine ⟨?_, ?_, ?_, ?_, ?_, ?_, ?_⟩
    · intro d cg
      unfold rvalue
      spec_steps [spec_rvalueSimple _ _, ihN _]
    · intro b
      unfold callNamed
      spec_steps [ihP _]
    · intro ps
      cases ps with
      | nil => unfold callParams; spec_steps
      | cons p ps => unfold callParams; spec_steps [ihR _ _, ihP _]
    · unfold expression; spec_steps [ihC _]
    · intro p; unfold climb; spec_steps [ihC _, ihI _]
    · intro op; unfold inner; spec_steps [ihC _, ihI _]
    · unfold atom; spec_steps [ihR _ _]

/-! ## Consumption and termination: the combinators -/

theorem ok_of_spec {m : M α} (hm : Spec t m) {st st' : St} {a : α} (h : Inv st)
    (he : m st = .ok a st') : Inv st' ∧ st'.rest.length ≤ st.rest.length := by
  have := hm.run st h
  rw [he] at this
  exact ⟨this.inv, suffix_length this.suffix⟩

/-- every successful run consumes at least one token -/
def Strict (m : M α) : Prop :=
  ∀ st a st', Inv st → m st = .ok a st' → st'.rest.length < st.rest.length

theorem bind_ok_inv {m : M α} {f : α → M β} {st st' : St} {b : β}
    (h : (m >>= f) st = .ok b st') : ∃ a s, m st = .ok a s ∧ f a s = .ok b st' := by
  rw [bind_run] at h
  cases hr : m st with
  | ok a s => rw [hr] at h; exact ⟨a, s, rfl, h⟩
  | fail s => rw [hr] at h; cases h
  | raised k s => rw [hr] at h; cases h
  | oof => rw [hr] at h; cases h

theorem bind_oof_inv {m : M α} {f : α → M β} {st : St}
    (h : (m >>= f) st = .oof) : m st = .oof ∨ ∃ a s, m st = .ok a s ∧ f a s = .oof := by
  rw [bind_run] at h
  cases hr : m st with
  | ok a s => rw [hr] at h; exact .inr ⟨a, s, rfl, h⟩
  | fail s => rw [hr] at h; cases h
  | raised k s => rw [hr] at h; cases h
  | oof => exact .inl rfl

theorem Strict.bind_left {m : M α} {f : α → M β} (hs : Spec false m) (hm : Strict m)
    (hf : ∀ a, Spec false (f a)) : Strict (m >>= f) := by
  intro st b st' h he
  obtain ⟨a, s, h1, h2⟩ := bind_ok_inv he
  have := hm st a s h h1
  have := (ok_of_spec (hf a) (ok_of_spec hs h h1).1 h2).2
  omega

theorem Strict.bind_right {m : M α} {f : α → M β} (hs : Spec false m)
    (hf : ∀ a, Strict (f a)) : Strict (m >>= f) := by
  intro st b st' h he
  obtain ⟨a, s, h1, h2⟩ := bind_ok_inv he
  have h3 := ok_of_spec hs h h1
  have := hf a s b st' h3.1 h2
  omega

theorem Strict.ite {c : Prop} [Decidable c] {a e : M α} (ha : Strict a) (he : Strict e) :
    Strict (if c then a else e) := by
  split <;> assumption

theorem Strict.triggerError (msg : String) : Strict (triggerError msg : M α) := by
  intro st a st' _ he; cases he

theorem Strict.tokenError (x y : String) : Strict (tokenError x y : M α) := by
  intro st a st' _ he; cases he

theorem Strict.of_getSt_bind {f : St → M β}
    (h : ∀ s a st', Inv s → f s s = .ok a st' → st'.rest.length < s.rest.length) :
    Strict (getSt >>= f) := by
  intro st a st' hi he
  rw [ParseTok.getSt_bind] at he
  exact h st a st' hi he

theorem nextToken_strict {st st' : St} {a : Unit} (h : Inv st) (he : nextToken st = .ok a st')
    (hne : st.cur.ty ≠ .eof) : st'.rest.length < st.rest.length := by
  obtain ⟨h1, _, h3⟩ := advance_spec h
  unfold nextToken at he
  simp only [h1, if_true] at he
  cases he
  exact h3 hne

theorem skipToken_strict {st st' : St} {a : Unit} (h : Inv st) (he : skipToken st = .ok a st')
    (hne : st.cur.ty ≠ .eof) : st'.rest.length < st.rest.length := by
  obtain ⟨_, _, h3⟩ := advance_spec h
  unfold skipToken at he
  cases he
  exact h3 hne

/-- with budget `6 * pending tokens + c < F` the computation does not run out of fuel -/
def Fin (c F : Nat) (m : M α) : Prop :=
  ∀ st, Inv st → 6 * st.rest.length + c < F → m st ≠ .oof

theorem Fin.of_spec {c F : Nat} {m : M α} (h : Spec true m) : Fin c F m := by
  intro st hi _ he
  have := h.run st hi
  rw [he] at this
  cases this

theorem Fin.mono {c c' F : Nat} {m : M α} (h : Fin c F m) (hc : c ≤ c') : Fin c' F m :=
  fun st hi hb => h st hi (by omega)

theorem Fin.bind {c F : Nat} {m : M α} {f : α → M β} (hm : Fin c F m) (hs : Spec false m)
    (hf : ∀ a, Fin c F (f a)) : Fin c F (m >>= f) := by
  intro st hi hb he
  rcases bind_oof_inv he with h1 | ⟨a, s, h1, h2⟩
  · exact hm st hi hb h1
  · have h3 := ok_of_spec hs hi h1
    exact hf a s h3.1 (by omega) h2

theorem Fin.bind_strict {c F : Nat} {m : M α} {f : α → M β} (hm : Fin c F m)
    (hs : Spec false m) (hst : Strict m) (hf : ∀ a, Fin (c + 6) F (f a)) :
    Fin c F (m >>= f) := by
  intro st hi hb he
  rcases bind_oof_inv he with h1 | ⟨a, s, h1, h2⟩
  · exact hm st hi hb h1
  · have h3 := ok_of_spec hs hi h1
    have h4 := hst st a s hi h1
    exact hf a s h3.1 (by omega) h2

theorem Fin.ite {c F : Nat} {p : Prop} [Decidable p] {a e : M α} (ha : Fin c F a)
    (he : Fin c F e) : Fin c F (if p then a else e) := by
  split <;> assumption

/-- a recursive call with one unit of fuel less -/
theorem Fin.call {r c F : Nat} {m : M α} (h : Fin r F m) (hc : r + 1 ≤ c) : Fin c (F + 1) m :=
  fun st hi hb => h st hi (by omega)

/-! ## `_rvalue` without recursion: what a successful run consumed -/

theorem deliverConst_ok (c : CVal) (d : Dest) (cg : CG) {st s : St} {a : Unit} (h : Inv st)
    (he : deliverConst c d cg st = .ok a s) : s.cur = st.cur ∧ s.rest = st.rest ∧ Inv s := by
  unfold deliverConst at he
  split at he <;> (cases cg <;> (cases he; exact ⟨rfl, rfl, inv_of_eq h rfl rfl rfl⟩))

theorem deliverSrc_ok (c : Src) (d : Dest) (cg : CG) {st s : St} {a : Unit} (h : Inv st)
    (he : deliverSrc c d cg st = .ok a s) : s.cur = st.cur ∧ s.rest = st.rest ∧ Inv s := by
  unfold deliverSrc at he
  split at he
  · cases cg <;> (cases he; exact ⟨rfl, rfl, inv_of_eq h rfl rfl rfl⟩)
  · split at he
    · cases he; exact ⟨rfl, rfl, h⟩
    · cases cg <;> (cases he; exact ⟨rfl, rfl, inv_of_eq h rfl rfl rfl⟩)

/-- `deliver; nextToken; return true` -/
theorem deliver_next_strict {m : M Unit} {st st' : St} {b : Bool} (h : Inv st)
    (hm : ∀ s a, m st = .ok a s → s.cur = st.cur ∧ s.rest = st.rest ∧ Inv s)
    (hne : st.cur.ty ≠ .eof)
    (he : (do m; nextToken; pure true : M Bool) st = .ok b st') :
    b = true ∧ st'.rest.length < st.rest.length := by
  obtain ⟨a1, s1, h1, h2⟩ := bind_ok_inv he
  obtain ⟨a2, s2, h3, h4⟩ := bind_ok_inv h2
  cases h4
  obtain ⟨hc, hr, hi⟩ := hm s1 a1 h1
  have := nextToken_strict hi h3 (by rw [hc]; exact hne)
  rw [hr] at this
  exact ⟨rfl, this⟩

theorem rvalueValue_cases {u : Bool} {d : Dest} {cg : CG} {v : Option CVal} {st st' : St} {b : Bool}
    (h : Inv st) (he : rvalueValue u d cg v st = .ok b st')
    (hv : v.isSome → st.cur.ty ≠ .eof) :
    (b = true ∧ st'.rest.length < st.rest.length) ∨
    (b = false ∧ st' = st ∧ st.cur.ty = .not_ ∧ u = false) := by
  unfold rvalueValue at he
  cases v with
  | some c =>
    dsimp only at he
    split at he
    · cases he
    · exact .inl (deliver_next_strict h (fun s a hs => deliverConst_ok _ _ _ h hs) (hv rfl) he)
  | none =>
    dsimp only at he
    cases u with
    | true => simp [triggerError] at he
    | false =>
      simp only [Bool.false_and, Bool.false_eq_true, if_false, getSt_bind] at he
      cases hty : st.cur.ty
      all_goals rw [hty] at he
      all_goals dsimp only at he
      all_goals first
        | (simp [tokenError, triggerError] at he; done)
        | skip
      · -- name
        split at he
        · exact .inl (deliver_next_strict h (fun s a hs => deliverSrc_ok _ _ _ h hs)
            (by rw [hty]; decide) he)
        · split at he <;> cases he
      · -- not
        cases he
        exact .inr ⟨rfl, rfl, rfl, rfl⟩
      · -- register
        cases hr : regOfName st.cur.str with
        | some r =>
          rw [hr] at he
          exact .inl (deliver_next_strict h (fun s a hs => deliverSrc_ok _ _ _ h hs)
            (by rw [hty]; decide) he)
        | none =>
          rw [hr] at he
          refine .inl (deliver_next_strict h (fun s a hs => ?_) (by rw [hty]; decide) he)
          cases cg <;> (cases hs; exact ⟨rfl, rfl, inv_of_eq h rfl rfl rfl⟩)

theorem isSome_ne_eof {st : St} {v : Option CVal}
    (hty : v.isSome = true → st.cur.ty = .number ∨ st.cur.ty = .literalString ∨
      st.cur.ty = .timePattern ∨ st.cur.ty = .name) : v.isSome → st.cur.ty ≠ .eof := by
  intro hv
  rcases hty hv with a | a | a | a <;> (rw [a]; decide)

theorem rvalueSimple_cases {d : Dest} {cg : CG} {st st' : St} {b : Bool} (h : Inv st)
    (he : rvalueSimple d cg st = .ok b st') :
    (b = true ∧ st'.rest.length < st.rest.length) ∨ (b = false ∧ st' = st ∧ st.cur.ty = .not_) := by
  unfold rvalueSimple at he
  rw [getSt_bind] at he
  by_cases hu : st.cur.isMark "-" = true
  · rw [if_pos hu] at he
    obtain ⟨_, s1, h1, h2⟩ := bind_ok_inv he
    have hi1 := ok_of_spec (t := false) spec_skipToken h h1
    rcases currentConstant_cases hi1.1 with ⟨v, hv, hty⟩ | ⟨hty, msg, hv⟩
    · rw [bind_ok hv] at h2
      rcases rvalueValue_cases hi1.1 h2 (isSome_ne_eof hty) with ⟨hb, hl⟩ | ⟨_, _, _, hf⟩
      · exact .inl ⟨hb, by omega⟩
      · rw [hu] at hf; cases hf
    · rw [bind_ok hv] at h2
      obtain ⟨m2, hm2⟩ := rvalueValue_bad (st.cur.isMark "-") d cg (st := s1.addError msg) hty
      rw [hm2] at h2; cases h2
  · rw [if_neg hu] at he
    rw [bind_ok (pure_run () st)] at he
    have hu' : st.cur.isMark "-" = false := by simpa using hu
    rcases currentConstant_cases h with ⟨v, hv, hty⟩ | ⟨hty, msg, hv⟩
    · rw [bind_ok hv] at he
      rcases rvalueValue_cases h he (isSome_ne_eof hty) with ⟨hb, hl⟩ | ⟨hb, hs, hn, _⟩
      · exact .inl ⟨hb, hl⟩
      · exact .inr ⟨hb, hs, hn⟩
    · rw [bind_ok hv] at he
      obtain ⟨m2, hm2⟩ := rvalueValue_bad (st.cur.isMark "-") d cg (st := st.addError msg) hty
      rw [hm2] at he; cases he


theorem isMark_ne_eof {t : Tok} {m : String} (h : t.isMark m = true) : t.ty ≠ .eof := by
  simp [Tok.isMark] at h
  rw [h.1]; decide

theorem isBinop_ne_eof {t : Tok} (h : t.isBinop = true) : t.ty ≠ .eof := by
  intro he
  simp [Tok.isBinop, he] at h

/-! ## The rvalue family: every successful run consumes a token -/

theorem strict_rvFamily : ∀ f,
    (∀ d cg, Strict (rvalue f d cg)) ∧ Strict (atom f) ∧ Strict (expression f) ∧
    (∀ p st a st', Inv st → climb f p st = .ok a st' → st.cur.isBinop = true →
      st.cur.prec ≥ p → st'.rest.length < st.rest.length) := by
  intro f
  induction f with
  | zero =>
    refine ⟨?_, ?_, ?_, ?_⟩
    · intro d cg st a st' _ he; unfold rvalue at he; cases he
    · intro st a st' _ he; unfold atom at he; cases he
    · intro st a st' _ he; unfold expression at he; cases he
    · intro p st a st' _ he; unfold climb at he; cases he
  | succ f ih =>
    obtain ⟨ihR, ihA, ihE, ihC⟩ := ih
    obtain ⟨sR, sN, sP, sE, sC, sI, sA⟩ := spec_rvFamily f
    refine ⟨?_, ?_, ?_, ?_⟩
    · -- rvalue
      intro d cg
      unfold rvalue
      refine Strict.of_getSt_bind (fun s a st' hi he => ?_)
      by_cases h1 : s.cur.isMark "{" = true
      · rw [if_pos h1] at he
        refine (Strict.bind_right (m := nextToken) spec_nextToken (fun _ =>
          Strict.bind_left sE ihE (fun _ => ?_))) s a st' hi he
        spec_steps
      · rw [if_neg h1] at he
        by_cases h2 : s.cur.isMark "[" = true
        · rw [if_pos h2] at he
          obtain ⟨_, s1, e1, e2⟩ := bind_ok_inv he
          have l1 := skipToken_strict hi e1 (isMark_ne_eof h2)
          have i1 := ok_of_spec (t := false) spec_skipToken hi e1
          have l2 := (ok_of_spec (t := false) (Spec.bind (sN _) (fun _ => by spec_steps)) i1.1 e2).2
          omega
        · rw [if_neg h2] at he
          obtain ⟨b, s1, e1, e2⟩ := bind_ok_inv he
          rcases rvalueSimple_cases hi e1 with ⟨hb, hl⟩ | ⟨hb, hs, _⟩
          · subst hb
            simp only [if_true] at e2
            cases e2
            exact hl
          · subst hb; subst hs
            simp only [Bool.false_eq_true, if_false] at e2
            refine (Strict.bind_right (m := skipToken) spec_skipToken (fun _ =>
              Strict.bind_left sE ihE (fun _ => ?_))) s1 a st' hi e2
            spec_steps
    · -- atom
      unfold atom
      refine Strict.of_getSt_bind (fun s a st' hi he => ?_)
      by_cases h1 : s.cur.isMark "(" = true
      · rw [if_pos h1] at he
        refine (Strict.bind_right (m := skipToken) spec_skipToken (fun _ =>
          Strict.bind_left sE ihE (fun _ => ?_))) s a st' hi he
        spec_steps
      · rw [if_neg h1] at he
        by_cases h2 : (s.cur.isMark "+" || s.cur.isMark "-") = true
        · rw [if_pos h2] at he
          refine (Strict.bind_right (m := skipToken) spec_skipToken (fun _ =>
            Strict.bind_left sA ihA (fun _ => ?_))) s a st' hi he
          spec_steps
        · rw [if_neg h2] at he
          exact ihR _ _ s a st' hi he
    · -- expression
      unfold expression
      exact Strict.bind_left sA ihA (fun _ => sC _)
    · -- climb
      intro p st a st' hi he hb hp
      unfold climb at he
      rw [getSt_bind] at he
      have hc : (st.cur.isBinop && decide (st.cur.prec ≥ p)) = true := by simp [hb, hp]
      rw [if_pos hc] at he
      refine (Strict.bind_right (m := skipToken) spec_skipToken (fun _ =>
        Strict.bind_left sA ihA (fun _ => ?_))) st a st' hi he
      spec_steps [sI _, sC _]

/-! ## The rvalue family never runs out of fuel -/

theorem Fin.of_getSt_bind {c F : Nat} {k : St → M β}
    (h : ∀ s, Inv s → 6 * s.rest.length + c < F → k s s ≠ .oof) : Fin c F (getSt >>= k) := by
  intro st hi hb
  rw [ParseTok.getSt_bind]
  exact h st hi hb

/-- a step that consumes a token (at this state), then a continuation with the budget gained -/
theorem fin_strict_step {c F : Nat} {m : M α} {k : α → M β} {s : St} (hm : Spec true m)
    (hst : ∀ a s1, m s = .ok a s1 → s1.rest.length < s.rest.length)
    (hk : ∀ a, Fin (c + 6) F (k a)) (hi : Inv s) (hb : 6 * s.rest.length + c < F) :
    (m >>= k) s ≠ .oof := by
  intro he
  rcases bind_oof_inv he with e | ⟨a, s1, e1, e2⟩
  · exact Fin.of_spec (c := c) (F := F) hm s hi hb e
  · have := hst a s1 e1
    exact hk a s1 (ok_of_spec hm hi e1).1 (by omega) e2

syntax "fin_steps" ("[" term,* "]")? : tactic
macro_rules
  | `(tactic| fin_steps) => `(tactic| fin_steps [])
  | `(tactic| fin_steps [$ts,*]) => `(tactic| repeat' (first
    | assumption
    $[| with_reducible exact $ts]*
    | (refine Fin.of_spec ?_; spec_steps [$ts,*]; done)
    | (show Spec false _; spec_steps [$ts,*]; done)
    | with_reducible refine Fin.bind ?_ ?_ (fun _ => ?_)
    | with_reducible apply Fin.ite
    | split
    | (show Fin _ _ _; dsimp only)))

macro "fin_leaf" : tactic => `(tactic| (refine Fin.of_spec ?_; spec_steps; done))

theorem precOfContent_eq_one {c : String} (h : precOfContent c = 1) : c = "not" := by
  unfold precOfContent at h
  split at h <;> first | rfl | (exfalso; revert h; decide)

theorem binop_prec_ne_one {op : Tok} (hb : op.isBinop = true) (hk : tokOk op = true) :
    op.prec ≠ 1 := by
  intro h
  have hc := precOfContent_eq_one h
  unfold Tok.isBinop at hb
  unfold tokOk at hk
  rw [hc] at hb hk
  cases hty : op.ty <;> rw [hty] at hb hk <;> simp at hb hk

/-- the test of the inner loop of `_expression` holds only at a binary operator -/
theorem inner_cond_binop {t op : Tok} (ht : tokOk t = true) (hb : op.isBinop = true)
    (hk : tokOk op = true)
    (hc : (t.isBinop && decide (t.prec > op.prec) || t.isRight && t.prec == op.prec) = true) :
    t.isBinop = true := by
  simp only [Bool.or_eq_true, Bool.and_eq_true] at hc
  rcases hc with ⟨h, _⟩ | ⟨hr, hp⟩
  · exact h
  · unfold Tok.isRight at hr
    simp only [Bool.or_eq_true] at hr
    rcases hr with hn | hm
    · exfalso
      have hty : t.ty = .not_ := by simpa using hn
      unfold tokOk at ht
      rw [hty] at ht
      have hcont : t.content = "not" := by simpa using ht
      have : t.prec = 1 := by unfold Tok.prec; rw [hcont]; rfl
      have hp' : t.prec = op.prec := by simpa using hp
      exact binop_prec_ne_one hb hk (by rw [← hp', this])
    · simp [Tok.isMark] at hm
      simp [Tok.isBinop, hm.1, hm.2]

theorem fin_rvFamily : ∀ f,
    (∀ d cg, Fin 0 f (rvalue f d cg)) ∧ (∀ b, Fin 2 f (callNamed f b)) ∧
    (∀ ps, Fin 1 f (callParams f ps)) ∧ Fin 2 f (expression f) ∧ (∀ p, Fin 0 f (climb f p)) ∧
    (∀ op, op.isBinop = true → tokOk op = true → Fin 1 f (inner f op)) ∧ Fin 1 f (atom f) := by
  intro f
  induction f with
  | zero =>
    refine ⟨?_, ?_, ?_, ?_, ?_, ?_, ?_⟩ <;> intros <;> intro st _ hb <;> omega
  | succ f ih =>
    obtain ⟨ihR, ihN, ihP, ihE, ihC, ihI, ihA⟩ := ih
    obtain ⟨sR, sN, sP, sE, sC, sI, sA⟩ := spec_rvFamily f
    obtain ⟨tR, tA, tE, tC⟩ := strict_rvFamily f
    refine ⟨?_, ?_, ?_, ?_, ?_, ?_, ?_⟩
    · -- rvalue
      intro d cg
      unfold rvalue
      refine Fin.of_getSt_bind (fun s hi hb => ?_)
      by_cases h1 : s.cur.isMark "{" = true
      · rw [if_pos h1]
        refine fin_strict_step spec_nextToken
          (fun a s1 e => nextToken_strict hi e (isMark_ne_eof h1)) (fun _ => ?_) hi hb
        exact Fin.bind (Fin.call ihE (by omega)) sE (fun _ => by fin_leaf)
      · rw [if_neg h1]
        by_cases h2 : s.cur.isMark "[" = true
        · rw [if_pos h2]
          refine fin_strict_step spec_skipToken
            (fun a s1 e => skipToken_strict hi e (isMark_ne_eof h2)) (fun _ => ?_) hi hb
          exact Fin.bind (Fin.call (ihN _) (by omega)) (sN _) (fun _ => by fin_leaf)
        · rw [if_neg h2]
          intro he
          rcases bind_oof_inv he with e | ⟨b, s1, e1, e2⟩
          · exact Fin.of_spec (c := 0) (F := f + 1) (spec_rvalueSimple d cg) s hi hb e
          · rcases rvalueSimple_cases hi e1 with ⟨hb', _⟩ | ⟨hb', hs, hn⟩
            · subst hb'; simp at e2; cases e2
            · subst hb'; subst hs
              simp only [Bool.false_eq_true, if_false] at e2
              refine fin_strict_step spec_skipToken
                (fun a s2 e => skipToken_strict hi e (by rw [hn]; decide)) (fun _ => ?_) hi hb e2
              exact Fin.bind (Fin.call ihE (by omega)) sE (fun _ => by fin_leaf)
    · -- callNamed
      intro b
      unfold callNamed
      fin_steps [Fin.call (ihP _) (by omega), sP _]
    · -- callParams
      intro ps
      cases ps with
      | nil => unfold callParams; fin_leaf
      | cons p ps =>
        unfold callParams
        have key : Fin 1 (f + 1) (do
            rvalue f (Dest.to result) CG.main
            emit (Instr.param p (Src.reg Reg.result))
            callParams f ps) :=
          Fin.bind_strict (Fin.call (ihR _ _) (by omega)) (sR _ _) (tR _ _) (fun _ =>
            Fin.bind (by fin_leaf) (spec_emit _) (fun _ => Fin.call (ihP _) (by omega)))
        fin_steps [key]
    · -- expression
      unfold expression
      exact Fin.bind_strict (Fin.call ihA (by omega)) sA tA (fun _ => Fin.call (ihC _) (by omega))
    · -- climb
      intro p
      unfold climb
      refine Fin.of_getSt_bind (fun s hi hb => ?_)
      by_cases hc : (s.cur.isBinop && decide (s.cur.prec ≥ p)) = true
      · rw [if_pos hc]
        have hbin : s.cur.isBinop = true := by
          simp only [Bool.and_eq_true] at hc; exact hc.1
        have hok : tokOk s.cur = true := hi.toks s.cur (by simp [St.toks])
        refine fin_strict_step spec_skipToken
          (fun a s1 e => skipToken_strict hi e (isBinop_ne_eof hbin)) (fun _ => ?_) hi hb
        refine Fin.bind_strict (Fin.call ihA (by omega)) sA tA (fun _ => ?_)
        refine Fin.bind (Fin.call (ihI _ hbin hok) (by omega)) (sI _) (fun _ => ?_)
        fin_steps [Fin.call (ihC _) (by omega)]
      · rw [if_neg hc]
        intro he; cases he
    · -- inner
      intro op hop hok
      unfold inner
      refine Fin.of_getSt_bind (fun s hi hb => ?_)
      by_cases hc : (s.cur.isBinop && decide (s.cur.prec > op.prec) ||
          s.cur.isRight && s.cur.prec == op.prec) = true
      · rw [if_pos hc]
        have hbin := inner_cond_binop (hi.toks s.cur (by simp [St.toks])) hop hok hc
        intro he
        rcases bind_oof_inv he with e | ⟨a, s1, e1, e2⟩
        · exact (Fin.call (ihC _) (c := 1) (by omega)) s hi hb e
        · have l := tC _ s a s1 hi e1 hbin (Int.le_refl _)
          exact (ihI op hop hok) s1 (ok_of_spec (sC _) hi e1).1 (by omega) e2
      · rw [if_neg hc]
        intro he; cases he
    · -- atom
      unfold atom
      refine Fin.of_getSt_bind (fun s hi hb => ?_)
      by_cases h1 : s.cur.isMark "(" = true
      · rw [if_pos h1]
        refine fin_strict_step spec_skipToken
          (fun a s1 e => skipToken_strict hi e (isMark_ne_eof h1)) (fun _ => ?_) hi hb
        exact Fin.bind (Fin.call ihE (by omega)) sE (fun _ => by fin_leaf)
      · rw [if_neg h1]
        by_cases h2 : (s.cur.isMark "+" || s.cur.isMark "-") = true
        · rw [if_pos h2]
          have hne : s.cur.ty ≠ .eof := by
            simp only [Bool.or_eq_true] at h2
            rcases h2 with h | h <;> exact isMark_ne_eof h
          refine fin_strict_step spec_skipToken
            (fun a s1 e => skipToken_strict hi e hne) (fun _ => ?_) hi hb
          exact Fin.bind (Fin.call ihA (by omega)) sA (fun _ => by fin_leaf)
        · rw [if_neg h2]
          exact (Fin.call (ihR _ _) (by omega)) s hi hb

/-! ## The entry points, for either reading of "out of fuel" -/

theorem Res.Good.strengthen {st : St} {r : Res α} (h : r.Good false st) (hne : r ≠ .oof) :
    r.Good t st := by
  cases r with
  | ok a s => exact h
  | fail s => exact h
  | raised k s => exact h
  | oof => exact absurd rfl hne

theorem Spec.weaken {m : M α} (h : Spec true m) : Spec t m := by
  refine ⟨fun st hi => ?_⟩
  have := h.run st hi
  cases hr : m st with
  | ok a s => rw [hr] at this; exact this
  | fail s => rw [hr] at this; exact this
  | raised k s => rw [hr] at this; exact this
  | oof => rw [hr] at this; cases this

/-! ### the scratch generator swapped in (`withScratch`) -/

theorem inv_swapCode {st : St} (h : Inv st) : Inv st.swapCode := inv_of_eq h rfl rfl rfl

theorem swapCode_rest (st : St) : st.swapCode.rest = st.rest := rfl

theorem good_withScratch {m : M Unit} {st : St} (h : (m st.swapCode).Good t st.swapCode) :
    (withScratch m st).Good t st := by
  unfold withScratch
  cases hr : m st.swapCode with
  | ok a s =>
    rw [hr] at h
    exact ⟨inv_swapCode h.inv, h.suffix, h.errors, h.shape⟩
  | fail s =>
    rw [hr] at h
    exact ⟨h.suffix, h.errors⟩
  | raised k s => rw [hr] at h; exact h
  | oof => rw [hr] at h; exact h

theorem withScratch_ok {m : M Unit} {st st' : St} {a : Unit} (h : withScratch m st = .ok a st') :
    ∃ s, m st.swapCode = .ok a s ∧ st' = s.swapCode := by
  unfold withScratch at h
  cases hr : m st.swapCode with
  | ok b s => rw [hr] at h; cases h; exact ⟨s, rfl, rfl⟩
  | fail s => rw [hr] at h; cases h
  | raised k s => rw [hr] at h; cases h
  | oof => rw [hr] at h; cases h

theorem spec_rvalueTop (d : Dest) (cg : CG) : Spec t (rvalueTop d cg) := by
  refine ⟨fun st h => ?_⟩
  unfold rvalueTop
  cases cg with
  | main =>
    exact (((spec_rvFamily (rvFuel st)).1 d .main).run st h).strengthen
      ((fin_rvFamily (rvFuel st)).1 d .main st h (by unfold rvFuel; omega))
  | inner =>
    have hi := inv_swapCode h
    exact good_withScratch ((((spec_rvFamily (rvFuel st)).1 d .main).run _ hi).strengthen
      ((fin_rvFamily (rvFuel st)).1 d .main _ hi (by unfold rvFuel; rw [swapCode_rest]; omega)))

theorem strict_rvalueTop (d : Dest) (cg : CG) : Strict (rvalueTop d cg) := by
  intro st a st' h he
  unfold rvalueTop at he
  cases cg with
  | main => exact (strict_rvFamily (rvFuel st)).1 d .main st a st' h he
  | inner =>
    obtain ⟨s, hs, rfl⟩ := withScratch_ok he
    exact (strict_rvFamily (rvFuel st)).1 d .main st.swapCode a s (inv_swapCode h) hs

theorem spec_callRoutine : Spec t callRoutine := by
  refine ⟨fun st h => ?_⟩
  unfold callRoutine
  have ha := advance_spec h
  split
  · refine Res.Good.after ha.2.1 (Res.Good.strengthen
      (((spec_rvFamily (rvFuel st)).2.1 true).run _ ha.2.1.inv) ?_)
    have := suffix_length ha.2.1.suffix
    exact (fin_rvFamily (rvFuel st)).2.1 true _ ha.2.1.inv (by unfold rvFuel; omega)
  · exact (((spec_rvFamily (rvFuel st)).2.1 false).run st h).strengthen
      ((fin_rvFamily (rvFuel st)).2.1 false st h (by unfold rvFuel; omega))

end Bardolph.ParseTok
