import Bardolph.Model.Gen
import Bardolph.Model.Wf
/-!
Closed code: the compositional invariant of generated code behind `C06` (`gen_closed`).

Generated code (`Gen.Code`, instructions and not-yet-patched `break` markers) is scanned with
the checker's own `Wf.transfer`, extended by the loader's view of `ROUTINE f … END f` sections
(which are skipped: their items do not change the abstract state of the surrounding code).

`ClosedAt inR il known c s`: scanning `c` from the scanner state `s` succeeds, ends in `s`
again, every jump of the (main-class part of the) code lands inside `[0, c.length]` on a point
with the same state, and every remaining `break` marker sits at a point whose state is `s`
(and is allowed only if `il`, "inside a loop").
-/
set_option linter.unusedSimpArgs false
set_option linter.unusedVariables false

namespace Bardolph
namespace Closed
open Gen Wf

/-! ## the scanner -/

/-- the instruction an item stands for; a `break` marker becomes a `JUMP ALWAYS` -/
def gi : G → Instr
  | .i x => x
  | .brk => .jump .always 0

def isRoutine : Instr → Option String
  | .routine n => some n
  | _ => none

def isEnd : Instr → Option String
  | .end_ n => some n
  | _ => none

/-- scanner state: the routine section we are in (if any) and the abstract state of the code
outside routine sections -/
abbrev St := Option String × Abs

/-- one item.  `JSR` is treated as if it were followed by `END_CTX`; that it really is, is
checked separately (`jsrOk`). -/
def trU (inR : Bool) (known : List String) (s : St) (x : Instr) : Option St :=
  match s.1 with
  | none =>
    match isRoutine x with
    | some n => if inR then none else some (some n, s.2)
    | none => (transfer inR known (some .endCtx) s.2 x).map fun a => (none, a)
  | some n =>
    match isEnd x with
    | some m => some (if m == n then none else some n, s.2)
    | none => some s

def jsrOk : Instr → Option Instr → Bool
  | .jsr _, some .endCtx => true
  | .jsr _, _ => false
  | _, _ => true

/-- every item can be scanned -/
def scanOk (inR : Bool) (known : List String) : Code → St → Bool
  | [], _ => true
  | g :: rest, s =>
    jsrOk (gi g) (rest.head?.map gi) &&
      match trU inR known s (gi g) with
      | none => false
      | some s' => scanOk inR known rest s'

/-- the state before item `k` (after the last item when `k ≥ length`) -/
def run (inR : Bool) (known : List String) : Code → St → Nat → St
  | [], s, _ => s
  | _ :: _, s, 0 => s
  | g :: rest, s, k + 1 => run inR known rest ((trU inR known s (gi g)).getD s) k

def JumpOk (inR : Bool) (known : List String) (c : Code) (s : St) (k : Nat) : Prop :=
  ∀ cnd off, c[k]? = some (.i (.jump cnd off)) → (run inR known c s k).1 = none →
    0 ≤ (k : Int) + off ∧ (k : Int) + off ≤ c.length ∧
      run inR known c s ((k : Int) + off).toNat = run inR known c s k

/-- `sb` is the state required at `break` markers (for closed statements: `s` itself) -/
structure ClosedB (inR il : Bool) (known : List String) (c : Code) (s sb : St) : Prop where
  ok : scanOk inR known c s = true
  fin : run inR known c s c.length = s
  jumps : ∀ k, JumpOk inR known c s k
  brks : ∀ k, c[k]? = some .brk → il = true ∧ run inR known c s k = sb

abbrev ClosedAt (inR il : Bool) (known : List String) (c : Code) (s : St) : Prop :=
  ClosedB inR il known c s s

variable {inR il : Bool} {known : List String}

/-! ## `run` -/

@[simp] theorem run_zero (c : Code) (s : St) : run inR known c s 0 = s := by
  cases c <;> rfl

@[simp] theorem run_nil (s : St) (k : Nat) : run inR known [] s k = s := rfl

theorem run_cons_succ (g : G) (c : Code) (s : St) (k : Nat) :
    run inR known (g :: c) s (k + 1) = run inR known c ((trU inR known s (gi g)).getD s) k := rfl

theorem run_append_left {c1 : Code} (c2 : Code) {s : St} {k : Nat} (h : k ≤ c1.length) :
    run inR known (c1 ++ c2) s k = run inR known c1 s k := by
  induction c1 generalizing s k with
  | nil =>
    have : k = 0 := by simpa using h
    subst this; simp
  | cons g c1 ih =>
    cases k with
    | zero => simp
    | succ k =>
      simp only [List.cons_append, run_cons_succ]
      exact ih (by simpa using h)

theorem run_append_right (c1 c2 : Code) (s : St) (k : Nat) :
    run inR known (c1 ++ c2) s (c1.length + k) =
      run inR known c2 (run inR known c1 s c1.length) k := by
  induction c1 generalizing s with
  | nil => simp
  | cons g c1 ih =>
    have e : (g :: c1).length + k = (c1.length + k) + 1 := by simp; omega
    rw [e]
    simp only [List.cons_append, run_cons_succ, List.length_cons]
    exact ih _

theorem run_ge {c : Code} {s : St} {k : Nat} (h : c.length ≤ k) :
    run inR known c s k = run inR known c s c.length := by
  induction c generalizing s k with
  | nil => simp
  | cons g c ih =>
    cases k with
    | zero => simp at h
    | succ k =>
      simp only [run_cons_succ, List.length_cons]
      exact ih (by simpa using h)

/-! ## `ok` -/

theorem ok_nil (s : St) : scanOk inR known [] s = true := rfl

theorem jsrOk_of_none {x : Instr} (h : jsrOk x none = true) (n : Option Instr) :
    jsrOk x n = true := by
  cases x <;> simp_all [jsrOk]

theorem ok_append {c1 c2 : Code} {s : St} (h1 : scanOk inR known c1 s = true)
    (h2 : scanOk inR known c2 (run inR known c1 s c1.length) = true) :
    scanOk inR known (c1 ++ c2) s = true := by
  induction c1 generalizing s with
  | nil => simpa using h2
  | cons g c1 ih =>
    simp only [List.cons_append, scanOk, Bool.and_eq_true] at h1 ⊢
    obtain ⟨hj, h1⟩ := h1
    cases ht : trU inR known s (gi g) with
    | none => simp [ht] at h1
    | some s' =>
      simp only [ht] at h1 ⊢
      refine ⟨?_, ih h1 ?_⟩
      · cases c1 with
        | nil => exact jsrOk_of_none (by simpa using hj) _
        | cons g' c1 => simpa using hj
      · simpa [run_cons_succ, ht] using h2

theorem ok_append_inv_left {c1 c2 : Code} {s : St} (h : scanOk inR known (c1 ++ c2) s = true)
    (hl : ∀ f, c1.getLast? ≠ some (.i (.jsr f))) : scanOk inR known c1 s = true := by
  induction c1 generalizing s with
  | nil => rfl
  | cons g c1 ih =>
    simp only [List.cons_append, scanOk, Bool.and_eq_true] at h ⊢
    obtain ⟨hj, h⟩ := h
    cases ht : trU inR known s (gi g) with
    | none => simp [ht] at h
    | some s' =>
      simp only [ht] at h ⊢
      cases c1 with
      | nil =>
        refine ⟨?_, rfl⟩
        cases g with
        | brk => rfl
        | i x =>
          cases x <;> first | rfl | (exfalso; exact hl _ rfl)
      | cons g' c1 =>
        refine ⟨by simpa using hj, ih h ?_⟩
        intro f hf
        exact hl f (by simpa using hf)


/-! ## one item -/

theorem trU_jump {a : Abs} {cnd : JumpCond} (h : cnd ≠ .indirect) (off : Int) :
    trU inR known (none, a) (.jump cnd off) = some (none, a) := by
  cases cnd <;> simp_all [trU, isRoutine, transfer]

/-- jump offsets do not matter to the scanner -/
def key : Instr → Instr
  | .jump c _ => .jump c 0
  | x => x

theorem trU_key (s : St) (x : Instr) : trU inR known s (key x) = trU inR known s x := by
  cases x <;> try rfl
  rename_i c off
  obtain ⟨cl, a⟩ := s
  cases cl <;> cases c <;> simp [trU, key, isRoutine, isEnd, transfer]

theorem jsrOk_key (x : Instr) (n : Option Instr) :
    jsrOk (key x) (n.map key) = jsrOk x n := by
  cases x <;> try (cases n <;> rfl)
  rename_i f
  cases n with
  | none => rfl
  | some y => cases y <;> rfl

theorem ok_congr {c c' : Code} (h : c.map (key ∘ gi) = c'.map (key ∘ gi)) (s : St) :
    scanOk inR known c s = scanOk inR known c' s := by
  induction c generalizing c' s with
  | nil =>
    cases c' with
    | nil => rfl
    | cons _ _ => simp at h
  | cons g c ih =>
    cases c' with
    | nil => simp at h
    | cons g' c' =>
      simp only [List.map_cons, List.cons.injEq, Function.comp] at h
      obtain ⟨hg, hc⟩ := h
      have hh : (c.head?.map gi).map key = (c'.head?.map gi).map key := by
        cases c <;> cases c' <;> simp_all
      simp only [scanOk]
      rw [← jsrOk_key (gi g), ← jsrOk_key (gi g'), hg, hh, ← trU_key s (gi g),
        ← trU_key s (gi g'), hg]
      cases trU inR known s (key (gi g')) with
      | none => rfl
      | some s' => simp only [ih hc]

theorem run_congr {c c' : Code} (h : c.map (key ∘ gi) = c'.map (key ∘ gi)) (s : St) (k : Nat) :
    run inR known c s k = run inR known c' s k := by
  induction c generalizing c' s k with
  | nil =>
    cases c' with
    | nil => rfl
    | cons _ _ => simp at h
  | cons g c ih =>
    cases c' with
    | nil => simp at h
    | cons g' c' =>
      simp only [List.map_cons, List.cons.injEq, Function.comp] at h
      obtain ⟨hg, hc⟩ := h
      cases k with
      | zero => simp
      | succ k =>
        simp only [run_cons_succ]
        rw [← trU_key s (gi g), ← trU_key s (gi g'), hg]
        exact ih hc _ _

/-! ## `break` patching -/

def patchG (t : Int) (k : Nat) : G → G
  | .brk => .i (.jump .always (t - (k : Int)))
  | x => x

theorem getElem?_patchBreaks (c : Code) (b t k : Nat) :
    (patchBreaks c b t)[k]? = c[k]?.map (patchG t (b + k)) := by
  simp only [patchBreaks, List.getElem?_map, List.getElem?_zipIdx, Option.map_map]
  cases c[k]? with
  | none => rfl
  | some g => cases g <;> simp [patchG]

@[simp] theorem length_patchBreaks (c : Code) (b t : Nat) :
    (patchBreaks c b t).length = c.length := by
  simp [patchBreaks]

theorem key_gi_patchG (t : Int) (k : Nat) (g : G) : key (gi (patchG t k g)) = key (gi g) := by
  cases g <;> rfl

theorem map_key_patchBreaks (c : Code) (b t : Nat) :
    (patchBreaks c b t).map (key ∘ gi) = c.map (key ∘ gi) := by
  apply List.ext_getElem?
  intro k
  simp only [List.getElem?_map, getElem?_patchBreaks, Option.map_map]
  cases c[k]? with
  | none => rfl
  | some g => simp [key_gi_patchG]

theorem patchBreaks_append_ins (c : Code) (xs : List Instr) (b t : Nat) :
    patchBreaks (c ++ ins xs) b t = patchBreaks c b t ++ ins xs := by
  apply List.ext_getElem?
  intro k
  rw [getElem?_patchBreaks]
  by_cases hk : k < c.length
  · rw [List.getElem?_append_left hk, List.getElem?_append_left (by simpa using hk),
      getElem?_patchBreaks]
  · have hk' : c.length ≤ k := Nat.le_of_not_lt hk
    rw [List.getElem?_append_right hk', List.getElem?_append_right (by simpa using hk')]
    simp only [length_patchBreaks, ins, List.getElem?_map]
    cases xs[k - c.length]? with
    | none => rfl
    | some x => rfl


/-! ## plain instructions: no effect on the abstract state -/

def plainI : Instr → Bool
  | .loop | .endLoop | .ctx | .param _ _ | .jsr _ | .ret | .end_ _ | .routine _ | .bad _ | .stop
  | .matrix | .endMatrix | .jump .indirect _ => false
  | _ => true

theorem trU_plain {x : Instr} (h : plainI x = true) (a : Abs) :
    trU inR known (none, a) x = some (none, a) := by
  cases x <;> first | (simp [plainI] at h; done) | simp [trU, isRoutine, transfer]
  rename_i c off
  cases c <;> first | (simp [plainI] at h; done) | simp [transfer]

theorem jsrOk_plain {x : Instr} (h : plainI x = true) (n : Option Instr) : jsrOk x n = true := by
  cases x <;> first | (simp [plainI] at h; done) | rfl

@[simp] theorem ins_nil : ins [] = [] := rfl
@[simp] theorem ins_cons (x : Instr) (xs : List Instr) : ins (x :: xs) = G.i x :: ins xs := rfl
@[simp] theorem ins_append (xs ys : List Instr) : ins (xs ++ ys) = ins xs ++ ins ys := by
  simp [ins]
@[simp] theorem length_ins (xs : List Instr) : (ins xs).length = xs.length := by simp [ins]
theorem getElem?_ins (xs : List Instr) (k : Nat) : (ins xs)[k]? = xs[k]?.map G.i := by
  simp [ins]
@[simp] theorem gi_i (x : Instr) : gi (.i x) = x := rfl

theorem ok_plain {xs : List Instr} (h : xs.all plainI = true) (a : Abs) :
    scanOk inR known (ins xs) (none, a) = true := by
  induction xs with
  | nil => rfl
  | cons x xs ih =>
    simp only [List.all_cons, Bool.and_eq_true] at h
    simp only [ins_cons, scanOk, gi_i, trU_plain h.1, jsrOk_plain h.1, ih h.2, Bool.and_self]

theorem run_plain {xs : List Instr} (h : xs.all plainI = true) (a : Abs) (k : Nat) :
    run inR known (ins xs) (none, a) k = (none, a) := by
  induction xs generalizing k with
  | nil => rfl
  | cons x xs ih =>
    simp only [List.all_cons, Bool.and_eq_true] at h
    cases k with
    | zero => simp
    | succ k => simp only [ins_cons, run_cons_succ, gi_i, trU_plain h.1, Option.getD_some, ih h.2]

/-- fixed instruction sequences without frame instructions whose jumps stay inside -/
def flatB (xs : List Instr) : Bool :=
  xs.all plainI &&
  xs.zipIdx.all fun p =>
    match p.1 with
    | .jump _ off => decide (0 ≤ (p.2 : Int) + off) && decide ((p.2 : Int) + off ≤ xs.length)
    | _ => true

theorem closed_flat {xs : List Instr} (h : flatB xs = true) (a : Abs) (sb : St) :
    ClosedB inR il known (ins xs) (none, a) sb := by
  simp only [flatB, Bool.and_eq_true] at h
  obtain ⟨hp, hj⟩ := h
  refine ⟨ok_plain hp a, run_plain hp a _, ?_, ?_⟩
  · intro k cnd off hk _
    rw [getElem?_ins] at hk
    cases hx : xs[k]? with
    | none => simp [hx] at hk
    | some x =>
      simp only [hx, Option.map_some, Option.some.injEq, G.i.injEq] at hk
      subst hk
      have hm : (Instr.jump cnd off, k) ∈ xs.zipIdx := by
        rw [List.mem_iff_getElem?]
        exact ⟨k, by simp [List.getElem?_zipIdx, hx]⟩
      have := List.all_eq_true.mp hj _ hm
      simp only [Bool.and_eq_true, decide_eq_true_eq] at this
      refine ⟨this.1, by simpa using this.2, ?_⟩
      rw [run_plain hp, run_plain hp]
  · intro k hk
    rw [getElem?_ins] at hk
    cases hx : xs[k]? <;> simp [hx] at hk

/-! ## straight-line code (no jumps), possibly changing the state -/

def isJump : Instr → Bool
  | .jump _ _ => true
  | _ => false

structure Goes (inR : Bool) (known : List String) (xs : List Instr) (s s' : St) : Prop where
  ok : scanOk inR known (ins xs) s = true
  fin : run inR known (ins xs) s xs.length = s'
  nojump : ∀ x ∈ xs, isJump x = false

theorem Goes.nil (s : St) : Goes inR known [] s s := ⟨rfl, rfl, by simp⟩

theorem Goes.append {xs ys : List Instr} {s s1 s2 : St} (h1 : Goes inR known xs s s1)
    (h2 : Goes inR known ys s1 s2) : Goes inR known (xs ++ ys) s s2 := by
  refine ⟨?_, ?_, ?_⟩
  · rw [ins_append]
    apply ok_append h1.ok
    rw [length_ins, h1.fin]
    exact h2.ok
  · rw [ins_append, List.length_append, ← length_ins xs, run_append_right, length_ins, h1.fin]
    exact h2.fin
  · intro x hx
    rcases List.mem_append.mp hx with h | h
    · exact h1.nojump x h
    · exact h2.nojump x h

theorem Goes.single {x : Instr} {s s' : St} (h : trU inR known s x = some s')
    (hj : isJump x = false) (hs : jsrOk x none = true) : Goes inR known [x] s s' := by
  refine ⟨?_, ?_, ?_⟩
  · simp [scanOk, h, hs]
  · simp [run_cons_succ, h]
  · simpa using hj

theorem Goes.plain {xs : List Instr} (h : xs.all (fun x => plainI x && !isJump x) = true)
    (a : Abs) : Goes inR known xs (none, a) (none, a) := by
  have hp : xs.all plainI = true := by
    rw [List.all_eq_true] at h ⊢
    intro x hx
    have := h x hx
    simp only [Bool.and_eq_true] at this
    exact this.1
  refine ⟨ok_plain hp a, run_plain hp a _, ?_⟩
  intro x hx
  have := List.all_eq_true.mp h x hx
  simp only [Bool.and_eq_true, Bool.not_eq_true'] at this
  exact this.2

theorem Goes.closed {xs : List Instr} {s : St} (h : Goes inR known xs s s) (sb : St) :
    ClosedB inR il known (ins xs) s sb := by
  refine ⟨h.ok, by simpa using h.fin, ?_, ?_⟩
  · intro k cnd off hk _
    rw [getElem?_ins] at hk
    cases hx : xs[k]? with
    | none => simp [hx] at hk
    | some x =>
      simp only [hx, Option.map_some, Option.some.injEq, G.i.injEq] at hk
      subst hk
      have := h.nojump _ (List.mem_of_getElem? hx)
      simp [isJump] at this
  · intro k hk
    rw [getElem?_ins] at hk
    cases hx : xs[k]? <;> simp [hx] at hk


/-! ## composing closed pieces -/

/-- what `ClosedB` says about one index -/
def PointOk (inR il : Bool) (known : List String) (c : Code) (s sb : St) (k : Nat) : Prop :=
  JumpOk inR known c s k ∧ (c[k]? = some .brk → il = true ∧ run inR known c s k = sb)

theorem ClosedB.point {c : Code} {s sb : St} (h : ClosedB inR il known c s sb) (k : Nat) :
    PointOk inR il known c s sb k := ⟨h.jumps k, h.brks k⟩

theorem ClosedB.of_points {c : Code} {s sb : St} (h1 : scanOk inR known c s = true)
    (h2 : run inR known c s c.length = s) (h3 : ∀ k, k < c.length → PointOk inR il known c s sb k) :
    ClosedB inR il known c s sb := by
  refine ⟨h1, h2, ?_, ?_⟩
  · intro k
    by_cases hk : k < c.length
    · exact (h3 k hk).1
    · intro cnd off hc
      rw [List.getElem?_eq_none (Nat.le_of_not_lt hk)] at hc
      cases hc
  · intro k
    by_cases hk : k < c.length
    · exact (h3 k hk).2
    · intro hc
      rw [List.getElem?_eq_none (Nat.le_of_not_lt hk)] at hc
      cases hc

theorem run_skip {L : Code} (X : Code) {s s1 : St} (hL : run inR known L s L.length = s1)
    (j : Nat) : run inR known (L ++ X) s (L.length + j) = run inR known X s1 j := by
  rw [run_append_right, hL]

theorem pointOk_skip {L X : Code} {s s1 sb : St} (hL : run inR known L s L.length = s1) {j : Nat}
    (h : PointOk inR il known X s1 sb j) : PointOk inR il known (L ++ X) s sb (L.length + j) := by
  have e : (L ++ X)[L.length + j]? = X[j]? := by
    rw [List.getElem?_append_right (Nat.le_add_right _ _), Nat.add_sub_cancel_left]
  refine ⟨?_, ?_⟩
  · intro cnd off hc hs
    rw [e] at hc
    rw [run_skip X hL] at hs ⊢
    obtain ⟨h1, h2, h3⟩ := h.1 cnd off hc hs
    refine ⟨by omega, by simp only [List.length_append]; omega, ?_⟩
    have e2 : (((L.length + j : Nat) : Int) + off).toNat = L.length + ((j : Int) + off).toNat := by
      omega
    rw [e2, run_skip X hL, h3]
  · intro hc
    rw [e] at hc
    rw [run_skip X hL]
    exact h.2 hc

theorem pointOk_left {X : Code} (R : Code) {s sb : St} {j : Nat} (hj : j < X.length)
    (h : PointOk inR il known X s sb j) : PointOk inR il known (X ++ R) s sb j := by
  have e : (X ++ R)[j]? = X[j]? := List.getElem?_append_left hj
  refine ⟨?_, ?_⟩
  · intro cnd off hc hs
    rw [e] at hc
    rw [run_append_left R (Nat.le_of_lt hj)] at hs ⊢
    obtain ⟨h1, h2, h3⟩ := h.1 cnd off hc hs
    refine ⟨h1, by simp only [List.length_append]; omega, ?_⟩
    rw [run_append_left R (by omega), h3]
  · intro hc
    rw [e] at hc
    rw [run_append_left R (Nat.le_of_lt hj)]
    exact h.2 hc

theorem fin_append (c1 c2 : Code) (s : St) :
    run inR known (c1 ++ c2) s (c1 ++ c2).length =
      run inR known c2 (run inR known c1 s c1.length) c2.length := by
  rw [List.length_append, run_append_right]

theorem ClosedB.append {c1 c2 : Code} {s sb : St} (h1 : ClosedB inR il known c1 s sb)
    (h2 : ClosedB inR il known c2 s sb) : ClosedB inR il known (c1 ++ c2) s sb := by
  apply ClosedB.of_points
  · exact ok_append h1.ok (by rw [h1.fin]; exact h2.ok)
  · rw [fin_append, h1.fin, h2.fin]
  · intro k hk
    by_cases h : k < c1.length
    · exact pointOk_left c2 h (h1.point k)
    · have e : k = c1.length + (k - c1.length) := by omega
      rw [e]
      exact pointOk_skip h1.fin (h2.point _)

theorem ClosedB.nil (s sb : St) : ClosedB inR il known [] s sb :=
  ⟨rfl, rfl, fun k cnd off h => by simp at h, fun k h => by simp at h⟩

theorem ClosedB.flatten {cs : List Code} {s sb : St}
    (h : ∀ c ∈ cs, ClosedB inR il known c s sb) : ClosedB inR il known cs.flatten s sb := by
  induction cs with
  | nil => exact ClosedB.nil s sb
  | cons c cs ih =>
    rw [List.flatten_cons]
    exact (h c (by simp)).append (ih fun c' hc' => h c' (by simp [hc']))

/-- a `break` marker is closed inside a loop -/
theorem closed_brk (a : Abs) : ClosedB inR true known [G.brk] (none, a) (none, a) := by
  refine ⟨?_, ?_, ?_, ?_⟩
  · simp [scanOk, gi, jsrOk, trU_jump]
  · simp [run_cons_succ, gi, trU_jump]
  · intro k cnd off hc
    cases k <;> simp at hc
  · intro k hc
    cases k with
    | zero => simp
    | succ k => simp at hc

/-! ## inserted jumps -/

theorem ok_jump {a : Abs} {cnd : JumpCond} (h : cnd ≠ .indirect) (off : Int) :
    scanOk inR known [G.i (.jump cnd off)] (none, a) = true := by
  simp [scanOk, jsrOk, trU_jump h]

theorem fin_jump {a : Abs} {cnd : JumpCond} (h : cnd ≠ .indirect) (off : Int) :
    run inR known [G.i (.jump cnd off)] (none, a) [G.i (Instr.jump cnd off)].length = (none, a) := by
  simp [run_cons_succ, trU_jump h]

/-- `L; JUMP; R` with closed `L`, `R`: the jump may land on any of the piece boundaries -/
theorem closed_jump1 {L R : Code} {a : Abs} {sb : St} {cnd : JumpCond} {off : Int}
    (hL : ClosedB inR il known L (none, a) sb) (hR : ClosedB inR il known R (none, a) sb)
    (hc : cnd ≠ .indirect)
    (ht : (L.length : Int) + off = 0 ∨ (L.length : Int) + off = L.length ∨
      (L.length : Int) + off = L.length + 1 ∨ (L.length : Int) + off = L.length + 1 + R.length) :
    ClosedB inR il known (L ++ ([G.i (.jump cnd off)] ++ R)) (none, a) sb := by
  have hJ := fin_jump (inR := inR) (known := known) (a := a) hc off
  have b1 : run inR known (L ++ ([G.i (.jump cnd off)] ++ R)) (none, a) L.length = (none, a) := by
    rw [run_append_left _ (Nat.le_refl _), hL.fin]
  have b2 : run inR known (L ++ ([G.i (.jump cnd off)] ++ R)) (none, a) (L.length + 1) =
      (none, a) := by
    rw [run_skip _ hL.fin, run_append_left _ (by simp)]
    exact hJ
  have b3 : run inR known (L ++ ([G.i (.jump cnd off)] ++ R)) (none, a) (L.length + (1 + R.length)) =
      (none, a) := by
    rw [run_skip _ hL.fin]
    have := run_skip (inR := inR) (known := known) R hJ R.length
    simp only [List.length_singleton] at this
    rw [this, hR.fin]
  apply ClosedB.of_points
  · refine ok_append hL.ok ?_
    rw [hL.fin]
    refine ok_append (ok_jump hc off) ?_
    rw [hJ]
    exact hR.ok
  · rw [fin_append, hL.fin, fin_append, hJ, hR.fin]
  · intro k hk
    simp only [List.length_append, List.length_singleton, List.length_cons, List.length_nil] at hk
    by_cases h1 : k < L.length
    · exact pointOk_left _ h1 (hL.point k)
    · by_cases h2 : k = L.length
      · subst h2
        refine ⟨?_, by simp⟩
        intro cnd' off' hc' _
        have : cnd' = cnd ∧ off' = off := by simpa [eq_comm] using hc'
        obtain ⟨rfl, rfl⟩ := this
        refine ⟨by omega, by simp only [List.length_append, List.length_singleton]; omega, ?_⟩
        rw [b1]
        rcases ht with h | h | h | h
        · rw [h]; simp
        · rw [h]; simpa using b1
        · have e : ((L.length : Int) + off').toNat = L.length + 1 := by omega
          rw [e, b2]
        · have e : ((L.length : Int) + off').toNat = L.length + (1 + R.length) := by omega
          rw [e, b3]
      · have e : k = L.length + (1 + (k - L.length - 1)) := by omega
        rw [e]
        apply pointOk_skip hL.fin
        have := pointOk_skip (il := il) (sb := sb) hJ (hR.point (k - L.length - 1))
        simpa using this


/-- the piece boundaries of `L; JUMP; M; JUMP; R` -/
def Bound2 (inR : Bool) (known : List String) (L : Code) (a : Abs) (m r : Nat) (t : Int) : Prop :=
  (0 ≤ t ∧ t ≤ L.length ∧ run inR known L (none, a) t.toNat = (none, a)) ∨
    t = L.length + 1 ∨ t = L.length + 1 + m ∨ t = L.length + 1 + m + 1 ∨
    t = L.length + 1 + m + 1 + r

/-- `L; JUMP; M; JUMP; R` with closed `L`, `M`, `R`: both jumps may land on any piece boundary
(if/else, and the test/back-jump pair of a loop) -/
theorem closed_jump2 {L M R : Code} {a : Abs} {sb : St} {c1 c2 : JumpCond} {o1 o2 : Int}
    (hL : ClosedB inR il known L (none, a) sb) (hM : ClosedB inR il known M (none, a) sb)
    (hR : ClosedB inR il known R (none, a) sb) (hc1 : c1 ≠ .indirect) (hc2 : c2 ≠ .indirect)
    (ht1 : Bound2 inR known L a M.length R.length ((L.length : Int) + o1))
    (ht2 : Bound2 inR known L a M.length R.length ((L.length : Int) + 1 + M.length + o2)) :
    ClosedB inR il known
      (L ++ ([G.i (.jump c1 o1)] ++ (M ++ ([G.i (.jump c2 o2)] ++ R)))) (none, a) sb := by
  have hJ1 := fin_jump (inR := inR) (known := known) (a := a) hc1 o1
  have hJ2 := fin_jump (inR := inR) (known := known) (a := a) hc2 o2
  have s1 : ∀ (X : Code) (j : Nat), run inR known ([G.i (.jump c1 o1)] ++ X) (none, a) (1 + j) =
      run inR known X (none, a) j := fun X j => by
    simpa using run_skip (inR := inR) (known := known) X hJ1 j
  have s2 : ∀ (X : Code) (j : Nat), run inR known ([G.i (.jump c2 o2)] ++ X) (none, a) (1 + j) =
      run inR known X (none, a) j := fun X j => by
    simpa using run_skip (inR := inR) (known := known) X hJ2 j
  generalize hC : L ++ ([G.i (.jump c1 o1)] ++ (M ++ ([G.i (.jump c2 o2)] ++ R))) = C
  have hlen : C.length = L.length + 1 + M.length + 1 + R.length := by
    subst hC; simp; omega
  have b0 : run inR known C (none, a) 0 = (none, a) := by simp
  have b1 : run inR known C (none, a) L.length = (none, a) := by
    subst hC; rw [run_append_left _ (Nat.le_refl _), hL.fin]
  have b2 : run inR known C (none, a) (L.length + 1) = (none, a) := by
    subst hC
    rw [run_skip _ hL.fin, run_append_left _ (by simp)]
    exact hJ1
  have b3 : run inR known C (none, a) (L.length + 1 + M.length) = (none, a) := by
    subst hC
    rw [Nat.add_assoc, run_skip _ hL.fin, s1, run_append_left _ (Nat.le_refl _), hM.fin]
  have b4 : run inR known C (none, a) (L.length + 1 + M.length + 1) = (none, a) := by
    subst hC
    rw [Nat.add_assoc, Nat.add_assoc, run_skip _ hL.fin, s1, run_skip _ hM.fin,
      run_append_left _ (by simp)]
    exact hJ2
  have b5 : run inR known C (none, a) (L.length + 1 + M.length + 1 + R.length) = (none, a) := by
    subst hC
    rw [Nat.add_assoc, Nat.add_assoc, Nat.add_assoc, run_skip _ hL.fin, s1, run_skip _ hM.fin, s2,
      hR.fin]
  have hb : ∀ t : Int, Bound2 inR known L a M.length R.length t →
      0 ≤ t ∧ t ≤ C.length ∧ run inR known C (none, a) t.toNat = (none, a) := by
    intro t ht
    rcases ht with h | h | h | h | h
    · refine ⟨h.1, by omega, ?_⟩
      subst hC
      rw [run_append_left _ (by omega), h.2.2]
    · have e : t.toNat = L.length + 1 := by omega
      rw [e]; exact ⟨by omega, by omega, b2⟩
    · have e : t.toNat = L.length + 1 + M.length := by omega
      rw [e]; exact ⟨by omega, by omega, b3⟩
    · have e : t.toNat = L.length + 1 + M.length + 1 := by omega
      rw [e]; exact ⟨by omega, by omega, b4⟩
    · have e : t.toNat = L.length + 1 + M.length + 1 + R.length := by omega
      rw [e]; exact ⟨by omega, by omega, b5⟩
  apply ClosedB.of_points
  · subst hC
    refine ok_append hL.ok ?_
    rw [hL.fin]
    refine ok_append (ok_jump hc1 o1) ?_
    rw [hJ1]
    refine ok_append hM.ok ?_
    rw [hM.fin]
    refine ok_append (ok_jump hc2 o2) ?_
    rw [hJ2]
    exact hR.ok
  · rw [hlen]; exact b5
  · intro k hk
    rw [hlen] at hk
    by_cases h1 : k < L.length
    · subst hC
      exact pointOk_left _ h1 (hL.point k)
    by_cases h2 : k = L.length
    · subst h2
      refine ⟨?_, ?_⟩
      · intro cnd' off' hc' _
        have : cnd' = c1 ∧ off' = o1 := by
          subst hC
          simpa [eq_comm] using hc'
        obtain ⟨rfl, rfl⟩ := this
        obtain ⟨q1, q2, q3⟩ := hb _ ht1
        exact ⟨q1, q2, by rw [q3, b1]⟩
      · subst hC; simp
    by_cases h3 : k < L.length + 1 + M.length
    · have e : k = L.length + (1 + (k - L.length - 1)) := by omega
      subst hC
      rw [e]
      apply pointOk_skip hL.fin
      have := pointOk_skip (il := il) (sb := sb) hJ1
        (pointOk_left (il := il) (sb := sb) ([G.i (.jump c2 o2)] ++ R)
          (show k - L.length - 1 < M.length by omega) (hM.point _))
      simpa using this
    by_cases h4 : k = L.length + 1 + M.length
    · subst h4
      refine ⟨?_, ?_⟩
      · intro cnd' off' hc' _
        have : cnd' = c2 ∧ off' = o2 := by
          subst hC
          have e : L.length + 1 + M.length = L.length + (1 + (M.length + 0)) := by omega
          rw [e, List.getElem?_append_right (Nat.le_add_right _ _), Nat.add_sub_cancel_left,
            List.getElem?_append_right (by simp), List.length_singleton, Nat.add_sub_cancel_left,
            List.getElem?_append_right (Nat.le_add_right _ _), Nat.add_sub_cancel_left] at hc'
          simpa [eq_comm] using hc'
        obtain ⟨rfl, rfl⟩ := this
        have := hb _ ht2
        obtain ⟨q1, q2, q3⟩ := this
        refine ⟨by push_cast; omega, by push_cast; omega, ?_⟩
        have e : (((L.length + 1 + M.length : Nat) : Int) + off') =
            (L.length : Int) + 1 + M.length + off' := by push_cast; omega
        rw [e, q3, b3]
      · subst hC
        intro hc'
        have e : L.length + 1 + M.length = L.length + (1 + (M.length + 0)) := by omega
        rw [e, List.getElem?_append_right (Nat.le_add_right _ _), Nat.add_sub_cancel_left,
          List.getElem?_append_right (by simp), List.length_singleton, Nat.add_sub_cancel_left,
          List.getElem?_append_right (Nat.le_add_right _ _), Nat.add_sub_cancel_left] at hc'
        simp at hc'
    · have e : k = L.length + (1 + (M.length + (1 + (k - L.length - 1 - M.length - 1)))) := by omega
      subst hC
      rw [e]
      apply pointOk_skip hL.fin
      have h5 := pointOk_skip (il := il) (sb := sb) hJ2 (hR.point (k - L.length - 1 - M.length - 1))
      have h6 := pointOk_skip (il := il) (sb := sb) hM.fin h5
      have h7 := pointOk_skip (il := il) (sb := sb) hJ1 h6
      simpa using h7


/-! ## brackets: `LOOP … END_LOOP`, `MATRIX … END matrix`, `ROUTINE f … END f` -/

theorem closed_wrap {W : Code} {s s1 sb : St} {x y : Instr}
    (hx : trU inR known s x = some s1) (hy : trU inR known s1 y = some s)
    (hxj : isJump x = false) (hyj : isJump y = false)
    (hxs : jsrOk x none = true) (hys : jsrOk y none = true)
    (hW : ClosedB inR il known W s1 sb) :
    ClosedB inR il known ([G.i x] ++ (W ++ [G.i y])) s sb := by
  have fx : run inR known [G.i x] s [G.i x].length = s1 := by simp [run_cons_succ, hx]
  have fy : run inR known [G.i y] s1 [G.i y].length = s := by simp [run_cons_succ, hy]
  have okx : scanOk inR known [G.i x] s = true := by simp [scanOk, hx, hxs]
  have oky : scanOk inR known [G.i y] s1 = true := by simp [scanOk, hy, hys]
  apply ClosedB.of_points
  · refine ok_append okx ?_
    rw [fx]
    refine ok_append hW.ok ?_
    rw [hW.fin]
    exact oky
  · rw [fin_append, fx, fin_append, hW.fin, fy]
  · intro k hk
    simp only [List.length_append, List.length_singleton] at hk
    by_cases h0 : k = 0
    · subst h0
      refine ⟨?_, by simp⟩
      intro cnd off hc
      simp only [List.singleton_append, List.getElem?_cons_zero, Option.some.injEq,
        G.i.injEq] at hc
      subst hc
      simp [isJump] at hxj
    by_cases h1 : k < 1 + W.length
    · have e : k = [G.i x].length + (k - 1) := by simp; omega
      rw [e]
      exact pointOk_skip fx (pointOk_left _ (by omega) (hW.point _))
    · have e : k = [G.i x].length + (W.length + 0) := by simp; omega
      rw [e]
      apply pointOk_skip fx
      apply pointOk_skip hW.fin
      refine ⟨?_, by simp⟩
      intro cnd off hc
      simp only [List.getElem?_cons_zero, Option.some.injEq, G.i.injEq] at hc
      subst hc
      simp [isJump] at hyj

/-- turning the `break` markers into jumps to a point whose state is the break state -/
theorem closed_patch {U : Code} {s sb sb' : St} {t : Nat} {il' : Bool}
    (hU : ClosedB inR true known U s sb) (ht : t ≤ U.length) (hst : run inR known U s t = sb) :
    ClosedB inR il' known (patchBreaks U 0 t) s sb' := by
  have hk := map_key_patchBreaks U 0 t
  have hr : ∀ k, run inR known (patchBreaks U 0 t) s k = run inR known U s k :=
    fun k => run_congr hk s k
  apply ClosedB.of_points
  · rw [ok_congr hk]; exact hU.ok
  · rw [hr, length_patchBreaks]; exact hU.fin
  · intro k _
    refine ⟨?_, ?_⟩
    · intro cnd off hc hs
      rw [getElem?_patchBreaks] at hc
      rw [hr] at hs ⊢
      rw [hr, length_patchBreaks]
      cases hg : U[k]? with
      | none => simp [hg] at hc
      | some g =>
        cases g with
        | brk =>
          simp only [hg, Option.map_some, patchG, Option.some.injEq, G.i.injEq,
            Instr.jump.injEq] at hc
          obtain ⟨-, rfl⟩ := hc
          have e : ((k : Int) + ((t : Int) - ((0 + k : Nat) : Int))).toNat = t := by omega
          rw [e, hst, (hU.brks k hg).2]
          exact ⟨by omega, by omega, rfl⟩
        | i x =>
          simp only [hg, Option.map_some, patchG, Option.some.injEq, G.i.injEq] at hc
          subst hc
          exact hU.jumps k cnd off hg hs
    · intro hc
      rw [getElem?_patchBreaks] at hc
      cases hg : U[k]? with
      | none => simp [hg] at hc
      | some g => cases g <;> simp [hg, patchG] at hc

def loopA (a : Abs) : Abs := { a with frames := .loop :: a.frames }

/-- the loop before its `break` markers are patched -/
theorem loop_unpatched {W : Code} {a : Abs}
    (hW : ClosedB inR true known W (none, loopA a) (none, loopA a)) :
    patchBreaks ([G.i .loop] ++ W) 0 (W.length + 1) ++ [G.i .endLoop] =
        patchBreaks ([G.i .loop] ++ (W ++ [G.i .endLoop])) 0 (W.length + 1) ∧
      ClosedB inR true known ([G.i .loop] ++ (W ++ [G.i .endLoop])) (none, a) (none, loopA a) := by
  constructor
  · have := patchBreaks_append_ins ([G.i .loop] ++ W) [.endLoop] 0 (W.length + 1)
    simp only [ins_cons, ins_nil] at this
    rw [← this, List.append_assoc]
  · refine closed_wrap (s1 := (none, loopA a)) ?_ ?_ rfl rfl rfl rfl hW
    · simp [trU, isRoutine, transfer, loopA]
    · simp [trU, isRoutine, transfer, loopA]

theorem closed_loop {W : Code} {a : Abs} {sb' : St} {il' : Bool}
    (hW : ClosedB inR true known W (none, loopA a) (none, loopA a)) :
    ClosedB inR il' known (patchBreaks ([G.i .loop] ++ W) 0 (W.length + 1) ++ [G.i .endLoop])
      (none, a) sb' := by
  obtain ⟨e, hU⟩ := loop_unpatched hW
  rw [e]
  refine closed_patch hU (by simp) ?_
  have fx : run inR known [G.i .loop] (none, a) [G.i Instr.loop].length = (none, loopA a) := by
    simp [run_cons_succ, trU, isRoutine, transfer, loopA]
  have := run_skip (inR := inR) (known := known) (W ++ [G.i .endLoop]) fx W.length
  simp only [List.length_singleton] at this
  rw [Nat.add_comm, this, run_append_left _ (Nat.le_refl _), hW.fin]

def matA (a : Abs) : Abs := { a with inMatrix := true }

theorem closed_matrix {W : Code} {a : Abs} {sb : St} (ha : a.inMatrix = false)
    (hW : ClosedB inR il known W (none, matA a) sb) :
    ClosedB inR il known ([G.i .matrix] ++ (W ++ [G.i .endMatrix])) (none, a) sb := by
  refine closed_wrap (s1 := (none, matA a)) ?_ ?_ rfl rfl rfl rfl hW
  · simp [trU, isRoutine, transfer, matA, ha]
  · obtain ⟨fr, im⟩ := a
    simp at ha
    subst ha
    simp [trU, isRoutine, transfer, matA]

/-- what a scannable routine body looks like from outside: items that are skipped -/
theorem section_aux (n : String) (a : Abs) (body : Code) (s0 : St) (h0 : s0.1 = none)
    (h : scanOk true known body s0 = true) :
    scanOk false known body (some n, a) = true ∧
      (∀ k, run false known body (some n, a) k = (some n, a)) ∧
      (∀ g ∈ body, isRoutine (gi g) = none ∧ isEnd (gi g) = none) ∧
      (∀ k, (run true known body s0 k).1 = none) := by
  induction body generalizing s0 with
  | nil => exact ⟨rfl, fun k => rfl, by simp, fun k => by simpa using h0⟩
  | cons g body ih =>
    obtain ⟨cl, a0⟩ := s0
    simp only at h0
    subst h0
    simp only [scanOk, Bool.and_eq_true] at h
    obtain ⟨hj, h⟩ := h
    cases ht : trU true known (none, a0) (gi g) with
    | none => simp [ht] at h
    | some s' =>
      simp only [ht] at h
      have hr : isRoutine (gi g) = none := by
        cases hq : isRoutine (gi g) with
        | none => rfl
        | some m => simp [trU, hq] at ht
      have he : isEnd (gi g) = none := by
        cases hq : isEnd (gi g) with
        | none => rfl
        | some m =>
          have : gi g = .end_ m := by
            cases hx : gi g <;> simp [hx, isEnd] at hq
            subst hq; rfl
          simp [trU, this, isRoutine, transfer] at ht
      have hs' : s'.1 = none := by
        simp only [trU, hr] at ht
        cases htt : transfer true known (some .endCtx) a0 (gi g) with
        | none => simp [htt] at ht
        | some a' =>
          simp only [htt, Option.map_some, Option.some.injEq] at ht
          rw [← ht]
      obtain ⟨i1, i2, i3, i4⟩ := ih s' hs' h
      have hstep : trU false known (some n, a) (gi g) = some (some n, a) := by
        simp [trU, he]
      refine ⟨?_, ?_, ?_, ?_⟩
      · simp only [scanOk, hj, hstep, i1, Bool.and_self]
      · intro k
        cases k with
        | zero => simp
        | succ k => simp only [run_cons_succ, hstep, Option.getD_some, i2]
      · intro g' hg'
        rcases List.mem_cons.mp hg' with rfl | hg'
        · exact ⟨hr, he⟩
        · exact i3 g' hg'
      · intro k
        cases k with
        | zero => simp
        | succ k => simp only [run_cons_succ, ht, Option.getD_some, i4]

theorem closed_routine {body : Code} {e a : Abs} {sb : St} (n : String)
    (hb : ClosedB true false known body (none, e) (none, e)) :
    ClosedB false il known ([G.i (.routine n)] ++ (body ++ [G.i (.end_ n)])) (none, a) sb := by
  obtain ⟨i1, i2, i3, i4⟩ := section_aux n a body (none, e) rfl hb.ok
  have hW : ClosedB false il known body (some n, a) sb := by
    refine ⟨i1, i2 _, ?_, ?_⟩
    · intro k cnd off _ hs
      rw [i2] at hs
      cases hs
    · intro k hk
      have := (hb.brks k hk).1
      cases this
  refine closed_wrap (s1 := (some n, a)) ?_ ?_ rfl rfl rfl rfl hW
  · simp [trU, isRoutine]
  · simp [trU, isEnd]

end Closed
end Bardolph
