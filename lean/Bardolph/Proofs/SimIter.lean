import Bardolph.Proofs.SimFrame
/-!
Loops over names for the simulation theorem C01: the discovery prologues `Gen.iterLights`,
`iterSets`, `iterMembers`, `iterItems` push exactly the names `Sem` says, the first to visit on
top, and count them in the hidden counter.

The walk: `DISC`/`DISCM` deliver the LAST name (discovery runs backwards: `disc_forward` is false),
`DNEXT`/`DNEXTM` the name before the current one (`prevName`, the last one strictly smaller), until
there is none (`Operand.NULL`).  On a strictly ascending list this visits every name once, from the
last to the first (`C04_prevName_sorted`); the members of a group come as a list that is ascending
but may repeat a name, on which the walk is the walk on the list without the repetitions.
-/
namespace Bardolph
namespace Sim
open Vm VmSteps Sem Gen

variable {V : String → Prop}
variable {img : Image} {K : Ctx} {stk : Stk} {fr : List Frame} {ev : List Val} {un : List Val} {σ : S} {s : State}
  {pc : Nat}

/-! ## single instructions -/

/-- `MOVE result <hidden variable>` -/
theorem exec_moveResultLV {vars : List (LoopVar × Val)} {ht : Nat} (l : LoopVar)
    (h : SimU K ⟨.loop vars ht :: fr, ev⟩ un σ s) (hpc : s.pc = (pc : Int))
    (hi : img.code[pc]? = some (.move (.reg .result) (.loopVar l))) :
    Exec img s (fun t => At K (pc + 1) ⟨.loop (putVar vars l (s.regs .result)) ht :: fr, ev⟩ un σ t ∧
      t.regs .result = s.regs .result) := by
  have hrun := Loops.run_move_lv img s pc (.reg .result) l vars ht (fr ++ baseOf K σ.locals) h.running hpc hi
    h.stack
  refine Exec.of_run 1 hrun ⟨⟨by simp, ?_⟩, rfl⟩
  exact h.retop (putVar vars l (s.regs .result)) s.regs (fun _ _ => rfl) _

/-- `PUSH <hidden variable>`: a name goes onto the evaluation stack -/
theorem exec_pushLV {vars : List (LoopVar × Val)} {extra : List Val} (l : LoopVar) (x : Val)
    (h : SimU K (stk.inner vars extra) un σ s) (hpc : s.pc = (pc : Int))
    (hi : img.code[pc]? = some (.push (.loopVar l))) (hx : getVar vars l = x) (hne : x = .none → False) :
    Exec img s (At K (pc + 1) (stk.inner vars (x :: extra)) un σ) := by
  apply Exec.step h.running
  apply Exec.done
  rw [step_push img s pc (.loopVar l) x h.running hpc hi (by simp)
    (by simp only [State.read]; rw [h.readLV, hx]) hne]
  exact ⟨by simp, h.pushed x _⟩

theorem pfStep_push_lit (rd : Src → Val) (es : List Val) (v : Val) :
    Loops.pfStep rd es (.push (.lit v)) = some (v :: es) := rfl

/-! ## what the discovery instructions deliver -/

/-- the position `k` of a backwards walk over `xs`: the name before it, or `NULL` at the front -/
def posVal (xs : List String) (k : Nat) : Val :=
  match k with
  | 0 => .operand .null
  | k + 1 => match xs[k]? with
    | some n => .str n
    | none => .operand .null

theorem posVal_length (xs : List String) :
    posVal xs xs.length = (match xs.getLast? with | some n => .str n | none => .operand .null) := by
  cases xs with
  | nil => rfl
  | cons a t =>
    simp only [List.length_cons, posVal]
    rw [List.getLast?_eq_getElem?]
    simp

/-- the name before the `i`-th of a strictly ascending list is the `(i−1)`-th -/
theorem prev_posVal (xs : List String) (h : xs.Pairwise (· < ·)) (i : Nat) (hi : i < xs.length) :
    (match prevName xs xs[i] with | some n => Val.str n | none => .operand .null) = posVal xs i := by
  rw [C04_prevName_sorted xs h i hi]
  cases i with
  | zero => rfl
  | succ i =>
    simp only [Nat.add_one_ne_zero, if_false, Nat.add_sub_cancel, posVal]

/-! ### removing repeated names does not change the walk -/

theorem getLast?_dedupSorted (xs : List String) : (dedupSorted xs).getLast? = xs.getLast? := by
  induction xs using dedupSorted.induct with
  | case1 => rfl
  | case2 a => rfl
  | case3 a b rest hab ih =>
    rw [dedupSorted, if_pos hab, ih]
    simp [List.getLast?_cons_cons]
  | case4 a b rest hab ih =>
    rw [dedupSorted, if_neg hab, List.getLast?_cons, ih, ← List.getLast?_cons]

theorem filter_getLast?_dedupSorted (p : String → Bool) (xs : List String) :
    ((dedupSorted xs).filter p).getLast? = (xs.filter p).getLast? := by
  induction xs using dedupSorted.induct with
  | case1 => rfl
  | case2 a => rfl
  | case3 a b rest hab ih =>
    rw [dedupSorted, if_pos hab, ih]
    have hab' : a = b := by simpa using hab
    subst hab'
    by_cases hp : p a = true
    · simp only [List.filter_cons, hp, if_true]
      rw [List.getLast?_cons_cons]
    · simp [hp]
  | case4 a b rest hab ih =>
    rw [dedupSorted, if_neg hab]
    by_cases hp : p a = true
    · rw [List.filter_cons_of_pos hp, List.filter_cons_of_pos hp, List.getLast?_cons, ih, ← List.getLast?_cons]
    · have hp' : p a = false := by simpa using hp
      rw [List.filter_cons_of_neg (by simp [hp']), List.filter_cons_of_neg (by simp [hp'])]
      exact ih

theorem prevName_dedupSorted (xs : List String) (c : String) :
    prevName (dedupSorted xs) c = prevName xs c := by
  unfold prevName
  exact filter_getLast?_dedupSorted _ xs

/-! ## the walk -/

/-- what the two discovery instruction pairs of a backwards walk over `xs` do: `st` (kind of
operand into the `operand` register, `DISC`/`DISCM`) delivers the last name in `result`, `nx`
(`DNEXT`/`DNEXTM`) the name before the current one; `I` is what they need of the hidden variables
(a group's name in `first`) -/
structure Walk (img : Image) (K : Ctx) (L : List Light) (o : Operand) (xs : List String) (st nx : List Instr)
    (I : List (LoopVar × Val) → Prop) : Prop where
  start : ∀ {stk : Stk} {vars : List (LoopVar × Val)} {extra : List Val} {σ : S} {s : State} {pc : Nat},
    Sim K (stk.inner vars extra) σ s → s.pc = (pc : Int) → CodeAt img pc st → I vars → σ.vm.lights = L →
    Exec img s (fun t => At K (pc + 2) (stk.inner vars extra) [] (σ.setReg .operand (.operand o)) t ∧
      t.regs .result = posVal xs xs.length)
  next : ∀ {stk : Stk} {vars : List (LoopVar × Val)} {extra : List Val} {σ : S} {s : State} {pc : Nat}
    (i : Nat) (hi : i < xs.length),
    Sim K (stk.inner vars extra) σ s → s.pc = (pc : Int) → CodeAt img pc nx → I vars → σ.vm.lights = L →
    getVar vars .current = .str xs[i] → σ.vm.regs .operand = .operand o →
    Exec img s (fun t => At K (pc + 2) (stk.inner vars extra) [] σ t ∧ t.regs .result = posVal xs i)

theorem setReg_idem (σ : S) (r : Reg) (v : Val) (h : σ.vm.regs r = v) : σ.setReg r v = σ := by
  obtain ⟨vm, l, rt, res⟩ := σ
  simp only [S.setReg, State.setReg] at h ⊢
  congr 1
  obtain ⟨pc, regs, dc, m, st, g, c, e, u, li, tr, stt, dr⟩ := vm
  simp only [State.mk.injEq, true_and, and_true]
  funext r'
  by_cases hr : r' = r
  · subst hr; simp only [if_true]; exact h.symm
  · simp [hr]

/-- an unconditional jump keeps `result` -/
theorem exec_jump_keep (off : Int) (tgt : Nat)
    (h : SimU K stk un σ s) (hpc : s.pc = (pc : Int)) (hi : img.code[pc]? = some (.jump .always off))
    (ht : (pc : Int) + off = (tgt : Int)) :
    Exec img s (fun t => At K tgt stk un σ t ∧ t.regs .result = s.regs .result) := by
  apply Exec.step h.running
  apply Exec.done
  rw [Loops.step_jump_always img s pc off h.running hpc hi, ht]
  exact ⟨⟨rfl, h.setPc _⟩, rfl⟩

/-- the walk from position `k`: at the `MOVE result current` of the skeleton with `posVal xs k` in
`result` -/
theorem walk_from {L : List Light} {o : Operand} {xs : List String} {st nx : List Instr}
    {I : List (LoopVar × Val) → Prop} (w : Walk img K L o xs st nx I)
    (hI : ∀ vars l v, (l = .counter ∨ l = .current) → I vars → I (putVar vars l v))
    (testSrc : Src) (htest : testSrc = .loopVar .current ∨ testSrc = .reg .result)
    {stk : Stk} {pc : Nat}
    (hmv : img.code[pc + 2]? = some (.move (.reg .result) (.loopVar .current)))
    (htc : CodeAt img (pc + 3) (testOp .noteq (.push testSrc) (.push (.lit (.operand .null)))))
    (hj : img.code[pc + 7]? = some (.jump .ifFalse 9))
    (hinc : CodeAt img (pc + 8) incCounter)
    (hpush : img.code[pc + 12]? = some (.push (.loopVar .current)))
    (hnx : CodeAt img (pc + 13) nx)
    (hjb : img.code[pc + 15]? = some (.jump .always (-13))) :
    ∀ (k : Nat), k ≤ xs.length → ∀ (vars : List (LoopVar × Val)) (extra : List Val) (σ : S) (s : State) (c : Int),
      Sim K (stk.inner vars extra) σ s → s.pc = ((pc + 2 : Nat) : Int) → s.regs .result = posVal xs k →
      getVar vars .counter = .int c → I vars → σ.vm.lights = L → σ.vm.regs .operand = .operand o →
      Exec img s (fun t => ∃ vars', At K (pc + 16) (stk.inner vars' ((xs.take k).map .str ++ extra)) [] σ t ∧
        getVar vars' .counter = .int (c + k) ∧ I vars' ∧
        ∀ l, l ≠ .counter → l ≠ .current → getVar vars' l = getVar vars l) := by
  intro k
  induction k with
  | zero =>
    intro _ vars extra σ s c sim hpc hres hcnt hinv hL hop
    -- nothing left: `current := NULL`, the test fails, out
    refine (exec_moveResultLV .current sim hpc hmv).trans fun t1 ⟨ht1, hr1⟩ => ?_
    rw [hres] at ht1 hr1
    have hcur : getVar (putVar vars .current (posVal xs 0)) .current = .operand .null := getVar_putVar _ _ _
    have hpf : Loops.pfStep t1.read t1.eval (.push testSrc) = some (.operand .null :: t1.eval) := by
      rcases htest with rfl | rfl
      · exact pf_lv ht1.2 _ .current _ hcur (by simp)
      · exact Loops.pfStep_push_reg t1 _ .result _ hr1 (by simp [posVal])
    refine (exec_group_result _ _ .noteq (.operand .null) (.operand .null) (.bool false) ht1.2 ht1.1 htc hpf
      (pfStep_push_lit _ _ _) (by rfl)).trans fun t2 ⟨ht2, hr2⟩ => ?_
    refine (exec_jump .ifFalse 9 (pc + 16) (by simp) ht2.2 ht2.1 hj (by simp [hr2, Val.truthy]; omega)).mono
      fun t3 ht3 => ?_
    refine ⟨_, by simpa using ht3, ?_, hI _ _ _ (Or.inr rfl) hinv, ?_⟩
    · rw [getVar_putVar_other _ _ _ _ (by decide), hcnt]; simp
    · intro l _ h2; exact getVar_putVar_other _ _ _ _ h2
  | succ k ih =>
    intro hk vars extra σ s c sim hpc hres hcnt hinv hL hop
    have hklt : k < xs.length := hk
    have hpv : posVal xs (k + 1) = .str xs[k] := by
      simp only [posVal, List.getElem?_eq_getElem hklt]
    rw [hpv] at hres
    refine (exec_moveResultLV .current sim hpc hmv).trans fun t1 ⟨ht1, hr1⟩ => ?_
    rw [hres] at ht1 hr1
    have hcur : getVar (putVar vars .current (.str xs[k])) .current = .str xs[k] := getVar_putVar _ _ _
    have hpf : Loops.pfStep t1.read t1.eval (.push testSrc) = some (.str xs[k] :: t1.eval) := by
      rcases htest with rfl | rfl
      · exact pf_lv ht1.2 _ .current _ hcur (by simp)
      · exact Loops.pfStep_push_reg t1 _ .result _ hr1 (by simp)
    refine (exec_group_result _ _ .noteq (.str xs[k]) (.operand .null) (.bool true) ht1.2 ht1.1 htc hpf
      (pfStep_push_lit _ _ _) (by rfl)).trans fun t2 ⟨ht2, hr2⟩ => ?_
    refine (exec_jump .ifFalse 9 (pc + 8) (by simp) ht2.2 ht2.1 hj (by simp [hr2, Val.truthy]; omega)).trans
      fun t3 ht3 => ?_
    -- count the name and push it
    have hcnt1 : getVar (putVar vars .current (.str xs[k])) .counter = .int c := by
      rw [getVar_putVar_other _ _ _ _ (by decide), hcnt]
    refine (exec_group_lv _ _ .add .counter (.int c) (.int 1) (.int (c + 1)) ht3.2 ht3.1 hinc
      (pf_lv ht3.2 _ .counter _ hcnt1 (by simp)) (Loops.pfStep_pushq _ _ _)
      (Loops.add_int_int c 1)).trans fun t4 ht4 => ?_
    have hcur4 : getVar (putVar (putVar vars .current (.str xs[k])) .counter (.int (c + 1))) .current =
        .str xs[k] := by rw [getVar_putVar_other _ _ _ _ (by decide), hcur]
    refine (exec_pushLV .current (.str xs[k]) ht4.2 ht4.1 hpush hcur4 (by simp)).trans fun t5 ht5 => ?_
    have hinv5 : I (putVar (putVar vars .current (.str xs[k])) .counter (.int (c + 1))) :=
      hI _ _ _ (Or.inl rfl) (hI _ _ _ (Or.inr rfl) hinv)
    refine (w.next k hklt ht5.2 ht5.1 hnx hinv5 hL hcur4 hop).trans fun t6 ⟨ht6, hr6⟩ => ?_
    refine (exec_jump_keep (-13) (pc + 2) ht6.2 ht6.1 hjb (by simp; omega)).trans fun t7 ⟨ht7, hr7'⟩ => ?_
    have hr7 : t7.regs .result = posVal xs k := by rw [hr7', hr6]
    refine (ih (Nat.le_of_lt hklt) _ _ σ t7 (c + 1) ht7.2 ht7.1 hr7 (getVar_putVar _ _ _) hinv5 hL hop).mono
      fun t8 ⟨vars', ht8, hc8, hi8, hoth⟩ => ?_
    refine ⟨vars', ?_, ?_, hi8, ?_⟩
    · have e : (xs.take (k + 1)).map Val.str ++ extra = (xs.take k).map Val.str ++ (.str xs[k] :: extra) := by
        rw [List.take_succ_eq_append_getElem hklt, List.map_append, List.append_assoc]; rfl
      rw [e]; exact ht8
    · rw [hc8]; congr 1; omega
    · intro l h1 h2
      rw [hoth l h1 h2, getVar_putVar_other _ _ _ _ h1, getVar_putVar_other _ _ _ _ h2]


theorem iterSkeleton_length (st nx : List Instr) (testSrc : Src) (hst : st.length = 2) (hnx : nx.length = 2) :
    (iterSkeleton st testSrc pushCurrent nx).length = 16 := by
  simp [iterSkeleton, testOp, pushCurrent, incCounter, hst, hnx]

/-- **a discovery loop**: the names of `xs` are pushed, the first on top, and counted -/
theorem exec_walk {L : List Light} {o : Operand} {xs : List String} {st nx : List Instr}
    {I : List (LoopVar × Val) → Prop} (w : Walk img K L o xs st nx I)
    (hI : ∀ vars l v, (l = .counter ∨ l = .current) → I vars → I (putVar vars l v))
    (testSrc : Src) (htest : testSrc = .loopVar .current ∨ testSrc = .reg .result)
    (hst : st.length = 2) (hnxl : nx.length = 2)
    {stk : Stk} {vars : List (LoopVar × Val)} {extra : List Val} {σ : S} {s : State} {pc : Nat} (c : Int)
    (sim : Sim K (stk.inner vars extra) σ s) (hpc : s.pc = (pc : Int))
    (hc : CodeAt img pc (iterSkeleton st testSrc pushCurrent nx))
    (hcnt : getVar vars .counter = .int c) (hinv : I vars) (hL : σ.vm.lights = L) :
    Exec img s (fun t => ∃ vars', At K (pc + 16) (stk.inner vars' (xs.map .str ++ extra)) []
        (σ.setReg .operand (.operand o)) t ∧
      getVar vars' .counter = .int (c + xs.length) ∧ I vars' ∧
      ∀ l, l ≠ .counter → l ≠ .current → getVar vars' l = getVar vars l) := by
  simp only [iterSkeleton] at hc
  have h1 := hc.left.left.left.left.left
  have h2 := hc.left.left.left.left.right.head
  have h3 := hc.left.left.left.right
  have h4 := hc.left.left.right.head
  have h5 := hc.left.right
  have h6 := hc.right.head
  have hpl : pushCurrent.length = 5 := rfl
  have htl : (testOp .noteq (.push testSrc) (.push (.lit (.operand .null)))).length = 4 := rfl
  simp only [List.length_append, List.length_cons, List.length_nil, hst, hnxl, hpl, htl] at h2 h3 h4 h5 h6
  have h5a : CodeAt img (pc + 8) incCounter := (h5.left.left).cast (by omega)
  have h5b : img.code[pc + 12]? = some (.push (.loopVar .current)) := by
    have := h5.left.right.head
    simp only [incCounter, List.length_cons, List.length_nil] at this
    exact (idx this)
  have h5c : CodeAt img (pc + 13) nx := (h5.right).cast (by simp [hpl])
  refine (w.start sim hpc h1 hinv hL).trans fun t1 ⟨ht1, hr1⟩ => ?_
  have := walk_from w hI testSrc htest (stk := stk) (pc := pc) (idx h2) (h3.cast (by omega)) (idx h4) h5a h5b h5c
    (idx h6) xs.length (Nat.le_refl _) vars extra _ t1 c ht1.2 ht1.1 hr1 hcnt hinv
    (by simpa [S.setReg, State.setReg] using hL) (by simp [S.setReg, State.setReg])
  rw [List.take_length] at this
  exact this

/-! ## the three kinds of walk -/

/-- what `DISC`/`DNEXT` walk for the operand kinds `light`, `group`, `location` -/
def namesOf (o : Operand) (vm : State) : List String :=
  match o with
  | .group => vm.groupNames
  | .location => vm.locationNames
  | _ => vm.lightNames

def SetKind (o : Operand) : Prop := o = .light ∨ o = .group ∨ o = .location

theorem names_eq {o : Operand} (ho : SetKind o) (s : State) (h : s.regs .operand = .operand o) :
    s.names = some (namesOf o s) := by
  rcases ho with rfl | rfl | rfl <;> simp [State.names, h, namesOf]

theorem namesOf_lights {o : Operand} {a b : State} (h : a.lights = b.lights) : namesOf o a = namesOf o b := by
  unfold namesOf
  split <;> simp [State.groupNames, State.locationNames, State.lightNames, h]

theorem namesOf_strict (o : Operand) (vm : State) : (namesOf o vm).Pairwise (· < ·) := by
  unfold namesOf
  split
  · exact (C04_groupNames vm).1
  · exact (C04_locationNames vm).1
  · exact (C04_lightNames vm).1

theorem fwd_false (h : SimU K stk un σ s) : fwd s = false := by
  unfold fwd
  rw [← h.regs _ (by decide)]
  exact h.umode.2

/-- `DISC`: the last name of the kind in the `operand` register -/
theorem exec_disc {o : Operand} (ho : SetKind o) (h : SimU K stk un σ s) (hpc : s.pc = (pc : Int))
    (hi : img.code[pc]? = some .disc) (hop : σ.vm.regs .operand = .operand o) :
    Exec img s (fun t => At K (pc + 1) stk un σ t ∧
      t.regs .result = posVal (namesOf o σ.vm) (namesOf o σ.vm).length) := by
  have hops : s.regs .operand = .operand o := by rw [← h.regs _ (by decide), hop]
  have hn : namesOf o s = namesOf o σ.vm := namesOf_lights h.lights.symm
  have hex : execInstr img s .disc = s.setReg .result (posVal (namesOf o σ.vm) (namesOf o σ.vm).length) := by
    rw [posVal_length]
    simp only [execInstr, names_eq ho s hops, fwd_false h, Bool.false_eq_true, if_false, hn]
    cases (namesOf o σ.vm).getLast? <;> rfl
  apply Exec.step h.running
  apply Exec.done
  rw [step_eq _ _ h.running hpc hi rfl hex h.running]
  refine ⟨⟨?_, (h.setResult _).setPc _⟩, by simp [State.setReg]⟩
  show s.pc + 1 = _
  rw [hpc]; omega

/-- `DNEXT current`: the name before the current one -/
theorem exec_dnext {vars : List (LoopVar × Val)} {ht : Nat} {o : Operand} (ho : SetKind o) (i : Nat)
    (hi' : i < (namesOf o σ.vm).length)
    (h : SimU K ⟨.loop vars ht :: fr, ev⟩ un σ s) (hpc : s.pc = (pc : Int))
    (hi : img.code[pc]? = some (.dnext (.loopVar .current))) (hop : σ.vm.regs .operand = .operand o)
    (hcur : getVar vars .current = .str (namesOf o σ.vm)[i]) :
    Exec img s (fun t => At K (pc + 1) ⟨.loop vars ht :: fr, ev⟩ un σ t ∧
      t.regs .result = posVal (namesOf o σ.vm) i) := by
  have hops : s.regs .operand = .operand o := by rw [← h.regs _ (by decide), hop]
  have hn : namesOf o s = namesOf o σ.vm := namesOf_lights h.lights.symm
  have hrd : s.read (.loopVar .current) = .str (namesOf o σ.vm)[i] := by
    simp only [State.read]; rw [h.readLV, hcur]
  have hex : execInstr img s (.dnext (.loopVar .current)) = s.setReg .result (posVal (namesOf o σ.vm) i) := by
    simp only [execInstr, names_eq ho s hops, hn, hrd, stepName, fwd_false h, Bool.false_eq_true, if_false]
    rw [← prev_posVal _ (namesOf_strict o σ.vm) i hi']
    cases prevName (namesOf o σ.vm) (namesOf o σ.vm)[i] <;> rfl
  apply Exec.step h.running
  apply Exec.done
  rw [step_eq _ _ h.running hpc hi rfl hex h.running]
  refine ⟨⟨?_, (h.setResult _).setPc _⟩, by simp [State.setReg]⟩
  show s.pc + 1 = _
  rw [hpc]; omega

/-- the walk over all lights / all groups / all locations -/
theorem walk_sets (L : List Light) {o : Operand} (ho : SetKind o) :
    Walk img K L o (namesOf o { (default : State) with lights := L })
      [.moveq (.operand o) (.reg .operand), .disc]
      [.moveq (.operand o) (.reg .operand), .dnext (.loopVar .current)] (fun _ => True) where
  start := by
    intro stk vars extra σ s pc sim hpc hc _ hL
    have hn : namesOf o { (default : State) with lights := L } = namesOf o (σ.setReg .operand (.operand o)).vm :=
      namesOf_lights (by simp [S.setReg, State.setReg, hL])
    rw [hn]
    refine (exec_moveqReg (.operand o) .operand (by decide) sim hpc hc.head).trans fun t1 ht1 => ?_
    exact exec_disc ho ht1.2 ht1.1 hc.tail.head (by simp [S.setReg, State.setReg])
  next := by
    intro stk vars extra σ s pc i hi sim hpc hc _ hL hcur hop
    have hn : namesOf o { (default : State) with lights := L } = namesOf o σ.vm :=
      namesOf_lights (by simp [hL])
    refine (exec_moveqReg (.operand o) .operand (by decide) sim hpc hc.head).trans fun t1 ht1 => ?_
    rw [setReg_idem σ .operand _ hop] at ht1
    simp only [hn] at hi hcur ⊢
    exact exec_dnext ho i hi ht1.2 ht1.1 hc.tail.head hop hcur


/-! ### the members of a group or location -/

def MemberKind (o : Operand) : Prop := o = .group ∨ o = .location

/-- the directory's list of members: ascending, a name possibly more than once -/
def rawMembers (o : Operand) (vm : State) (g : String) : Option (List String) :=
  match o with
  | .group => vm.groupLights g
  | .location => vm.locationLights g
  | _ => none

/-- the members as they are visited: each once -/
def memberNames (o : Operand) (vm : State) (g : String) : List String :=
  dedupSorted ((rawMembers o vm g).getD [])

theorem members_eq {o : Operand} (ho : MemberKind o) (s : State) (g : String)
    (h : s.regs .operand = .operand o) : s.members (.str g) = rawMembers o s g := by
  rcases ho with rfl | rfl <;> simp [State.members, h, rawMembers]

theorem rawMembers_lights {o : Operand} {a b : State} (g : String) (h : a.lights = b.lights) :
    rawMembers o a g = rawMembers o b g := by
  unfold rawMembers
  split <;> simp [State.groupLights, State.locationLights, h]

theorem rawMembers_sorted {o : Operand} {vm : State} {g : String} {ms : List String}
    (h : rawMembers o vm g = some ms) : ms.Pairwise (· ≤ ·) := by
  unfold rawMembers at h
  split at h
  · exact (C04_groupLights vm g ms h).1
  · exact (C04_locationLights vm g ms h).1
  · simp at h

theorem memberNames_strict (o : Operand) (vm : State) (g : String) :
    (memberNames o vm g).Pairwise (· < ·) := by
  unfold memberNames
  cases h : rawMembers o vm g with
  | none => simp [dedupSorted]
  | some ms => exact Loops.dedupSorted_strict ms (rawMembers_sorted h)

/-- `DISCM first`: the last member of the group named in `first` -/
theorem exec_discm {vars : List (LoopVar × Val)} {ht : Nat} {o : Operand} (ho : MemberKind o) (g : String)
    (h : SimU K ⟨.loop vars ht :: fr, ev⟩ un σ s) (hpc : s.pc = (pc : Int))
    (hi : img.code[pc]? = some (.discm (.loopVar .first))) (hop : σ.vm.regs .operand = .operand o)
    (hfirst : getVar vars .first = .str g) :
    Exec img s (fun t => At K (pc + 1) ⟨.loop vars ht :: fr, ev⟩ un σ t ∧
      t.regs .result = posVal (memberNames o σ.vm g) (memberNames o σ.vm g).length) := by
  have hops : s.regs .operand = .operand o := by rw [← h.regs _ (by decide), hop]
  have hn : rawMembers o s g = rawMembers o σ.vm g := rawMembers_lights g h.lights.symm
  have hrd : s.read (.loopVar .first) = .str g := by simp only [State.read]; rw [h.readLV, hfirst]
  have hex : execInstr img s (.discm (.loopVar .first)) =
      s.setReg .result (posVal (memberNames o σ.vm g) (memberNames o σ.vm g).length) := by
    rw [posVal_length]
    simp only [execInstr, hrd, members_eq ho s g hops, hn, memberNames, getLast?_dedupSorted]
    cases hm : rawMembers o σ.vm g with
    | none => rfl
    | some ms =>
      simp only [pickFirst, fwd_false h, Bool.false_eq_true, if_false, Option.getD_some]
      cases ms.getLast? <;> rfl
  apply Exec.step h.running
  apply Exec.done
  rw [step_eq _ _ h.running hpc hi rfl hex h.running]
  refine ⟨⟨?_, (h.setResult _).setPc _⟩, by simp [State.setReg]⟩
  show s.pc + 1 = _
  rw [hpc]; omega

/-- `DNEXTM first current`: the member before the current one -/
theorem exec_dnextm {vars : List (LoopVar × Val)} {ht : Nat} {o : Operand} (ho : MemberKind o) (g : String)
    (i : Nat) (hi' : i < (memberNames o σ.vm g).length)
    (h : SimU K ⟨.loop vars ht :: fr, ev⟩ un σ s) (hpc : s.pc = (pc : Int))
    (hi : img.code[pc]? = some (.dnextm (.loopVar .first) (.loopVar .current)))
    (hop : σ.vm.regs .operand = .operand o) (hfirst : getVar vars .first = .str g)
    (hcur : getVar vars .current = .str (memberNames o σ.vm g)[i]) :
    Exec img s (fun t => At K (pc + 1) ⟨.loop vars ht :: fr, ev⟩ un σ t ∧
      t.regs .result = posVal (memberNames o σ.vm g) i) := by
  have hops : s.regs .operand = .operand o := by rw [← h.regs _ (by decide), hop]
  have hn : rawMembers o s g = rawMembers o σ.vm g := rawMembers_lights g h.lights.symm
  have hrd : s.read (.loopVar .first) = .str g := by simp only [State.read]; rw [h.readLV, hfirst]
  have hrc : s.read (.loopVar .current) = .str (memberNames o σ.vm g)[i] := by
    simp only [State.read]; rw [h.readLV, hcur]
  obtain ⟨ms, hms⟩ : ∃ ms, rawMembers o σ.vm g = some ms := by
    cases hm : rawMembers o σ.vm g with
    | none => simp [memberNames, hm, dedupSorted] at hi'
    | some ms => exact ⟨ms, rfl⟩
  have hmn : memberNames o σ.vm g = dedupSorted ms := by simp [memberNames, hms]
  have hex : execInstr img s (.dnextm (.loopVar .first) (.loopVar .current)) =
      s.setReg .result (posVal (memberNames o σ.vm g) i) := by
    simp only [execInstr, hrd, hrc, members_eq ho s g hops, hn, hms, stepName, fwd_false h,
      Bool.false_eq_true, if_false]
    rw [← prev_posVal _ (memberNames_strict o σ.vm g) i hi']
    have hp : ∀ c, prevName ms c = prevName (memberNames o σ.vm g) c := fun c => by
      rw [hmn, prevName_dedupSorted]
    rw [hp]
    cases prevName (memberNames o σ.vm g) (memberNames o σ.vm g)[i] <;> rfl
  apply Exec.step h.running
  apply Exec.done
  rw [step_eq _ _ h.running hpc hi rfl hex h.running]
  refine ⟨⟨?_, (h.setResult _).setPc _⟩, by simp [State.setReg]⟩
  show s.pc + 1 = _
  rw [hpc]; omega

/-- the walk over the members of the group / location `g` -/
theorem walk_members (L : List Light) {o : Operand} (ho : MemberKind o) (g : String) :
    Walk img K L o (memberNames o { (default : State) with lights := L } g)
      [.moveq (.operand o) (.reg .operand), .discm (.loopVar .first)]
      [.moveq (.operand o) (.reg .operand), .dnextm (.loopVar .first) (.loopVar .current)]
      (fun vars => getVar vars .first = .str g) where
  start := by
    intro stk vars extra σ s pc sim hpc hc hfirst hL
    have hn : memberNames o { (default : State) with lights := L } g =
        memberNames o (σ.setReg .operand (.operand o)).vm g := by
      unfold memberNames
      rw [rawMembers_lights (b := (σ.setReg .operand (.operand o)).vm) g (by simp [S.setReg, State.setReg, hL])]
    rw [hn]
    refine (exec_moveqReg (.operand o) .operand (by decide) sim hpc hc.head).trans fun t1 ht1 => ?_
    exact exec_discm ho g ht1.2 ht1.1 hc.tail.head (by simp [S.setReg, State.setReg]) hfirst
  next := by
    intro stk vars extra σ s pc i hi sim hpc hc hfirst hL hcur hop
    have hn : memberNames o { (default : State) with lights := L } g = memberNames o σ.vm g := by
      unfold memberNames
      rw [rawMembers_lights (b := σ.vm) g (by simp [hL])]
    refine (exec_moveqReg (.operand o) .operand (by decide) sim hpc hc.head).trans fun t1 ht1 => ?_
    rw [setReg_idem σ .operand _ hop] at ht1
    simp only [hn] at hi hcur ⊢
    exact exec_dnextm ho g i hi ht1.2 ht1.1 hc.tail.head hop hfirst hcur


/-! ## the prologues against `Sem` -/

/-- `PUSH result`: a name computed into `result` goes onto the evaluation stack -/
theorem exec_pushResult {vars : List (LoopVar × Val)} {extra : List Val} (x : Val)
    (h : SimU K (stk.inner vars extra) un σ s) (hpc : s.pc = (pc : Int))
    (hi : img.code[pc]? = some (.push (.reg .result))) (hx : s.regs .result = x) (hne : x = .none → False) :
    Exec img s (At K (pc + 1) (stk.inner vars (x :: extra)) un σ) := by
  apply Exec.step h.running
  apply Exec.done
  rw [step_push img s pc (.reg .result) x h.running hpc hi (by simp) (by simp only [State.read]; exact hx) hne]
  exact ⟨by simp, h.pushed x _⟩

/-- all lights / all groups / all locations -/
theorem exec_iterSets {o : Operand} (ho : SetKind o) (testSrc : Src)
    (htest : testSrc = .loopVar .current ∨ testSrc = .reg .result)
    {vars : List (LoopVar × Val)} {extra : List Val} (c : Int)
    (sim : Sim K (stk.inner vars extra) σ s) (hpc : s.pc = (pc : Int))
    (hc : CodeAt img pc (iterSkeleton [.moveq (.operand o) (.reg .operand), .disc] testSrc pushCurrent
      [.moveq (.operand o) (.reg .operand), .dnext (.loopVar .current)]))
    (hcnt : getVar vars .counter = .int c) :
    Exec img s (fun t => ∃ vars', At K (pc + 16) (stk.inner vars' ((namesOf o σ.vm).map .str ++ extra)) []
        (σ.setReg .operand (.operand o)) t ∧
      getVar vars' .counter = .int (c + (namesOf o σ.vm).length)) := by
  have hn : namesOf o { (default : State) with lights := σ.vm.lights } = namesOf o σ.vm :=
    namesOf_lights rfl
  have := exec_walk (walk_sets (img := img) (K := K) σ.vm.lights ho) (fun _ _ _ _ _ => trivial) testSrc htest
    rfl rfl c sim hpc hc hcnt trivial rfl
  rw [hn] at this
  exact this.mono fun t ⟨vars', h1, h2, _, _⟩ => ⟨vars', h1, h2⟩

/-- the members of a group / location whose name is in `first` -/
theorem exec_iterMembers {o : Operand} (ho : MemberKind o) (g : String)
    {vars : List (LoopVar × Val)} {extra : List Val} (c : Int)
    (sim : Sim K (stk.inner vars extra) σ s) (hpc : s.pc = (pc : Int))
    (hc : CodeAt img pc (iterMembers o)) (hcnt : getVar vars .counter = .int c)
    (hfirst : getVar vars .first = .str g) :
    Exec img s (fun t => ∃ vars', At K (pc + 16) (stk.inner vars' ((memberNames o σ.vm g).map .str ++ extra)) []
        (σ.setReg .operand (.operand o)) t ∧
      getVar vars' .counter = .int (c + (memberNames o σ.vm g).length)) := by
  have hn : memberNames o { (default : State) with lights := σ.vm.lights } g = memberNames o σ.vm g := by
    unfold memberNames
    rw [rawMembers_lights (a := { (default : State) with lights := σ.vm.lights }) (b := σ.vm) g rfl]
  have := exec_walk (walk_members (img := img) (K := K) σ.vm.lights ho g)
    (fun vars l v hl hv => by
      rcases hl with rfl | rfl <;> rw [getVar_putVar_other _ _ _ _ (by decide)] <;> exact hv)
    (.loopVar .current) (Or.inl rfl) rfl rfl c sim hpc hc hcnt hfirst rfl
  rw [hn] at this
  exact this.mono fun t ⟨vars', h1, h2, _, _⟩ => ⟨vars', h1, h2⟩

theorem iterItems_cons (item : IterItem) (rest : List IterItem) :
    iterItems (item :: rest) = iterItems rest ++ iterItem item := by
  simp [iterItems]

theorem memberNames_group (vm : State) (g : String) :
    memberNames .group vm g = dedupSorted ((vm.groupLights g).getD []) := rfl
theorem memberNames_location (vm : State) (g : String) :
    memberNames .location vm g = dedupSorted ((vm.locationLights g).getD []) := rfl

theorem iterNames_error (items : List IterItem) :
    ∀ (f : Nat) (σ : S) (o : Outcome), iterNames f items σ = .error o → o ≠ .normal ∧ o ≠ .brk ∧ o ≠ .ret := by
  induction items with
  | nil => intro f σ o h; cases f <;> simp [iterNames] at h; subst h; simp
  | cons item rest ih =>
    intro f σ o h
    cases f with
    | zero => simp [iterNames] at h; subst h; simp
    | succ f =>
      simp only [iterNames] at h
      split at h
      · rename_i o' he
        simp at h; subst h
        exact ih f σ _ he
      · rename_i ys σ1 _
        split at h
        · rename_i o' hone
          simp at h; subst h
          cases item with
          | all => simp at hone
          | light n =>
            simp only at hone
            split at hone
            · simp at hone
            · simp at hone; subst hone; simp
            · rename_i o2 he2
              simp at hone; subst hone
              exact evalRvC_error he2
          | group n =>
            simp only at hone
            split at hone
            · simp at hone
            · simp at hone; subst hone; simp
            · rename_i o2 he2
              simp at hone; subst hone
              exact evalRvC_error he2
          | location n =>
            simp only at hone
            split at hone
            · simp at hone
            · simp at hone; subst hone; simp
            · rename_i o2 he2
              simp at hone; subst hone
              exact evalRvC_error he2
        · simp at h

/-- **the sources of `repeat in a and b and …`**: evaluated from the last to the first, their names
pushed so that the first source's first name is on top, and counted -/
theorem exec_iterItems (items : List IterItem) (hitems : ∀ i ∈ items, ItemOK V i) :
    ∀ (f : Nat) (_ : RvToGoals V img K f) (σ σ' : S) (names : List String) (vars : List (LoopVar × Val)) (extra : List Val)
      (s : State) (pc : Nat) (c : Int),
      iterNames f items σ = .ok (names, σ') → Sim K (stk.inner vars extra) σ s → s.pc = (pc : Int) →
      CodeAt img pc (iterItems items) → getVar vars .counter = .int c →
      Exec img s (fun t => ∃ vars', At K (pc + (iterItems items).length)
          (stk.inner vars' (names.map .str ++ extra)) [] σ' t ∧
        getVar vars' .counter = .int (c + names.length)) := by
  induction items with
  | nil =>
    intro f _ σ σ' names vars extra s pc c h sim hpc _ hcnt
    cases f with
    | zero => simp [iterNames] at h
    | succ f =>
      simp only [iterNames, Except.ok.injEq, Prod.mk.injEq] at h
      obtain ⟨rfl, rfl⟩ := h
      exact Exec.done ⟨vars, ⟨by simpa [iterItems] using hpc, by simpa using sim⟩, by simpa using hcnt⟩
  | cons item rest ih =>
    intro f ihRvs σ σ' names vars extra s pc c h sim hpc hc hcnt
    cases f with
    | zero => simp [iterNames] at h
    | succ f =>
      have ihRv := ihRvs f (Nat.le_succ f)
      rw [iterItems_cons] at hc ⊢
      simp only [iterNames] at h
      split at h
      · simp at h
      · rename_i ys σ1 hrest
        refine (ih (fun i hi => hitems i (by simp [hi])) f (fun g hg => ihRvs g (Nat.le_succ_of_le hg)) σ σ1 ys vars
          extra s pc c hrest sim hpc hc.left
          hcnt).trans fun t1 ⟨vars1, ht1, hc1⟩ => ?_
        have hitem := hitems item (by simp)
        have hci := hc.right
        split at h
        · simp at h
        · rename_i xs σ2 hone
          simp only [Except.ok.injEq, Prod.mk.injEq] at h
          obtain ⟨rfl, rfl⟩ := h
          have hfin : ∀ (t : State) (vars' : List (LoopVar × Val)) (L : Nat),
              At K (pc + (iterItems rest).length + L) (stk.inner vars' (xs.map .str ++ (ys.map .str ++ extra)))
                [] σ2 t → (iterItem item).length = L →
              getVar vars' .counter = .int (c + ys.length + xs.length) →
              ∃ vars'', At K (pc + (iterItems rest ++ iterItem item).length)
                  (stk.inner vars'' ((xs ++ ys).map .str ++ extra)) [] σ2 t ∧
                getVar vars'' .counter = .int (c + (xs ++ ys).length) := by
            intro t vars' L ht hL hcv
            refine ⟨vars', ⟨?_, ?_⟩, ?_⟩
            · rw [ht.1, List.length_append, hL]; congr 1; omega
            · have e : (xs ++ ys).map Val.str ++ extra = xs.map Val.str ++ (ys.map Val.str ++ extra) := by
                simp
              rw [e]; exact ht.2
            · rw [hcv, List.length_append]; congr 1; push_cast; omega
          cases item with
          | all =>
            simp only [Except.ok.injEq, Prod.mk.injEq] at hone
            obtain ⟨rfl, rfl⟩ := hone
            refine (exec_iterSets (Or.inl rfl) (.loopVar .current) (Or.inl rfl) _ ht1.2 ht1.1 hci hc1).mono
              fun t2 ⟨vars2, ht2, hc2⟩ => ?_
            exact hfin t2 vars2 16 (by rw [Nat.add_assoc] at ht2; exact ht2) rfl hc2
          | light n =>
            have hn : RvC V n := hitem
            simp only at hone
            split at hone
            · rename_i x σ3 he
              simp only [Except.ok.injEq, Prod.mk.injEq] at hone
              obtain ⟨rfl, rfl⟩ := hone
              simp only [iterItem] at hci
              refine (rv_toResult ihRv n hn ht1.2 ht1.1 hci.left.left he).trans fun t2 ⟨ht2, hr2⟩ => ?_
              refine (exec_pushResult (.str x) ht2.2 ht2.1 (idx hci.left.right.head) hr2 (by simp)).trans
                fun t3 ht3 => ?_
              have hcc := hci.right
              simp only [List.length_append, List.length_cons, List.length_nil] at hcc
              refine (exec_group_lv _ _ .add .counter (.int (c + ys.length)) (.int 1)
                (.int (c + ys.length + 1)) ht3.2 ht3.1 (hcc.cast (by omega))
                (pf_lv ht3.2 _ .counter _ hc1 (by simp)) (Loops.pfStep_pushq _ _ _)
                (Loops.add_int_int _ 1)).mono fun t4 ht4 => ?_
              refine hfin t4 (putVar vars1 .counter (.int (c + ys.length + 1)))
                ((genRv n (.to result)).length + 1 + 4) ⟨?_, ?_⟩ ?_ ?_
              · rw [ht4.1]; omega
              · exact ht4.2
              · simp [iterItem, incCounter]
              · rw [getVar_putVar]; simp
            · simp at hone
            · simp at hone
          | group n =>
            have hn : RvC V n := hitem
            simp only at hone
            split at hone
            · rename_i g σ3 he
              simp only [Except.ok.injEq, Prod.mk.injEq] at hone
              obtain ⟨rfl, rfl⟩ := hone
              simp only [iterItem] at hci
              refine (rv_toLoopVar ihRv n hn .first vars1 _ ht1.2 ht1.1 hci.left he).trans fun t2 ht2 => ?_
              refine (exec_iterMembers (Or.inl rfl) g (c + ys.length) ht2.2 ht2.1 hci.right
                (by rw [getVar_putVar_other _ _ _ _ (by decide)]; exact hc1) (getVar_putVar _ _ _)).mono
                fun t3 ⟨vars3, ht3, hc3⟩ => ?_
              rw [memberNames_group] at ht3 hc3
              refine hfin t3 vars3 ((genRv n (.to (.loopVar .first))).length + 16) ⟨?_, ht3.2⟩ ?_ hc3
              · rw [ht3.1]; omega
              all_goals simp [iterItem, iterMembers, iterSkeleton, testOp, pushCurrent, incCounter]
            · simp at hone
            · simp at hone
          | location n =>
            have hn : RvC V n := hitem
            simp only at hone
            split at hone
            · rename_i g σ3 he
              simp only [Except.ok.injEq, Prod.mk.injEq] at hone
              obtain ⟨rfl, rfl⟩ := hone
              simp only [iterItem] at hci
              refine (rv_toLoopVar ihRv n hn .first vars1 _ ht1.2 ht1.1 hci.left he).trans fun t2 ht2 => ?_
              refine (exec_iterMembers (Or.inr rfl) g (c + ys.length) ht2.2 ht2.1 hci.right
                (by rw [getVar_putVar_other _ _ _ _ (by decide)]; exact hc1) (getVar_putVar _ _ _)).mono
                fun t3 ⟨vars3, ht3, hc3⟩ => ?_
              rw [memberNames_location] at ht3 hc3
              refine hfin t3 vars3 ((genRv n (.to (.loopVar .first))).length + 16) ⟨?_, ht3.2⟩ ?_ hc3
              · rw [ht3.1]; omega
              all_goals simp [iterItem, iterMembers, iterSkeleton, testOp, pushCurrent, incCounter]
            · simp at hone
            · simp at hone


end Sim
end Bardolph
