import Bardolph.Proofs.Colorsys
/-!
Python's `round`, the clamp `max(lo, min(x, hi))`, `param_8/16/32`, `_standardize_raw` and
Python's float `%` — the facts the C07 and C14 theorems rest on.
-/
namespace Bardolph.Units
open Bardolph.Generated.Units

/-- the integer `w` is within one half of `x` -/
def Near (w : Int) (x : Rat) : Prop := x - 1 / 2 ≤ (w : Rat) ∧ (w : Rat) ≤ x + 1 / 2

/-- `max(lo, min(x, hi))` -/
def clampQ (lo hi x : Rat) : Rat := rmax lo (rmin x hi)

/-! ## `round` -/

theorem roundHalfEven_near (x : Rat) : Near (roundHalfEven x) x := by
  have h1 := Rat.floor_le x
  have h2 := Rat.lt_floor_add_one x
  push_cast at h2
  unfold Near roundHalfEven
  simp only
  split
  · constructor <;> linarith
  · split
    · push_cast; constructor <;> linarith
    · split
      · constructor <;> linarith
      · push_cast; constructor <;> linarith

theorem roundHalfEven_intCast (n : Int) : roundHalfEven (n : Rat) = n := by
  unfold roundHalfEven
  simp [Rat.floor_intCast]

/-- an integer within one half of an integer-bounded number respects the bounds -/
theorem int_bounds_of_near {w lo hi : Int} {x : Rat} (h : Near w x) (h1 : (lo : Rat) ≤ x)
    (h2 : x ≤ (hi : Rat)) : lo ≤ w ∧ w ≤ hi := by
  obtain ⟨ha, hb⟩ := h
  constructor
  · have : ((lo - 1 : Int) : Rat) < (w : Rat) := by push_cast; linarith
    have : lo - 1 < w := by exact_mod_cast this
    omega
  · have : (w : Rat) < ((hi + 1 : Int) : Rat) := by push_cast; linarith
    have : w < hi + 1 := by exact_mod_cast this
    omega

/-- two integers within one half of the same number differ by at most one; if the number
is itself an integer they are equal -/
theorem near_int_eq {w n : Int} (h : Near w (n : Rat)) : w = n := by
  have := int_bounds_of_near h (le_refl _) (le_refl _)
  omega

/-! ## the clamp -/

theorem clampQ_range {lo hi : Rat} (h : lo ≤ hi) (x : Rat) :
    lo ≤ clampQ lo hi x ∧ clampQ lo hi x ≤ hi := by
  unfold clampQ rmax rmin
  split_ifs <;> (constructor <;> linarith)

theorem clampQ_of_mem {lo hi x : Rat} (h1 : lo ≤ x) (h2 : x ≤ hi) : clampQ lo hi x = x := by
  unfold clampQ rmax rmin
  rw [if_pos h2, if_pos h1]

theorem clampQ_of_le {lo hi x : Rat} (h : lo ≤ hi) (h1 : x ≤ lo) : clampQ lo hi x = lo := by
  unfold clampQ rmax rmin
  split_ifs <;> linarith

theorem clampQ_of_ge {lo hi x : Rat} (h : lo ≤ hi) (h1 : hi ≤ x) : clampQ lo hi x = hi := by
  unfold clampQ rmax rmin
  split_ifs <;> linarith

/-! ## `param_N` -/

theorem paramN_eq (lo hi : Nat) (x : Rat) :
    paramN lo hi x = roundHalfEven (clampQ (lo : Rat) (hi : Rat) x) := rfl

theorem paramN_near (lo hi : Nat) (x : Rat) : Near (paramN lo hi x) (clampQ lo hi x) :=
  roundHalfEven_near _

theorem paramN_range {lo hi : Nat} (h : lo ≤ hi) (x : Rat) :
    (lo : Int) ≤ paramN lo hi x ∧ paramN lo hi x ≤ (hi : Int) := by
  have hq : (lo : Rat) ≤ (hi : Rat) := by exact_mod_cast h
  obtain ⟨h1, h2⟩ := clampQ_range hq x
  exact int_bounds_of_near (paramN_near lo hi x) (by exact_mod_cast h1) (by exact_mod_cast h2)

theorem paramN_int {lo hi : Nat} {n : Int} (h1 : (lo : Int) ≤ n) (h2 : n ≤ (hi : Int)) :
    paramN lo hi (n : Rat) = n := by
  have a : ((lo : Nat) : Rat) ≤ (n : Rat) := by exact_mod_cast h1
  have b : (n : Rat) ≤ ((hi : Nat) : Rat) := by exact_mod_cast h2
  rw [paramN_eq, clampQ_of_mem a b, roundHalfEven_intCast]

/-- clamping twice is clamping once (`set all` passes through two wrappers) -/
theorem paramN_idem {lo hi : Nat} (h : lo ≤ hi) (x : Rat) :
    paramN lo hi ((paramN lo hi x : Int) : Rat) = paramN lo hi x := by
  obtain ⟨h1, h2⟩ := paramN_range h x
  exact paramN_int h1 h2

/-- the 16-bit range -/
def IsU16 (n : Int) : Prop := 0 ≤ n ∧ n ≤ 65535
/-- the 32-bit range -/
def IsU32 (n : Int) : Prop := 0 ≤ n ∧ n ≤ 4294967295

theorem param16_range (x : Rat) : IsU16 (param16 x) := by
  have := paramN_range (lo := param16Lo) (hi := param16Hi) (by decide) x
  simpa [IsU16, param16, param16Lo, param16Hi] using this

theorem param32_range (x : Rat) : IsU32 (param32 x) := by
  have := paramN_range (lo := param32Lo) (hi := param32Hi) (by decide) x
  simpa [IsU32, param32, param32Lo, param32Hi] using this

theorem param16_near (x : Rat) : Near (param16 x) (clampQ 0 65535 x) := by
  have := paramN_near param16Lo param16Hi x
  simpa [param16, param16Lo, param16Hi] using this

theorem param32_near (x : Rat) : Near (param32 x) (clampQ 0 4294967295 x) := by
  have := paramN_near param32Lo param32Hi x
  simpa [param32, param32Lo, param32Hi] using this

theorem param16_int {n : Int} (h : IsU16 n) : param16 (n : Rat) = n :=
  paramN_int (by simpa [param16Lo] using h.1) (by simpa [param16Hi] using h.2)

theorem param32_int {n : Int} (h : IsU32 n) : param32 (n : Rat) = n :=
  paramN_int (by simpa [param32Lo] using h.1) (by simpa [param32Hi] using h.2)

theorem param16_idem (x : Rat) : param16 ((param16 x : Int) : Rat) = param16 x :=
  param16_int (param16_range x)

theorem param32_idem (x : Rat) : param32 ((param32 x : Int) : Rat) = param32 x :=
  param32_int (param32_range x)

theorem param16_of_mem {x : Rat} (h1 : 0 ≤ x) (h2 : x ≤ 65535) : param16 x = roundHalfEven x := by
  have : clampQ ((param16Lo : Nat) : Rat) ((param16Hi : Nat) : Rat) x = x :=
    clampQ_of_mem (by simpa [param16Lo] using h1) (by simpa [param16Hi] using h2)
  rw [param16, paramN_eq, this]

/-- `_standardize_raw` is the same clamp-and-round as `param_16` -/
theorem standardize_eq_param16 (x : Rat) : standardize x = param16 x := by
  have e : param16 x = roundHalfEven (clampQ 0 65535 x) := by
    simp [param16, paramN_eq, param16Lo, param16Hi]
  rw [e]
  unfold standardize
  split_ifs with h1 h2
  · have h1' : x < 0 := by simpa [stdLoTest] using h1
    rw [clampQ_of_le (by norm_num) h1'.le]
    simpa [stdLo] using (roundHalfEven_intCast 0).symm
  · have h2' : (65535 : Rat) < x := by simpa [stdHiTest] using h2
    rw [clampQ_of_ge (by norm_num) h2'.le]
    simpa [stdHi] using (roundHalfEven_intCast 65535).symm
  · have h1' : (0 : Rat) ≤ x := by simpa [stdLoTest] using h1
    have h2' : x ≤ 65535 := by simpa [stdHiTest] using h2
    rw [clampQ_of_mem h1' h2']

/-! ## Python's `%` on numbers -/

theorem pyMod_range {m : Rat} (hm : 0 < m) (x : Rat) : 0 ≤ pyMod x m ∧ pyMod x m < m := by
  have h1 := Rat.floor_le (x / m)
  have h2 := Rat.lt_floor_add_one (x / m)
  push_cast at h2
  unfold pyMod
  have e : x = m * (x / m) := by field_simp
  constructor
  · have := mul_le_mul_of_nonneg_left h1 hm.le
    linarith
  · have := mul_lt_mul_of_pos_left h2 hm
    linarith

theorem pyMod_of_floor {m x : Rat} {n : Int} (hm : 0 < m) (h1 : (n : Rat) * m ≤ x)
    (h2 : x < ((n : Rat) + 1) * m) : pyMod x m = x - (n : Rat) * m := by
  have : (x / m).floor = n := by
    apply floor_eq_of
    · rw [le_div_iff₀ hm]; exact h1
    · rw [div_lt_iff₀ hm]; exact h2
  unfold pyMod
  rw [this]
  ring

theorem pyMod_of_mem {m x : Rat} (hm : 0 < m) (h1 : 0 ≤ x) (h2 : x < m) : pyMod x m = x := by
  have := pyMod_of_floor (n := 0) hm (by simpa using h1) (by simpa using h2)
  simpa using this

/-! ## small facts used by C07 and C14 -/

/-- the colour (fractions of full red, green, blue) that transmitted hue, saturation and
brightness denote -/
def colourOfHsb (h s b : Rat) : Rat × Rat × Rat := hsvToRgb (h / 65535) (s / 65535) (b / 65535)

theorem eps_val : eps = 1 / 131072 := by
  norm_num [eps, epsilonNum, epsilonDen]

theorem param16_zero : param16 0 = 0 := by
  have := param16_int (n := 0) ⟨by norm_num, by norm_num⟩
  simpa using this

theorem rmax_zero_of_nonneg {a : Rat} (h : 0 ≤ a) : rmax a 0 = a := by
  unfold rmax
  split_ifs with h1
  · linarith
  · rfl

theorem param16_full : param16 65535 = 65535 := by
  have := param16_int (n := 65535) ⟨by norm_num, by norm_num⟩
  simpa using this

/-- a number strictly within one half of an integer rounds to it -/
theorem roundHalfEven_eq_of_close {x : Rat} {n : Int} (h1 : (n : Rat) - 1 / 2 < x)
    (h2 : x < (n : Rat) + 1 / 2) : roundHalfEven x = n := by
  obtain ⟨ha, hb⟩ := roundHalfEven_near x
  have a : ((n - 1 : Int) : Rat) < (roundHalfEven x : Rat) := by push_cast; linarith
  have b : (roundHalfEven x : Rat) < ((n + 1 : Int) : Rat) := by push_cast; linarith
  have a' : n - 1 < roundHalfEven x := by exact_mod_cast a
  have b' : roundHalfEven x < n + 1 := by exact_mod_cast b
  omega

end Bardolph.Units
