import Bardolph.Proofs.ParseTokBase
/-!
`Spec` for the primitive operations of the parser model: code emission, symbol table, token
advance, error reporting.
-/
namespace Bardolph.ParseTok
open Bardolph

variable {t : Bool}

/-- `st'` differs from `st` at most in the emitted code, the scratch code, the op-code, the
local symbols and the routine/matrix flags -/
structure SameCore (st st' : St) : Prop where
  cur : st'.cur = st.cur
  rest : st'.rest = st.rest
  globals : st'.globals = st.globals
  errors : st'.errors = st.errors
  loops : st'.loops = st.loops

theorem SameCore.okPost {st st' : St} (h : SameCore st st') (hi : Inv st) : OkPost st st' := by
  have ht : st'.toks = st.toks := by simp [St.toks, h.cur, h.rest]
  refine ⟨⟨?_, ?_, ?_⟩, ?_, h.errors, by rw [h.loops]⟩
  · rw [ht]; exact hi.toks
  · rw [ht]; exact hi.lastEof
  · rw [h.globals]; exact hi.macros
  · rw [ht]; exact List.suffix_refl _

theorem Spec.of_sameCore {m : M α} (h : ∀ st, ∃ a st', m st = .ok a st' ∧ SameCore st st') :
    Spec t m := by
  refine ⟨fun st hst => ?_⟩
  obtain ⟨a, st', he, hs⟩ := h st
  rw [he]
  exact hs.okPost hst

theorem spec_getSt : Spec t getSt := Spec.of_sameCore fun st => ⟨st, st, rfl, ⟨rfl, rfl, rfl, rfl, rfl⟩⟩

theorem spec_emitTo (cg : CG) (i : Instr) : Spec t (emitTo cg i) :=
  Spec.of_sameCore fun st => by
    cases cg <;> exact ⟨(), _, rfl, ⟨rfl, rfl, rfl, rfl, rfl⟩⟩

theorem spec_emit (i : Instr) : Spec t (emit i) := spec_emitTo .main i

theorem spec_emitListTo (cg : CG) (is : List Instr) : Spec t (emitListTo cg is) :=
  Spec.of_sameCore fun st => by
    cases cg <;> exact ⟨(), _, rfl, ⟨rfl, rfl, rfl, rfl, rfl⟩⟩

theorem spec_emitList (is : List Instr) : Spec t (emitList is) := spec_emitListTo .main is

theorem spec_offset : Spec t offset :=
  Spec.of_sameCore fun st => ⟨_, st, rfl, ⟨rfl, rfl, rfl, rfl, rfl⟩⟩

theorem spec_patch (idx : Nat) (f : Instr → Instr) : Spec t (patch idx f) :=
  Spec.of_sameCore fun st => ⟨(), _, rfl, ⟨rfl, rfl, rfl, rfl, rfl⟩⟩

theorem spec_takeInner : Spec t takeInner :=
  Spec.of_sameCore fun st => ⟨_, _, rfl, ⟨rfl, rfl, rfl, rfl, rfl⟩⟩

/-- a `modifySt` that touches only code, scratch code and op-code -/
theorem spec_modifySt_same {f : St → St} (h : ∀ st, SameCore st (f st)) : Spec t (modifySt f) :=
  Spec.of_sameCore fun st => ⟨(), _, rfl, h st⟩

theorem inv_of_eq {st st' : St} (h : Inv st) (hc : st'.cur = st.cur) (hr : st'.rest = st.rest)
    (hg : st'.globals = st.globals) : Inv st' := by
  have ht : st'.toks = st.toks := by simp [St.toks, hc, hr]
  exact ⟨by rw [ht]; exact h.toks, by rw [ht]; exact h.lastEof, by rw [hg]; exact h.macros⟩

theorem okPost_of_shape {st st' : St} (h : Inv st) (hc : st'.cur = st.cur)
    (hr : st'.rest = st.rest) (hg : st'.globals = st.globals) (he : st'.errors = st.errors)
    (hs : shape st'.loops = shape st.loops) : OkPost st st' := by
  have ht : st'.toks = st.toks := by simp [St.toks, hc, hr]
  exact ⟨inv_of_eq h hc hr hg, by rw [ht]; exact List.suffix_refl _, he, hs⟩

/-! ### errors -/

theorem failPost_addError (st : St) (msg : String) : FailPost st (st.addError msg) := by
  refine ⟨List.suffix_refl _, [(st.cur.line, msg)], by simp, rfl, ?_⟩
  intro e he
  simp at he
  subst he
  exact .inr ⟨st.cur, by simp [St.toks], rfl⟩

theorem spec_triggerError (msg : String) : Spec t (triggerError msg : M α) :=
  ⟨fun st _ => failPost_addError st msg⟩

theorem spec_tokenError (pre post : String) : Spec t (tokenError pre post : M α) :=
  ⟨fun st _ => failPost_addError st _⟩

theorem spec_timeSpecError : Spec t (timeSpecError : M α) := spec_tokenError _ _

theorem spec_syntaxError : Spec t (syntaxError : M α) := spec_tokenError _ _

/-! ### tokens -/

theorem getLast?_cons_cons {α : Type} (a b : α) (l : List α) :
    (a :: b :: l).getLast? = (b :: l).getLast? := by
  simp [List.getLast?_cons_cons]

theorem advance_spec {st : St} (h : Inv st) :
    (advance st).2 = true ∧ OkPost st (advance st).1 ∧
      (st.cur.ty ≠ .eof → (advance st).1.rest.length < st.rest.length) := by
  unfold advance
  by_cases he : st.cur.ty = .eof
  · simp [he]
    exact OkPost.refl h
  · simp [he]
    cases hr : st.rest with
    | nil =>
      exfalso
      have := h.lastEof
      simp [St.toks, hr] at this
      exact he this
    | cons t r =>
      simp
      have ht : (St.toks { st with cur := t, rest := r }) = st.rest := by simp [St.toks, hr]
      refine ⟨⟨?_, ?_, h.macros⟩, ?_, rfl, rfl⟩
      · intro x hx
        rw [ht] at hx
        exact h.toks x (by simp [St.toks, hx])
      · have := h.lastEof
        rw [ht]
        simp only [St.toks, hr] at this
        rw [getLast?_cons_cons] at this
        rw [hr]; exact this
      · rw [ht]; simp [St.toks]

theorem spec_nextToken : Spec t nextToken := by
  refine ⟨fun st h => ?_⟩
  obtain ⟨h1, h2, _⟩ := advance_spec h
  unfold nextToken
  simp only [h1]
  exact h2

theorem spec_skipToken : Spec t skipToken := by
  refine ⟨fun st h => ?_⟩
  exact (advance_spec h).2.1

/-! ### symbol table -/

theorem spec_addVariable (n : String) : Spec t (addVariable n) := by
  refine ⟨fun st h => ?_⟩
  show OkPost st (if st.inRoutine then _ else _)
  by_cases hr : st.inRoutine = true
  · rw [if_pos hr]
    exact SameCore.okPost ⟨rfl, rfl, rfl, rfl, rfl⟩ h
  · rw [if_neg hr]
    refine ⟨⟨h.toks, h.lastEof, ?_⟩, List.suffix_refl _, rfl, rfl⟩
    intro m s hl hk
    simp only [List.lookup_cons] at hl
    split at hl
    · cases hl; cases hk
    · exact h.macros m s hl hk

theorem spec_addRoutine (n : String) (ps : List String) : Spec t (addRoutine n ps) := by
  refine ⟨fun st h => ?_⟩
  refine ⟨⟨h.toks, h.lastEof, ?_⟩, List.suffix_refl _, rfl, rfl⟩
  intro m s hl hk
  simp only [List.lookup_cons] at hl
  split at hl
  · cases hl; cases hk
  · exact h.macros m s hl hk

theorem spec_addParam (n p : String) : Spec t (addParam n p) := by
  refine ⟨fun st h => ?_⟩
  show OkPost st _
  cases hr : st.getRoutine n with
  | none => simp only [hr]; exact OkPost.refl h
  | some s =>
    simp only [hr]
    refine ⟨⟨h.toks, h.lastEof, ?_⟩, List.suffix_refl _, rfl, rfl⟩
    intro m s' hl hk
    simp only [List.lookup_cons] at hl
    split at hl
    · cases hl
      simp only [St.getRoutine, St.globalOfType, Table.get] at hr
      split at hr
      · split at hr
        · cases hr
          rename_i hkk
          simp at hkk
          rw [hkk] at hk; cases hk
        · cases hr
      · cases hr
    · exact h.macros m s' hl hk

theorem spec_addMacro (n : String) (v : CVal) (hn : nameLike n = true) : Spec t (addMacro n v) := by
  refine ⟨fun st h => ?_⟩
  refine ⟨⟨h.toks, h.lastEof, ?_⟩, List.suffix_refl _, rfl, rfl⟩
  intro m s hl hk
  simp only [List.lookup_cons] at hl
  split at hl
  · rename_i heq
    have : m = n := by simpa using heq
    rw [this]; exact hn
  · exact h.macros m s hl hk

theorem spec_assignable (n : String) : Spec t (assignable n) := by
  unfold assignable
  refine Spec.bind spec_getSt (fun st => ?_)
  exact Spec.ite (spec_triggerError _) (Spec.pure _)

end Bardolph.ParseTok

namespace Bardolph.ParseTok

/-! ### literals and constants: the only routines that may leave a message and still succeed -/

theorem inv_addError {st : St} (h : Inv st) (msg : String) : Inv (st.addError msg) :=
  ⟨h.toks, h.lastEof, h.macros⟩

theorem failPost_addError2 (st : St) (a b : String) :
    FailPost st ((st.addError a).addError b) := by
  refine ⟨List.suffix_refl _, [(st.cur.line, a), (st.cur.line, b)], by simp, ?_, ?_⟩
  · simp [St.addError]
  · intro e he
    have : e.1 = st.cur.line := by
      simp at he; rcases he with rfl | rfl <;> rfl
    exact .inr ⟨st.cur, by simp [St.toks], this.symm⟩

/-- the current token is one on which `_current_literal()` can leave a message -/
def BadLit (st : St) : Prop := st.cur.ty = .timePattern ∨ st.cur.ty = .number

theorem currentLiteral_cases {st : St} (_h : Inv st) :
    (∃ v, currentLiteral st = .ok v st ∧ (v.isSome → st.cur.ty = .number ∨
        st.cur.ty = .literalString ∨ st.cur.ty = .timePattern)) ∨
    (BadLit st ∧ ∃ msg, currentLiteral st = .ok none (st.addError msg)) := by
  unfold currentLiteral
  split
  · rename_i hty
    cases hc : cvalOfNum (parseNumber st.cur.str) with
    | none => exact .inr ⟨.inr hty, _, rfl⟩
    | some c => exact .inl ⟨some c, rfl, fun _ => .inl hty⟩
  · rename_i hty
    exact .inl ⟨_, rfl, fun _ => .inr (.inl hty)⟩
  · rename_i hty
    split
    · exact .inl ⟨_, rfl, fun _ => .inr (.inr hty)⟩
    · exact .inr ⟨.inl hty, _, rfl⟩
  · exact .inl ⟨none, rfl, by simp⟩

theorem badLit_not_name {st : St} (h : BadLit st) : (st.cur.ty != TT.name) = true := by
  rcases h with h | h <;> (rw [h]; rfl)

theorem currentConstant_cases {st : St} (h : Inv st) :
    (∃ v, currentConstant st = .ok v st ∧ (v.isSome → st.cur.ty = .number ∨
        st.cur.ty = .literalString ∨ st.cur.ty = .timePattern ∨ st.cur.ty = .name)) ∨
    (BadLit st ∧ ∃ msg, currentConstant st = .ok none (st.addError msg)) := by
  unfold currentConstant
  rcases currentLiteral_cases h with ⟨v, hv, hty⟩ | ⟨hty, msg, hv⟩
  · rw [bind_ok hv]
    cases v with
    | some c =>
      refine .inl ⟨some c, rfl, fun _ => ?_⟩
      rcases hty rfl with a | a | a
      · exact .inl a
      · exact .inr (.inl a)
      · exact .inr (.inr (.inl a))
    | none =>
      simp only [getSt_bind]
      by_cases hn : st.cur.ty = .name
      · have : (st.cur.ty != TT.name) = false := by rw [hn]; rfl
        simp only [this, Bool.false_eq_true, if_false]
        cases st.getMacro st.cur.str with
        | some s => exact .inl ⟨_, rfl, fun _ => .inr (.inr (.inr hn))⟩
        | none => exact .inl ⟨_, rfl, by simp⟩
      · have : (st.cur.ty != TT.name) = true := by simpa using hn
        simp only [this, if_true]
        exact .inl ⟨none, rfl, by simp⟩
  · rw [bind_ok hv]
    refine .inr ⟨hty, msg, ?_⟩
    simp only [getSt_bind]
    have : ((st.addError msg).cur.ty != TT.name) = true := badLit_not_name hty
    simp only [this, if_true]
    rfl

theorem currentStr_cases {st : St} (h : Inv st) :
    (∃ s, currentStr st = .ok s st ∧ (s ≠ "" → st.cur.ty = .literalString ∨
        st.cur.ty = .timePattern ∨ st.cur.ty = .name ∨ st.cur.ty = .number)) ∨
    (BadLit st ∧ ∃ msg, currentStr st = .ok "" (st.addError msg)) := by
  unfold currentStr
  rcases currentConstant_cases h with ⟨v, hv, hty⟩ | ⟨hty, msg, hv⟩
  · rw [bind_ok hv]
    left
    split
    · refine ⟨_, rfl, fun _ => ?_⟩
      rcases hty rfl with a | a | a | a
      · exact .inr (.inr (.inr a))
      · exact .inl a
      · exact .inr (.inl a)
      · exact .inr (.inr (.inl a))
    · exact ⟨"", rfl, fun h => absurd rfl h⟩
  · rw [bind_ok hv]
    exact .inr ⟨hty, msg, rfl⟩

/-- composing with `_current_constant()`: when it leaves a message (an invalid time pattern) the
continuation must fail -/
theorem spec_bind_currentConstant {K : Option CVal → M β} (hK : ∀ v, Spec t (K v))
    (hbad : ∀ st, Inv st → BadLit st → ∃ msg, K none st = .fail (st.addError msg)) :
    Spec t (currentConstant >>= K) := by
  refine ⟨fun st h => ?_⟩
  rcases currentConstant_cases h with ⟨v, hv, _⟩ | ⟨hty, msg0, hv⟩
  · rw [bind_ok hv]; exact (hK v).run st h
  · rw [bind_ok hv]
    obtain ⟨msg, hm⟩ := hbad _ (inv_addError h _) hty
    show (K none _).Good t st
    rw [hm]
    exact failPost_addError2 st _ _

theorem spec_bind_currentStr {K : String → M β} (hK : ∀ v, Spec t (K v))
    (hbad : ∀ st, Inv st → BadLit st → ∃ msg, K "" st = .fail (st.addError msg)) :
    Spec t (currentStr >>= K) := by
  refine ⟨fun st h => ?_⟩
  rcases currentStr_cases h with ⟨v, hv, _⟩ | ⟨hty, msg0, hv⟩
  · rw [bind_ok hv]; exact (hK v).run st h
  · rw [bind_ok hv]
    obtain ⟨msg, hm⟩ := hbad _ (inv_addError h _) hty
    show (K "" _).Good t st
    rw [hm]
    exact failPost_addError2 st _ _

theorem spec_bind_currentLiteral {K : Option CVal → M β} (hK : ∀ v, Spec t (K v))
    (hbad : ∀ st, Inv st → BadLit st → ∃ msg, K none st = .fail (st.addError msg)) :
    Spec t (currentLiteral >>= K) := by
  refine ⟨fun st h => ?_⟩
  rcases currentLiteral_cases h with ⟨v, hv, _⟩ | ⟨hty, msg0, hv⟩
  · rw [bind_ok hv]; exact (hK v).run st h
  · rw [bind_ok hv]
    obtain ⟨msg, hm⟩ := hbad _ (inv_addError h _) hty
    show (K none _).Good t st
    rw [hm]
    exact failPost_addError2 st _ _
end Bardolph.ParseTok
