import Bardolph.Proofs.ExprBridge
/-!
The simulation between `ParseTok`'s expression routines and `ExprParse`: run on corresponding
token lists, the parser model succeeds exactly when `ExprParse` does (with fuel beyond what the
tokens need), leaving corresponding token lists and the same code; and it fails (with a message)
exactly when `ExprParse` gives `none`.
-/
namespace Bardolph.ParseTok
open Bardolph

abbrev ESt := ExprParse.St

/-- the outcome of a routine of the parser model corresponds to the outcome of `ExprParse` -/
def Rel (fr : Frame) (r : Res Unit) (er : Option ESt) : Prop :=
  match r with
  | .ok _ s' => ∃ toks' etoks' code', s' = fr.S toks' code' ∧ Tr fr toks' etoks' ∧
      er = some (etoks', code')
  | .fail _ => er = none
  | .raised _ _ => True
  | .oof => True

theorem rel_bind (fr : Frame) {m : M Unit} {k : Unit → M Unit} {st : St} {ea rest : Option ESt}
    (hm : Rel fr (m st) ea) (hnone : ea = none → rest = none)
    (hsome : ∀ toks' etoks' code', Tr fr toks' etoks' → ea = some (etoks', code') →
      Rel fr (k () (fr.S toks' code')) rest) :
    Rel fr ((m >>= k) st) rest := by
  rw [bind_run]
  cases hr : m st with
  | ok u s' =>
    rw [hr] at hm
    obtain ⟨toks', etoks', code', rfl, htr, he⟩ := hm
    exact hsome toks' etoks' code' htr he
  | fail s' => rw [hr] at hm; exact hnone hm
  | raised k s' => trivial
  | oof => trivial

/-- a step of the parser model that neither fails nor touches `ExprParse`'s state -/
theorem rel_step (fr : Frame) {m : M Unit} {k : Unit → M Unit} {st st' : St} {rest : Option ESt}
    (hm : m st = .ok () st') (hk : Rel fr (k () st') rest) : Rel fr ((m >>= k) st) rest := by
  rw [bind_ok hm]; exact hk

def SimA (fr : Frame) (F : Nat) : Prop :=
  ∀ toks etoks code f, Tr fr toks etoks → 2 * etoks.length < f →
    Rel fr (atom F (fr.S toks code)) (ExprParse.atom f (etoks, code))

def SimE (fr : Frame) (F : Nat) : Prop :=
  ∀ toks etoks code f, Tr fr toks etoks → 2 * etoks.length + 1 < f →
    Rel fr (expression F (fr.S toks code)) (ExprParse.expression f (etoks, code))

def SimC (fr : Frame) (F : Nat) : Prop :=
  ∀ m toks etoks code f, Tr fr toks etoks → 2 * etoks.length < f →
    Rel fr (climb F m (fr.S toks code)) (ExprParse.climb f m (etoks, code))

def SimI (fr : Frame) (F : Nat) : Prop :=
  ∀ op s toks etoks code f, toE fr.base op = some (.op s) → ExprParse.isBinop (.op s) = true →
    Tr fr toks etoks → 2 * etoks.length + 1 < f →
    Rel fr (inner F op (fr.S toks code)) (ExprParse.inner f (.op s) (etoks, code))

theorem simE_step (fr : Frame) {F : Nat} (hA : SimA fr F) (hC : SimC fr F) : SimE fr (F + 1) := by
  intro toks etoks code f htr hf
  obtain ⟨f', rfl⟩ : ∃ f', f = f' + 1 := ⟨f - 1, by omega⟩
  unfold expression ExprParse.expression
  refine rel_bind fr (hA toks etoks code f' htr (by omega)) ?_ ?_
  · intro h; rw [h]
  · intro toks1 etoks1 code1 htr1 he
    rw [he]
    have := (ExprParse.consume f').1 _ _ he
    exact hC 0 toks1 etoks1 code1 f' htr1 (by simp at this; omega)

/-- the predicates that drive the precedence climbing agree on corresponding tokens -/
theorem tok_agree {ctx : St} {t : Tok} {e : ETok} (h : toE ctx t = some e) :
    t.isBinop = ExprParse.isBinop e ∧ t.isRight = ExprParse.isRight e ∧ t.ty ≠ .eof ∧
    ((ExprParse.isBinop e = true ∨ ExprParse.isRight e = true) → t.prec = ExprParse.tokPrec e) := by
  cases e with
  | atom c =>
    obtain ⟨_, h2, h3, h4⟩ := toE_atom_facts h
    exact ⟨h2, h3, h4, fun hh => by rcases hh with hh | hh <;> cases hh⟩
  | lparen =>
    obtain ⟨_, h2, h3, h4⟩ := toE_lparen h
    exact ⟨h3, h4, h2, fun hh => by rcases hh with hh | hh <;> cases hh⟩
  | rparen =>
    obtain ⟨_, h2, h3, h4, _⟩ := toE_rparen h
    exact ⟨h3, h4, h2, fun hh => by rcases hh with hh | hh <;> cases hh⟩
  | op s =>
    obtain ⟨h1, h2, h3, _, _, h6, _⟩ := op_facts h
    exact ⟨h1, h2, h6, fun _ => h3⟩

theorem cond_agree {ctx : St} {t op : Tok} {e : ETok} {s : String} (ht : toE ctx t = some e)
    (hop : toE ctx op = some (.op s)) :
    ((t.isBinop && decide (t.prec > op.prec)) || (t.isRight && t.prec == op.prec)) =
    ((ExprParse.isBinop e && decide (ExprParse.tokPrec e > ExprParse.tokPrec (.op s))) ||
      (ExprParse.isRight e && ExprParse.tokPrec e == ExprParse.tokPrec (.op s))) := by
  obtain ⟨h1, h2, _, h4⟩ := tok_agree ht
  have hp : op.prec = ExprParse.tokPrec (.op s) := (op_facts hop).2.2.1
  rw [h1, h2, hp]
  cases hb : ExprParse.isBinop e <;> cases hr : ExprParse.isRight e
  · rfl
  · rw [h4 (.inr hr)]
  · rw [h4 (.inl hb)]
  · rw [h4 (.inl hb)]

/-- among the operators of the alphabet only `not` has precedence 1, and it is no binary operator -/
theorem binop_prec : ∀ s ∈ opSyms, ExprParse.isBinop (.op s) = true →
    ExprParse.tokPrec (.op s) ≠ 1 ∧ ExprParse.tokPrec (.op s) ≥ 0 := by decide

theorem right_is_binop : ∀ s ∈ opSyms, ExprParse.isRight (.op s) = true →
    ExprParse.isBinop (.op s) = true ∨ ExprParse.tokPrec (.op s) = 1 := by decide

theorem simI_step (fr : Frame) (hterm : fr.term.isMark "}" = true) {F : Nat} (hC : SimC fr F)
    (hI : SimI fr F) : SimI fr (F + 1) := by
  intro op s toks etoks code f hop hob htr hf
  obtain ⟨f', rfl⟩ : ∃ f', f = f' + 1 := ⟨f - 1, by omega⟩
  obtain ⟨_, tb, tr, _⟩ := term_facts hterm
  unfold inner ExprParse.inner
  rw [getSt_bind]
  cases toks with
  | nil =>
    cases htr.nil_inv
    rw [Frame.S_cur_nil]
    have hc : (fr.term.isBinop && decide (fr.term.prec > op.prec) ||
        fr.term.isRight && fr.term.prec == op.prec) = false := by simp [tb, tr]
    rw [if_neg (by rw [hc]; exact Bool.false_ne_true)]
    exact ⟨[], [], code, rfl, .nil, rfl⟩
  | cons t r =>
    obtain ⟨e, er, rfl, hte, htr'⟩ := htr.cons_inv
    rw [Frame.S_cur_cons, cond_agree hte hop]
    dsimp only
    by_cases hc : ((ExprParse.isBinop e && decide (ExprParse.tokPrec e > ExprParse.tokPrec (.op s))) ||
        (ExprParse.isRight e && ExprParse.tokPrec e == ExprParse.tokPrec (.op s))) = true
    · rw [if_pos hc, if_pos hc]
      obtain ⟨a1, a2, a3, a4⟩ := tok_agree hte
      -- the test holds only at a binary operator
      have hbin : ExprParse.isBinop e = true := by
        simp only [Bool.or_eq_true, Bool.and_eq_true] at hc
        rcases hc with ⟨h, _⟩ | ⟨hr, hp⟩
        · exact h
        · cases e with
          | op s' =>
            have hs' := (op_facts hte).2.2.2.2.1
            rcases right_is_binop s' hs' hr with h | h
            · exact h
            · exfalso
              have := (binop_prec s (op_facts hop).2.2.2.2.1 hob).1
              have hp' : ExprParse.tokPrec (.op s') = ExprParse.tokPrec (.op s) := by simpa using hp
              rw [← hp', h] at this
              exact this rfl
          | _ => cases hr
      rw [a4 (.inl hbin)]
      refine rel_bind fr (hC _ (t :: r) (e :: er) code f' (.cons hte htr') (by simp at hf ⊢; omega))
        ?_ ?_
      · intro h; rw [h]
      · intro toks1 etoks1 code1 htr1 he
        rw [he]
        have hlt := ((ExprParse.consume f').2.2.1 _ _ _ he).2 e er rfl hbin (Int.le_refl _)
        exact hI op s toks1 etoks1 code1 f' hop hob htr1 (by simp at hlt hf ⊢; omega)
    · rw [if_neg hc, if_neg hc]
      exact ⟨t :: r, e :: er, code, rfl, .cons hte htr', rfl⟩

theorem rel_fail (fr : Frame) {m : M Unit} {k : Unit → M Unit} {st st' : St}
    (hm : m st = .fail st') : Rel fr ((m >>= k) st) none := by
  rw [bind_fail hm]; rfl

theorem simC_step (fr : Frame) (hterm : fr.term.isMark "}" = true) {F : Nat} (hA : SimA fr F)
    (hI : SimI fr F) (hC : SimC fr F) : SimC fr (F + 1) := by
  intro m toks etoks code f htr hf
  obtain ⟨f', rfl⟩ : ∃ f', f = f' + 1 := ⟨f - 1, by omega⟩
  obtain ⟨_, tb, _⟩ := term_facts hterm
  unfold climb ExprParse.climb
  rw [getSt_bind]
  cases toks with
  | nil =>
    cases htr.nil_inv
    rw [Frame.S_cur_nil]
    have hc : (fr.term.isBinop && decide (fr.term.prec ≥ m)) = false := by simp [tb]
    rw [if_neg (by rw [hc]; exact Bool.false_ne_true)]
    exact ⟨[], [], code, rfl, .nil, rfl⟩
  | cons t r =>
    obtain ⟨e, er, rfl, hte, htr'⟩ := htr.cons_inv
    obtain ⟨a1, _, a3, a4⟩ := tok_agree hte
    have hcond : (t.isBinop && decide (t.prec ≥ m)) =
        (ExprParse.isBinop e && decide (ExprParse.tokPrec e ≥ m)) := by
      rw [a1]
      cases hb : ExprParse.isBinop e
      · rfl
      · rw [a4 (.inl hb)]
    rw [Frame.S_cur_cons, hcond]
    dsimp only
    by_cases hc : (ExprParse.isBinop e && decide (ExprParse.tokPrec e ≥ m)) = true
    · rw [if_pos hc, if_pos hc]
      have hbin : ExprParse.isBinop e = true := by
        simp only [Bool.and_eq_true] at hc; exact hc.1
      cases e with
      | op s =>
        obtain ⟨_, _, _, hcont, hs, _⟩ := op_facts hte
        refine rel_step fr (fr.skipToken_S r code a3) ?_
        refine rel_bind fr (hA r er code f' htr' (by simp at hf ⊢; omega)) ?_ ?_
        · intro h; rw [h]
        · intro toks1 etoks1 code1 htr1 he1
          rw [he1]
          dsimp only
          have l1 := (ExprParse.consume f').1 _ _ he1
          refine rel_bind fr (hI t s toks1 etoks1 code1 f' hte hbin htr1
            (by simp at l1 hf ⊢; omega)) ?_ ?_
          · intro h; rw [h]
          · intro toks2 etoks2 code2 htr2 he2
            rw [he2]
            dsimp only
            have l2 := (ExprParse.consume f').2.2.2 _ _ _ he2
            rw [hcont, ← (tables_agree s hs).2, doOp_eq]
            cases doOpO s with
            | none => exact rel_fail fr rfl
            | some o =>
              refine rel_step fr (fr.emit_S toks2 code2 (.op o)) ?_
              exact hC m toks2 etoks2 _ f' htr2 (by simp at l1 l2 hf ⊢; omega)
      | atom c => cases hbin
      | lparen => cases hbin
      | rparen => cases hbin
    · rw [if_neg hc, if_neg hc]
      exact ⟨t :: r, e :: er, code, rfl, .cons hte htr', rfl⟩

theorem eatom_other {s : String} (h1 : s ≠ "-") (h2 : s ≠ "+") (h3 : s ≠ "not") (f : Nat)
    (er : List ETok) (code : List Instr) : ExprParse.atom (f + 1) (.op s :: er, code) = none := by
  unfold ExprParse.atom
  split <;> simp_all

theorem eatom_lparen_some {f : Nat} {er r2 : List ETok} {code c2 : List Instr}
    (h : ExprParse.expression f (er, code) = some (.rparen :: r2, c2)) :
    ExprParse.atom (f + 1) (.lparen :: er, code) = some (r2, c2) := by
  simp [ExprParse.atom, h]

theorem eatom_lparen_none {f : Nat} {er : List ETok} {code : List Instr}
    (h : ExprParse.expression f (er, code) = none) :
    ExprParse.atom (f + 1) (.lparen :: er, code) = none := by
  simp [ExprParse.atom, h]

theorem eatom_lparen_other {f : Nat} {er es : List ETok} {code c2 : List Instr}
    (h : ExprParse.expression f (er, code) = some (es, c2)) (hne : ∀ r2, es ≠ .rparen :: r2) :
    ExprParse.atom (f + 1) (.lparen :: er, code) = none := by
  simp only [ExprParse.atom, h]
  split
  · rename_i heq
    simp only [Option.some.injEq, Prod.mk.injEq] at heq
    exact absurd heq.1 (hne _)
  · rfl

theorem eatom_minus_some {f : Nat} {er r2 : List ETok} {code c2 : List Instr}
    (h : ExprParse.atom f (er, code) = some (r2, c2)) :
    ExprParse.atom (f + 1) (.op "-" :: er, code) =
      some (r2, c2 ++ [.pushq (.int (-1)), .op .mul]) := by
  simp [ExprParse.atom, h]

theorem eatom_minus_none {f : Nat} {er : List ETok} {code : List Instr}
    (h : ExprParse.atom f (er, code) = none) :
    ExprParse.atom (f + 1) (.op "-" :: er, code) = none := by
  simp [ExprParse.atom, h]

theorem eatom_plus (f : Nat) (er : List ETok) (code : List Instr) :
    ExprParse.atom (f + 1) (.op "+" :: er, code) = ExprParse.atom f (er, code) := by
  simp [ExprParse.atom]

theorem eatom_not_some {f : Nat} {er r2 : List ETok} {code c2 : List Instr}
    (h : ExprParse.expression f (er, code) = some (r2, c2)) :
    ExprParse.atom (f + 1) (.op "not" :: er, code) = some (r2, c2 ++ [.op .not]) := by
  simp [ExprParse.atom, h]

theorem eatom_not_none {f : Nat} {er : List ETok} {code : List Instr}
    (h : ExprParse.expression f (er, code) = none) :
    ExprParse.atom (f + 1) (.op "not" :: er, code) = none := by
  simp [ExprParse.atom, h]

theorem eatom_atom (f : Nat) (c : List Instr) (er : List ETok) (code : List Instr) :
    ExprParse.atom (f + 1) (.atom c :: er, code) = some (er, code ++ c) := by
  simp [ExprParse.atom]

theorem eatom_rparen (f : Nat) (er : List ETok) (code : List Instr) :
    ExprParse.atom (f + 1) (.rparen :: er, code) = none := by
  simp [ExprParse.atom]

theorem eatom_nil (f : Nat) (code : List Instr) : ExprParse.atom (f + 1) ([], code) = none := by
  simp [ExprParse.atom]

theorem not_rparen_mark {ctx : St} {t : Tok} {e : ETok} (h : toE ctx t = some e)
    (hne : e ≠ .rparen) : t.isMark ")" = false := by
  cases e with
  | rparen => exact absurd rfl hne
  | lparen =>
    have := (toE_lparen h).1
    simp only [Tok.isMark, Bool.and_eq_true, beq_iff_eq] at this
    simp [Tok.isMark, this.2]
  | atom c => exact (toE_atom_facts h).1 _
  | op s =>
    obtain ⟨hc, hs, hcase⟩ := toE_op h
    rcases hcase with ⟨hty, hm⟩ | ⟨hty, _⟩ | ⟨hty, _⟩ | ⟨hty, _⟩ | ⟨hty, _⟩
    · have : s ≠ ")" := by
        intro h; rw [h] at hm; revert hm; decide
      simp [Tok.isMark, hc, this]
    all_goals simp [Tok.isMark, hty]

/-- a sign, as an operator token of the alphabet, is punctuation -/
theorem sign_is_mark {ctx : St} {t : Tok} {s : String} (h : toE ctx t = some (.op s))
    (hs : s = "-" ∨ s = "+") : t.ty = .mark := by
  obtain ⟨_, _, hcase⟩ := toE_op h
  rcases hcase with ⟨hty, _⟩ | ⟨_, hm⟩ | ⟨_, he⟩ | ⟨_, he⟩ | ⟨_, he⟩
  · exact hty
  · rcases hs with rfl | rfl <;> exact absurd hm (by decide)
  all_goals (rcases hs with rfl | rfl <;> exact absurd he (by decide))

theorem op_nonvalue {ctx : St} {t : Tok} {s : String} (h : toE ctx t = some (.op s))
    (h1 : s ≠ "-") (h3 : s ≠ "not") : NonValue t := by
  obtain ⟨hc, _, hcase⟩ := toE_op h
  rcases hcase with ⟨hty, hm⟩ | ⟨hty, _⟩ | ⟨hty, _⟩ | ⟨hty, _⟩ | ⟨hty, rfl⟩
  · have a : s ≠ "{" := by intro h; rw [h] at hm; revert hm; decide
    have b : s ≠ "[" := by intro h; rw [h] at hm; revert hm; decide
    exact ⟨.inl hty, by simp [Tok.isMark, hc, a], by simp [Tok.isMark, hc, b],
      by simp [Tok.isMark, hc, h1]⟩
  · exact ⟨.inr (.inl hty), by simp [Tok.isMark, hty], by simp [Tok.isMark, hty],
      by simp [Tok.isMark, hty]⟩
  · exact ⟨.inr (.inr (.inl hty)), by simp [Tok.isMark, hty], by simp [Tok.isMark, hty],
      by simp [Tok.isMark, hty]⟩
  · exact ⟨.inr (.inr (.inr hty)), by simp [Tok.isMark, hty], by simp [Tok.isMark, hty],
      by simp [Tok.isMark, hty]⟩
  · exact absurd rfl h3

/-- `_rvalue(PUSH)` at a token that is no value, whatever the fuel -/
theorem rel_rvalue_nonvalue (fr : Frame) {st : St} (h : NonValue st.cur) (F : Nat) :
    Rel fr (rvalue F .push .main st) none := by
  cases F with
  | zero => unfold rvalue; trivial
  | succ F => rw [rvalue_nonvalue_fails h F]; rfl

theorem simA_step (fr : Frame) (hterm : fr.term.isMark "}" = true) {F : Nat} (hE : SimE fr F)
    (hA : SimA fr F) (hE' : ∀ F0, F = F0 + 1 → SimE fr F0) : SimA fr (F + 1) := by
  intro toks etoks code f htr hf
  obtain ⟨f', rfl⟩ : ∃ f', f = f' + 1 := ⟨f - 1, by omega⟩
  obtain ⟨tnv, _, _, tl, tr, tp, tm, _⟩ := term_facts hterm
  unfold atom
  rw [getSt_bind]
  cases toks with
  | nil =>
    cases htr.nil_inv
    rw [Frame.S_cur_nil]
    simp only [tl, tp, tm, Bool.or_self, Bool.false_eq_true, if_false]
    rw [eatom_nil]
    exact rel_rvalue_nonvalue fr tnv F
  | cons t r =>
    obtain ⟨e, er, rfl, hte, htr'⟩ := htr.cons_inv
    rw [Frame.S_cur_cons]
    cases e with
    | lparen =>
      obtain ⟨h1, h2, _⟩ := toE_lparen hte
      simp only [h1, if_true]
      refine rel_step fr (fr.skipToken_S r code h2) ?_
      refine rel_bind fr (hE r er code f' htr' (by simp at hf ⊢; omega)) ?_ ?_
      · intro h; exact eatom_lparen_none h
      · intro toks1 etoks1 code1 htr1 he1
        rw [getSt_bind]
        cases toks1 with
        | nil =>
          cases htr1.nil_inv
          rw [Frame.S_cur_nil]
          simp only [tr, Bool.not_false, if_true]
          rw [eatom_lparen_other he1 (fun _ h => by cases h)]
          exact rel_fail fr rfl
        | cons t1 r1 =>
          obtain ⟨e1, er1, rfl, hte1, htr1'⟩ := htr1.cons_inv
          rw [Frame.S_cur_cons]
          by_cases hr : e1 = .rparen
          · subst hr
            obtain ⟨g1, g2, _⟩ := toE_rparen hte1
            simp only [g1, Bool.not_true, Bool.false_eq_true, if_false]
            rw [fr.nextToken_S r1 code1 g2, eatom_lparen_some he1]
            exact ⟨r1, er1, code1, rfl, htr1', rfl⟩
          · simp only [not_rparen_mark hte1 hr, Bool.not_false, if_true]
            rw [eatom_lparen_other he1 (fun _ h => by cases h; exact hr rfl)]
            exact rel_fail fr rfl
    | rparen =>
      obtain ⟨_, _, _, _, g1, g2, g3, g4⟩ := toE_rparen hte
      simp only [g1, g2, g3, Bool.or_self, Bool.false_eq_true, if_false]
      rw [eatom_rparen]
      exact rel_rvalue_nonvalue fr g4 F
    | atom c =>
      obtain ⟨g1, _⟩ := toE_atom_facts hte
      simp only [g1, Bool.or_self, Bool.false_eq_true, if_false]
      cases F with
      | zero => unfold rvalue; trivial
      | succ F0 =>
        rw [rvalue_atom_tok fr r code F0 hte, eatom_atom]
        exact ⟨r, er, code ++ c, rfl, htr', rfl⟩
    | op s =>
      obtain ⟨_, _, _, hcont, hs, hne, m1, m2, m3⟩ := op_facts hte
      simp only [m1, m2, m3, Bool.false_eq_true, if_false]
      by_cases hminus : s = "-"
      · subst hminus
        have hty := sign_is_mark hte (.inl rfl)
        simp only [hty, beq_self_eq_true, Bool.true_and, Bool.or_true, if_true]
        refine rel_step fr (fr.skipToken_S r code hne) ?_
        refine rel_bind fr (hA r er code f' htr' (by simp at hf ⊢; omega)) ?_ ?_
        · intro h; exact eatom_minus_none h
        · intro toks1 etoks1 code1 htr1 he1
          rw [eatom_minus_some he1, fr.emitList_S]
          exact ⟨toks1, etoks1, _, rfl, htr1, rfl⟩
      · by_cases hplus : s = "+"
        · subst hplus
          have hty := sign_is_mark hte (.inr rfl)
          simp only [hty, beq_self_eq_true, Bool.true_and, Bool.true_or, if_true]
          refine rel_step fr (fr.skipToken_S r code hne) ?_
          rw [eatom_plus]
          refine rel_bind fr (hA r er code f' htr' (by simp at hf ⊢; omega)) ?_ ?_
          · intro h; exact h
          · intro toks1 etoks1 code1 htr1 he1
            rw [he1]
            exact ⟨toks1, etoks1, _, rfl, htr1, rfl⟩
        · have e1 : (s == "+") = false := by simpa using hplus
          have e2 : (s == "-") = false := by simpa using hminus
          simp only [e1, e2, Bool.and_false, Bool.or_self, Bool.false_eq_true, if_false]
          by_cases hnot : s = "not"
          · subst hnot
            cases F with
            | zero => unfold rvalue; trivial
            | succ F0 =>
              have hty : t.ty = .not_ := by
                obtain ⟨_, _, hcase⟩ := toE_op hte
                rcases hcase with ⟨_, hm⟩ | ⟨_, hm⟩ | ⟨_, he⟩ | ⟨_, he⟩ | ⟨hty, _⟩
                · exact absurd hm (by decide)
                · exact absurd hm (by decide)
                · exact absurd he (by decide)
                · exact absurd he (by decide)
                · exact hty
              have hm : ∀ m, t.isMark m = false := fun m => by simp [Tok.isMark, hty]
              unfold rvalue
              rw [getSt_bind, Frame.S_cur_cons]
              simp only [hm, Bool.false_eq_true, if_false]
              rw [bind_ok (rvalueSimple_not .push .main (st := fr.S (t :: r) code) hty)]
              simp only [Bool.false_eq_true, if_false]
              refine rel_step fr (fr.skipToken_S r code hne) ?_
              refine rel_bind fr (hE' F0 rfl r er code f' htr' (by simp at hf ⊢; omega)) ?_ ?_
              · intro h; exact eatom_not_none h
              · intro toks1 etoks1 code1 htr1 he1
                rw [eatom_not_some he1]
                have : emitTo .main (.op .not) (fr.S toks1 code1) =
                    .ok () (fr.S toks1 (code1 ++ [.op .not])) := fr.emit_S toks1 code1 _
                rw [bind_ok this]
                exact ⟨toks1, etoks1, _, rfl, htr1, rfl⟩
          · rw [eatom_other hminus hplus hnot]
            exact rel_rvalue_nonvalue fr (op_nonvalue hte hminus hnot) F

theorem sim_all (fr : Frame) (hterm : fr.term.isMark "}" = true) :
    ∀ F, SimA fr F ∧ SimE fr F ∧ SimC fr F ∧ SimI fr F := by
  intro F
  induction F using Nat.strongRecOn with
  | _ F ih =>
    cases F with
    | zero =>
      refine ⟨?_, ?_, ?_, ?_⟩
      · intro toks etoks code f _ _; unfold atom; trivial
      · intro toks etoks code f _ _; unfold expression; trivial
      · intro m toks etoks code f _ _; unfold climb; trivial
      · intro op s toks etoks code f _ _ _ _; unfold inner; trivial
    | succ F =>
      obtain ⟨hA, hE, hC, hI⟩ := ih F (Nat.lt_succ_self F)
      exact ⟨simA_step fr hterm hE hA (fun F0 h => (ih F0 (by omega)).2.1),
        simE_step fr hA hC, simC_step fr hterm hA hI hC, simI_step fr hterm hC hI⟩

end Bardolph.ParseTok
