import Bardolph.Model.Gen
import Bardolph.Model.Sem
import Bardolph.Proofs.VmSteps
import Bardolph.Proofs.SemSteps
import Bardolph.Props.C02
import Bardolph.Props.C03
/-!
Helpers for the compiler-correctness (simulation) theorem C01 (`Props/C01Sim.lean`).

* `View`: a VM state seen from the source level — the control components (`pc`, frame stack,
  evaluation stack, pending output values) and the scratch register `result` belong to the
  generated code, everything else is what the source semantics talks about.  Every command
  handler the source semantics shares with the VM (`doColor`, `doPower`, `doGetColor`,
  `switchMode`, `WAIT`, `MATRIX`) commutes with `View` and never halts the machine.
* `SimU`/`Sim`: the simulation relation.
* `Exec`: "the machine, started in `s`, reaches a state satisfying `P`".
* one small simulation lemma per instruction group the generator emits.
-/
namespace Bardolph
namespace Sim
open Vm VmSteps Sem Gen

/-- `s` seen from the source level: the control components are somebody else's -/
def View (s : State) (pc : Int) (stk : List Frame) (ev un : List Val) (rv : Val) : State :=
  { s with pc := pc, stack := stk, eval := ev, unnamed := un,
           regs := fun r => if r = .result then rv else s.regs r }

variable (s : State) (pc : Int) (stk : List Frame) (ev un : List Val) (rv : Val)

@[simp] theorem View_regs (r : Reg) (h : r ≠ .result) : (View s pc stk ev un rv).regs r = s.regs r := by
  simp [View, h]
@[simp] theorem View_lights : (View s pc stk ev un rv).lights = s.lights := rfl
@[simp] theorem View_matrix : (View s pc stk ev un rv).matrix = s.matrix := rfl
@[simp] theorem View_defaultColor : (View s pc stk ev un rv).defaultColor = s.defaultColor := rfl
@[simp] theorem View_trace : (View s pc stk ev un rv).trace = s.trace := rfl
@[simp] theorem View_status : (View s pc stk ev un rv).status = s.status := rfl
@[simp] theorem View_mode : (View s pc stk ev un rv).mode = s.mode := by
  simp [State.mode]
@[simp] theorem View_getColor : (View s pc stk ev un rv).getColor = s.getColor := by
  simp [State.getColor]
@[simp] theorem View_asRawColor (c) : (View s pc stk ev un rv).asRawColor c = s.asRawColor c := by
  simp [State.asRawColor]
@[simp] theorem View_asRawTime (c) : (View s pc stk ev un rv).asRawTime c = s.asRawTime c := by
  simp [State.asRawTime]
@[simp] theorem View_light? (c) : (View s pc stk ev un rv).light? c = s.light? c := by
  cases c <;> simp [State.light?]
@[simp] theorem View_groupLights (c) : (View s pc stk ev un rv).groupLights c = s.groupLights c := by
  simp [State.groupLights]
@[simp] theorem View_locationLights (c) : (View s pc stk ev un rv).locationLights c = s.locationLights c := by
  simp [State.locationLights]
@[simp] theorem View_powerLevel : (View s pc stk ev un rv).powerLevel = s.powerLevel := by
  simp [State.powerLevel]

theorem View_emit (e) : (View s pc stk ev un rv).emit e = View (s.emit e) pc stk ev un rv := rfl
theorem View_fault (e) : (View s pc stk ev un rv).fault e = View (s.fault e) pc stk ev un rv := rfl
theorem View_updLight (n f) : (View s pc stk ev un rv).updLight n f = View (s.updLight n f) pc stk ev un rv := rfl
theorem View_setReg (r v) (h : r ≠ .result) :
    (View s pc stk ev un rv).setReg r v = View (s.setReg r v) pc stk ev un rv := by
  simp only [View, State.setReg]
  congr 1
  funext r'
  by_cases h1 : r' = .result <;> by_cases h2 : r' = r <;> simp_all

theorem View_sendColor (n raw dur) :
    (View s pc stk ev un rv).sendColor n raw dur = View (s.sendColor n raw dur) pc stk ev un rv := by
  simp only [State.sendColor]
  split <;> rfl

theorem View_sendPower (n p dur) :
    (View s pc stk ev un rv).sendPower n p dur = View (s.sendPower n p dur) pc stk ev un rv := by
  simp only [State.sendPower]
  split <;> rfl


theorem View_foldColor (names : List String) (raw dur) :
    names.foldl (fun st n => if st.status == .running then st.sendColor n raw dur else st)
      (View s pc stk ev un rv) =
    View (names.foldl (fun st n => if st.status == .running then st.sendColor n raw dur else st) s)
      pc stk ev un rv := by
  induction names generalizing s with
  | nil => rfl
  | cons n rest ih =>
    simp only [List.foldl_cons]
    by_cases h : (s.status == Status.running) = true
    · have h' : ((View s pc stk ev un rv).status == Status.running) = true := h
      rw [if_pos h, if_pos h', View_sendColor, ih]
    · have h' : ¬ ((View s pc stk ev un rv).status == Status.running) = true := h
      rw [if_neg h, if_neg h', ih]

theorem View_colorMultiple (names) :
    (View s pc stk ev un rv).colorMultiple names = View (s.colorMultiple names) pc stk ev un rv := by
  simp only [State.colorMultiple, View_asRawColor, View_getColor, View_asRawTime,
    View_regs _ _ _ _ _ _ .duration (by decide)]
  split
  · exact View_foldColor ..
  · rfl

theorem View_foldPower (names : List String) (p dur) :
    names.foldl (fun st n => if st.status == .running then st.sendPower n p dur else st)
      (View s pc stk ev un rv) =
    View (names.foldl (fun st n => if st.status == .running then st.sendPower n p dur else st) s)
      pc stk ev un rv := by
  induction names generalizing s with
  | nil => rfl
  | cons n rest ih =>
    simp only [List.foldl_cons]
    by_cases h : (s.status == Status.running) = true
    · have h' : ((View s pc stk ev un rv).status == Status.running) = true := h
      rw [if_pos h, if_pos h', View_sendPower, ih]
    · have h' : ¬ ((View s pc stk ev un rv).status == Status.running) = true := h
      rw [if_neg h, if_neg h', ih]

theorem View_powerMultiple (names) :
    (View s pc stk ev un rv).powerMultiple names = View (s.powerMultiple names) pc stk ev un rv := by
  simp only [State.powerMultiple, View_asRawTime, View_powerLevel,
    View_regs _ _ _ _ _ _ .duration (by decide)]
  split
  · exact View_foldPower ..
  · rfl

theorem View_doColor : (View s pc stk ev un rv).doColor = View s.doColor pc stk ev un rv := by
  unfold State.doColor
  simp only [View_asRawColor, View_getColor, View_asRawTime, View_light?, View_groupLights,
    View_locationLights, View_matrix, View_defaultColor, View_colorMultiple,
    View_regs _ _ _ _ _ _ .duration (by decide), View_regs _ _ _ _ _ _ .operand (by decide),
    View_regs _ _ _ _ _ _ .name (by decide), View_regs _ _ _ _ _ _ .firstRow (by decide),
    View_regs _ _ _ _ _ _ .lastRow (by decide), View_regs _ _ _ _ _ _ .firstColumn (by decide),
    View_regs _ _ _ _ _ _ .lastColumn (by decide), View_regs _ _ _ _ _ _ .firstZone (by decide),
    View_regs _ _ _ _ _ _ .lastZone (by decide)]
  repeat' split
  all_goals rfl


theorem View_doPower : (View s pc stk ev un rv).doPower = View s.doPower pc stk ev un rv := by
  unfold State.doPower
  simp only [View_asRawTime, View_light?, View_groupLights, View_powerLevel,
    View_locationLights, View_powerMultiple, View_lights,
    View_regs _ _ _ _ _ _ .duration (by decide), View_regs _ _ _ _ _ _ .operand (by decide),
    View_regs _ _ _ _ _ _ .name (by decide), View_regs _ _ _ _ _ _ .power (by decide)]
  repeat' split
  all_goals rfl

theorem View_storeColor (c) :
    (View s pc stk ev un rv).storeColor c = View (s.storeColor c) pc stk ev un rv := by
  unfold State.storeColor
  split
  · simp only [View_mode]
    split <;> simp only [View_setReg _ _ _ _ _ _ _ _ (by decide : Reg.red ≠ .result),
      View_setReg _ _ _ _ _ _ _ _ (by decide : Reg.green ≠ .result),
      View_setReg _ _ _ _ _ _ _ _ (by decide : Reg.blue ≠ .result),
      View_setReg _ _ _ _ _ _ _ _ (by decide : Reg.kelvin ≠ .result),
      View_setReg _ _ _ _ _ _ _ _ (by decide : Reg.hue ≠ .result),
      View_setReg _ _ _ _ _ _ _ _ (by decide : Reg.saturation ≠ .result),
      View_setReg _ _ _ _ _ _ _ _ (by decide : Reg.brightness ≠ .result)]
  · rfl

theorem View_doGetColor : (View s pc stk ev un rv).doGetColor = View s.doGetColor pc stk ev un rv := by
  unfold State.doGetColor
  simp only [View_light?, View_regs _ _ _ _ _ _ .name (by decide), View_emit, View_mode,
    View_storeColor, View_fault]
  repeat' split
  all_goals rfl

theorem View_switchMode (m) :
    (View s pc stk ev un rv).switchMode m = View (s.switchMode m) pc stk ev un rv := by
  unfold State.switchMode
  simp only [View_mode, View_getColor, View_asRawTime, View_fault, View_storeColor,
    View_setReg _ _ _ _ _ _ _ _ (by decide : Reg.unitMode ≠ .result),
    View_setReg _ _ _ _ _ _ _ _ (by decide : Reg.duration ≠ .result),
    View_setReg _ _ _ _ _ _ _ _ (by decide : Reg.time ≠ .result),
    View_regs _ _ _ _ _ _ .duration (by decide), View_regs _ _ _ _ _ _ .time (by decide)]
  repeat' split
  all_goals rfl

theorem View_wait (img img' : Image) :
    execInstr img (View s pc stk ev un rv) .wait = View (execInstr img' s .wait) pc stk ev un rv := by
  simp only [execInstr, View_mode, View_regs _ _ _ _ _ _ .time (by decide)]
  repeat' split
  all_goals rfl

theorem View_matrixI (img img' : Image) :
    execInstr img (View s pc stk ev un rv) .matrix = View (execInstr img' s .matrix) pc stk ev un rv := by
  simp only [execInstr, View_light?, View_regs _ _ _ _ _ _ .name (by decide)]
  repeat' split
  all_goals rfl


/-! ### the handlers never halt the machine -/

theorem nh_setReg (r v) (h : s.status ≠ .halted) : (s.setReg r v).status ≠ .halted := h
theorem nh_sendColor (n raw dur) (h : s.status ≠ .halted) : (s.sendColor n raw dur).status ≠ .halted := by
  simp only [State.sendColor]; split <;> simp [State.emit, State.updLight, State.fault, h]
theorem nh_sendPower (n p dur) (h : s.status ≠ .halted) : (s.sendPower n p dur).status ≠ .halted := by
  simp only [State.sendPower]; split <;> simp [State.emit, State.updLight, State.fault, h]

theorem nh_foldColor (names : List String) (raw dur) (h : s.status ≠ .halted) :
    (names.foldl (fun st n => if st.status == .running then st.sendColor n raw dur else st) s).status
      ≠ .halted := by
  induction names generalizing s with
  | nil => exact h
  | cons n rest ih =>
    simp only [List.foldl_cons]
    split
    · exact ih _ (nh_sendColor _ _ _ _ h)
    · exact ih _ h

theorem nh_foldPower (names : List String) (p dur) (h : s.status ≠ .halted) :
    (names.foldl (fun st n => if st.status == .running then st.sendPower n p dur else st) s).status
      ≠ .halted := by
  induction names generalizing s with
  | nil => exact h
  | cons n rest ih =>
    simp only [List.foldl_cons]
    split
    · exact ih _ (nh_sendPower _ _ _ _ h)
    · exact ih _ h

theorem nh_colorMultiple (names) (h : s.status ≠ .halted) : (s.colorMultiple names).status ≠ .halted := by
  simp only [State.colorMultiple]
  split
  · exact nh_foldColor _ _ _ _ h
  · simp [State.fault]

theorem nh_powerMultiple (names) (h : s.status ≠ .halted) : (s.powerMultiple names).status ≠ .halted := by
  simp only [State.powerMultiple]
  split
  · exact nh_foldPower _ _ _ _ h
  · simp [State.fault]


theorem nh_doColor (h : s.status ≠ .halted) : s.doColor.status ≠ .halted := by
  unfold State.doColor
  repeat' split
  all_goals try exact nh_colorMultiple _ _ h
  all_goals try simp only [State.emit, State.fault]
  all_goals repeat' split
  all_goals simp [h]

theorem nh_doPower (h : s.status ≠ .halted) : s.doPower.status ≠ .halted := by
  unfold State.doPower
  repeat' split
  all_goals try exact nh_powerMultiple _ _ h
  all_goals try simp only [State.emit, State.fault]
  all_goals repeat' split
  all_goals simp [h]

theorem storeColor_status (c) : (s.storeColor c).status = s.status := by
  unfold State.storeColor
  repeat' split
  all_goals rfl

theorem nh_doGetColor (h : s.status ≠ .halted) : s.doGetColor.status ≠ .halted := by
  unfold State.doGetColor
  repeat' split
  all_goals try simp only [State.emit, State.fault]
  all_goals repeat' split
  all_goals simp [storeColor_status, h]

theorem nh_switchMode (m) (h : s.status ≠ .halted) : (s.switchMode m).status ≠ .halted := by
  unfold State.switchMode
  simp only []
  repeat' split
  all_goals simp [State.fault, State.setReg, storeColor_status, h]

theorem nh_wait (img : Image) (h : s.status ≠ .halted) : (execInstr img s .wait).status ≠ .halted := by
  simp only [execInstr]
  repeat' split
  all_goals simp [State.emit, State.fault, h]

theorem nh_matrixI (img : Image) (h : s.status ≠ .halted) : (execInstr img s .matrix).status ≠ .halted := by
  simp only [execInstr]
  repeat' split
  all_goals simp [State.emit, h]


/-! ### a state is its own view; what a handler that commutes with `View` leaves alone -/

theorem View_self (s : State) : View s s.pc s.stack s.eval s.unnamed (s.regs .result) = s := by
  apply State.ext' <;> try rfl
  funext r
  by_cases h : r = .result <;> simp [View, h]

/-- what the model needs of the registers: the unit-mode register holds a unit mode (the code of
`cycle` loops tests it), and lights are discovered backwards (`disc_forward` is false, as the
machine initialises it; no instruction of generated code changes it) -/
def RegsOk (regs : Reg → Val) : Prop :=
  (∃ m, regs .unitMode = .mode m) ∧ (regs .discForward).truthy = false

/-- the registers a script may set with a register statement: not the unit mode (that is the
`units` statement) and not the discovery direction (which the language cannot name) -/
abbrev SettableReg (r : Reg) : Prop := r ≠ .unitMode ∧ r ≠ .discForward

theorem RegsOk.setReg {regs : Reg → Val} (h : RegsOk regs) {r : Reg} (hr : SettableReg r) (v : Val) :
    RegsOk (fun r' => if r' = r then v else regs r') := by
  unfold RegsOk
  simp only [if_neg (Ne.symm hr.1), if_neg (Ne.symm hr.2)]
  exact h

theorem RegsOk.setResult {regs : Reg → Val} (h : RegsOk regs) (v : Val) :
    RegsOk (fun r' => if r' = .result then v else regs r') := h.setReg (by decide) v

/-- a command handler: acts on the device part only -/
structure Handler (h : State → State) : Prop where
  view : ∀ s pc stk ev un rv, h (View s pc stk ev un rv) = View (h s) pc stk ev un rv
  nohalt : ∀ s, s.status ≠ .halted → (h s).status ≠ .halted
  umode : ∀ s, RegsOk s.regs → RegsOk (h s).regs

theorem Handler.frame {h : State → State} (hh : Handler h) (s : State) :
    (h s).pc = s.pc ∧ (h s).stack = s.stack ∧ (h s).eval = s.eval ∧ (h s).unnamed = s.unnamed ∧
    (h s).regs .result = s.regs .result := by
  have := hh.view s s.pc s.stack s.eval s.unnamed (s.regs .result)
  rw [View_self] at this
  refine ⟨?_, ?_, ?_, ?_, ?_⟩ <;> (rw [this]; simp [View])

/-! ### the handlers leave a unit mode in the unit-mode register -/

theorem sendColor_regs (n raw dur) : (s.sendColor n raw dur).regs = s.regs := by
  simp only [State.sendColor]; split <;> rfl
theorem sendPower_regs (n p dur) : (s.sendPower n p dur).regs = s.regs := by
  simp only [State.sendPower]; split <;> rfl

theorem foldColor_regs (names : List String) (raw dur) :
    (names.foldl (fun st n => if st.status == .running then st.sendColor n raw dur else st) s).regs
      = s.regs := by
  induction names generalizing s with
  | nil => rfl
  | cons n rest ih =>
    simp only [List.foldl_cons]
    split
    · rw [ih, sendColor_regs]
    · rw [ih]

theorem foldPower_regs (names : List String) (p dur) :
    (names.foldl (fun st n => if st.status == .running then st.sendPower n p dur else st) s).regs
      = s.regs := by
  induction names generalizing s with
  | nil => rfl
  | cons n rest ih =>
    simp only [List.foldl_cons]
    split
    · rw [ih, sendPower_regs]
    · rw [ih]

theorem colorMultiple_regs (names) : (s.colorMultiple names).regs = s.regs := by
  simp only [State.colorMultiple]
  split
  · exact foldColor_regs ..
  · rfl

theorem powerMultiple_regs (names) : (s.powerMultiple names).regs = s.regs := by
  simp only [State.powerMultiple]
  split
  · exact foldPower_regs ..
  · rfl

theorem doColor_regs : s.doColor.regs = s.regs := by
  unfold State.doColor
  repeat' split
  all_goals try exact colorMultiple_regs _ _
  all_goals try simp only [State.emit, State.fault]
  all_goals repeat' split
  all_goals rfl

theorem doPower_regs : s.doPower.regs = s.regs := by
  unfold State.doPower
  repeat' split
  all_goals try exact powerMultiple_regs _ _
  all_goals try simp only [State.emit, State.fault]
  all_goals repeat' split
  all_goals rfl

theorem storeColor_umode (c) : (s.storeColor c).regs .unitMode = s.regs .unitMode ∧
    (s.storeColor c).regs .discForward = s.regs .discForward := by
  unfold State.storeColor
  repeat' split
  all_goals simp [State.setReg]

theorem doGetColor_umode : s.doGetColor.regs .unitMode = s.regs .unitMode ∧
    s.doGetColor.regs .discForward = s.regs .discForward := by
  unfold State.doGetColor
  repeat' split
  all_goals try simp only []
  all_goals repeat' split
  all_goals first | exact ⟨rfl, rfl⟩ | (rw [(storeColor_umode _ _).1, (storeColor_umode _ _).2]; exact ⟨rfl, rfl⟩)

theorem switchMode_umode (m) (h : RegsOk s.regs) : RegsOk (s.switchMode m).regs := by
  unfold State.switchMode
  simp only []
  repeat' split
  all_goals first
    | exact h
    | exact ⟨⟨m, by simp [State.setReg, State.fault, (storeColor_umode _ _).1]⟩,
        by simpa [State.setReg, State.fault, (storeColor_umode _ _).2] using h.2⟩

theorem wait_regs (img : Image) : (execInstr img s .wait).regs = s.regs := by
  simp only [execInstr]
  repeat' split
  all_goals rfl

theorem matrixI_regs (img : Image) : (execInstr img s .matrix).regs = s.regs := by
  simp only [execInstr]
  repeat' split
  all_goals rfl

theorem handler_doColor : Handler State.doColor :=
  ⟨View_doColor, nh_doColor, fun s h => by rw [doColor_regs]; exact h⟩
theorem handler_doPower : Handler State.doPower :=
  ⟨View_doPower, nh_doPower, fun s h => by rw [doPower_regs]; exact h⟩
theorem handler_doGetColor : Handler State.doGetColor :=
  ⟨View_doGetColor, nh_doGetColor, fun s h => by
    unfold RegsOk; rw [(doGetColor_umode s).1, (doGetColor_umode s).2]; exact h⟩
theorem handler_switchMode (m : UnitMode) : Handler (fun s => s.switchMode m) :=
  ⟨fun s pc stk ev un rv => View_switchMode s pc stk ev un rv m, fun s => nh_switchMode s m,
    fun s h => switchMode_umode s m h⟩
theorem handler_wait (img : Image) : Handler (fun s => execInstr img s .wait) :=
  ⟨fun s pc stk ev un rv => View_wait s pc stk ev un rv img img, fun s => nh_wait s img,
    fun s h => by rw [wait_regs]; exact h⟩
theorem handler_matrix (img : Image) : Handler (fun s => execInstr img s .matrix) :=
  ⟨fun s pc stk ev un rv => View_matrixI s pc stk ev un rv img img, fun s => nh_matrixI s img,
    fun s h => by rw [matrixI_regs]; exact h⟩

/-! ### the simulation relation -/

/-- where the code runs: at top level (`ret = none`), or inside a routine call that will return
to address `ret` with the frames `rest` of the caller left on the stack and the caller's
evaluation stack `ev` as it was at the call (`some (ret, rest, ev)`); and the routines defined in
the script -/
structure Ctx where
  ret : Option (Nat × List Frame × List Val) := none
  routines : List (String × Sem.Routine) := []

/-- the evaluation stack on entry of the current activation (what a `return` restores) -/
def Ctx.base (K : Ctx) : List Val :=
  match K.ret with
  | some (_, _, e) => e
  | none => []

/-- the frames below the loop frames of the current activation -/
def baseOf (K : Ctx) (loc : Option Dict) : List Frame :=
  match K.ret, loc with
  | some (ret, rest, _), some d => .call d ret :: rest
  | _, _ => []

/-- the control stacks of the current activation as the generated code sees them between two
statements: its loop frames (innermost first) and the evaluation stack -/
structure Stk where
  frames : List Frame := []
  ev : List Val := []

/-- one more loop frame, same evaluation stack -/
def Stk.cons (f : Frame) (k : Stk) : Stk := ⟨f :: k.frames, k.ev⟩

@[inherit_doc] infixr:67 " ::: " => Stk.cons

@[simp] theorem Stk.cons_frames (f : Frame) (k : Stk) : (f ::: k).frames = f :: k.frames := rfl
@[simp] theorem Stk.cons_ev (f : Frame) (k : Stk) : (f ::: k).ev = k.ev := rfl

/-- the evaluation stack is what the loop frames recorded: below the values pushed since the
innermost `LOOP` (the names a loop over lights has still to visit) lies the stack as it was at that
`LOOP`, whose height the frame holds; at the bottom lies `base`, the stack on entry of the
activation -/
inductive EvOk (base : List Val) : List Frame → List Val → Prop
  | nil : EvOk base [] base
  | loop {frames : List Frame} {ev : List Val} (vars : List (LoopVar × Val)) (extra : List Val) :
      EvOk base frames ev → EvOk base (.loop vars ev.length :: frames) (extra ++ ev)

theorem EvOk.loopsOnly {base : List Val} {frames : List Frame} {ev : List Val} (h : EvOk base frames ev) :
    LoopsOnly frames := by
  induction h with
  | nil => exact LoopsOnly.nil
  | loop vars extra _ ih =>
    intro f hf
    simp only [List.mem_cons] at hf
    rcases hf with rfl | hf
    · rfl
    · exact ih f hf

theorem EvOk.inv {base : List Val} {frames : List Frame} {ev : List Val} {vars : List (LoopVar × Val)}
    {ht : Nat} (h : EvOk base (.loop vars ht :: frames) ev) :
    ∃ extra ev0, ev = extra ++ ev0 ∧ ht = ev0.length ∧ EvOk base frames ev0 := by
  cases h with
  | loop vars extra h0 => exact ⟨extra, _, rfl, rfl, h0⟩

/-- the hidden variables of the innermost loop may change -/
theorem EvOk.retop {base : List Val} {frames : List Frame} {ev : List Val} {vars : List (LoopVar × Val)}
    {ht : Nat} (h : EvOk base (.loop vars ht :: frames) ev) (vars' : List (LoopVar × Val)) :
    EvOk base (.loop vars' ht :: frames) ev := by
  obtain ⟨extra, ev0, rfl, rfl, h0⟩ := h.inv
  exact .loop vars' extra h0

/-- values may be pushed inside the innermost loop -/
theorem EvOk.push {base : List Val} {frames : List Frame} {ev : List Val} {vars : List (LoopVar × Val)}
    {ht : Nat} (h : EvOk base (.loop vars ht :: frames) ev) (x : Val) :
    EvOk base (.loop vars ht :: frames) (x :: ev) := by
  obtain ⟨extra, ev0, rfl, rfl, h0⟩ := h.inv
  exact .loop vars (x :: extra) h0

theorem EvOk.height_le {base : List Val} {frames : List Frame} {ev : List Val} (h : EvOk base frames ev) :
    ∀ vars ht, Frame.loop vars ht ∈ frames → ht ≤ ev.length := by
  induction h with
  | nil => intro vars ht hm; simp at hm
  | @loop frames ev vars extra _ ih =>
    intro vars' ht hm
    simp only [List.mem_cons, Frame.loop.injEq] at hm
    rcases hm with ⟨_, rfl⟩ | hm
    · simp
    · have := ih vars' ht hm
      simp only [List.length_append]; omega

theorem trimEval_append (extra ev : List Val) (h : Nat) (hh : h ≤ ev.length) :
    trimEval (extra ++ ev) h = trimEval ev h := by
  simp only [trimEval, List.length_append]
  have : extra.length + ev.length - h = extra.length + (ev.length - h) := by omega
  rw [this, List.drop_append]
  simp

theorem trimEval_self (ev : List Val) : trimEval ev ev.length = ev := by simp [trimEval]

/-- what a `return` leaves on the evaluation stack: the stack on entry of the activation -/
theorem EvOk.unwind {base : List Val} {frames : List Frame} {ev : List Val} (h : EvOk base frames ev) :
    (match frames.getLast? with
      | some (.loop _ hh) => trimEval ev hh
      | _ => ev) = base := by
  induction h with
  | nil => rfl
  | @loop frames ev vars extra h0 ih =>
    cases frames with
    | nil =>
      cases h0
      simp only [List.getLast?_singleton]
      rw [trimEval_append _ _ _ (Nat.le_refl _), trimEval_self]
    | cons f rest =>
      rw [List.getLast?_cons_cons]
      have hl := h0.loopsOnly
      cases hg : (f :: rest).getLast? with
      | none => simp at hg
      | some g =>
        have hmem : g ∈ f :: rest := List.mem_of_getLast? hg
        rw [hg] at ih
        cases g with
        | loop v hh =>
          simp only at ih ⊢
          rw [trimEval_append _ _ _ (h0.height_le v hh hmem)]
          exact ih
        | pending _ => exact absurd (hl _ hmem) (by simp [Frame.isLoop])
        | call _ _ => exact absurd (hl _ hmem) (by simp [Frame.isLoop])

/-- `σ` (source level) and `s` (machine) agree, between two statements of code that runs in
context `K` inside the loops whose frames are `stk.frames`, with evaluation stack `stk.ev` (the names
loops over lights have still to visit, operands of an expression under evaluation in a caller) and
with `un` the values waiting for a `printf`.
Everything the source semantics talks about is related by equality; the machine's `result`
register is scratch (conditions, printed values, arguments pass through it). -/
structure SimU (K : Ctx) (stk : Stk) (un : List Val) (σ : S) (s : State) : Prop where
  running : s.status = .running
  stack : s.stack = stk.frames ++ baseOf K σ.locals
  loops : LoopsOnly stk.frames
  eval : s.eval = stk.ev
  evok : EvOk K.base stk.frames stk.ev
  unnamed : s.unnamed = un
  locals : K.ret.isSome = σ.locals.isSome ∧ σ.routines = K.routines
  status : σ.vm.status = .running
  umode : RegsOk σ.vm.regs
  globals : σ.vm.globals = s.globals
  constants : σ.vm.constants = s.constants
  lights : σ.vm.lights = s.lights
  trace : σ.vm.trace = s.trace
  defaultColor : σ.vm.defaultColor = s.defaultColor
  matrix : σ.vm.matrix = s.matrix
  draws : σ.vm.draws = s.draws
  regs : ∀ r, r ≠ .result → σ.vm.regs r = s.regs r

abbrev Sim (K : Ctx) (stk : Stk) (σ : S) (s : State) : Prop := SimU K stk [] σ s

variable {K : Ctx} {stk : Stk} {un : List Val} {σ : S} {s : State}

theorem SimU.view (h : SimU K stk un σ s) :
    σ.vm = View s σ.vm.pc σ.vm.stack σ.vm.eval σ.vm.unnamed (σ.vm.regs .result) := by
  apply State.ext' <;> try rfl
  · funext r
    by_cases hr : r = .result
    · simp [View, hr]
    · simp [View, hr, h.regs r hr]
  · exact h.defaultColor
  · exact h.matrix
  · exact h.globals
  · exact h.constants
  · exact h.lights
  · exact h.trace
  · rw [h.status]; exact h.running.symm
  · exact h.draws

theorem SimU.of_view {σ' : S} {t : State} {pc stk' ev un' rv}
    (hr : t.status = .running) (hs : t.stack = stk.frames ++ baseOf K σ'.locals) (hl : LoopsOnly stk.frames)
    (he : t.eval = stk.ev) (hok : EvOk K.base stk.frames stk.ev)
    (hu : t.unnamed = un) (hloc : K.ret.isSome = σ'.locals.isSome ∧ σ'.routines = K.routines)
    (hm : RegsOk t.regs)
    (hv : σ'.vm = View t pc stk' ev un' rv) :
    SimU K stk un σ' t := by
  refine ⟨hr, hs, hl, he, hok, hu, hloc, ?_, ?_, ?_, ?_, ?_, ?_, ?_, ?_, ?_, ?_⟩
  all_goals rw [hv]
  all_goals first | exact hr | rfl | skip
  · obtain ⟨⟨m, hm⟩, hd⟩ := hm
    exact ⟨⟨m, by simp [View, hm]⟩, by simpa [View] using hd⟩
  · intro r hne
    simp [View, hne]

/-- the current activation's dictionary is the source level's `locals` -/
theorem SimU.activation (h : SimU K stk un σ s) : σ.locals = activation s.stack := by
  rw [h.stack]
  have hl := h.locals.1
  cases hK : K.ret with
  | none =>
    rw [hK] at hl
    cases hloc : σ.locals with
    | none => simp only [baseOf, hK, List.append_nil, activation_only_loops stk.frames h.loops]
    | some d => rw [hloc] at hl; simp at hl
  | some p =>
    obtain ⟨ret, rest⟩ := p
    rw [hK] at hl
    cases hloc : σ.locals with
    | none => rw [hloc] at hl; simp at hl
    | some d => simp only [baseOf, hK, activation_loops stk.frames d ret rest.1 h.loops]

theorem SimU.scope (h : SimU K stk un σ s) : ScopeAgree σ s :=
  ⟨h.globals, h.constants, h.activation⟩

theorem SimU.lookup (h : SimU K stk un σ s) (n : String) : σ.lookup n = s.getVariable n :=
  h.scope.lookup n

/-- moving the program counter does not disturb the relation -/
theorem SimU.setPc (h : SimU K stk un σ s) (q : Int) : SimU K stk un σ { s with pc := q } :=
  ⟨h.running, h.stack, h.loops, h.eval, h.evok, h.unnamed, h.locals, h.status, h.umode, h.globals, h.constants,
    h.lights, h.trace, h.defaultColor, h.matrix, h.draws, h.regs⟩

/-- a handler run on both sides keeps the relation -/
theorem SimU.device {hd : State → State} (hh : Handler hd) (h : SimU K stk un σ s) {σ' : S}
    (hdev : σ.device hd = (.normal, σ')) (q : Int) :
    (hd s).status = .running ∧ SimU K stk un σ' { hd s with pc := q } := by
  have hv := h.view
  have hcomm : hd σ.vm = View (hd s) σ.vm.pc σ.vm.stack σ.vm.eval σ.vm.unnamed (σ.vm.regs .result) := by
    conv => lhs; rw [hv]
    exact hh.view ..
  have hst : (hd σ.vm).status = (hd s).status := by rw [hcomm]; rfl
  have hnh := hh.nohalt s (by rw [h.running]; simp)
  obtain ⟨_, hstack, heval, hunn, _⟩ := hh.frame s
  simp only [S.device] at hdev
  split at hdev
  · simp at hdev
  · simp at hdev
  · rename_i hnf hnu
    simp only [Prod.mk.injEq, true_and] at hdev
    subst hdev
    have hrun : (hd s).status = .running := by
      rw [hst] at hnf hnu
      cases hx : (hd s).status with
      | running => rfl
      | halted => exact absurd hx hnh
      | fault w => exact absurd hx (hnf w)
      | uninterpreted w => exact absurd hx (hnu w)
    refine ⟨hrun, ?_⟩
    apply SimU.of_view (pc := σ.vm.pc) (stk' := σ.vm.stack) (ev := σ.vm.eval) (un' := σ.vm.unnamed)
      (rv := σ.vm.regs .result)
    · exact hrun
    · show (hd s).stack = _
      rw [hstack, h.stack]
    · exact h.loops
    · show (hd s).eval = stk.ev
      rw [heval, h.eval]
    · exact h.evok
    · show (hd s).unnamed = un
      rw [hunn, h.unnamed]
    · exact h.locals
    · apply hh.umode
      have hm := h.umode
      unfold RegsOk at hm ⊢
      rw [← h.regs _ (by decide), ← h.regs _ (by decide)]
      exact hm
    · show hd σ.vm = _
      rw [hcomm]; rfl


/-! ### reaching a state -/

/-- the machine started in `s` reaches a state satisfying `P` -/
def Exec (img : Image) (s : State) (P : State → Prop) : Prop := ∃ k, P (run img k s)

theorem Exec.done {img : Image} {s : State} {P : State → Prop} (h : P s) : Exec img s P := ⟨0, h⟩

theorem Exec.step {img : Image} {s : State} {P : State → Prop} (hs : s.status = .running)
    (h : Exec img (step img s) P) : Exec img s P := by
  obtain ⟨k, hk⟩ := h
  exact ⟨k + 1, by rw [run_succ _ _ _ hs]; exact hk⟩

theorem Exec.trans {img : Image} {s : State} {Q P : State → Prop} (h1 : Exec img s Q)
    (h2 : ∀ t, Q t → Exec img t P) : Exec img s P := by
  obtain ⟨k, hk⟩ := h1
  obtain ⟨j, hj⟩ := h2 _ hk
  exact ⟨k + j, by rw [run_add]; exact hj⟩

theorem Exec.mono {img : Image} {s : State} {Q P : State → Prop} (h1 : Exec img s Q)
    (h2 : ∀ t, Q t → P t) : Exec img s P := by
  obtain ⟨k, hk⟩ := h1
  exact ⟨k, h2 _ hk⟩

theorem Exec.of_run {img : Image} {s t : State} {P : State → Prop} (k : Nat) (h : run img k s = t)
    (hp : P t) : Exec img s P := ⟨k, by rw [h]; exact hp⟩

/-- the postcondition of a piece of code: control is at `q` and the relation holds -/
def At (K : Ctx) (q : Nat) (stk : Stk) (un : List Val) (σ : S) : State → Prop :=
  fun t => t.pc = (q : Int) ∧ SimU K stk un σ t

variable {img : Image} {K : Ctx} {stk : Stk} {un : List Val} {σ : S} {s : State} {pc : Nat}

/-- instructions after which the machine advances `pc` itself -/
def plain : Instr → Bool
  | .end_ _ | .endMatrix | .jsr _ | .jump _ _ | .stop => false
  | _ => true

/-- one ordinary instruction whose handler result is known -/
theorem step_eq (i : Instr) (t : State) (hs : s.status = .running) (hpc : s.pc = (pc : Int))
    (hi : img.code[pc]? = some i) (hplain : plain i = true)
    (he : execInstr img s i = t) (ht : t.status = .running) :
    step img s = { t with pc := t.pc + 1 } := by
  rw [step_plain img s pc i hs hpc hi (by rintro rfl; simp [plain] at hplain)
    (by cases i <;> first | rfl | simp [plain] at hplain) (by rw [he]; exact ht), he]

theorem execInstr_moveq (v : Val) (d : Dst) (hd : d ≠ .reg .unitMode) :
    execInstr img s (.moveq v d) = s.put d v := by
  simp only [execInstr]
  split <;> simp_all

/-! ### device instructions -/

theorem exec_device {hd : State → State} (hh : Handler hd) (i : Instr)
    (hex : ∀ t : State, execInstr img t i = hd t)
    (hplain : plain i = true)
    (h : SimU K stk un σ s) (hpc : s.pc = (pc : Int)) (hi : img.code[pc]? = some i) {σ' : S}
    (hdev : σ.device hd = (.normal, σ')) :
    Exec img s (At K (pc + 1) stk un σ') := by
  obtain ⟨hrun, hsim⟩ := h.device hh hdev ((pc : Int) + 1)
  apply Exec.step h.running
  apply Exec.done
  rw [step_eq i (hd s) h.running hpc hi hplain (hex s) hrun]
  have : (hd s).pc = s.pc := (hh.frame s).1
  rw [this, hpc]
  exact ⟨rfl, hsim⟩

theorem exec_wait (h : SimU K stk un σ s) (hpc : s.pc = (pc : Int)) (hi : img.code[pc]? = some .wait)
    {σ' : S} (hdev : (σ.device fun vm => execInstr default vm .wait) = (.normal, σ')) :
    Exec img s (At K (pc + 1) stk un σ') :=
  exec_device (handler_wait default) .wait (fun t => by simp only [execInstr]) rfl h hpc hi hdev

theorem exec_matrix (h : SimU K stk un σ s) (hpc : s.pc = (pc : Int)) (hi : img.code[pc]? = some .matrix)
    {σ' : S} (hdev : (σ.device fun vm => execInstr default vm .matrix) = (.normal, σ')) :
    Exec img s (At K (pc + 1) stk un σ') :=
  exec_device (handler_matrix default) .matrix (fun t => by simp only [execInstr]) rfl h hpc hi hdev

theorem exec_color (h : SimU K stk un σ s) (hpc : s.pc = (pc : Int)) (hi : img.code[pc]? = some .color)
    {σ' : S} (hdev : σ.device State.doColor = (.normal, σ')) :
    Exec img s (At K (pc + 1) stk un σ') :=
  exec_device handler_doColor .color (fun _ => rfl) rfl h hpc hi hdev

theorem exec_power (h : SimU K stk un σ s) (hpc : s.pc = (pc : Int)) (hi : img.code[pc]? = some .power)
    {σ' : S} (hdev : σ.device State.doPower = (.normal, σ')) :
    Exec img s (At K (pc + 1) stk un σ') :=
  exec_device handler_doPower .power (fun _ => rfl) rfl h hpc hi hdev

theorem exec_getColor (h : SimU K stk un σ s) (hpc : s.pc = (pc : Int)) (hi : img.code[pc]? = some .getColor)
    {σ' : S} (hdev : σ.device State.doGetColor = (.normal, σ')) :
    Exec img s (At K (pc + 1) stk un σ') :=
  exec_device handler_doGetColor .getColor (fun _ => rfl) rfl h hpc hi hdev

theorem exec_units (m : UnitMode) (h : SimU K stk un σ s) (hpc : s.pc = (pc : Int))
    (hi : img.code[pc]? = some (.moveq (.mode m) (.reg .unitMode)))
    {σ' : S} (hdev : (σ.device fun vm => vm.switchMode m) = (.normal, σ')) :
    Exec img s (At K (pc + 1) stk un σ') :=
  exec_device (handler_switchMode m) _ (fun t => by simp only [execInstr]) rfl h hpc hi hdev


/-! ### values -/

/-- call-free expressions that do not read the scratch register -/
inductive Pure : Expr → Prop
  | lit (v : Val) : Pure (.lit v)
  | var (n : String) : Pure (.var n)
  | reg (r : Reg) : r ≠ .result → Pure (.reg r)
  | un (minus : Bool) (e : Expr) : Pure e → Pure (.un minus e)
  | bin (op : Operator) (a b : Expr) : Pure a → Pure b → Pure (.bin op a b)
  | paren (e : Expr) : Pure e → Pure (.paren e)

theorem Pure.callFree {e : Expr} (h : Pure e) : CallFree e := by
  induction h with
  | lit v => exact .lit v rfl
  | var n => exact .var n
  | reg r _ => exact .reg r
  | un m e _ ih => exact .un m e ih
  | bin op a b _ _ iha ihb => exact .bin op a b iha ihb
  | paren e _ ih => exact .paren e ih

/-- value positions of the fragment: literal, variable, register other than `result`, or a
call-free expression of any depth -/
def RvOK : Rv → Prop
  | .lit _ => True
  | .var _ => True
  | .reg r => r ≠ .result
  | .expr e => Pure e
  | .call _ _ _ => False

/-- names and registers mean the same on both sides -/
def EnvAgree (σ τ : S) : Prop :=
  (∀ n, σ.lookup n = τ.lookup n) ∧ ∀ r, r ≠ .result → σ.vm.regs r = τ.vm.regs r

/-- the value of a pure expression depends only on the meaning of names and registers -/
theorem evalExpr_congr {e : Expr} (he : Pure e) :
    ∀ (f : Nat) (σ σ' τ : S) (x : Val), EnvAgree σ τ → evalExpr f e σ = .ok (x, σ') →
      σ' = σ ∧ evalExpr f e τ = .ok (x, τ) := by
  induction he with
  | lit v =>
    intro f σ σ' τ x _ h
    cases f with
    | zero => simp [evalExpr] at h
    | succ f =>
      simp only [evalExpr, Except.ok.injEq, Prod.mk.injEq] at h ⊢
      exact ⟨h.2.symm, h.1, trivial⟩
  | var n =>
    intro f σ σ' τ x henv h
    cases f with
    | zero => simp [evalExpr] at h
    | succ f =>
      simp only [evalExpr] at h ⊢
      rw [← henv.1 n]
      split at h
      · simp at h
      · rename_i hne
        simp only [Except.ok.injEq, Prod.mk.injEq] at h
        obtain ⟨rfl, rfl⟩ := h
        exact ⟨rfl, rfl⟩
  | reg r hr =>
    intro f σ σ' τ x henv h
    cases f with
    | zero => simp [evalExpr] at h
    | succ f =>
      simp only [evalExpr] at h ⊢
      rw [← henv.2 r hr]
      split at h
      · simp at h
      · rename_i hne
        simp only [Except.ok.injEq, Prod.mk.injEq] at h
        obtain ⟨rfl, rfl⟩ := h
        exact ⟨rfl, rfl⟩
  | paren e _ ih =>
    intro f σ σ' τ x henv h
    cases f with
    | zero => simp [evalExpr] at h
    | succ f =>
      simp only [evalExpr] at h ⊢
      exact ih f σ σ' τ x henv h
  | un minus e _ ih =>
    intro f σ σ' τ x henv h
    cases f with
    | zero => simp [evalExpr] at h
    | succ f =>
      simp only [evalExpr] at h ⊢
      split at h
      · rename_i v σ1 hev
        obtain ⟨rfl, h2⟩ := ih f σ σ1 τ v henv hev
        rw [h2]
        cases minus with
        | false =>
          simp only [Bool.false_eq_true, if_false, Except.ok.injEq, Prod.mk.injEq] at h ⊢
          exact ⟨h.2.symm, h.1, trivial⟩
        | true =>
          simp only [if_true] at h ⊢
          split at h
          · rename_i r hr
            simp only [Except.ok.injEq, Prod.mk.injEq] at h
            obtain ⟨rfl, rfl⟩ := h
            simp
          · simp at h
      · simp at h
  | bin op a b _ _ iha ihb =>
    intro f σ σ' τ r henv h
    cases f with
    | zero => simp [evalExpr] at h
    | succ f =>
      obtain ⟨x, σ1, y, ha, hb, hv⟩ := evalExpr_bin_ok f op a b σ σ' r h
      obtain ⟨rfl, ha'⟩ := iha f σ σ1 τ x henv ha
      obtain ⟨rfl, hb'⟩ := ihb f σ1 σ' τ y henv hb
      refine ⟨rfl, ?_⟩
      have h' := h
      simp only [evalExpr, ha, hb] at h'
      simp only [evalExpr, ha', hb']
      cases op <;> simp only [] at h' ⊢
      all_goals (repeat' split at h') <;> simp_all


variable {img : Image} {K : Ctx} {stk : Stk} {un : List Val} {σ : S} {s : State} {pc : Nat}

theorem putVariable_setPc (s : State) (n : String) (v : Val) (q : Int) :
    ({ s with pc := q } : State).putVariable n v = { s.putVariable n v with pc := q } := by
  unfold State.putVariable
  simp only []
  repeat' split
  all_goals first | rfl | simp_all

theorem put_setPc (s : State) (d : Dst) (v : Val) (q : Int) :
    ({ s with pc := q } : State).put d v = { s.put d v with pc := q } := by
  cases d with
  | reg r => rfl
  | var n => exact putVariable_setPc s n v q
  | loopVar l =>
    simp only [State.put, State.putLoopVar]
    split <;> rfl

theorem put_pc (s : State) (d : Dst) (v : Val) : (s.put d v).pc = s.pc := by
  have := put_setPc s d v s.pc
  have h2 : ({ s with pc := s.pc } : State) = s := rfl
  rw [h2] at this
  rw [this]


theorem sameEnv_of_loops (s : State) (hl : LoopsOnly s.stack) : SameEnv { vm := s } s := by
  refine ⟨fun n => ?_, rfl⟩
  simp only [S.lookup, State.getVariable, activation_only_loops s.stack hl]
  rfl

/-- the code of a value position, to any destination but the unit-mode register: it stores
the source-level value with the machine's one store routine, and nothing else happens -/
theorem run_genRv (v : Rv) (hv : RvOK v) (d : Dst) (hd : d ≠ .reg .unitMode)
    (h : SimU K stk un σ s) (hpc : s.pc = (pc : Int)) (hc : CodeAt img pc (Gen.genRv v (.to d)))
    {f : Nat} {x : Val} {σ' : S} (hev : evalRv f v σ = .ok (x, σ'))
    (hput : (s.put d x).status = .running) :
    σ' = σ ∧ run img (Gen.genRv v (.to d)).length s =
      { s.put d x with pc := (pc : Int) + (Gen.genRv v (.to d)).length } := by
  cases f with
  | zero => simp [evalRv] at hev
  | succ f =>
  cases v with
  | call _ _ _ => exact absurd hv (by simp [RvOK])
  | lit v =>
    simp only [evalRv, Except.ok.injEq, Prod.mk.injEq] at hev
    obtain ⟨rfl, rfl⟩ := hev
    refine ⟨rfl, ?_⟩
    simp only [Gen.genRv, List.length_cons, List.length_nil] at hc ⊢
    rw [run_one _ _ h.running,
      step_eq _ _ h.running hpc hc.head rfl (execInstr_moveq v d hd) hput, put_pc, hpc]
    rfl
  | var n =>
    simp only [evalRv, Except.ok.injEq, Prod.mk.injEq] at hev
    obtain ⟨rfl, rfl⟩ := hev
    refine ⟨rfl, ?_⟩
    simp only [Gen.genRv, List.length_cons, List.length_nil] at hc ⊢
    have hex : execInstr img s (.move (.var n) d) = s.put d (σ.lookup n) := by
      simp only [execInstr, State.read, h.lookup n]
    rw [run_one _ _ h.running, step_eq _ _ h.running hpc hc.head rfl hex hput, put_pc, hpc]
    rfl
  | reg r =>
    have hr : r ≠ .result := hv
    simp only [evalRv, Except.ok.injEq, Prod.mk.injEq] at hev
    obtain ⟨rfl, rfl⟩ := hev
    refine ⟨rfl, ?_⟩
    by_cases hdr : d = .reg r
    · subst hdr
      simp only [Gen.genRv, if_true, List.length_nil, Vm.run]
      apply State.ext' <;> try rfl
      · simp [hpc]
      · funext r'
        by_cases h' : r' = r
        · subst h'; simp [State.put, State.setReg, h.regs _ hr]
        · simp [State.put, State.setReg, h']
    · simp only [Gen.genRv, if_neg hdr, List.length_cons, List.length_nil] at hc ⊢
      have hex : execInstr img s (.move (.reg r) d) = s.put d (σ.vm.regs r) := by
        simp only [execInstr, State.read, h.regs r hr]
      rw [run_one _ _ h.running, step_eq _ _ h.running hpc hc.head rfl hex hput, put_pc, hpc]
      rfl
  | expr e =>
    have he : Pure e := hv
    simp only [evalRv] at hev
    have hsame : SameEnv { vm := s, locals := σ.locals } s :=
      ⟨fun n => ScopeAgree.lookup (σ := { vm := s, locals := σ.locals }) ⟨rfl, rfl, h.activation⟩ n, rfl⟩
    have henv : EnvAgree σ { vm := s, locals := σ.locals } :=
      ⟨fun n => by rw [h.lookup n, ← hsame.1 n], fun r hr => h.regs r hr⟩
    obtain ⟨hσ', hτ⟩ := evalExpr_congr he f σ σ' { vm := s, locals := σ.locals } x henv hev
    refine ⟨hσ', ?_⟩
    have h1 := (C02_same_value_everywhere img e he.callFree d f { vm := s, locals := σ.locals }
      { vm := s, locals := σ.locals } x s pc h.running hpc hc hsame hτ).1
    rw [h1, put_setPc]
    have hst : ({ s.put d x with pc := (pc : Int) + (Gen.genExpr e).length } : State).status = .running := hput
    rw [if_pos hst]
    simp only [Gen.genRv, List.length_append, List.length_cons, List.length_nil]
    apply State.ext' <;> try rfl


/-! ### the relation is kept by the elementary updates -/

theorem SimU.setReg (h : SimU K stk un σ s) (r : Reg) (v : Val) (hr : SettableReg r := by decide) :
    SimU K stk un (σ.setReg r v) (s.setReg r v) :=
  ⟨h.running, h.stack, h.loops, h.eval, h.evok, h.unnamed, h.locals, h.status,
    h.umode.setReg hr v, h.globals, h.constants,
    h.lights, h.trace, h.defaultColor, h.matrix, h.draws, fun r' hr' => by
      simp only [S.setReg, State.setReg]
      split
      · rfl
      · exact h.regs r' hr'⟩

theorem SimU.setResult (h : SimU K stk un σ s) (v : Val) : SimU K stk un σ (s.setReg .result v) :=
  ⟨h.running, h.stack, h.loops, h.eval, h.evok, h.unnamed, h.locals, h.status, h.umode, h.globals, h.constants,
    h.lights, h.trace, h.defaultColor, h.matrix, h.draws, fun r' hr' => by
      simp only [State.setReg, if_neg hr']
      exact h.regs r' hr'⟩

theorem SimU.semSetResult (h : SimU K stk un σ s) (v : Val) : SimU K stk un (σ.setReg .result v) s :=
  ⟨h.running, h.stack, h.loops, h.eval, h.evok, h.unnamed, h.locals, h.status, h.umode, h.globals, h.constants,
    h.lights, h.trace, h.defaultColor, h.matrix, h.draws, fun r' hr' => by
      simp only [S.setReg, State.setReg, if_neg hr']
      exact h.regs r' hr'⟩

theorem SimU.emit (h : SimU K stk un σ s) (e : Event) : SimU K stk un (σ.emit e) (s.emit e) :=
  ⟨h.running, h.stack, h.loops, h.eval, h.evok, h.unnamed, h.locals, h.status, h.umode, h.globals, h.constants,
    h.lights, by simp only [S.emit, State.emit, h.trace], h.defaultColor, h.matrix, h.draws, h.regs⟩

theorem SimU.assign (h : SimU K stk un σ s) (n : String) (v : Val) :
    SimU K stk un (σ.assign n v) (s.putVariable n v) := by
  have hstack := h.stack
  have hloc := h.locals.1
  have hrt := h.locals.2
  cases hK : K.ret with
  | none =>
    rw [hK] at hloc
    have hnone : σ.locals = none := by
      cases hl : σ.locals with
      | none => rfl
      | some d => rw [hl] at hloc; simp at hloc
    simp only [baseOf, hK, List.append_nil] at hstack
    have hl : LoopsOnly s.stack := by rw [hstack]; exact h.loops
    rw [C03_toplevel_assign s n v hl]
    have : σ.assign n v = { σ with vm := { σ.vm with globals := σ.vm.globals.put n v } } := by
      simp only [S.assign, hnone]
    rw [this]
    exact ⟨h.running, by simpa [baseOf, hK] using hstack, h.loops, h.eval, h.evok, h.unnamed,
      ⟨by rw [hK]; simpa using hloc, hrt⟩, h.status, h.umode,
      by simp only [h.globals], h.constants, h.lights, h.trace, h.defaultColor, h.matrix, h.draws, h.regs⟩
  | some p =>
    obtain ⟨ret, rest⟩ := p
    rw [hK] at hloc
    cases hl : σ.locals with
    | none => rw [hl] at hloc; simp at hloc
    | some d =>
      rw [hl] at hstack
      simp only [baseOf, hK] at hstack
      by_cases hn : d.has n = true
      · rw [C03_param_private s stk.frames d ret rest.1 n v h.loops hstack hn]
        have : σ.assign n v = { σ with locals := some (d.put n v) } := by
          simp only [S.assign, hl, hn, if_true]
        rw [this]
        exact ⟨h.running, by simp only [baseOf, hK], h.loops, h.eval, h.evok, h.unnamed,
          ⟨by rw [hK]; rfl, hrt⟩, h.status, h.umode, h.globals, h.constants,
          h.lights, h.trace, h.defaultColor, h.matrix, h.draws, h.regs⟩
      · have hn : d.has n = false := by simpa using hn
        by_cases hg : s.globals.has n = true
        · rw [C03_global_assign s stk.frames d ret rest.1 n v h.loops hstack hn hg]
          have : σ.assign n v = { σ with vm := { σ.vm with globals := σ.vm.globals.put n v } } := by
            simp only [S.assign, hl, hn, h.globals, hg, if_true, Bool.false_eq_true, if_false]
          rw [this]
          exact ⟨h.running, by simp only [hl, baseOf, hK]; exact hstack, h.loops, h.eval, h.evok, h.unnamed,
            ⟨by simp only [hl, hK]; rfl, hrt⟩, h.status, h.umode,
            by simp only [h.globals], h.constants, h.lights, h.trace, h.defaultColor, h.matrix, h.draws,
            h.regs⟩
        · have hg : s.globals.has n = false := by simpa using hg
          rw [C03_new_name_is_local s stk.frames d ret rest.1 n v h.loops hstack hn hg]
          have hput : d.put n v = d ++ [(n, v)] := by
            have : d.any (·.1 == n) = false := hn
            simp [Dict.put, this]
          have : σ.assign n v = { σ with locals := some (d ++ [(n, v)]) } := by
            simp only [S.assign, hl, hn, h.globals, hg, Bool.false_eq_true, if_false, hput]
          rw [this]
          exact ⟨h.running, by simp only [baseOf, hK], h.loops, h.eval, h.evok, h.unnamed,
            ⟨by rw [hK]; rfl, hrt⟩, h.status, h.umode, h.globals, h.constants,
            h.lights, h.trace, h.defaultColor, h.matrix, h.draws, h.regs⟩

theorem SimU.constant (h : SimU K stk un σ s) (n : String) (v : Val) :
    SimU K stk un { σ with vm := { σ.vm with constants := σ.vm.constants.put n v } }
      { s with constants := s.constants.put n v } :=
  ⟨h.running, h.stack, h.loops, h.eval, h.evok, h.unnamed, h.locals, h.status, h.umode, h.globals,
    by simp only [h.constants], h.lights, h.trace, h.defaultColor, h.matrix, h.draws, h.regs⟩

theorem SimU.setUnnamed (h : SimU K stk un σ s) (un' : List Val) :
    SimU K stk un' σ { s with unnamed := un' } :=
  ⟨h.running, h.stack, h.loops, h.eval, h.evok, rfl, h.locals, h.status, h.umode, h.globals, h.constants,
    h.lights, h.trace, h.defaultColor, h.matrix, h.draws, h.regs⟩

/-! ### value positions -/

/-- `r v` (a register setting) -/
theorem exec_setReg (v : Rv) (hv : RvOK v) (r : Reg) (hr : SettableReg r)
    (h : SimU K stk un σ s) (hpc : s.pc = (pc : Int))
    (hc : CodeAt img pc (Gen.genRv v (.to (.reg r))))
    {f : Nat} {x : Val} {σ' : S} (hev : evalRv f v σ = .ok (x, σ')) :
    σ' = σ ∧ Exec img s (At K (pc + (Gen.genRv v (.to (.reg r))).length) stk un (σ.setReg r x)) := by
  obtain ⟨rfl, hrun⟩ := run_genRv v hv (.reg r) (by simpa using hr.1) h hpc hc hev h.running
  exact ⟨rfl, Exec.of_run _ hrun ⟨rfl, (h.setReg r x hr).setPc _⟩⟩

/-- a value delivered in `result` (condition, printed value, argument): the source-level state
does not change -/
theorem exec_toResult (v : Rv) (hv : RvOK v)
    (h : SimU K stk un σ s) (hpc : s.pc = (pc : Int))
    (hc : CodeAt img pc (Gen.genRv v (.to Gen.result)))
    {f : Nat} {x : Val} {σ' : S} (hev : evalRv f v σ = .ok (x, σ')) :
    σ' = σ ∧ Exec img s (fun t =>
      At K (pc + (Gen.genRv v (.to Gen.result)).length) stk un σ t ∧ t.regs .result = x) := by
  obtain ⟨rfl, hrun⟩ := run_genRv v hv Gen.result (by simp [Gen.result]) h hpc hc hev h.running
  refine ⟨rfl, Exec.of_run _ hrun ⟨⟨rfl, (h.setResult x).setPc _⟩, ?_⟩⟩
  simp [Gen.result, State.put, State.setReg]

/-- `assign n v` -/
theorem exec_assign (v : Rv) (hv : RvOK v) (n : String)
    (h : SimU K stk un σ s) (hpc : s.pc = (pc : Int))
    (hc : CodeAt img pc (Gen.genRv v (.to (.var n))))
    {f : Nat} {x : Val} {σ' : S} (hev : evalRv f v σ = .ok (x, σ')) :
    σ' = σ ∧ Exec img s (At K (pc + (Gen.genRv v (.to (.var n))).length) stk un (σ.assign n x)) := by
  have hsim := h.assign n x
  obtain ⟨rfl, hrun⟩ := run_genRv v hv (.var n) (by simp) h hpc hc hev hsim.running
  exact ⟨rfl, Exec.of_run _ hrun ⟨rfl, hsim.setPc _⟩⟩


/-! ### single instructions -/

/-- `MOVEQ v r` for a register other than the unit mode -/
theorem exec_moveqReg (v : Val) (r : Reg) (hr : SettableReg r)
    (h : SimU K stk un σ s) (hpc : s.pc = (pc : Int)) (hi : img.code[pc]? = some (.moveq v (.reg r))) :
    Exec img s (At K (pc + 1) stk un (σ.setReg r v)) := by
  apply Exec.step h.running
  apply Exec.done
  rw [step_eq _ (s.setReg r v) h.running hpc hi rfl
    (by rw [execInstr_moveq v (.reg r) (by simpa using hr.1)]; rfl) h.running]
  refine ⟨?_, (h.setReg r v hr).setPc _⟩
  show s.pc + 1 = _
  rw [hpc]; omega

/-- the name of the light / group / location -/
theorem exec_genName (n : NameSpec) (h : SimU K stk un σ s) (hpc : s.pc = (pc : Int))
    (hi : img.code[pc]? = some (Gen.genName n)) :
    Exec img s (At K (pc + 1) stk un
      (match n with
        | .str x => σ.setReg .name (.str x)
        | .var x => σ.setReg .name (σ.lookup x))) := by
  cases n with
  | str x => exact exec_moveqReg (.str x) .name (by decide) h hpc hi
  | var x =>
    simp only [Gen.genName] at hi
    apply Exec.step h.running
    apply Exec.done
    rw [step_eq _ (s.setReg .name (σ.lookup x)) h.running hpc hi rfl
      (by simp only [execInstr, State.read, State.put, h.lookup x]) h.running]
    refine ⟨?_, (h.setReg .name _).setPc _⟩
    show s.pc + 1 = _
    rw [hpc]; omega

/-- `MOVE result name` (the `get` statement) -/
theorem exec_moveResultName (h : SimU K stk un σ s) (hpc : s.pc = (pc : Int))
    (hi : img.code[pc]? = some (.move (.reg .result) (.reg .name))) :
    Exec img s (fun t => At K (pc + 1) stk un (σ.setReg .name (s.regs .result)) t ∧
      t.regs .result = s.regs .result) := by
  apply Exec.step h.running
  apply Exec.done
  rw [step_eq _ (s.setReg .name (s.regs .result)) h.running hpc hi rfl
    (by simp only [execInstr, State.read, State.put]) h.running]
  refine ⟨⟨?_, (h.setReg .name _).setPc _⟩, ?_⟩
  · show s.pc + 1 = _
    rw [hpc]; omega
  · simp [State.setReg]

theorem exec_endMatrix (h : SimU K stk un σ s) (hpc : s.pc = (pc : Int))
    (hi : img.code[pc]? = some .endMatrix) :
    Exec img s (At K (pc + 1) stk un σ) := by
  apply Exec.step h.running
  apply Exec.done
  have : step img s = { s with pc := s.pc + 1 } := by
    unfold step
    have h0 : ¬ (s.pc < 0) := by omega
    have h1 : s.pc.toNat = pc := by omega
    rw [if_neg (by simp [h.running]), if_neg h0, h1, hi]
    simp [execInstr, h.running]
  rw [this, hpc]
  exact ⟨rfl, h.setPc _⟩

theorem exec_constant (n : String) (v : Val) (h : SimU K stk un σ s) (hpc : s.pc = (pc : Int))
    (hi : img.code[pc]? = some (.constant n v)) :
    Exec img s (At K (pc + 1) stk un σ) := by
  apply Exec.step h.running
  apply Exec.done
  rw [step_eq _ s h.running hpc hi rfl (by simp only [execInstr]) h.running]
  refine ⟨?_, h.setPc _⟩
  show s.pc + 1 = _
  rw [hpc]; omega

/-- a conditional or unconditional relative jump -/
theorem exec_jump (c : JumpCond) (off : Int) (tgt : Nat) (hc : c ≠ .indirect)
    (h : SimU K stk un σ s) (hpc : s.pc = (pc : Int)) (hi : img.code[pc]? = some (.jump c off))
    (ht : (pc : Int) + (if (match c with
            | .always => true
            | .ifFalse => !(s.regs .result).truthy
            | _ => (s.regs .result).truthy) then off else 1) = (tgt : Int)) :
    Exec img s (At K tgt stk un σ) := by
  apply Exec.step h.running
  apply Exec.done
  have : step img s = { s with pc := s.pc + (if (match c with
            | .always => true
            | .ifFalse => !(s.regs .result).truthy
            | _ => (s.regs .result).truthy) then off else 1) } := by
    unfold step
    have h0 : ¬ (s.pc < 0) := by omega
    have h1 : s.pc.toNat = pc := by omega
    rw [if_neg (by simp [h.running]), if_neg h0, h1, hi]
    cases c <;> simp [execInstr, h.running] at hc ⊢ <;> split <;> simp_all
  rw [this, hpc, ht]
  exact ⟨rfl, h.setPc _⟩

/-! ### output -/

/-- `OUT REGISTER result`: the value waits for the `PRINT`/`PRINTF` that follows -/
theorem exec_outRegister (h : SimU K stk un σ s) (hpc : s.pc = (pc : Int))
    (hi : img.code[pc]? = some (.out .register (.reg .result))) :
    Exec img s (At K (pc + 1) stk (un ++ [s.regs .result]) σ) := by
  apply Exec.step h.running
  apply Exec.done
  rw [step_eq _ { s with unnamed := s.unnamed ++ [s.regs .result] } h.running hpc hi rfl
    (by simp only [execInstr, State.read]) h.running]
  refine ⟨?_, ?_⟩
  · show s.pc + 1 = _
    rw [hpc]; omega
  · have := (h.setUnnamed (un ++ [s.regs .result])).setPc ((pc : Int) + 1)
    rw [h.unnamed, hpc]
    exact this

/-- `OUT PRINT`: the waiting value is written -/
theorem exec_outPrint (x : Val) (a : Src) (h : SimU K stk (un ++ [x]) σ s) (hpc : s.pc = (pc : Int))
    (hi : img.code[pc]? = some (.out .print a)) :
    Exec img s (At K (pc + 1) stk un (σ.emit (.out x))) := by
  apply Exec.step h.running
  apply Exec.done
  rw [step_eq _ { (s.emit (.out x)) with unnamed := un } h.running hpc hi rfl
    (by simp only [execInstr, h.unnamed]; simp) h.running]
  refine ⟨?_, ?_⟩
  · show s.pc + 1 = _
    rw [hpc]; omega
  · exact ((h.emit (.out x)).setUnnamed un).setPc _

theorem exec_outPrintEnd (a : Src) (h : SimU K stk un σ s) (hpc : s.pc = (pc : Int))
    (hi : img.code[pc]? = some (.out .printEnd a)) :
    Exec img s (At K (pc + 1) stk un (σ.emit .newline)) := by
  apply Exec.step h.running
  apply Exec.done
  rw [step_eq _ (s.emit .newline) h.running hpc hi rfl (by simp only [execInstr]) h.running]
  refine ⟨?_, (h.emit .newline).setPc _⟩
  show s.pc + 1 = _
  rw [hpc]; omega

/-- `PRINTF`: with at least as many positional fields as waiting values, all of them are
written, and the named fields are looked up as the source says (no field named `result`) -/
theorem exec_outPrintf (fmt : String) (h : SimU K stk un σ s) (hpc : s.pc = (pc : Int))
    (hi : img.code[pc]? = some (.out .printf (.lit (.str fmt))))
    (hcount : un.length ≤ positionalCount (fmt.replace "\\n" "\n").toList)
    (hres : "result" ∉ fieldNames (fmt.replace "\\n" "\n").toList) :
    Exec img s (At K (pc + 1) stk []
      (σ.emit (.outFmt fmt un
        ((fieldNames (fmt.replace "\\n" "\n").toList).map fun n =>
          (n, match σ.lookup n with
              | .none => (match regByName n with
                  | some r => σ.vm.regs r
                  | none => .none)
              | v => v))))) := by
  have hnamed : ((fieldNames (fmt.replace "\\n" "\n").toList).map fun n =>
          (n, match σ.lookup n with
              | .none => (match regByName n with
                  | some r => σ.vm.regs r
                  | none => .none)
              | v => v)) =
      ((fieldNames (fmt.replace "\\n" "\n").toList).map fun n =>
          (n, match s.getVariable n with
              | .none => (match regByName n with
                  | some r => s.regs r
                  | none => .none)
              | v => v)) := by
    apply List.map_congr_left
    intro n hn
    rw [h.lookup n]
    congr 1
    split
    · split
      · rename_i r hr
        have : r ≠ .result := by
          rintro rfl
          have : n = "result" := by
            unfold regByName at hr
            split at hr <;> simp_all
          exact hres (this ▸ hn)
        rw [h.regs r this]
      · rfl
    · rfl
  apply Exec.step h.running
  apply Exec.done
  have hk : un.length - positionalCount (fmt.replace "\\n" "\n").toList = 0 := by omega
  rw [hnamed]
  have hex : execInstr img s (.out .printf (.lit (.str fmt))) =
      { (s.emit (.outFmt fmt un ((fieldNames (fmt.replace "\\n" "\n").toList).map fun n =>
          (n, match s.getVariable n with
              | .none => (match regByName n with
                  | some r => s.regs r
                  | none => .none)
              | v => v)))) with unnamed := [] } := by
    simp only [execInstr, h.unnamed, hk, List.drop_zero, List.take_zero]
    rfl
  rw [step_eq _ _ h.running hpc hi rfl hex h.running]
  refine ⟨?_, ?_⟩
  · show s.pc + 1 = _
    rw [hpc]; omega
  · exact ((h.emit _).setUnnamed []).setPc _

/-- the `time` register after `at p and q and …` -/
theorem exec_timePatterns (rest : List TP.Pat) :
    ∀ (p0 : TP.Pat) {σ : S} {s : State} {pc : Nat}, SimU K stk un σ s → s.pc = (pc : Int) →
      σ.vm.regs .time = .pat p0 →
      CodeAt img pc (rest.map fun q => Instr.timePattern false (.pat q)) →
      Exec img s (At K (pc + rest.length) stk un (σ.setReg .time (.pat (rest.foldl TP.Pat.union p0)))) := by
  induction rest with
  | nil =>
    intro p0 σ s pc h hpc ht _
    apply Exec.done
    refine ⟨by simpa using hpc, ?_⟩
    have := h.setReg .time (.pat p0)
    refine ⟨h.running, h.stack, h.loops, h.eval, h.evok, h.unnamed, h.locals, h.status, h.umode, h.globals,
      h.constants, h.lights, h.trace, h.defaultColor, h.matrix, h.draws, fun r hr => ?_⟩
    simp only [List.foldl_nil, S.setReg, State.setReg]
    split
    · rename_i hrt; rw [← h.regs r hr, hrt, ht]
    · exact h.regs r hr
  | cons q rest ih =>
    intro p0 σ s pc h hpc ht hc
    have hts : s.regs .time = .pat p0 := by rw [← h.regs .time (by decide), ht]
    apply Exec.step h.running
    rw [step_eq _ (s.setReg .time (.pat (p0.union q))) h.running hpc hc.head rfl
      (by simp only [execInstr, hts]) h.running]
    have h1 := (h.setReg .time (.pat (p0.union q))).setPc (((pc + 1 : Nat) : Int))
    have := ih (p0.union q) (σ := σ.setReg .time (.pat (p0.union q))) (pc := pc + 1)
      (s := { s.setReg .time (.pat (p0.union q)) with pc := ((pc + 1 : Nat) : Int) }) h1 rfl
      (by simp [S.setReg, State.setReg]) hc.tail
    have e : (s.setReg .time (.pat (p0.union q))).pc + 1 = ((pc + 1 : Nat) : Int) := by
      show s.pc + 1 = _
      rw [hpc]; simp
    rw [e]
    refine this.mono fun t ht' => ⟨?_, ?_⟩
    · rw [ht'.1]; simp only [List.length_cons]; omega
    · have h2 := ht'.2
      simp only [List.foldl_cons]
      refine ⟨h2.running, h2.stack, h2.loops, h2.eval, h2.evok, h2.unnamed, h2.locals, h2.status, h2.umode, h2.globals,
        h2.constants, h2.lights, h2.trace, h2.defaultColor, h2.matrix, h2.draws, fun r hr => ?_⟩
      rw [← h2.regs r hr]
      simp only [S.setReg, State.setReg]
      split <;> simp_all


/-! ### generated code as instructions: `break` markers resolved -/

/-- the instructions of `code` placed at address `pc`, with every `break` marker turned into
the jump to `exit` (the address of the enclosing loop's `END_LOOP`) -/
def resolve : Code → Nat → Int → List Instr
  | [], _, _ => []
  | .i x :: rest, pc, ex => x :: resolve rest (pc + 1) ex
  | .brk :: rest, pc, ex => .jump .always (ex - (pc : Int)) :: resolve rest (pc + 1) ex

@[simp] theorem resolve_length (c : Code) (pc : Nat) (ex : Int) : (resolve c pc ex).length = c.length := by
  induction c generalizing pc with
  | nil => rfl
  | cons g rest ih => cases g <;> simp [resolve, ih]

theorem resolve_append (a b : Code) (pc : Nat) (ex : Int) :
    resolve (a ++ b) pc ex = resolve a pc ex ++ resolve b (pc + a.length) ex := by
  induction a generalizing pc with
  | nil => simp [resolve]
  | cons g rest ih =>
    cases g <;> simp [resolve, ih, Nat.add_assoc, Nat.add_comm 1]

@[simp] theorem resolve_ins (xs : List Instr) (pc : Nat) (ex : Int) : resolve (ins xs) pc ex = xs := by
  induction xs generalizing pc with
  | nil => rfl
  | cons x rest ih =>
    have : ins (x :: rest) = G.i x :: ins rest := rfl
    rw [this, resolve, ih]

@[simp] theorem ins_length (xs : List Instr) : (ins xs).length = xs.length := by simp [ins]

/-- a program without `break` markers: the resolved code is the program -/
theorem resolve_of_mapM (c : Code) (prog : List Instr)
    (h : (c.mapM fun g => match g with | .i x => some x | .brk => none) = some prog)
    (pc : Nat) (ex : Int) : resolve c pc ex = prog := by
  induction c generalizing pc prog with
  | nil => simp at h; subst h; rfl
  | cons g rest ih =>
    cases g with
    | brk => simp [List.mapM_cons] at h
    | i x =>
      simp only [List.mapM_cons, Option.pure_def, Option.bind_eq_bind, Option.bind_some] at h
      cases hr : rest.mapM (fun g => match g with | .i x => some x | .brk => none) with
      | none => simp [hr] at h
      | some p' =>
        simp [hr] at h
        subst h
        simp [resolve, ih p' hr]

/-- `patchBreaks` as a recursion -/
def patchRec : Code → Nat → Nat → Code
  | [], _, _ => []
  | .brk :: rest, base, target => G.i (.jump .always ((target : Int) - (base : Int))) :: patchRec rest (base + 1) target
  | x :: rest, base, target => x :: patchRec rest (base + 1) target

theorem patch_aux (code : Code) (base target n : Nat) :
    (code.zipIdx n).map (fun (g, k) =>
      match g with
      | .brk => G.i (.jump .always ((target : Int) - ((base + k : Nat) : Int)))
      | x => x) = patchRec code (base + n) target := by
  induction code generalizing n with
  | nil => rfl
  | cons g rest ih =>
    simp only [List.zipIdx_cons, List.map_cons]
    rw [ih (n + 1)]
    cases g with
    | brk => simp only [patchRec, Nat.add_assoc]
    | i x => simp only [patchRec, Nat.add_assoc]

theorem patchBreaks_eq (code : Code) (base target : Nat) :
    patchBreaks code base target = patchRec code base target := by
  have := patch_aux code base target 0
  rw [Nat.add_zero] at this
  exact this

/-- patched code resolves like the unpatched code with the patch target as exit -/
theorem resolve_patchRec (code : Code) (base target pc : Nat) (ex : Int) :
    resolve (patchRec code base target) pc ex = resolve code pc ((pc : Int) - base + target) := by
  induction code generalizing base pc with
  | nil => rfl
  | cons g rest ih =>
    cases g with
    | brk =>
      simp only [patchRec, resolve, ih]
      congr 2
      · omega
      · congr 1; omega
    | i x =>
      simp only [patchRec, resolve, ih]
      congr 2
      omega


/-- evaluation of a pure expression fails only with a fault, an uninterpreted operation or
lack of fuel — never with a control outcome -/
theorem evalExpr_error {e : Expr} (he : Pure e) :
    ∀ (f : Nat) (σ : S) (o : Outcome), evalExpr f e σ = .error o → o ≠ .normal ∧ o ≠ .brk ∧ o ≠ .ret := by
  induction he with
  | lit v => intro f σ o h; cases f <;> simp [evalExpr] at h; subst h; simp
  | var n =>
    intro f σ o h
    cases f with
    | zero => simp [evalExpr] at h; subst h; simp
    | succ f => simp only [evalExpr] at h; split at h <;> simp at h; subst h; simp
  | reg r _ =>
    intro f σ o h
    cases f with
    | zero => simp [evalExpr] at h; subst h; simp
    | succ f => simp only [evalExpr] at h; split at h <;> simp at h; subst h; simp
  | paren e _ ih =>
    intro f σ o h
    cases f with
    | zero => simp [evalExpr] at h; subst h; simp
    | succ f => simp only [evalExpr] at h; exact ih f σ o h
  | un m e _ ih =>
    intro f σ o h
    cases f with
    | zero => simp [evalExpr] at h; subst h; simp
    | succ f =>
      simp only [evalExpr] at h
      split at h
      · split at h
        · split at h <;> simp at h
          subst h; simp
        · simp at h
      · rename_i o' he'
        simp at h; subst h
        exact ih f σ _ he'
  | bin op a b _ _ iha ihb =>
    intro f σ o h
    cases f with
    | zero => simp [evalExpr] at h; subst h; simp
    | succ f =>
      simp only [evalExpr] at h
      split at h
      · rename_i o' he'
        simp at h; subst h
        exact iha f σ _ he'
      · split at h
        · rename_i o' he'
          simp at h; subst h
          exact ihb f _ _ he'
        · cases op <;> simp only [] at h
          all_goals (repeat' split at h)
          all_goals simp at h
          all_goals (subst h; simp)

theorem evalRv_error {v : Rv} (hv : RvOK v) (f : Nat) (σ : S) (o : Outcome)
    (h : evalRv f v σ = .error o) : o ≠ .normal ∧ o ≠ .brk ∧ o ≠ .ret := by
  cases f with
  | zero => simp [evalRv] at h; subst h; simp
  | succ f =>
    cases v with
    | lit _ => simp [evalRv] at h
    | var _ => simp [evalRv] at h
    | reg _ => simp [evalRv] at h
    | expr e => simp only [evalRv] at h; exact evalExpr_error hv f σ o h
    | call _ _ _ => exact absurd hv (by simp [RvOK])


end Sim
end Bardolph
