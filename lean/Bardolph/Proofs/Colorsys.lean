import Bardolph.Model.Units
import Mathlib.Tactic.Linarith
import Mathlib.Tactic.Ring
import Mathlib.Tactic.FieldSimp
import Mathlib.Tactic.NormNum
import Mathlib.Tactic.Positivity
/-!
`colorsys` over ℚ (`rgbToHsv`, `hsvToRgb` of `Bardolph.Model.Units`):

* `hsvToRgb_rgbToHsv` — `hsv_to_rgb ∘ rgb_to_hsv` is the identity on non-negative triples;
* `rgbToHsv_hsvToRgb` — `rgb_to_hsv ∘ hsv_to_rgb` is the identity for `0 ≤ h < 1`, `0 < s`,
  `0 < v`;
* `pyMod_one_range`, `rgbToHsv_range`, `rgbToHsv_value`, `hsvToRgb_range` — the ranges;
* `hsvToRgb_hue_one`, `hsvToRgb_sat_zero`, `hsvToRgb_val_zero` — the special arguments.

`hsvToRgb_sextant0 … 5` evaluate `hsvToRgb` when `h * 6 = n + f` with `0 ≤ f < 1`.
-/

namespace Bardolph.Units

/-! ## floor, `trunc`, `pyMod` -/

/-- `floor x = n` from `n ≤ x < n + 1` -/
theorem floor_eq_of {x : Rat} {n : Int} (h1 : (n : Rat) ≤ x) (h2 : x < (n : Rat) + 1) :
    x.floor = n := by
  apply le_antisymm
  · have : x.floor < n + 1 := Rat.floor_lt_iff.2 (by push_cast; exact h2)
    omega
  · exact Rat.le_floor_iff.2 h1

/-- `int(x) = n` for `0 ≤ n ≤ x < n + 1` -/
theorem trunc_eq_of {x : Rat} {n : Int} (hn : 0 ≤ n) (h1 : (n : Rat) ≤ x)
    (h2 : x < (n : Rat) + 1) : trunc x = n := by
  have hx : (0 : Rat) ≤ x := le_trans (by exact_mod_cast hn) h1
  rw [trunc, if_pos hx, floor_eq_of h1 h2]

theorem pyMod_one_of_nonneg {y : Rat} (h0 : 0 ≤ y) (h1 : y < 1) : pyMod y 1 = y := by
  have : y.floor = 0 := floor_eq_of (by simpa using h0) (by simpa using h1)
  simp [pyMod, this]

theorem pyMod_one_of_neg {y : Rat} (h0 : -1 ≤ y) (h1 : y < 0) : pyMod y 1 = y + 1 := by
  have : y.floor = -1 := floor_eq_of (by simpa using h0) (by simpa using h1)
  simp [pyMod, this]

/-- `y % 1.0` lies in `[0, 1)` -/
theorem pyMod_one_range (y : Rat) : 0 ≤ pyMod y 1 ∧ pyMod y 1 < 1 := by
  have h1 := Rat.floor_le (y / 1)
  have h2 := Rat.lt_floor_add_one (y / 1)
  rw [div_one] at h1 h2
  push_cast at h2
  simp only [pyMod, div_one, one_mul]
  constructor <;> linarith

/-! ## The six sextants of `hsvToRgb` -/

theorem hsvToRgb_sextant0 {h s v f : Rat} (hs : s ≠ 0) (hh : h * 6 = 0 + f) (hf0 : 0 ≤ f)
    (hf1 : f < 1) : hsvToRgb h s v = (v, v * (1 - s * (1 - f)), v * (1 - s)) := by
  have ht : trunc (h * 6) = 0 :=
    trunc_eq_of (by norm_num) (by push_cast; linarith) (by push_cast; linarith)
  have hf : h * 6 - ((0 : Int) : Rat) = f := by push_cast; linarith
  simp only [hsvToRgb, if_neg hs, ht, hf]
  rfl

theorem hsvToRgb_sextant1 {h s v f : Rat} (hs : s ≠ 0) (hh : h * 6 = 1 + f) (hf0 : 0 ≤ f)
    (hf1 : f < 1) : hsvToRgb h s v = (v * (1 - s * f), v, v * (1 - s)) := by
  have ht : trunc (h * 6) = 1 :=
    trunc_eq_of (by norm_num) (by push_cast; linarith) (by push_cast; linarith)
  have hf : h * 6 - ((1 : Int) : Rat) = f := by push_cast; linarith
  simp only [hsvToRgb, if_neg hs, ht, hf]
  rfl

theorem hsvToRgb_sextant2 {h s v f : Rat} (hs : s ≠ 0) (hh : h * 6 = 2 + f) (hf0 : 0 ≤ f)
    (hf1 : f < 1) : hsvToRgb h s v = (v * (1 - s), v, v * (1 - s * (1 - f))) := by
  have ht : trunc (h * 6) = 2 :=
    trunc_eq_of (by norm_num) (by push_cast; linarith) (by push_cast; linarith)
  have hf : h * 6 - ((2 : Int) : Rat) = f := by push_cast; linarith
  simp only [hsvToRgb, if_neg hs, ht, hf]
  rfl

theorem hsvToRgb_sextant3 {h s v f : Rat} (hs : s ≠ 0) (hh : h * 6 = 3 + f) (hf0 : 0 ≤ f)
    (hf1 : f < 1) : hsvToRgb h s v = (v * (1 - s), v * (1 - s * f), v) := by
  have ht : trunc (h * 6) = 3 :=
    trunc_eq_of (by norm_num) (by push_cast; linarith) (by push_cast; linarith)
  have hf : h * 6 - ((3 : Int) : Rat) = f := by push_cast; linarith
  simp only [hsvToRgb, if_neg hs, ht, hf]
  rfl

theorem hsvToRgb_sextant4 {h s v f : Rat} (hs : s ≠ 0) (hh : h * 6 = 4 + f) (hf0 : 0 ≤ f)
    (hf1 : f < 1) : hsvToRgb h s v = (v * (1 - s * (1 - f)), v * (1 - s), v) := by
  have ht : trunc (h * 6) = 4 :=
    trunc_eq_of (by norm_num) (by push_cast; linarith) (by push_cast; linarith)
  have hf : h * 6 - ((4 : Int) : Rat) = f := by push_cast; linarith
  simp only [hsvToRgb, if_neg hs, ht, hf]
  rfl

theorem hsvToRgb_sextant5 {h s v f : Rat} (hs : s ≠ 0) (hh : h * 6 = 5 + f) (hf0 : 0 ≤ f)
    (hf1 : f < 1) : hsvToRgb h s v = (v, v * (1 - s), v * (1 - s * f)) := by
  have ht : trunc (h * 6) = 5 :=
    trunc_eq_of (by norm_num) (by push_cast; linarith) (by push_cast; linarith)
  have hf : h * 6 - ((5 : Int) : Rat) = f := by push_cast; linarith
  simp only [hsvToRgb, if_neg hs, ht, hf]
  rfl

/-! ## Special arguments of `hsvToRgb` -/

theorem hsvToRgb_sat_zero (h v : Rat) : hsvToRgb h 0 v = (v, v, v) := by
  simp [hsvToRgb]

/-- hue 1 is hue 0 -/
theorem hsvToRgb_hue_one (s v : Rat) : hsvToRgb 1 s v = hsvToRgb 0 s v := by
  by_cases hs : s = 0
  · simp [hsvToRgb, hs]
  · have h6 : trunc ((1 : Rat) * 6) = 6 :=
      trunc_eq_of (by norm_num) (by norm_num) (by norm_num)
    rw [hsvToRgb_sextant0 hs (h := 0) (f := 0) (by norm_num) (by norm_num) (by norm_num)]
    simp only [hsvToRgb, if_neg hs, h6]
    norm_num

theorem hsvToRgb_val_zero (h s : Rat) (_hh : 0 ≤ h) (_hh1 : h ≤ 1) :
    hsvToRgb h s 0 = (0, 0, 0) := by
  by_cases hs : s = 0
  · simp [hsvToRgb, hs]
  · simp only [hsvToRgb, if_neg hs]
    split <;> simp

private theorem scale_range {v x : Rat} (hv : 0 ≤ v) (hx0 : 0 ≤ x) (hx1 : x ≤ 1) :
    0 ≤ v * (1 - x) ∧ v * (1 - x) ≤ v := by
  have h1 := mul_nonneg hv hx0
  have h2 := mul_nonneg hv (sub_nonneg.2 hx1)
  constructor <;> linarith

private theorem mul_unit_range {a b : Rat} (ha0 : 0 ≤ a) (ha1 : a ≤ 1) (hb0 : 0 ≤ b)
    (hb1 : b ≤ 1) : 0 ≤ a * b ∧ a * b ≤ 1 := by
  have h1 := mul_nonneg ha0 hb0
  have h2 := mul_nonneg ha0 (sub_nonneg.2 hb1)
  constructor <;> linarith

/-- every component of `hsvToRgb h s v` lies in `[0, v]` -/
theorem hsvToRgb_range (h s v : Rat) (hh : 0 ≤ h) (_hh1 : h ≤ 1) (hs : 0 ≤ s) (hs1 : s ≤ 1)
    (hv : 0 ≤ v) :
    0 ≤ (hsvToRgb h s v).1 ∧ (hsvToRgb h s v).1 ≤ v ∧
    0 ≤ (hsvToRgb h s v).2.1 ∧ (hsvToRgb h s v).2.1 ≤ v ∧
    0 ≤ (hsvToRgb h s v).2.2 ∧ (hsvToRgb h s v).2.2 ≤ v := by
  by_cases hs0 : s = 0
  · simp [hsvToRgb, hs0, hv]
  · have hx : (0 : Rat) ≤ h * 6 := by linarith
    have hf0 : 0 ≤ h * 6 - ((trunc (h * 6) : Int) : Rat) := by
      rw [trunc, if_pos hx]; linarith [Rat.floor_le (h * 6)]
    have hf1 : h * 6 - ((trunc (h * 6) : Int) : Rat) ≤ 1 := by
      have := Rat.lt_floor_add_one (h * 6)
      push_cast at this
      rw [trunc, if_pos hx]; linarith
    simp only [hsvToRgb, if_neg hs0]
    generalize h * 6 - ((trunc (h * 6) : Int) : Rat) = f at hf0 hf1 ⊢
    obtain ⟨hp0, hp1⟩ := scale_range hv hs hs1
    obtain ⟨hsf0, hsf1⟩ := mul_unit_range hs hs1 hf0 hf1
    obtain ⟨hq0, hq1⟩ := scale_range hv hsf0 hsf1
    obtain ⟨hsg0, hsg1⟩ := mul_unit_range hs hs1 (sub_nonneg.2 hf1) (by linarith : 1 - f ≤ 1)
    obtain ⟨ht0, ht1⟩ := scale_range hv hsg0 hsg1
    split <;> dsimp only <;>
      exact ⟨by assumption, by first | assumption | exact le_refl _, by assumption,
        by first | assumption | exact le_refl _, by assumption,
        by first | assumption | exact le_refl _⟩

/-! ## `rmax`, `rmin` of three numbers -/

theorem rmax3_spec (r g b : Rat) :
    r ≤ rmax (rmax r g) b ∧ g ≤ rmax (rmax r g) b ∧ b ≤ rmax (rmax r g) b ∧
    (rmax (rmax r g) b = r ∨ rmax (rmax r g) b = g ∨ rmax (rmax r g) b = b) := by
  unfold rmax
  split_ifs <;> refine ⟨by linarith, by linarith, by linarith, ?_⟩ <;> simp

theorem rmin3_spec (r g b : Rat) :
    rmin (rmin r g) b ≤ r ∧ rmin (rmin r g) b ≤ g ∧ rmin (rmin r g) b ≤ b ∧
    (rmin (rmin r g) b = r ∨ rmin (rmin r g) b = g ∨ rmin (rmin r g) b = b) := by
  unfold rmin
  split_ifs <;> refine ⟨by linarith, by linarith, by linarith, ?_⟩ <;> simp

theorem rmax3_eq {r g b M : Rat} (hr : r ≤ M) (hg : g ≤ M) (hb : b ≤ M)
    (hM : M = r ∨ M = g ∨ M = b) : rmax (rmax r g) b = M := by
  unfold rmax
  split_ifs <;> rcases hM with h | h | h <;> linarith

theorem rmin3_eq {r g b m : Rat} (hr : m ≤ r) (hg : m ≤ g) (hb : m ≤ b)
    (hm : m = r ∨ m = g ∨ m = b) : rmin (rmin r g) b = m := by
  unfold rmin
  split_ifs <;> rcases hm with h | h | h <;> linarith

/-! ## `hsvToRgb ∘ rgbToHsv = id` -/

private theorem pyMod_sixth {x : Rat} (h0 : 0 ≤ x) (h1 : x < 6) : pyMod (x / 6) 1 * 6 = x := by
  rw [pyMod_one_of_nonneg (by linarith) (by linarith)]; ring

private theorem pyMod_sixth_neg {x : Rat} (h0 : -1 ≤ x) (h1 : x < 0) :
    pyMod (x / 6) 1 * 6 = x + 6 := by
  rw [pyMod_one_of_neg (by linarith) (by linarith)]; ring

private theorem frac_range {y d : Rat} (hd : 0 < d) (h0 : 0 ≤ y) (h1 : y < d) :
    0 ≤ y / d ∧ y / d < 1 :=
  ⟨div_nonneg h0 hd.le, (div_lt_one hd).2 h1⟩

/-- componentwise equality of triples of rational expressions -/
local macro "triple_field" : tactic =>
  `(tactic| (refine Prod.ext ?_ (Prod.ext ?_ ?_) <;> dsimp only <;>
      first | rfl | (field_simp; ring) | field_simp))

/-- the round trip with the maximum `M` and the minimum `m` of a non-grey colour named -/
private theorem roundtrip_aux {r g b M m : Rat} (hM0 : 0 < M) (hlt : m < M)
    (hrM : r ≤ M) (hgM : g ≤ M) (hbM : b ≤ M) (hmr : m ≤ r) (hmg : m ≤ g) (hmb : m ≤ b)
    (hM : M = r ∨ M = g ∨ M = b) (hm : m = r ∨ m = g ∨ m = b) :
    hsvToRgb (pyMod ((if r = M then (M - b) / (M - m) - (M - g) / (M - m)
        else if g = M then 2 + (M - r) / (M - m) - (M - b) / (M - m)
        else 4 + (M - g) / (M - m) - (M - r) / (M - m)) / 6) 1) ((M - m) / M) M
      = (r, g, b) := by
  have hd : 0 < M - m := sub_pos.2 hlt
  have hd' : M - m ≠ 0 := ne_of_gt hd
  have hM' : M ≠ 0 := ne_of_gt hM0
  have hs : (M - m) / M ≠ 0 := div_ne_zero hd' hM'
  by_cases h1 : r = M
  · rw [if_pos h1]
    by_cases hbg : b ≤ g
    · have hbm : b = m := by rcases hm with h | h | h <;> linarith
      by_cases h2 : g = M
      · have hE : (M - b) / (M - m) - (M - g) / (M - m) = 1 + 0 := by
          rw [hbm, h2]; field_simp; ring
        rw [hE, hsvToRgb_sextant1 hs (f := 0)
          (by rw [pyMod_sixth (by norm_num) (by norm_num)]) le_rfl one_pos, h1, h2, hbm]
        triple_field
      · obtain ⟨hf0, hf1⟩ := frac_range (y := g - b) hd (by linarith)
          (by have := lt_of_le_of_ne hgM h2; linarith)
        have hE : (M - b) / (M - m) - (M - g) / (M - m) = 0 + (g - b) / (M - m) := by
          field_simp; ring
        rw [hE, hsvToRgb_sextant0 hs (f := (g - b) / (M - m))
          (by rw [pyMod_sixth (by linarith) (by linarith)]) hf0 hf1, h1, hbm]
        triple_field
    · have hgm : g = m := by rcases hm with h | h | h <;> linarith
      obtain ⟨hf0, hf1⟩ := frac_range (y := M - b) hd (by linarith) (by linarith)
      have hE : (M - b) / (M - m) - (M - g) / (M - m) = (M - b) / (M - m) - 1 := by
        rw [hgm]; field_simp
      rw [hE, hsvToRgb_sextant5 hs (f := (M - b) / (M - m))
        (by rw [pyMod_sixth_neg (by linarith) (by linarith)]; ring) hf0 hf1, h1, hgm]
      triple_field
  · have hr : r < M := lt_of_le_of_ne hrM h1
    rw [if_neg h1]
    by_cases h2 : g = M
    · rw [if_pos h2]
      by_cases hbr : b < r
      · have hbm : b = m := by rcases hm with h | h | h <;> linarith
        obtain ⟨hf0, hf1⟩ := frac_range (y := M - r) hd (by linarith) (by linarith)
        have hE : 2 + (M - r) / (M - m) - (M - b) / (M - m) = 1 + (M - r) / (M - m) := by
          rw [hbm]; field_simp; ring
        rw [hE, hsvToRgb_sextant1 hs (f := (M - r) / (M - m))
          (by rw [pyMod_sixth (by linarith) (by linarith)]) hf0 hf1, h2, hbm]
        triple_field
      · have hrm : r = m := by rcases hm with h | h | h <;> linarith
        by_cases h3 : b = M
        · have hE : 2 + (M - r) / (M - m) - (M - b) / (M - m) = 3 + 0 := by
            rw [hrm, h3]; field_simp; ring
          rw [hE, hsvToRgb_sextant3 hs (f := 0)
            (by rw [pyMod_sixth (by norm_num) (by norm_num)]) le_rfl one_pos, h2, h3, hrm]
          triple_field
        · obtain ⟨hf0, hf1⟩ := frac_range (y := b - r) hd (by linarith)
            (by have := lt_of_le_of_ne hbM h3; linarith)
          have hE : 2 + (M - r) / (M - m) - (M - b) / (M - m) = 2 + (b - r) / (M - m) := by
            field_simp; ring
          rw [hE, hsvToRgb_sextant2 hs (f := (b - r) / (M - m))
            (by rw [pyMod_sixth (by linarith) (by linarith)]) hf0 hf1, h2, hrm]
          triple_field
    · have hg : g < M := lt_of_le_of_ne hgM h2
      have h3 : b = M := by rcases hM with h | h | h <;> [exact absurd h.symm h1; exact absurd h.symm h2; exact h.symm]
      rw [if_neg h2]
      by_cases hrg : r < g
      · have hrm : r = m := by rcases hm with h | h | h <;> linarith
        obtain ⟨hf0, hf1⟩ := frac_range (y := M - g) hd (by linarith) (by linarith)
        have hE : 4 + (M - g) / (M - m) - (M - r) / (M - m) = 3 + (M - g) / (M - m) := by
          rw [hrm]; field_simp; ring
        rw [hE, hsvToRgb_sextant3 hs (f := (M - g) / (M - m))
          (by rw [pyMod_sixth (by linarith) (by linarith)]) hf0 hf1, h3, hrm]
        triple_field
      · have hgm : g = m := by rcases hm with h | h | h <;> linarith
        obtain ⟨hf0, hf1⟩ := frac_range (y := r - g) hd (by linarith) (by linarith)
        have hE : 4 + (M - g) / (M - m) - (M - r) / (M - m) = 4 + (r - g) / (M - m) := by
          field_simp; ring
        rw [hE, hsvToRgb_sextant4 hs (f := (r - g) / (M - m))
          (by rw [pyMod_sixth (by linarith) (by linarith)]) hf0 hf1, h3, hgm]
        triple_field

/-- `colorsys.hsv_to_rgb(*colorsys.rgb_to_hsv(r, g, b)) == (r, g, b)` over ℚ -/
theorem hsvToRgb_rgbToHsv (r g b : Rat) (hr : 0 ≤ r) (hg : 0 ≤ g) (hb : 0 ≤ b) :
    hsvToRgb (rgbToHsv r g b).1 (rgbToHsv r g b).2.1 (rgbToHsv r g b).2.2 = (r, g, b) := by
  obtain ⟨hrM, hgM, hbM, hM⟩ := rmax3_spec r g b
  obtain ⟨hmr, hmg, hmb, hm⟩ := rmin3_spec r g b
  simp only [rgbToHsv]
  generalize rmax (rmax r g) b = M at *
  generalize rmin (rmin r g) b = m at *
  by_cases hmM : m = M
  · rw [if_pos hmM]
    dsimp only
    rw [hsvToRgb_sat_zero, show r = M by linarith, show g = M by linarith,
      show b = M by linarith]
  · rw [if_neg hmM]
    dsimp only
    have hlt : m < M := lt_of_le_of_ne (le_trans hmr hrM) hmM
    have hm0 : 0 ≤ m := by rcases hm with h | h | h <;> linarith
    exact roundtrip_aux (by linarith) hlt hrM hgM hbM hmr hmg hmb hM hm

/-! ## Ranges of `rgbToHsv` -/

/-- the value is the maximum component -/
theorem rgbToHsv_value (r g b : Rat) : (rgbToHsv r g b).2.2 = rmax (rmax r g) b := by
  simp only [rgbToHsv]
  split_ifs <;> rfl

/-- hue in `[0, 1)`, saturation in `[0, 1]`, value non-negative -/
theorem rgbToHsv_range (r g b : Rat) (hr : 0 ≤ r) (hg : 0 ≤ g) (hb : 0 ≤ b) :
    0 ≤ (rgbToHsv r g b).1 ∧ (rgbToHsv r g b).1 < 1 ∧
    0 ≤ (rgbToHsv r g b).2.1 ∧ (rgbToHsv r g b).2.1 ≤ 1 ∧ 0 ≤ (rgbToHsv r g b).2.2 := by
  obtain ⟨hrM, hgM, hbM, hM⟩ := rmax3_spec r g b
  obtain ⟨hmr, hmg, hmb, hm⟩ := rmin3_spec r g b
  simp only [rgbToHsv]
  generalize rmax (rmax r g) b = M at *
  generalize rmin (rmin r g) b = m at *
  have hm0 : 0 ≤ m := by rcases hm with h | h | h <;> linarith
  by_cases hmM : m = M
  · rw [if_pos hmM]
    dsimp only
    exact ⟨le_rfl, one_pos, le_rfl, zero_le_one, by linarith⟩
  · rw [if_neg hmM]
    dsimp only
    have hlt : m < M := lt_of_le_of_ne (le_trans hmr hrM) hmM
    have hM0 : 0 < M := by linarith
    obtain ⟨h0, h1⟩ := pyMod_one_range ((if r = M then (M - b) / (M - m) - (M - g) / (M - m)
        else if g = M then 2 + (M - r) / (M - m) - (M - b) / (M - m)
        else 4 + (M - g) / (M - m) - (M - r) / (M - m)) / 6)
    exact ⟨h0, h1, div_nonneg (by linarith) hM0.le, (div_le_one hM0).2 (by linarith), hM0.le⟩

/-! ## `rgbToHsv ∘ hsvToRgb = id` -/

/-- `rgbToHsv` of a non-grey colour with the maximum `M` and the minimum `m` named -/
private theorem rgbToHsv_of {r g b M m : Rat} (hlt : m < M)
    (hrM : r ≤ M) (hgM : g ≤ M) (hbM : b ≤ M) (hmr : m ≤ r) (hmg : m ≤ g) (hmb : m ≤ b)
    (hM : M = r ∨ M = g ∨ M = b) (hm : m = r ∨ m = g ∨ m = b) :
    rgbToHsv r g b =
      (pyMod ((if r = M then (M - b) / (M - m) - (M - g) / (M - m)
        else if g = M then 2 + (M - r) / (M - m) - (M - b) / (M - m)
        else 4 + (M - g) / (M - m) - (M - r) / (M - m)) / 6) 1, (M - m) / M, M) := by
  simp only [rgbToHsv, rmax3_eq hrM hgM hbM hM, rmin3_eq hmr hmg hmb hm, if_neg (ne_of_lt hlt)]

private theorem hsv_triple_eq {E h s v : Rat} (hv : v ≠ 0) (h0 : 0 ≤ E) (h6 : E < 6)
    (hh : h * 6 = E) : (pyMod (E / 6) 1, v * s / v, v) = (h, s, v) := by
  rw [pyMod_one_of_nonneg (by linarith) (by linarith)]
  refine Prod.ext ?_ (Prod.ext ?_ rfl) <;> dsimp only
  · linarith
  · field_simp

private theorem hsv_triple_eq_neg {E h s v : Rat} (hv : v ≠ 0) (h0 : -1 ≤ E) (h1 : E < 0)
    (hh : h * 6 = E + 6) : (pyMod (E / 6) 1, v * s / v, v) = (h, s, v) := by
  rw [pyMod_one_of_neg (by linarith) (by linarith)]
  refine Prod.ext ?_ (Prod.ext ?_ rfl) <;> dsimp only
  · linarith
  · field_simp

/-- `colorsys.rgb_to_hsv(*colorsys.hsv_to_rgb(h, s, v)) == (h, s, v)` over ℚ; at `f = 0` the
`if r = maxc … else if g = maxc` chain takes an earlier branch with the same value -/
theorem rgbToHsv_hsvToRgb (h s v : Rat) (hh : 0 ≤ h) (hh1 : h < 1) (hs : 0 < s) (_hs1 : s ≤ 1)
    (hv : 0 < v) :
    rgbToHsv (hsvToRgb h s v).1 (hsvToRgb h s v).2.1 (hsvToRgb h s v).2.2 = (h, s, v) := by
  have hs' : s ≠ 0 := hs.ne'
  have hv' : v ≠ 0 := hv.ne'
  obtain ⟨n, f, hn0, hn5, hf0, hf1, hhf⟩ :
      ∃ (n : Int) (f : Rat), 0 ≤ n ∧ n ≤ 5 ∧ 0 ≤ f ∧ f < 1 ∧ h * 6 = n + f := by
    refine ⟨(h * 6).floor, h * 6 - (h * 6).floor, ?_, ?_, ?_, ?_, by ring⟩
    · exact Rat.le_floor_iff.2 (by push_cast; linarith)
    · have : (h * 6).floor < 6 := Rat.floor_lt_iff.2 (by push_cast; linarith)
      omega
    · linarith [Rat.floor_le (h * 6)]
    · have := Rat.lt_floor_add_one (h * 6)
      push_cast at this
      linarith
  have hvs : 0 < v * s := mul_pos hv hs
  have hvsf : 0 ≤ v * s * f := mul_nonneg hvs.le hf0
  have hvsg : 0 < v * s * (1 - f) := mul_pos hvs (by linarith)
  have e_p : v - v * (1 - s) = v * s := by ring
  have e_q : v - v * (1 - s * f) = v * s * f := by ring
  have e_t : v - v * (1 - s * (1 - f)) = v * s * (1 - f) := by ring
  obtain rfl | rfl | rfl | rfl | rfl | rfl : n = 0 ∨ n = 1 ∨ n = 2 ∨ n = 3 ∨ n = 4 ∨ n = 5 := by
    omega
  all_goals push_cast at hhf
  · -- (v, t, p)
    rw [hsvToRgb_sextant0 hs' hhf hf0 hf1]
    dsimp only
    rw [rgbToHsv_of (M := v) (m := v * (1 - s)) (by linarith) (by linarith) (by linarith)
      (by linarith) (by linarith) (by linarith) (by linarith) (Or.inl rfl) (Or.inr (Or.inr rfl)), if_pos rfl, e_p, e_t]
    have hE : v * s / (v * s) - v * s * (1 - f) / (v * s) = 0 + f := by field_simp; ring
    rw [hE]
    exact hsv_triple_eq hv' (by linarith) (by linarith) hhf
  · -- (q, v, p); q = v when f = 0
    rw [hsvToRgb_sextant1 hs' hhf hf0 hf1]
    dsimp only
    rw [rgbToHsv_of (M := v) (m := v * (1 - s)) (by linarith) (by linarith) (by linarith)
      (by linarith) (by linarith) (by linarith) (by linarith) (Or.inr (Or.inl rfl)) (Or.inr (Or.inr rfl))]
    by_cases hf : f = 0
    · have hq : v * (1 - s * f) = v := by rw [hf]; ring
      rw [if_pos hq, e_p, sub_self]
      have hE : v * s / (v * s) - 0 / (v * s) = 1 + f := by rw [hf]; field_simp; ring
      rw [hE]
      exact hsv_triple_eq hv' (by linarith) (by linarith) hhf
    · have hq : v * (1 - s * f) ≠ v := fun e =>
        mul_ne_zero (mul_ne_zero hv' hs') hf (by linarith)
      rw [if_neg hq, if_pos rfl, e_p, e_q]
      have hE : 2 + v * s * f / (v * s) - v * s / (v * s) = 1 + f := by field_simp; ring
      rw [hE]
      exact hsv_triple_eq hv' (by linarith) (by linarith) hhf
  · -- (p, v, t)
    rw [hsvToRgb_sextant2 hs' hhf hf0 hf1]
    dsimp only
    rw [rgbToHsv_of (M := v) (m := v * (1 - s)) (by linarith) (by linarith) (by linarith)
      (by linarith) (by linarith) (by linarith) (by linarith) (Or.inr (Or.inl rfl)) (Or.inl rfl), if_neg (ne_of_lt (by linarith)), if_pos rfl, e_p, e_t]
    have hE : 2 + v * s / (v * s) - v * s * (1 - f) / (v * s) = 2 + f := by field_simp; ring
    rw [hE]
    exact hsv_triple_eq hv' (by linarith) (by linarith) hhf
  · -- (p, q, v); q = v when f = 0
    rw [hsvToRgb_sextant3 hs' hhf hf0 hf1]
    dsimp only
    rw [rgbToHsv_of (M := v) (m := v * (1 - s)) (by linarith) (by linarith) (by linarith)
      (by linarith) (by linarith) (by linarith) (by linarith) (Or.inr (Or.inr rfl)) (Or.inl rfl), if_neg (ne_of_lt (by linarith))]
    by_cases hf : f = 0
    · have hq : v * (1 - s * f) = v := by rw [hf]; ring
      rw [if_pos hq, e_p, sub_self]
      have hE : 2 + v * s / (v * s) - 0 / (v * s) = 3 + f := by rw [hf]; field_simp; ring
      rw [hE]
      exact hsv_triple_eq hv' (by linarith) (by linarith) hhf
    · have hq : v * (1 - s * f) ≠ v := fun e =>
        mul_ne_zero (mul_ne_zero hv' hs') hf (by linarith)
      rw [if_neg hq, e_p, e_q]
      have hE : 4 + v * s * f / (v * s) - v * s / (v * s) = 3 + f := by field_simp; ring
      rw [hE]
      exact hsv_triple_eq hv' (by linarith) (by linarith) hhf
  · -- (t, p, v)
    rw [hsvToRgb_sextant4 hs' hhf hf0 hf1]
    dsimp only
    rw [rgbToHsv_of (M := v) (m := v * (1 - s)) (by linarith) (by linarith) (by linarith)
      (by linarith) (by linarith) (by linarith) (by linarith) (Or.inr (Or.inr rfl)) (Or.inr (Or.inl rfl)), if_neg (ne_of_lt (by linarith)), if_neg (ne_of_lt (by linarith)),
      e_p, e_t]
    have hE : 4 + v * s / (v * s) - v * s * (1 - f) / (v * s) = 4 + f := by field_simp; ring
    rw [hE]
    exact hsv_triple_eq hv' (by linarith) (by linarith) hhf
  · -- (v, p, q)
    rw [hsvToRgb_sextant5 hs' hhf hf0 hf1]
    dsimp only
    rw [rgbToHsv_of (M := v) (m := v * (1 - s)) (by linarith) (by linarith) (by linarith)
      (by linarith) (by linarith) (by linarith) (by linarith) (Or.inl rfl) (Or.inr (Or.inl rfl)), if_pos rfl, e_p, e_q]
    have hE : v * s * f / (v * s) - v * s / (v * s) = f - 1 := by field_simp
    rw [hE]
    exact hsv_triple_eq_neg hv' (by linarith) (by linarith) (by linarith)

end Bardolph.Units
